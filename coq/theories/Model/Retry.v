(* Hand model of retry.go: getRetryOptions, RunWithRetry, AddSelectedPeer, getHost.
   CanRetry / getErrCode / GetSystemErrorCode are NOT modelled here: they are the
   definitions generated from source in Gen/GenRetry.v. *)
From Coq Require Import ZArith List Bool.
From Verif Require Import Base.Wrap Base.Wire Gen.GenConsts Gen.GenRetry.
Import ListNotations.
Local Open Scope Z_scope.

Record retry_opts := { max_attempts : Z; retry_on : Z }.

(* getRetryOptions: no options in the context => defaults (MaxAttempts from the generated
   default); MaxAttempts = 0 => default MaxAttempts. *)
Definition default_opts : retry_opts := {| max_attempts := v_defaultRetryOptions_MaxAttempts; retry_on := c_RetryDefault |}.
Definition get_retry_options (o : option retry_opts) : retry_opts :=
  match o with
  | None => default_opts
  | Some o => if max_attempts o =? 0
              then {| max_attempts := max_attempts default_opts; retry_on := retry_on o |} else o
  end.

Definition nil_err : goerr := {| e_nil := true; e_sys := false; e_code := 0; e_net := false |}.

(* getHost: bytes before the LAST ':' (58); whole string when there is none *)
Fixpoint gh_has_colon (l : list Z) : bool :=
  match l with
  | [] => false
  | c :: r => orb (c =? 58) (gh_has_colon r)
  end.
Fixpoint get_host (hp : list Z) : list Z :=
  match hp with
  | [] => []
  | c :: r => if c =? 58 then (if gh_has_colon r then c :: get_host r else []) else c :: get_host r
  end.

(* AddSelectedPeer: the set gains hostPort and host.  Kept as an insertion-ordered list. *)
Definition add_selected (sel : list (list Z)) (hp : list Z) : list (list Z) :=
  sel ++ [hp; get_host hp].

(* One attempt of the user function: what it returns and which host:ports it marks as
   selected; it is given the attempt number and the selected set so far. *)
Definition attempt_fn := Z -> list (list Z) -> goerr * list (list Z).

Record attempt_obs := { ao_attempt : Z; ao_seen : list (list Z) }.

(* the for-loop of RunWithRetry, [n] = iterations left (MaxAttempts - i) *)
Fixpoint attempts (n : nat) (attempt : Z) (ron : Z) (f : attempt_fn) (sel : list (list Z))
         (last : goerr) (log : list attempt_obs) : goerr * list attempt_obs :=
  match n with
  | O => (last, log)
  | S n' =>
      let attempt := attempt + 1 in
      let '(err, added) := f attempt sel in
      let log := log ++ [{| ao_attempt := attempt; ao_seen := sel |}] in
      let sel := fold_left add_selected added sel in
      if e_nil err then (nil_err, log)
      else if negb (CanRetry ron err) then (err, log)
      else attempts n' attempt ron f sel err log
  end.

Definition run_with_retry (o : option retry_opts) (f : attempt_fn) : goerr * list attempt_obs :=
  let o := get_retry_options o in
  attempts (Z.to_nat (max_attempts o)) 0 (retry_on o) f [] nil_err [].

(* HasRetries *)
Definition has_retries (attempt : Z) (o : retry_opts) (err : goerr) : bool :=
  (attempt <? max_attempts o) && CanRetry (retry_on o) err.

(* ---- harness entry point -------------------------------------------------------
   case: has_opts maxAttempts retryOn  nOutcomes (nil sys code net  nAdded (bytes)* )*
   the scripted function returns outcome k at attempt k (the last outcome repeats).
   observable: err(nil sys code net) ncalls (attempt nSeen (bytes)* )*                     *)
Definition take_err (l : list Z) : goerr * list Z :=
  match l with
  | a :: b :: c :: d :: r => ({| e_nil := bz a; e_sys := bz b; e_code := c; e_net := bz d |}, r)
  | _ => (nil_err, [])
  end.
Definition take_outcome (l : list Z) : (goerr * list (list Z)) * list Z :=
  let '(e, r) := take_err l in
  let '(added, r') := take_list take_bytes r in ((e, added), r').
Definition put_err (e : goerr) : list Z :=
  if e_nil e then [1; 0; 0; 0] else [0; zb (e_sys e); (if e_sys e then e_code e else 0); zb (e_net e)].

Definition scripted (outs : list (goerr * list (list Z))) : attempt_fn :=
  fun attempt _ => nth (Z.to_nat (attempt - 1)) outs (last outs (nil_err, [])).

Definition run_retry (c : list Z) : list Z :=
  match c with
  | has :: ma :: ron :: r =>
      let '(outs, _) := take_list take_outcome r in
      let o := if bz has then Some {| max_attempts := ma; retry_on := ron |} else None in
      let '(e, log) := run_with_retry o (scripted outs) in
      put_err e ++ put_list (fun a => ao_attempt a :: put_list put_bytes (canon_set (ao_seen a))) log
  | _ => [-1]
  end.

(* CanRetry table point: r nil sys code net -> 0/1 *)
Definition run_canretry (c : list Z) : list Z :=
  match c with
  | r :: rest => let '(e, _) := take_err rest in [zb (CanRetry r e)]
  | _ => [-1]
  end.
