(* Hand model of fragmenting_writer.go and fragmenting_reader.go (with the argument
   helpers of arguments.go), over structured fragments. *)
From Coq Require Import ZArith List Bool.
From Verif Require Import Base.Wrap Base.Bytes Base.Wire Gen.GenConsts Gen.GenFrame Model.Crc.
Import ListNotations.
Local Open Scope Z_scope.

(* What a fragment carries besides its message header *)
Record frag := mkFrag { f_more : bool; f_ctype : Z; f_ck : list Z; f_chunks : list (list Z) }.

Fixpoint app_last (cs : list (list Z)) (bs : list Z) : list (list Z) :=
  match cs with
  | [] => [bs]                (* not reached: there is always an open chunk *)
  | [c] => [c ++ bs]
  | c :: r => c :: app_last r bs
  end.

(* ================= writer ================= *)
(* states: generated c_fragmentingWrite* constants (0 start, 1 in-arg, 2 in-last, 3 waiting, 4 complete)
   error codes: 0 nil, 1 errAlreadyWritingArgument, 2 errNotWritingArgument, 3 errComplete *)
Record wst := mkWst {
  ws_state : Z; ws_err : Z;
  ws_out : list frag;                 (* fragments handed to flushFragment, in order *)
  ws_has : bool;                      (* curFragment != nil *)
  ws_chunks : list (list Z);          (* chunks of the current fragment, the open one last *)
  ws_room : Z;                        (* curFragment.contents.BytesRemaining() *)
  ws_ck : ckst;
  ws_done : bool                      (* sender.doneSending() called *)
}.

Section Writer.
  (* room a fresh fragment offers to chunks: initial / continuation *)
  Variable capf : bool -> Z.

  Definition w_init (ck : ckst) : wst := mkWst c_fragmentingWriteStart 0 [] false [] 0 ck false.

  Definition is_writing (s : Z) : bool := (s =? c_fragmentingWriteInArgument) || (s =? c_fragmentingWriteInLastArgument).

  Definition set_err (st : wst) (e : Z) : wst :=
    mkWst (ws_state st) e (ws_out st) (ws_has st) (ws_chunks st) (ws_room st) (ws_ck st) (ws_done st).

  (* fragment.finish(more) + flushFragment: the current fragment goes out *)
  Definition emit (st : wst) (more : bool) : list frag :=
    ws_out st ++ [mkFrag more (ck_typecode (ws_ck st)) (ck_sum (ws_ck st)) (ws_chunks st)].

  (* result: None = panic; Some (returned error code, state) *)
  Definition w_begin (last : bool) (st : wst) : option (Z * wst) :=
    if negb (ws_err st =? 0) then Some (ws_err st, st)
    else if ws_state st =? c_fragmentingWriteComplete then Some (3, set_err st 3)
    else if is_writing (ws_state st) then Some (1, set_err st 1)
    else
      let '(chunks, room) :=
        if ws_has st then (ws_chunks st, ws_room st)
        else ([], capf (ws_state st =? c_fragmentingWriteStart)) in
      if room <=? c_chunkHeaderSize then None      (* panic: "attempting to begin an argument in a fragment with only ..." *)
      else Some (0, mkWst (if last then c_fragmentingWriteInLastArgument else c_fragmentingWriteInArgument) 0
                          (ws_out st) true (chunks ++ [[]]) (room - c_chunkHeaderSize) (ws_ck st) (ws_done st)).

  (* Flush: finish chunk + fragment (more = true), new continuation fragment with a new chunk *)
  Definition w_flush_raw (st : wst) : wst :=
    mkWst (ws_state st) 0 (emit st true) true [[]] (capf false - c_chunkHeaderSize) (ws_ck st) (ws_done st).

  Definition w_flush (st : wst) : option (Z * wst) :=
    if is_writing (ws_state st) then Some (0, w_flush_raw st) else None.   (* misuse: curChunk is nil / stale *)

  (* the loop of Write; fuel bounds the number of flushes *)
  Fixpoint w_write_loop (fuel : nat) (b : list Z) (st : wst) : wst :=
    let n := Z.min (zlen b) (Z.max (ws_room st) 0) in
    let now := firstn (Z.to_nat n) b in
    let st1 := mkWst (ws_state st) 0 (ws_out st) true (app_last (ws_chunks st) now) (ws_room st - n)
                     (ck_add (ws_ck st) now) (ws_done st) in
    if n =? zlen b then st1
    else match fuel with
         | O => st1
         | S f => w_write_loop f (skipn (Z.to_nat n) b) (w_flush_raw st1)
         end.

  Definition w_write (b : list Z) (st : wst) : option (Z * wst) :=
    if negb (ws_err st =? 0) then Some (ws_err st, st)
    else if negb (is_writing (ws_state st)) then Some (2, set_err st 2)
    else Some (0, w_write_loop (S (length b)) b st).

  Definition w_close (st : wst) : option (Z * wst) :=
    if negb (ws_err st =? 0) then Some (ws_err st, st)
    else if negb (is_writing (ws_state st)) then Some (2, set_err st 2)
    else if ws_state st =? c_fragmentingWriteInLastArgument then
      (* the last fragment goes out; nothing of it is used afterwards *)
      Some (0, mkWst c_fragmentingWriteComplete 0 (emit st false) false [] 0 (ws_ck st) true)
    else if ws_room st >? c_chunkHeaderSize then
      Some (0, mkWst c_fragmentingWriteWaitingForArgument 0 (ws_out st) true (ws_chunks st) (ws_room st) (ws_ck st) (ws_done st))
    else
      (* fragment full: flush, new fragment whose first chunk is empty (end-of-argument marker) *)
      Some (0, mkWst c_fragmentingWriteWaitingForArgument 0 (emit st true) true [[]] (capf false - 2) (ws_ck st) (ws_done st)).

  Inductive wop := WBegin (last : bool) | WWrite (b : list Z) | WFlush | WClose.

  Definition w_step (st : wst) (o : wop) : option (Z * wst) :=
    match o with
    | WBegin l => w_begin l st
    | WWrite b => w_write b st
    | WFlush => w_flush st
    | WClose => w_close st
    end.

  (* run a script; None = panic.  Collects the per-op error codes. *)
  Fixpoint w_run (ops : list wop) (st : wst) (codes : list Z) : option (list Z * wst) :=
    match ops with
    | [] => Some (codes, st)
    | o :: r => match w_step st o with
                | None => None
                | Some (c, st') => w_run r st' (codes ++ [c])
                end
    end.
End Writer.

(* ================= reader ================= *)
(* error codes: 0 nil, 1 errAlreadyReadingArgument, 2 errNotReadingArgument, 3 errComplete,
   4 errMoreDataInArgument, 5 errExpectedMoreArguments, 6 errNoMoreFragments,
   7 errMismatchedChecksumTypes, 8 errMismatchedChecksums, 9 receiver error (no fragment arrives),
   12 io.EOF (Read only, not sticky), 13 fragment without chunks *)
Record rst := mkRst {
  rs_state : Z; rs_err : Z;
  rs_rem : list (list Z);          (* remainingChunks *)
  rs_cur : list Z;                 (* curChunk *)
  rs_more : bool;                  (* hasMoreFragments *)
  rs_in : list frag;               (* fragments the receiver will deliver *)
  rs_ck : option ckst;
  rs_got : Z;                      (* fragments received so far *)
  rs_rel : Z;                      (* fragments released (done()) so far *)
  rs_fin : bool                    (* receiver.doneReading called *)
}.

Definition r_init (fs : list frag) : rst := mkRst c_fragmentingReadStart 0 [] [] true fs None 0 0 false.

Definition is_reading (s : Z) : bool := (s =? c_fragmentingReadInArgument) || (s =? c_fragmentingReadInLastArgument).

Definition rset_err (st : rst) (e : Z) : rst :=
  mkRst (rs_state st) e (rs_rem st) (rs_cur st) (rs_more st) (rs_in st) (rs_ck st) (rs_got st) (rs_rel st) (rs_fin st).

(* recvAndParseNextFragment, on an already parsed fragment (chunk parsing is in FragWire.v).
   None = panic.  Some (code, st): code 0 = ok.  The previous fragment is released first. *)
Definition r_recv (st : rst) : option (Z * rst) :=
  if negb (rs_err st =? 0) then Some (rs_err st, st) else
  let rel := if rs_got st >? rs_rel st then rs_got st else rs_rel st in   (* curFragment.done() *)
  match rs_in st with
  | [] => Some (9, mkRst (rs_state st) 9 (rs_rem st) (rs_cur st) (rs_more st) [] (rs_ck st) (rs_got st) rel (rs_fin st))
  | f :: rest =>
      let got := rs_got st + 1 in
      (* first fragment: ChecksumType.New() -- a type byte out of range would panic here;
         the fragment parser rejects such frames before they reach the reader *)
      match (match rs_ck st with Some c => Some c | None => ck_new (f_ctype f) end) with
      | None => None
      | Some c =>
          let st0 := mkRst (rs_state st) 0 (rs_rem st) (rs_cur st) (rs_more st) rest (Some c) got rel (rs_fin st) in
          if negb (ck_typecode c =? f_ctype f) && (match rs_ck st with Some _ => true | None => false end)
          then Some (7, rset_err st0 7)
          else
            let c' := fold_left ck_add (f_chunks f) c in
            let st1 := mkRst (rs_state st) 0 [] (rs_cur st) (f_more f) rest (Some c') got rel (rs_fin st) in
            if negb (bytes_eqb (f_ck f) (ck_sum c')) then Some (8, rset_err st1 8)
            else match f_chunks f with
                 | [] => Some (13, rset_err st1 13)
                 | ch :: chs => Some (0, mkRst (rs_state st) 0 chs ch (f_more f) rest (Some c') got rel (rs_fin st))
                 end
      end
  end.

Definition r_begin (last : bool) (st : rst) : option (Z * rst) :=
  if negb (rs_err st =? 0) then Some (rs_err st, st)
  else if is_reading (rs_state st) then Some (1, rset_err st 1)
  else if rs_state st =? c_fragmentingReadComplete then Some (3, rset_err st 3)
  else
    let go (st : rst) :=
      Some (0, mkRst (if last then c_fragmentingReadInLastArgument else c_fragmentingReadInArgument) 0
                     (rs_rem st) (rs_cur st) (rs_more st) (rs_in st) (rs_ck st) (rs_got st) (rs_rel st) (rs_fin st)) in
    if rs_state st =? c_fragmentingReadStart then
      match r_recv st with
      | None => None
      | Some (c, st') => if c =? 0 then go st' else Some (c, st')
      end
    else go st.

(* Read(b) with len(b) = n: bytes read, code (0 nil / 12 EOF / error), state *)
Fixpoint r_read_loop (fuel : nat) (n : Z) (acc : list Z) (st : rst) : option (list Z * Z * rst) :=
  let k := Z.min n (zlen (rs_cur st)) in
  let got := firstn (Z.to_nat k) (rs_cur st) in
  let st1 := mkRst (rs_state st) (rs_err st) (rs_rem st) (skipn (Z.to_nat k) (rs_cur st)) (rs_more st) (rs_in st)
                   (rs_ck st) (rs_got st) (rs_rel st) (rs_fin st) in
  let acc := acc ++ got in
  if n - k =? 0 then Some (acc, 0, st1)
  else match rs_rem st1 with
       | _ :: _ => Some (acc, 12, st1)
       | [] => if negb (rs_more st1) then Some (acc, 12, st1)
               else match fuel with
                    | O => Some (acc, 9, st1)
                    | S f => match r_recv st1 with
                             | None => None
                             | Some (c, st2) => if c =? 0 then r_read_loop f (n - k) acc st2 else Some (acc, c, st2)
                             end
                    end
       end.

Definition r_read (n : Z) (st : rst) : option (list Z * Z * rst) :=
  if negb (rs_err st =? 0) then Some ([], rs_err st, st)
  else if negb (is_reading (rs_state st)) then Some ([], 2, rset_err st 2)
  else r_read_loop (S (length (rs_in st))) n [] st.

(* Close.  Case 4 (no chunk left, more fragments): fetch fragments until one brings a
   further chunk; the chunk that continues the closed argument must be empty. *)
Fixpoint r_close_next (fuel : nat) (st : rst) : option (Z * rst) :=
  match rs_rem st with
  | ch :: chs => Some (0, mkRst (rs_state st) 0 chs ch (rs_more st) (rs_in st) (rs_ck st) (rs_got st) (rs_rel st) (rs_fin st))
  | [] => if negb (rs_more st) then Some (6, rset_err st 6)
          else match fuel with
               | O => Some (9, rset_err st 9)
               | S f => match r_recv st with
                        | None => None
                        | Some (c, st') =>
                            if negb (c =? 0) then Some (c, st')
                            else if zlen (rs_cur st') >? 0 then Some (4, rset_err st' 4)
                            else r_close_next f st'
                        end
               end
  end.

Definition r_close (st : rst) : option (Z * rst) :=
  if negb (rs_err st =? 0) then Some (rs_err st, st)
  else if negb (is_reading (rs_state st)) then Some (2, rset_err st 2)
  else if zlen (rs_cur st) >? 0 then Some (4, rset_err st 4)
  else if rs_state st =? c_fragmentingReadInLastArgument then
    (match rs_rem st with
     | _ :: _ => Some (5, rset_err st 5)
     | [] => if rs_more st then Some (5, rset_err st 5)
             else Some (0, mkRst c_fragmentingReadComplete 0 [] [] false (rs_in st) (rs_ck st) (rs_got st) (rs_got st) true)
     end)
  else
    let st := mkRst c_fragmentingReadWaitingForArgument 0 (rs_rem st) (rs_cur st) (rs_more st) (rs_in st) (rs_ck st)
                    (rs_got st) (rs_rel st) (rs_fin st) in
    r_close_next (S (length (rs_in st))) st.

(* ArgReadHelper.Read: ReadAll (repeated reads of size [bufsz] until EOF), EnsureEmpty
   (one more read of 128), Close.  Returns bytes, code. *)
Fixpoint r_readall (fuel : nat) (bufsz : Z) (acc : list Z) (st : rst) : option (list Z * Z * rst) :=
  match fuel with
  | O => Some (acc, 9, st)
  | S f => match r_read bufsz st with
           | None => None
           | Some (bs, c, st') =>
               if c =? 0 then r_readall f bufsz (acc ++ bs) st'
               else if c =? 12 then Some (acc ++ bs, 0, st')
               else Some (acc ++ bs, c, st')
           end
  end.

Definition total_bytes (st : rst) : Z :=
  zlen (rs_cur st) + fold_right (fun c a => zlen c + a) 0 (rs_rem st)
  + fold_right (fun f a => fold_right (fun c b => zlen c + b) 0 (f_chunks f) + a) 0 (rs_in st).

Definition r_helper_read (bufsz : Z) (st : rst) : option (list Z * Z * rst) :=
  match r_readall (S (Z.to_nat (total_bytes st)) + length (rs_in st) + 2) bufsz [] st with
  | None => None
  | Some (bs, c, st1) =>
      if negb (c =? 0) then Some (bs, c, st1) else
      match r_read 128 st1 with         (* EnsureEmpty *)
      | None => None
      | Some (extra, c2, st2) =>
          if zlen extra >? 0 then Some (bs, 20, st2)             (* "found unexpected bytes" *)
          else if negb (c2 =? 12) && negb (c2 =? 0) then Some (bs, c2, st2)
          else match r_close st2 with
               | None => None
               | Some (c3, st3) => Some (bs, c3, st3)
               end
      end
  end.

Inductive rop := RBegin (last : bool) | RRead (n : Z) | RClose | RHelper (bufsz : Z).
