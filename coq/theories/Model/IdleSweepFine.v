(* idleSweep.checkIdleConnections split into its atomic actions, interleaved with the events of
   the other goroutines (Model/IdleHealthSys.v gives each sweep as ONE step; here the poller
   goroutine is a thread with a program counter):

     now := is.ch.timeNow()                                         FBegin
     is.ch.mutable.RLock()      (snapshot of the tracked set)       FLock
     for conn in conns: is.isIdle(conn, now) -> collect             FLook id   (map order: any)
     is.ch.mutable.RUnlock()                                        FStep   (SCollect [] -> SLoop2)
     for conn in idleConnections:
        conn.IsActive()                                             FStep   (SLoop2 -> SInb | next)
        conn.inbound.countCalls() > 0                               FStep   (SInb -> SOutb | next)
        conn.outbound.countCalls() > 0                              FStep   (SOutb -> SRelay | next)
        !conn.relay.canClose()                                      FStep   (SRelay -> SRecheck | next)
        !is.isIdle(conn, now)      (the re-check; [fx] = present)   FStep   (SRecheck -> SClose | next)
        conn.close(...)                                             FStep   (SClose -> next)
     return                                                         FStep   (SLoop2 [] -> SIdle)

   Each line is one lock-protected region or a pair of atomic loads in the code.  The two stamp
   loads of isIdle are taken as one action: the stamps only grow and each is written by a
   single atomic store, so two loads with events in between see what one load at a single
   instant could see.  The three counters of hasPendingCalls are read at three different
   instants (three actions).  Connection.close (state lock + checkExchanges) is one action as in
   Model/Idle.v.  While the read lock is held no connection can be added (ENewConn is not
   enabled; removeClosedConn also waits, but it only clears the tracked flag, which the sweep
   does not look at after FLock).

   The decisions are the functions go2v generates from the Go source (hasPendingCalls is used
   through its three operands; IsActive, isIdle, lastActivityTime, Relayer.canClose directly).
   [fx = false] is the code before the fix "idle sweep re-checks ..." (no re-check: the SRecheck
   action always passes). *)
From Coq Require Import ZArith List Bool.
From Verif Require Import Base.Wrap Base.Wire Gen.GenConsts Gen.GenFrame Gen.GenHealthIdle
  Spec.IdleHealthSpec Model.Health Model.Idle Model.IdleHealthSys.
Import ListNotations.
Local Open Scope Z_scope.

Inductive spc :=
| SIdle
| SStart (now : Z)
| SCollect (now : Z) (todo acc : list Z)
| SLoop2 (now : Z) (cands : list Z)
| SInb (now id : Z) (rest : list Z)
| SOutb (now id : Z) (rest : list Z)
| SRelay (now id : Z) (rest : list Z)
| SRecheck (now id : Z) (rest : list Z)
| SClose (now id : Z) (rest : list Z).

Inductive flab :=
| FEv (e : ev)      (* an event of another goroutine (anything but a sweep tick) *)
| FBegin            (* the poller takes a tick and reads the clock *)
| FLock             (* ... takes the channel read lock *)
| FLook (id : Z)    (* ... examines one connection in the first loop *)
| FStep.            (* ... performs its next action (everything after the first loop is sequential) *)

Record fstate := { f_ch : chan; f_pc : spc }.

(* is.isIdle(conn, now) through the generated functions *)
Definition fine_idle (now max_idle : Z) (c : conn) : bool :=
  sweepIsIdle (time_sub now (lastActivityTime (k_lr c) (k_lw c))) max_idle.

Definition relay_is_nil (c : conn) : bool := match k_relay c with None => true | Some _ => false end.
Definition relay_pending (c : conn) : Z := match k_relay c with None => 0 | Some n => n end.

Definition tracked_ids (s : chan) : list Z :=
  map fst (filter (fun ic => k_tracked (snd ic)) (ch_conns s)).

Definition remove_id (id : Z) (l : list Z) : list Z := filter (fun x => negb (x =? id)) l.
Definition mem_id (id : Z) (l : list Z) : bool := existsb (Z.eqb id) l.

Definition holds_lock (p : spc) : bool := match p with SCollect _ _ _ => true | _ => false end.

Definition fstep (fx : bool) (cf : config) (st : fstate) (l : flab) : option fstate :=
  let s := f_ch st in
  let mi := cf_max_idle cf in
  match l with
  | FEv ETick => None
  | FEv (ENewConn id rl) =>
      if holds_lock (f_pc st) then None
      else Some {| f_ch := step cf s (ENewConn id rl); f_pc := f_pc st |}
  | FEv e => Some {| f_ch := step cf s e; f_pc := f_pc st |}
  | FBegin =>
      match f_pc st with
      | SIdle => if sweep_enabled cf then Some {| f_ch := s; f_pc := SStart (ch_now s) |} else None
      | _ => None
      end
  | FLock =>
      match f_pc st with
      | SStart now => Some {| f_ch := s; f_pc := SCollect now (tracked_ids s) [] |}
      | _ => None
      end
  | FLook id =>
      match f_pc st with
      | SCollect now todo acc =>
          if mem_id id todo then
            match lookup id (ch_conns s) with
            | Some c => Some {| f_ch := s;
                                f_pc := SCollect now (remove_id id todo) (if fine_idle now mi c then acc ++ [id] else acc) |}
            | None => Some {| f_ch := s; f_pc := SCollect now (remove_id id todo) acc |}
            end
          else None
      | _ => None
      end
  | FStep =>
      let next now rest := Some {| f_ch := s; f_pc := SLoop2 now rest |} in
      let on now id rest (k : conn -> option fstate) :=
        match lookup id (ch_conns s) with Some c => k c | None => next now rest end in
      match f_pc st with
      | SCollect now [] acc => Some {| f_ch := s; f_pc := SLoop2 now acc |}
      | SLoop2 now [] => Some {| f_ch := s; f_pc := SIdle |}
      | SLoop2 now (id :: rest) =>
          on now id rest (fun c =>
            if negb (connIsActive (k_state c)) then next now rest
            else Some {| f_ch := s; f_pc := SInb now id rest |})
      | SInb now id rest =>
          on now id rest (fun c =>
            if k_inb c >? 0 then next now rest else Some {| f_ch := s; f_pc := SOutb now id rest |})
      | SOutb now id rest =>
          on now id rest (fun c =>
            if k_outb c >? 0 then next now rest else Some {| f_ch := s; f_pc := SRelay now id rest |})
      | SRelay now id rest =>
          on now id rest (fun c =>
            if negb (relayCanClose (relay_is_nil c) (relay_pending c)) then next now rest
            else Some {| f_ch := s; f_pc := SRecheck now id rest |})
      | SRecheck now id rest =>
          on now id rest (fun c =>
            if fx && negb (fine_idle now mi c) then next now rest
            else Some {| f_ch := s; f_pc := SClose now id rest |})
      | SClose now id rest =>
          on now id rest (fun c =>
            Some {| f_ch := {| ch_now := ch_now s; ch_conns := update id (conn_close c) (ch_conns s) |};
                    f_pc := SLoop2 now rest |})
      | _ => None
      end
  end.

Definition finit (t0 : Z) : fstate := {| f_ch := init_chan t0; f_pc := SIdle |}.

Fixpoint frun (fx : bool) (cf : config) (st : fstate) (ls : list flab) : option fstate :=
  match ls with
  | [] => Some st
  | l :: r => match fstep fx cf st l with Some st' => frun fx cf st' r | None => None end
  end.

(* the events of the other goroutines in a label list *)
Fixpoint evs_of (ls : list flab) : list ev :=
  match ls with
  | [] => []
  | FEv e :: r => e :: evs_of r
  | _ :: r => evs_of r
  end.

(* ---- harness entry point ---------------------------------------------------------------
   case:  fx idleInterval maxIdle hInterval hTimeout hFailures t0  nLabels label*
   label: an event as in run_tl (codes 0..5, 7, 8) | 9 (FBegin) | 10 (FLock) | 11 id (FLook) | 12 (FStep)
   observable: -2 when NewChannel rejects the options, else per label
     event:   as run_tl
     FBegin, FLock: nothing
     FLook:   nothing (what was collected shows when the first loop ends)
     FStep:   the kind of program counter reached (0 idle, 3 loop2, 4 inb, 5 outb, 6 relay, 7 recheck,
              8 close) and the connection it is about (-1: none; for loop2 the head candidate);
              after the end of the first loop also the list collected; after a close also the
              state of the closed connection
     a label that is not enabled: -9 and the run stops
   then per connection at the end: as run_tl                                                 *)
Definition take_flab (l : list Z) : flab * list Z :=
  match l with
  | 9 :: r => (FBegin, r)
  | 10 :: r => (FLock, r)
  | 11 :: id :: r => (FLook id, r)
  | 12 :: r => (FStep, r)
  | _ => let '(e, r) := take_ev l in (FEv e, r)
  end.

Definition pc_obs (p : spc) : list Z :=
  match p with
  | SIdle => [0; -1]
  | SStart _ => [1; -1]
  | SCollect _ _ _ => [2; -1]
  | SLoop2 _ [] => [3; -1]
  | SLoop2 _ (id :: _) => [3; id]
  | SInb _ id _ => [4; id]
  | SOutb _ id _ => [5; id]
  | SRelay _ id _ => [6; id]
  | SRecheck _ id _ => [7; id]
  | SClose _ id _ => [8; id]
  end.

Definition fobs_step (st st' : fstate) (l : flab) : list Z :=
  match l with
  | FEv e => obs_step (f_ch st) (f_ch st') e
  | FStep =>
      pc_obs (f_pc st') ++
      match f_pc st, f_pc st' with
      | SCollect _ _ _, SLoop2 _ acc => put_list (fun i => [i]) acc
      | SClose _ id _, _ => match lookup id (ch_conns (f_ch st')) with Some c => [k_state c] | None => [-1] end
      | _, _ => []
      end
  | _ => []
  end.

Fixpoint frun_obs (fx : bool) (cf : config) (st : fstate) (ls : list flab) : list Z * fstate :=
  match ls with
  | [] => ([], st)
  | l :: r =>
      match fstep fx cf st l with
      | None => ([-9], st)
      | Some st' => let '(o, sf) := frun_obs fx cf st' r in (fobs_step st st' l ++ o, sf)
      end
  end.

Definition run_fine (c : list Z) : list Z :=
  match c with
  | fx :: ii :: mi :: hi :: ht :: hf :: t0 :: r =>
      if negb (idleCheckOk ii mi) then [-2]
      else
        let cf := {| cf_idle_interval := ii; cf_max_idle := mi;
                     cf_health := ho_with_defaults {| ho_interval := hi; ho_timeout := ht; ho_failures := hf |} |} in
        let '(ls, _) := take_list take_flab r in
        let '(o, st) := frun_obs (bz fx) cf (finit t0) ls in
        o ++ flat_map obs_final (ch_conns (f_ch st))
  | _ => [-1]
  end.
