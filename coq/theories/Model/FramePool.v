(* Where frames come from (frame.go NewFrame, frame_pool.go, checked_frame_pool.go): a world
   model over the tables go2v regenerates from EVERY non-test file of EVERY package of the
   repository on each run (Gen/GenFrameSites.v):

     newframe_sites       every NewFrame(..) call: (where, value of the argument, receive-only)
     NewFrame_*           the slice bounds in the body of NewFrame
     frame_literal_sites  every Frame{} / new(Frame)
     frame_field_writes   every assignment to Frame.Payload/.buffer/.headerBuffer
     payload_wrap_sites   every write buffer wrapped around a frame's Payload
     pool_impls           every FramePool implementation: what Get returns / Release stores
     syncpool_news        what the New function of a sync.Pool of frames returns

   A frame is abstracted to its SHAPE (lengths and offsets of buffer, Payload and
   headerBuffer).  The world makes frames only the way the tables say the code does; the
   schedule (which site runs, which return path a Get takes, whether a Release keeps the
   frame) is an arbitrary event list.  No proofs here. *)
From Coq Require Import ZArith List Bool.
From Verif Require Import Base.Wrap Gen.GenConsts Gen.GenFrame Gen.GenFrameSites.
Import ListNotations.
Local Open Scope Z_scope.

Record shape := mkShape {
  sh_buffer : Z;      (* len(f.buffer) *)
  sh_poff : Z;        (* offset of f.Payload in f.buffer *)
  sh_payload : Z;     (* len(f.Payload) *)
  sh_hoff : Z;        (* offset of f.headerBuffer in f.buffer *)
  sh_header : Z;      (* len(f.headerBuffer) *)
  sh_recvonly : bool  (* the translator found the frame bound to a local that is only read into *)
}.

(* Go: b[lo:hi] panics unless 0 <= lo <= hi <= cap(b); make([]byte, n) panics for n < 0 *)
Definition slice_ok (len lo hi : Z) : bool := (0 <=? lo) && (lo <=? hi) && (hi <=? len).

(* NewFrame(n); None = the allocation or one of the slice expressions panics *)
Definition new_frame (n : Z) (ro : bool) : option shape :=
  let bl := NewFrame_buffer_len n in
  if bl <? 0 then None
  else if negb (slice_ok bl (NewFrame_payload_lo n) (NewFrame_payload_hi n)) then None
  else if negb (slice_ok bl (NewFrame_header_lo n) (NewFrame_header_hi n)) then None
  else Some (mkShape bl (NewFrame_payload_lo n) (NewFrame_payload_hi n - NewFrame_payload_lo n)
                     (NewFrame_header_lo n) (NewFrame_header_hi n - NewFrame_header_lo n) ro).

(* the frame of a call site of the table *)
Definition site_frame (i : nat) : option shape :=
  match nth_error newframe_sites i with
  | Some (_, v, ro) => new_frame v ro
  | None => None
  end.

(* the shape left by CheckedFramePoolForTest.Release (Payload, buffer, headerBuffer := nil) *)
Definition nil_shape : shape := mkShape 0 0 0 0 0 false.

Record world := mkWorld {
  w_live : list shape;           (* frames in the hands of library code *)
  w_store : list (nat * shape);  (* frames kept by pool number p for a later Get *)
  w_got : list shape             (* every frame a FramePool.Get has returned, newest first *)
}.
Definition pw_init : world := mkWorld [] [] [].

Inductive wev :=
| EAlloc (site : nat)                    (* a NewFrame call site executes *)
| EGet (pool : nat) (cls : Z) (k : nat)  (* pool.Get() takes a return path of class cls: 0 = the fresh frame of site k,
                                            1 / 2 = the k-th stored frame (channel receive / sync.Pool.Get),
                                            3 = sync.Pool.Get found nothing and called New: the fresh frame of site k *)
| ERelease (pool : nat) (k : nat) (kept : bool). (* pool.Release(k-th live frame); kept: the channel had room / the sync.Pool kept it *)

Definition zmem (x : Z) (l : list Z) : bool := existsb (Z.eqb x) l.

Fixpoint remove_nth {A} (k : nat) (l : list A) : list A :=
  match l, k with
  | [], _ => []
  | _ :: r, O => r
  | x :: r, S k' => x :: remove_nth k' r
  end.

(* None = the event is not enabled (no such site / pool / frame, a return path the pool does not
   have, or a frame the translator showed not to escape is released) *)
Definition pw_step (w : world) (e : wev) : option world :=
  match e with
  | EAlloc i =>
      match site_frame i with
      | Some s => Some (mkWorld (s :: w_live w) (w_store w) (w_got w))
      | None => None
      end
  | EGet p cls k =>
      match nth_error pool_impls p with
      | None => None
      | Some (_, gcls, _, _) =>
          let fresh :=
            match site_frame k with
            | Some s => if sh_recvonly s then None else Some (mkWorld (s :: w_live w) (w_store w) (s :: w_got w))
            | None => None
            end in
          if cls =? 0 then (if zmem 0 gcls then fresh else None)
          else if cls =? 3 then
            (if zmem 2 gcls && forallb (fun sp => forallb (Z.eqb 0) (snd sp)) syncpool_news then fresh else None)
          else if ((cls =? 1) || (cls =? 2)) && zmem cls gcls then
            match nth_error (w_store w) k with
            | Some (q, s) => if Nat.eqb q p then Some (mkWorld (s :: w_live w) (remove_nth k (w_store w)) (s :: w_got w)) else None
            | None => None
            end
          else None
      end
  | ERelease p k kept =>
      match nth_error pool_impls p, nth_error (w_live w) k with
      | Some (_, _, rcls, mut), Some s =>
          if sh_recvonly s then None
          else if negb (forallb (Z.eqb 1) rcls) then None   (* Release stores something else than its parameter: not modelled *)
          else
            let s' := if mut then nil_shape else s in
            let live' := if mut then remove_nth k (w_live w) else w_live w in
            if kept && negb (match rcls with [] => true | _ => false end)
            then Some (mkWorld live' ((p, s') :: w_store w) (w_got w))
            else Some (mkWorld live' (w_store w) (w_got w))
      | _, _ => None
      end
  end.

Fixpoint pw_run (evs : list wev) (w : world) : option world :=
  match evs with
  | [] => Some w
  | e :: r => match pw_step w e with Some w' => pw_run r w' | None => None end
  end.

(* reqResWriter.newFragment / relayFragmentSender.newFragment: typed.NewWriteBuffer(frame.Payload[:])
   minus flags, message header, checksum type and checksum bytes is the room for chunks *)
Definition frame_room (s : shape) (msghdr_len cksize : Z) : Z :=
  sh_payload s - (1 + msghdr_len + 1 + cksize).

(* the obligations on the generated tables, as one computable test *)
Definition site_ok (s : list Z * Z * bool) : bool :=
  let '(_, v, ro) := s in
  (v =? c_MaxFramePayloadSize) || (ro && (c_MaxFramePayloadSize <=? v) && (v <? 2 ^ 62)).
Definition pool_ok (p : list Z * list Z * list Z * bool) : bool :=
  let '(_, gcls, rcls, mut) := p in
  negb (match gcls with [] => true | _ => false end) &&
  forallb (fun c => (c =? 0) || (c =? 1) || (c =? 2)) gcls &&
  forallb (Z.eqb 1) rcls &&
  (negb mut || match rcls with [] => true | _ => false end).
Definition newframe_name : list Z := [102; 114; 97; 109; 101; 46; 103; 111; 58; 78; 101; 119; 70; 114; 97; 109; 101]. (* "frame.go:NewFrame" *)
Fixpoint zlist_eqb (a b : list Z) : bool :=
  match a, b with
  | [], [] => true
  | x :: a', y :: b' => (x =? y) && zlist_eqb a' b'
  | _, _ => false
  end.
Definition frame_sites_ok : bool :=
  forallb site_ok newframe_sites &&
  forallb (zlist_eqb newframe_name) frame_literal_sites &&
  forallb (fun fw => (snd fw =? 0) || (snd fw =? 1)) frame_field_writes &&
  forallb (fun pw => snd pw =? 0) payload_wrap_sites &&
  forallb pool_ok pool_impls &&
  forallb (fun sp => forallb (Z.eqb 0) (snd sp)) syncpool_news.

(* the FramePool implementations the harness engine `poolwire` constructs, in table order:
   CheckedFramePoolForTest, channelFramePool, disabledFramePool, syncFramePool *)
Definition known_pools : list (list Z) :=
  [[67; 104; 101; 99; 107; 101; 100; 70; 114; 97; 109; 101; 80; 111; 111; 108; 70; 111; 114; 84; 101; 115; 116];
   [99; 104; 97; 110; 110; 101; 108; 70; 114; 97; 109; 101; 80; 111; 111; 108];
   [100; 105; 115; 97; 98; 108; 101; 100; 70; 114; 97; 109; 101; 80; 111; 111; 108];
   [115; 121; 110; 99; 70; 114; 97; 109; 101; 80; 111; 111; 108]].

(* index of the first call site that allocates a frame that may be written (for the examples) *)
Fixpoint first_plain_site_from (i : nat) (l : list (list Z * Z * bool)) : nat :=
  match l with
  | [] => i
  | (_, _, ro) :: r => if ro then first_plain_site_from (S i) r else i
  end.
Definition first_plain_site : nat := first_plain_site_from 0 newframe_sites.
