(* The io.Writer / io.Reader face of the argument streams (fragmenting_writer.go Write,
   fragmenting_reader.go Read): the same state transitions as Model/Frag.v, plus the VALUES
   the calls return -- the byte count n next to the error.  The counts are kept the way the
   Go loops keep them: a running total (int, 64 bit) to which every iteration adds what it
   moved.  One iteration of either loop is a definition of its own ([wr_iter], [rd_iter]);
   Proofs/FragIOGenP.v proves it equal to the iteration regenerated from the source
   (Gen/GenFragIO.v). *)
From Coq Require Import ZArith List Bool.
From Verif Require Import Base.Wrap Base.Bytes Base.Wire Gen.GenConsts Gen.GenFrame Model.Crc Model.Frag Model.FragWire.
Import ListNotations.
Local Open Scope Z_scope.

(* ================= writer ================= *)

(* the bookkeeping of one iteration of the loop of Write, given what writeAsFits returned:
   (Write returns?, running total, rest of the caller's slice) *)
Definition wr_iter (fits : Z) (total : Z) (b : list Z) : bool * Z * list Z :=
  let total := wrapS 64 (total + fits) in
  if fits =? zlen b then (true, total, b)
  else (false, total, skipn (Z.to_nat fits) b).

Section WriterIO.
  Variable capf : bool -> Z.

  (* writableChunk.writeAsFits(b): how many bytes of b fit into the current chunk ... *)
  Definition w_fits (st : wst) (b : list Z) : Z := Z.min (zlen b) (Z.max (ws_room st) 0).
  (* ... and the writer after they were appended to it *)
  Definition w_put (st : wst) (b : list Z) : wst :=
    let now := firstn (Z.to_nat (w_fits st b)) b in
    mkWst (ws_state st) 0 (ws_out st) true (app_last (ws_chunks st) now) (ws_room st - w_fits st b)
          (ck_add (ws_ck st) now) (ws_done st).

  (* the loop of Write with its running total; the sender of the model never fails, so the
     `return totalWritten, w.err` after a failed Flush is not reached *)
  Fixpoint w_write_loop_n (fuel : nat) (b : list Z) (st : wst) (total : Z) : Z * wst :=
    let st1 := w_put st b in
    let '(ret, total', b') := wr_iter (w_fits st b) total b in
    if ret then (total', st1)
    else match fuel with
         | O => (total', st1)
         | S f => w_write_loop_n f b' (w_flush_raw capf st1) total'
         end.

  (* Write(b): (n, error code, state); None = panic *)
  Definition w_write_n (b : list Z) (st : wst) : option (Z * Z * wst) :=
    if negb (ws_err st =? 0) then Some (0, ws_err st, st)
    else if negb (is_writing (ws_state st)) then Some (0, 2, set_err st 2)
    else let '(n, st') := w_write_loop_n (S (length b)) b st 0 in Some (n, 0, st').

  (* every operation with what it returns: (n, code); n = 0 for the operations that return only an error *)
  Definition w_step_n (st : wst) (o : wop) : option (Z * Z * wst) :=
    match o with
    | WWrite b => w_write_n b st
    | _ => match w_step capf st o with None => None | Some (c, st') => Some (0, c, st') end
    end.

  Fixpoint w_run_n (ops : list wop) (st : wst) : option (list (Z * Z) * wst) :=
    match ops with
    | [] => Some ([], st)
    | o :: r => match w_step_n st o with
                | None => None
                | Some (n, c, st') => match w_run_n r st' with
                                      | None => None
                                      | Some (rets, stf) => Some ((n, c) :: rets, stf)
                                      end
                end
    end.

  (* A caller that honours the io.Writer contract and nothing else: it offers p, and as long as a
     call reports fewer bytes than offered WITHOUT an error it offers the rest again
     (`for len(p) > 0 { n, err := w.Write(p); if err != nil { return }; p = p[n:] }`).
     Result: (calls made, last error code, state). *)
  Fixpoint w_send_all (fuel : nat) (p : list Z) (st : wst) (calls : Z) : option (Z * Z * wst) :=
    match p with
    | [] => Some (calls, 0, st)
    | _ :: _ =>
        match fuel with
        | O => Some (calls, 0, st)
        | S f => match w_write_n p st with
                 | None => None
                 | Some (n, c, st') =>
                     if negb (c =? 0) then Some (calls + 1, c, st')
                     else w_send_all f (skipn (Z.to_nat n) p) st' (calls + 1)
                 end
        end
    end.
End WriterIO.

(* ================= reader ================= *)

(* the bookkeeping of one iteration of the loop of Read: [b] = len of the part of the caller's
   buffer still to fill, [cur] = len(curChunk).  Result: (copied, running total, b, cur) *)
Definition rd_iter (cur : Z) (total : Z) (b : Z) : Z * Z * Z * Z :=
  let n := Z.min b cur in
  (n, wrapS 64 (total + n), b - n, cur - n).

(* Read(buf) with len(buf) = n and its running total: (total, bytes copied into buf, code, state) *)
Fixpoint r_read_loop_n (fuel : nat) (n : Z) (acc : list Z) (total : Z) (st : rst) : option (Z * list Z * Z * rst) :=
  let '(k, total', n', _) := rd_iter (zlen (rs_cur st)) total n in
  let got := firstn (Z.to_nat k) (rs_cur st) in
  let st1 := mkRst (rs_state st) (rs_err st) (rs_rem st) (skipn (Z.to_nat k) (rs_cur st)) (rs_more st) (rs_in st)
                   (rs_ck st) (rs_got st) (rs_rel st) (rs_fin st) in
  let acc := acc ++ got in
  if n' =? 0 then Some (total', acc, 0, st1)
  else match rs_rem st1 with
       | _ :: _ => Some (total', acc, 12, st1)
       | [] => if negb (rs_more st1) then Some (total', acc, 12, st1)
               else match fuel with
                    | O => Some (total', acc, 9, st1)
                    | S f => match r_recv st1 with
                             | None => None
                             | Some (c, st2) => if c =? 0 then r_read_loop_n f n' acc total' st2 else Some (total', acc, c, st2)
                             end
                    end
       end.

Definition r_read_n (n : Z) (st : rst) : option (Z * list Z * Z * rst) :=
  if negb (rs_err st =? 0) then Some (0, [], rs_err st, st)
  else if negb (is_reading (rs_state st)) then Some (0, [], 2, rset_err st 2)
  else r_read_loop_n (S (length (rs_in st))) n [] 0 st.

(* ---------------- harness entry points (engine fragio) ---------------- *)

Definition put_ret (o : wop) (r : Z * Z) : list Z :=
  match o with WWrite _ => [snd r; fst r] | _ => [snd r] end.

Fixpoint put_rets (ops : list wop) (rets : list (Z * Z)) : list Z :=
  match ops, rets with
  | o :: ops', r :: rets' => put_ret o r ++ put_rets ops' rets'
  | _, _ => []
  end.

(* shape of a fragment: more flag and the lengths of its chunks *)
Definition put_shape (f : frag) : list Z := zb (f_more f) :: put_list (fun c => [zlen c]) (f_chunks f).

(* fragio: capInitial capCont ctype ops -> panic? per op: code (and n for a Write); state done; fragment shapes *)
Definition run_fragio (c : list Z) : list Z :=
  match c with
  | ci :: cc :: ct :: r =>
      let '(ops, _) := take_list take_wop r in
      match ck_new ct with
      | None => [2]
      | Some ck =>
          match w_run_n (fun initial => if initial then ci else cc) ops (w_init ck) with
          | None => [1]
          | Some (rets, st) => 0 :: put_rets ops rets ++ [ws_state st; zb (ws_done st)] ++ put_list put_shape (ws_out st)
          end
      end
  | _ => [-1]
  end.

(* fragrio: frags ops -> panic? per op: code; for a Read: code n and the n bytes; state *)
Fixpoint r_run_n (ops : list rop) (st : rst) : option (list Z * rst) :=
  match ops with
  | [] => Some ([], st)
  | o :: r =>
      let step : option (list Z * rst) :=
        match o with
        | RBegin l => match r_begin l st with None => None | Some (c, st') => Some ([c], st') end
        | RClose => match r_close st with None => None | Some (c, st') => Some ([c], st') end
        | RRead n => match r_read_n n st with None => None | Some (k, bs, c, st') => Some (c :: k :: put_bytes bs, st') end
        | RHelper n => match r_helper_read n st with None => None | Some (bs, c, st') => Some (c :: put_bytes bs, st') end
        end in
      match step with
      | None => None
      | Some (obs, st') => match r_run_n r st' with None => None | Some (rest, stf) => Some (obs ++ rest, stf) end
      end
  end.

Definition run_fragrio (c : list Z) : list Z :=
  let '(fs, r) := take_list take_frag c in
  let '(ops, _) := take_list take_rop r in
  match r_run_n ops (r_init fs) with
  | None => [1]
  | Some (obs, st) => 0 :: obs ++ [rs_state st; rs_rel st; zb (rs_fin st)]
  end.
