(* Hand model of the time-to-live arithmetic of a call, hop by hop (property C14):
     outbound.go   Connection.beginCall      remaining time -> TimeToLive, sub-ms rejected
     messages.go   callReq.write / read      uint32(ttl / ms)  and  Duration(u32) * ms
     context.go    newIncomingContext        handler context from the received ttl
     context_builder.go  ContextBuilder.Build   timeout choice (WithCancel / WithTimeout)
     relay.go      Relayer.handleCallReq     clamp to the relay maximum, SetTTL, timer arm
     relay_messages.go  lazyCallReq.SetTTL
   Durations are Z nanoseconds (Go int64, wraps explicit), instants are Z nanoseconds
   since the Unix epoch.  GetContextError, validateRelayMaxTimeout and lazyCallReq.TTL are
   NOT modelled here: they are regenerated from source in Gen/GenTTL.v. *)
From Coq Require Import ZArith List Bool.
From Verif Require Import Base.Wrap Base.Wire Gen.GenConsts Gen.GenTTL Model.Messages.
Import ListNotations.
Local Open Scope Z_scope.

Definition min_dur : Z := - 2 ^ 63.
Definition max_dur : Z := 2 ^ 63 - 1.

(* time.Time.Sub: t - u, saturated to the int64 range of time.Duration *)
Definition time_sub (t u : Z) : Z :=
  let d := t - u in
  if d <? min_dur then min_dur else if d >? max_dur then max_dur else d.

(* errors returned by beginCall that are not system errors *)
Definition e_conn_closed : Z := 1000.       (* ErrConnectionClosed *)
Definition e_unknown_state : Z := 1001.     (* errConnectionUnknownState *)
Definition e_timeout_required : Z := 1002.  (* ErrTimeoutRequired *)

Inductive bc_result := BcErr (e : Z) | BcOk (ttl_ns : Z).

(* Connection.beginCall up to the point where callReq.TimeToLive is fixed.
   [cerr] is ctx.Err(): 0 nil, 1 context.DeadlineExceeded, 2 context.Canceled. *)
Definition begin_call (state : Z) (has_deadline : bool) (deadline now : Z) (cerr : Z) : bc_result :=
  if state =? c_connectionActive then
    if negb has_deadline then BcErr e_timeout_required
    else
      let ttl := time_sub deadline now in
      if ttl <? ms_ns then BcErr c_ErrCodeTimeout
      else if negb (cerr =? 0) then BcErr (GetContextError cerr)
      else BcOk ttl
  else if (state =? c_connectionStartClose) || (state =? c_connectionInboundClosed) || (state =? c_connectionClosed)
  then BcErr e_conn_closed
  else BcErr e_unknown_state.

(* callReq.write: w.WriteUint32(uint32(m.TimeToLive / time.Millisecond)) -- the same
   expression as in Model.Messages.w_callreq *)
Definition wire_ttl_ms (ttl_ns : Z) : Z := wrapU 32 (Z.quot ttl_ns ms_ns).

(* callReq.read: time.Duration(r.ReadUint32()) * time.Millisecond -- as in r_callreq *)
Definition recv_ttl_ns (field : Z) : Z := wrapS 64 (field * ms_ns).

(* ---- contexts: only the deadline matters here.  [None] = no deadline. ---------------- *)

(* context.WithTimeout(parent, d) evaluated at instant [now]: WithDeadline(parent, now+d);
   a parent deadline strictly before it is kept (WithCancel(parent)). *)
Definition with_timeout (parent : option Z) (now d : Z) : option Z :=
  let dl := now + d in
  match parent with
  | Some pd => if pd <? dl then Some pd else Some dl
  | None => Some dl
  end.

(* ContextBuilder.Build: Timeout == 0 with a parent deadline => WithCancel(parent) *)
Definition build_ctx (parent : option Z) (now timeout : Z) : option Z :=
  match parent with
  | Some pd => if timeout =? 0 then Some pd else with_timeout parent now timeout
  | None => with_timeout parent now timeout
  end.

(* newIncomingContext(c.baseContext, call, callReq.TimeToLive): a zero ttl first expires
   the parent handed to the builder (fix: zero ttl must not inherit the base deadline) *)
Definition incoming_ctx (base : option Z) (now ttl_ns : Z) : option Z :=
  let parent := if ttl_ns =? 0 then with_timeout base now 0 else base in
  build_ctx parent now ttl_ns.

(* a context with deadline [dl] is already expired when created at [now] *)
Definition expired_at (dl : option Z) (now : Z) : bool :=
  match dl with Some d => d <=? now | None => false end.

(* ---- relay ----------------------------------------------------------------------- *)

(* lazyCallReq.SetTTL: uint32(d / time.Millisecond) *)
Definition set_ttl_field (d : Z) : Z := wrapU 32 (Z.quot d ms_ns).

(* Relayer.handleCallReq: ttl := f.TTL(); if ttl > r.maxTimeout { ttl = max; f.SetTTL(max) };
   result: (duration both relay timers are started with, ttl field of the forwarded frame) *)
Definition relay_ttl (max_ns : Z) (field : Z) : Z * Z :=
  let ttl := lazyCallReqTTL field in
  if ttl >? max_ns then (max_ns, set_ttl_field max_ns) else (ttl, field).

(* the relay maximum in force for a configured ChannelOptions.RelayMaxTimeout *)
Definition relay_max (configured : Z) : Z := validateRelayMaxTimeout configured.

(* a chain of relays, each with its configured maximum *)
Fixpoint hops_ttl (maxes : list Z) (field : Z) : Z :=
  match maxes with
  | [] => field
  | m :: r => hops_ttl r (snd (relay_ttl (relay_max m) field))
  end.

(* ---- whole path: caller -> relays -> handler ---------------------------------------- *)
Record e2e_result := { e2e_wire : Z; e2e_arrived : Z; e2e_deadline : option Z }.

Definition e2e (deadline now : Z) (maxes : list Z) (base : option Z) (arrival : Z) : option e2e_result :=
  match begin_call c_connectionActive true deadline now 0 with
  | BcErr _ => None
  | BcOk ttl =>
      let w := wire_ttl_ms ttl in
      let a := hops_ttl maxes w in
      Some {| e2e_wire := w; e2e_arrived := a; e2e_deadline := incoming_ctx base arrival (recv_ttl_ns a) |}
  end.

(* ---- harness entry points ------------------------------------------------------------ *)
Definition ns_of (sec nsec : Z) : Z := sec * 1000000000 + nsec.

(* case: state has_deadline dl_sec dl_nsec now_sec now_nsec cerr
   out : 0 err  |  1 ttl_field_on_the_wire *)
Definition run_ttl_begin (c : list Z) : list Z :=
  match c with
  | [state; has; ds; dn; ns; nn; cerr] =>
      match begin_call state (bz has) (ns_of ds dn) (ns_of ns nn) cerr with
      | BcErr e => [0; e]
      | BcOk ttl => [1; wire_ttl_ms ttl]
      end
  | _ => [-1]
  end.

(* case: has_base base_offset_ns ttl_field      (instants relative to the creation instant)
   out : has_deadline offset_ns expired_at_creation *)
Definition run_ttl_in (c : list Z) : list Z :=
  match c with
  | [hasb; boff; field] =>
      let base := if bz hasb then Some boff else None in
      match incoming_ctx base 0 (recv_ttl_ns field) with
      | None => [0; 0; 0]
      | Some d => [1; d; zb (expired_at (Some d) 0)]
      end
  | _ => [-1]
  end.

(* case: configured_max_ns ttl_field     out: validated_max_ns forwarded_field
   (the duration the relay timers are started with, [fst (relay_ttl ..)], is observed by a
   timing oracle only) *)
Definition run_ttl_relay (c : list Z) : list Z :=
  match c with
  | [cfg; field] =>
      let m := relay_max cfg in
      [m; snd (relay_ttl m field)]
  | _ => [-1]
  end.

(* case: n_hops max_1 .. max_n ttl_field    out: field arriving at the last hop's destination *)
Definition run_ttl_hops (c : list Z) : list Z :=
  let '(maxes, r) := take_list take1 c in
  match r with
  | [field] => [hops_ttl maxes field]
  | _ => [-1]
  end.
