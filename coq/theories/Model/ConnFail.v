(* Hand model of what a CONNECTION FAILURE does to the calls in flight on that connection
   (property C14, clause d: "a handler's context is cancelled when ... its connection fails"):
     connection.go  Connection.connectionError (read / write errors, EOF, a protocol error frame
                    RECEIVED from the peer, an unparsable error frame, failed pings / pongs /
                    cancels) and Connection.protocolError (a protocol violation detected HERE:
                    a call req whose id is still active, a ping on a closed connection).  Both
                    close the connection and end with
                        if c.stoppedExchanges.CAS(false, true) {
                            c.outbound.stopExchanges(err)
                            c.inbound.stopExchanges(err)
                        }
                    stoppedExchanges is ONE once-only flag shared by the two functions.
     mex.go         messageExchangeSet.stopExchanges: latches mexset.shutdown (a second call
                    returns early; newExchange fails from then on) and notifies the errCh of every
                    registered exchange once (errChNotified CAS)
     inbound.go     handleCallReq: state check, newExchange (duplicate id / shut-down set =>
                    protocolError); dispatchInbound's goroutine: `select` on the handler context
                    and on the exchange's errCh -- a notified errCh CANCELS THE HANDLER'S CONTEXT
                    (response.cancel) and expires the exchange; doneSending (completion)
     outbound.go / mex.go  an outbound call's waits (recvPeerFrame) end with the error once its
                    errCh is notified
   The two "stop programs" are parameters of the model ([ce] for connectionError, [pe] for
   protocolError): lists of stop statements, each a set (inbound / outbound) and whether it
   stands under the CAS guard.  The programs of the real functions are read off the source on
   every run (Gen/GenCtxFlow.stop_sites) and proved equal to [ce_prog] / [pe_prog] below
   (Proofs/ConnFailP.v).  One label = one atomic action of one goroutine; any number of calls.
   No proofs in this file. *)
From Coq Require Import ZArith List Bool.
From Verif Require Import Base.Wrap Base.Wire.
Import ListNotations.
Local Open Scope Z_scope.

Inductive xset := XIn | XOut.
Definition xset_eqb (a b : xset) : bool :=
  match a, b with XIn, XIn => true | XOut, XOut => true | _, _ => false end.

(* one statement `c.<set>.stopExchanges(err)`; [ss_cas]: inside `if c.stoppedExchanges.CAS(false, true)` *)
Record stop_stmt := mkStop { ss_cas : bool; ss_set : xset }.
Definition prog := list stop_stmt.

(* the programs of the source tree the model was written against *)
Definition ce_prog : prog := [mkStop true XOut; mkStop true XIn].
Definition pe_prog : prog := [mkStop true XOut; mkStop true XIn].

(* an exchange: id, errCh notified, context (inbound: the handler's; 0 live, 1 deadline
   exceeded, 2 cancelled), how many times it was notified *)
Record exch := mkEx { x_id : Z; x_notified : bool; x_ctx : Z; x_notifies : Z }.

Record cst := mkC {
  active : bool;            (* connection state == connectionActive *)
  failed : bool;            (* connectionError / protocolError ran *)
  stopped : bool;           (* Connection.stoppedExchanges *)
  in_shut : bool;           (* c.inbound.shutdown *)
  out_shut : bool;          (* c.outbound.shutdown *)
  inb : list exch;          (* c.inbound.exchanges *)
  outb : list exch;         (* c.outbound.exchanges *)
  gone : list (Z * Z);      (* handlers whose exchange is gone: id, final state of the context *)
  out_res : list (Z * Z);   (* finished outbound calls: id, 1 = ended with the connection's error *)
  in_stops : Z;             (* effective runs of inbound.stopExchanges *)
  out_stops : Z
}.

Definition init : cst := mkC true false false false false [] [] [] [] 0 0.

Definition set_inb (l : list exch) (s : cst) : cst :=
  mkC (active s) (failed s) (stopped s) (in_shut s) (out_shut s) l (outb s) (gone s) (out_res s) (in_stops s) (out_stops s).
Definition set_outb (l : list exch) (s : cst) : cst :=
  mkC (active s) (failed s) (stopped s) (in_shut s) (out_shut s) (inb s) l (gone s) (out_res s) (in_stops s) (out_stops s).
Definition set_gone (g : list (Z * Z)) (s : cst) : cst :=
  mkC (active s) (failed s) (stopped s) (in_shut s) (out_shut s) (inb s) (outb s) g (out_res s) (in_stops s) (out_stops s).
Definition set_out_res (g : list (Z * Z)) (s : cst) : cst :=
  mkC (active s) (failed s) (stopped s) (in_shut s) (out_shut s) (inb s) (outb s) (gone s) g (in_stops s) (out_stops s).
Definition set_stopped (s : cst) : cst :=
  mkC (active s) (failed s) true (in_shut s) (out_shut s) (inb s) (outb s) (gone s) (out_res s) (in_stops s) (out_stops s).
(* Connection.close + the failure itself *)
Definition set_failed (s : cst) : cst :=
  mkC false true (stopped s) (in_shut s) (out_shut s) (inb s) (outb s) (gone s) (out_res s) (in_stops s) (out_stops s).

Fixpoint find (id : Z) (l : list exch) : option exch :=
  match l with
  | [] => None
  | e :: r => if x_id e =? id then Some e else find id r
  end.
Fixpoint remove (id : Z) (l : list exch) : list exch :=
  match l with
  | [] => []
  | e :: r => if x_id e =? id then r else e :: remove id r
  end.
Fixpoint update (id : Z) (f : exch -> exch) (l : list exch) : list exch :=
  match l with
  | [] => []
  | e :: r => if x_id e =? id then f e :: r else e :: update id f r
  end.

(* messageExchangeSet.stopExchanges: every exchange not yet notified is notified *)
Definition notify (e : exch) : exch :=
  if x_notified e then e else mkEx (x_id e) true (x_ctx e) (x_notifies e + 1).

Definition stop_set (x : xset) (s : cst) : cst :=
  match x with
  | XIn =>
      if in_shut s then s
      else mkC (active s) (failed s) (stopped s) true (out_shut s) (map notify (inb s)) (outb s) (gone s) (out_res s) (in_stops s + 1) (out_stops s)
  | XOut =>
      if out_shut s then s
      else mkC (active s) (failed s) (stopped s) (in_shut s) true (inb s) (map notify (outb s)) (gone s) (out_res s) (in_stops s) (out_stops s + 1)
  end.

(* the tail of connectionError / protocolError: the CAS is evaluated once (when some statement
   stands under it), statements under it run only when it succeeded *)
Definition run_prog (p : prog) (s : cst) : cst :=
  let won := negb (stopped s) in
  let s1 := if existsb ss_cas p then set_stopped s else s in
  fold_left (fun acc st => if ss_cas st then (if won then stop_set (ss_set st) acc else acc) else stop_set (ss_set st) acc) p s1.

Inductive label :=
| FCallReq (id : Z)     (* a call req frame arrives (reader goroutine: handleCallReq) *)
| FOutCall (id : Z)     (* the application begins an outbound call on this connection *)
| FConnErr              (* connectionError: any read / write / peer-reported failure *)
| FProtoErr             (* protocolError detected outside handleCallReq (ping on a closed connection) *)
| FWatch (id : Z)       (* the goroutine watching inbound exchange id takes a ready select case *)
| FDeadline (id : Z)    (* the deadline of handler id passes *)
| FComplete (id : Z)    (* handler id completes its response (doneSending) *)
| FOutWait (id : Z).    (* the caller of outbound call id looks at its exchange (recvPeerFrame) *)

Section Progs.
Variable ce pe : prog.

Definition connection_error (s : cst) : cst := run_prog ce (set_failed s).
Definition protocol_error (s : cst) : cst := run_prog pe (set_failed s).

Definition expire (id : Z) (c : Z) (s : cst) : cst :=
  set_gone (gone s ++ [(id, c)]) (set_inb (remove id (inb s)) s).

Definition step (s : cst) (l : label) : cst :=
  match l with
  | FCallReq id =>
      if negb (active s) then s                                  (* declined with an error frame *)
      else if in_shut s then protocol_error s                    (* errMexSetShutdown *)
      else match find id (inb s) with
           | Some _ => protocol_error s                          (* errDuplicateMex: the id is still active *)
           | None => set_inb (inb s ++ [mkEx id false 0 0]) s     (* registered, handler dispatched *)
           end
  | FOutCall id =>
      if negb (active s) || out_shut s then s
      else match find id (outb s) with
           | Some _ => s
           | None => set_outb (outb s ++ [mkEx id false 0 0]) s
           end
  | FConnErr => connection_error s
  | FProtoErr => protocol_error s
  | FWatch id =>
      match find id (inb s) with
      | None => s
      | Some e =>
          if negb (x_ctx e =? 0) then expire id (x_ctx e) s       (* case <-ctx.Done(): inboundExpired *)
          else if x_notified e then expire id 2 s                (* case <-errCh.c: response.cancel(); inboundExpired *)
          else s                                                 (* nothing ready: still blocked *)
      end
  | FDeadline id =>
      set_inb (update id (fun e => if x_ctx e =? 0 then mkEx (x_id e) (x_notified e) 1 (x_notifies e) else e) (inb s)) s
  | FComplete id =>
      match find id (inb s) with
      | None => s
      | Some e => expire id (if x_ctx e =? 0 then 2 else x_ctx e) s   (* doneSending: cancel(), shutdown *)
      end
  | FOutWait id =>
      match find id (outb s) with
      | None => s
      | Some e => if x_notified e then set_out_res (out_res s ++ [(id, 1)]) (set_outb (remove id (outb s)) s) else s
      end
  end.

Definition run (ls : list label) : cst := fold_left step ls init.

(* let every watcher goroutine and every blocked caller run until nothing is ready any more:
   the goroutine watching the first registered exchange takes its ready case (the exchange
   leaves the map), and so on; an exchange whose watcher has nothing ready stays (and blocks
   the scan: fuel runs out) *)
Fixpoint settle_in (n : nat) (s : cst) : cst :=
  match n with
  | O => s
  | S k => match inb s with
           | [] => s
           | e :: _ => settle_in k (step s (FWatch (x_id e)))
           end
  end.
Fixpoint settle_out (n : nat) (s : cst) : cst :=
  match n with
  | O => s
  | S k => match outb s with
           | [] => s
           | e :: _ => settle_out k (step s (FOutWait (x_id e)))
           end
  end.
Definition settle (s : cst) : cst :=
  let s1 := settle_in (List.length (inb s)) s in
  settle_out (List.length (outb s1)) s1.

(* the state of handler id's context: None = never dispatched; an id used again after its
   first handler ended: the latest one *)
Fixpoint lookup_last (id : Z) (g : list (Z * Z)) (acc : option Z) : option Z :=
  match g with
  | [] => acc
  | p :: r => lookup_last id r (if fst p =? id then Some (snd p) else acc)
  end.
Definition hctx_of (s : cst) (id : Z) : option Z :=
  match find id (inb s) with
  | Some e => Some (x_ctx e)
  | None => lookup_last id (gone s) None
  end.
End Progs.

(* ---- harness entry point (engine connfail) -------------------------------------------
   case: topology kind n_events event*   (topology: who dialled; kind: how the harness provokes
         FConnErr -- both are the harness's business, the model reads past them)   event: 0 id = FCallReq | 1 id = FOutCall | 2 = FConnErr | 3 = FProtoErr
                                  | 5 id = FDeadline | 6 id = FComplete
   (the harness lets the system settle at the end: every watcher and every blocked caller runs)
   out : n_handlers (id ctx)*  n_finished_outbound (id 1)*  n_pending_outbound
         handlers in dispatch order, each with the final state of its context *)
Definition take_event (l : list Z) : label * list Z :=
  match l with
  | 0 :: id :: r => (FCallReq id, r)
  | 1 :: id :: r => (FOutCall id, r)
  | 2 :: r => (FConnErr, r)
  | 3 :: r => (FProtoErr, r)
  | 5 :: id :: r => (FDeadline id, r)
  | 6 :: id :: r => (FComplete id, r)
  | _ :: r => (FConnErr, r)
  | [] => (FConnErr, [])
  end.

Fixpoint dispatched (ce pe : prog) (s : cst) (ls : list label) : list Z :=
  match ls with
  | [] => []
  | l :: r =>
      let s' := step ce pe s l in
      match l with
      | FCallReq id =>
          (if (List.length (inb s) <? List.length (inb s'))%nat then [id] else []) ++ dispatched ce pe s' r
      | _ => dispatched ce pe s' r
      end
  end.

Definition run_connfail (c : list Z) : list Z :=
  let '(ls, _) := take_list take_event (skipn 2 c) in
  let s := settle ce_prog pe_prog (run ce_prog pe_prog ls) in
  let hs := dispatched ce_prog pe_prog init ls in
  [Z.of_nat (List.length hs)] ++
  flat_map (fun id => [id; match hctx_of s id with Some c => c | None => 9 end]) hs ++
  [Z.of_nat (List.length (out_res s))] ++ flat_map (fun p => [fst p; snd p]) (out_res s) ++
  [Z.of_nat (List.length (outb s))].
