(* Hand model of the bookkeeping of connections in a channel and its peers:
     Channel.addConnection (channel.go, one region under ch.mutable's lock),
     Peer.addConnection (peer.go: TWO atomic steps: an unlocked state check, then, with the
       peer locked, a second state check and the append -- the code as repaired by the
       commit "fix: Peer.addConnection re-checks the connection state with the peer locked"),
     the connection state changes made by Connection.close / checkExchanges, each followed
       by callOnCloseStateChange,
     Channel.connectionCloseStateChange: removeClosedConn + Peer.connectionCloseStateChange
       (removeConnection deletes one entry of the changed connection from the peer's lists).
   Connection states are the generated constants of connection.go.  No proofs here. *)
From Coq Require Import ZArith List Bool.
From Verif Require Import Base.Wire Gen.GenConsts Model.MexDrain Model.RelayDrain.
Import ListNotations.
Local Open Scope Z_scope.

Record cbstate := {
  cb_open : bool;               (* channel state is ChannelClient or ChannelListening *)
  cb_cstate : list (Z * Z);     (* connection id -> Connection.state *)
  cb_cpeers : list (Z * list Z);(* connection id -> the peers its close callback visits
                                   (remotePeerInfo.HostPort and, if different, outboundHP) *)
  cb_conns : list Z;            (* keys of ch.mutable.conns *)
  cb_peers : list (Z * Z);      (* (peer, connection) entries of the peers' connection lists *)
  cb_checked : list (Z * Z);    (* Peer.addConnection between its unlocked state check and its locked region *)
  cb_ever : list (Z * Z);       (* every (peer, connection) for which Peer.addConnection was ever called *)
  cb_cbs : list Z;              (* OnCloseStateChange callbacks not yet executed (connection ids) *)
  cb_out : list Z
}.

Definition cb_init : cbstate :=
  {| cb_open := true; cb_cstate := []; cb_cpeers := []; cb_conns := []; cb_peers := []; cb_checked := [];
     cb_ever := []; cb_cbs := []; cb_out := [] |}.

Inductive clabel :=
| CNew (c p1 p2 : Z)        (* newConnection: state Active; p2 = p1 when outboundHP equals the remote host:port *)
| CChanAdd (c : Z)          (* Channel.addConnection *)
| CPeerCheck (p c : Z)      (* Peer.addConnection: unlocked  if c.readState() != connectionActive return error *)
| CPeerAppend (p c : Z)     (* Peer.addConnection: p.Lock(); state check again; append; p.Unlock() *)
| CSetState (c st : Z)      (* close()/checkExchanges move the state forward, then callOnCloseStateChange *)
| CCallback (c : Z)         (* Channel.connectionCloseStateChange(c) *)
| CChanClose.               (* Channel.Close: the channel stops accepting connections *)

Fixpoint zget (k : Z) (l : list (Z * Z)) : option Z :=
  match l with [] => None | (a, b) :: r => if a =? k then Some b else zget k r end.
Fixpoint zset (k v : Z) (l : list (Z * Z)) : list (Z * Z) :=
  match l with
  | [] => []
  | (a, b) :: r => if a =? k then (a, v) :: r else (a, b) :: zset k v r
  end.
Fixpoint lget (k : Z) (l : list (Z * list Z)) : list Z :=
  match l with [] => [] | (a, b) :: r => if a =? k then b else lget k r end.

Definition pair_eqb (x y : Z * Z) : bool := (fst x =? fst y) && (snd x =? snd y).
Definition has_pair (x : Z * Z) (l : list (Z * Z)) : bool := existsb (pair_eqb x) l.
Fixpoint remove1_pair (x : Z * Z) (l : list (Z * Z)) : list (Z * Z) :=
  match l with
  | [] => []
  | y :: r => if pair_eqb x y then r else y :: remove1_pair x r
  end.

Definition cb_push (s : cbstate) (v : Z) : cbstate :=
  {| cb_open := cb_open s; cb_cstate := cb_cstate s; cb_cpeers := cb_cpeers s; cb_conns := cb_conns s;
     cb_peers := cb_peers s; cb_checked := cb_checked s; cb_ever := cb_ever s; cb_cbs := cb_cbs s; cb_out := v :: cb_out s |}.

(* Peer.connectionCloseStateChange for every peer the callback visits *)
Fixpoint peers_drop (ps : list Z) (c : Z) (l : list (Z * Z)) : list (Z * Z) :=
  match ps with
  | [] => l
  | p :: r => peers_drop r c (remove1_pair (p, c) l)
  end.

Definition cstep (s : cbstate) (l : clabel) : option cbstate :=
  match l with
  | CNew c p1 p2 =>
      match zget c (cb_cstate s) with
      | Some _ => None
      | None => Some {| cb_open := cb_open s; cb_cstate := (c, c_connectionActive) :: cb_cstate s;
                        cb_cpeers := (c, if p1 =? p2 then [p1] else [p1; p2]) :: cb_cpeers s;
                        cb_conns := cb_conns s; cb_peers := cb_peers s; cb_checked := cb_checked s; cb_ever := cb_ever s;
                        cb_cbs := cb_cbs s; cb_out := cb_out s |}
      end
  | CChanAdd c =>
      match zget c (cb_cstate s) with
      | None => None
      | Some st =>
          if negb (st =? c_connectionActive) then Some (cb_push s 0)
          else if negb (cb_open s) then Some (cb_push s 0)
          else Some {| cb_open := cb_open s; cb_cstate := cb_cstate s; cb_cpeers := cb_cpeers s;
                       cb_conns := c :: del c (cb_conns s); cb_peers := cb_peers s; cb_checked := cb_checked s; cb_ever := cb_ever s;
                       cb_cbs := cb_cbs s; cb_out := 1 :: cb_out s |}
      end
  | CPeerCheck p c =>
      (* callers: Channel.connectionActive (peer of remotePeerInfo.HostPort) and Channel.Connect
         (peer of outboundHP), once each per connection *)
      match zget c (cb_cstate s) with
      | None => None
      | Some st =>
          if negb (has p (lget c (cb_cpeers s))) || has_pair (p, c) (cb_ever s) then None
          else if negb (st =? c_connectionActive)
          then Some {| cb_open := cb_open s; cb_cstate := cb_cstate s; cb_cpeers := cb_cpeers s;
                       cb_conns := cb_conns s; cb_peers := cb_peers s; cb_checked := cb_checked s;
                       cb_ever := (p, c) :: cb_ever s;
                       cb_cbs := cb_cbs s; cb_out := 0 :: cb_out s |}     (* ErrInvalidConnectionState *)
          else Some {| cb_open := cb_open s; cb_cstate := cb_cstate s; cb_cpeers := cb_cpeers s;
                       cb_conns := cb_conns s; cb_peers := cb_peers s; cb_checked := (p, c) :: cb_checked s;
                       cb_ever := (p, c) :: cb_ever s;
                       cb_cbs := cb_cbs s; cb_out := 1 :: cb_out s |}
      end
  | CPeerAppend p c =>
      if has_pair (p, c) (cb_checked s)
      then match zget c (cb_cstate s) with
           | None => None
           | Some st =>
               if negb (st =? c_connectionActive)
               then Some {| cb_open := cb_open s; cb_cstate := cb_cstate s; cb_cpeers := cb_cpeers s;
                            cb_conns := cb_conns s; cb_peers := cb_peers s;
                            cb_checked := remove1_pair (p, c) (cb_checked s); cb_ever := cb_ever s;
                            cb_cbs := cb_cbs s; cb_out := 0 :: cb_out s |}   (* locked re-check fails *)
               else Some {| cb_open := cb_open s; cb_cstate := cb_cstate s; cb_cpeers := cb_cpeers s;
                            cb_conns := cb_conns s; cb_peers := (p, c) :: cb_peers s;
                            cb_checked := remove1_pair (p, c) (cb_checked s); cb_ever := cb_ever s;
                            cb_cbs := cb_cbs s; cb_out := 1 :: cb_out s |}
           end
      else None
  | CSetState c st =>
      match zget c (cb_cstate s) with
      | None => None
      | Some cur =>
          if (cur <? st) && (st <=? c_connectionClosed)
          then Some {| cb_open := cb_open s; cb_cstate := zset c st (cb_cstate s); cb_cpeers := cb_cpeers s;
                       cb_conns := cb_conns s; cb_peers := cb_peers s; cb_checked := cb_checked s; cb_ever := cb_ever s;
                       cb_cbs := c :: cb_cbs s; cb_out := cb_out s |}
          else None
      end
  | CCallback c =>
      if has c (cb_cbs s)
      then match zget c (cb_cstate s) with
           | None => None
           | Some st =>
               Some {| cb_open := cb_open s; cb_cstate := cb_cstate s; cb_cpeers := cb_cpeers s;
                       cb_conns := if st =? c_connectionClosed then del c (cb_conns s) else cb_conns s;
                       cb_peers := if st =? c_connectionActive then cb_peers s
                                   else peers_drop (lget c (cb_cpeers s)) c (cb_peers s);
                       cb_checked := cb_checked s; cb_ever := cb_ever s; cb_cbs := remove1 c (cb_cbs s); cb_out := cb_out s |}
           end
      else None
  | CChanClose =>
      Some {| cb_open := false; cb_cstate := cb_cstate s; cb_cpeers := cb_cpeers s; cb_conns := cb_conns s;
              cb_peers := cb_peers s; cb_checked := cb_checked s; cb_ever := cb_ever s; cb_cbs := cb_cbs s; cb_out := cb_out s |}
  end.

Fixpoint crun (s : cbstate) (ls : list clabel) : option cbstate :=
  match ls with
  | [] => Some s
  | l :: r => match cstep s l with Some s' => crun s' r | None => None end
  end.

(* the property's reading of "holds no fully closed connections" *)
Definition closed_conn (s : cbstate) (c : Z) : bool :=
  match zget c (cb_cstate s) with Some st => st =? c_connectionClosed | None => false end.
Definition holds_conn (s : cbstate) (c : Z) : bool :=
  has c (cb_conns s) || existsb (fun pc => snd pc =? c) (cb_peers s).

(* ---- harness entry point ----------------------------------------------------------
   case: n (kind a b c)*   kinds: 0 CNew c p1 p2, 1 CChanAdd c, 2 CPeerCheck p c, 3 CPeerAppend p c,
                           4 CSetState c st, 5 CCallback c, 6 CChanClose
   observable: results, sorted conns, sorted (peer conn) entries                           *)
Definition take_clabel (l : list Z) : clabel * list Z :=
  match l with
  | k :: a :: b :: c :: r =>
      ((if k =? 0 then CNew a b c else if k =? 1 then CChanAdd a else if k =? 2 then CPeerCheck a b
        else if k =? 3 then CPeerAppend a b else if k =? 4 then CSetState a b else if k =? 5 then CCallback a
        else CChanClose), r)
  | _ => (CChanClose, [])
  end.

Fixpoint crun_skip (s : cbstate) (ls : list clabel) : cbstate :=
  match ls with
  | [] => s
  | l :: r => match cstep s l with Some s' => crun_skip s' r | None => crun_skip (cb_push s (-9)) r end
  end.

Fixpoint pinsert (x : Z * Z) (l : list (Z * Z)) : list (Z * Z) :=
  match l with
  | [] => [x]
  | y :: r => if (fst x <? fst y) || ((fst x =? fst y) && (snd x <=? snd y)) then x :: l else y :: pinsert x r
  end.

Definition run_connbook (c : list Z) : list Z :=
  let '(ls, _) := take_list take_clabel c in
  let s := crun_skip cb_init ls in
  put_list (fun x => [x]) (rev (cb_out s))
  ++ put_list (fun x => [x]) (zsort (cb_conns s))
  ++ put_list (fun p => [fst p; snd p]) (fold_right pinsert [] (cb_peers s)).
