(* Property C05 (b): when does a caller get control back?
   (1) A time-abstract model of the caller's goroutine as a sequence of WAIT SITES of the
       generated table (Gen/GenWaitSites.v): code between two blocking statements takes no
       model time, a blocked goroutine leaves a wait at the earliest moment one of the
       exits the statement offers has fired (the Go runtime's select/netpoller wake-up
       latency is outside the model: the scheduling slack of the property statement).
   (2) The new-connection lock of peer.go (lockNewConn / unlockNewConn, and the plain
       sync.Mutex of the pinned tree) as an interleaving transition system.
   (3) The budgets of Channel.Connect / setInitDeadline.
   No proofs here. *)
From Coq Require Import ZArith List Bool.
From Verif Require Import Base.Wrap Gen.GenConsts Spec.WaitSpec.
Import ListNotations.
Local Open Scope Z_scope.

(* ---------- (1) waits ---------- *)
(* when the events a wait can be left through happen; None = never *)
Record wevents := mkEv { ev_data : option Z; ev_err : option Z; ev_timer : option Z }.

(* [dc]: the moment ctx.Done() is closed (deadline or earlier cancellation);
   [dl]: the context's deadline, which is also the net.Conn deadline of the handshake *)
Definition exit_time (dc dl : Z) (ev : wevents) (x : wexit) : option Z :=
  match x with
  | XCtx => Some dc
  | XConnDeadline => Some dl
  | XErrLatch => ev_err ev
  | XTimer => ev_timer ev
  | XData => ev_data ev
  end.

Definition omin (a b : option Z) : option Z :=
  match a, b with
  | None, x => x
  | x, None => x
  | Some x, Some y => Some (Z.min x y)
  end.

Definition first_exit (dc dl : Z) (ev : wevents) (xs : list wexit) : option Z :=
  fold_right (fun x acc => omin (exit_time dc dl ev x) acc) None xs.

(* a goroutine that reaches the wait at time t leaves it at ... (None = blocked for ever) *)
Definition wait_leave (dc dl : Z) (w : wsite) (ev : wevents) (t : Z) : option Z :=
  match first_exit dc dl ev (ws_exits w) with
  | None => None
  | Some e => Some (Z.max t e)
  end.

(* one step of a path: a wait site, the timing of its events, and whether the awaited
   event has already happened when the goroutine arrives (then it does not block) *)
Record pstep := mkStep { p_site : wsite; p_ev : wevents; p_ready : bool }.

(* the time at which the goroutine has passed all the waits of the path; a call that fails
   at some wait returns right there: every prefix of a path is a path *)
Fixpoint run_path (dc dl : Z) (path : list pstep) (t : Z) : option Z :=
  match path with
  | [] => Some t
  | s :: r =>
      if p_ready s then run_path dc dl r t
      else match wait_leave dc dl (p_site s) (p_ev s) t with
           | None => None
           | Some t' => run_path dc dl r t'
           end
  end.

(* ---------- (2) the new-connection lock ---------- *)
(* per-goroutine program counter in Peer.GetConnection *)
Inductive lpc := LIdle | LWait | LHold | LGaveUp | LDone.

(* tokens in the one-slot channel (or: mutex locked), and the callers *)
Record lstate := mkL { l_tok : Z; l_pcs : list lpc }.

Inductive llabel :=
  | LEnter (i : nat)      (* reaches lockNewConn *)
  | LAcquire (i : nat)    (* case p.newConnLock <- struct{}{} : enabled iff the slot is free *)
  | LGiveUp (i : nat)     (* case <-ctx.Done() *)
  | LRelease (i : nat).   (* unlockNewConn: <-p.newConnLock, enabled iff a token is there *)

Definition set_pc (i : nat) (p : lpc) (l : list lpc) : list lpc :=
  firstn i l ++ match skipn i l with [] => [] | _ :: r => p :: r end.

Definition lpc_eqb (a b : lpc) : bool :=
  match a, b with
  | LIdle, LIdle | LWait, LWait | LHold, LHold | LGaveUp, LGaveUp | LDone, LDone => true
  | _, _ => false
  end.

Section Lock.
  (* ctx_aware = true: the repaired code (select with ctx.Done()); false: the pinned tree's
     sync.Mutex, whose Lock() offers no other way out *)
  Variable ctx_aware : bool.

  Definition lstep (s : lstate) (l : llabel) : option lstate :=
    match l with
    | LEnter i =>
        if lpc_eqb (nth i (l_pcs s) LDone) LIdle then Some (mkL (l_tok s) (set_pc i LWait (l_pcs s))) else None
    | LAcquire i =>
        if lpc_eqb (nth i (l_pcs s) LDone) LWait && (l_tok s <? 1)
        then Some (mkL (l_tok s + 1) (set_pc i LHold (l_pcs s))) else None
    | LGiveUp i =>
        if ctx_aware && lpc_eqb (nth i (l_pcs s) LDone) LWait
        then Some (mkL (l_tok s) (set_pc i LGaveUp (l_pcs s))) else None
    | LRelease i =>
        if lpc_eqb (nth i (l_pcs s) LDone) LHold && (l_tok s >? 0)
        then Some (mkL (l_tok s - 1) (set_pc i LDone (l_pcs s))) else None
    end.

  Fixpoint lrun (s : lstate) (ls : list llabel) : option lstate :=
    match ls with
    | [] => Some s
    | l :: r => match lstep s l with None => None | Some s' => lrun s' r end
    end.
End Lock.

Definition linit (n : nat) : lstate := mkL 0 (repeat LIdle n).
Definition holders (s : lstate) : Z := Z.of_nat (length (filter (fun p => lpc_eqb p LHold) (l_pcs s))).

(* ---------- (3) budgets ---------- *)
(* Channel.Connect: ctx, cancel = context.WithTimeout(ctx, params.connectTimeout) when a
   connect timeout > 0 is set: the dial and handshake run under the earlier of the two *)
Definition connect_deadline (now ctx_deadline connect_timeout : Z) : Z :=
  if connect_timeout >? 0 then Z.min ctx_deadline (now + connect_timeout) else ctx_deadline.

(* setInitDeadline: the context's deadline, or now + 5 s when the context has none *)
Definition init_deadline (now : Z) (ctx_deadline : option Z) : Z :=
  match ctx_deadline with Some d => d | None => now + 5000000000 end.
