(* Hand model of the POOLED typed.Reader (typed/reader.go), of its one user in the library,
   thrift.ReadHeaders / readHeaders (thrift/headers.go), and of typed.Writer with its pooled
   8-byte scratch (typed/writer.go) -- property C03: a Reader that failed on one peer's malformed
   header block goes back into a process-wide sync.Pool; the next user (any connection) must not
   see anything of it.

   Go code modelled:
     typed/reader.go   type Reader struct { reader io.Reader; err error; buf [32]byte }
                       NewReader (pool Get + the reset statements), ReadUint16, ReadString,
                       ReadLen16String, Err, Release (pool Put)
     thrift/headers.go readHeaders (count, loop with the sticky-error exit), ReadHeaders
     typed/writer.go   Writer { writer; err }, WriteBytes, WriteUint16 (pooled intBuffer), WriteLen16Bytes
     io.ReadFull       over an underlying reader that delivers its bytes and then an error

   The pooled object a user draws is in ANY state (its previous user's).  The reset statements of
   the Get path are data: [tr_get rs] interprets a list of (field, class) pairs -- the shape of the
   rows that go2v extracts (Gen/GenPoolReset.v); [tr_new_resets] is the list of the code as it is,
   and Proofs/PoolReaderP.v proves it equal to the generated one.

   Error codes: 0 nil, 1 io.EOF, 2 io.ErrUnexpectedEOF, other = whatever else the underlying
   reader / a previous user left (7 = the harness' poison).

   No proofs in this file. *)
From Coq Require Import ZArith List Bool String Ascii.
From Verif Require Import Base.Wrap Base.Bytes Base.Wire Model.Messages.
Import ListNotations.
Local Open Scope Z_scope.

Definition prd_s (s : string) : list Z := map (fun a => Z.of_nat (nat_of_ascii a)) (list_ascii_of_string s).

(* ---------------------------------------------------------------- the underlying io.Reader *)
(* the bytes it still delivers and the error it reports after them (1 = io.EOF) *)
Record psrc := mkPS { ps_bytes : list Z; ps_fin : Z }.

(* io.ReadFull(r, buf) with len(buf) = n: (readN, err, the bytes stored into buf[:readN], r') *)
Definition read_full (s : psrc) (n : Z) : Z * Z * list Z * psrc :=
  if n <=? 0 then (0, 0, [], s)
  else if n <=? zlen (ps_bytes s)
  then (n, 0, firstn (Z.to_nat n) (ps_bytes s), mkPS (skipn (Z.to_nat n) (ps_bytes s)) (ps_fin s))
  else let k := zlen (ps_bytes s) in
       (k, (if k =? 0 then ps_fin s else if ps_fin s =? 1 then 2 else ps_fin s), ps_bytes s, mkPS [] (ps_fin s)).

(* ---------------------------------------------------------------- typed.Reader *)
Record treader := mkTR { tr_rd : psrc; tr_err : Z; tr_buf : list Z }.

Definition c_maxPoolStringLen : Z := 32.

(* NewReader:  r := readerPool.Get().( *Reader); r.reader = reader; r.err = nil; return r
   (the buffer keeps what the previous user left in it) *)
Definition tr_new (pooled : treader) (s : psrc) : treader := mkTR s 0 (tr_buf pooled).

(* the same with the reset statements as data (NOT extracted: character strings): one reset
   statement of the Get path applied to the pooled object, (field, class) *)
Definition tr_apply_reset (s : psrc) (r : treader) (fc : list Z * list Z) : treader :=
  let '(f, c) := fc in
  let good := bytes_eqb c (prd_s "param") || bytes_eqb c (prd_s "zero") || bytes_eqb c (prd_s "fresh") in
  if negb good then r
  else if bytes_eqb f (prd_s "reader") then mkTR (if bytes_eqb c (prd_s "param") then s else mkPS [] 0) (tr_err r) (tr_buf r)
  else if bytes_eqb f (prd_s "err") then mkTR (tr_rd r) 0 (tr_buf r)
  else if bytes_eqb f (prd_s "buf") then mkTR (tr_rd r) (tr_err r) (repeat 0 32)
  else r.
Definition tr_get (rs : list (list Z * list Z)) (pooled : treader) (s : psrc) : treader :=
  fold_left (tr_apply_reset s) rs pooled.
Definition tr_new_resets : list (list Z * list Z) := [(prd_s "reader", prd_s "param"); (prd_s "err", prd_s "zero")].
(* Release: readerPool.Put(r), no statement in front of it *)
Definition tr_release_resets : list (list Z * list Z) := [].
(* the struct's fields *)
Definition tr_fields : list (list Z) := [prd_s "reader"; prd_s "err"; prd_s "buf"].

(* io.ReadFull stores into the front of the array *)
Definition buf_store (buf data : list Z) : list Z := data ++ skipn (List.length data) buf.

(* ReadUint16 *)
Definition tr_read_uint16 (r : treader) : Z * treader :=
  if negb (tr_err r =? 0) then (0, r)
  else
    let '(readN, err, data, s') := read_full (tr_rd r) 2 in
    let r' := mkTR s' err (buf_store (tr_buf r) data) in
    if readN <? 2 then (0, r') else (unbe (firstn 2 (tr_buf r')), r').

(* ReadString(n): None = the slice expression r.buf[:n] / make([]byte, n) panics for n < 0 (no
   caller in the library passes one: ReadLen16String passes int(uint16)) *)
Definition tr_read_string (n : Z) (r : treader) : option (list Z * treader) :=
  if negb (tr_err r =? 0) then Some ([], r)
  else if n <? 0 then None
  else
    let '(readN, err, data, s') := read_full (tr_rd r) n in
    let pooled := n <=? c_maxPoolStringLen in
    let buf' := if pooled then buf_store (tr_buf r) data else tr_buf r in
    let r' := mkTR s' err buf' in
    if readN <? n then Some ([], r')
    else Some (if pooled then firstn (Z.to_nat n) buf' else data, r').

Definition tr_read_len16 (r : treader) : option (list Z * treader) :=
  let '(n, r1) := tr_read_uint16 r in tr_read_string n r1.

(* readHeaders: the loop runs while i < numHeaders and the reader has no error; headers[k] = v
   in reading order (the caller gets a map: last binding wins) *)
Fixpoint tr_headers_loop (k : nat) (r : treader) (acc : kvs) : option (kvs * treader) :=
  match k with
  | O => Some (acc, r)
  | S k' =>
      if negb (tr_err r =? 0) then Some (acc, r)
      else match tr_read_len16 r with
           | None => None
           | Some (key, r1) =>
               match tr_read_len16 r1 with
               | None => None
               | Some (v, r2) => tr_headers_loop k' r2 (acc ++ [(key, v)])
               end
           end
  end.

(* (headers or nil, reader.Err(), the reader afterwards) *)
Definition tr_read_headers (r : treader) : option (option kvs * Z * treader) :=
  let '(n, r1) := tr_read_uint16 r in
  if n =? 0 then Some (None, tr_err r1, r1)
  else match tr_headers_loop (Z.to_nat n) r1 [] with
       | None => None
       | Some (h, r2) => Some (Some h, tr_err r2, r2)
       end.

(* thrift.ReadHeaders(r): NewReader, readHeaders, Release; the released object is what the pool
   holds for the next user.  [rs] = the reset statements of the Get path. *)
Definition tr_ReadHeaders (pooled : treader) (s : psrc) : option (option kvs * Z * treader) :=
  tr_read_headers (tr_new pooled s).
Definition tr_ReadHeaders_with (rs : list (list Z * list Z)) (pooled : treader) (s : psrc) : option (option kvs * Z * treader) :=
  tr_read_headers (tr_get rs pooled s).

(* Get paths that are NOT the code's (for the necessity statements of Proofs/PoolReaderP.v):
   only the underlying reader is assigned (the error survives) / only the error is cleared *)
Definition tr_resets_no_err : list (list Z * list Z) := [(prd_s "reader", prd_s "param")].
Definition tr_resets_no_reader : list (list Z * list Z) := [(prd_s "err", prd_s "zero")].

(* ---------------------------------------------------------------- typed.Writer + intBuffer *)
(* the underlying io.Writer accepts [tw_room] more bytes (-1 = any number); a Write beyond that
   stores what fits and fails with error 3 *)
Record twriter := mkTW { tw_out : list Z; tw_room : Z; tw_err : Z }.

Definition tw_raw_write (b : list Z) (w : twriter) : twriter :=
  if (tw_room w <? 0) then mkTW (tw_out w ++ b) (tw_room w) (tw_err w)
  else if zlen b <=? tw_room w then mkTW (tw_out w ++ b) (tw_room w - zlen b) (tw_err w)
  else mkTW (tw_out w ++ firstn (Z.to_nat (tw_room w)) b) 0 3.

(* WriteBytes *)
Definition tw_bytes (b : list Z) (w : twriter) : twriter :=
  if negb (tw_err w =? 0) then w else tw_raw_write b w.

(* WriteUint16 with the pooled scratch [ib] (8 bytes in ANY state): PutUint16(sizeBuf[:2], n);
   Write(sizeBuf[:2]); the scratch goes back to the pool as it is *)
Definition tw_uint16 (n : Z) (ib : list Z) (w : twriter) : twriter * list Z :=
  if negb (tw_err w =? 0) then (w, ib)
  else let ib' := buf_store ib (be 2 n) in
       (tw_raw_write (firstn 2 ib') w, ib').

(* WriteLen16Bytes: uint16(len(b)) then the bytes *)
Definition tw_len16 (b : list Z) (ib : list Z) (w : twriter) : twriter * list Z :=
  if negb (tw_err w =? 0) then (w, ib)
  else let '(w1, ib1) := tw_uint16 (wrapU 16 (zlen b)) ib w in (tw_bytes b w1, ib1).

(* ---------------------------------------------------------------- harness entry points *)
(* the harness' poisoned pool object: what a hostile previous user can leave behind, made loud *)
Definition tr_poison : treader := mkTR (mkPS [] 7) 7 (repeat 170 32).

(* sub poolreader: a sequence of uses of pooled Readers, the object threaded from use to use.
   case  = n, then per use: kind (0 scripted ops on one Reader, 1 thrift.ReadHeaders), fin, bytes,
           [scripted: nops, (op, arg)*]   op 0 ReadUint16, 1 ReadString(arg), 2 ReadLen16String, 3 Err
   obs   = per use: scripted: per op its result (value | bytes | code), then Err();
                    headers : err code, then when 0: nil flag, canonical map *)
Definition prd_take_op (l : list Z) : (Z * Z) * list Z :=
  let '(op, r) := take1 l in let '(a, r') := take1 r in ((op, a), r').

Fixpoint prd_run_ops (ops : list (Z * Z)) (r : treader) : list Z * treader :=
  match ops with
  | [] => ([tr_err r], r)
  | (op, a) :: rest =>
      let '(out, r1) :=
        if op =? 0 then let '(v, r1) := tr_read_uint16 r in ([v], r1)
        else if op =? 1 then match tr_read_string a r with Some (s, r1) => (put_bytes s, r1) | None => ([-1], r) end
        else if op =? 2 then match tr_read_len16 r with Some (s, r1) => (put_bytes s, r1) | None => ([-1], r) end
        else ([tr_err r], r) in
      let '(outs, r2) := prd_run_ops rest r1 in (out ++ outs, r2)
  end.

Definition prd_headers_obs (res : option (option kvs * Z * treader)) : list Z :=
  match res with
  | None => [-1]
  | Some (h, e, _) =>
      if negb (e =? 0) then [e]
      else match h with
           | None => [0; 1; 0]
           | Some l => [0; 0] ++ put_list put_kv (canon_map l)
           end
  end.

Fixpoint prd_run_uses (k : nat) (l : list Z) (pooled : treader) : list Z :=
  match k with
  | O => []
  | S k' =>
      let '(kind, l1) := take1 l in
      let '(fin, l2) := take1 l1 in
      let '(bytes, l3) := take_bytes l2 in
      let s := mkPS bytes fin in
      if kind =? 0 then
        let '(ops, l4) := take_list prd_take_op l3 in
        let '(out, r') := prd_run_ops ops (tr_new pooled s) in
        out ++ prd_run_uses k' l4 r'
      else
        let res := tr_ReadHeaders pooled s in
        prd_headers_obs res ++ prd_run_uses k' l3 (match res with Some (_, _, r') => r' | None => pooled end)
  end.

Definition run_poolreader (l : list Z) : list Z :=
  let '(n, r) := take1 l in prd_run_uses (Z.to_nat n) r tr_poison.

(* sub poolwriter: one typed.Writer over a writer with [room], ops 0 WriteUint16(arg), 1 WriteBytes,
   2 WriteLen16Bytes; the pooled scratch starts poisoned.  obs = bytes written, Err() *)
Definition pwr_take_op (l : list Z) : (Z * Z * list Z) * list Z :=
  let '(op, r) := take1 l in let '(a, r1) := take1 r in let '(b, r2) := take_bytes r1 in ((op, a, b), r2).

Fixpoint pwr_run_ops (ops : list (Z * Z * list Z)) (ib : list Z) (w : twriter) : twriter :=
  match ops with
  | [] => w
  | (op, a, b) :: rest =>
      if op =? 0 then let '(w1, ib1) := tw_uint16 a ib w in pwr_run_ops rest ib1 w1
      else if op =? 1 then pwr_run_ops rest ib (tw_bytes b w)
      else let '(w1, ib1) := tw_len16 b ib w in pwr_run_ops rest ib1 w1
  end.

Definition run_poolwriter (l : list Z) : list Z :=
  let '(room, r) := take1 l in
  let '(ops, _) := take_list pwr_take_op r in
  let w := pwr_run_ops ops (repeat 170 8) (mkTW [] room 0) in
  put_bytes (tw_out w) ++ [tw_err w].
