(* Property C05 (b): the scenario family "the connection fails while another call begins"
   (engine cutbegin) as paths of the time-abstract model (Model/CallPath.v run_path) over
   BOTH generated tables: the wait sites (Gen/GenWaitSites.v, looked up by function name) and
   the lock acquisitions of the call path (Gen/GenLockProgs.v).  A lock acquisition has no
   exit of its own; in the model it takes no time iff the lock discipline holds for every
   lock program of the package (Model/LockProg.v fn_ok over lockp_progs: the holders' critical
   sections are balanced and contain no blocking statement) and the site is in the table --
   otherwise the goroutine may be blocked for ever.

   A scenario: side (0: outbound calls of a client; 1: inbound calls at a server), the kind
   of failure, nnew calls parked between the state check and the registration of their
   exchange (outbound.afterStateCheck / inbound.afterStateCheck) when the connection fails at
   time 0 and released after the failure has been delivered, and k calls in flight at
   various stages plus one sentinel that waits for the peer; no response is on its way.
   Every call has its own deadline (ms after the failure).  Prediction per call:
   [failed; control back by the deadline].  No proofs here. *)
From Coq Require Import ZArith List Bool.
From Verif Require Import Base.Wrap Base.Bytes Base.Wire Gen.GenConsts Gen.GenWaitSites Gen.GenLockProgs
  Spec.WaitSpec Spec.LockProgSpec Model.CallPath Model.CallScen Model.LockProg.
Import ListNotations.
Local Open Scope Z_scope.

(* "messageExchangeSet.newExchange", "messageExchangeSet.removeExchange" *)
Definition n_newex : list Z := [109; 101; 115; 115; 97; 103; 101; 69; 120; 99; 104; 97; 110; 103; 101; 83; 101; 116; 46; 110; 101; 119; 69; 120; 99; 104; 97; 110; 103; 101].
Definition n_rmex : list Z := [109; 101; 115; 115; 97; 103; 101; 69; 120; 99; 104; 97; 110; 103; 101; 83; 101; 116; 46; 114; 101; 109; 111; 118; 101; 69; 120; 99; 104; 97; 110; 103; 101].

Definition lock_table_ok : bool := forallb (fn_ok (sem_of lockp_mutexes)) lockp_progs.

(* the acquisition of a plain mutex inside function [name]: passes at once iff the site is in
   the table and the discipline holds; a lock wait offers no exit *)
Definition lock_in (name : list Z) : pstep :=
  let known := existsb (fun l => bytes_eqb (ls_fn l) name && site_plainb lockp_mutexes l) (lockp_sites ++ lockp_sites_conn) in
  mkStep (mkWsite name WLock []) (mkEv None None None) (known && lock_table_ok).

(* the error latch of the call's exchange fires when the failure is delivered (time 0) *)
Definition w_err (name : list Z) : pstep := mkStep (site_named name) (mkEv None (Some 0) None) false.

(* stage 0: begun, arg2/arg3 still to write; 1: arg2 written; 3: a fragment of arg3 flushed:
   the next flush meets the error, then the exchange is removed from the set.
   stage 2 (and the sentinel): request complete, waiting for the response. *)
Definition path_inflight (stage : Z) : list pstep :=
  if stage =? 2 then [w_err n_recv; lock_in n_rmex] else [w_err n_flush; lock_in n_rmex].

(* a call released after the failure: registers its exchange on a set that has been shut down *)
Definition path_new : list pstep := [lock_in n_newex].

Definition cb_result (d : Z) (path : list pstep) : list Z :=
  match run_path d d path 0 with
  | None => [1; 0]
  | Some t => [1; zb (t <=? d)]
  end.

Fixpoint cb_calls (k : nat) (c : list Z) : list Z :=
  match k, c with
  | S k', stage :: d :: r => cb_result d (path_inflight stage) ++ cb_calls k' r
  | _, _ => []
  end.

(* the follow-up call made when all that is over: picks a connection of the peer (Peer and
   connection-state locks), finds none active, connects (the peer is reachable and answers at
   once); [0; in time]: a valid outcome (its exact response, or an error) by the deadline *)
Definition n_getconn : list Z := [80; 101; 101; 114; 46; 103; 101; 116; 65; 99; 116; 105; 118; 101; 67; 111; 110; 110].   (* "Peer.getActiveConn" *)
Definition n_readstate : list Z := [67; 111; 110; 110; 101; 99; 116; 105; 111; 110; 46; 114; 101; 97; 100; 83; 116; 97; 116; 101].   (* "Connection.readState" *)
Definition path_after : list pstep :=
  [lock_in n_getconn; lock_in n_readstate; w_ready n_lock; w_ready n_dial; w_ready n_hs_write; w_ready n_hs_read;
   lock_in n_newex; w_ready n_flush; w_wait n_recv (Some 0); lock_in n_rmex].

(* side cut nnew k d_sentinel d_followup newdeadlines... (stage deadline)...  *)
(* side 2: the connection's reader is stalled by a slow consumer A while B begins a call: B
   registers its exchange, sends, and waits for a response that is stuck behind A's frames:
   back at its deadline; A, released afterwards, reads on.  [valid outcome; in time] each. *)
Definition path_slow_b : list pstep := [lock_in n_newex; w_ready n_flush; w_wait n_recv None; lock_in n_rmex].
Definition path_slow_a : list pstep := [w_wait n_recv (Some 0); lock_in n_rmex].

Definition run_c05cutbegin (c : list Z) : list Z :=
  match c with
  | [2; _; _; _; da; db] => [0; nth 1 (cb_result db path_slow_b) 0; 0; nth 1 (cb_result da path_slow_a) 0]
  | _ :: _ :: nnew :: k :: ds :: da :: r =>
      let news := firstn (Z.to_nat nnew) r in
      let calls := skipn (Z.to_nat nnew) r in
      cb_calls (Z.to_nat k) calls ++ cb_result ds (path_inflight 2) ++ flat_map (fun d => cb_result d path_new) news ++
      [0; nth 1 (cb_result da path_after) 0]
  | _ => [-1]
  end.
