(* Hand model of the transport-level (tracing) keys that travel inside the application-header
   map of thrift and JSON calls: tracing_keys.go (tracingKeyPrefix, the two key mappers,
   tracingKeysMapping.mapAndCache, tracingHeadersCarrier.Set / ForeachKey / RemoveTracingKeys) and
   tracing.go InjectOutboundSpan / ExtractInboundSpan, with their call sites thrift/client.go
   writeArgs, json/call.go makeCall, thrift/server.go handle, json/handler.go Handle.

   The caller's tracer serialises its span context through carrier.Set(k, v): the entry
   ("$tracing$" ++ k, v) is put into a NEW map, into which the application headers are then merged
   (an application header never overwrites an injected key); that map is arg2.  The callee
   decodes arg2 and, whenever the decoded map is not nil, removes EVERY entry whose key starts
   with the prefix -- whatever tracer.Extract returned, and whether or not a span had already been
   created from the frame's Zipkin field -- before the handler's context is built from the map.

   Header maps are canonical association lists (Base/GoStrMap.v); nil and the empty map are [].
   Go ranges over a map in an unspecified order: the loops take the order as a parameter
   (`_in`), the executable versions use the canonical one.  No proofs in this file. *)
From Coq Require Import ZArith List Bool.
From Verif Require Import Base.Wrap Base.Wire Base.GoStrMap Gen.GenConsts
  Model.TypedBuf Model.Messages Model.Codecs Spec.HdrPath Model.HdrSlot.
Import ListNotations.
Local Open Scope Z_scope.

(* ---------------- tracing_keys.go ---------------- *)
Definition tprefix : list Z := c_tracingKeyPrefix.
(* strings.HasPrefix(key, tracingKeyPrefix): the key belongs to the transport *)
Definition reserved (k : list Z) : bool := str_has_prefix k tprefix.
Definition app_key (kv : list Z * list Z) : bool := negb (reserved (fst kv)).

Definition encode_key (k : list Z) : list Z := tprefix ++ k.
(* key[len(tracingKeyPrefix):] -- None: the slice expression panics *)
Definition decode_key (k : list Z) : option (list Z) := str_from k (zlen tprefix).

(* mapAndCache: `cache` is m.mapping when the read lock is held, `cache'` when the write lock is
   held (other goroutines may have stored entries in between).  Result: (m.mapping afterwards,
   the mapped key). *)
Definition map_and_cache (mapper : list Z -> list Z) (cache cache' : kvs) (key : list Z) : kvs * list Z :=
  let '(v, ok) := hm_get cache key in
  if ok then (cache, v)
  else
    let '(v', ok') := hm_get cache' key in
    if ok' then (cache', v')
    else
      let mapped := mapper key in
      if zlen cache' <? c_tracingKeyMappingSize then (hm_set cache' key mapped, mapped) else (cache', mapped).

(* tracingHeadersCarrier.Set *)
Definition carrier_set (c : kvs) (k v : list Z) : kvs := hm_set c (encode_key k) v.

(* RemoveTracingKeys: `for key := range c { if HasPrefix(key, prefix) { delete(c, key) } }`.  The
   body deletes only the key it is visiting, so every key present at loop entry is visited once. *)
Definition strip_step (c : kvs) (key : list Z) : kvs := if reserved key then hm_del c key else c.
Definition strip_in (order : list (list Z)) (c : kvs) : kvs := fold_left strip_step order c.
Definition strip (c : kvs) : kvs := strip_in (map fst c) c.

(* ForeachKey: what the handler function (the callee's tracer) is shown *)
Definition foreach_visits (k : list Z) : bool := reserved k.
Definition tracer_view (c : kvs) : list (option (list Z) * list Z) :=
  map (fun kv => (decode_key (fst kv), snd kv)) (filter (fun kv => foreach_visits (fst kv)) c).

(* ---------------- tracing.go ---------------- *)
(* what span.Tracer().Inject does to the fresh map: one carrier.Set per pair of `sets` *)
Definition inject_sets (sets : kvs) : kvs :=
  fold_left (fun c kv => carrier_set c (fst kv) (snd kv)) sets [].
(* `for k, v := range headers { if _, ok := newHeaders[k]; !ok { newHeaders[k] = v } }` *)
Definition merge_step (nh : kvs) (k v : list Z) : kvs := if hm_mem nh k then nh else hm_set nh k v.
Definition merge_in (order : kvs) (nh : kvs) : kvs :=
  fold_left (fun nh kv => merge_step nh (fst kv) (snd kv)) order nh.

(* InjectOutboundSpan: has_span = (response.span != nil); sets = the pairs the tracer injects *)
Definition inject_outbound_in (order : kvs) (has_span : bool) (sets : kvs) (headers : kvs) : kvs :=
  if negb has_span then headers
  else
    let nh := inject_sets sets in
    if zlen nh =? 0 then headers else merge_in order nh.
Definition inject_outbound (has_span : bool) (sets : kvs) (headers : kvs) : kvs :=
  inject_outbound_in headers has_span sets headers.

(* ExtractInboundSpan: the map the handler's context is built from.  Neither the branch taken
   (span already created from the Zipkin field or not) nor the result of tracer.Extract matters. *)
Definition extract_inbound (nonnil : bool) (headers : kvs) : kvs :=
  if nonnil then strip headers else headers.

(* ---------------- the request-header path of one call ---------------- *)
(* tracer configuration of a call: the caller's side (span present, pairs injected) and the
   callee's side (span from the Zipkin field?, does Extract succeed?) *)
Record tcfg := mkT { t_span : bool; t_sets : kvs; t_cspan : bool; t_ok : bool }.

Definition is_empty (h : kvs) : bool := match h with [] => true | _ => false end.

(* thrift: writeArgs (InjectOutboundSpan, WriteHeaders) -> server.handle (ReadHeaders: nil for an
   empty map; ExtractInboundSpan; ctxFn) *)
Definition seen_thrift (t : tcfg) (h : kvs) : option kvs :=
  match thrift_wire (inject_outbound (t_span t) (t_sets t) h) with
  | None => None
  | Some d => Some (extract_inbound (negb (is_empty d)) d)
  end.
(* JSON: makeCall (InjectOutboundSpan, WriteJSON) -> handler.Handle (ReadJSON: nil only for
   `null`, i.e. for a nil map; ExtractInboundSpan; WithHeaders) *)
Definition seen_json (t : tcfg) (nonnil : bool) (h : kvs) : kvs :=
  extract_inbound nonnil (inject_outbound (t_span t) (t_sets t) h).

(* Model/HdrSlot.v call_thrift / call_json with the tracing layer in the request path (the
   response path has none: the server writes ctx.ResponseHeaders() as they are) *)
Definition call_thrift_tr (t : tcfg) (c : hslot) (outcome : Z) (resp : kvs) : hslot * callobs :=
  match seen_thrift t (ctx_headers c) with
  | None => (c, mkCallObs 2 false [])
  | Some seen =>
      if negb ((outcome =? 0) || (outcome =? 1)) then
        let '(slot, _) := thrift_call_tail (ctx_resp_headers c) true [] false in
        (ctx_set_resp c slot, mkCallObs 2 true seen)
      else
        let hctx := ctx_set_resp (ctx_with_headers seen) resp in
        match thrift_wire (ctx_resp_headers hctx) with
        | None => (c, mkCallObs 2 true seen)
        | Some rh =>
            let '(slot, res) := thrift_call_tail (ctx_resp_headers c) false rh (outcome =? 0) in
            (ctx_set_resp c slot,
             mkCallObs (match res with None => 2 | Some true => 0 | Some false => 1 end) true seen)
        end
  end.

Definition call_json_tr (t : tcfg) (nonnil : bool) (c : hslot) (outcome : Z) (resp : kvs) : hslot * callobs :=
  let seen := seen_json t nonnil (ctx_headers c) in
  if negb ((outcome =? 0) || (outcome =? 1)) then
    let '(slot, res) := json_call_tail (ctx_resp_headers c) true [] false in
    (ctx_set_resp c slot, mkCallObs res true seen)
  else
    let hctx := ctx_set_resp (ctx_with_headers seen) resp in
    let '(slot, res) := json_call_tail (ctx_resp_headers c) false (ctx_resp_headers hctx) (outcome =? 0) in
    (ctx_set_resp c slot, mkCallObs res true seen).

Definition do_call_tr (t : tcfg) (nonnil : bool) (c : hslot) (kind outcome : Z) (resp : kvs) : hslot * callobs :=
  if kind =? 0 then call_thrift_tr t c outcome resp else call_json_tr t nonnil c outcome resp.

(* ---------------- harness entry point ---------------- *)
(* case: kind (0 thrift, other JSON), has_span, the pairs the caller's tracer passed to
   carrier.Set (recorded by the harness tracer), the application headers attached to the context;
   anything after that (the configuration label) is not read.
   Output: the headers the handler saw ([255]: the codec refused the map). *)
Definition run_tracehdr (c : list Z) : list Z :=
  let '(kind, r1) := take1 c in
  let '(hs, r2) := take1 r1 in
  let '(sets, r3) := take_list take_kv r2 in
  let '(m, _) := take_list take_kv r3 in
  let t := mkT (bz hs) sets false false in
  if kind =? 0 then
    match seen_thrift t m with
    | None => [255]
    | Some seen => put_list put_kv seen
    end
  else
    put_list put_kv (seen_json t (negb (is_empty (inject_outbound (bz hs) sets m))) m).
