(* Harness entry points for the handshake model (engine "handshake"). *)
From Coq Require Import ZArith List Bool.
From Verif Require Import Base.Wrap Base.Wire Base.Bytes Gen.GenConsts Model.TypedBuf Model.Messages
  Model.HsText Model.Handshake.
Import ListNotations.
Local Open Scope Z_scope.

(* hostport process lang langver tver hide remote *)
Definition take_cfg (l : list Z) : hcfg * list Z :=
  let '(hp, r1) := take_bytes l in
  let '(pn, r2) := take_bytes r1 in
  let '(la, r3) := take_bytes r2 in
  let '(lv, r4) := take_bytes r3 in
  let '(tv, r5) := take_bytes r4 in
  let '(hide, r6) := take1 r5 in
  let '(rem, r7) := take_bytes r6 in
  (mkCfg hp pn la lv tv (bz hide) rem, r7).

Definition take_ending (l : list Z) : ending * list Z :=
  let '(e, r) := take1 l in (if e =? 0 then Silence else PeerClosed, r).

Definition put_kvs_sorted (h : kvs) : list Z := put_list put_kv (canon_map h).

Definition enc_frame (e : effect) : list Z :=
  match e with
  | Send (DInit t id v p) _ => [t; id; v] ++ put_kvs_sorted p
  | Send (DErr id code msg) _ => [c_messageTypeError; id; code; 1] ++ put_bytes msg
  | _ => []
  end.
Definition is_send (e : effect) : bool := match e with Send _ _ => true | _ => false end.

(* sorted multiset of (host:port, outbound?) entries *)
Definition pc_le (a b : list Z * bool) : bool :=
  match bytes_cmp (fst a) (fst b) with
  | Lt => true
  | Gt => false
  | Eq => implb (snd a) (snd b)
  end.
Fixpoint pc_insert (x : list Z * bool) (l : list (list Z * bool)) : list (list Z * bool) :=
  match l with
  | [] => [x]
  | y :: r => if pc_le x y then x :: l else y :: pc_insert x r
  end.
Definition pc_sort (l : list (list Z * bool)) : list (list Z * bool) := fold_right pc_insert [] l.
Definition put_pc (x : list Z * bool) : list Z := put_bytes (fst x) ++ [zb (snd x)].

Definition enc_pi (p : option peerinfo) : list Z :=
  match p with
  | None => []
  | Some pi => put_bytes (pi_hostport pi) ++ put_bytes (pi_process pi) ++ [zb (pi_ephemeral pi)]
               ++ put_bytes (pi_lang pi) ++ put_bytes (pi_langver pi) ++ put_bytes (pi_tver pi)
  end.

Definition enc_err (e : option herr) : list Z :=
  match e with
  | None => [0; 0; 0; 0]
  | Some e => [1; zb (e_sys (goerr_of e)); (if e_sys (goerr_of e) then e_code (goerr_of e) else 0)] ++ put_bytes (herr_text e)
  end.

(* accepted [caller error] frames closed registrations peer-entries [peer info] *)
Definition enc_result (dirout : bool) (r : hs_result) : list Z :=
  let ch := fold_left (fun c e => apply_effect c dirout e) (hr_eff r) chan0 in
  [zb (match hr_conn r with Some _ => true | None => false end)]
  ++ (if dirout then enc_err (hr_err r) else [])
  ++ put_list enc_frame (filter is_send (hr_eff r))
  ++ [ch_closed ch; zlen (ch_conns ch)]
  ++ put_list put_pc (pc_sort (ch_peerconns ch))
  ++ enc_pi (hr_conn r).

(* ending cfg stream *)
Definition run_hs_in (c : list Z) : list Z :=
  let '(e, r1) := take_ending c in
  let '(cfg, r2) := take_cfg r1 in
  let '(stream, _) := take_bytes r2 in
  enc_result false (inbound cfg stream e).

Definition run_hs_out (c : list Z) : list Z :=
  let '(e, r1) := take_ending c in
  let '(cfg, r2) := take_cfg r1 in
  let '(stream, _) := take_bytes r2 in
  enc_result true (connect cfg stream e).

(* a history on one channel: n (out ending cfg stream)*  ->  connections closed peer-entries *)
Definition take_attempt (l : list Z) : attempt * list Z :=
  let '(o, r0) := take1 l in
  let '(e, r1) := take_ending r0 in
  let '(cfg, r2) := take_cfg r1 in
  let '(stream, r3) := take_bytes r2 in
  (mkAtt (bz o) cfg stream e, r3).

Definition run_hs_hist (c : list Z) : list Z :=
  let '(atts, _) := take_list take_attempt c in
  let ch := run_channel atts in
  [zlen (ch_conns ch); ch_closed ch] ++ put_list put_pc (pc_sort (ch_peerconns ch)).
