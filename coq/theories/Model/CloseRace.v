(* Entry point of the C07 engine "closerace": forced schedules of Close against ONE request on a
   connection, replayed on the connection model (Model/ConnClose.v), and the code-independent
   SPECIFICATION of what the peer must observe (written from the property statement).
   Proofs/CloseRaceP.v proves  run_closerace = spec_closerace  on the whole domain of the engine,
   so an implementation that disagrees with the model on such a case disagrees with the
   specification on that very input.

   case:  kind k code pos by_channel
     k = number of other inbound calls (ids 101..100+k) that are dispatched and in flight;
     the target request has id 200.
     kind 0  the target is parked at inbound.afterNewExchange (registered, re-check pending);
             Close; the target is released; the other handlers return.
     kind 1  the same, parked at inbound.afterStateCheck (not yet registered).
     kind 2  k+1 calls dispatched (the target at position pos of the completion order); Close;
             the handlers return in that order, the target with
             InboundCallResponse.SendSystemError(code)   (code 0: with a normal response).
     kind 3  k calls dispatched; Close; a ping req; the handlers return.
     kind 4  one outbound call begun; Close; a ping req; the peer's response.
     kind 5  k calls dispatched; a ping req (no Close); the handlers return.
     kind 6  (V07) k OUTBOUND calls begun and in flight; a further beginCall is parked at
             outbound.afterStateCheck (state check passed, exchange not yet registered); Close -- with
             NO inbound call in flight, so the connection walks on to InboundClosed (k >= 1) or Closed
             (k = 0) inside that very Close; the beginCall is released; the peer answers the others.
     kind 7  (V07) the same with k >= 1 INBOUND calls dispatched instead (the connection stops in
             StartClose); the handlers return at the end.
     kind 8, 9  (V07) as 6, 7 with the beginCall parked at outbound.afterNewExchange (its exchange is
             registered, the re-check is still to come): its own exchange holds the connection in
             InboundClosed (StartClose under an inbound call); the re-check fails, the removal of
             the exchange lets the connection close.
     by_channel: Close is Channel.Close / Connection.Close (the same steps of the connection).
   observable:  state  #close(stopCh)  #error-frames (id code)*  ping-res-seen
                kinds 6 .. 9 add:  outcome of the raced beginCall (20 = a call was returned, 22 = it failed
                at the re-check with ErrConnectionClosed)   #outbound exchanges left *)
From Coq Require Import ZArith List Bool.
From Verif Require Import Base.Wrap Base.Wire Gen.GenConsts Model.CloseKernel Model.ConnClose.
Import ListNotations.
Local Open Scope Z_scope.

Definition race_target : Z := 200.

(* start a thread and run it until it is done or parked at a schedule point of [mask] *)
Definition race_op (s : sys) (k : kind) (mask : Z) : sys :=
  match step s (LSpawn k) with
  | Some s1 => fst (run_to 64 s1 (length (thr s)) mask true)
  | None => s
  end.
Definition race_resume (s : sys) (tid : nat) : sys := fst (run_to 64 s tid 0 true).

Fixpoint race_others (n : nat) : list Z :=
  match n with O => [] | S m => race_others m ++ [100 + Z.of_nat n] end.

Definition race_dispatch (s : sys) (ids : list Z) : sys :=
  fold_left (fun s id => race_op s (TReader id) 0) ids s.

(* the handler of [id] returns: its own exchange removal, then the watcher goroutine's expiry *)
Definition race_finish (s : sys) (id code : Z) : sys :=
  let s1 := if code =? 0 then race_op s (TFinIn id) 0 else race_op s (TFinInErr id code) 0 in
  race_op s1 (TExpire id) 0.

Definition race_finish_all (s : sys) (ids : list Z) : sys :=
  fold_left (fun s id => race_finish s id 0) ids s.

Definition race_state (kind k code pos : Z) : sys :=
  let others := race_others (Z.to_nat k) in
  let s0 := init false in
  if (kind =? 0) || (kind =? 1) then
    let s1 := race_dispatch s0 others in
    let tid := length (thr s1) in
    let s2 := race_op s1 (TReader race_target) (if kind =? 0 then 8 else 4) in
    let s3 := race_op s2 TCloser 0 in
    let s4 := race_resume s3 tid in
    race_finish_all s4 others
  else if kind =? 2 then
    let order := firstn (Z.to_nat pos) others ++ [race_target] ++ skipn (Z.to_nat pos) others in
    let s1 := race_dispatch s0 order in
    let s2 := race_op s1 TCloser 0 in
    fold_left (fun s id => race_finish s id (if id =? race_target then code else 0)) order s2
  else if kind =? 3 then
    let s1 := race_dispatch s0 others in
    let s2 := race_op s1 TCloser 0 in
    let s3 := race_op s2 (TPing 9) 0 in
    race_finish_all s3 others
  else if kind =? 4 then
    let s1 := race_op s0 TCaller 0 in
    let s2 := race_op s1 TCloser 0 in
    let s3 := race_op s2 (TPing 9) 0 in
    race_op s3 (TFinOut 1) 0
  else if (kind =? 6) || (kind =? 8) then
    (* the k earlier outbound calls get the ids 1..k (c.nextMessageID), the raced one k+1 *)
    let s1 := fold_left (fun s _ => race_op s TCaller 0) others s0 in
    let tid := length (thr s1) in
    let s2 := race_op s1 TCaller (if kind =? 6 then 16 else 32) in
    let s3 := race_op s2 TCloser 0 in
    let s4 := race_resume s3 tid in
    fold_left (fun s id => race_op s (TFinOut (id - 100)) 0) others s4
  else if (kind =? 7) || (kind =? 9) then
    let s1 := race_dispatch s0 others in
    let tid := length (thr s1) in
    let s2 := race_op s1 TCaller (if kind =? 7 then 16 else 32) in
    let s3 := race_op s2 TCloser 0 in
    let s4 := race_resume s3 tid in
    race_finish_all s4 others
  else
    let s1 := race_dispatch s0 others in
    let s2 := race_op s1 (TPing 9) 0 in
    race_finish_all s2 others.

Definition is_pong (p : pc) : bool := match p with PDone o _ => o =? oPong | _ => false end.

Definition race_obs (s : sys) : list Z :=
  [st (sh s); g_stop_closes (sh s)]
  ++ put_list (fun r => [snd (fst r); snd r]) (g_replies (sh s))
  ++ [zb (existsb is_pong (thr s))].

(* kinds 6 .. 9: the raced beginCall is thread number k (the k others were started before it) *)
Definition race_caller_obs (s : sys) (k : Z) : list Z :=
  [match nth_error (thr s) (Z.to_nat k) with Some (PDone o _) => o | _ => -1 end; zlen (outb (sh s))].

Definition run_closerace (c : list Z) : list Z :=
  match c with
  | kind :: k :: code :: pos :: _ =>
      let s := race_state kind k code pos in
      if (6 <=? kind) && (kind <=? 9) then race_obs s ++ race_caller_obs s k else race_obs s
  | _ => [-9]
  end.

(* ---- the specification: what the property statement demands the peer to observe ---------- *)
(* Closed = 4, Active = 1, Declined = 4 are the protocol's numbers (Gen.GenConsts: checked equal
   in Proofs/CloseRaceP.v). *)
Definition spec_closerace (kind k code : Z) : list Z :=
  if kind =? 0 then
    (* the raced request is answered with exactly one declined frame; then everything drains *)
    [4; 1; 1; race_target; 4; 0]
  else if kind =? 1 then
    (* with nothing else in flight Close has completed before the request is registered: no
       frame can be sent, the peer sees the end of the stream; otherwise as kind 0 *)
    if k =? 0 then [4; 1; 0; 0] else [4; 1; 1; race_target; 4; 0]
  else if kind =? 2 then
    (* the accepted call's result is delivered: its error frame when it is an error *)
    if code =? 0 then [4; 1; 0; 0] else [4; 1; 1; race_target; code; 0]
  else if kind =? 3 then
    (* the ping is answered, no error frame, the connection drains and closes (with nothing in
       flight the connection is Closed before the ping arrives: nothing can be answered) *)
    if k =? 0 then [4; 1; 0; 0] else [4; 1; 0; 1]
  else if kind =? 4 then
    [4; 1; 0; 1]
  else if (6 <=? kind) && (kind <=? 9) then
    (* "new outbound calls fail locally": whatever state the Close left the connection in (StartClose
       under an inbound call, InboundClosed under an outbound call, Closed when idle), the call start
       that raced with it fails with the closed-connection error (outcome 22), its exchange is gone,
       no error frame and nothing else is sent for it; the accepted calls drain and the connection
       closes *)
    [4; 1; 0; 0; 22; 0]
  else
    [1; 0; 0; 1].
