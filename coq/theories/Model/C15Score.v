(* Property C15, "the score a list stores for a peer is the score of the peer's live state".

   Interleaving model of everything that READS, COMPUTES or STORES a peer's score, on top of
   Model/PeerList.v (the lists themselves: map + heap):

     * what the score calculators read of a Peer is DERIVED from the connections: a connection has
       the host:port its remote ANNOUNCED, the host:port that was DIALLED ([] for an inbound
       connection) and the number of our calls in flight over it; a peer holds connection ids in
       its inbound / outbound list; an outbound connection whose dialled address differs from the
       announced one (TCP relay, NAT, localhost vs 127.0.0.1: an ALIAS) is held by TWO peers
       (channel.go Connect, host:port-mismatch block);
     * one atomic step per critical section of the Go code: Peer.addConnection and
       Peer.connectionCloseStateChange (peer lock), an exchange added / removed (exchange-set lock),
       the read-locked membership test of PeerList.exists / onPeerChange, the write-locked regions
       of PeerList.Add / onPeerChange / SetStrategy / Remove / Get / GetNew, the root-list lookups of
       the channel functions;
     * a running operation is a thread: the list of its remaining steps ([sinstr]); any number of
       threads interleave ([srun] over [ESpawn] / [EStep]).

   The thread programs [prog_*] are written by hand after channel.go / peer.go; Proofs/C15ScoreP.v
   proves that [compile] of the statement structures regenerated from the source
   (Gen/GenC15Score.v) yields exactly these programs, and that the lock regions of the
   PeerList functions are the regions the atomic steps stand for ([reg_*]).

   Simplifications (stated in the assumptions of the property): a score calculator reads the
   peer's attributes in one step (Go: NumConnections and NumPendingOutbound take the peer's lock
   one after the other); the set of lists of a channel is fixed (the channel's own list and n
   isolated sub-channel lists); Peer.addConnection's refusal of a connection that is no longer
   active and the removal of a connection from the channel's table are bookkeeping (C16) and not
   modelled.  No proofs here. *)
From Coq Require Import ZArith List Bool Arith.
From Verif Require Import Base.Wrap Base.Wire Gen.GenConsts Gen.GenPeers Model.Retry Model.PeerHeap
  Model.PeerList Model.ReqSel Spec.C15ScoreSpec.
Import ListNotations.
Local Open Scope Z_scope.

(* ---------------------------------------------------------------- state *)

Record sconn := mkSC { sc_id : Z; sc_ann : hostport; sc_dial : hostport; sc_pend : Z }.

Definition is_nil {A} (l : list A) : bool := match l with [] => true | _ => false end.

(* c.outboundHP != "" && c.outboundHP != c.remotePeerInfo.HostPort *)
Definition alias_of (ann dial : hostport) : bool := negb (is_nil dial) && negb (bytes_eqb dial ann).
Definition sc_alias (x : sconn) : bool := alias_of (sc_ann x) (sc_dial x).

(* atomic actions on the shared state *)
Inductive sact :=
| AConnAdd (c : Z) (K : hostport) (inb : bool)     (* RootPeers().GetOrAdd(K); Peer.addConnection (peer lock) *)
| AConnDrop (c : Z) (K : hostport)                  (* Peer.connectionCloseStateChange: removeConnection (peer lock) *)
| APend (c : Z) (delta : Z)                         (* an outbound exchange of connection c is added / removed *)
| AResUpd (j : nat) (K : hostport)                  (* PeerList.onPeerChange on list j: the write-locked region *)
| AAddLocked (j : nat) (K : hostport) (d1 d2 : Z)   (* PeerList.Add: the write-locked region *)
| ARemove (j : nat) (K : hostport)
| ASetStrategy (j : nat) (strat : Z) (order : list hostport)
| AGet (j : nat) (prev : list hostport) (d : Z)
| AGetNew (j : nat) (prev : list hostport) (d : Z)
| ACollect (K : hostport).                          (* RootPeerList.onClosedConnRemoved: delete if canRemove *)

(* tests whose outcome decides whether the next steps of the thread run *)
Inductive sguard :=
| GRoot (K : hostport)                (* ch.RootPeers().Get(K) found a peer *)
| GMember (j : nat) (K : hostport)    (* read-locked lookup in list j found K *)
| GNotMember (j : nat) (K : hostport).

Inductive sbase :=
| BAct (a : sact)
| BUpd (j : nat) (K : hostport).      (* Channel.updatePeer(K), lists j, j+1, ... still to visit *)

Inductive sinstr :=
| IB (b : sbase)
| IIf (g : sguard) (body : list sbase).

Record sstate := mkSS {
  ss_conns : list sconn;              (* every connection ever created: id, announced, dialled, pending *)
  ss_in : list (hostport * Z);        (* (peer, connection id): Peer.inboundConnections *)
  ss_out : list (hostport * Z);       (* Peer.outboundConnections *)
  ss_root : list hostport;            (* RootPeerList.peersByHostPort *)
  ss_lists : list clist;              (* the channel's list :: the isolated sub-channel lists *)
  ss_thr : list (list sinstr)         (* running operations: their remaining steps *)
}.

Definition s_init (niso : nat) : sstate := mkSS [] [] [] [] (ch_lists (chan_init niso)) [].

(* ---------------------------------------------------------------- what a calculator reads *)

Definition holds (K : hostport) (e : hostport * Z) : bool := bytes_eqb (fst e) K.

Definition find_conn (ct : list sconn) (c : Z) : option sconn := find (fun x => sc_id x =? c) ct.

Definition conn_pend (ct : list sconn) (c : Z) : Z :=
  match find_conn ct c with Some x => sc_pend x | None => 0 end.

(* the value of the harness's custom ScoreCalculatorFunc (strategy code 3) *)
Definition custom_score (i o p : Z) : Z := wrapU 64 (i * 1000003 + o * 1009 + p * 7 + 11).

(* NumConnections, NumPendingOutbound (outbound connections first, then inbound: peer.go) *)
Definition s_attrs (s : sstate) (K : hostport) : attrs :=
  let i := zlen (filter (holds K) (ss_in s)) in
  let o := zlen (filter (holds K) (ss_out s)) in
  let p := zsum (map (fun e => conn_pend (ss_conns s) (snd e)) (filter (holds K) (ss_out s ++ ss_in s))) in
  mkAttrs i o p (custom_score i o p) 0.

(* the score list [cl] should hold for K right now *)
Definition live_score (s : sstate) (cl : clist) (K : hostport) : Z := calc (cl_strat cl) (s_attrs s K).

(* ---------------------------------------------------------------- atomic actions *)

Definition is_pair (K : hostport) (c : Z) (e : hostport * Z) : bool := bytes_eqb (fst e) K && (snd e =? c).

Fixpoint rm1 (K : hostport) (c : Z) (m : list (hostport * Z)) : list (hostport * Z) :=
  match m with
  | [] => []
  | e :: r => if is_pair K c e then r else e :: rm1 K c r
  end.

Definition root_add (K : hostport) (r : list hostport) : list hostport := if mem K r then r else r ++ [K].

Definition with_lists (s : sstate) (ls : list clist) : sstate :=
  mkSS (ss_conns s) (ss_in s) (ss_out s) (ss_root s) ls (ss_thr s).
Definition with_root (s : sstate) (r : list hostport) : sstate :=
  mkSS (ss_conns s) (ss_in s) (ss_out s) r (ss_lists s) (ss_thr s).

Definition on_list (s : sstate) (j : nat) (f : clist -> option clist) : option sstate :=
  match nth_error (ss_lists s) j with
  | None => Some s
  | Some cl => match f cl with
               | Some cl' => Some (with_lists s (set_list (ss_lists s) j cl'))
               | None => None
               end
  end.

Definition set_pend (c delta : Z) (x : sconn) : sconn :=
  if sc_id x =? c then mkSC (sc_id x) (sc_ann x) (sc_dial x) (Z.max 0 (sc_pend x + delta)) else x.

Definition can_remove (s : sstate) (K : hostport) : bool :=
  negb (existsb (holds K) (ss_in s ++ ss_out s)) &&
  forallb (fun cl => negb (mem K (pl_keys (cl_pl cl)))) (ss_lists s).

(* None = the model panics (never for a well-formed state) *)
Definition act (s : sstate) (a : sact) : option sstate :=
  match a with
  | AConnAdd c K inb =>
      Some (mkSS (ss_conns s)
                 (if inb then ss_in s ++ [(K, c)] else ss_in s)
                 (if inb then ss_out s else ss_out s ++ [(K, c)])
                 (root_add K (ss_root s)) (ss_lists s) (ss_thr s))
  | AConnDrop c K =>
      (* found := removeConnection(&inbound); if !found { removeConnection(&outbound) } *)
      if existsb (is_pair K c) (ss_in s)
      then Some (mkSS (ss_conns s) (rm1 K c (ss_in s)) (ss_out s) (ss_root s) (ss_lists s) (ss_thr s))
      else Some (mkSS (ss_conns s) (ss_in s) (rm1 K c (ss_out s)) (ss_root s) (ss_lists s) (ss_thr s))
  | APend c delta =>
      Some (mkSS (map (set_pend c delta) (ss_conns s)) (ss_in s) (ss_out s) (ss_root s) (ss_lists s) (ss_thr s))
  | AResUpd j K =>
      (* l.Lock(); if ps, ok := lookup(K); ok { l.updatePeer(ps, l.scoreCalculator.GetScore(ps.Peer)) }; l.Unlock() *)
      on_list s j (fun cl =>
        match pl_update (cl_pl cl) K (live_score s cl K) with
        | Some l' => Some (mkCL l' (cl_strat cl))
        | None => None
        end)
  | AAddLocked j K d1 d2 =>
      (* l.Lock(); re-check; p := l.parent.Add(K); ps := newPeerScore(p, GetScore(p)); insert; l.Unlock() *)
      match nth_error (ss_lists s) j with
      | None => Some s
      | Some cl =>
          if mem K (pl_keys (cl_pl cl)) then Some s
          else
            let s1 := with_root s (root_add K (ss_root s)) in
            match pl_add (cl_pl cl) K (live_score s cl K) d1 d2 with
            | Some (l', _) => Some (with_lists s1 (set_list (ss_lists s) j (mkCL l' (cl_strat cl))))
            | None => None
            end
      end
  | ARemove j K =>
      on_list s j (fun cl =>
        match pl_remove (cl_pl cl) K with
        | Some (l', _) => Some (mkCL l' (cl_strat cl))
        | None => None
        end)
  | ASetStrategy j strat order =>
      on_list s j (fun cl =>
        match pl_set_strategy (cl_pl cl) (fun hp => calc strat (s_attrs s hp)) order with
        | Some l' => Some (mkCL l' strat)
        | None => None
        end)
  | AGet j prev d =>
      on_list s j (fun cl =>
        match pl_get (cl_pl cl) prev d with
        | Some (l', _, _) => Some (mkCL l' (cl_strat cl))
        | None => None
        end)
  | AGetNew j prev d =>
      on_list s j (fun cl =>
        match pl_getnew (cl_pl cl) prev d with
        | Some (l', _, _) => Some (mkCL l' (cl_strat cl))
        | None => None
        end)
  | ACollect K =>
      if can_remove s K then Some (with_root s (del K (ss_root s))) else Some s
  end.

Definition guard (s : sstate) (g : sguard) : bool :=
  match g with
  | GRoot K => mem K (ss_root s)
  | GMember j K => match nth_error (ss_lists s) j with
                   | Some cl => mem K (pl_keys (cl_pl cl))
                   | None => false
                   end
  | GNotMember j K => match nth_error (ss_lists s) j with
                      | Some cl => negb (mem K (pl_keys (cl_pl cl)))
                      | None => true
                      end
  end.

(* ---------------------------------------------------------------- threads *)

Fixpoint set_thread (ts : list (list sinstr)) (i : nat) (t : list sinstr) : list (list sinstr) :=
  match ts, i with
  | [], _ => []
  | _ :: r, O => t :: r
  | x :: r, S i' => x :: set_thread r i' t
  end.

Definition with_thr (s : sstate) (ts : list (list sinstr)) : sstate :=
  mkSS (ss_conns s) (ss_in s) (ss_out s) (ss_root s) (ss_lists s) ts.

(* one step of thread i (a thread that has finished, or does not exist, does nothing).
   Channel.updatePeer(K) visits the channel's list, then the sub-channel lists: BUpd j K tests
   membership of K in list j under the read lock and goes on with list j+1. *)
Definition sstep (s : sstate) (i : nat) : option sstate :=
  match nth_error (ss_thr s) i with
  | None | Some [] => Some s
  | Some (IB (BAct a) :: r) =>
      match act s a with
      | Some s' => Some (with_thr s' (set_thread (ss_thr s') i r))
      | None => None
      end
  | Some (IB (BUpd j K) :: r) =>
      if (j <? length (ss_lists s))%nat
      then Some (with_thr s (set_thread (ss_thr s) i
                   (IIf (GMember j K) [BAct (AResUpd j K)] :: IB (BUpd (S j) K) :: r)))
      else Some (with_thr s (set_thread (ss_thr s) i r))
  | Some (IIf g body :: r) =>
      Some (with_thr s (set_thread (ss_thr s) i (if guard s g then map IB body ++ r else r)))
  end.

(* ---------------------------------------------------------------- operations and their programs *)

Inductive sop :=
| OConnect (c : Z) (ann dial : hostport)     (* Channel.Connect(dial); the remote announces ann *)
| OAccept (c : Z) (ann : hostport)           (* an inbound connection from ann becomes active *)
| OClose (c : Z)                             (* Channel.connectionCloseStateChange(c) *)
| OExch (c : Z) (delta : Z)                  (* an exchange is added to / removed from c: Channel.exchangeUpdated(c) *)
| OAdd (j : nat) (K : hostport) (d1 d2 : Z)
| ORemove (j : nat) (K : hostport)
| OSetStrategy (j : nat) (strat : Z) (order : list hostport)
| OGet (j : nat) (prev : list hostport) (d : Z)
| OGetNew (j : nat) (prev : list hostport) (d : Z)
| OCollect (K : hostport).

(* Channel.addConnectionToPeer(K, c, direction) *)
Definition add_to_peer (c : Z) (K : hostport) (inb : bool) : list sinstr :=
  [IB (BAct (AConnAdd c K inb)); IB (BUpd 0 K)].

(* connectionActive (announced host:port), then the mismatch block of Channel.Connect *)
Definition prog_connect (c : Z) (ann dial : hostport) : list sinstr :=
  add_to_peer c ann false ++ (if negb (bytes_eqb dial ann) then add_to_peer c dial false else []).

Definition prog_accept (c : Z) (ann : hostport) : list sinstr := add_to_peer c ann true.

(* if peer, ok := RootPeers().Get(K); ok { peer.connectionCloseStateChange(c); ch.updatePeer(peer) } *)
Definition close_block (c : Z) (K : hostport) : sinstr := IIf (GRoot K) [BAct (AConnDrop c K); BUpd 0 K].

Definition prog_close (c : Z) (ann dial : hostport) : list sinstr :=
  close_block c ann :: (if alias_of ann dial then [close_block c dial] else []).

(* if p, ok := RootPeers().Get(K); ok { ch.updatePeer(p) } *)
Definition exch_block (K : hostport) : sinstr := IIf (GRoot K) [BUpd 0 K].

Definition exch_updated (ann dial : hostport) : list sinstr :=
  if is_nil ann then []
  else exch_block ann :: (if alias_of ann dial then [exch_block dial] else []).

Definition prog_exch (c : Z) (ann dial : hostport) (delta : Z) : list sinstr :=
  IB (BAct (APend c delta)) :: exch_updated ann dial.

(* if _, ok := l.exists(K); ok { return }; the write-locked region *)
Definition prog_add (j : nat) (K : hostport) (d1 d2 : Z) : list sinstr :=
  [IIf (GNotMember j K) [BAct (AAddLocked j K d1 d2)]].

Definition add_thr (s : sstate) (t : list sinstr) : sstate := with_thr s (ss_thr s ++ [t]).
Definition add_conn (s : sstate) (x : sconn) : sstate :=
  mkSS (ss_conns s ++ [x]) (ss_in s) (ss_out s) (ss_root s) (ss_lists s) (ss_thr s).

Definition known_conn (s : sstate) (c : Z) : bool :=
  match find_conn (ss_conns s) c with Some _ => true | None => false end.

(* start an operation: a new thread (an operation on an unknown connection, a second connection
   with the id of an existing one, or an empty host:port -- newPeer panics on it -- starts nothing) *)
Definition spawn (s : sstate) (op : sop) : sstate :=
  match op with
  | OConnect c ann dial =>
      if known_conn s c || is_nil ann || is_nil dial then s
      else add_thr (add_conn s (mkSC c ann dial 0)) (prog_connect c ann dial)
  | OAccept c ann =>
      if known_conn s c || is_nil ann then s
      else add_thr (add_conn s (mkSC c ann [] 0)) (prog_accept c ann)
  | OClose c =>
      match find_conn (ss_conns s) c with
      | Some x => add_thr s (prog_close c (sc_ann x) (sc_dial x))
      | None => s
      end
  | OExch c delta =>
      match find_conn (ss_conns s) c with
      | Some x => add_thr s (prog_exch c (sc_ann x) (sc_dial x) delta)
      | None => s
      end
  | OAdd j K d1 d2 => if is_nil K then s else add_thr s (prog_add j K d1 d2)
  | ORemove j K => add_thr s [IB (BAct (ARemove j K))]
  | OSetStrategy j strat order => add_thr s [IB (BAct (ASetStrategy j strat order))]
  | OGet j prev d => add_thr s [IB (BAct (AGet j prev d))]
  | OGetNew j prev d => add_thr s [IB (BAct (AGetNew j prev d))]
  | OCollect K => add_thr s [IB (BAct (ACollect K))]
  end.

Inductive sevent :=
| ESpawn (op : sop)
| EStep (i : nat).

Definition sev (s : sstate) (e : sevent) : option sstate :=
  match e with
  | ESpawn op => Some (spawn s op)
  | EStep i => sstep s i
  end.

Fixpoint srun (s : sstate) (es : list sevent) : option sstate :=
  match es with
  | [] => Some s
  | e :: r => match sev s e with Some s' => srun s' r | None => None end
  end.

Definition quiescent (s : sstate) : bool := forallb is_nil (ss_thr s).

(* an operation run to its end without interference *)
Definition seq_events (s : sstate) (op : sop) : list sevent :=
  ESpawn op :: repeat (EStep (length (ss_thr s))) (8 * length (ss_lists s) + 16).

Definition seq_op (s : sstate) (op : sop) : option sstate := srun s (seq_events s op).

(* ---------------------------------------------------------------- the lock regions the atomic steps stand for
   (rows of Spec/C15ScoreSpec.v; compared with the tables generated from peer.go) *)

(* PeerList.Add = GNotMember (l.exists, itself the read-locked lookup [reg_exists]) ; AAddLocked *)
Definition reg_add : list regrow :=
  [(0, 30); (0, 7)] ++
  (* AAddLocked: re-check, root Add, addSC, GetScore with the list's calculator, store, heap *)
  [(2, 21); (2, 7); (2, 29); (2, 36); (2, 20); (2, 27); (2, 38); (2, 22); (2, 25); (2, 38); (2, 7)].
Definition reg_exists : list regrow := [(1, 21); (0, 7)].
(* PeerList.onPeerChange = GMember (read-locked getPeerScore) ; AResUpd (lookup, updatePeer(GetScore)) *)
Definition reg_on_peer_change : list regrow :=
  [(1, 31); (0, 7)] ++ [(2, 31); (2, 24); (2, 20); (2, 27)].
Definition reg_get_peer_score : list regrow := [(0, 21); (0, 7); (0, 7)].
(* PeerList.SetStrategy = ASetStrategy: one write-locked region *)
Definition reg_set_strategy : list regrow := [(2, 28); (2, 35); (2, 20); (2, 27); (2, 24); (2, 38)].
(* PeerList.updatePeer (called with the write lock held): equal score => return; store; heap fix *)
Definition reg_list_update_peer : list regrow := [(0, 7); (0, 32); (0, 33)].
Definition reg_remove : list regrow := [(2, 21); (2, 7); (2, 37); (2, 23); (2, 26); (2, 7)].

(* a score is computed and published in ONE write-locked region: every GetScore (20), every use of
   its result (38), every store of a score (22, 24, 32 via 24) of the table is in mode 2 *)
Definition region_safe (t : list regrow) : bool :=
  forallb (fun r => let '(m, e) := r in
                    if (e =? 20) || (e =? 38) || (e =? 22) || (e =? 24) || (e =? 28) then m =? 2 else true) t.

(* ---------------------------------------------------------------- from the generated statement structure to programs *)

(* the operation a function is compiled for: the connection, its announced / dialled host:port,
   the hostPort (or Peer) parameter, and the outcome of the tests that depend on the operation only *)
Record cenv := mkCE {
  ce_c : Z; ce_inb : bool; ce_ann : hostport; ce_dial : hostport; ce_param : hostport;
  ce_admitted : bool;   (* Channel.addConnection admitted the connection *)
  ce_conn : bool;       (* conn != nil *)
  ce_alias : bool;      (* c.outboundHP != "" && c.outboundHP != c.remotePeerInfo.HostPort *)
  ce_mismatch : bool;   (* hostPort != conn.remotePeerInfo.HostPort *)
  ce_noann : bool }.    (* c.remotePeerInfo.HostPort == "" *)

(* the environment of an operation on connection c (announced ann, dialled dial; param = hostPort) *)
Definition env_of (c : Z) (inb : bool) (ann dial param : hostport) (admitted : bool) : cenv :=
  mkCE c inb ann dial param admitted true (alias_of ann dial) (negb (bytes_eqb param ann)) (is_nil ann).

Definition key_of (e : cenv) (k : Z) : option hostport :=
  if k =? 1 then Some (ce_ann e) else if k =? 2 then Some (ce_dial e)
  else if k =? 3 then Some (ce_param e) else if k =? 4 then Some (ce_param e) else None.

(* conditions that depend on the operation only *)
Definition static_cond (e : cenv) (cond : Z) : option bool :=
  if cond =? 2 then Some (ce_alias e)
  else if cond =? 3 then Some (ce_mismatch e)
  else if cond =? 4 then Some (ce_noann e)
  else if cond =? 5 then Some (negb (ce_admitted e))
  else if cond =? 6 then Some (ce_conn e)
  else None.

(* the body of a root-lookup test: calls only *)
Fixpoint compile_body (e : cenv) (l : list cstmt) : option (list sbase) :=
  match l with
  | [] => Some []
  | CCall f k :: r =>
      match key_of e k, compile_body e r with
      | Some K, Some r' =>
          if f =? 3 then Some (BAct (AConnAdd (ce_c e) K (ce_inb e)) :: r')
          else if f =? 4 then Some (BAct (AConnDrop (ce_c e) K) :: r')
          else if f =? 5 then Some (BUpd 0 K :: r')
          else if (f =? 1) || (f =? 2) then Some r'
          else None
      | _, _ => None
      end
  | _ => None
  end.

(* (instructions, the function has returned) *)
Fixpoint compile (fuel : nat) (to_peer : list cstmt) (e : cenv) (l : list cstmt) : option (list sinstr * bool) :=
  match fuel with
  | O => None
  | S fuel' =>
      match l with
      | [] => Some ([], false)
      | CRet :: _ => Some ([], true)
      | CLoop _ :: _ => None
      | CCall f k :: r =>
          let rest := compile fuel' to_peer e r in
          if (f =? 1) || (f =? 2) || (f =? 10) then rest
          else
            match key_of e k with
            | None => None
            | Some K =>
                let here :=
                  if f =? 3 then Some ([IB (BAct (AConnAdd (ce_c e) K (ce_inb e)))], false)
                  else if f =? 4 then Some ([IB (BAct (AConnDrop (ce_c e) K))], false)
                  else if f =? 5 then Some ([IB (BUpd 0 K)], false)
                  else if f =? 6 then
                    compile fuel' [] (mkCE (ce_c e) (ce_inb e) (ce_ann e) (ce_dial e) K (ce_admitted e) (ce_conn e)
                                            (ce_alias e) (ce_mismatch e) (ce_noann e)) to_peer
                  else None in
                match here, rest with
                | Some (a, _), Some (b, ret) => Some (a ++ b, ret)
                | _, _ => None
                end
            end
      | CIf cond k body els :: r =>
          if cond =? 1 then
            match key_of e k, compile_body e body, els, compile fuel' to_peer e r with
            | Some K, Some b, [], Some (r', ret) => Some (IIf (GRoot K) b :: r', ret)
            | _, _, _, _ => None
            end
          else
            match static_cond e cond with
            | None => None
            | Some v =>
                match compile fuel' to_peer e (if v then body else els) with
                | None => None
                | Some (a, true) => Some (a, true)
                | Some (a, false) =>
                    match compile fuel' to_peer e r with
                    | Some (b, ret) => Some (a ++ b, ret)
                    | None => None
                    end
                end
            end
      end
  end.

Definition compiled (to_peer : list cstmt) (e : cenv) (l : list cstmt) : option (list sinstr) :=
  match compile 12 to_peer e l with Some (p, _) => Some p | None => None end.

(* ---------------------------------------------------------------- harness entry point
   case:  nIsolated  nOps  op*          (every operation runs to its end before the next starts)
     op 0 Connect      conn ann dial        op 1 Accept  conn ann
     op 2 Close        conn                 op 3 Exch    conn delta
     op 4 Add          j hp                 op 5 Remove  j hp
     op 6 SetStrategy  j strat              op 7 Get     j
     op 8 Collect      hp
   (op code + 100: see take_sop_flag)
   observable, per op:  quiescent(1)  nLists ( nEntries ( hp [stored score; live score] )* sorted by hp )*
   scores as int64 bit patterns; a model panic ends the output with 99 *)
Definition take_sop (l : list Z) : sop * list Z :=
  let '(k, r) := take1 l in
  if k =? 0 then
    let '(c, r) := take1 r in let '(a, r) := take_bytes r in let '(d, r) := take_bytes r in (OConnect c a d, r)
  else if k =? 1 then
    let '(c, r) := take1 r in let '(a, r) := take_bytes r in (OAccept c a, r)
  else if k =? 2 then let '(c, r) := take1 r in (OClose c, r)
  else if k =? 3 then let '(c, r) := take1 r in let '(d, r) := take1 r in (OExch c d, r)
  else if k =? 4 then let '(j, r) := take1 r in let '(hp, r) := take_bytes r in (OAdd (Z.to_nat j) hp 0 0, r)
  else if k =? 5 then let '(j, r) := take1 r in let '(hp, r) := take_bytes r in (ORemove (Z.to_nat j) hp, r)
  else if k =? 6 then let '(j, r) := take1 r in let '(st, r) := take1 r in (OSetStrategy (Z.to_nat j) st [], r)
  else if k =? 7 then let '(j, r) := take1 r in (OGet (Z.to_nat j) [] 0, r)
  else let '(hp, r) := take_bytes r in (OCollect hp, r).

Definition dump_scores (s : sstate) (cl : clist) : list Z :=
  put_list put_kv
    (canon_map (map (fun x => (ps_hp x, [wrapS 64 (ps_score x); wrapS 64 (live_score s cl (ps_hp x))]))
                    (pl_arr (cl_pl cl)))).

(* an operation code + 100 = the operation is part of a group that the harness let overlap: it is
   run like the others, the observable is printed after the last one of the group only *)
Definition take_sop_flag (l : list Z) : (sop * bool) * list Z :=
  let '(k, r) := take1 l in
  if 100 <=? k then let '(op, r') := take_sop (k - 100 :: r) in ((op, true), r')
  else let '(op, r') := take_sop l in ((op, false), r').

Fixpoint run_sops (s : sstate) (ops : list (sop * bool)) : list Z :=
  match ops with
  | [] => []
  | (op, silent) :: r =>
      match seq_op s op with
      | None => [99]
      | Some s' =>
          (if silent then [] else zb (quiescent s') :: put_list (dump_scores s') (ss_lists s')) ++ run_sops s' r
      end
  end.

Definition run_c15score (cs : list Z) : list Z :=
  match cs with
  | niso :: r =>
      let '(ops, _) := take_list take_sop_flag r in
      run_sops (s_init (Z.to_nat niso)) ops
  | _ => [-1]
  end.
