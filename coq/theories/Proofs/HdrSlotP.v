(* C18: the per-context header slot.  (1) the model of Model/HdrSlot.v (headers through the
   thrift codec, the clients' statement sequences after the retry loop) observes on EVERY
   sequence of operations exactly what Spec/HdrPath.v specifies; (2) consequences stated on
   the model: an answered call leaves exactly its own handler's response headers, and what a
   call shows does not depend on the calls made before it with the same context; (3) the
   statement sequences and the slot functions REGENERATED from the Go source (Gen/GenHdrPath.v)
   are equal to the model's. *)
From Coq Require Import ZArith List Bool Lia.
From Verif Require Import Base.Wrap Base.Bytes Base.Wire Model.TypedBuf Model.Messages Model.Codecs
  Spec.Protocol Spec.HdrPath Model.HdrSlot Proofs.CodecP Proofs.CodecsP Gen.GenHdrPath.
Import ListNotations.
Local Open Scope Z_scope.

(* a header map the codec can carry, in canonical form *)
Definition hmap_ok (h : kvs) : Prop := kvs16_ok h /\ canon_map h = h.

Definition hop_ok (o : hop) : Prop :=
  match o with
  | HWith h => hmap_ok h
  | HCall _ _ resp => hmap_ok resp
  | _ => True
  end.

(* ---------------- a header map over the thrift wire ---------------- *)
Lemma thrift_wire_ok h : hmap_ok h -> thrift_wire h = Some h.
Proof.
  intros [Hk Hc]. unfold thrift_wire. rewrite (write_theaders_spec h Hk).
  destruct h as [|kv h'] eqn:Eh.
  - pose proof (r_theaders_empty []) as He. rewrite app_nil_r in He. rewrite He.
    cbn [rerr rrem rb zlen length Z.of_nat Z.eqb negb]. reflexivity.
  - rewrite <- Eh in *.
    assert (Hne : h <> []) by (rewrite Eh; discriminate).
    destruct (r_theaders_nonempty h Hk Hne) as [Hrd _].
    specialize (Hrd []). rewrite app_nil_r in Hrd. rewrite Hrd.
    cbn [rerr rrem rb zlen length Z.of_nat Z.eqb negb]. rewrite Hc. reflexivity.
Qed.

(* ---------------- model = specification ---------------- *)
Definition abs_slot (c : hslot) : sctx := (s_req c, s_resp c).
Definition abs_stack (st : hstack) : sstack := (abs_slot (fst st), map abs_slot (snd st)).

(* the request headers of every context on the stack can be carried *)
Definition stack_ok (st : hstack) : Prop := hmap_ok (s_req (fst st)) /\ Forall (fun c => hmap_ok (s_req c)) (snd st).

Lemma hmap_ok_nil : hmap_ok [].
Proof.
  split; [|reflexivity]. split; [cbn; lia | constructor].
Qed.

Lemma hinit_ok : stack_ok hinit.
Proof. split; [exact hmap_ok_nil | constructor]. Qed.

Lemma answered_cases outcome : answered outcome = true -> outcome = 0 \/ outcome = 1.
Proof. unfold answered. intros H. apply orb_true_iff in H. destruct H as [H|H]; apply Z.eqb_eq in H; auto. Qed.

Lemma do_call_spec c kind outcome resp :
  hmap_ok (s_req c) -> hmap_ok resp ->
  let '(c', ob) := do_call c kind outcome resp in
  (abs_slot c', ob) = spec_call (abs_slot c) outcome resp.
Proof.
  intros Hreq Hresp. destruct c as [req rs]. cbn [s_req] in Hreq.
  unfold do_call, spec_call, abs_slot. cbn [fst snd s_req s_resp].
  fold (answered outcome).
  destruct (kind =? 0).
  - unfold call_thrift, ctx_headers, ctx_resp_headers, ctx_set_resp, ctx_with_headers. cbn [s_req s_resp].
    rewrite (thrift_wire_ok req Hreq). fold (answered outcome).
    destruct (answered outcome) eqn:Ha; cbn [negb].
    + rewrite (thrift_wire_ok resp Hresp). unfold thrift_call_tail. cbn [s_req s_resp].
      destruct (answered_cases _ Ha) as [->| ->]; reflexivity.
    + unfold thrift_call_tail. cbn [s_req s_resp]. reflexivity.
  - unfold call_json, ctx_headers, ctx_resp_headers, ctx_set_resp, ctx_with_headers. cbn [s_req s_resp].
    fold (answered outcome).
    destruct (answered outcome) eqn:Ha; cbn [negb].
    + unfold json_call_tail. cbn [s_req s_resp].
      destruct (answered_cases _ Ha) as [->| ->]; reflexivity.
    + unfold json_call_tail. cbn [s_req s_resp]. reflexivity.
Qed.

Lemma do_call_req c kind outcome resp : s_req (fst (do_call c kind outcome resp)) = s_req c.
Proof.
  destruct c as [req rs]. unfold do_call, call_thrift, call_json, ctx_headers, ctx_resp_headers,
    ctx_set_resp, ctx_with_headers, thrift_call_tail, json_call_tail. cbn [s_req s_resp].
  destruct (kind =? 0).
  - destruct (thrift_wire req); [|reflexivity].
    destruct (negb ((outcome =? 0) || (outcome =? 1))); [reflexivity|].
    destruct (thrift_wire resp); reflexivity.
  - destruct (negb ((outcome =? 0) || (outcome =? 1))); reflexivity.
Qed.

Lemma hstep_spec st o : stack_ok st -> hop_ok o ->
  stack_ok (fst (hstep st o)) /\
  (abs_stack (fst (hstep st o)), snd (hstep st o)) = spec_step (abs_stack st) o.
Proof.
  intros [Hc Hp] Ho. destruct st as [cur par]. cbn [fst snd] in Hc, Hp.
  destruct o as [h| | |kind outcome resp]; cbn [hstep spec_step abs_stack fst snd hop_ok] in *.
  - split; [split; [exact Ho | exact Hp] | reflexivity].
  - split; [split; [exact Hc | constructor; [exact Hc | exact Hp]] |].
    destruct cur; reflexivity.
  - destruct par as [|p par'].
    + split; [split; [exact Hc | exact Hp] | reflexivity].
    + inversion Hp as [|? ? Hp1 Hp2]; subst.
      split; [split; [exact Hp1 | exact Hp2] | reflexivity].
  - pose proof (do_call_spec cur kind outcome resp Hc Ho) as Hs.
    pose proof (do_call_req cur kind outcome resp) as Hr.
    destruct (do_call cur kind outcome resp) as [cur' ob] eqn:Ed. cbn [fst snd] in *.
    split; [split; [cbn [fst]; rewrite Hr; exact Hc | exact Hp] |].
    rewrite <- Hs. reflexivity.
Qed.

Theorem hrun_obs_spec ops : forall st, stack_ok st -> Forall hop_ok ops ->
  hrun_obs st ops = spec_run (abs_stack st) ops.
Proof.
  induction ops as [|o rest IH]; intros st Hst Hops; [reflexivity|].
  inversion Hops as [|? ? Ho Hrest]; subst.
  destruct (hstep_spec st o Hst Ho) as [Hst' Heq].
  cbn [hrun_obs spec_run].
  destruct (hstep st o) as [st' ob] eqn:Es. cbn [fst snd] in *.
  rewrite <- Heq. rewrite (IH st' Hst' Hrest).
  destruct st' as [c' p']. reflexivity.
Qed.

Lemma hfinal_spec ops : forall st, stack_ok st -> Forall hop_ok ops ->
  stack_ok (hfinal st ops) /\ abs_stack (hfinal st ops) = spec_final (abs_stack st) ops.
Proof.
  induction ops as [|o rest IH]; intros st Hst Hops; [split; [exact Hst | reflexivity]|].
  inversion Hops as [|? ? Ho Hrest]; subst.
  destruct (hstep_spec st o Hst Ho) as [Hst' Heq].
  cbn [hfinal spec_final].
  destruct (IH _ Hst' Hrest) as [H1 H2]. split; [exact H1|].
  rewrite H2. f_equal. apply (f_equal fst) in Heq. exact Heq.
Qed.

(* ---------------- consequences, on the specification ---------------- *)
(* the request headers of the contexts on the stack are decided by the caller's own actions *)
Definition req_stack (st : sstack) : hmap * list hmap := (fst (fst st), map fst (snd st)).

Lemma spec_final_req_gen ops : forall st1 st2, req_stack st1 = req_stack st2 ->
  req_stack (spec_final st1 ops) = req_stack (spec_final st2 (caller_ops ops)).
Proof.
  induction ops as [|o rest IH]; intros st1 st2 Heq; [exact Heq|].
  cbn [spec_final caller_ops filter].
  destruct st1 as [[rq1 rs1] par1], st2 as [[rq2 rs2] par2].
  unfold req_stack in Heq. cbn [fst snd] in Heq. injection Heq as Hq Hp.
  destruct o as [h| | |kind outcome resp]; cbn [is_call negb spec_final spec_step fst snd].
  - apply IH. unfold req_stack. cbn [fst snd]. rewrite Hp. reflexivity.
  - apply IH. unfold req_stack. cbn [fst snd map]. rewrite Hq, Hp. reflexivity.
  - apply IH. destruct par1 as [|[a1 b1] p1], par2 as [|[a2 b2] p2]; cbn [map] in Hp; try discriminate.
    + unfold req_stack. cbn [fst snd map]. rewrite Hq. reflexivity.
    + injection Hp as Ha Hp'. unfold req_stack. cbn [fst snd]. cbn [fst] in Ha. rewrite Ha, Hp'. reflexivity.
  - apply IH. unfold spec_call. destruct (answered outcome); unfold req_stack; cbn [fst snd]; rewrite Hq, Hp; reflexivity.
Qed.

Lemma spec_final_req ops st :
  req_stack (spec_final st ops) = req_stack (spec_final st (caller_ops ops)).
Proof. apply spec_final_req_gen. reflexivity. Qed.

Lemma spec_run_app ops1 : forall st ops2,
  spec_run st (ops1 ++ ops2) = spec_run st ops1 ++ spec_run (spec_final st ops1) ops2.
Proof.
  induction ops1 as [|o rest IH]; intros st ops2; [reflexivity|].
  cbn [app spec_run spec_final]. destruct (spec_step st o) as [st' ob]. cbn [fst].
  rewrite IH. reflexivity.
Qed.

(* the observation of the last operation of a sequence *)
Definition last_obs (l : list hobs) : hobs := last l (None, [], []).

Lemma last_app_single {A} (l : list A) x d : last (l ++ [x]) d = x.
Proof. induction l as [|a l IH]; [reflexivity|]. cbn [app]. destruct (l ++ [x]) eqn:E; [destruct l; discriminate|]. exact IH. Qed.

(* An answered call, after ANY sequence of earlier operations: the handler saw exactly the request
   headers of the current context, the caller got the handler's outcome, and the context's
   response headers are exactly the ones this handler set. *)
Lemma spec_call_exact st pre kind outcome resp : answered outcome = true ->
  last_obs (spec_run st (pre ++ [HCall kind outcome resp])) =
  (Some (mkCallObs outcome true (fst (fst (spec_final st pre)))), fst (fst (spec_final st pre)), resp).
Proof.
  intros Ha. unfold last_obs. rewrite spec_run_app. cbn [spec_run].
  destruct (spec_final st pre) as [[rq rs] par]. unfold spec_step, spec_call. rewrite Ha.
  cbn [fst snd]. apply last_app_single.
Qed.

(* ---------------- the same, on the model ---------------- *)
Theorem model_call_exact pre kind outcome resp :
  Forall hop_ok pre -> hmap_ok resp -> answered outcome = true ->
  let c := fst (hfinal hinit pre) in
  last_obs (hrun_obs hinit (pre ++ [HCall kind outcome resp])) =
  (Some (mkCallObs outcome true (ctx_headers c)), ctx_headers c, resp).
Proof.
  intros Hpre Hresp Ha c.
  assert (Hall : Forall hop_ok (pre ++ [HCall kind outcome resp])).
  { apply Forall_app. split; [exact Hpre | constructor; [exact Hresp | constructor]]. }
  rewrite (hrun_obs_spec _ hinit hinit_ok Hall).
  rewrite (spec_call_exact _ pre kind outcome resp Ha).
  destruct (hfinal_spec pre hinit hinit_ok Hpre) as [_ Hf].
  rewrite <- Hf. reflexivity.
Qed.

(* History independence: two histories in which the CALLER did the same things (same WithHeaders /
   Child / back-to-parent operations; any calls, with any outcomes and response headers, in
   between) give the same observation for the next answered call. *)
Theorem model_history_independent pre1 pre2 kind outcome resp :
  Forall hop_ok pre1 -> Forall hop_ok pre2 -> hmap_ok resp -> answered outcome = true ->
  caller_ops pre1 = caller_ops pre2 ->
  last_obs (hrun_obs hinit (pre1 ++ [HCall kind outcome resp])) =
  last_obs (hrun_obs hinit (pre2 ++ [HCall kind outcome resp])).
Proof.
  intros H1 H2 Hresp Ha Hc.
  rewrite (model_call_exact pre1 kind outcome resp H1 Hresp Ha).
  rewrite (model_call_exact pre2 kind outcome resp H2 Hresp Ha).
  destruct (hfinal_spec pre1 hinit hinit_ok H1) as [_ Hf1].
  destruct (hfinal_spec pre2 hinit hinit_ok H2) as [_ Hf2].
  assert (Hq : ctx_headers (fst (hfinal hinit pre1)) = ctx_headers (fst (hfinal hinit pre2))).
  { change (ctx_headers (fst (hfinal hinit pre1))) with (fst (fst (abs_stack (hfinal hinit pre1)))).
    change (ctx_headers (fst (hfinal hinit pre2))) with (fst (fst (abs_stack (hfinal hinit pre2)))).
    rewrite Hf1, Hf2.
    pose proof (spec_final_req pre1 (abs_stack hinit)) as E1.
    pose proof (spec_final_req pre2 (abs_stack hinit)) as E2.
    rewrite Hc in E1. rewrite <- E2 in E1.
    apply (f_equal fst) in E1. exact E1. }
  rewrite Hq. reflexivity.
Qed.

Theorem hrun_obs_init_spec ops : Forall hop_ok ops -> hrun_obs hinit ops = spec_run sinit ops.
Proof. intros H. exact (hrun_obs_spec ops hinit hinit_ok H). Qed.

(* the harness entry point is the specification, encoded *)
Theorem run_hdrseq_spec c :
  Forall hop_ok (fst (take_list take_hop c)) ->
  run_hdrseq c = flat_map put_hobs (spec_run sinit (fst (take_list take_hop c))).
Proof.
  intros Hok. unfold run_hdrseq. destruct (take_list take_hop c) as [ops r]. cbn [fst] in *.
  rewrite (hrun_obs_spec ops hinit hinit_ok Hok). reflexivity.
Qed.

(* ---------------- the regenerated pieces ---------------- *)
Theorem hdrslot_generated :
  (forall slot has_err respHeaders isOK,
     thriftCallTail slot has_err respHeaders isOK = thrift_call_tail slot has_err respHeaders isOK) /\
  (forall slot has_err respHeaders isOK,
     jsonCallTail slot has_err respHeaders isOK = json_call_tail slot has_err respHeaders isOK) /\
  (forall slot has_err respHeaders isOK,
     jsonWrapCallTail slot has_err respHeaders isOK = json_call_tail slot has_err respHeaders isOK) /\
  (forall c, ctxHeaders true (s_req c) (s_resp c) = ctx_headers c) /\
  (forall c, ctxResponseHeaders true (s_req c) (s_resp c) = ctx_resp_headers c) /\
  (forall c h, ctxSetResponseHeaders true (s_req c) (s_resp c) h = Some (s_resp (ctx_set_resp c h))) /\
  (forall c h, ctxSetResponseHeaders false (s_req c) (s_resp c) h = None) /\
  (forall h, ctxWrapWithHeaders h = (s_req (ctx_with_headers h), s_resp (ctx_with_headers h))) /\
  (forall c, ctxChild true (s_req c) (s_resp c) = (s_req (ctx_child c), s_resp (ctx_child c))).
Proof.
  split; [intros slot has_err respHeaders isOK; destruct has_err; reflexivity|].
  split; [intros slot has_err respHeaders isOK; destruct has_err, isOK; reflexivity|].
  split; [intros slot has_err respHeaders isOK; destruct has_err, isOK; reflexivity|].
  split; [intros c; reflexivity|].
  split; [intros c; reflexivity|].
  split; [intros c h; reflexivity|].
  split; [intros c h; reflexivity|].
  split; [intros h; reflexivity|].
  intros c; reflexivity.
Qed.
