(* Proofs about Model/TTL.v (property C14, time-to-live clauses). *)
From Coq Require Import ZArith List Bool Lia ZifyBool.
From Verif Require Import Base.Wrap Base.Wire Gen.GenConsts Gen.GenTTL Model.TypedBuf Model.Messages Model.TTL.
Import ListNotations.
Local Open Scope Z_scope.

Lemma ms_pos : ms_ns = 1000000. Proof. reflexivity. Qed.
Lemma p32 : 2 ^ 32 = 4294967296. Proof. reflexivity. Qed.
Lemma p63 : 2 ^ 63 = 9223372036854775808. Proof. reflexivity. Qed.
Lemma p64 : 2 ^ 64 = 18446744073709551616. Proof. reflexivity. Qed.

Definition is_duration (d : Z) : Prop := min_dur <= d <= max_dur.
Definition is_u32 (f : Z) : Prop := 0 <= f < 2 ^ 32.

(* ---- beginCall ---------------------------------------------------------------------- *)

Lemma min_dur_val : min_dur = -9223372036854775808. Proof. reflexivity. Qed.
Lemma max_dur_val : max_dur = 9223372036854775807. Proof. reflexivity. Qed.

Lemma time_sub_spec t u :
  time_sub t u = Z.max min_dur (Z.min max_dur (t - u)).
Proof.
  unfold time_sub. cbv zeta. rewrite min_dur_val, max_dur_val.
  destruct (Z.ltb_spec (t - u) (-9223372036854775808)) as [A|A]; [lia|].
  destruct (Z.gtb_spec (t - u) 9223372036854775807) as [B|B]; lia.
Qed.

Lemma time_sub_dur t u : is_duration (time_sub t u).
Proof. rewrite time_sub_spec. unfold is_duration. rewrite min_dur_val, max_dur_val. lia. Qed.

Lemma begin_call_ok state has dl now cerr ttl :
  begin_call state has dl now cerr = BcOk ttl ->
  state = c_connectionActive /\ has = true /\ cerr = 0 /\ ttl = time_sub dl now /\ ms_ns <= ttl.
Proof.
  unfold begin_call. intros H.
  destruct (state =? c_connectionActive) eqn:S.
  - destruct has; cbn [negb] in H; [|discriminate].
    destruct (time_sub dl now <? ms_ns) eqn:T; [discriminate|].
    destruct (cerr =? 0) eqn:C; cbn [negb] in H; [|discriminate].
    inversion H; subst. repeat split; lia.
  - destruct ((state =? c_connectionStartClose) || (state =? c_connectionInboundClosed) || (state =? c_connectionClosed)); discriminate.
Qed.

Lemma begin_call_accepts dl now :
  ms_ns <= dl - now ->
  begin_call c_connectionActive true dl now 0 = BcOk (time_sub dl now) /\ ms_ns <= time_sub dl now <= dl - now.
Proof.
  intros H. unfold begin_call. rewrite Z.eqb_refl. cbn [negb].
  assert (T : ms_ns <= time_sub dl now <= dl - now).
  { rewrite time_sub_spec. rewrite min_dur_val, max_dur_val, ms_pos in *. lia. }
  destruct (time_sub dl now <? ms_ns) eqn:E; [lia|]. cbn. split; [reflexivity|exact T].
Qed.

(* under a millisecond left: local timeout, whatever the state of the context *)
Lemma begin_call_sub_ms dl now cerr :
  dl - now < ms_ns -> begin_call c_connectionActive true dl now cerr = BcErr c_ErrCodeTimeout.
Proof.
  intros H. unfold begin_call. rewrite Z.eqb_refl. cbn [negb].
  assert (T : time_sub dl now < ms_ns).
  { rewrite time_sub_spec. rewrite min_dur_val, max_dur_val, ms_pos in *. lia. }
  destruct (time_sub dl now <? ms_ns) eqn:E; [reflexivity|lia].
Qed.

(* an expired / cancelled context with time formally left maps through GetContextError *)
Lemma begin_call_ctx_err dl now cerr :
  ms_ns <= dl - now -> cerr = 1 \/ cerr = 2 ->
  begin_call c_connectionActive true dl now cerr =
    BcErr (if cerr =? 1 then c_ErrCodeTimeout else c_ErrCodeCancelled).
Proof.
  intros H C. unfold begin_call. rewrite Z.eqb_refl. cbn [negb].
  destruct (begin_call_accepts dl now H) as [_ T].
  destruct (time_sub dl now <? ms_ns) eqn:E; [lia|].
  destruct C; subst cerr; reflexivity.
Qed.

(* ---- the ttl field --------------------------------------------------------------------- *)

Lemma quot_ms_nonneg x : 0 <= x -> Z.quot x ms_ns = x / ms_ns.
Proof. intros H. apply Z.quot_div_nonneg; [exact H|rewrite ms_pos; lia]. Qed.

Lemma wire_ttl_bounds ttl :
  0 <= ttl -> is_u32 (wire_ttl_ms ttl) /\ wire_ttl_ms ttl * ms_ns <= ttl.
Proof.
  intros H. unfold wire_ttl_ms, is_u32. rewrite quot_ms_nonneg by exact H.
  pose proof (wrapU_range 32 (ttl / ms_ns) ltac:(lia)) as R.
  split; [exact R|].
  assert (Q : 0 <= ttl / ms_ns) by (apply Z.div_pos; rewrite ?ms_pos; lia).
  assert (M : wrapU 32 (ttl / ms_ns) <= ttl / ms_ns).
  { unfold wrapU. apply Z.mod_le; [exact Q|rewrite p32; lia]. }
  pose proof (Z.mul_div_le ttl ms_ns ltac:(rewrite ms_pos; lia)) as D.
  rewrite ms_pos in *. nia.
Qed.

Lemma wire_ttl_exact ttl :
  0 <= ttl < 2 ^ 32 * ms_ns ->
  wire_ttl_ms ttl = ttl / ms_ns /\ ttl - wire_ttl_ms ttl * ms_ns < ms_ns.
Proof.
  intros H. unfold wire_ttl_ms. rewrite quot_ms_nonneg by lia.
  assert (Q : 0 <= ttl / ms_ns < 2 ^ 32).
  { split; [apply Z.div_pos; rewrite ?ms_pos; lia|].
    apply Z.div_lt_upper_bound; [rewrite ms_pos; lia|]. lia. }
  rewrite wrapU_id by (lia || exact Q). split; [reflexivity|].
  pose proof (Z.mod_pos_bound ttl ms_ns ltac:(rewrite ms_pos; lia)) as M.
  rewrite (Z.div_mod ttl ms_ns) at 1 by (rewrite ms_pos; lia). lia.
Qed.

Lemma wire_ttl_positive ttl :
  ms_ns <= ttl < 2 ^ 32 * ms_ns -> 1 <= wire_ttl_ms ttl.
Proof.
  intros H. destruct (wire_ttl_exact ttl ltac:(rewrite ms_pos in *; lia)) as [E _]. rewrite E.
  apply Z.div_le_lower_bound; rewrite ?ms_pos in *; lia.
Qed.

(* full statement of the wire clause *)
Lemma wire_ttl_sound state has dl now cerr ttl :
  begin_call state has dl now cerr = BcOk ttl ->
  is_u32 (wire_ttl_ms ttl) /\ wire_ttl_ms ttl * ms_ns <= dl - now /\
  (dl - now < 2 ^ 32 * ms_ns ->
     1 <= wire_ttl_ms ttl /\ wire_ttl_ms ttl = (dl - now) / ms_ns).
Proof.
  intros H. apply begin_call_ok in H as [_ [_ [_ [E G]]]].
  assert (P : 0 <= ttl) by (rewrite ms_pos in G; lia).
  destruct (wire_ttl_bounds ttl P) as [U L].
  assert (T : ttl <= dl - now).
  { subst ttl. rewrite time_sub_spec in *. rewrite min_dur_val, max_dur_val, ms_pos in *. lia. }
  split; [exact U|]. split; [lia|].
  intros B.
  assert (X : ttl = dl - now).
  { subst ttl. rewrite time_sub_spec in *. rewrite min_dur_val, max_dur_val, p32, ms_pos in *. lia. }
  split; [apply wire_ttl_positive; lia|]. rewrite <- X. apply wire_ttl_exact. lia.
Qed.

(* beyond 2^32 ms the uint32 conversion wraps: the field can even be zero *)
Lemma wire_ttl_zero_witness :
  exists dl now ttl, begin_call c_connectionActive true dl now 0 = BcOk ttl /\ wire_ttl_ms ttl = 0.
Proof. exists (2 ^ 32 * ms_ns), 0, (2 ^ 32 * ms_ns). vm_compute. split; reflexivity. Qed.

(* the model's field is the one Model.Messages writes in front of a call req *)
Lemma wire_field_is_callreq_field m :
  w_callreq m = (fun b => w_headers (cq_headers m) (w_len8 (cq_service m) (w_span (cq_span m) (w_u32 (wire_ttl_ms (cq_ttl_ns m)) b)))).
Proof. reflexivity. Qed.

Lemma recv_ttl_exact f : is_u32 f -> recv_ttl_ns f = f * ms_ns.
Proof.
  unfold is_u32, recv_ttl_ns. intros H. apply wrapS_id; [lia|]. rewrite p32 in H. rewrite ms_pos.
  change (2 ^ (64 - 1)) with 9223372036854775808. lia.
Qed.

Lemma lazy_ttl_exact f : is_u32 f -> lazyCallReqTTL f = f * ms_ns.
Proof.
  unfold is_u32, lazyCallReqTTL. intros H. rewrite p32 in H.
  rewrite (wrapS_id 64 f); [|lia|change (2 ^ (64 - 1)) with 9223372036854775808; lia].
  rewrite ms_pos. apply wrapS_id; [lia|]. change (2 ^ (64 - 1)) with 9223372036854775808. lia.
Qed.

(* ---- handler context --------------------------------------------------------------------- *)

Definition spec_deadline (base : option Z) (arrival ttl_ns : Z) : Z :=
  match base with None => arrival + ttl_ns | Some b => Z.min b (arrival + ttl_ns) end.

Lemma with_timeout_spec parent now d :
  with_timeout parent now d = Some (spec_deadline parent now d).
Proof.
  unfold with_timeout, spec_deadline. destruct parent as [pd|]; [|reflexivity].
  destruct (pd <? now + d) eqn:E; f_equal; lia.
Qed.

Lemma incoming_ctx_spec base now f :
  is_u32 f -> incoming_ctx base now (recv_ttl_ns f) = Some (spec_deadline base now (f * ms_ns)).
Proof.
  intros H. rewrite recv_ttl_exact by exact H. unfold incoming_ctx.
  destruct (f * ms_ns =? 0) eqn:Z0.
  - rewrite with_timeout_spec. unfold build_ctx. rewrite Z0.
    assert (E : f * ms_ns = 0) by lia. rewrite E.
    unfold spec_deadline. destruct base as [b|]; reflexivity.
  - unfold build_ctx. destruct base as [b|]; [rewrite Z0|]; apply with_timeout_spec.
Qed.

Lemma handler_deadline base now f :
  is_u32 f ->
  exists d, incoming_ctx base now (recv_ttl_ns f) = Some d /\ d <= now + f * ms_ns /\
            (base = None -> d = now + f * ms_ns) /\
            (forall b, base = Some b -> d = Z.min b (now + f * ms_ns)).
Proof.
  intros H. exists (spec_deadline base now (f * ms_ns)). split; [apply incoming_ctx_spec, H|].
  unfold spec_deadline. destruct base as [b|].
  - split; [lia|]. split; [discriminate|]. intros b' E. inversion E; reflexivity.
  - split; [lia|]. split; [reflexivity|]. discriminate.
Qed.

(* why newIncomingContext needs its guard: the builder alone turns a zero timeout into
   "inherit the parent's deadline" *)
Lemma builder_zero_timeout_inherits :
  exists base now d, build_ctx base now 0 = Some d /\ now + 0 < d.
Proof. exists (Some 3600), 0, 3600. vm_compute. split; reflexivity. Qed.

Lemma zero_ttl_expired base now :
  expired_at (incoming_ctx base now (recv_ttl_ns 0)) now = true.
Proof.
  rewrite incoming_ctx_spec by (unfold is_u32; rewrite p32; lia).
  unfold expired_at, spec_deadline. destruct base as [b|]; lia.
Qed.

(* ---- relay ---------------------------------------------------------------------------------- *)

Definition valid_max (m : Z) : Prop := ms_ns <= m < 2 ^ 32 * ms_ns.

Lemma relay_max_valid cfg : is_duration cfg -> valid_max (relay_max cfg).
Proof.
  unfold is_duration, relay_max, validateRelayMaxTimeout, valid_max.
  rewrite min_dur_val, max_dur_val, p32, ms_pos. intros H.
  assert (W : wrapS 64 (Z.quot cfg 1000000) = Z.quot cfg 1000000).
  { apply wrapS_id; [lia|]. change (2 ^ (64 - 1)) with 9223372036854775808.
    destruct (Z_le_gt_dec 0 cfg) as [P|N].
    - rewrite Z.quot_div_nonneg by lia.
      pose proof (Z.div_pos cfg 1000000 P ltac:(lia)).
      assert (cfg / 1000000 <= cfg) by (apply Z.div_le_upper_bound; lia). lia.
    - replace cfg with (- (- cfg)) by lia. rewrite Z.quot_opp_l by lia.
      rewrite Z.quot_div_nonneg by lia.
      pose proof (Z.div_pos (- cfg) 1000000 ltac:(lia) ltac:(lia)).
      assert (- cfg / 1000000 <= - cfg) by (apply Z.div_le_upper_bound; lia). lia. }
  rewrite W.
  destruct ((Z.quot cfg 1000000 >? 0) && (Z.quot cfg 1000000 <=? 4294967295)) eqn:C.
  - apply andb_true_iff in C as [C1 C2].
    assert (P : 0 <= cfg).
    { destruct (Z_le_gt_dec 0 cfg) as [P|N]; [exact P|].
      assert (Z.quot cfg 1000000 <= 0); [|lia].
      replace cfg with (- (- cfg)) by lia. rewrite Z.quot_opp_l by lia.
      rewrite Z.quot_div_nonneg by lia.
      pose proof (Z.div_pos (- cfg) 1000000 ltac:(lia) ltac:(lia)). lia. }
    rewrite Z.quot_div_nonneg in C1, C2 by lia.
    pose proof (Z.div_mod cfg 1000000 ltac:(lia)) as D.
    pose proof (Z.mod_pos_bound cfg 1000000 ltac:(lia)) as M. lia.
  - destruct (cfg =? 0); unfold c_u_defaultRelayMaxTimeout; lia.
Qed.

Lemma relay_max_keeps_valid cfg : is_duration cfg -> valid_max cfg -> relay_max cfg = cfg.
Proof.
  unfold is_duration, relay_max, validateRelayMaxTimeout, valid_max.
  rewrite min_dur_val, max_dur_val, p32, ms_pos. intros H V.
  assert (Q : 1 <= cfg / 1000000 <= 4294967295).
  { split; [apply Z.div_le_lower_bound; lia|].
    assert (cfg / 1000000 < 4294967296); [apply Z.div_lt_upper_bound; lia|lia]. }
  rewrite Z.quot_div_nonneg by lia.
  rewrite wrapS_id; [|lia|change (2 ^ (64 - 1)) with 9223372036854775808; lia].
  destruct ((cfg / 1000000 >? 0) && (cfg / 1000000 <=? 4294967295)) eqn:C; [reflexivity|lia].
Qed.

Lemma set_ttl_field_valid m :
  valid_max m -> set_ttl_field m = m / ms_ns /\ 1 <= m / ms_ns < 2 ^ 32 /\ (m / ms_ns) * ms_ns <= m.
Proof.
  unfold valid_max, set_ttl_field. intros V.
  rewrite quot_ms_nonneg by (rewrite ms_pos in V; lia).
  assert (Q : 1 <= m / ms_ns < 2 ^ 32).
  { split; [apply Z.div_le_lower_bound; rewrite ?ms_pos in *; lia|].
    apply Z.div_lt_upper_bound; rewrite ?ms_pos in *; lia. }
  rewrite wrapU_id by lia. split; [reflexivity|]. split; [exact Q|].
  pose proof (Z.mul_div_le m ms_ns ltac:(rewrite ms_pos; lia)). lia.
Qed.

Lemma relay_ttl_spec m f :
  valid_max m -> is_u32 f ->
  let r := relay_ttl m f in
  fst r = Z.min (f * ms_ns) m /\
  snd r = (if f * ms_ns >? m then m / ms_ns else f) /\
  is_u32 (snd r) /\ snd r <= f /\ snd r * ms_ns <= m /\
  snd r * ms_ns <= fst r /\ fst r <= f * ms_ns /\ fst r <= m.
Proof.
  intros V U. unfold relay_ttl. rewrite lazy_ttl_exact by exact U.
  destruct (set_ttl_field_valid m V) as [S [Q L]].
  unfold is_u32 in *. destruct (f * ms_ns >? m) eqn:C; cbn [fst snd].
  - rewrite S. repeat split; try lia.
    assert (m / ms_ns <= f); [|lia].
    apply Z.div_le_upper_bound; [rewrite ms_pos; lia|]. lia.
  - unfold valid_max in V. repeat split; lia.
Qed.

(* a chain of relays *)
Lemma hops_ttl_spec maxes : forall f,
  Forall is_duration maxes -> is_u32 f ->
  is_u32 (hops_ttl maxes f) /\ hops_ttl maxes f <= f /\
  Forall (fun cfg => hops_ttl maxes f * ms_ns <= relay_max cfg) maxes.
Proof.
  induction maxes as [|cfg r IH]; intros f D U; cbn [hops_ttl].
  - split; [exact U|]. split; [lia|constructor].
  - inversion D as [|? ? Dc Dr]; subst.
    pose proof (relay_ttl_spec (relay_max cfg) f (relay_max_valid cfg Dc) U) as R. cbv zeta in R.
    destruct R as [_ [_ [U' [Lf [Lm _]]]]].
    destruct (IH (snd (relay_ttl (relay_max cfg) f)) Dr U') as [A [B C]].
    split; [exact A|]. split; [lia|]. constructor; [|exact C].
    unfold is_u32 in *. rewrite ms_pos in *. nia.
Qed.

(* ---- the whole path ---------------------------------------------------------------------------- *)
Lemma e2e_spec dl now maxes base arrival r :
  Forall is_duration maxes ->
  e2e dl now maxes base arrival = Some r ->
  e2e_wire r * ms_ns <= dl - now /\
  is_u32 (e2e_arrived r) /\ e2e_arrived r <= e2e_wire r /\
  Forall (fun cfg => e2e_arrived r * ms_ns <= relay_max cfg) maxes /\
  exists d, e2e_deadline r = Some d /\ d <= arrival + e2e_arrived r * ms_ns /\ d <= arrival + (dl - now).
Proof.
  intros D H. unfold e2e in H.
  destruct (begin_call c_connectionActive true dl now 0) as [e|ttl] eqn:B; [discriminate|].
  inversion H; subst r; clear H. cbn [e2e_wire e2e_arrived e2e_deadline].
  destruct (wire_ttl_sound _ _ _ _ _ _ B) as [U [L _]].
  destruct (hops_ttl_spec maxes (wire_ttl_ms ttl) D U) as [A [Le F]].
  destruct (handler_deadline base arrival (hops_ttl maxes (wire_ttl_ms ttl)) A) as [d [E [Ld _]]].
  split; [exact L|]. split; [exact A|]. split; [exact Le|]. split; [exact F|].
  exists d. split; [exact E|]. split; [exact Ld|].
  unfold is_u32 in *. rewrite ms_pos in *. nia.
Qed.

Lemma e2e_rejects dl now maxes base arrival :
  dl - now < ms_ns -> e2e dl now maxes base arrival = None.
Proof. intros H. unfold e2e. rewrite begin_call_sub_ms by exact H. reflexivity. Qed.

(* the relay clause in one statement *)
Lemma relay_clause cfg f :
  is_duration cfg -> is_u32 f ->
  let m := relay_max cfg in
  let r := relay_ttl m f in
  valid_max m /\ (valid_max cfg -> m = cfg) /\
  is_u32 (snd r) /\ snd r <= f /\ snd r * ms_ns <= m /\
  fst r = Z.min (f * ms_ns) m /\ snd r * ms_ns <= fst r /\
  snd r = (if f * ms_ns >? m then m / ms_ns else f).
Proof.
  intros D U. cbv zeta.
  pose proof (relay_max_valid cfg D) as V.
  pose proof (relay_ttl_spec (relay_max cfg) f V U) as R. cbv zeta in R.
  destruct R as [R1 [R2 [R3 [R4 [R5 [R6 _]]]]]].
  split; [exact V|]. split; [intros W; apply relay_max_keeps_valid; assumption|].
  split; [exact R3|]. split; [exact R4|]. split; [exact R5|]. split; [exact R1|]. split; [exact R6|exact R2].
Qed.

(* the handler clause in one statement *)
Lemma handler_clause base arrival field :
  is_u32 field ->
  recv_ttl_ns field = field * ms_ns /\
  exists d, incoming_ctx base arrival (recv_ttl_ns field) = Some d /\
            d <= arrival + field * ms_ns /\
            (base = None -> d = arrival + field * ms_ns) /\
            (forall b, base = Some b -> d = Z.min b (arrival + field * ms_ns)).
Proof. intros H. split; [exact (recv_ttl_exact field H)|exact (handler_deadline base arrival field H)]. Qed.
