(* C04 (strengthening W04): the reader half of a call drains its exchange before it reports an
   error of the exchange.

   1. TIE.  The statement structure of reqResReader.recvNextFragment and of
      messageExchange.recvPeerFrameOfType, regenerated from the source on every run
      (Gen/GenC04Reader.v), executed over the state of Model/Mex.v, is the model's fetch
      [c04r_fetch]: the initial fragment if the reader holds one, else exactly one
      mex.recvPeerFrame -- no other question is put to the exchange first.  The table of all
      places that consult an exchange's error channel is the expected one; no function on the
      reader's path is in it except recvPeerFrame (whose own order is Proofs/MexProgP.v).
   2. THEOREM about the model: whatever has been notified on the exchange's error channel, a
      reader whose context is live receives every frame already on its queue, in order, before
      any fetch can end with the notified error -- for every choice of the scheduler at the
      selects. *)
From Coq Require Import ZArith List Bool Lia.
From Verif Require Import Base.Wrap Base.Wire Gen.GenConsts Gen.GenMex Gen.GenC04Reader Spec.C04ReaderSpec Spec.Demux
  Model.Mex Model.C04Reader Proofs.MexP.
Import ListNotations.
Local Open Scope Z_scope.

(* ---- 1. the tie ---- *)

Theorem c04r_of_type_generated : forall s r sel,
  c04r_exec c04r_recvPeerFrameOfType false [] s r sel = c04r_recv s r sel.
Proof.
  intros s r sel. unfold c04r_recvPeerFrameOfType. cbn [c04r_exec].
  destruct (c04r_recv s r sel) as [[s' o]|]; [|reflexivity].
  destruct (c04r_is_err o); reflexivity.
Qed.

Theorem c04r_next_fragment_generated : forall initial s r sel,
  c04r_exec c04r_recvNextFragment initial [] s r sel = c04r_fetch initial s r sel.
Proof.
  intros initial s r sel. unfold c04r_recvNextFragment, c04r_fetch. cbn [c04r_exec].
  destruct initial; [reflexivity|].
  destruct (c04r_recv s r sel) as [[s' o]|]; [|reflexivity].
  destruct (c04r_is_err o); reflexivity.
Qed.

Theorem c04r_errch_sites_expected :
  c04r_errch_sites = map (fun x => (c04r_s2z (fst (fst x)), snd (fst x))) c04r_expected_sites.
Proof. vm_compute. reflexivity. Qed.

Definition c04r_zs_eqb (a b : list Z) : bool :=
  (Nat.eqb (length a) (length b)) && forallb (fun p => fst p =? snd p) (combine a b).

Lemma c04r_zs_eqb_refl a : c04r_zs_eqb a a = true.
Proof.
  unfold c04r_zs_eqb. rewrite Nat.eqb_refl. cbn [andb].
  induction a as [|x a IH]; cbn [combine forallb fst snd]; [reflexivity|].
  rewrite Z.eqb_refl, IH. reflexivity.
Qed.

Lemma c04r_reader_path_silent_b :
  forallb (fun site => negb (existsb (fun f => c04r_zs_eqb (fst site) (c04r_s2z f)) c04r_reader_path))
          c04r_errch_sites = true.
Proof. vm_compute. reflexivity. Qed.

Theorem c04r_reader_path_silent : forall site f,
  In site c04r_errch_sites -> In f c04r_reader_path -> fst site <> c04r_s2z f.
Proof.
  intros site f Hs Hf Heq.
  pose proof (proj1 (forallb_forall _ _) c04r_reader_path_silent_b site Hs) as H.
  apply negb_true_iff in H.
  assert (Hex : existsb (fun f => c04r_zs_eqb (fst site) (c04r_s2z f)) c04r_reader_path = true).
  { apply existsb_exists. exists f. split; [exact Hf|]. rewrite Heq. apply c04r_zs_eqb_refl. }
  rewrite Hex in H. discriminate.
Qed.

(* ---- 2. delivered frames come before the notified error ---- *)

Lemma c04r_nth_upd_mex r g s e : nth_error (s_mexes s) r = Some e ->
  nth_error (s_mexes (upd_mex r g s)) r = Some (g e).
Proof. intros H. unfold upd_mex. cbn. now apply nth_upd_same. Qed.

Definition c04r_post (s : st) (r : nat) (f : frame) (q : list frame) : st :=
  upd_mex r (fun e => g_receive f (set_cpc false (set_queue q e))) (upd_mex r (set_cpc true) s).

Lemma c04r_post_nth s r e f q : nth_error (s_mexes s) r = Some e ->
  nth_error (s_mexes (c04r_post s r f q)) r = Some (g_receive f (set_cpc false (set_queue q (set_cpc true e)))).
Proof.
  intros He. unfold c04r_post.
  rewrite (c04r_nth_upd_mex r _ _ (set_cpc true e)); [reflexivity|].
  now apply c04r_nth_upd_mex.
Qed.

(* one fetch: with a live context and a frame on the queue, every choice of the select that is
   enabled returns that frame and takes it off the queue; the choice "a frame is ready" is
   enabled.  No hypothesis on the error latch. *)
Lemma c04r_recv_head s r e f q sel :
  nth_error (s_mexes s) r = Some e -> m_cpc e = false -> m_ctx e = 0 ->
  m_queue e = f :: q -> f_id f = m_id e -> c04r_sel_ok r sel ->
  (c04r_recv s r sel = None \/ c04r_recv s r sel = Some (c04r_post s r f q, [0; f_tag f])) /\
  c04r_recv s r (LRecvFrame r) = Some (c04r_post s r f q, [0; f_tag f]).
Proof.
  intros He Hc Hx Hq Hid Hsel.
  assert (Hchk : mexCheckFrame (f_id f) (m_id e) =? 0 = true).
  { unfold mexCheckFrame. rewrite Hid, Z.eqb_refl. reflexivity. }
  assert (H1 : step_obs true s (LRecvCheck r) = Some (upd_mex r (set_cpc true) s, [])).
  { cbn [step_obs]. rewrite He, Hc, Hx. reflexivity. }
  pose proof (c04r_nth_upd_mex r (set_cpc true) s e He) as He1.
  assert (HF : step_obs true (upd_mex r (set_cpc true) s) (LRecvFrame r) = Some (c04r_post s r f q, [0; f_tag f])).
  { cbn [step_obs]. rewrite He1. cbn [m_cpc set_cpc m_queue m_id]. rewrite Hq, Hchk. reflexivity. }
  split.
  - unfold c04r_recv. rewrite H1. destruct Hsel as [-> | [-> | ->]].
    + right. exact HF.
    + left. cbn [step_obs]. rewrite He1. cbn [m_cpc set_cpc m_ctx]. rewrite Hx. reflexivity.
    + cbn [step_obs]. rewrite He1. cbn [m_cpc set_cpc m_err m_queue m_id]. rewrite Hq, Hchk.
      destruct (negb (m_err e =? 0)); cbn [andb]; [right|left]; reflexivity.
  - unfold c04r_recv. rewrite H1. exact HF.
Qed.

(* the queue, emptied fetch by fetch: the observations are exactly the queued frames, in order *)
Lemma c04r_drain_gen : forall fs s r e q sels s' os,
  nth_error (s_mexes s) r = Some e -> m_cpc e = false -> m_ctx e = 0 ->
  m_queue e = fs ++ q -> Forall (fun f => f_id f = m_id e) fs ->
  length sels = length fs -> Forall (c04r_sel_ok r) sels ->
  c04r_fetches s r sels = Some (s', os) ->
  os = map (fun f => [0; f_tag f]) fs /\
  exists e', nth_error (s_mexes s') r = Some e' /\ m_queue e' = q /\ m_err e' = m_err e /\ m_ctx e' = 0 /\
             m_cpc e' = false /\ g_received (m_g e') = g_received (m_g e) ++ fs.
Proof.
  induction fs as [|f fs IH]; intros s r e q sels s' os He Hc Hx Hq Hids Hlen Hsels Hrun.
  - destruct sels; [|discriminate]. cbn in Hrun. injection Hrun as <- <-. split; [reflexivity|].
    exists e. rewrite app_nil_r. repeat split; assumption.
  - destruct sels as [|sel sels]; [discriminate|]. cbn [c04r_fetches] in Hrun.
    inversion Hids as [|? ? Hid Hids']; subst. inversion Hsels as [|? ? Hsel Hsels']; subst.
    destruct (c04r_recv_head s r e f (fs ++ q) sel He Hc Hx Hq Hid Hsel) as [[Hn | Hs] _].
    + rewrite Hn in Hrun. discriminate.
    + rewrite Hs in Hrun.
      destruct (c04r_fetches (c04r_post s r f (fs ++ q)) r sels) as [[s2 os2]|] eqn:Hrest; [|discriminate].
      injection Hrun as <- <-.
      pose proof (c04r_post_nth s r e f (fs ++ q) He) as He2.
      destruct (IH _ r _ q sels s2 os2 He2 eq_refl Hx eq_refl Hids' (f_equal pred Hlen) Hsels' Hrest) as [Hos [e' [Hn' [Hq' [He' [Hx' [Hc' Hg']]]]]]].
      split; [cbn [map]; now rewrite Hos|].
      exists e'. repeat split; try assumption.
      rewrite Hg'. cbn. now rewrite <- app_assoc.
Qed.

(* ... and the all-frames-ready schedule exists *)
Lemma c04r_drain_enabled : forall fs s r e q,
  nth_error (s_mexes s) r = Some e -> m_cpc e = false -> m_ctx e = 0 ->
  m_queue e = fs ++ q -> Forall (fun f => f_id f = m_id e) fs ->
  exists s', c04r_fetches s r (map (fun _ => LRecvFrame r) fs) = Some (s', map (fun f => [0; f_tag f]) fs).
Proof.
  induction fs as [|f fs IH]; intros s r e q He Hc Hx Hq Hids.
  - exists s. reflexivity.
  - inversion Hids as [|? ? Hid Hids']; subst. cbn [map c04r_fetches].
    destruct (c04r_recv_head s r e f (fs ++ q) (LRecvFrame r) He Hc Hx Hq Hid (or_introl eq_refl)) as [_ Hs].
    rewrite Hs.
    destruct (IH _ r _ q (c04r_post_nth s r e f (fs ++ q) He) eq_refl Hx eq_refl Hids') as [s' Hs'].
    rewrite Hs'. exists s'. reflexivity.
Qed.

(* reachable states: the frames on a queue carry the exchange's id (demux), so a reader whose
   context is live and who is not inside recvPeerFrame receives ALL of them, in order, before a
   fetch can report what was notified on the error channel *)
Theorem c04r_delivered_before_error : forall ls s r e sels s' os,
  run ls = Some s -> nth_error (s_mexes s) r = Some e -> m_cpc e = false -> m_ctx e = 0 ->
  length sels = length (m_queue e) -> Forall (c04r_sel_ok r) sels ->
  c04r_fetches s r sels = Some (s', os) ->
  os = map (fun f => [0; f_tag f]) (m_queue e) /\
  exists e', nth_error (s_mexes s') r = Some e' /\ m_queue e' = [] /\
             g_received (m_g e') = g_received (m_g e) ++ m_queue e.
Proof.
  intros ls s r e sels s' os Hrun He Hc Hx Hlen Hsels Hf.
  destruct (demux ls s r e Hrun He) as [_ [_ [Hids [Hsplit _]]]].
  assert (Hq : Forall (fun f => f_id f = m_id e) (m_queue e)).
  { rewrite Hsplit in Hids. apply Forall_app in Hids. tauto. }
  destruct (c04r_drain_gen (m_queue e) s r e [] sels s' os He Hc Hx (eq_sym (app_nil_r _)) Hq Hlen Hsels Hf)
    as [Hos [e' [Hn [Hq' [_ [_ [_ Hg]]]]]]].
  split; [exact Hos|]. exists e'. repeat split; assumption.
Qed.

Theorem c04r_delivered_before_error_enabled : forall ls s r e,
  run ls = Some s -> nth_error (s_mexes s) r = Some e -> m_cpc e = false -> m_ctx e = 0 ->
  exists s', c04r_fetches s r (map (fun _ => LRecvFrame r) (m_queue e)) =
             Some (s', map (fun f => [0; f_tag f]) (m_queue e)).
Proof.
  intros ls s r e Hrun He Hc Hx.
  destruct (demux ls s r e Hrun He) as [_ [_ [Hids [Hsplit _]]]].
  assert (Hq : Forall (fun f => f_id f = m_id e) (m_queue e)).
  { rewrite Hsplit in Hids. apply Forall_app in Hids. tauto. }
  exact (c04r_drain_enabled (m_queue e) s r e [] He Hc Hx (eq_sym (app_nil_r _)) Hq).
Qed.

(* with the queue empty and an error notified, the fetch ends with that error (select: only the
   error-channel arm is enabled) -- the hand-over point between "frames" and "error" *)
Lemma c04r_recv_error_when_empty s r e sel s' o :
  nth_error (s_mexes s) r = Some e -> m_cpc e = false -> m_ctx e = 0 -> m_queue e = [] ->
  c04r_sel_ok r sel -> c04r_recv s r sel = Some (s', o) -> o = [m_err e] /\ m_err e <> 0.
Proof.
  intros He Hc Hx Hq Hsel Hr.
  assert (H1 : step_obs true s (LRecvCheck r) = Some (upd_mex r (set_cpc true) s, [])).
  { cbn [step_obs]. rewrite He, Hc, Hx. reflexivity. }
  pose proof (c04r_nth_upd_mex r (set_cpc true) s e He) as He1.
  unfold c04r_recv in Hr. rewrite H1 in Hr.
  destruct Hsel as [-> | [-> | ->]]; cbn [step_obs] in Hr; rewrite He1 in Hr; cbn [m_cpc set_cpc m_queue m_ctx m_err] in Hr.
  - rewrite Hq in Hr. discriminate.
  - rewrite Hx in Hr. discriminate.
  - rewrite Hq in Hr. destruct (m_err e =? 0) eqn:Ee; cbn [negb andb] in Hr; [discriminate|].
    injection Hr as <- <-. split; [reflexivity|lia].
Qed.

(* WHY the tie matters: a reader that asks checkError() first (the writer's idiom) is a different
   function of the same state -- with a frame queued and an error notified it reports the error *)
Lemma c04r_check_first_differs : forall k s r e f q,
  nth_error (s_mexes s) r = Some e -> m_ctx e = 0 -> m_err e <> 0 -> m_queue e = f :: q ->
  c04r_exec (C04rIf C04rtMexCheckError (C04rRet C04rrFailed) k) false [] s r (LRecvFrame r) = Some (s, [m_err e]).
Proof.
  intros k s r e f q He Hx Herr Hq. cbn [c04r_exec]. unfold c04r_check_error. rewrite He, Hx. cbn [Z.eqb negb].
  destruct (m_err e =? 0) eqn:E; [lia|reflexivity].
Qed.
