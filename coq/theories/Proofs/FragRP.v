(* Proofs about the fragment READER of Model/Frag.v (section "R. Reader" of TARGETS_frag.md).
   Main theorems (all premises: wf fs, ck_new (first_ctype fs) = Some ck0, ck_chain ck0 fs,
   denote (chunks_of fs) = [a1; a2; a3]):
     reader_eof     reads running past EOF: every code 0/12, data = a_i, final state, all released
     reader_helper  the ArgReadHelper path (ReadAll / EnsureEmpty / Close) returns (a_i, 0)
     reader_safe    arbitrary read sizes >= 0: no panic; an argument whose Begin/reads/Close all
                    succeed has data = a_i; data is always a prefix of a_i; errors are sticky
   and the same three statements through r_run of Model/FragWire.v (reader_*_run).
   Invariant: Inv N st h t -- h = what is left of the argument in progress, t = the later
   arguments, computed from the events still to come (split_evs (ev_rest st)). *)
From Coq Require Import ZArith List Bool Lia ZifyBool.
From Verif Require Import Base.Wrap Base.Bytes Base.Wire Gen.GenConsts Model.Crc Model.Frag
  Model.FragWire Spec.FragSpec Spec.FragOk.
Import ListNotations.
Local Open Scope Z_scope.

(* ================================================================== *)
(* Statement-level definitions                                         *)
(* ================================================================== *)

(* premises on the input fragments *)
Definition wf (fs : list frag) : Prop := exists capf, frames_ok capf fs.
Definition first_ctype (fs : list frag) : Z := match fs with f :: _ => f_ctype f | [] => 0 end.

(* a sequence of Read calls with the given buffer sizes: per read (bytes, code) *)
Fixpoint reads (ns : list Z) (st : rst) : option (list (list Z * Z) * rst) :=
  match ns with
  | [] => Some ([], st)
  | n :: r => match r_read n st with
              | None => None
              | Some (bs, c, st1) =>
                  match reads r st1 with
                  | None => None
                  | Some (l, st2) => Some ((bs, c) :: l, st2)
                  end
              end
  end.

(* one argument: Begin, reads of the given sizes (all of them, also past EOF), Close.
   Result: begin code, per-read (bytes, code), close code, state.  None = panic. *)
Definition arg_read (last : bool) (ns : list Z) (st : rst) : option (Z * list (list Z * Z) * Z * rst) :=
  match r_begin last st with
  | None => None
  | Some (cb, st1) =>
      match reads ns st1 with
      | None => None
      | Some (l, st2) =>
          match r_close st2 with
          | None => None
          | Some (cc, st3) => Some (cb, l, cc, st3)
          end
      end
  end.

(* one argument through the ArgReadHelper: Begin, then ReadAll/EnsureEmpty/Close *)
Definition arg_helper (last : bool) (bufsz : Z) (st : rst) : option (Z * list Z * Z * rst) :=
  match r_begin last st with
  | None => None
  | Some (cb, st1) =>
      match r_helper_read bufsz st1 with
      | None => None
      | Some (bs, c, st2) => Some (cb, bs, c, st2)
      end
  end.

Definition zsum (ns : list Z) : Z := fold_right Z.add 0 ns.
Definition data_of (l : list (list Z * Z)) : list Z := concat (map fst l).

(* codes: 0 = nil, 12 = io.EOF; everything else is an error *)
Definition is_err (c : Z) : Prop := c <> 0 /\ c <> 12.
Definition code_ok (x : list Z * Z) : Prop := snd x = 0 \/ snd x = 12.

(* Begin, all reads and Close of an argument returned without error *)
Definition arg_ok (cb : Z) (l : list (list Z * Z)) (cc : Z) : Prop := cb = 0 /\ Forall code_ok l /\ cc = 0.

(* the operations of one argument as a flat list of (data, code) *)
Definition ops_of (cb : Z) (l : list (list Z * Z)) (cc : Z) : list (list Z * Z) := ([], cb) :: l ++ [([], cc)].

(* after the first error every later operation returns that error and no data *)
Fixpoint sticky (l : list (list Z * Z)) : Prop :=
  match l with
  | [] => True
  | x :: r => (is_err (snd x) -> Forall (fun y => y = ([], snd x)) r) /\ sticky r
  end.

(* final state of a completely read message of N fragments *)
Definition r_final (N : Z) (st : rst) : Prop :=
  rs_state st = c_fragmentingReadComplete /\ rs_fin st = true /\ rs_rel st = N /\ rs_err st = 0.

(* ================================================================== *)
(* Events read from the right: (rest of the argument in progress, later arguments) *)
(* ================================================================== *)
Definition sp_step (e : chunk_ev) (p : list Z * list (list Z)) : list Z * list (list Z) :=
  match e with
  | Cont c => (c ++ fst p, snd p)
  | New c => ([], (c ++ fst p) :: snd p)
  end.
Definition split_evs (evs : list chunk_ev) : list Z * list (list Z) := fold_right sp_step ([], []) evs.

Lemma denote_events_split evs : forall cl cu,
  fst (fold_left ev_step evs (cl, cu)) ++ [snd (fold_left ev_step evs (cl, cu))]
  = cl ++ (cu ++ fst (split_evs evs)) :: snd (split_evs evs).
Proof.
  induction evs as [|e evs IH]; intros cl cu.
  - cbn. rewrite app_nil_r. reflexivity.
  - cbn [fold_left split_evs fold_right]. fold (split_evs evs).
    destruct e as [c|c]; cbn [ev_step fst snd sp_step]; rewrite IH.
    + rewrite <- app_assoc. reflexivity.
    + rewrite <- app_assoc. cbn [app]. rewrite app_nil_r. reflexivity.
Qed.

Lemma denote_split frags :
  denote frags = fst (split_evs (flat_map frag_events frags)) :: snd (split_evs (flat_map frag_events frags)).
Proof.
  unfold denote, denote_events.
  pose proof (denote_events_split (flat_map frag_events frags) [] []) as H.
  destruct (fold_left ev_step (flat_map frag_events frags) ([], [])) as [closed cur].
  cbn [fst snd app] in H. exact H.
Qed.

Lemma split_evs_app a b : split_evs (a ++ b) = fold_right sp_step (split_evs b) a.
Proof. unfold split_evs. apply fold_right_app. Qed.

(* ================================================================== *)
(* The reader invariant                                                *)
(* ================================================================== *)
Definition evs_in (fs : list frag) : list chunk_ev := flat_map frag_events (chunks_of fs).
Definition ev_tail (st : rst) : list chunk_ev := map New (rs_rem st) ++ evs_in (rs_in st).
Definition ev_rest (st : rst) : list chunk_ev := Cont (rs_cur st) :: ev_tail st.

Fixpoint fr_ok (fs : list frag) : Prop :=
  match fs with
  | [] => True
  | f :: r => f_chunks f <> [] /\ (f_more f = true <-> r <> []) /\ fr_ok r
  end.

Lemma frames_ok_from_fr_ok capf : forall fs b, frames_ok_from capf b fs -> fr_ok fs.
Proof.
  induction fs as [|f r IH]; intros b H; cbn [fr_ok frames_ok_from] in *; [exact I|].
  destruct H as (H1 & _ & H3 & H4). split; [exact H1|]. split; [exact H3|]. exact (IH _ H4).
Qed.

Definition ck_ok (st : rst) : Prop :=
  exists c, ck_chain c (rs_in st) /\
            match rs_ck st with Some c' => c' = c | None => ck_new (first_ctype (rs_in st)) = Some c end.

Record Inv (N : Z) (st : rst) (h : list Z) (t : list (list Z)) : Prop := mkInv {
  inv_err : rs_err st = 0;
  inv_split : split_evs (ev_rest st) = (h, t);
  inv_fr : fr_ok (rs_in st);
  inv_more : rs_more st = true <-> rs_in st <> [];
  inv_ck : ck_ok st;
  inv_got : rs_got st + zlen (rs_in st) = N
}.

Ltac prj := cbn [rs_state rs_err rs_rem rs_cur rs_more rs_in rs_ck rs_got rs_rel rs_fin].
Ltac prj_in H := cbn [rs_state rs_err rs_rem rs_cur rs_more rs_in rs_ck rs_got rs_rel rs_fin] in H.
Ltac prj_all := cbn [rs_state rs_err rs_rem rs_cur rs_more rs_in rs_ck rs_got rs_rel rs_fin] in *.

Definition at_eof (st : rst) : Prop := rs_cur st = [] /\ (rs_rem st <> [] \/ rs_more st = false).

Lemma split_rest st :
  split_evs (ev_rest st) = (rs_cur st ++ fst (split_evs (ev_tail st)), snd (split_evs (ev_tail st))).
Proof. reflexivity. Qed.

Lemma split_tail_cons c cs E :
  split_evs (map New (c :: cs) ++ E) = ([], (c ++ fst (split_evs (map New cs ++ E))) :: snd (split_evs (map New cs ++ E))).
Proof. reflexivity. Qed.

Lemma evs_in_cons f r : evs_in (f :: r) = frag_events (f_chunks f) ++ evs_in r.
Proof. reflexivity. Qed.

Lemma zlen_cons {A} (x : A) l : zlen (x :: l) = 1 + zlen l.
Proof. unfold zlen. cbn [length]. lia. Qed.

Lemma zlen_nil_inv {A} (l : list A) : zlen l <= 0 -> l = [].
Proof. destruct l; [reflexivity|]. rewrite zlen_cons. pose proof (zlen_nonneg l). lia. Qed.

(* at EOF nothing of the argument in progress is left *)
Lemma at_eof_nil N st h t : Inv N st h t -> at_eof st -> h = [].
Proof.
  intros I [Hc Hr]. pose proof (inv_split _ _ _ _ I) as S. rewrite split_rest, Hc in S.
  unfold ev_tail in S. destruct (rs_rem st) as [|c cs] eqn:Er.
  - destruct Hr as [Hr|Hr]; [congruence|].
    destruct (rs_in st) as [|f r] eqn:Ei.
    + cbn in S. congruence.
    + pose proof (inv_more _ _ _ _ I) as M. rewrite Ei, Hr in M. destruct M as [_ M].
      discriminate M. discriminate.
  - rewrite split_tail_cons in S. cbn [fst snd app] in S. congruence.
Qed.

(* recvAndParseNextFragment succeeds on well-formed input *)
Lemma recv_ok N st h t :
  Inv N st h t -> rs_cur st = [] -> rs_rem st = [] -> rs_more st = true ->
  exists st', r_recv st = Some (0, st') /\ Inv N st' h t /\
              rs_state st' = rs_state st /\ rs_fin st' = rs_fin st /\
              (length (rs_in st') < length (rs_in st))%nat.
Proof.
  intros [Ie Is If Im Ic Ig] Hc Hr Hm.
  destruct st as [s e rem cur more inn ck got rel fin]. prj_all. subst e cur rem more.
  destruct inn as [|f rest]; [destruct Im as [Im _]; exfalso; apply Im; reflexivity|].
  cbn [fr_ok] in If. destruct If as (Hch & Hmore & Hfr).
  destruct Ic as (c & Hchain & Hck). prj_all. cbn [ck_chain] in Hchain.
  destruct Hchain as (Hsum & Hty & Hrest).
  destruct (f_chunks f) as [|ch chs] eqn:Ech; [congruence|].
  unfold r_recv. prj. cbn [Z.eqb negb].
  assert (E1 : match ck with Some c0 => Some c0 | None => ck_new (f_ctype f) end = Some c).
  { destruct ck as [c'|]; [congruence|exact Hck]. }
  rewrite E1.
  assert (E2 : negb (ck_typecode c =? f_ctype f) && match ck with Some _ => true | None => false end = false).
  { rewrite Hty, Z.eqb_refl. reflexivity. }
  rewrite E2. rewrite Ech.
  assert (E3 : bytes_eqb (f_ck f) (ck_sum (fold_left ck_add (ch :: chs) c)) = true).
  { apply bytes_eqb_eq. exact Hsum. }
  rewrite E3. cbn [negb].
  eexists. split; [reflexivity|]. prj. split; [|split; [reflexivity|split; [reflexivity|cbn [length]; lia]]].
  constructor; prj.
  - reflexivity.
  - rewrite <- Is. unfold ev_rest, ev_tail. prj. rewrite evs_in_cons, Ech.
    cbn [map app frag_events]. unfold split_evs. cbn [fold_right sp_step fst snd app].
    match goal with |- ?x = _ => destruct x; reflexivity end.
  - exact Hfr.
  - exact Hmore.
  - exists (fold_left ck_add (ch :: chs) c). prj. split; [exact Hrest|reflexivity].
  - rewrite zlen_cons in Ig. lia.
Qed.

(* ================================================================== *)
(* Read                                                                *)
(* ================================================================== *)
Definition read_post (N : Z) (st : rst) (h : list Z) (t : list (list Z)) (n : Z)
           (bs : list Z) (c : Z) (st' : rst) : Prop :=
  exists h', h = bs ++ h' /\ Inv N st' h' t /\
             rs_state st' = rs_state st /\ rs_fin st' = rs_fin st /\
             ((c = 0 /\ zlen bs = n) \/ (c = 12 /\ h' = [] /\ zlen bs < n /\ at_eof st')).

Lemma read_loop_ok N : forall fuel n acc st h t,
  Inv N st h t -> 0 <= n -> (length (rs_in st) < fuel)%nat ->
  exists bs c st', r_read_loop fuel n acc st = Some (acc ++ bs, c, st') /\ read_post N st h t n bs c st'.
Proof.
  induction fuel as [|fuel IH]; intros n acc st h t I Hn Hf; [lia|].
  pose proof I as [Ie Is If Im Ic Ig].
  destruct st as [s e rem cur more inn ck got rel fin]. prj_all. subst e.
  rewrite split_rest in Is. unfold ev_tail in Is. prj_all.
  cbn [r_read_loop]. prj.
  destruct (Z_le_gt_dec n (zlen cur)) as [Hle|Hgt].
  - (* the current chunk satisfies the read *)
    rewrite Z.min_l by lia. replace (n - n =? 0) with true by lia.
    exists (firstn (Z.to_nat n) cur), 0. eexists. split; [reflexivity|].
    exists (skipn (Z.to_nat n) cur ++ fst (split_evs (map New rem ++ evs_in inn))).
    split; [|split; [|split; [reflexivity|split; [reflexivity|]]]].
    + rewrite app_assoc, firstn_skipn. congruence.
    + constructor; prj; try assumption; [reflexivity|].
      rewrite split_rest. unfold ev_tail. prj. congruence.
    + left. split; [reflexivity|]. unfold zlen in *. rewrite firstn_length. lia.
  - (* the current chunk is exhausted *)
    rewrite Z.min_r by lia. replace (Z.to_nat (zlen cur)) with (length cur) by (unfold zlen; lia).
    rewrite firstn_all, skipn_all.
    replace (n - zlen cur =? 0) with false by lia.
    assert (Ieof : forall h2, h = cur ++ h2 ->
              split_evs (map New rem ++ evs_in inn) = (h2, t) ->
              Inv N (mkRst s 0 rem [] more inn ck got rel fin) h2 t).
    { intros h2 _ E. constructor; prj; try assumption; [reflexivity|].
      rewrite split_rest. unfold ev_tail. prj. rewrite E. reflexivity. }
    destruct rem as [|c cs].
    + destruct more.
      * (* fetch the next fragment *)
        cbn [negb].
        assert (I1 : Inv N (mkRst s 0 [] [] true inn ck got rel fin) (fst (split_evs (map New [] ++ evs_in inn))) t).
        { apply Ieof; [congruence|]. destruct (split_evs (map New [] ++ evs_in inn)); cbn [fst snd] in *; congruence. }
        destruct (recv_ok _ _ _ _ I1 eq_refl eq_refl eq_refl) as (st2 & R & I2 & Hs2 & Hf2 & Hl2). prj_all.
        rewrite R. cbn [Z.eqb].
        destruct (IH (n - zlen cur) (acc ++ cur) st2 _ _ I2) as (bs & c & st' & RL & P); [lia|lia|].
        rewrite RL. exists (cur ++ bs), c, st'. split; [rewrite app_assoc; reflexivity|].
        destruct P as (h' & Hh & I' & Hs' & Hf' & Hc).
        exists h'. prj. split; [|split; [exact I'|split; [congruence|split; [congruence|]]]].
        -- rewrite <- app_assoc, <- Hh. congruence.
        -- rewrite zlen_app. destruct Hc as [[Hc1 Hc2]|(Hc1 & Hc2 & Hc3 & Hc4)]; [left|right].
           ++ split; [exact Hc1|lia].
           ++ split; [exact Hc1|]. split; [exact Hc2|]. split; [lia|exact Hc4].
      * (* no more fragments: EOF *)
        cbn [negb]. exists cur, 12. eexists. split; [reflexivity|].
        assert (Ei : inn = []).
        { destruct inn; [reflexivity|]. destruct Im as [_ Im]. discriminate Im. discriminate. }
        subst inn. cbn in Is. exists []. prj.
        split; [rewrite app_nil_r in *; congruence|].
        split; [|split; [reflexivity|split; [reflexivity|]]].
        -- apply Ieof; [rewrite app_nil_r in *; congruence|]. cbn. congruence.
        -- right. split; [reflexivity|]. split; [reflexivity|]. split; [unfold zlen in *; lia|].
           split; prj; [reflexivity|right; reflexivity].
    + (* further chunks in this fragment: EOF of this argument *)
      exists cur, 12. eexists. split; [reflexivity|].
      rewrite split_tail_cons in Is. cbn [fst snd] in Is. exists []. prj.
      split; [rewrite app_nil_r in *; congruence|].
      split; [|split; [reflexivity|split; [reflexivity|]]].
      * apply Ieof; [rewrite app_nil_r in *; congruence|]. rewrite split_tail_cons. congruence.
      * right. split; [reflexivity|]. split; [reflexivity|]. split; [unfold zlen in *; lia|].
        split; prj; [reflexivity|left; discriminate].
Qed.

Lemma read_ok N st h t n :
  Inv N st h t -> is_reading (rs_state st) = true -> 0 <= n ->
  exists bs c st', r_read n st = Some (bs, c, st') /\ read_post N st h t n bs c st'.
Proof.
  intros I Hr Hn. unfold r_read. rewrite (inv_err _ _ _ _ I), Hr. cbn [Z.eqb negb].
  destruct (read_loop_ok N (S (length (rs_in st))) n [] st h t I Hn ltac:(lia)) as (bs & c & st' & R & P).
  exists bs, c, st'. split; [exact R|exact P].
Qed.

Lemma reads_ok N : forall ns st h t,
  Inv N st h t -> is_reading (rs_state st) = true -> Forall (fun n => 0 <= n) ns ->
  exists l h' st', reads ns st = Some (l, st') /\ Forall code_ok l /\ h = data_of l ++ h' /\
                   Inv N st' h' t /\ rs_state st' = rs_state st /\ rs_fin st' = rs_fin st /\
                   (Forall (fun n => 0 < n) ns -> at_eof st \/ zsum ns > zlen h -> at_eof st').
Proof.
  induction ns as [|n ns IH]; intros st h t I Hr Hns.
  - exists [], h, st. cbn [reads]. split; [reflexivity|]. split; [constructor|]. split; [reflexivity|].
    split; [exact I|]. split; [reflexivity|]. split; [reflexivity|].
    intros _ [H|H]; [exact H|]. cbn in H. pose proof (zlen_nonneg h). lia.
  - pose proof (Forall_inv Hns) as Hn. pose proof (Forall_inv_tail Hns) as Hns'. cbv beta in Hn.
    destruct (read_ok N st h t n I Hr Hn) as (bs & c & st1 & R & (h1 & Hh & I1 & Hs1 & Hf1 & Hc)).
    assert (Hr1 : is_reading (rs_state st1) = true) by (rewrite Hs1; exact Hr).
    destruct (IH st1 h1 t I1 Hr1 Hns') as (l & h' & st' & RS & Hl & Hd & I' & Hs' & Hf' & Heof).
    cbn [reads]. rewrite R, RS. exists ((bs, c) :: l), h', st'.
    split; [reflexivity|]. split.
    { constructor; [|exact Hl]. unfold code_ok. cbn [snd]. destruct Hc as [[-> _]|[-> _]]; [left|right]; reflexivity. }
    split.
    { unfold data_of in *. cbn [map fst concat]. rewrite <- app_assoc, <- Hd. exact Hh. }
    split; [exact I'|]. split; [congruence|]. split; [congruence|].
    intros Hpos Hsum. pose proof (Forall_inv_tail Hpos) as Hpos'. apply Heof; [exact Hpos'|].
    destruct Hc as [[_ Hz]|(_ & _ & _ & He)]; [|left; exact He].
    right. destruct Hsum as [He|Hsum].
    + pose proof (at_eof_nil _ _ _ _ I He) as E. rewrite E in Hh. symmetry in Hh.
      apply app_eq_nil in Hh. destruct Hh as [Hb _]. rewrite Hb in Hz.
      pose proof (Forall_inv Hpos) as Hn0. cbv beta in Hn0. change (zlen (@nil Z)) with 0 in Hz. lia.
    + cbn [zsum fold_right] in Hsum. fold (zsum ns) in Hsum. rewrite Hh, zlen_app in Hsum. lia. 
Qed.

(* ================================================================== *)
(* Close                                                               *)
(* ================================================================== *)
Lemma is_err_6 : is_err 6. Proof. split; lia. Qed.
Lemma is_err_4 : is_err 4. Proof. split; lia. Qed.
Lemma is_err_5 : is_err 5. Proof. split; lia. Qed.

Lemma close_next_ok N : forall fuel st h t,
  Inv N st h t -> rs_cur st = [] -> (length (rs_in st) < fuel)%nat ->
  exists c st', r_close_next fuel st = Some (c, st') /\
    ((c = 0 /\ h = [] /\ exists a t', t = a :: t' /\ Inv N st' a t' /\
                                      rs_state st' = rs_state st /\ rs_fin st' = rs_fin st)
     \/ (is_err c /\ rs_err st' = c)) /\
    (rs_rem st <> [] -> c = 0).
Proof.
  induction fuel as [|fuel IH]; intros st h t I Hc Hf; [lia|].
  pose proof I as [Ie Is If Im Ic Ig].
  destruct st as [s e rem cur more inn ck got rel fin]. prj_all. subst e cur.
  rewrite split_rest in Is. unfold ev_tail in Is. prj_all. cbn [app] in Is.
  cbn [r_close_next]. prj.
  destruct rem as [|ch chs].
  - destruct more; cbn [negb].
    + destruct (recv_ok _ _ _ _ I eq_refl eq_refl eq_refl) as (st2 & R & I2 & Hs2 & Hf2 & Hl2). prj_all.
      rewrite R. cbn [Z.eqb negb].
      destruct (zlen (rs_cur st2) >? 0) eqn:Ez.
      * exists 4. eexists. split; [reflexivity|]. split; [|intros H; congruence].
        right. split; [exact is_err_4|reflexivity].
      * assert (Ec : rs_cur st2 = []) by (apply zlen_nil_inv; lia).
        destruct (IH st2 h t I2 Ec ltac:(lia)) as (c & st' & RC & P & _).
        exists c, st'. split; [exact RC|]. split; [|intros H; congruence].
        destruct P as [(P1 & P2 & a & t' & P3 & P4 & P5 & P6)|P]; [left|right; exact P].
        split; [exact P1|]. split; [exact P2|]. exists a, t'. prj.
        split; [exact P3|]. split; [exact P4|]. split; congruence.
    + exists 6. eexists. split; [reflexivity|]. split; [|intros H; congruence].
      right. split; [exact is_err_6|reflexivity].
  - rewrite split_tail_cons in Is. cbn [fst snd] in Is.
    exists 0. eexists. split; [reflexivity|]. split; [|reflexivity].
    left. split; [reflexivity|]. split; [congruence|].
    exists (ch ++ fst (split_evs (map New chs ++ evs_in inn))), (snd (split_evs (map New chs ++ evs_in inn))).
    split; [congruence|]. prj. split; [|split; reflexivity].
    constructor; prj; try assumption; [reflexivity|]. rewrite split_rest. reflexivity.
Qed.

Lemma rs_in_nil_of_more N st h t : Inv N st h t -> rs_more st = false -> rs_in st = [].
Proof.
  intros I Hm. destruct (rs_in st) eqn:E; [reflexivity|].
  pose proof (inv_more _ _ _ _ I) as [_ M]. rewrite E, Hm in M. discriminate M. discriminate.
Qed.

Lemma close_ok N st h t :
  Inv N st h t -> is_reading (rs_state st) = true ->
  exists c st', r_close st = Some (c, st') /\
    ((c = 0 /\ h = [] /\
      (if rs_state st =? c_fragmentingReadInLastArgument then t = [] /\ r_final N st'
       else exists a t', t = a :: t' /\ Inv N st' a t' /\
                         rs_state st' = c_fragmentingReadWaitingForArgument /\ rs_fin st' = rs_fin st))
     \/ (is_err c /\ rs_err st' = c)) /\
    (at_eof st -> ((rs_state st =? c_fragmentingReadInLastArgument) = true <-> t = []) -> c = 0).
Proof.
  intros I Hr. pose proof I as [Ie Is If Im Ic Ig].
  unfold r_close. rewrite Ie, Hr. cbn [Z.eqb negb].
  destruct (zlen (rs_cur st) >? 0) eqn:Ez.
  { exists 4. eexists. split; [reflexivity|]. split; [right; split; [exact is_err_4|reflexivity]|].
    intros [Hc _] _. rewrite Hc in Ez. cbn in Ez. discriminate. }
  assert (Ec : rs_cur st = []) by (apply zlen_nil_inv; lia).
  rewrite split_rest, Ec in Is. unfold ev_tail in Is. cbn [app] in Is.
  destruct (rs_state st =? c_fragmentingReadInLastArgument) eqn:El.
  - destruct (rs_rem st) as [|ch chs] eqn:Er.
    + destruct (rs_more st) eqn:Em.
      * exists 5. eexists. split; [reflexivity|]. split; [right; split; [exact is_err_5|reflexivity]|].
        intros [_ [H|H]] _; congruence.
      * exists 0. eexists. split; [reflexivity|]. split; [|reflexivity].
        pose proof (rs_in_nil_of_more _ _ _ _ I Em) as Ei. rewrite Ei in Is, Ig. cbn in Is.
        left. split; [reflexivity|]. split; [congruence|]. split; [congruence|].
        unfold r_final. prj. split; [reflexivity|]. split; [reflexivity|]. split; [|reflexivity].
        change (zlen (@nil frag)) with 0 in Ig. lia.
    + exists 5. eexists. split; [reflexivity|]. split; [right; split; [exact is_err_5|reflexivity]|].
      intros _ [Hl _]. specialize (Hl eq_refl). rewrite split_tail_cons in Is. cbn [fst snd] in Is. congruence.
  - set (st1 := mkRst c_fragmentingReadWaitingForArgument 0 (rs_rem st) (rs_cur st) (rs_more st) (rs_in st)
                      (rs_ck st) (rs_got st) (rs_rel st) (rs_fin st)).
    assert (I1 : Inv N st1 h t).
    { constructor; unfold st1; prj; try assumption; [reflexivity|].
      exact (inv_split _ _ _ _ I). }
    destruct (close_next_ok N (S (length (rs_in st))) st1 h t I1 Ec ltac:(unfold st1; prj; lia))
      as (c & st' & RC & P & Q).
    exists c, st'. split; [exact RC|]. split.
    + destruct P as [(P1 & P2 & a & t' & P3 & P4 & P5 & P6)|P]; [left|right; exact P].
      split; [exact P1|]. split; [exact P2|]. exists a, t'. split; [exact P3|]. split; [exact P4|].
      unfold st1 in P5, P6. prj_all. split; assumption.
    + intros [_ He] [_ Hl]. apply Q. unfold st1. prj. destruct He as [He|He]; [exact He|].
      pose proof (rs_in_nil_of_more _ _ _ _ I He) as Ei.
      destruct (rs_rem st) eqn:Er; [|discriminate]. exfalso. rewrite Ei in Is. cbn in Is.
      assert (t = []) by congruence. specialize (Hl H). discriminate.
Qed.

(* ================================================================== *)
(* Begin, and one whole argument                                       *)
(* ================================================================== *)
(* between arguments: before the first fragment, or after a Close *)
Definition ready (st : rst) : Prop :=
  (rs_state st = c_fragmentingReadStart /\ rs_cur st = [] /\ rs_rem st = [] /\ rs_more st = true)
  \/ rs_state st = c_fragmentingReadWaitingForArgument.

Definition arg_state (last : bool) : Z :=
  if last then c_fragmentingReadInLastArgument else c_fragmentingReadInArgument.

Lemma begin_ok N st a t last :
  Inv N st a t -> ready st ->
  exists st', r_begin last st = Some (0, st') /\ Inv N st' a t /\
              rs_state st' = arg_state last /\ rs_fin st' = rs_fin st.
Proof.
  intros I Hrd. unfold r_begin. rewrite (inv_err _ _ _ _ I). cbn [Z.eqb negb].
  destruct Hrd as [(Hs & Hc & Hr & Hm)|Hs]; rewrite Hs;
    change (is_reading c_fragmentingReadStart) with false;
    change (is_reading c_fragmentingReadWaitingForArgument) with false;
    change (c_fragmentingReadStart =? c_fragmentingReadComplete) with false;
    change (c_fragmentingReadWaitingForArgument =? c_fragmentingReadComplete) with false;
    change (c_fragmentingReadStart =? c_fragmentingReadStart) with true;
    change (c_fragmentingReadWaitingForArgument =? c_fragmentingReadStart) with false; cbv iota.
  - destruct (recv_ok _ _ _ _ I Hc Hr Hm) as (st2 & R & I2 & Hs2 & Hf2 & _).
    rewrite R. cbn [Z.eqb]. eexists. split; [reflexivity|]. prj. fold (arg_state last).
    split; [|split; [reflexivity|exact Hf2]].
    destruct I2 as [Ie Is If Im Ic Ig]. constructor; prj; try assumption. reflexivity.
  - eexists. split; [reflexivity|]. prj. fold (arg_state last). split; [|split; reflexivity].
    destruct I as [Ie Is If Im Ic Ig]. constructor; prj; try assumption. reflexivity.
Qed.

Lemma is_reading_arg_state last : is_reading (arg_state last) = true.
Proof. destruct last; reflexivity. Qed.

Lemma arg_state_last last : (arg_state last =? c_fragmentingReadInLastArgument) = last.
Proof. destruct last; reflexivity. Qed.

(* what one Begin / reads / Close round does on a state satisfying the invariant *)
Lemma arg_read_ok N last ns st a t :
  Inv N st a t -> ready st -> Forall (fun n => 0 <= n) ns -> (last = true <-> t = []) ->
  exists l cc st', arg_read last ns st = Some (0, l, cc, st') /\ Forall code_ok l /\
    (exists h', a = data_of l ++ h') /\
    ((cc = 0 /\ a = data_of l /\
      (if last then r_final N st'
       else exists a' t', t = a' :: t' /\ Inv N st' a' t' /\ ready st'))
     \/ (is_err cc /\ rs_err st' = cc)) /\
    (Forall (fun n => 0 < n) ns -> zsum ns > zlen a -> cc = 0).
Proof.
  intros I Hrd Hns Hlast. unfold arg_read.
  destruct (begin_ok N st a t last I Hrd) as (st1 & B & I1 & Hs1 & _). rewrite B.
  assert (Hr1 : is_reading (rs_state st1) = true) by (rewrite Hs1; apply is_reading_arg_state).
  destruct (reads_ok N ns st1 a t I1 Hr1 Hns) as (l & h' & st2 & RS & Hl & Hd & I2 & Hs2 & _ & Heof).
  rewrite RS.
  assert (Hr2 : is_reading (rs_state st2) = true) by (rewrite Hs2; exact Hr1).
  destruct (close_ok N st2 h' t I2 Hr2) as (cc & st3 & C & P & Q). rewrite C.
  rewrite Hs2, Hs1, arg_state_last in P, Q.
  exists l, cc, st3. split; [reflexivity|]. split; [exact Hl|]. split; [exists h'; exact Hd|]. split.
  - destruct P as [(P1 & P2 & P3)|P]; [left|right; exact P].
    split; [exact P1|]. split; [rewrite Hd, P2, app_nil_r; reflexivity|].
    destruct last.
    + exact (proj2 P3).
    + destruct P3 as (a' & t' & P4 & P5 & P6 & _). exists a', t'. split; [exact P4|]. split; [exact P5|].
      right. exact P6.
  - intros Hpos Hsum. apply Q; [|exact Hlast]. apply Heof; [exact Hpos|right; exact Hsum].
Qed.

(* once the error is set nothing is done any more *)
Lemma reads_err e : forall ns st, rs_err st = e -> e <> 0 ->
  reads ns st = Some (map (fun _ => ([], e)) ns, st).
Proof.
  induction ns as [|n ns IH]; intros st He Hne; cbn [reads map]; [reflexivity|].
  unfold r_read. rewrite He. replace (negb (e =? 0)) with true by lia. cbv iota.
  rewrite (IH st He Hne). reflexivity.
Qed.

Lemma arg_read_err last ns st e : rs_err st = e -> e <> 0 ->
  arg_read last ns st = Some (e, map (fun _ => ([], e)) ns, e, st).
Proof.
  intros He Hne. unfold arg_read, r_begin. rewrite He. replace (negb (e =? 0)) with true by lia. cbv iota.
  rewrite (reads_err e ns st He Hne). unfold r_close. rewrite He.
  replace (negb (e =? 0)) with true by lia. reflexivity.
Qed.

(* ================================================================== *)
(* The initial state                                                   *)
(* ================================================================== *)
Lemma init_inv fs ck0 a1 a2 a3 :
  wf fs -> ck_new (first_ctype fs) = Some ck0 -> ck_chain ck0 fs ->
  denote (chunks_of fs) = [a1; a2; a3] ->
  Inv (zlen fs) (r_init fs) a1 [a2; a3] /\ ready (r_init fs).
Proof.
  intros [capf [Hne Hfr]] Hck Hchain Hden. split.
  - constructor; unfold r_init; prj.
    + reflexivity.
    + rewrite denote_split in Hden. rewrite split_rest. unfold ev_tail. prj. cbn [map app].
      unfold evs_in. injection Hden as H1 H2. rewrite H1, H2. reflexivity.
    + exact (frames_ok_from_fr_ok _ _ _ Hfr).
    + split; [intros _; exact Hne|reflexivity].
    + exists ck0. prj. split; assumption.
    + lia.
  - left. unfold r_init. prj. repeat split; reflexivity.
Qed.

(* ================================================================== *)
(* reader_eof                                                          *)
(* ================================================================== *)
Theorem reader_eof : forall fs ck0 a1 a2 a3,
  wf fs -> ck_new (first_ctype fs) = Some ck0 -> ck_chain ck0 fs ->
  denote (chunks_of fs) = [a1; a2; a3] ->
  forall ns1 ns2 ns3,
  Forall (fun n => 0 < n) ns1 -> Forall (fun n => 0 < n) ns2 -> Forall (fun n => 0 < n) ns3 ->
  zsum ns1 > zlen a1 -> zsum ns2 > zlen a2 -> zsum ns3 > zlen a3 ->
  exists l1 st1 l2 st2 l3 st3,
    arg_read false ns1 (r_init fs) = Some (0, l1, 0, st1) /\
    arg_read false ns2 st1 = Some (0, l2, 0, st2) /\
    arg_read true ns3 st2 = Some (0, l3, 0, st3) /\
    Forall code_ok l1 /\ Forall code_ok l2 /\ Forall code_ok l3 /\
    data_of l1 = a1 /\ data_of l2 = a2 /\ data_of l3 = a3 /\
    rs_state st3 = c_fragmentingReadComplete /\ rs_fin st3 = true /\
    rs_rel st3 = Z.of_nat (length fs) /\ rs_err st3 = 0.
Proof.
  intros fs ck0 a1 a2 a3 Hwf Hck Hchain Hden ns1 ns2 ns3 Hp1 Hp2 Hp3 Hs1 Hs2 Hs3.
  assert (W : forall ns, Forall (fun n => 0 < n) ns -> Forall (fun n => 0 <= n) ns).
  { intros ns H. eapply Forall_impl; [|exact H]. cbv beta. intros; lia. }
  destruct (init_inv fs ck0 a1 a2 a3 Hwf Hck Hchain Hden) as [I0 R0].
  destruct (arg_read_ok _ false ns1 _ _ _ I0 R0 (W _ Hp1)) as (l1 & cc1 & st1 & A1 & C1 & _ & P1 & Q1).
  { split; discriminate. }
  specialize (Q1 Hp1 Hs1). subst cc1.
  destruct P1 as [(_ & D1 & a' & t' & Et & I1 & R1)|[[E _] _]]; [|congruence].
  injection Et as <- <-.
  destruct (arg_read_ok _ false ns2 _ _ _ I1 R1 (W _ Hp2)) as (l2 & cc2 & st2 & A2 & C2 & _ & P2 & Q2).
  { split; discriminate. }
  specialize (Q2 Hp2 Hs2). subst cc2.
  destruct P2 as [(_ & D2 & a' & t' & Et & I2 & R2)|[[E _] _]]; [|congruence].
  injection Et as <- <-.
  destruct (arg_read_ok _ true ns3 _ _ _ I2 R2 (W _ Hp3)) as (l3 & cc3 & st3 & A3 & C3 & _ & P3 & Q3).
  { split; reflexivity. }
  specialize (Q3 Hp3 Hs3). subst cc3.
  destruct P3 as [(_ & D3 & F1 & F2 & F3 & F4)|[[E _] _]]; [|congruence].
  exists l1, st1, l2, st2, l3, st3.
  repeat (split; [first [assumption | symmetry; assumption]|]). exact F4.
Qed.

(* ================================================================== *)
(* reader_safe                                                         *)
(* ================================================================== *)
Lemma sticky_app_good pre post :
  Forall code_ok pre -> sticky post -> sticky (pre ++ post).
Proof.
  induction pre as [|x pre IH]; intros Hg Hp; cbn [app sticky]; [exact Hp|].
  split.
  - intros [E1 E2]. pose proof (Forall_inv Hg) as [G|G]; congruence.
  - apply IH; [exact (Forall_inv_tail Hg)|exact Hp].
Qed.

Lemma sticky_all_err e l : Forall (fun y => y = ([], e)) l -> sticky l.
Proof.
  induction l as [|x l IH]; intros H; cbn [sticky]; [exact I|].
  pose proof (Forall_inv H) as Hx. pose proof (Forall_inv_tail H) as Hl. cbv beta in Hx. subst x. cbn [snd].
  split; [intros _; exact Hl|exact (IH Hl)].
Qed.

Lemma code_ok_nil0 : code_ok ([], 0). Proof. left. reflexivity. Qed.

Lemma ops_err_all e ns :
  Forall (fun y : list Z * Z => y = ([], e)) (ops_of e (map (fun _ : Z => ([], e)) ns) e).
Proof.
  unfold ops_of. constructor; [reflexivity|]. apply Forall_app. split.
  - apply Forall_forall. intros y Hy. apply in_map_iff in Hy. destruct Hy as (? & <- & _). reflexivity.
  - constructor; [reflexivity|constructor].
Qed.

(* the operations of an argument whose Begin and reads went well *)
Lemma sticky_arg l cc rest :
  Forall code_ok l -> (is_err cc -> Forall (fun y => y = ([], cc)) rest) -> sticky rest ->
  sticky (ops_of 0 l cc ++ rest).
Proof.
  intros Hl Hcc Hr. unfold ops_of.
  change (([], 0) :: l ++ [([], cc)]) with ((([], 0) :: l) ++ [([], cc)]). rewrite <- app_assoc.
  apply sticky_app_good; [constructor; [exact code_ok_nil0|exact Hl]|].
  cbn [app sticky snd]. split; assumption.
Qed.

Lemma not_err_0 : ~ is_err 0. Proof. intros [H _]. apply H. reflexivity. Qed.

Theorem reader_safe : forall fs ck0 a1 a2 a3,
  wf fs -> ck_new (first_ctype fs) = Some ck0 -> ck_chain ck0 fs ->
  denote (chunks_of fs) = [a1; a2; a3] ->
  forall ns1 ns2 ns3,
  Forall (fun n => 0 <= n) ns1 -> Forall (fun n => 0 <= n) ns2 -> Forall (fun n => 0 <= n) ns3 ->
  exists cb1 l1 cc1 st1 cb2 l2 cc2 st2 cb3 l3 cc3 st3,
    (* the run never panics *)
    arg_read false ns1 (r_init fs) = Some (cb1, l1, cc1, st1) /\
    arg_read false ns2 st1 = Some (cb2, l2, cc2, st2) /\
    arg_read true ns3 st2 = Some (cb3, l3, cc3, st3) /\
    (* an argument read without error is the argument that was sent *)
    (arg_ok cb1 l1 cc1 -> data_of l1 = a1) /\
    (arg_ok cb2 l2 cc2 -> data_of l2 = a2) /\
    (arg_ok cb3 l3 cc3 -> data_of l3 = a3) /\
    (* in any case the data handed out for an argument is a prefix of it (never shifted) *)
    (exists r1, a1 = data_of l1 ++ r1) /\ (exists r2, a2 = data_of l2 ++ r2) /\ (exists r3, a3 = data_of l3 ++ r3) /\
    (* errors are sticky: after the first one every later op returns it, without data *)
    sticky (ops_of cb1 l1 cc1 ++ ops_of cb2 l2 cc2 ++ ops_of cb3 l3 cc3) /\
    (* and a run without error ends in the final state, every fragment released *)
    (arg_ok cb1 l1 cc1 -> arg_ok cb2 l2 cc2 -> arg_ok cb3 l3 cc3 -> r_final (Z.of_nat (length fs)) st3).
Proof.
  intros fs ck0 a1 a2 a3 Hwf Hck Hchain Hden ns1 ns2 ns3 Hp1 Hp2 Hp3.
  destruct (init_inv fs ck0 a1 a2 a3 Hwf Hck Hchain Hden) as [I0 R0].
  destruct (arg_read_ok _ false ns1 _ _ _ I0 R0 Hp1) as (l1 & cc1 & st1 & A1 & C1 & X1 & P1 & _).
  { split; discriminate. }
  destruct P1 as [(-> & D1 & a' & t' & Et & I1 & R1)|[E1 S1]].
  2:{ (* Close of argument 1 fails *)
    assert (Hne : cc1 <> 0) by (destruct E1; assumption).
    pose proof (arg_read_err false ns2 st1 cc1 S1 Hne) as A2.
    pose proof (arg_read_err true ns3 st1 cc1 S1 Hne) as A3.
    do 12 eexists. split; [exact A1|]. split; [exact A2|]. split; [exact A3|].
    split; [intros (_ & _ & H); congruence|].
    split; [intros (H & _); congruence|]. split; [intros (H & _); congruence|].
    split; [exact X1|].
    assert (Dn : forall ns, data_of (map (fun _ : Z => (@nil Z, cc1)) ns) = []).
    { induction ns as [|? ? IHn]; [reflexivity|]. unfold data_of in *. cbn [map fst concat app]. exact IHn. }
    split; [exists a2; rewrite Dn; reflexivity|]. split; [exists a3; rewrite Dn; reflexivity|].
    split; [|intros (_ & _ & H); congruence].
    apply sticky_arg; [exact C1| |].
    - intros _. apply Forall_app. split; apply ops_err_all.
    - apply (sticky_all_err cc1). apply Forall_app. split; apply ops_err_all. }
  injection Et as <- <-.
  destruct (arg_read_ok _ false ns2 _ _ _ I1 R1 Hp2) as (l2 & cc2 & st2 & A2 & C2 & X2 & P2 & _).
  { split; discriminate. }
  destruct P2 as [(-> & D2 & a' & t' & Et & I2 & R2)|[E2 S2]].
  2:{ (* Close of argument 2 fails *)
    assert (Hne : cc2 <> 0) by (destruct E2; assumption).
    pose proof (arg_read_err true ns3 st2 cc2 S2 Hne) as A3.
    do 12 eexists. split; [exact A1|]. split; [exact A2|]. split; [exact A3|].
    split; [intros _; symmetry; exact D1|].
    split; [intros (_ & _ & H); congruence|]. split; [intros (H & _); congruence|].
    split; [exact X1|]. split; [exact X2|].
    assert (Dn : forall ns, data_of (map (fun _ : Z => (@nil Z, cc2)) ns) = []).
    { induction ns as [|? ? IHn]; [reflexivity|]. unfold data_of in *. cbn [map fst concat app]. exact IHn. }
    split; [exists a3; rewrite Dn; reflexivity|].
    split; [|intros _ (_ & _ & H); congruence].
    apply sticky_arg; [exact C1|intros H; destruct (not_err_0 H)|].
    apply sticky_arg; [exact C2| |].
    - intros _. apply ops_err_all.
    - apply (sticky_all_err cc2). apply ops_err_all. }
  injection Et as <- <-.
  destruct (arg_read_ok _ true ns3 _ _ _ I2 R2 Hp3) as (l3 & cc3 & st3 & A3 & C3 & X3 & P3 & _).
  { split; reflexivity. }
  do 12 eexists. split; [exact A1|]. split; [exact A2|]. split; [exact A3|].
  split; [intros _; symmetry; exact D1|]. split; [intros _; symmetry; exact D2|].
  split.
  { intros (_ & _ & H). destruct P3 as [(_ & D3 & _)|[[E _] _]]; [symmetry; exact D3|congruence]. }
  split; [exact X1|]. split; [exact X2|]. split; [exact X3|].
  split.
  - apply sticky_arg; [exact C1|intros H; destruct (not_err_0 H)|].
    apply sticky_arg; [exact C2|intros H; destruct (not_err_0 H)|].
    rewrite <- (app_nil_r (ops_of 0 l3 cc3)).
    apply sticky_arg; [exact C3|intros _; constructor|exact I].
  - intros _ _ (_ & _ & H). destruct P3 as [(_ & _ & F)|[[E _] _]]; [exact F|congruence].
Qed.

(* ================================================================== *)
(* reader_helper                                                       *)
(* ================================================================== *)
Definition ev_payload (e : chunk_ev) : list Z := match e with Cont c => c | New c => c end.
Definition evsize (evs : list chunk_ev) : Z := fold_right (fun e a => zlen (ev_payload e) + a) 0 evs.
Definition lsum (t : list (list Z)) : Z := fold_right (fun c a => zlen c + a) 0 t.

Lemma split_size evs : zlen (fst (split_evs evs)) + lsum (snd (split_evs evs)) = evsize evs.
Proof.
  induction evs as [|e evs IH]; [reflexivity|].
  cbn [split_evs fold_right evsize]. fold (split_evs evs). fold (evsize evs).
  destruct e as [c|c]; cbn [sp_step fst snd ev_payload lsum fold_right]; fold (lsum (snd (split_evs evs)));
    rewrite ?zlen_app; change (zlen (@nil Z)) with 0; lia.
Qed.

Lemma evsize_app a b : evsize (a ++ b) = evsize a + evsize b.
Proof. induction a as [|e a IH]; cbn [app evsize fold_right]; [reflexivity|]. fold (evsize (a ++ b)). fold (evsize a). lia. Qed.

Lemma evsize_new cs : evsize (map New cs) = lsum cs.
Proof. induction cs as [|c cs IH]; [reflexivity|]. cbn [map evsize fold_right lsum ev_payload]. fold (evsize (map New cs)). fold (lsum cs). lia. Qed.

Lemma evsize_frag cs : evsize (frag_events cs) = lsum cs.
Proof.
  destruct cs as [|c cs]; [reflexivity|]. cbn [frag_events evsize fold_right ev_payload lsum].
  fold (evsize (map New cs)). fold (lsum cs). rewrite evsize_new. reflexivity.
Qed.

Lemma evsize_in fs : evsize (evs_in fs) = fold_right (fun f a => lsum (f_chunks f) + a) 0 fs.
Proof.
  induction fs as [|f r IH]; [reflexivity|]. rewrite evs_in_cons, evsize_app, evsize_frag, IH. reflexivity.
Qed.

Lemma total_bytes_ge N st h t : Inv N st h t -> zlen h <= total_bytes st.
Proof.
  intros I. pose proof (split_size (ev_rest st)) as S. rewrite (inv_split _ _ _ _ I) in S. cbn [fst snd] in S.
  assert (E : evsize (ev_rest st) = total_bytes st).
  { unfold ev_rest, ev_tail, total_bytes. cbn [evsize fold_right ev_payload].
    fold (evsize (map New (rs_rem st) ++ evs_in (rs_in st))).
    rewrite evsize_app, evsize_new, evsize_in. unfold lsum. lia. }
  assert (L : forall t0, 0 <= lsum t0).
  { induction t0 as [|c t0 IHt]; cbn [lsum fold_right]; [lia|]. fold (lsum t0). pose proof (zlen_nonneg c). lia. }
  pose proof (L t). lia.
Qed.

Lemma readall_ok N bufsz : 0 < bufsz -> forall fuel acc st h t,
  Inv N st h t -> is_reading (rs_state st) = true -> (Z.to_nat (zlen h) < fuel)%nat ->
  exists st', r_readall fuel bufsz acc st = Some (acc ++ h, 0, st') /\ Inv N st' [] t /\ at_eof st' /\
              rs_state st' = rs_state st.
Proof.
  intros Hb. induction fuel as [|fuel IH]; intros acc st h t I Hr Hf; [lia|].
  cbn [r_readall].
  destruct (read_ok N st h t bufsz I Hr ltac:(lia)) as (bs & c & st1 & R & (h1 & Hh & I1 & Hs1 & _ & Hc)).
  rewrite R. destruct Hc as [[-> Hz]|(-> & -> & _ & He)].
  - cbn [Z.eqb].
    destruct (IH (acc ++ bs) st1 h1 t I1 ltac:(congruence)) as (st' & RA & I' & E' & Hs').
    { rewrite Hh, zlen_app in Hf. pose proof (zlen_nonneg h1). lia. }
    exists st'. rewrite RA, Hh, app_assoc. split; [reflexivity|]. split; [exact I'|]. split; [exact E'|congruence].
  - cbn [Z.eqb]. rewrite app_nil_r in Hh. subst h. exists st1.
    split; [reflexivity|]. split; [exact I1|]. split; [exact He|exact Hs1].
Qed.

Lemma helper_ok N last bufsz st h t :
  0 < bufsz -> Inv N st h t -> rs_state st = arg_state last -> (last = true <-> t = []) ->
  exists st', r_helper_read bufsz st = Some (h, 0, st') /\
              (if last then r_final N st'
               else exists a' t', t = a' :: t' /\ Inv N st' a' t' /\ ready st').
Proof.
  intros Hb I Hs Hlast.
  assert (Hr : is_reading (rs_state st) = true) by (rewrite Hs; apply is_reading_arg_state).
  unfold r_helper_read.
  destruct (readall_ok N bufsz Hb (S (Z.to_nat (total_bytes st)) + length (rs_in st) + 2) [] st h t I Hr)
    as (st1 & RA & I1 & E1 & Hs1).
  { pose proof (total_bytes_ge _ _ _ _ I). lia. }
  rewrite RA. cbn [app Z.eqb negb].
  assert (Hr1 : is_reading (rs_state st1) = true) by congruence.
  destruct (read_ok N st1 [] t 128 I1 Hr1 ltac:(lia)) as (bs & c & st2 & R & (h2 & Hh & I2 & Hs2 & _ & Hc)).
  rewrite R. symmetry in Hh. apply app_eq_nil in Hh. destruct Hh as [-> ->].
  destruct Hc as [[_ Hz]|(-> & _ & _ & E2)]; [cbn in Hz; lia|].
  change (zlen (@nil Z) >? 0) with false. cbn [Z.eqb negb andb].
  assert (Hr2 : is_reading (rs_state st2) = true) by congruence.
  destruct (close_ok N st2 [] t I2 Hr2) as (cc & st3 & C & P & Q).
  rewrite Hs2, Hs1, Hs, arg_state_last in P, Q.
  specialize (Q E2 Hlast). subst cc. rewrite C. exists st3. split; [reflexivity|].
  destruct P as [(_ & _ & P3)|[[E _] _]]; [|congruence].
  destruct last.
  - exact (proj2 P3).
  - destruct P3 as (a' & t' & P4 & P5 & P6 & _). exists a', t'. split; [exact P4|]. split; [exact P5|].
    right. exact P6.
Qed.

Lemma arg_helper_ok N last bufsz st a t :
  0 < bufsz -> Inv N st a t -> ready st -> (last = true <-> t = []) ->
  exists st', arg_helper last bufsz st = Some (0, a, 0, st') /\
              (if last then r_final N st'
               else exists a' t', t = a' :: t' /\ Inv N st' a' t' /\ ready st').
Proof.
  intros Hb I Hrd Hlast. unfold arg_helper.
  destruct (begin_ok N st a t last I Hrd) as (st1 & B & I1 & Hs1 & _). rewrite B.
  destruct (helper_ok N last bufsz st1 a t Hb I1 Hs1 Hlast) as (st' & H & P).
  rewrite H. exists st'. split; [reflexivity|exact P].
Qed.

Theorem reader_helper : forall fs ck0 a1 a2 a3,
  wf fs -> ck_new (first_ctype fs) = Some ck0 -> ck_chain ck0 fs ->
  denote (chunks_of fs) = [a1; a2; a3] ->
  forall n1 n2 n3, 0 < n1 -> 0 < n2 -> 0 < n3 ->
  exists st1 st2 st3,
    arg_helper false n1 (r_init fs) = Some (0, a1, 0, st1) /\
    arg_helper false n2 st1 = Some (0, a2, 0, st2) /\
    arg_helper true n3 st2 = Some (0, a3, 0, st3) /\
    rs_state st3 = c_fragmentingReadComplete /\ rs_fin st3 = true /\
    rs_rel st3 = Z.of_nat (length fs) /\ rs_err st3 = 0.
Proof.
  intros fs ck0 a1 a2 a3 Hwf Hck Hchain Hden n1 n2 n3 H1 H2 H3.
  destruct (init_inv fs ck0 a1 a2 a3 Hwf Hck Hchain Hden) as [I0 R0].
  destruct (arg_helper_ok _ false n1 _ _ _ H1 I0 R0) as (st1 & A1 & a' & t' & Et & I1 & R1).
  { split; discriminate. }
  injection Et as <- <-.
  destruct (arg_helper_ok _ false n2 _ _ _ H2 I1 R1) as (st2 & A2 & a' & t' & Et & I2 & R2).
  { split; discriminate. }
  injection Et as <- <-.
  destruct (arg_helper_ok _ true n3 _ _ _ H3 I2 R2) as (st3 & A3 & F1 & F2 & F3 & F4).
  { split; reflexivity. }
  exists st1, st2, st3. repeat (split; [assumption|]). exact F4.
Qed.

(* ================================================================== *)
(* The same runs through [r_run] of Model/FragWire.v (the harness entry point) *)
(* ================================================================== *)
Definition arg_rops (last : bool) (ns : list Z) : list rop := RBegin last :: map RRead ns ++ [RClose].
Definition reads_obs (l : list (list Z * Z)) : list Z := flat_map (fun x => snd x :: put_bytes (fst x)) l.
Definition arg_obs (cb : Z) (l : list (list Z * Z)) (cc : Z) : list Z := cb :: reads_obs l ++ [cc].

Lemma r_run_reads : forall ns rest st acc,
  r_run (map RRead ns ++ rest) st acc =
  match reads ns st with
  | None => None
  | Some (l, st') => r_run rest st' (acc ++ reads_obs l)
  end.
Proof.
  induction ns as [|n ns IH]; intros rest st acc; cbn [map app reads].
  - unfold reads_obs. cbn [flat_map]. rewrite app_nil_r. reflexivity.
  - cbn [r_run]. destruct (r_read n st) as [[[bs c] st1]|]; [|reflexivity].
    rewrite IH. destruct (reads ns st1) as [[l st2]|]; [|reflexivity].
    unfold reads_obs. cbn [flat_map fst snd]. rewrite <- app_assoc. reflexivity.
Qed.

Lemma r_run_arg last ns rest st acc :
  r_run (arg_rops last ns ++ rest) st acc =
  match arg_read last ns st with
  | None => None
  | Some (cb, l, cc, st') => r_run rest st' (acc ++ arg_obs cb l cc)
  end.
Proof.
  unfold arg_rops, arg_read. cbn [app r_run].
  destruct (r_begin last st) as [[cb st1]|]; [|reflexivity].
  rewrite <- app_assoc, r_run_reads.
  destruct (reads ns st1) as [[l st2]|]; [|reflexivity].
  cbn [app r_run]. destruct (r_close st2) as [[cc st3]|]; [|reflexivity].
  unfold arg_obs. cbn [app]. rewrite <- !app_assoc. reflexivity.
Qed.

Corollary reader_eof_run : forall fs ck0 a1 a2 a3,
  wf fs -> ck_new (first_ctype fs) = Some ck0 -> ck_chain ck0 fs ->
  denote (chunks_of fs) = [a1; a2; a3] ->
  forall ns1 ns2 ns3,
  Forall (fun n => 0 < n) ns1 -> Forall (fun n => 0 < n) ns2 -> Forall (fun n => 0 < n) ns3 ->
  zsum ns1 > zlen a1 -> zsum ns2 > zlen a2 -> zsum ns3 > zlen a3 ->
  exists l1 l2 l3 st,
    r_run (arg_rops false ns1 ++ arg_rops false ns2 ++ arg_rops true ns3) (r_init fs) []
      = Some (arg_obs 0 l1 0 ++ arg_obs 0 l2 0 ++ arg_obs 0 l3 0, st) /\
    Forall code_ok l1 /\ Forall code_ok l2 /\ Forall code_ok l3 /\
    data_of l1 = a1 /\ data_of l2 = a2 /\ data_of l3 = a3 /\
    r_final (Z.of_nat (length fs)) st.
Proof.
  intros fs ck0 a1 a2 a3 Hwf Hck Hchain Hden ns1 ns2 ns3 Hp1 Hp2 Hp3 Hs1 Hs2 Hs3.
  destruct (reader_eof fs ck0 a1 a2 a3 Hwf Hck Hchain Hden ns1 ns2 ns3 Hp1 Hp2 Hp3 Hs1 Hs2 Hs3)
    as (l1 & st1 & l2 & st2 & l3 & st3 & A1 & A2 & A3 & C1 & C2 & C3 & D1 & D2 & D3 & F1 & F2 & F3 & F4).
  exists l1, l2, l3, st3. split.
  - rewrite r_run_arg, A1, r_run_arg, A2.
    rewrite <- (app_nil_r (arg_rops true ns3)), r_run_arg, A3. cbn [r_run app].
    rewrite <- app_assoc. reflexivity.
  - repeat (split; [assumption|]). unfold r_final. repeat split; assumption.
Qed.

Corollary reader_helper_run : forall fs ck0 a1 a2 a3,
  wf fs -> ck_new (first_ctype fs) = Some ck0 -> ck_chain ck0 fs ->
  denote (chunks_of fs) = [a1; a2; a3] ->
  forall n1 n2 n3, 0 < n1 -> 0 < n2 -> 0 < n3 ->
  exists st,
    r_run [RBegin false; RHelper n1; RBegin false; RHelper n2; RBegin true; RHelper n3] (r_init fs) []
      = Some ([0] ++ 0 :: put_bytes a1 ++ [0] ++ 0 :: put_bytes a2 ++ [0] ++ 0 :: put_bytes a3, st) /\
    r_final (Z.of_nat (length fs)) st.
Proof.
  intros fs ck0 a1 a2 a3 Hwf Hck Hchain Hden n1 n2 n3 H1 H2 H3.
  destruct (reader_helper fs ck0 a1 a2 a3 Hwf Hck Hchain Hden n1 n2 n3 H1 H2 H3)
    as (st1 & st2 & st3 & A1 & A2 & A3 & F1 & F2 & F3 & F4).
  exists st3. split; [|unfold r_final; repeat split; assumption].
  unfold arg_helper in A1, A2, A3. cbn [r_run].
  destruct (r_begin false (r_init fs)) as [[cb1 s1]|]; [|discriminate].
  destruct (r_helper_read n1 s1) as [[[b1 c1] s1']|]; [|discriminate].
  injection A1 as -> -> -> ->.
  destruct (r_begin false st1) as [[cb2 s2]|]; [|discriminate].
  destruct (r_helper_read n2 s2) as [[[b2 c2] s2']|]; [|discriminate].
  injection A2 as -> -> -> ->.
  destruct (r_begin true st2) as [[cb3 s3]|]; [|discriminate].
  destruct (r_helper_read n3 s3) as [[[b3 c3] s3']|]; [|discriminate].
  injection A3 as -> -> -> ->.
  cbn [app]. rewrite <- !app_assoc. reflexivity.
Qed.

Corollary reader_safe_run : forall fs ck0 a1 a2 a3,
  wf fs -> ck_new (first_ctype fs) = Some ck0 -> ck_chain ck0 fs ->
  denote (chunks_of fs) = [a1; a2; a3] ->
  forall ns1 ns2 ns3,
  Forall (fun n => 0 <= n) ns1 -> Forall (fun n => 0 <= n) ns2 -> Forall (fun n => 0 <= n) ns3 ->
  exists cb1 l1 cc1 cb2 l2 cc2 cb3 l3 cc3 st,
    r_run (arg_rops false ns1 ++ arg_rops false ns2 ++ arg_rops true ns3) (r_init fs) []
      = Some (arg_obs cb1 l1 cc1 ++ arg_obs cb2 l2 cc2 ++ arg_obs cb3 l3 cc3, st) /\
    (arg_ok cb1 l1 cc1 -> data_of l1 = a1) /\
    (arg_ok cb2 l2 cc2 -> data_of l2 = a2) /\
    (arg_ok cb3 l3 cc3 -> data_of l3 = a3) /\
    sticky (ops_of cb1 l1 cc1 ++ ops_of cb2 l2 cc2 ++ ops_of cb3 l3 cc3).
Proof.
  intros fs ck0 a1 a2 a3 Hwf Hck Hchain Hden ns1 ns2 ns3 Hp1 Hp2 Hp3.
  destruct (reader_safe fs ck0 a1 a2 a3 Hwf Hck Hchain Hden ns1 ns2 ns3 Hp1 Hp2 Hp3)
    as (cb1 & l1 & cc1 & st1 & cb2 & l2 & cc2 & st2 & cb3 & l3 & cc3 & st3 &
        A1 & A2 & A3 & G1 & G2 & G3 & _ & _ & _ & S & _).
  exists cb1, l1, cc1, cb2, l2, cc2, cb3, l3, cc3, st3. split.
  - rewrite r_run_arg, A1, r_run_arg, A2.
    rewrite <- (app_nil_r (arg_rops true ns3)), r_run_arg, A3. cbn [r_run app].
    rewrite <- app_assoc. reflexivity.
  - repeat (split; [assumption|]). exact S.
Qed.

(* ================================================================== *)
(* Non-vacuity: the premises are satisfiable, for every chunk layout and checksum *)
(* ================================================================== *)
(* fragments with the given more-flags and chunks, checksummed the way the writer does *)
Fixpoint seal (c : ckst) (l : list (bool * list (list Z))) : list frag :=
  match l with
  | [] => []
  | (m, cs) :: r => let c' := fold_left ck_add cs c in
                    mkFrag m (ck_typecode c) (ck_sum c') cs :: seal c' r
  end.

Lemma seal_chain : forall l c, ck_chain c (seal c l).
Proof.
  induction l as [|[m cs] r IH]; intros c; cbn [seal ck_chain f_ck f_ctype f_chunks]; [exact I|].
  split; [reflexivity|]. split; [reflexivity|apply IH].
Qed.

Definition ex_layout : list (bool * list (list Z)) :=
  [(true, [[1;2]; [3]]); (true, [[4]]); (false, [[]; [5;6]])].
Definition ex_fs : list frag := seal (mkCk 0 0) ex_layout.        (* no checksum *)
Definition ex_fs_crc : list frag := seal (mkCk 1 0) ex_layout.    (* crc32 *)
Definition ex_fs_crcc : list frag := seal (mkCk 3 0) ex_layout.   (* crc32c *)

Ltac ok_tac :=
  repeat match goal with
         | |- _ /\ _ => split
         | |- _ <-> _ => split; intros
         | |- _ <> _ => discriminate
         | |- true = true => reflexivity
         | |- True => exact I
         | H : false = true |- _ => discriminate H
         | H : [] <> [] |- _ => exfalso; apply H; reflexivity
         | |- _ <= _ => vm_compute; discriminate
         end.

Lemma ex_premises c : In c [mkCk 0 0; mkCk 1 0; mkCk 3 0] ->
  wf (seal c ex_layout) /\ ck_new (first_ctype (seal c ex_layout)) = Some c /\
  ck_chain c (seal c ex_layout) /\
  denote (chunks_of (seal c ex_layout)) = [[1;2]; [3;4]; [5;6]].
Proof.
  intros Hc. split; [|split; [|split; [apply seal_chain|reflexivity]]].
  - exists (fun _ => 100). unfold frames_ok.
    cbn [seal ex_layout frames_ok_from f_chunks f_more]. ok_tac.
  - cbn in Hc. destruct Hc as [<-|[<-|[<-|[]]]]; reflexivity.
Qed.

Definition run3 (ns1 ns2 ns3 : list Z) (fs : list frag) :=
  match arg_read false ns1 (r_init fs) with
  | None => None
  | Some (cb1, l1, cc1, st1) =>
    match arg_read false ns2 st1 with
    | None => None
    | Some (cb2, l2, cc2, st2) =>
      match arg_read true ns3 st2 with
      | None => None
      | Some (cb3, l3, cc3, st3) =>
          Some ((cb1, l1, cc1), (cb2, l2, cc2), (cb3, l3, cc3), (rs_state st3, rs_err st3, rs_rel st3, rs_fin st3))
      end
    end
  end.

(* reads past EOF *)
Example ex_run_eof : run3 [1;5] [3] [1;1;1] ex_fs_crc =
  Some ((0, [([1], 0); ([2], 12)], 0), (0, [([3;4], 12)], 0), (0, [([5], 0); ([6], 0); ([], 12)], 0), (4, 0, 3, true)).
Proof. vm_compute. reflexivity. Qed.

(* exact-length reads: Close has to fetch fragments itself (its case 4) and still lands on
   the right chunk *)
Example ex_run_exact : run3 [2] [2] [2] ex_fs_crcc =
  Some ((0, [([1;2], 0)], 0), (0, [([3;4], 0)], 0), (0, [([5;6], 0)], 0), (4, 0, 3, true)).
Proof. vm_compute. reflexivity. Qed.

(* a short read: Close reports errMoreDataInArgument and everything after it fails *)
Example ex_run_short : run3 [2] [1] [2;7] ex_fs =
  Some ((0, [([1;2], 0)], 0), (0, [([3], 0)], 4), (4, [([], 4); ([], 4)], 4), (3, 4, 1, false)).
Proof. vm_compute. reflexivity. Qed.

(* A limitation that reader_safe permits (an error, never wrong data): when the LAST
   argument is read with exact-length reads and the message ends with a fragment that
   carries only the empty continuation chunk (the writer produces it on Flush followed by
   Close), Close returns errExpectedMoreArguments (5) although all data was delivered.
   Reading up to EOF (reader_eof / reader_helper) avoids it. *)
Definition ex_tail_layout : list (bool * list (list Z)) := [(true, [[1]; [2]; [3]]); (false, [[]])].
Example ex_last_exact_close :
  denote (chunks_of (seal (mkCk 0 0) ex_tail_layout)) = [[1]; [2]; [3]] /\
  run3 [1] [1] [1] (seal (mkCk 0 0) ex_tail_layout) =
    Some ((0, [([1], 0)], 0), (0, [([2], 0)], 0), (0, [([3], 0)], 5), (2, 5, 0, false)) /\
  run3 [1] [1] [1;1] (seal (mkCk 0 0) ex_tail_layout) =
    Some ((0, [([1], 0)], 0), (0, [([2], 0)], 0), (0, [([3], 0); ([], 12)], 0), (4, 0, 2, true)).
Proof. vm_compute. repeat split; reflexivity. Qed.

Print Assumptions reader_eof.
Print Assumptions reader_helper.
Print Assumptions reader_safe.
Print Assumptions reader_eof_run.
Print Assumptions reader_helper_run.
Print Assumptions reader_safe_run.
