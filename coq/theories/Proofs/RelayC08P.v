(* Corollaries that package the relay lemmas in the form stated in Props/C08.v. *)
From Coq Require Import ZArith List Bool Lia.
From Verif Require Import Base.Wrap Base.Bytes Gen.GenConsts Gen.GenFrame Gen.GenRelayFwd
  Model.TypedBuf Model.Messages Model.Crc Model.RelayLazy Model.RelayAppend Model.RelayFwd
  Model.Frag Model.FragWire Spec.RelaySpec Proofs.RelayFwdP Proofs.RelayInvP.
Import ListNotations.
Local Open Scope Z_scope.

Lemma ttl_clamp_bounds : forall maxT p, max_ok maxT -> bytes_ok p = true -> 5 <= zlen p ->
  lazy_ttl_ms (clamp_ttl maxT p) = Z.min (lazy_ttl_ms p) (Z.quot maxT ms_ns) /\
  lazy_ttl_ms (clamp_ttl maxT p) <= lazy_ttl_ms p /\
  lazy_ttl_ms (clamp_ttl maxT p) * ms_ns <= maxT.
Proof.
  intros maxT p Hm Hb Hl. rewrite (clamp_ttl_spec maxT p Hm Hb Hl), !lazy_ttl_is_spec.
  pose proof (max_ok_range _ Hm) as Hr. unfold max_ok, ms_ns in *.
  assert (HM : 0 <= Z.quot maxT 1000000 < 2 ^ 32) by (change (2 ^ 32) with 4294967296; lia).
  rewrite (sp_clamp_ttl _ p HM Hb Hl). rewrite !(lazy_ttl_is_spec p).
  split; [reflexivity|]. split; [lia|].
  rewrite Z.quot_div_nonneg in * by lia.
  pose proof (Z.mul_div_le maxT 1000000 ltac:(lia)). lia.
Qed.

Lemma remap_injective : forall maxT pc cnt0 ls outs st, (forall c, 0 <= cnt0 c) ->
  run maxT pc ls (init_state cnt0) = Some (outs, st) -> (forall c, st_count st c < 2 ^ 32) ->
  (forall c1 id1 it1 c2 id2 it2, st_out st c1 id1 = Some it1 -> st_out st c2 id2 = Some it2 ->
     it_dest it1 = it_dest it2 -> it_remap it1 = it_remap it2 -> c1 = c2 /\ id1 = id2) /\
  (forall d k, st_own st d k = true -> st_in st d k = None) /\
  (forall c id it, st_out st c id = Some it ->
     match st_in st (it_dest it) (it_remap it) with
     | None => True
     | Some it' => it_remap it' = id /\ it_dest it' = c
     end).
Proof.
  intros maxT pc cnt0 ls outs st H0 R B. destruct (run_inv maxT pc cnt0 ls outs st H0 R B).
  split; [assumption|]. split; assumption.
Qed.

Lemma fresh_id : forall maxT pc cnt0 ls outs st d, (forall c, 0 <= cnt0 c) ->
  run maxT pc ls (init_state cnt0) = Some (outs, st) -> (forall c, st_count st c < 2 ^ 32) ->
  st_count st d + 1 < 2 ^ 32 ->
  let k := fst (alloc_id st d) in
  k = st_count st d + 1 /\ st_in st d k = None /\ st_own st d k = false /\
  (forall c id it, st_out st c id = Some it -> it_dest it = d -> it_remap it <> k).
Proof.
  intros maxT pc cnt0 ls outs st d H0 R B Hd. apply alloc_fresh; [|exact Hd].
  exact (run_inv maxT pc cnt0 ls outs st H0 R B).
Qed.


(* a protocol-valid first fragment whose arg1 continues in the next frame *)
Definition tiny_first : list Z :=
  [1] ++ [0;0;3;232] ++ repeat 0 25 ++ [1; 115] ++ [0] ++ [0] ++ [0;2; 97;98].

Lemma tiny_frame_dropped : exists p h,
  bytes_ok p = true /\
  (exists f, parse_frag_payload c_messageTypeCallReq p = (0, f) /\ f_more f = true /\ f_chunks f = [[97; 98]]) /\
  fst (lazy_callreq p) <> 0 /\
  fh_type h = c_messageTypeCallReq /\
  (exists st', step 120000000000 false (init_state (fun _ => 1)) (LFrame 0%nat h p (HDst 1%nat [])) = Some ([], st')) /\
  (exists o ss', spec_step 120000 (mkSS [] (fun _ => 1)) (LFrame 0%nat h p (HDst 1%nat [])) = Some ([o], ss')).
Proof.
  exists tiny_first, (mkFH (16 + zlen tiny_first) 3 0 7).
  split; [vm_compute; reflexivity|].
  split; [eexists; split; [vm_compute; reflexivity|split; reflexivity]|].
  split; [vm_compute; discriminate|].
  split; [reflexivity|].
  split; [eexists; vm_compute; reflexivity|].
  eexists. eexists. vm_compute. reflexivity.
Qed.
