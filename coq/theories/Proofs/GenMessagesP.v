(* Agreement of the REGENERATED message codecs (Gen/GenMessages.v, translated from
   messages.go / tracing.go / frame.go on every run, loops included) with the hand-written
   model Model/Messages.v.  Built on the typed-buffer agreement (Proofs/GenTypedBufP.v):
   the generated message code calls the generated buffer primitives. *)
From Coq Require Import ZArith List Bool Lia.
From Verif Require Import Base.Wrap Base.Bytes Base.GoSem Gen.GenConsts Gen.GenTypedBuf Gen.GenMessages
  Model.TypedBuf Model.Messages Proofs.GenTypedBufP.
Import ListNotations.
Local Open Scope Z_scope.

(* ================= views of the message structs ================= *)
Definition absSpan (s : Span) : span := mkSpan (Span_spanID s) (Span_parentID s) (Span_traceID s) (Span_flags s).
Definition absCallReq (m : callReq) : callreq :=
  mkCallReq (callReq_TimeToLive m) (absSpan (callReq_Tracing m)) (callReq_Service m) (callReq_Headers m).
Definition absCallRes (m : callRes) : callres :=
  mkCallRes (callRes_ResponseCode m) (absSpan (callRes_Tracing m)) (callRes_Headers m).
Definition absError (m : errorMessage) : errmsg :=
  mkErr (errorMessage_errCode m) (absSpan (errorMessage_tracing m)) (errorMessage_message m).
Definition absCancel (m : cancelMessage) : cancelmsg :=
  mkCancel (cancelMessage_ttl m) (absSpan (cancelMessage_tracing m)) (cancelMessage_message m).
Definition absInit (m : initMessage) : initmsg := mkInit (initMessage_Version m) (initMessage_initParams m).
Definition absFH (h : FrameHeader) : fheader :=
  mkFH (FrameHeader_size h) (FrameHeader_messageType h) (FrameHeader_reserved1 h) (FrameHeader_ID h).

(* ================= writers ================= *)
(* a generated write method returning (w.Err(), w): no panic, well-formed, the view of the
   new buffer is the model writer applied to the view of the old one, and the returned error
   is the buffer's error *)
Definition stepWE (gen : option (Z * WriteBuffer)) (g : WriteBuffer) (m : wbuf -> wbuf) : Prop :=
  exists e g', gen = Some (e, g') /\ wfW g' /\ absW g' = m (absW g) /\ abs_werr e = werr (absW g').

Lemma stepW_err g' : wfW g' -> exists e, WriteBuffer_Err g' = Some e /\ abs_werr e = werr (absW g').
Proof. intros _. eexists. split; reflexivity. Qed.

Lemma Span_write_agrees s g : wfW g -> 0 <= Span_flags s < 256 ->
  stepWE (Span_write s g) g (w_span (absSpan s)).
Proof.
  intros W Hf. unfold Span_write.
  destruct (WriteUint64_agrees g (Span_spanID s) W) as (g1 & E1 & W1 & A1). rewrite E1.
  destruct (WriteUint64_agrees g1 (Span_parentID s) W1) as (g2 & E2 & W2 & A2). rewrite E2.
  destruct (WriteUint64_agrees g2 (Span_traceID s) W2) as (g3 & E3 & W3 & A3). rewrite E3.
  destruct (WriteSingleByte_agrees g3 (Span_flags s) W3 Hf) as (g4 & E4 & W4 & A4). rewrite E4.
  cbn. eexists _, g4. split; [reflexivity|]. split; [exact W4|]. split; [|reflexivity].
  rewrite A4, A3, A2, A1. reflexivity.
Qed.

(* a range loop whose body writes one pair *)
Lemma go_range_stepW {K V : Type} (h : list (K * V)) (f : K -> V -> WriteBuffer -> option WriteBuffer)
      (one : K * V -> wbuf -> wbuf) (all : list (K * V) -> wbuf -> wbuf) :
  all [] = w_nop -> (forall kv r, all (kv :: r) = one kv >> all r) ->
  (forall k v w, wfW w -> stepW (f k v w) w (one (k, v))) ->
  forall g, wfW g -> stepW (go_range h f g) g (all h).
Proof.
  intros Hn Hc Hf. induction h as [|[k v] h IH]; intros g W.
  - exists g. rewrite Hn. cbn. auto.
  - cbn [go_range]. destruct (Hf k v g W) as (g1 & E1 & W1 & A1). rewrite E1.
    destruct (IH g1 W1) as (g2 & E2 & W2 & A2). exists g2. split; [exact E2|]. split; [exact W2|].
    rewrite Hc. unfold seqW. rewrite <- A1. exact A2.
Qed.

Lemma w_u8_wrap v : w_u8 (wrapU 8 v) = w_u8 v.
Proof. unfold w_u8, wrapU. change (2 ^ 8) with 256. rewrite Z.mod_mod by lia. reflexivity. Qed.

Lemma wrapU8_range v : 0 <= wrapU 8 v < 256.
Proof. pose proof (wrapU_range 8 v ltac:(lia)) as H. cbn in H. lia. Qed.

Lemma transportHeaders_write_agrees h g : wfW g -> stepW (transportHeaders_write h g) g (w_headers h).
Proof.
  intros W. unfold transportHeaders_write, w_headers.
  destruct (WriteSingleByte_agrees g (wrapU 8 (zlen h)) W (wrapU8_range _)) as (g1 & E1 & W1 & A1). rewrite E1.
  rewrite w_u8_wrap in A1.
  match goal with |- context [go_range h ?f g1] =>
    destruct (go_range_stepW h f w_kv8 w_kv8s eq_refl (fun _ _ => eq_refl)) with (g := g1) as (g2 & E2 & W2 & A2); [|exact W1|]
  end.
  - intros k v w Ww. cbn [TransportHeaderName_String]. unfold w_kv8. cbn [fst snd].
    destruct (WriteLen8String_agrees w k Ww) as (w1 & F1 & X1 & B1). rewrite F1.
    destruct (WriteLen8String_agrees w1 v X1) as (w2 & F2 & X2 & B2). rewrite F2.
    exists w2. split; [reflexivity|]. split; [exact X2|]. unfold seqW. rewrite <- B1. exact B2.
  - rewrite E2. exists g2. split; [reflexivity|]. split; [exact W2|]. unfold seqW. rewrite <- A1. exact A2.
Qed.

Lemma wrapU32_wrapS64 x : wrapU 32 (wrapS 64 x) = wrapU 32 x.
Proof.
  unfold wrapU, wrapS. change (2 ^ (64 - 1)) with (2 ^ 63).
  pose proof (Z.div_mod (x + 2 ^ 63) (2 ^ 64) ltac:(lia)) as D.
  replace ((x + 2 ^ 63) mod 2 ^ 64 - 2 ^ 63) with (x + (- ((x + 2 ^ 63) / 2 ^ 64) * 2 ^ 32) * 2 ^ 32).
  - apply Z.mod_add. lia.
  - set (q := (x + 2 ^ 63) / 2 ^ 64) in *. set (r := (x + 2 ^ 63) mod 2 ^ 64) in *.
    change (2 ^ 64) with 18446744073709551616 in *. change (2 ^ 63) with 9223372036854775808 in *.
    change (2 ^ 32) with 4294967296 in *. lia.
Qed.

Lemma callReq_write_agrees m g : wfW g -> 0 <= Span_flags (callReq_Tracing m) < 256 ->
  stepWE (callReq_write m g) g (w_callreq (absCallReq m)).
Proof.
  intros W Hf. unfold callReq_write.
  destruct (WriteUint32_agrees g (wrapU 32 (wrapS 64 (Z.quot (callReq_TimeToLive m) 1000000))) W) as (g1 & E1 & W1 & A1). rewrite E1.
  destruct (Span_write_agrees (callReq_Tracing m) g1 W1 Hf) as (e2 & g2 & E2 & W2 & A2 & _). rewrite E2.
  destruct (WriteLen8String_agrees g2 (callReq_Service m) W2) as (g3 & E3 & W3 & A3). rewrite E3.
  destruct (transportHeaders_write_agrees (callReq_Headers m) g3 W3) as (g4 & E4 & W4 & A4). rewrite E4.
  cbn. eexists _, g4. split; [reflexivity|]. split; [exact W4|]. split; [|reflexivity].
  rewrite A4, A3, A2, A1. rewrite wrapU32_wrapS64. reflexivity.
Qed.

Lemma callRes_write_agrees m g : wfW g -> 0 <= Span_flags (callRes_Tracing m) < 256 ->
  stepWE (callRes_write m g) g (w_callres (absCallRes m)).
Proof.
  intros W Hf. unfold callRes_write.
  destruct (WriteSingleByte_agrees g (wrapU 8 (callRes_ResponseCode m)) W (wrapU8_range _)) as (g1 & E1 & W1 & A1). rewrite E1.
  destruct (Span_write_agrees (callRes_Tracing m) g1 W1 Hf) as (e2 & g2 & E2 & W2 & A2 & _). rewrite E2.
  destruct (transportHeaders_write_agrees (callRes_Headers m) g2 W2) as (g3 & E3 & W3 & A3). rewrite E3.
  cbn. eexists _, g3. split; [reflexivity|]. split; [exact W3|]. split; [|reflexivity].
  rewrite A3, A2, A1, w_u8_wrap. reflexivity.
Qed.

Lemma errorMessage_write_agrees m g : wfW g -> 0 <= Span_flags (errorMessage_tracing m) < 256 ->
  stepWE (errorMessage_write m g) g (w_error (absError m)).
Proof.
  intros W Hf. unfold errorMessage_write.
  destruct (WriteSingleByte_agrees g (wrapU 8 (errorMessage_errCode m)) W (wrapU8_range _)) as (g1 & E1 & W1 & A1). rewrite E1.
  destruct (Span_write_agrees (errorMessage_tracing m) g1 W1 Hf) as (e2 & g2 & E2 & W2 & A2 & _). rewrite E2.
  destruct (WriteLen16String_agrees g2 (errorMessage_message m) W2) as (g3 & E3 & W3 & A3). rewrite E3.
  cbn. eexists _, g3. split; [reflexivity|]. split; [exact W3|]. split; [|reflexivity].
  rewrite A3, A2, A1, w_u8_wrap. reflexivity.
Qed.

Lemma cancelMessage_write_agrees m g : wfW g -> 0 <= Span_flags (cancelMessage_tracing m) < 256 ->
  stepWE (cancelMessage_write m g) g (w_cancel (absCancel m)).
Proof.
  intros W Hf. unfold cancelMessage_write.
  destruct (WriteUint32_agrees g (cancelMessage_ttl m) W) as (g1 & E1 & W1 & A1). rewrite E1.
  destruct (Span_write_agrees (cancelMessage_tracing m) g1 W1 Hf) as (e2 & g2 & E2 & W2 & A2 & _). rewrite E2.
  destruct (WriteLen16String_agrees g2 (cancelMessage_message m) W2) as (g3 & E3 & W3 & A3). rewrite E3.
  cbn. eexists _, g3. split; [reflexivity|]. split; [exact W3|]. split; [|reflexivity].
  rewrite A3, A2, A1. reflexivity.
Qed.

Lemma w_u16_wrap v : w_u16 (wrapU 16 v) = w_u16 v.
Proof. unfold w_u16, w_uint. rewrite (be_wrapU 2). reflexivity. Qed.

Lemma initMessage_write_agrees m g : wfW g -> stepWE (initMessage_write m g) g (w_init (absInit m)).
Proof.
  intros W. unfold initMessage_write, w_init. cbn [absInit im_version im_params].
  destruct (WriteUint16_agrees g (initMessage_Version m) W) as (g1 & E1 & W1 & A1). rewrite E1.
  destruct (WriteUint16_agrees g1 (wrapU 16 (zlen (initMessage_initParams m))) W1) as (g2 & E2 & W2 & A2). rewrite E2.
  rewrite w_u16_wrap in A2.
  match goal with |- context [go_range ?h ?f g2] =>
    destruct (go_range_stepW h f w_kv16 w_kv16s eq_refl (fun _ _ => eq_refl)) with (g := g2) as (g3 & E3 & W3 & A3); [|exact W2|]
  end.
  - intros k v w Ww. unfold w_kv16. cbn [fst snd].
    destruct (WriteLen16String_agrees w k Ww) as (w1 & F1 & X1 & B1). rewrite F1.
    destruct (WriteLen16String_agrees w1 v X1) as (w2 & F2 & X2 & B2). rewrite F2.
    exists w2. split; [reflexivity|]. split; [exact X2|]. unfold seqW. rewrite <- B1. exact B2.
  - rewrite E3. cbn. eexists _, g3. split; [reflexivity|]. split; [exact W3|]. split; [|reflexivity].
    rewrite A3, A2, A1. reflexivity.
Qed.

(* FrameHeader.write emits fh.reserved; nothing in the library assigns that field (read
   discards the eight bytes), so it is the zero array: explicit hypothesis *)
Lemma FrameHeader_write_agrees h g : wfW g -> 0 <= FrameHeader_reserved1 h < 256 ->
  FrameHeader_reserved h = repeat 0 8 ->
  stepWE (FrameHeader_write h g) g (w_fheader (absFH h)).
Proof.
  intros W Hr Hz. unfold FrameHeader_write. rewrite Hz.
  destruct (WriteUint16_agrees g (FrameHeader_size h) W) as (g1 & E1 & W1 & A1). rewrite E1.
  destruct (WriteSingleByte_agrees g1 (wrapU 8 (FrameHeader_messageType h)) W1 (wrapU8_range _)) as (g2 & E2 & W2 & A2). rewrite E2.
  destruct (WriteSingleByte_agrees g2 (FrameHeader_reserved1 h) W2 Hr) as (g3 & E3 & W3 & A3). rewrite E3.
  destruct (WriteUint32_agrees g3 (FrameHeader_ID h) W3) as (g4 & E4 & W4 & A4). rewrite E4.
  change (str_slice (repeat 0 8) 0 (zlen (repeat 0 8))) with (Some (repeat 0 8)). cbn iota beta.
  destruct (WriteBytes_agrees g4 (Some (repeat 0 8)) W4) as (g5 & E5 & W5 & A5). rewrite E5.
  cbn. eexists _, g5. split; [reflexivity|]. split; [exact W5|]. split; [|reflexivity].
  rewrite A5, A4, A3, A2, A1, w_u8_wrap. reflexivity.
Qed.

(* ================= readers ================= *)
(* the unread bytes are bytes (Go typing of []byte); kept by every read *)
Definition bokR (g : ReadBuffer) : Prop := bytes_ok (bs_list (ReadBuffer_remaining g)) = true.

Lemma bok_r_bytes n r : bytes_ok (rrem r) = true -> bytes_ok (rrem (snd (r_bytes n r))) = true.
Proof.
  intros H. unfold r_bytes. destruct (rerr r); [exact H|]. destruct (length (rrem r) <? n)%nat; cbn; [exact H|].
  rewrite <- (firstn_skipn n (rrem r)) in H. rewrite bytes_ok_app in H. apply andb_true_iff in H. tauto.
Qed.

Lemma pair_eq {A B} (p : A * B) a b : a = fst p -> b = snd p -> (a, b) = p.
Proof. intros -> ->. destruct p; reflexivity. Qed.

Lemma rd_uint_step k gen g : viewR (fun v : Z => v) gen = Some (r_uint k (absR g)) -> bokR g ->
  exists v g', gen = Some (v, g') /\ (v, absR g') = r_uint k (absR g) /\ bokR g' /\ 0 <= v < 256 ^ Z.of_nat k.
Proof.
  intros H B. apply viewR_some in H as (v & g' & E & V & S). exists v, g'. split; [exact E|].
  split; [apply pair_eq; assumption|]. split.
  - unfold bokR. change (bs_list (ReadBuffer_remaining g')) with (rrem (absR g')). rewrite S. apply bytes_ok_r_uint_rest, B.
  - rewrite V. apply r_uint_range, B.
Qed.

Lemma rd_u8 g : bokR g -> exists v g', ReadBuffer_ReadSingleByte g = Some (v, g') /\ (v, absR g') = r_u8 (absR g) /\ bokR g' /\ 0 <= v < 256.
Proof. intros B. exact (rd_uint_step 1 _ g (ReadSingleByte_agrees g) B). Qed.
Lemma rd_u16 g : bokR g -> exists v g', ReadBuffer_ReadUint16 g = Some (v, g') /\ (v, absR g') = r_u16 (absR g) /\ bokR g' /\ 0 <= v < 65536.
Proof. intros B. exact (rd_uint_step 2 _ g (ReadUint16_agrees g) B). Qed.
Lemma rd_u32 g : bokR g -> exists v g', ReadBuffer_ReadUint32 g = Some (v, g') /\ (v, absR g') = r_u32 (absR g) /\ bokR g' /\ 0 <= v < 2 ^ 32.
Proof. intros B. exact (rd_uint_step 4 _ g (ReadUint32_agrees g) B). Qed.
Lemma rd_u64 g : bokR g -> exists v g', ReadBuffer_ReadUint64 g = Some (v, g') /\ (v, absR g') = r_u64 (absR g) /\ bokR g' /\ 0 <= v < 2 ^ 64.
Proof. intros B. exact (rd_uint_step 8 _ g (ReadUint64_agrees g) B). Qed.

Lemma bok_r_len k r : bytes_ok (rrem r) = true ->
  bytes_ok (rrem (snd ((n <- r_uint k ;; r_string n) r))) = true.
Proof.
  intros H. unfold bindR. pose proof (bytes_ok_r_uint_rest k r H) as H1.
  destruct (r_uint k r) as [n r1]. cbn in H1. unfold r_string. apply bok_r_bytes, H1.
Qed.

Lemma rd_len8 g : bokR g -> exists s g', ReadBuffer_ReadLen8String g = Some (s, g') /\ (s, absR g') = r_len8 (absR g) /\ bokR g'.
Proof.
  intros B. pose proof (ReadLen8String_agrees g B) as H. apply viewR_some in H as (s & g' & E & V & S).
  exists s, g'. split; [exact E|]. split; [apply pair_eq; assumption|].
  unfold bokR. change (bs_list (ReadBuffer_remaining g')) with (rrem (absR g')). rewrite S. apply (bok_r_len 1), B.
Qed.
Lemma rd_len16 g : bokR g -> exists s g', ReadBuffer_ReadLen16String g = Some (s, g') /\ (s, absR g') = r_len16 (absR g) /\ bokR g'.
Proof.
  intros B. pose proof (ReadLen16String_agrees g B) as H. apply viewR_some in H as (s & g' & E & V & S).
  exists s, g'. split; [exact E|]. split; [apply pair_eq; assumption|].
  unfold bokR. change (bs_list (ReadBuffer_remaining g')) with (rrem (absR g')). rewrite S. apply (bok_r_len 2), B.
Qed.

(* result of a generated read method (r.Err(), message, buffer) against the model reader *)
Definition stepRE {M A} (abs : M -> A) (gen : option (Z * M * ReadBuffer)) (g : ReadBuffer) (m : rbuf -> A * rbuf) : Prop :=
  exists e x g', gen = Some (e, x, g') /\ (abs x, absR g') = m (absR g) /\ bokR g' /\
                 negb (e =? 0) = rerr (absR g').

Lemma Span_read_agrees s g : bokR g -> stepRE absSpan (Span_read s g) g r_span.
Proof.
  intros B. unfold Span_read, stepRE, r_span, bindR, retR.
  destruct (rd_u64 g B) as (v1 & g1 & E1 & M1 & B1 & _). rewrite E1, <- M1.
  destruct (rd_u64 g1 B1) as (v2 & g2 & E2 & M2 & B2 & _). rewrite E2, <- M2.
  destruct (rd_u64 g2 B2) as (v3 & g3 & E3 & M3 & B3 & _). rewrite E3, <- M3.
  destruct (rd_u8 g3 B3) as (v4 & g4 & E4 & M4 & B4 & _). rewrite E4, <- M4.
  cbn. eexists _, _, g4. split; [reflexivity|]. split; [reflexivity|]. split; [exact B4|reflexivity].
Qed.

(* counted loops that read (key, value) pairs *)
Lemma go_for_kvs {St : Type} (rd : ReadBuffer -> option (list Z * ReadBuffer)) (mrd : rbuf -> list Z * rbuf)
      (mkvs : nat -> rbuf -> kvs * rbuf) (add : St -> list Z * list Z -> St)
      (body : Z -> ReadBuffer * St -> option (ReadBuffer * St)) :
  (forall g, bokR g -> exists s g', rd g = Some (s, g') /\ (s, absR g') = mrd (absR g) /\ bokR g') ->
  (forall r, mkvs O r = ([], r)) ->
  (forall n r, mkvs (S n) r = (k <- mrd ;; v <- mrd ;; rest <- mkvs n ;; retR ((k, v) :: rest)) r) ->
  (forall i g st, body i (g, st) =
     match rd g with None => None | Some (k, g1) =>
       match rd g1 with None => None | Some (v, g2) => Some (g2, add st (k, v)) end end) ->
  forall n i g st, bokR g ->
    exists g', go_for_nat n i body (g, st) = Some (g', fold_left add (fst (mkvs n (absR g))) st) /\
               absR g' = snd (mkvs n (absR g)) /\ bokR g'.
Proof.
  intros Hrd H0 HS Hb. induction n as [|n IH]; intros i g st B.
  - exists g. rewrite H0. cbn. auto.
  - cbn [go_for_nat]. rewrite Hb, HS. unfold bindR, retR.
    destruct (Hrd g B) as (k & g1 & E1 & M1 & B1). rewrite E1, <- M1.
    destruct (Hrd g1 B1) as (v & g2 & E2 & M2 & B2). rewrite E2, <- M2.
    destruct (IH (i + 1) g2 (add st (k, v)) B2) as (g3 & E3 & A3 & B3). rewrite E3.
    exists g3. destruct (mkvs n (absR g2)) as [rest r3]. cbn in *. auto.
Qed.

Lemma fold_left_snoc (l ch : kvs) : fold_left (fun c kv => c ++ [kv]) l ch = ch ++ l.
Proof.
  revert ch. induction l as [|x l IH]; intros ch; cbn; [rewrite app_nil_r; reflexivity|].
  rewrite IH, <- app_assoc. reflexivity.
Qed.

Lemma transportHeaders_read_agrees ch g : bokR g ->
  exists h g', transportHeaders_read ch g = Some (ch ++ h, g') /\ (h, absR g') = r_headers (absR g) /\ bokR g'.
Proof.
  intros B. unfold transportHeaders_read, r_headers, bindR.
  destruct (rd_u8 g B) as (n & g1 & E1 & M1 & B1 & Rn). rewrite E1, <- M1.
  rewrite wrapS_id by (cbn; lia). unfold go_for.
  match goal with |- context [go_for_nat _ 0 ?f (g1, ch)] =>
    destruct (go_for_kvs ReadBuffer_ReadLen8String r_len8 r_kv8s (fun c kv => c ++ [kv]) f rd_len8
                (fun _ => eq_refl) (fun _ _ => eq_refl) (fun _ _ _ => eq_refl) (Z.to_nat n) 0 g1 ch B1) as (g2 & E2 & A2 & B2)
  end.
  rewrite E2. rewrite fold_left_snoc. eexists _, g2. split; [reflexivity|]. split; [|exact B2].
  apply pair_eq; [reflexivity|exact A2].
Qed.

Lemma callReq_read_agrees m g : bokR g -> stepRE absCallReq (callReq_read m g) g r_callreq.
Proof.
  intros B. unfold callReq_read, stepRE, r_callreq, bindR, retR.
  destruct (rd_u32 g B) as (t & g1 & E1 & M1 & B1 & Rt). rewrite E1, <- M1.
  match goal with |- context [Span_read ?s g1] => destruct (Span_read_agrees s g1 B1) as (e2 & s2 & g2 & E2 & M2 & B2 & _) end.
  rewrite E2, <- M2.
  destruct (rd_len8 g2 B2) as (svc & g3 & E3 & M3 & B3). rewrite E3, <- M3.
  cbn [callReq_Headers set_callReq_Headers].
  destruct (transportHeaders_read_agrees [] g3 B3) as (h & g4 & E4 & M4 & B4). rewrite E4, <- M4.
  cbn. eexists _, _, g4. split; [reflexivity|]. split; [|split; [exact B4|reflexivity]].
  unfold absCallReq. cbn. rewrite (wrapS_id 64 t) by (cbn in *; lia). reflexivity.
Qed.

Lemma wrapU8_id v : 0 <= v < 256 -> wrapU 8 v = v.
Proof. intros H. apply wrapU_id; cbn; lia. Qed.

Lemma callRes_read_agrees m g : bokR g -> stepRE absCallRes (callRes_read m g) g r_callres.
Proof.
  intros B. unfold callRes_read, stepRE, r_callres, bindR, retR.
  destruct (rd_u8 g B) as (c & g1 & E1 & M1 & B1 & Rc). rewrite E1, <- M1.
  match goal with |- context [Span_read ?s g1] => destruct (Span_read_agrees s g1 B1) as (e2 & s2 & g2 & E2 & M2 & B2 & _) end.
  rewrite E2, <- M2.
  cbn [callRes_Headers set_callRes_Headers].
  destruct (transportHeaders_read_agrees [] g2 B2) as (h & g3 & E3 & M3 & B3). rewrite E3, <- M3.
  cbn. eexists _, _, g3. split; [reflexivity|]. split; [|split; [exact B3|reflexivity]].
  unfold absCallRes. cbn. rewrite wrapU8_id by exact Rc. reflexivity.
Qed.

Lemma errorMessage_read_agrees m g : bokR g -> stepRE absError (errorMessage_read m g) g r_error.
Proof.
  intros B. unfold errorMessage_read, stepRE, r_error, bindR, retR.
  destruct (rd_u8 g B) as (c & g1 & E1 & M1 & B1 & Rc). rewrite E1, <- M1.
  match goal with |- context [Span_read ?s g1] => destruct (Span_read_agrees s g1 B1) as (e2 & s2 & g2 & E2 & M2 & B2 & _) end.
  rewrite E2, <- M2.
  destruct (rd_len16 g2 B2) as (msg & g3 & E3 & M3 & B3). rewrite E3, <- M3.
  cbn. eexists _, _, g3. split; [reflexivity|]. split; [|split; [exact B3|reflexivity]].
  unfold absError. cbn. rewrite wrapU8_id by exact Rc. reflexivity.
Qed.

Lemma cancelMessage_read_agrees m g : bokR g -> stepRE absCancel (cancelMessage_read m g) g r_cancel.
Proof.
  intros B. unfold cancelMessage_read, stepRE, r_cancel, bindR, retR.
  destruct (rd_u32 g B) as (t & g1 & E1 & M1 & B1 & Rt). rewrite E1, <- M1.
  match goal with |- context [Span_read ?s g1] => destruct (Span_read_agrees s g1 B1) as (e2 & s2 & g2 & E2 & M2 & B2 & _) end.
  rewrite E2, <- M2.
  destruct (rd_len16 g2 B2) as (msg & g3 & E3 & M3 & B3). rewrite E3, <- M3.
  cbn. eexists _, _, g3. split; [reflexivity|]. split; [|split; [exact B3|reflexivity]]. reflexivity.
Qed.

Lemma fold_init_params l m :
  absInit (fold_left (fun m0 kv => set_initMessage_initParams (initMessage_initParams m0 ++ [kv]) m0) l m)
    = mkInit (initMessage_Version m) (initMessage_initParams m ++ l).
Proof.
  revert m. induction l as [|x l IH]; intros m; cbn [fold_left].
  - rewrite app_nil_r. reflexivity.
  - rewrite IH. cbn. rewrite <- app_assoc. reflexivity.
Qed.

Lemma initMessage_read_agrees m g : bokR g -> stepRE absInit (initMessage_read m g) g r_init.
Proof.
  intros B. unfold initMessage_read, stepRE, r_init, bindR, retR.
  destruct (rd_u16 g B) as (ver & g1 & E1 & M1 & B1 & Rv). rewrite E1, <- M1.
  destruct (rd_u16 g1 B1) as (np & g2 & E2 & M2 & B2 & Rn). rewrite E2, <- M2.
  rewrite wrapS_id by (cbn; lia). unfold go_for.
  match goal with |- context [go_for_nat _ 0 ?f (g2, ?m0)] =>
    destruct (go_for_kvs ReadBuffer_ReadLen16String r_len16 r_kv16s
                (fun mm kv => set_initMessage_initParams (initMessage_initParams mm ++ [kv]) mm) f rd_len16
                (fun _ => eq_refl) (fun _ _ => eq_refl) (fun _ _ _ => eq_refl) (Z.to_nat np) 0 g2 m0 B2) as (g3 & E3 & A3 & B3)
  end.
  rewrite E3. cbn. eexists _, _, g3. split; [reflexivity|]. split; [|split; [exact B3|reflexivity]].
  rewrite fold_init_params. destruct (r_kv16s (Z.to_nat np) (absR g2)) as [ps r3]. cbn in A3 |- *. rewrite A3. reflexivity.
Qed.

(* FrameHeader.read: the eight reserved bytes are consumed and dropped (fh.reserved keeps its
   old value) *)
Lemma FrameHeader_read_agrees h g : bokR g -> stepRE absFH (FrameHeader_read h g) g r_fheader.
Proof.
  intros B. unfold FrameHeader_read, stepRE, r_fheader, bindR, retR.
  destruct (rd_u16 g B) as (sz & g1 & E1 & M1 & B1 & _). rewrite E1, <- M1.
  destruct (rd_u8 g1 B1) as (t & g2 & E2 & M2 & B2 & Rt). rewrite E2, <- M2.
  destruct (rd_u8 g2 B2) as (r1 & g3 & E3 & M3 & B3 & _). rewrite E3, <- M3.
  destruct (rd_u32 g3 B3) as (id & g4 & E4 & M4 & B4 & _). rewrite E4, <- M4.
  pose proof (ReadBytes_agrees g4 8 ltac:(lia)) as H5. apply viewR_some in H5 as (b & g5 & E5 & V5 & S5).
  rewrite E5. change (Z.to_nat 8) with 8%nat in *.
  assert (B5 : bokR g5).
  { unfold bokR. change (bs_list (ReadBuffer_remaining g5)) with (rrem (absR g5)). rewrite S5. apply bok_r_bytes, B4. }
  destruct (r_bytes 8 (absR g4)) as [b' r5]. cbn in V5, S5. subst r5.
  cbn. eexists _, _, g5. split; [reflexivity|]. split; [|split; [exact B5|reflexivity]].
  unfold absFH. cbn. rewrite wrapU8_id by exact Rt. reflexivity.
Qed.

Lemma FrameHeader_read_keeps_reserved h g e h' g' : FrameHeader_read h g = Some (e, h', g') ->
  FrameHeader_reserved h' = FrameHeader_reserved h.
Proof.
  unfold FrameHeader_read. intros H.
  repeat match type of H with
         | match ?x with Some _ => _ | None => _ end = _ => destruct x as [[? ?]|]; [|discriminate]
         end.
  cbn in H. inversion H; subst. reflexivity.
Qed.

(* messages without a body *)
Lemma nobody_agrees : (forall x r, noBodyMsg_read x r = Some 0) /\ (forall x w, noBodyMsg_write x w = Some 0) /\
  (forall c r, callResContinue_read c r = Some 0) /\ (forall c w, callResContinue_write c w = Some 0).
Proof. repeat split. Qed.

(* ================= the conjunction stated in Props/C06.v ================= *)
Lemma messages_generated :
  (* ---- write methods (messages.go, tracing.go, frame.go) ---- *)
  (forall s g, wfW g -> 0 <= Span_flags s < 256 -> stepWE (Span_write s g) g (w_span (absSpan s))) /\
  (forall h g, wfW g -> stepW (transportHeaders_write h g) g (w_headers h)) /\
  (forall m g, wfW g -> 0 <= Span_flags (callReq_Tracing m) < 256 ->
     stepWE (callReq_write m g) g (w_callreq (absCallReq m))) /\
  (forall m g, wfW g -> 0 <= Span_flags (callRes_Tracing m) < 256 ->
     stepWE (callRes_write m g) g (w_callres (absCallRes m))) /\
  (forall m g, wfW g -> 0 <= Span_flags (errorMessage_tracing m) < 256 ->
     stepWE (errorMessage_write m g) g (w_error (absError m))) /\
  (forall m g, wfW g -> 0 <= Span_flags (cancelMessage_tracing m) < 256 ->
     stepWE (cancelMessage_write m g) g (w_cancel (absCancel m))) /\
  (forall m g, wfW g -> stepWE (initMessage_write m g) g (w_init (absInit m))) /\
  (forall h g, wfW g -> 0 <= FrameHeader_reserved1 h < 256 -> FrameHeader_reserved h = repeat 0 8 ->
     stepWE (FrameHeader_write h g) g (w_fheader (absFH h))) /\
  (* ---- read methods ---- *)
  (forall s g, bokR g -> stepRE absSpan (Span_read s g) g r_span) /\
  (forall ch g, bokR g ->
     exists h g', transportHeaders_read ch g = Some (ch ++ h, g') /\ (h, absR g') = r_headers (absR g) /\ bokR g') /\
  (forall m g, bokR g -> stepRE absCallReq (callReq_read m g) g r_callreq) /\
  (forall m g, bokR g -> stepRE absCallRes (callRes_read m g) g r_callres) /\
  (forall m g, bokR g -> stepRE absError (errorMessage_read m g) g r_error) /\
  (forall m g, bokR g -> stepRE absCancel (cancelMessage_read m g) g r_cancel) /\
  (forall m g, bokR g -> stepRE absInit (initMessage_read m g) g r_init) /\
  (forall h g, bokR g -> stepRE absFH (FrameHeader_read h g) g r_fheader) /\
  (forall h g e h' g', FrameHeader_read h g = Some (e, h', g') -> FrameHeader_reserved h' = FrameHeader_reserved h) /\
  (* ---- messages without a body: ping req/res, call req continue (noBodyMsg), call res continue ---- *)
  (forall x r, noBodyMsg_read x r = Some 0) /\ (forall x w, noBodyMsg_write x w = Some 0) /\
  (forall c r, callResContinue_read c r = Some 0) /\ (forall c w, callResContinue_write c w = Some 0).
Proof.
  repeat (split; [first
    [ exact Span_write_agrees | exact transportHeaders_write_agrees | exact callReq_write_agrees | exact callRes_write_agrees
    | exact errorMessage_write_agrees | exact cancelMessage_write_agrees | exact initMessage_write_agrees
    | exact FrameHeader_write_agrees | exact Span_read_agrees | exact transportHeaders_read_agrees
    | exact callReq_read_agrees | exact callRes_read_agrees | exact errorMessage_read_agrees
    | exact cancelMessage_read_agrees | exact initMessage_read_agrees | exact FrameHeader_read_agrees
    | exact FrameHeader_read_keeps_reserved | (intros; reflexivity) ]|]).
  intros; reflexivity.
Qed.
