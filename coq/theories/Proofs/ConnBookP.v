(* Proofs about Model/ConnBook.v: a fully closed connection whose close-state callbacks have
   run is held neither by the channel's connection map nor by any peer. *)
From Coq Require Import ZArith List Bool Lia ZifyBool.
From Verif Require Import Base.Wire Gen.GenConsts Model.MexDrain Model.RelayDrain Model.ConnBook
  Proofs.MexDrainP Proofs.RelayDrainP.
Import ListNotations.
Local Open Scope Z_scope.

Lemma pair_eqb_true x y : pair_eqb x y = true <-> x = y.
Proof.
  destruct x as [a b], y as [c d]. unfold pair_eqb. cbn [fst snd]. split.
  - intros H. apply andb_true_iff in H as [H1 H2]. f_equal; lia.
  - intros H. injection H as -> ->. rewrite !Z.eqb_refl. reflexivity.
Qed.
Lemma pair_eqb_refl x : pair_eqb x x = true.
Proof. apply pair_eqb_true. reflexivity. Qed.
Lemma pair_eqb_false x y : x <> y -> pair_eqb x y = false.
Proof. intros H. destruct (pair_eqb x y) eqn:E; [|reflexivity]. apply pair_eqb_true in E. contradiction. Qed.

Fixpoint pcount (x : Z * Z) (l : list (Z * Z)) : Z :=
  match l with [] => 0 | y :: r => (if pair_eqb x y then 1 else 0) + pcount x r end.

Lemma pcount_nonneg x l : 0 <= pcount x l.
Proof. induction l as [|y r IH]; cbn [pcount]; [lia|]. destruct (pair_eqb x y); lia. Qed.

Lemma pcount_In x l : In x l <-> 0 < pcount x l.
Proof.
  induction l as [|y r IH]; cbn [pcount In]; [lia|].
  pose proof (pcount_nonneg x r). destruct (pair_eqb x y) eqn:E.
  - apply pair_eqb_true in E. subst. split; [lia|]. intros _. left. reflexivity.
  - split.
    + intros [->|Hin]; [rewrite pair_eqb_refl in E; discriminate|]. apply IH in Hin. lia.
    + intros Hp. right. apply IH. lia.
Qed.

Lemma has_pair_In x l : has_pair x l = true <-> In x l.
Proof.
  unfold has_pair. rewrite existsb_exists. split.
  - intros (y & Hin & Hy). apply pair_eqb_true in Hy. subst. exact Hin.
  - intros Hin. exists x. split; [exact Hin|apply pair_eqb_refl].
Qed.

Lemma pcount_remove1_other x y l : x <> y -> pcount x (remove1_pair y l) = pcount x l.
Proof.
  intros Hne. induction l as [|z r IH]; cbn [remove1_pair pcount]; [reflexivity|].
  destruct (pair_eqb y z) eqn:E.
  - apply pair_eqb_true in E. subst z. rewrite (pair_eqb_false _ _ Hne). lia.
  - cbn [pcount]. rewrite IH. reflexivity.
Qed.

Lemma pcount_remove1_same y l : pcount y (remove1_pair y l) = Z.max 0 (pcount y l - 1).
Proof.
  induction l as [|z r IH]; cbn [remove1_pair pcount]; [reflexivity|].
  pose proof (pcount_nonneg y r). destruct (pair_eqb y z) eqn:E; [lia|].
  cbn [pcount]. rewrite E, IH. lia.
Qed.

Lemma pcount_remove1_le x y l : pcount x (remove1_pair y l) <= pcount x l.
Proof.
  destruct (pair_eqb x y) eqn:E.
  - apply pair_eqb_true in E. subst. rewrite pcount_remove1_same. pose proof (pcount_nonneg y l). lia.
  - rewrite pcount_remove1_other; [lia|]. intros ->. rewrite pair_eqb_refl in E. discriminate.
Qed.

Lemma peers_drop_le ps c x l : pcount x (peers_drop ps c l) <= pcount x l.
Proof.
  revert l. induction ps as [|p r IH]; intros l; cbn [peers_drop]; [lia|].
  specialize (IH (remove1_pair (p, c) l)). pose proof (pcount_remove1_le x (p, c) l). lia.
Qed.

Lemma peers_drop_other ps c p' c' l : c' <> c -> pcount (p', c') (peers_drop ps c l) = pcount (p', c') l.
Proof.
  intros Hne. revert l. induction ps as [|p r IH]; intros l; cbn [peers_drop]; [reflexivity|].
  rewrite IH. apply pcount_remove1_other. intros H. injection H as _ H. contradiction.
Qed.

Lemma peers_drop_zero ps c p l : In p ps -> pcount (p, c) l <= 1 -> pcount (p, c) (peers_drop ps c l) = 0.
Proof.
  revert l. induction ps as [|q r IH]; intros l Hin Hle; cbn [peers_drop]; [destruct Hin|].
  destruct (Z.eq_dec q p) as [->|Hne].
  - pose proof (peers_drop_le r c (p, c) (remove1_pair (p, c) l)) as H1.
    rewrite pcount_remove1_same in H1. pose proof (pcount_nonneg (p, c) (peers_drop r c (remove1_pair (p, c) l))). lia.
  - destruct Hin as [->|Hin]; [contradiction|]. apply IH; [exact Hin|].
    pose proof (pcount_remove1_le (p, c) (q, c) l). lia.
Qed.

Lemma zget_zset k k' v l :
  zget k (zset k' v l) = if k =? k' then (match zget k' l with Some _ => Some v | None => None end) else zget k l.
Proof.
  induction l as [|[a b] r IH]; cbn [zset zget].
  - destruct (k =? k'); reflexivity.
  - destruct (a =? k') eqn:E.
    + cbn [zget]. destruct (k =? k') eqn:E2.
      * assert (a =? k = true) as -> by lia. reflexivity.
      * assert (a =? k = false) as -> by lia. reflexivity.
    + cbn [zget]. destruct (a =? k) eqn:E3.
      * assert (k =? k' = false) as -> by lia. reflexivity.
      * exact IH.
Qed.

Lemma In_del x c l : In x (del c l) <-> In x l /\ x <> c.
Proof.
  rewrite <- !has_In. rewrite has_del. split.
  - intros H. apply andb_true_iff in H as [H1 H2]. split; [exact H1|lia].
  - intros [H1 H2]. apply andb_true_iff. split; [exact H1|lia].
Qed.

Lemma In_remove1_sub x c l : In x (remove1 c l) -> In x l.
Proof.
  induction l as [|y r IH]; cbn [remove1 In]; [tauto|]. destruct (y =? c); [tauto|]. cbn [In]. tauto.
Qed.

Definition stof (s : cbstate) (c : Z) : option Z := zget c (cb_cstate s).

Record BInv (s : cbstate) : Prop := {
  b_conns : forall c, In c (cb_conns s) ->
            (exists v, stof s c = Some v /\ v <> c_connectionClosed) \/ In c (cb_cbs s);
  b_peers : forall p c, In (p, c) (cb_peers s) -> stof s c = Some c_connectionActive \/ In c (cb_cbs s);
  b_member : forall p c, In (p, c) (cb_peers s) \/ In (p, c) (cb_checked s) -> In p (lget c (cb_cpeers s));
  b_once : forall pc, pcount pc (cb_peers s) + pcount pc (cb_checked s) <= zb (has_pair pc (cb_ever s));
  b_states : forall c v, stof s c = Some v -> c_connectionActive <= v;
  b_known1 : forall c, In c (cb_conns s) \/ In c (cb_cbs s) -> stof s c <> None;
  b_known2 : forall p c, In (p, c) (cb_peers s) \/ In (p, c) (cb_checked s) \/ In (p, c) (cb_ever s) -> stof s c <> None
}.

Lemma BInv_init : BInv cb_init.
Proof. constructor; cbn; try tauto; try discriminate. Qed.

Lemma lget_cons_other c c' ps l : c <> c' -> lget c ((c', ps) :: l) = lget c l.
Proof. intros H. cbn [lget]. assert (c' =? c = false) as -> by lia. reflexivity. Qed.

Lemma In_remove1_pair_sub x y l : In x (remove1_pair y l) -> In x l.
Proof. intros H. apply pcount_In. apply pcount_In in H. pose proof (pcount_remove1_le x y l). lia. Qed.

Lemma In_peers_drop_sub x ps c l : In x (peers_drop ps c l) -> In x l.
Proof. intros H. apply pcount_In. apply pcount_In in H. pose proof (peers_drop_le ps c x l). lia. Qed.

Ltac inv_fields HI := destruct HI as [Hconns Hpeers Hmember Honce Hstates Hk1 Hk2].
Ltac fin := constructor; unfold stof in *; cbn [cb_conns cb_peers cb_checked cb_cbs cb_cstate cb_cpeers cb_ever]; try assumption.

Lemma BInv_step s l s' : BInv s -> cstep s l = Some s' -> BInv s'.
Proof.
  intros HI Hs. destruct l as [c p1 p2|c|p c|p c|c st|c|]; cbn [cstep] in Hs.
  - (* CNew *)
    destruct (zget c (cb_cstate s)) eqn:Hz; [discriminate|]. injection Hs as <-. inv_fields HI.
    assert (Hfresh : forall c', stof s c' <> None -> c' <> c) by (intros c' H ->; apply H; exact Hz).
    fin; cbn [zget].
    + intros c' Hin. assert (c' <> c) by (apply Hfresh, Hk1; tauto).
      assert (c =? c' = false) as -> by lia. auto.
    + intros p c' Hin. assert (c' <> c) by (apply Hfresh, (Hk2 p); tauto).
      assert (c =? c' = false) as -> by lia. eauto.
    + intros p c' Hin. assert (c' <> c) by (apply Hfresh, (Hk2 p); tauto).
      rewrite lget_cons_other by exact H. auto.
    + intros c' v. destruct (c =? c') eqn:E; [intros H; injection H as <-; lia|apply Hstates].
    + intros c' H. destruct (c =? c') eqn:E; [discriminate|]. apply Hk1. exact H.
    + intros p c' H. destruct (c =? c') eqn:E; [discriminate|]. apply (Hk2 p). exact H.
  - (* CChanAdd *)
    destruct (zget c (cb_cstate s)) as [st|] eqn:Hz; [|discriminate].
    destruct (negb (st =? c_connectionActive)) eqn:Ea; [injection Hs as <-; inv_fields HI; constructor; assumption|].
    destruct (negb (cb_open s)); [injection Hs as <-; inv_fields HI; constructor; assumption|].
    injection Hs as <-. inv_fields HI. fin.
    + intros c' [<-|Hin].
      * left. exists st. split; [exact Hz|]. unfold c_connectionActive, c_connectionClosed in *. lia.
      * apply In_del in Hin as [Hin _]. auto.
    + intros c' [[<-|Hin]|H]; [congruence| |apply Hk1; tauto]. apply In_del in Hin as [Hin _]. apply Hk1. tauto.
  - (* CPeerCheck *)
    destruct (zget c (cb_cstate s)) as [st|] eqn:Hz; [|discriminate].
    destruct (negb (has p (lget c (cb_cpeers s))) || has_pair (p, c) (cb_ever s)) eqn:Egate; [discriminate|].
    apply orb_false_iff in Egate as [Emem Eever]. apply negb_false_iff in Emem. apply has_In in Emem.
    assert (Hzero : pcount (p, c) (cb_peers s) = 0 /\ pcount (p, c) (cb_checked s) = 0).
    { inv_fields HI. specialize (Honce (p, c)). rewrite Eever in Honce. cbn [zb] in Honce.
      pose proof (pcount_nonneg (p, c) (cb_peers s)). pose proof (pcount_nonneg (p, c) (cb_checked s)). lia. }
    destruct (negb (st =? c_connectionActive)) eqn:Ea; injection Hs as <-; inv_fields HI.
    + fin.
      * intros pc. specialize (Honce pc). unfold has_pair in *. cbn [existsb].
        destruct (pair_eqb pc (p, c)) eqn:E; cbn [orb zb]; [|exact Honce].
        apply pair_eqb_true in E. subst pc. lia.
      * intros q c' [H|[H|[H|H]]]; [apply (Hk2 q); tauto|apply (Hk2 q); tauto|injection H as _ <-; congruence|apply (Hk2 q); tauto].
    + fin.
      * intros q c' [H|[H|H]]; [apply Hmember; tauto|injection H as <- <-; exact Emem|apply Hmember; tauto].
      * intros pc. specialize (Honce pc). unfold has_pair in *. cbn [existsb pcount].
        destruct (pair_eqb pc (p, c)) eqn:E; cbn [orb zb].
        -- apply pair_eqb_true in E. subst pc. lia.
        -- exact Honce.
      * intros q c' [H|[[H|H]|[H|H]]]; try (apply (Hk2 q); tauto); injection H as _ <-; congruence.
  - (* CPeerAppend *)
    destruct (has_pair (p, c) (cb_checked s)) eqn:Hck; [|discriminate]. apply has_pair_In in Hck.
    destruct (zget c (cb_cstate s)) as [st|] eqn:Hz; [|discriminate].
    destruct (negb (st =? c_connectionActive)) eqn:Ea; injection Hs as <-; inv_fields HI.
    + fin.
      * intros q c' [H|H]; apply Hmember; [tauto|]. right. eapply In_remove1_pair_sub; exact H.
      * intros pc. specialize (Honce pc). pose proof (pcount_remove1_le pc (p, c) (cb_checked s)). lia.
      * intros q c' [H|[H|H]]; apply (Hk2 q); [tauto| |tauto]. right. left. eapply In_remove1_pair_sub; exact H.
    + fin.
      * intros q c' [H|H]; [|apply (Hpeers q); exact H]. injection H as <- <-. left. rewrite Hz. f_equal. lia.
      * intros q c' [[H|H]|H].
        -- injection H as <- <-. apply Hmember. tauto.
        -- apply Hmember. tauto.
        -- apply Hmember. right. eapply In_remove1_pair_sub; exact H.
      * intros pc. specialize (Honce pc). cbn [pcount]. destruct (pair_eqb pc (p, c)) eqn:E.
        -- apply pair_eqb_true in E. subst pc. rewrite pcount_remove1_same.
           apply pcount_In in Hck. lia.
        -- rewrite pcount_remove1_other; [lia|]. intros ->. rewrite pair_eqb_refl in E. discriminate.
      * intros q c' [[H|H]|[H|H]].
        -- injection H as _ <-. congruence.
        -- apply (Hk2 q). tauto.
        -- apply (Hk2 q). right. left. eapply In_remove1_pair_sub; exact H.
        -- apply (Hk2 q). tauto.
  - (* CSetState *)
    destruct (zget c (cb_cstate s)) as [cur|] eqn:Hz; [|discriminate].
    destruct ((cur <? st) && (st <=? c_connectionClosed)) eqn:Eg; [|discriminate].
    injection Hs as <-. inv_fields HI.
    pose proof (Hstates c cur Hz) as Hcur.
    fin.
    + intros c' Hin. rewrite zget_zset. destruct (c' =? c) eqn:E.
      * right. left. lia.
      * destruct (Hconns c' Hin) as [H|H]; [left; exact H|right; right; exact H].
    + intros p c' Hin. rewrite zget_zset. destruct (c' =? c) eqn:E.
      * right. left. lia.
      * destruct (Hpeers p c' Hin) as [H|H]; [left; exact H|right; right; exact H].
    + intros c' v. rewrite zget_zset. destruct (c' =? c) eqn:E; [|apply Hstates].
      rewrite Hz. intros H. injection H as <-. lia.
    + intros c' H. rewrite zget_zset. destruct (c' =? c) eqn:E.
      * rewrite Hz. discriminate.
      * apply Hk1. destruct H as [H|[H|H]]; [tauto|lia|tauto].
    + intros p c' H. rewrite zget_zset. destruct (c' =? c) eqn:E.
      * rewrite Hz. discriminate.
      * apply (Hk2 p). exact H.
  - (* CCallback *)
    destruct (has c (cb_cbs s)) eqn:Hcb; [|discriminate].
    destruct (zget c (cb_cstate s)) as [st|] eqn:Hz; [|discriminate].
    injection Hs as <-. inv_fields HI.
    pose proof (Hstates c st Hz) as Hst.
    fin.
    + intros c' Hin. destruct (Z.eq_dec c' c) as [->|Hne].
      * destruct (st =? c_connectionClosed) eqn:Ec.
        -- apply In_del in Hin as [_ H]. contradiction.
        -- left. exists st. split; [exact Hz|lia].
      * assert (Hin' : In c' (cb_conns s)) by (destruct (st =? c_connectionClosed); [apply In_del in Hin; tauto|exact Hin]).
        destruct (Hconns c' Hin') as [H|H]; [left; exact H|right; apply in_remove1_other; assumption].
    + intros p c' Hin. destruct (st =? c_connectionActive) eqn:Ea.
      * destruct (Z.eq_dec c' c) as [->|Hne]; [left; rewrite Hz; f_equal; lia|].
        destruct (Hpeers p c' Hin) as [H|H]; [left; exact H|right; apply in_remove1_other; assumption].
      * destruct (Z.eq_dec c' c) as [->|Hne].
        -- exfalso.
           assert (Hp : In p (lget c (cb_cpeers s))) by (apply Hmember; left; eapply In_peers_drop_sub; exact Hin).
           assert (Hle : pcount (p, c) (cb_peers s) <= 1).
           { specialize (Honce (p, c)). pose proof (pcount_nonneg (p, c) (cb_checked s)).
             destruct (has_pair (p, c) (cb_ever s)); cbn [zb] in Honce; lia. }
           apply pcount_In in Hin. rewrite (peers_drop_zero _ _ _ _ Hp Hle) in Hin. lia.
        -- assert (Hin' : In (p, c') (cb_peers s)) by (eapply In_peers_drop_sub; exact Hin).
           destruct (Hpeers p c' Hin') as [H|H]; [left; exact H|right; apply in_remove1_other; assumption].
    + intros p c' [Hin|Hin]; apply Hmember; [|tauto]. left.
      destruct (st =? c_connectionActive); [exact Hin|]. eapply In_peers_drop_sub; exact Hin.
    + intros pc. specialize (Honce pc). destruct (st =? c_connectionActive); [exact Honce|].
      pose proof (peers_drop_le (lget c (cb_cpeers s)) c pc (cb_peers s)). lia.
    + intros c' [H|H]; apply Hk1.
      * left. destruct (st =? c_connectionClosed); [apply In_del in H; tauto|exact H].
      * right. eapply In_remove1_sub. exact H.
    + intros q c' [H|H]; apply (Hk2 q); [|tauto]. left.
      destruct (st =? c_connectionActive); [exact H|]. eapply In_peers_drop_sub; exact H.
  - (* CChanClose *)
    injection Hs as <-. inv_fields HI. constructor; assumption.
Qed.

Lemma BInv_run ls : forall s s', BInv s -> crun s ls = Some s' -> BInv s'.
Proof.
  induction ls as [|l r IH]; intros s s' HK Hr; cbn [crun] in Hr.
  - injection Hr as <-. exact HK.
  - destruct (cstep s l) as [s1|] eqn:Hs; [|discriminate]. eapply IH; [|exact Hr]. eapply BInv_step; eauto.
Qed.

(* Main theorem: after ANY history of connection creations, registrations (including
   Peer.addConnection interrupted between its two steps), state changes and callbacks, a
   connection in state Closed with no close-state callback pending is neither in the
   channel's connection map nor in any peer's list. *)
Theorem closed_conns_dropped : forall ls s c,
  crun cb_init ls = Some s ->
  closed_conn s c = true -> has c (cb_cbs s) = false ->
  holds_conn s c = false.
Proof.
  intros ls s c Hr Hclosed Hnocb.
  destruct (BInv_run ls _ _ BInv_init Hr) as [Hconns Hpeers _ _ _ _ _].
  unfold closed_conn in Hclosed. unfold stof in *. destruct (zget c (cb_cstate s)) as [st|] eqn:Hz; [|discriminate].
  assert (Hncb : ~ In c (cb_cbs s)) by (intros H; apply has_In in H; congruence).
  unfold holds_conn. apply orb_false_iff. split.
  - destruct (has c (cb_conns s)) eqn:Hh; [|reflexivity]. apply has_In in Hh.
    destruct (Hconns c Hh) as [(v & Hv & Hne)|H]; [|contradiction]. rewrite Hz in Hv. injection Hv as <-. lia.
  - destruct (existsb (fun pc => snd pc =? c) (cb_peers s)) eqn:He; [|reflexivity].
    apply existsb_exists in He as ([p c'] & Hin & Hc). cbn [snd] in Hc. assert (c' = c) by lia. subst c'.
    destruct (Hpeers p c Hin) as [H|H]; [|contradiction]. rewrite Hz in H. injection H as ->.
    unfold c_connectionActive, c_connectionClosed in *. lia.
Qed.

(* the same for a connection that merely left the active state: no peer lists it *)
Theorem inactive_conns_left_peers : forall ls s c st p,
  crun cb_init ls = Some s ->
  zget c (cb_cstate s) = Some st -> st <> c_connectionActive -> has c (cb_cbs s) = false ->
  ~ In (p, c) (cb_peers s).
Proof.
  intros ls s c st p Hr Hz Hne Hnocb Hin.
  destruct (BInv_run ls _ _ BInv_init Hr) as [_ Hpeers _ _ _ _ _].
  destruct (Hpeers p c Hin) as [H|H].
  - unfold stof in H. rewrite Hz in H. injection H as ->. contradiction.
  - apply has_In in H. congruence.
Qed.
