(* C08 clause (b), "no response with a gap": frames of a call the relay has already failed or
   entombed are never forwarded as the end of that call's response.

   Part A (tie).  The decisions regenerated from relay.go on every run (Gen/GenRelayGate.v:
   relayReceiveGate from Relayer.Receive, relayNonCallGate from Relayer.handleNonCallReq,
   relayFailItem from Relayer.failRelayItem) ARE the decisions of the relay bookkeeping model
   (Model/RelayItems.v: INcChk, IRcvChk, IFailGet, IEntomb).

   Part B (theorem over the model, every interleaving of readers, relay timers, tomb
   collections, connection events; fresh request ids): once a response-direction frame of a call
   was dropped because the caller's send queue was full (IRcvEnq without room), no frame that
   FINISHES that call (last call res / call res continue, error frame) is ever put on the
   caller's send queue -- the caller can never see a response that ends normally with frames
   missing.  Without relay-timer expiry no response frame at all follows the drop. *)
From Coq Require Import ZArith List Bool Lia.
From Verif Require Import Base.Wrap Gen.GenConsts Gen.GenFrame Gen.GenRelayGate Model.RelayItems Model.RelayCalm
  Proofs.RelayAssocP Proofs.RelayCoreP Proofs.RelayInv9P Proofs.RelayTimerP Proofs.RelaySilentP Proofs.RelayCalmP Proofs.RelayPairP Proofs.RelayWireP.
Import ListNotations.
Local Open Scope Z_scope.

(* ================================================================ Part A: the generated gates *)

(* both sites: not found => 0; tombstone, or a finishing frame whose timer could not be
   stopped => swallowed (1); otherwise the frame goes on (2) *)
Definition gate_spec (ok tomb finished stopped : bool) : Z :=
  if negb ok then 0 else if tomb || (finished && negb stopped) then 1 else 2.

Lemma receive_gate_spec : forall ok tomb finished stopped,
  relayReceiveGate ok tomb finished stopped = gate_spec ok tomb finished stopped.
Proof. intros [] [] [] []; reflexivity. Qed.

Lemma noncall_gate_spec : forall ok tomb finished stopped,
  relayNonCallGate ok tomb finished stopped = gate_spec ok tomb finished stopped.
Proof. intros [] [] [] []; reflexivity. Qed.

(* handleNonCallReq after its lookup (model instruction INcChk), written with the generated gate *)
Definition ncchk_generated (st : state) (k : Z) (f : frame) (ft : Z) (own : key) (g : option (item * bool)) : state * list instr :=
  let found := match g with Some _ => true | None => false end in
  let tomb := match g with Some (it, _) => it_tomb it | None => false end in
  let stopped := match g with Some (_, s) => s | None => false end in
  if relayNonCallGate found tomb (fin_of f) stopped =? 2 then
    match g with
    | Some (it, _) =>
        (st, (if (f_mt f =? c_messageTypeCallRes) && f_wf f then [ICb (it_call it) CbResp] else []) ++
             [ICb (it_call it) (if ft =? c_requestFrame then CbSent else CbRecv);
              IRcvGet {| r_d := it_dest it; r_f := with_id f (it_remap it); r_ft := ft; r_own := own;
                         r_call := it_call it; r_more := 0 |}])
    | None => (st, [])
    end
  else (st, []).

Lemma ncchk_tie : forall cf st k f ft own g room,
  exec cf st (INcChk k f ft own g) room = ncchk_generated st k f ft own g.
Proof.
  intros cf st k f ft own g room. unfold ncchk_generated. cbn [exec].
  destruct g as [[it s]|]; [|reflexivity].
  rewrite noncall_gate_spec. unfold gate_spec. cbn [negb].
  destruct (it_tomb it || (fin_of f && negb s)); reflexivity.
Qed.

(* Receive after its lookup (model instruction IRcvChk), written with the generated gate *)
Definition rcvchk_generated (st : state) (r : rcv) (rk : key) (g : option (item * bool)) : state * list instr :=
  let found := match g with Some _ => true | None => false end in
  let tomb := match g with Some (it, _) => it_tomb it | None => false end in
  let stopped := match g with Some (_, s) => s | None => false end in
  let gate := relayReceiveGate found tomb (fin_of (r_f r)) stopped in
  if gate =? 0 then (st, after_unsent r reason_not_found)
  else if gate =? 1 then (st, after_sent r)
  else
    match g with
    | Some (it, _) =>
        let f := r_f r in
        (st,
         (if (r_ft r =? c_responseFrame) || (f_mt f =? c_messageTypeCancel) then
            if dcsSucceeded (f_mt f) (f_code f) [reason_syscode (f_code f)] then [ICb (it_call it) CbSucc]
            else if 0 <? zlen (dcsFailMsg (f_mt f) (f_code f) [reason_syscode (f_code f)])
                 then [ICb (it_call it) (CbFailed (reason_of_msg (dcsFailMsg (f_mt f) (f_code f) [reason_syscode (f_code f)])))]
                 else []
          else []) ++ [IRcvEnq r rk (it_dest it, it_remap it)])
    | None => (st, [])
    end.

Lemma rcvchk_tie : forall cf st r rk g room,
  exec cf st (IRcvChk r rk g) room = rcvchk_generated st r rk g.
Proof.
  intros cf st r rk g room. unfold rcvchk_generated. cbn [exec].
  destruct g as [[it s]|]; [|reflexivity].
  rewrite receive_gate_spec. unfold gate_spec. cbn [negb].
  destruct (it_tomb it || (fin_of (r_f r) && negb s)); reflexivity.
Qed.

(* the consequence that matters for clause (b): a tombstone swallows every frame at both sites,
   whatever Stop() reports (a timer stopped by failRelayItem reports true again) *)
Lemma tomb_swallows : forall finished stopped,
  relayReceiveGate true true finished stopped = 1 /\ relayNonCallGate true true finished stopped = 1.
Proof. intros [] []; split; reflexivity. Qed.

(* failRelayItem: what follows its lookup.  0 = nothing; otherwise 1 + [1: error frame] +
   [2: call.Failed] + [4: call.End] + [8: decrementPending] *)
Definition fail_spec (found stopped entomb_ok orig source_slow : bool) : Z :=
  if found && stopped && entomb_ok then 9 + (if orig then 6 + (if source_slow then 0 else 1) else 0) else 0.

Lemma fail_item_spec : forall found stopped entomb_ok orig source_slow,
  relayFailItem found stopped entomb_ok orig source_slow = fail_spec found stopped entomb_ok orig source_slow.
Proof. intros [] [] [] [] []; reflexivity. Qed.

Definition fail_actions (code : Z) (k id c reason : Z) : list instr :=
  if code =? 9 then [IDec k]
  else if code =? 15 then [ICb c (CbFailed reason); ICb c CbEnd; IDec k]
  else if code =? 16 then [ISendErr k id c_ErrCodeUnexpected; ICb c (CbFailed reason); ICb c CbEnd; IDec k]
  else [].

(* IFailGet = the lookup (timer stopped under the lock) and the `if !found` / `if !stopped` returns *)
Lemma failget_tie : forall cf st t reason room,
  exec cf st (IFailGet t reason) room =
  let '(st', g) := items_get st t true in
  let found := match g with Some _ => true | None => false end in
  let stopped := match g with Some (_, s) => s | None => false end in
  (st', if relayFailItem found stopped true false false =? 0 then [] else [IEntomb t (FromFail reason)]).
Proof.
  intros cf st t reason room. cbn [exec]. destruct (items_get st t true) as [st' g].
  destruct g as [[it []]|]; reflexivity.
Qed.

(* IEntomb (FromFail) = Entomb and everything after it *)
Lemma entomb_fail_tie : forall cf st t reason room,
  exec cf st (IEntomb t (FromFail reason)) room =
  let '(st', g) := items_entomb cf st t in
  (st', match g with
        | Some (it, ok) =>
            fail_actions (relayFailItem true true ok (it_orig it) (reason =? reason_source_slow))
                         (key_conn t) (key_id t) (it_call it) reason
        | None => []
        end).
Proof.
  intros cf st t reason room. cbn [exec]. destruct (items_entomb cf st t) as [st' g].
  destruct g as [[it []]|]; [|reflexivity|reflexivity].
  rewrite fail_item_spec. unfold fail_spec, orig_tail. cbn [andb].
  destruct (it_orig it); [|reflexivity].
  destruct (reason =? reason_source_slow); reflexivity.
Qed.

(* ================================================================ Part B: no response with a gap *)

Definition is_resp (r : rcv) : bool := r_ft r =? c_responseFrame.

(* the send-queue attempt (IRcvEnq) a label performs, with its outcome (room) *)
Definition enq_of (st : state) (l : label) : option (rcv * bool) :=
  match l with
  | LStep t room =>
      match lookup tid_eqb t (threads st) with
      | Some (IRcvEnq r _ _ :: _) => Some (r, room)
      | _ => None
      end
  | _ => None
  end.

(* the label drops a response-direction frame: the destination-side item key (connection the
   frame was read from, id it carried there) identifies the call *)
Definition drops (st : state) (l : label) : list key :=
  match enq_of st l with
  | Some (r, false) => if is_resp r then [r_own r] else []
  | _ => []
  end.

(* the send-queue attempts of a run, in order *)
Fixpoint enq_trace (cf : config) (st : state) (ls : list label) : list (option (rcv * bool)) :=
  match ls with
  | [] => []
  | l :: rest => enq_of st l :: match step cf st l with Some st' => enq_trace cf st' rest | None => [] end
  end.

Lemma mem_key_app : forall t a b, mem_key t (a ++ b) = mem_key t a || mem_key t b.
Proof. intros. unfold mem_key. apply existsb_app. Qed.

(* no relay timer has fired unstopped: every timer is armed, stopped or released *)
Definition AS (st : state) : Prop :=
  forall tm x, zlookup tm (timers st) = Some x -> tm_armed x || tm_stopped x || tm_released x = true.

Section Gap.
(* strict = false: only frames that FINISH the call are of interest (holds for every run);
   strict = true: every response-direction frame (holds for runs in which no relay timer fires) *)
Variable strict : bool.

(* the label puts a frame that finishes a call (strict: any response frame) on the caller's send
   queue although an earlier response frame of that call (a key in D) was dropped *)
Definition gap_at (D : list key) (st : state) (l : label) : bool :=
  match enq_of st l with
  | Some (r, true) => is_resp r && (fin_of (r_f r) || strict) && mem_key (r_own r) D
  | _ => false
  end.

Fixpoint gap_free (cf : config) (st : state) (D : list key) (ls : list label) : Prop :=
  match ls with
  | [] => True
  | l :: rest =>
      gap_at D st l = false /\
      match step cf st l with
      | Some st' => gap_free cf st' (drops st l ++ D) rest
      | None => True
      end
  end.

(* ---------------------------------------------------------------- the invariant *)

(* an instruction that is past (or able to pass) the gates with a finishing response frame of X *)
Definition rcv_commit (X : key) (r : rcv) : bool := key_eqb (r_own r) X && (fin_of (r_f r) || strict) && is_resp r.
Definition committed (X : key) (j : instr) : bool :=
  match j with
  | INcChk _ f ft own (Some (it, s)) =>
      key_eqb own X && (fin_of f || strict) && (ft =? c_responseFrame) && negb (it_tomb it || (fin_of f && negb s))
  | IRcvGet r | IRcvChk r _ _ | IRcvEnq r _ _ => rcv_commit X r
  | _ => false
  end.

Definition harmless (j : instr) : bool :=
  match j with
  | IFailGet _ _ | IEntomb _ _ | ISendErr _ _ _ | ICb _ _ | IDec _ | ICheck _ => true
  | _ => false
  end.
Definition ftarget (X : key) (j : instr) : bool :=
  match j with
  | IFailGet t _ => key_eqb t X
  | IEntomb t (FromFail _) => key_eqb t X
  | _ => false
  end.
(* failRelayItem for X is still to come in this goroutine's code *)
Definition fpend (X : key) (code : list instr) : Prop :=
  exists pre j post, code = pre ++ j :: post /\ forallb harmless pre = true /\ ftarget X j = true.
Definition failing (st : state) (X : key) : Prop :=
  exists code, lookup tid_eqb (TR (key_conn X)) (threads st) = Some code /\ fpend X code.

(* a timer on which Stop() reports false for good: it fired (or was released) without having been stopped *)
Definition tdead (tms : list (Z * timer)) (tm : Z) : Prop :=
  exists x, zlookup tm tms = Some x /\ (tm_released x = true \/ (tm_armed x = false /\ tm_stopped x = false)).
Definition dead_at (its : list (key * item)) (tms : list (Z * timer)) (X : key) : Prop :=
  match klookup X its with
  | None => True
  | Some it => it_tomb it = true \/ (strict = false /\ tdead tms (it_tm it))
  end.
Definition dead (st : state) (X : key) : Prop := dead_at (items st) (timers st) X.

Definition own_of (j : instr) : option key :=
  match j with
  | INcChk _ _ _ own (Some _) => Some own
  | IRcvGet r | IRcvChk r _ _ | IRcvEnq r _ _ => Some (r_own r)
  | _ => None
  end.
Definition key_bound (cs : list (Z * conn)) (o : key) : Prop :=
  key_dir o = 1 -> key_id o < c_nextid (getc cs (key_conn o)).
Definition bound_ok (cs : list (Z * conn)) (j : instr) : Prop :=
  match own_of j with Some o => key_bound cs o | None => True end.

Record GInv (st : state) (D : list key) : Prop := {
  g_thr : forall th code j, In (th, code) (threads st) -> In j code -> thr_ok th j;
  g_bnd : forall th code j, In (th, code) (threads st) -> In j code -> bound_ok (conns st) j;
  g_dir : forall X, In X D -> key_dir X = 1;
  g_kb : forall X, In X D -> key_id X < c_nextid (getc (conns st) (key_conn X));
  g_com : forall X th code j, In X D -> In (th, code) (threads st) -> In j code -> committed X j = false;
  g_dead : forall X, In X D -> dead st X \/ failing st X
}.

(* ---------------------------------------------------------------- timers *)

Lemma tdead_insert : forall tms tm tm' y, tdead tms tm ->
  (tm' = tm -> tm_released y = true \/ (tm_armed y = false /\ tm_stopped y = false)) ->
  tdead (zinsert tm' y tms) tm.
Proof.
  intros tms tm tm' y (x&Hl&Hx) Hy. unfold tdead. rewrite zl_insert.
  destruct (tm =? tm') eqn:E.
  - apply Z.eqb_eq in E. exists y. split; [reflexivity|]. apply Hy. symmetry. exact E.
  - exists x. split; assumption.
Qed.

Lemma tdead_stop : forall st tm' st' b tm, timer_stop st tm' = (st', b) -> tdead (timers st) tm -> tdead (timers st') tm.
Proof.
  intros st tm' st' b tm H Hd. unfold timer_stop in H.
  destruct (zlookup tm' (timers st)) as [t|] eqn:El; [|inversion H; subst; exact Hd].
  destruct (tm_released t) eqn:Er; [inversion H; subst; exact Hd|].
  destruct (tm_stopped t) eqn:Es; [inversion H; subst; exact Hd|].
  destruct (tm_armed t) eqn:Ea; inversion H; subst; [|exact Hd].
  cbn [set_timers timers]. apply tdead_insert; [exact Hd|]. intros ->.
  destruct Hd as (x&Hl&Hx). rewrite El in Hl. inversion Hl. subst x.
  destruct Hx as [Hx|[Hx _]]; congruence.
Qed.

Lemma tdead_release : forall st tm' tm, tdead (timers st) tm -> tdead (timers (timer_release st tm')) tm.
Proof.
  intros st tm' tm Hd. unfold timer_release.
  destruct (zlookup tm' (timers st)) as [t|] eqn:El; [|exact Hd].
  destruct (tm_released t); [exact Hd|]. destruct (tm_active t); [exact Hd|].
  cbn [set_timers timers]. apply tdead_insert; [exact Hd|]. intros _. left. reflexivity.
Qed.

Lemma tdead_new : forall st t o st' tm' tm, timer_new st t o = (st', tm') -> tm < next_tm st ->
  tdead (timers st) tm -> tdead (timers st') tm.
Proof.
  intros st t o st' tm' tm H Hlt Hd. unfold timer_new in H. inversion H. subst. cbn [set_next_tm set_timers timers].
  apply tdead_insert; [exact Hd|]. intro Heq. lia.
Qed.

Lemma tdead_lt : forall st tm, TInv st -> tdead (timers st) tm -> tm < next_tm st.
Proof. intros st tm HT (x&Hl&_). destruct (t_alloc _ HT _ _ Hl) as [H _]. exact H. Qed.

(* ---------------------------------------------------------------- dead is stable *)

Lemma dead_same : forall st st' X, items st' = items st -> timers st' = timers st -> dead st X -> dead st' X.
Proof. intros st st' X Hi Ht H. unfold dead in *. rewrite Hi, Ht. exact H. Qed.

Lemma get_dead : forall st t stop st' g X, items_get st t stop = (st', g) -> dead st X -> dead st' X.
Proof.
  intros st t stop st' g X H Hd. unfold items_get in H.
  destruct (klookup t (items st)) as [it|]; [|inversion H; subst; exact Hd].
  destruct stop; [|inversion H; subst; exact Hd].
  destruct (timer_stop st (it_tm it)) as [st2 b] eqn:E. inversion H. subst st2 g.
  destruct (timer_stop_core _ _ _ _ E) as (_&Hi&_).
  unfold dead, dead_at in *. rewrite Hi. destruct (klookup X (items st)) as [itx|]; [|exact I].
  destruct Hd as [Hd|[Hs Hd]]; [left; exact Hd|right; split; [exact Hs|]]. eapply tdead_stop; eassumption.
Qed.

Lemma delete_dead : forall st t st' g X, items_delete st t = (st', g) -> dead st X -> dead st' X.
Proof.
  intros st t st' g X H Hd. unfold items_delete in H.
  destruct (klookup t (items st)) as [it|] eqn:El; [|inversion H; subst; exact Hd].
  inversion H. subst st' g. clear H.
  destruct (timer_release_core (set_items st (kremove t (items st))) (it_tm it)) as (_&Hi&_).
  unfold dead, dead_at in *. rewrite Hi. cbn [set_items items].
  destruct (key_eqb X t) eqn:E.
  - apply key_eqb_ok in E. subst. rewrite (lookup_remove_eq key_eqb key_eqb_ok). exact I.
  - rewrite (lookup_remove_neq key_eqb key_eqb_ok) by (intro Hx; subst; rewrite (eqb_refl key_eqb key_eqb_ok) in E; discriminate).
    destruct (klookup X (items st)) as [itx|]; [|exact I].
    destruct Hd as [Hd|[Hs Hd]]; [left; exact Hd|right; split; [exact Hs|]]. apply tdead_release. exact Hd.
Qed.

Lemma delete_call_dead : forall st t lk st' g X, items_delete_call st t lk = (st', g) -> dead st X -> dead st' X.
Proof.
  intros st t lk st' g X H Hd. destruct (items_delete_call_cases st t lk) as [E|[E _]]; rewrite E in H.
  - eapply delete_dead; eassumption.
  - inversion H. subst. exact Hd.
Qed.

Lemma delete_tomb_dead : forall st t X, dead st X -> dead (items_delete_tomb st t) X.
Proof.
  intros st t X Hd. unfold items_delete_tomb.
  destruct (klookup t (items st)) as [it|] eqn:El; [|exact Hd].
  destruct (it_tomb it) eqn:Et; [|exact Hd].
  assert (E : items_delete st t = (timer_release (set_items st (kremove t (items st))) (it_tm it), Some (it, negb (it_tomb it)))).
  { unfold items_delete. rewrite El. reflexivity. }
  eapply delete_dead; [exact E|exact Hd].
Qed.

Lemma entomb_dead : forall cf st t st' g X, items_entomb cf st t = (st', g) -> dead st X -> dead st' X.
Proof.
  intros cf st t st' g X H Hd. unfold items_entomb in H.
  destruct (cf_maxtombs cf <? tomb_count st (key_conn t) (key_dir t)); [eapply delete_dead; eassumption|].
  destruct (klookup t (items st)) as [it|] eqn:El; [|inversion H; subst; exact Hd].
  destruct (it_tomb it) eqn:Et; inversion H; subst; [exact Hd|].
  unfold dead, dead_at in *. cbn [set_gcs set_items items timers].
  destruct (key_eqb X t) eqn:E.
  - apply key_eqb_ok in E. subst. rewrite (lookup_insert_eq key_eqb key_eqb_ok). left. reflexivity.
  - rewrite (lookup_insert_neq key_eqb key_eqb_ok) by (intro Hx; subst; rewrite (eqb_refl key_eqb key_eqb_ok) in E; discriminate).
    exact Hd.
Qed.

Lemma exec_dead : forall cf st i room st1 pushed X, Inv st -> TInv st ->
  exec cf st i room = (st1, pushed) ->
  key_dir X = 1 -> key_id X < c_nextid (getc (conns st) (key_conn X)) ->
  dead st X -> dead st1 X.
Proof.
  intros cf st i room st1 pushed X HI HT H Hdir Hkb Hd.
  destruct (is_pure i) eqn:Ep.
  { destruct (exec_pure_frame _ _ _ _ _ _ Ep H) as (Ht&Hi&_). eapply dead_same; eassumption. }
  destruct i; try discriminate; cbn [exec] in H.
  - (* IAddDest *)
    set (cn := get_conn st d) in *.
    set (st0 := put_conn st d {| c_state := c_state cn; c_pending := c_pending cn; c_nextid := c_nextid cn + 1 |}) in *.
    destruct (timer_new st0 (d, 1, c_nextid cn) false) as [st2 tm] eqn:E. inversion H. subst st1 pushed. clear H.
    destruct (timer_new_core _ _ _ _ _ E) as (_&Hi2&_).
    unfold dead, dead_at in *. cbn [set_items items timers]. rewrite Hi2. cbn [st0 put_conn set_conns items].
    rewrite (lookup_insert_neq key_eqb key_eqb_ok).
    + destruct (klookup X (items st)) as [itx|]; [|exact I].
      destruct Hd as [Hd|[Hs Hd]]; [left; exact Hd|right; split; [exact Hs|]].
      eapply tdead_new; [exact E| |exact Hd]. cbn [st0 put_conn set_conns next_tm]. eapply tdead_lt; eassumption.
    + intro Hx. subst X. cbn [key_conn key_id fst snd] in Hkb. unfold cn in Hkb. rewrite get_conn_getc in Hkb. lia.
  - (* IAddOrig *)
    destruct (timer_new st (k, 0, f_id f) true) as [st2 tm] eqn:E. inversion H. subst st1 pushed. clear H.
    destruct (timer_new_core _ _ _ _ _ E) as (_&Hi2&_).
    unfold dead, dead_at in *. cbn [set_items items timers]. rewrite Hi2.
    rewrite (lookup_insert_neq key_eqb key_eqb_ok).
    + destruct (klookup X (items st)) as [itx|]; [|exact I].
      destruct Hd as [Hd|[Hs Hd]]; [left; exact Hd|right; split; [exact Hs|]].
      eapply tdead_new; [exact E| |exact Hd]. eapply tdead_lt; eassumption.
    + intro Hx. subst X. cbn in Hdir. discriminate.
  - (* INcGet *)
    destruct (frameTypeFor (f_mt f)); [|inversion H; subst; exact Hd].
    match type of H with context [items_get ?a ?b ?cc] => destruct (items_get a b cc) as [st' g] eqn:E end.
    inversion H. subst. eapply get_dead; eassumption.
  - (* IRcvGet *)
    match type of H with context [items_get ?a ?b ?cc] => destruct (items_get a b cc) as [st' g] eqn:E end.
    inversion H. subst. eapply get_dead; eassumption.
  - (* IFailGet *)
    destruct (items_get st t true) as [st' g] eqn:E.
    assert (st1 = st') by (destruct g as [[it [|]]|]; inversion H; reflexivity). subst. eapply get_dead; eassumption.
  - (* IEntomb *)
    destruct (items_entomb cf st t) as [st' g] eqn:E.
    assert (st1 = st') by (destruct g as [[it [|]]|]; inversion H; reflexivity). subst. eapply entomb_dead; eassumption.
  - (* IDelete *)
    destruct (items_delete_call st t lk) as [st' g] eqn:E.
    assert (st1 = st') by (destruct g as [[it [|]]|]; inversion H; reflexivity). subst. eapply delete_call_dead; eassumption.
  - (* ITimerRun *)
    destruct (zlookup tm (timers st)) as [x|] eqn:El; [|inversion H; subst; exact Hd].
    destruct (tm_released x) eqn:Er; inversion H; subst; [exact Hd|].
    unfold dead, dead_at in *. cbn [set_timers items timers].
    destruct (klookup X (items st)) as [itx|]; [|exact I].
    destruct Hd as [Hd|[Hs Hd]]; [left; exact Hd|right; split; [exact Hs|]].
    apply tdead_insert; [exact Hd|]. intros ->. cbn.
    destruct Hd as (x0&Hl0&Hx0). rewrite El in Hl0. inversion Hl0. subst x0.
    destruct Hx0 as [Hx0|Hx0]; [congruence|right; exact Hx0].
Qed.

(* ---------------------------------------------------------------- what an instruction pushes *)

Lemma key_bound_mono : forall cs cs' o, (forall k, c_nextid (getc cs k) <= c_nextid (getc cs' k)) ->
  key_bound cs o -> key_bound cs' o.
Proof. intros cs cs' o Hm H Hd. specialize (H Hd). specialize (Hm (key_conn o)). lia. Qed.

Lemma bound_ok_mono : forall cs cs' j, (forall k, c_nextid (getc cs k) <= c_nextid (getc cs' k)) ->
  bound_ok cs j -> bound_ok cs' j.
Proof. intros cs cs' j Hm H. unfold bound_ok in *. destruct (own_of j); [eapply key_bound_mono; eassumption|exact I]. Qed.

Lemma exec_nextid_le : forall cf st i room st1 pushed, exec cf st i room = (st1, pushed) ->
  forall k, c_nextid (getc (conns st) k) <= c_nextid (getc (conns st1) k).
Proof.
  intros cf st i room st1 pushed H k. rewrite (exec_nextid _ _ _ _ _ _ H k).
  destruct i; try lia. destruct (k =? d); cbn; lia.
Qed.

Lemma after_sent_bound : forall cs r j, key_bound cs (r_own r) -> In j (after_sent r) -> bound_ok cs j.
Proof.
  intros cs r j H Hj. unfold after_sent in Hj. apply in_app_or in Hj. destruct Hj as [Hj|Hj].
  - destruct (fin_of (r_f r)); [|contradiction]. destruct Hj as [<-|[]]. exact I.
  - destruct (0 <? r_more r); [|contradiction]. destruct Hj as [<-|[<-|[]]]; [exact I|]. exact H.
Qed.

Lemma pushed_bound : forall cf st i room st1 pushed j, Inv st -> exec cf st i room = (st1, pushed) ->
  bound_ok (conns st) i -> In j pushed -> bound_ok (conns st1) j.
Proof.
  intros cf st i room st1 pushed j HI H Hi Hj.
  pose proof (exec_nextid_le _ _ _ _ _ _ H) as Hm.
  destruct i; cbn [exec] in H.
  - destruct (e_start e =? 0); inversion H; subst; clear H; in_cases Hj; exact I.
  - destruct (c_state (get_conn st k) =? c_connectionActive); inversion H; subst; clear H; in_cases Hj; exact I.
  - destruct (klookup (k, 0, f_id f) (items st)); [|destruct (e_dest e =? -1); [|destruct (e_dest e <? 0)]];
      inversion H; subst; clear H; in_cases Hj; exact I.
  - destruct (c_state (get_conn st d) =? c_connectionActive); inversion H; subst; clear H; in_cases Hj; exact I.
  - unfold timer_new in H. cbn [fst snd] in H. inversion H; subst; clear H. in_cases Hj; exact I.
  - unfold timer_new in H. cbn [fst snd] in H. inversion H; subst; clear H. in_cases Hj; try exact I.
    unfold bound_ok, key_bound. cbn. intro X. discriminate.
  - inversion H; subst. contradiction.
  - inversion H; subst. destruct Hj as [<-|[]]. exact I.
  - match type of H with (if ?b then _ else _) = _ => destruct b end; inversion H; subst; contradiction.
  - destruct ((c_state (get_conn st k) =? c_connectionClosed) || negb room); inversion H; subst; contradiction.
  - destruct (c_state (get_conn st k) =? c_connectionActive); inversion H; subst; contradiction.
  - (* INcGet *)
    destruct (frameTypeFor (f_mt f)) as [ft|]; [|inversion H; subst; contradiction].
    match type of H with context [items_get ?a ?b ?cc] => destruct (items_get a b cc) as [st' g] eqn:E end.
    inversion H; subst. destruct Hj as [<-|[]].
    destruct (items_get_spec _ _ _ _ _ E) as [(Hc&_) Hg].
    unfold bound_ok. destruct g as [[it b]|]; [|exact I]. cbn [own_of].
    destruct (klookup (k, if ft =? c_responseFrame then 1 else 0, f_id f) (items st)) as [it0|] eqn:El; [|discriminate].
    intro Hd. rewrite Hc.
    destruct (inv_keys _ HI (k, if ft =? c_responseFrame then 1 else 0, f_id f)) as [[Hd0 _]|[_ Hb]].
    + left. apply in_map_iff. exists ((k, if ft =? c_responseFrame then 1 else 0, f_id f), it0). split; [reflexivity|].
      eapply (lookup_in key_eqb key_eqb_ok). exact El.
    + congruence.
    + exact Hb.
  - (* INcChk *)
    destruct g as [[it stopped]|]; [|inversion H; subst; contradiction].
    destruct (it_tomb it || (fin_of f && negb stopped)); inversion H; subst; [contradiction|].
    in_cases Hj; try exact I. exact Hi.
  - (* IRcvGet *)
    match type of H with context [items_get ?a ?b ?cc] => destruct (items_get a b cc) as [st' g] eqn:E end.
    inversion H; subst. destruct Hj as [<-|[]].
    destruct (items_get_spec _ _ _ _ _ E) as [(Hc&_) _]. unfold bound_ok in *. cbn [own_of] in *. rewrite Hc. exact Hi.
  - (* IRcvChk *)
    unfold bound_ok in Hi. cbn [own_of] in Hi. destruct g as [[it stopped]|].
    + destruct (it_tomb it || (fin_of (r_f r) && negb stopped)); inversion H; subst; clear H.
      * eapply after_sent_bound; eassumption.
      * apply in_app_or in Hj. destruct Hj as [Hj|[<-|[]]]; [in_cases Hj; exact I|]. exact Hi.
    + inversion H; subst. in_cases Hj. exact I.
  - (* IRcvEnq *)
    unfold bound_ok in Hi. cbn [own_of] in Hi. destruct room; inversion H; subst; clear H.
    + apply in_app_or in Hj. destruct Hj as [Hj|Hj]; [in_cases Hj; exact I|eapply after_sent_bound; eassumption].
    + in_cases Hj; exact I.
  - destruct (items_get st t true) as [st' g]. destruct g as [[it [|]]|]; inversion H; subst; try contradiction.
    destruct Hj as [<-|[]]. exact I.
  - destruct (items_entomb cf st t) as [st' g]. destruct g as [[it [|]]|]; inversion H; subst; try contradiction.
    apply in_app_or in Hj. destruct Hj as [Hj|[<-|[]]]; [|exact I].
    destruct (match s with FromFail _ => it_orig it | FromTimeout o => o end); [|contradiction].
    unfold orig_tail in Hj. destruct s; in_cases Hj; exact I.
  - destruct (items_delete_call st t lk) as [st' g]. destruct g as [[it [|]]|]; inversion H; subst; try contradiction.
    in_cases Hj; exact I.
  - destruct (zlookup tm (timers st)) as [x0|]; [|inversion H; subst; contradiction].
    destruct (tm_released x0); inversion H; subst; try contradiction. destruct Hj as [<-|[]]. exact I.
Qed.

Lemma resp_req_false : (c_requestFrame =? c_responseFrame) = false.
Proof. reflexivity. Qed.

Lemma after_sent_uncommitted : forall X r j, (0 < r_more r -> r_ft r = c_requestFrame) ->
  In j (after_sent r) -> committed X j = false.
Proof.
  intros X r j Hm Hj. unfold after_sent in Hj. apply in_app_or in Hj. destruct Hj as [Hj|Hj].
  - destruct (fin_of (r_f r)); [|contradiction]. destruct Hj as [<-|[]]. reflexivity.
  - destruct (0 <? r_more r) eqn:Em; [|contradiction]. destruct Hj as [<-|[<-|[]]]; [reflexivity|].
    cbn [committed]. unfold rcv_commit, is_resp. cbn [r_ft]. apply Z.ltb_lt in Em. rewrite (Hm Em), resp_req_false.
    apply andb_false_r.
Qed.

(* the lookup of a dead item: a tombstone, or (non-strict) Stop() reports false *)
Lemma get_of_dead : forall st X stop st' it b, dead st X -> items_get st X stop = (st', Some (it, b)) ->
  it_tomb it = true \/ (strict = false /\ (stop = true -> b = false)).
Proof.
  intros st X stop st' it b Hd H. unfold items_get in H. unfold dead, dead_at in Hd.
  destruct (klookup X (items st)) as [it0|]; [|discriminate].
  destruct stop.
  - destruct (timer_stop st (it_tm it0)) as [st2 b2] eqn:E. inversion H. subst it0 b2 st2.
    destruct Hd as [Hd|[Hs (x&Hl&Hx)]]; [left; exact Hd|right]. split; [exact Hs|]. intros _.
    unfold timer_stop in E. rewrite Hl in E.
    destruct (tm_released x) eqn:Er; [inversion E; reflexivity|].
    destruct Hx as [Hx|[Ha Hst]]; [congruence|]. rewrite Hst, Ha in E. inversion E. reflexivity.
  - inversion H. subst it0 b st'. destruct Hd as [Hd|[Hs _]]; [left; exact Hd|right]. split; [exact Hs|]. intro Hx. discriminate.
Qed.

Lemma pushed_committed : forall cf st i room st1 pushed X j, exec cf st i room = (st1, pushed) ->
  committed X i = false -> wok (seen st) i ->
  (forall k f ft, i = INcGet k f -> frameTypeFor (f_mt f) = Some ft ->
     (k, (if ft =? c_responseFrame then 1 else 0), f_id f) = X -> dead st X) ->
  In j pushed -> committed X j = false.
Proof.
  intros cf st i room st1 pushed X j H Hi Hw Hdead Hj. destruct i; cbn [exec] in H.
  - destruct (e_start e =? 0); inversion H; subst; clear H; in_cases Hj; reflexivity.
  - destruct (c_state (get_conn st k) =? c_connectionActive); inversion H; subst; clear H; in_cases Hj; reflexivity.
  - destruct (klookup (k, 0, f_id f) (items st)); [|destruct (e_dest e =? -1); [|destruct (e_dest e <? 0)]];
      inversion H; subst; clear H; in_cases Hj; reflexivity.
  - destruct (c_state (get_conn st d) =? c_connectionActive); inversion H; subst; clear H; in_cases Hj; reflexivity.
  - unfold timer_new in H. cbn [fst snd] in H. inversion H; subst; clear H. in_cases Hj; reflexivity.
  - unfold timer_new in H. cbn [fst snd] in H. inversion H; subst; clear H. in_cases Hj; try reflexivity.
    cbn [committed]. unfold rcv_commit, is_resp. cbn [r_ft]. rewrite resp_req_false. apply andb_false_r.
  - inversion H; subst. contradiction.
  - inversion H; subst. destruct Hj as [<-|[]]. reflexivity.
  - match type of H with (if ?b then _ else _) = _ => destruct b end; inversion H; subst; contradiction.
  - destruct ((c_state (get_conn st k) =? c_connectionClosed) || negb room); inversion H; subst; contradiction.
  - destruct (c_state (get_conn st k) =? c_connectionActive); inversion H; subst; contradiction.
  - (* INcGet *)
    destruct (frameTypeFor (f_mt f)) as [ft|] eqn:Eft; [|inversion H; subst; contradiction].
    match type of H with context [items_get ?a ?b ?cc] => destruct (items_get a b cc) as [st' g] eqn:E end.
    inversion H; subst. destruct Hj as [<-|[]]. cbn [committed].
    destruct g as [[it b]|]; [|reflexivity].
    destruct (key_eqb (k, if ft =? c_responseFrame then 1 else 0, f_id f) X) eqn:Ek; [|reflexivity].
    destruct (fin_of f || strict) eqn:Ef; [|reflexivity].
    apply key_eqb_ok in Ek. pose proof (Hdead k f ft eq_refl Eft Ek) as Hd. rewrite Ek in E.
    destruct (get_of_dead _ _ _ _ _ _ Hd E) as [Ht|[Hs Hb]].
    + rewrite Ht. cbn. apply andb_false_r.
    + rewrite Hs, orb_false_r in Ef. rewrite Ef, (Hb Ef). cbn. rewrite orb_true_r. apply andb_false_r.
  - (* INcChk *)
    destruct g as [[it stopped]|]; [|inversion H; subst; contradiction].
    cbn [committed] in Hi.
    destruct (it_tomb it || (fin_of f && negb stopped)) eqn:Eg; inversion H; subst; [contradiction|]. clear H.
    try rewrite Eg in Hi. cbn [negb] in Hi. rewrite andb_true_r in Hi.
    in_cases Hj; try reflexivity.
    cbn [committed]. unfold rcv_commit, is_resp. cbn [r_own r_f r_ft]. rewrite fin_with_id. exact Hi.
  - (* IRcvGet *)
    match type of H with context [items_get ?a ?b ?cc] => destruct (items_get a b cc) as [st' g] end.
    inversion H; subst. destruct Hj as [<-|[]]. exact Hi.
  - (* IRcvChk *)
    cbn [wok] in Hw. destruct Hw as (_&_&Hm). destruct g as [[it stopped]|].
    + destruct (it_tomb it || (fin_of (r_f r) && negb stopped)); inversion H; subst; clear H.
      * eapply after_sent_uncommitted; [exact Hm|exact Hj].
      * apply in_app_or in Hj. destruct Hj as [Hj|[<-|[]]]; [in_cases Hj; reflexivity|]. exact Hi.
    + inversion H; subst. in_cases Hj. reflexivity.
  - (* IRcvEnq *)
    cbn [wok] in Hw. destruct Hw as (_&_&Hm). destruct room; inversion H; subst; clear H.
    + apply in_app_or in Hj. destruct Hj as [Hj|Hj]; [in_cases Hj; reflexivity|eapply after_sent_uncommitted; [exact Hm|exact Hj]].
    + in_cases Hj; reflexivity.
  - destruct (items_get st t true) as [st' g]. destruct g as [[it [|]]|]; inversion H; subst; try contradiction.
    destruct Hj as [<-|[]]. reflexivity.
  - destruct (items_entomb cf st t) as [st' g]. destruct g as [[it [|]]|]; inversion H; subst; try contradiction.
    apply in_app_or in Hj. destruct Hj as [Hj|[<-|[]]]; [|reflexivity].
    destruct (match s with FromFail _ => it_orig it | FromTimeout o => o end); [|contradiction].
    unfold orig_tail in Hj. destruct s; in_cases Hj; reflexivity.
  - destruct (items_delete_call st t lk) as [st' g]. destruct g as [[it [|]]|]; inversion H; subst; try contradiction.
    in_cases Hj; reflexivity.
  - destruct (zlookup tm (timers st)) as [x0|]; [|inversion H; subst; contradiction].
    destruct (tm_released x0); inversion H; subst; try contradiction. destruct Hj as [<-|[]]. reflexivity.
Qed.

Lemma pushed_harmless : forall cf st i room st1 pushed j, exec cf st i room = (st1, pushed) ->
  harmless i = true -> In j pushed -> harmless j = true.
Proof.
  intros cf st i room st1 pushed j H Hi Hj. destruct i; try discriminate; cbn [exec] in H.
  - inversion H; subst. contradiction.
  - inversion H; subst. destruct Hj as [<-|[]]. reflexivity.
  - match type of H with (if ?b then _ else _) = _ => destruct b end; inversion H; subst; contradiction.
  - destruct ((c_state (get_conn st k) =? c_connectionClosed) || negb room); inversion H; subst; contradiction.
  - destruct (items_get st t true) as [st' g]. destruct g as [[it [|]]|]; inversion H; subst; try contradiction.
    destruct Hj as [<-|[]]. reflexivity.
  - destruct (items_entomb cf st t) as [st' g]. destruct g as [[it [|]]|]; inversion H; subst; try contradiction.
    apply in_app_or in Hj. destruct Hj as [Hj|[<-|[]]]; [|reflexivity].
    destruct (match s with FromFail _ => it_orig it | FromTimeout o => o end); [|contradiction].
    unfold orig_tail in Hj. destruct s; in_cases Hj; reflexivity.
Qed.

(* ---------------------------------------------------------------- small facts *)

Lemma committed_thread : forall X th j, committed X j = true -> thr_ok th j -> th = TR (key_conn X).
Proof.
  intros X th j Hc Ht. destruct j; cbn [committed] in Hc; try discriminate.
  - destruct g as [[it s]|]; [|discriminate].
    repeat (apply andb_true_iff in Hc; destruct Hc as [Hc ?]). apply key_eqb_ok in Hc. subst own.
    cbn [thr_ok] in Ht. destruct Ht as [-> ->]. reflexivity.
  - unfold rcv_commit, is_resp in Hc. repeat (apply andb_true_iff in Hc; destruct Hc as [Hc ?]).
    apply key_eqb_ok in Hc. subst X. apply Z.eqb_eq in H. cbn [thr_ok] in Ht. destruct (Ht H) as [-> _]. reflexivity.
  - unfold rcv_commit, is_resp in Hc. repeat (apply andb_true_iff in Hc; destruct Hc as [Hc ?]).
    apply key_eqb_ok in Hc. subst X. apply Z.eqb_eq in H. cbn [thr_ok] in Ht. destruct Ht as [_ Ht]. destruct (Ht H) as [-> _]. reflexivity.
  - unfold rcv_commit, is_resp in Hc. repeat (apply andb_true_iff in Hc; destruct Hc as [Hc ?]).
    apply key_eqb_ok in Hc. subst X. apply Z.eqb_eq in H. cbn [thr_ok] in Ht. destruct Ht as [_ Ht]. destruct (Ht H) as [-> _]. reflexivity.
Qed.

Lemma quiet_uncommitted : forall X j, quiet j = true -> committed X j = false.
Proof. intros X j H. destruct j; cbn in *; try discriminate; reflexivity. Qed.

Lemma fpend_head : forall X i rest, fpend X (i :: rest) ->
  ftarget X i = true \/ (harmless i = true /\ fpend X rest).
Proof.
  intros X i rest (pre&j&post&Hc&Hp&Ht). destruct pre as [|a pre'].
  - cbn in Hc. inversion Hc. subst. left. exact Ht.
  - cbn in Hc. inversion Hc. subst. cbn in Hp. apply andb_true_iff in Hp. destruct Hp as [Ha Hp].
    right. split; [exact Ha|]. exists pre', j, post. repeat split; assumption.
Qed.

Lemma fpend_push : forall X pushed rest, (forall j, In j pushed -> harmless j = true) -> fpend X rest -> fpend X (pushed ++ rest).
Proof.
  intros X pushed rest Hh (pre&j&post&Hc&Hp&Ht). exists (pushed ++ pre), j, post. subst rest.
  split; [rewrite app_assoc; reflexivity|]. split; [|exact Ht].
  rewrite forallb_app, Hp, andb_true_r. apply forallb_forall. exact Hh.
Qed.

Lemma fpend_nonempty : forall X code, fpend X code -> code <> [].
Proof. intros X code (pre&j&post&Hc&_) ->. destruct pre; discriminate. Qed.

Lemma lookup_self_fpend : forall st th X code, fpend X code ->
  lookup tid_eqb th (threads (set_thread st th code)) = Some code.
Proof.
  intros st th X code Hp. rewrite lookup_set_thread_self. destruct code; [|reflexivity].
  exfalso. eapply fpend_nonempty; [exact Hp|reflexivity].
Qed.

Lemma dead_set_thread : forall st th code X, dead (set_thread st th code) X <-> dead st X.
Proof. intros. unfold dead. reflexivity. Qed.

(* failRelayItem's lookup found the timer fired (Stop() = false) or no item: dead from now on *)
Lemma get_false_dead : forall st X st2 it, strict = false -> TInv st -> items_get st X true = (st2, Some (it, false)) -> dead st2 X.
Proof.
  intros st X st2 it Hstrict HT H. unfold items_get in H.
  destruct (klookup X (items st)) as [it0|] eqn:El; [|discriminate].
  destruct (timer_stop st (it_tm it0)) as [st3 b] eqn:E. inversion H. subst it0 b st3.
  destruct (t_item _ HT _ _ (lookup_in key_eqb key_eqb_ok _ _ _ El)) as (x&Hl&_&Hr).
  destruct (timer_stop_spec _ _ _ _ _ Hl Hr E) as (_&_&(_&Hi&_)&Hc).
  unfold dead, dead_at. rewrite Hi, El. right.
  destruct Hc as [(Hb&_)|[(Hb&_)|(_&Hs&Ha&Htm)]]; try discriminate.
  split; [exact Hstrict|]. exists x. rewrite Htm. split; [exact Hl|right; split; assumption].
Qed.

(* ... which cannot happen while no timer has fired *)
Lemma get_false_as : forall st X st2 it, TInv st -> AS st -> items_get st X true = (st2, Some (it, false)) -> False.
Proof.
  intros st X st2 it HT HA H. unfold items_get in H.
  destruct (klookup X (items st)) as [it0|] eqn:El; [|discriminate].
  destruct (timer_stop st (it_tm it0)) as [st3 b] eqn:E. inversion H. subst it0 b st3.
  destruct (t_item _ HT _ _ (lookup_in key_eqb key_eqb_ok _ _ _ El)) as (x&Hl&_&Hr).
  destruct (timer_stop_spec _ _ _ _ _ Hl Hr E) as (_&_&_&Hc).
  destruct Hc as [(Hb&_)|[(Hb&_)|(_&Hs&Ha&_)]]; try discriminate.
  pose proof (HA _ _ Hl) as Hx. rewrite Hs, Ha, Hr in Hx. discriminate.
Qed.

Lemma get_none_dead : forall st X stop st2, items_get st X stop = (st2, None) -> dead st2 X.
Proof.
  intros st X stop st2 H. unfold items_get in H.
  destruct (klookup X (items st)) as [it0|] eqn:El.
  - destruct stop; [destruct (timer_stop st (it_tm it0)); discriminate|discriminate].
  - inversion H. subst. unfold dead, dead_at. rewrite El. exact I.
Qed.

Lemma entomb_makes_dead : forall cf st X st2 g, items_entomb cf st X = (st2, g) -> dead st2 X.
Proof.
  intros cf st X st2 g H. apply items_entomb_spec in H. destruct H as (_&_&_&_&_&_&H).
  unfold dead, dead_at. destruct (klookup X (items st)) as [it|] eqn:El.
  - destruct H as [(_&Hi&_)|[(Ht&_&Hi&_)|(_&_&Hi&_)]]; rewrite Hi.
    + rewrite (lookup_remove_eq key_eqb key_eqb_ok). exact I.
    + rewrite El. left. exact Ht.
    + rewrite (lookup_insert_eq key_eqb key_eqb_ok). left. reflexivity.
  - destruct H as (_&Hi&_). rewrite Hi, El. exact I.
Qed.

(* ---------------------------------------------------------------- preservation *)

Lemma GInv_frame : forall st st' D, threads st' = threads st ->
  (forall k, c_nextid (getc (conns st) k) <= c_nextid (getc (conns st') k)) ->
  (forall X, dead st X -> dead st' X) -> GInv st D -> GInv st' D.
Proof.
  intros st st' D Hth Hm Hd HG. constructor.
  - intros th code j Hin Hj. rewrite Hth in Hin. eapply (g_thr _ _ HG); eassumption.
  - intros th code j Hin Hj. rewrite Hth in Hin. eapply bound_ok_mono; [exact Hm|]. eapply (g_bnd _ _ HG); eassumption.
  - exact (g_dir _ _ HG).
  - intros X HX. pose proof (g_kb _ _ HG X HX). specialize (Hm (key_conn X)). lia.
  - intros X th code j HX Hin Hj. rewrite Hth in Hin. eapply (g_com _ _ HG); eassumption.
  - intros X HX. destruct (g_dead _ _ HG X HX) as [H|H]; [left; apply Hd; exact H|right].
    unfold failing in *. rewrite Hth. exact H.
Qed.

Lemma GInv_new_thread : forall st st0 D th code, GInv st D ->
  threads st0 = threads st -> conns st0 = conns st -> (forall X, dead st X -> dead st0 X) ->
  (forall X, failing st X -> TR (key_conn X) <> th) ->
  (forall j, In j code -> thr_ok th j /\ own_of j = None /\ forall X, committed X j = false) ->
  GInv (set_thread st0 th code) D.
Proof.
  intros st st0 D th code HG Hth Hc Hd Hnf Hcode.
  assert (Hnew : forall th' code', In (th', code') (threads (set_thread st0 th code)) ->
            (th' = th /\ code' = code) \/ (th' <> th /\ In (th', code') (threads st))).
  { intros th' code' Hin. apply set_thread_in in Hin. rewrite Hth in Hin. exact Hin. }
  constructor.
  - intros th' code' j Hin Hj. destruct (Hnew _ _ Hin) as [[-> ->]|[_ Hin']].
    + apply Hcode. exact Hj.
    + eapply (g_thr _ _ HG); eassumption.
  - intros th' code' j Hin Hj. cbn [set_thread set_threads conns]. rewrite Hc. destruct (Hnew _ _ Hin) as [[-> ->]|[_ Hin']].
    + unfold bound_ok. destruct (Hcode j Hj) as (_&Ho&_). rewrite Ho. exact I.
    + eapply (g_bnd _ _ HG); eassumption.
  - exact (g_dir _ _ HG).
  - intros X HX. cbn [set_thread set_threads conns]. rewrite Hc. exact (g_kb _ _ HG X HX).
  - intros X th' code' j HX Hin Hj. destruct (Hnew _ _ Hin) as [[-> ->]|[_ Hin']].
    + apply Hcode. exact Hj.
    + eapply (g_com _ _ HG); eassumption.
  - intros X HX. destruct (g_dead _ _ HG X HX) as [H|H]; [left; apply dead_set_thread; apply Hd; exact H|right].
    pose proof (Hnf X H) as Hne. destruct H as (c0&Hl&Hp). exists c0. split; [|exact Hp].
    rewrite tlookup_set_thread_other by exact Hne. rewrite Hth. exact Hl.
Qed.

Lemma GInv_init : GInv init [].
Proof. constructor; cbn; intros; contradiction. Qed.

Lemma step_ginv : forall cf st D l st', Inv st -> TInv st -> Shape st -> WInv st -> (strict = true -> AS st) -> GInv st D ->
  step cf st l = Some st' -> GInv st' (drops st l ++ D).
Proof.
  intros cf st D l st' HI HT HS HW HA HG H.
  unfold step in H. destruct (negb (panicked st =? 0)); [discriminate|].
  destruct l as [k f e|th room|tm|t|k|k|k].
  - (* LArrive *)
    cbn [drops enq_of app].
    destruct (lookup tid_eqb (TR k) (threads st)) eqn:El; [discriminate|].
    assert (Hnf : forall X, failing st X -> TR (key_conn X) <> TR k).
    { intros X (c0&Hl&_) Heq. rewrite Heq in Hl. congruence. }
    destruct (relayRoute (f_mt f) (cf_cancel cf) =? 1); [|inversion H; subst; exact HG].
    destruct (f_mt f =? c_messageTypeCallReq); inversion H; subst; clear H.
    + eapply GInv_new_thread; try eassumption; try reflexivity.
      * intros X Hd. exact Hd.
      * intros j [<-|[]]. split; [exact I|]. split; reflexivity.
    + eapply GInv_new_thread; try eassumption; try reflexivity.
      * intros X Hd. exact Hd.
      * intros j [<-|[]]. split; [reflexivity|]. split; reflexivity.
  - (* LStep *)
    destruct (lookup tid_eqb th (threads st)) as [[|i rest]|] eqn:El; try discriminate.
    destruct (exec cf st i room) as [st1 pushed] eqn:E. inversion H. subst st'. clear H.
    pose proof (lookup_in tid_eqb tid_eqb_ok _ _ _ El) as Hin0.
    pose proof (exec_threads _ _ _ _ _ _ E) as Hth.
    pose proof (exec_nextid_le _ _ _ _ _ _ E) as Hmono.
    assert (Hthr_i : thr_ok th i) by (eapply (g_thr _ _ HG); [exact Hin0|left; reflexivity]).
    assert (Hnew : forall th' code', In (th', code') (threads (set_thread st1 th (pushed ++ rest))) ->
               (th' = th /\ code' = pushed ++ rest) \/ (th' <> th /\ In (th', code') (threads st))).
    { intros th' code' Hin. apply set_thread_in in Hin. rewrite Hth in Hin. exact Hin. }
    assert (Gold : GInv (set_thread st1 th (pushed ++ rest)) D).
    { constructor.
      - intros th' code' j Hin Hj. destruct (Hnew _ _ Hin) as [[-> ->]|[_ Hin']].
        + apply in_app_or in Hj. destruct Hj as [Hj|Hj].
          * eapply pushed_thr; eassumption.
          * eapply (g_thr _ _ HG); [exact Hin0|right; exact Hj].
        + eapply (g_thr _ _ HG); eassumption.
      - intros th' code' j Hin Hj. cbn [set_thread set_threads conns]. destruct (Hnew _ _ Hin) as [[-> ->]|[_ Hin']].
        + apply in_app_or in Hj. destruct Hj as [Hj|Hj].
          * eapply pushed_bound; [exact HI|exact E| |exact Hj]. eapply (g_bnd _ _ HG); [exact Hin0|left; reflexivity].
          * eapply bound_ok_mono; [exact Hmono|]. eapply (g_bnd _ _ HG); [exact Hin0|right; exact Hj].
        + eapply bound_ok_mono; [exact Hmono|]. eapply (g_bnd _ _ HG); eassumption.
      - exact (g_dir _ _ HG).
      - intros X HX. cbn [set_thread set_threads conns]. pose proof (g_kb _ _ HG X HX). specialize (Hmono (key_conn X)). lia.
      - intros X th' code' j HX Hin Hj. destruct (Hnew _ _ Hin) as [[-> ->]|[_ Hin']].
        + apply in_app_or in Hj. destruct Hj as [Hj|Hj].
          * eapply pushed_committed; [exact E| | | |exact Hj].
            -- eapply (g_com _ _ HG); [exact HX|exact Hin0|left; reflexivity].
            -- eapply (w_code _ HW); [exact Hin0|left; reflexivity].
            -- intros k f ft -> Hft HXeq.
               destruct (g_dead _ _ HG X HX) as [Hd|(c0&Hl&Hp)]; [exact Hd|]. exfalso.
               cbn [thr_ok] in Hthr_i. subst th X. cbn [key_conn fst] in Hl. rewrite El in Hl. inversion Hl. subst c0.
               destruct (fpend_head _ _ _ Hp) as [Hta|[Hha _]]; discriminate.
          * eapply (g_com _ _ HG); [exact HX|exact Hin0|right; exact Hj].
        + eapply (g_com _ _ HG); eassumption.
      - intros X HX. destruct (g_dead _ _ HG X HX) as [Hd|(c0&Hl&Hp)].
        + left. apply dead_set_thread. eapply exec_dead; try eassumption; [exact (g_dir _ _ HG X HX)|exact (g_kb _ _ HG X HX)].
        + destruct (tid_eqb (TR (key_conn X)) th) eqn:Et.
          * apply tid_eqb_ok in Et. subst th. rewrite El in Hl. inversion Hl. subst c0.
            destruct (fpend_head _ _ _ Hp) as [Hta|[Hha Hp']].
            -- destruct i; try discriminate Hta; cbn [ftarget] in Hta.
               ++ apply key_eqb_ok in Hta. subst t. cbn [exec] in E.
                  destruct (items_get st X true) as [st2 g] eqn:Eg.
                  destruct g as [[it [|]]|]; inversion E; subst st1 pushed; clear E.
                  ** right. exists ([IEntomb X (FromFail reason)] ++ rest).
                     assert (Hp2 : fpend X ([IEntomb X (FromFail reason)] ++ rest)).
                     { exists [], (IEntomb X (FromFail reason)), rest. split; [reflexivity|]. split; [reflexivity|].
                       cbn. apply (eqb_refl key_eqb key_eqb_ok). }
                     split; [eapply lookup_self_fpend; exact Hp2|exact Hp2].
                  ** destruct (Bool.bool_dec strict false) as [Hs|Hs].
                     --- left. apply dead_set_thread. eapply get_false_dead; eassumption.
                     --- exfalso. apply not_false_is_true in Hs. eapply get_false_as; [exact HT|exact (HA Hs)|exact Eg].
                  ** left. apply dead_set_thread. eapply get_none_dead; eassumption.
               ++ destruct s as [reason|o]; [|discriminate]. apply key_eqb_ok in Hta. subst t. cbn [exec] in E.
                  destruct (items_entomb cf st X) as [st2 g] eqn:Ee.
                  assert (st1 = st2) by (destruct g as [[it [|]]|]; inversion E; reflexivity). subst st2.
                  left. apply dead_set_thread. eapply entomb_makes_dead; eassumption.
            -- right. exists (pushed ++ rest).
               assert (Hp2 : fpend X (pushed ++ rest)).
               { apply fpend_push; [|exact Hp']. intros j Hj. eapply pushed_harmless; eassumption. }
               split; [eapply lookup_self_fpend; exact Hp2|exact Hp2].
          * right. exists c0. split; [|exact Hp].
            rewrite tlookup_set_thread_other; [rewrite Hth; exact Hl|].
            intro Heq. rewrite Heq in Et. rewrite (eqb_refl tid_eqb tid_eqb_ok) in Et. discriminate. }
    (* the keys dropped by this very step *)
    assert (Gnew : forall X, In X (drops st (LStep th room)) ->
              key_dir X = 1 /\ key_id X < c_nextid (getc (conns st1) (key_conn X)) /\
              (forall th' code' j, In (th', code') (threads (set_thread st1 th (pushed ++ rest))) -> In j code' -> committed X j = false) /\
              failing (set_thread st1 th (pushed ++ rest)) X).
    { intros X HX. unfold drops, enq_of in HX. rewrite El in HX.
      destruct i; try contradiction. destruct room; [contradiction|].
      destruct (is_resp r) eqn:Er; [|contradiction]. destruct HX as [<-|[]].
      unfold is_resp in Er. apply Z.eqb_eq in Er.
      cbn [thr_ok] in Hthr_i. destruct Hthr_i as [_ Hti]. destruct (Hti Er) as [Hthe Hdir].
      cbn [exec] in E. inversion E. subst st1 pushed. clear E.
      split; [exact Hdir|]. split.
      { pose proof (g_bnd _ _ HG _ _ _ Hin0 (or_introl eq_refl)) as Hb. unfold bound_ok in Hb. cbn [own_of] in Hb. apply Hb. exact Hdir. }
      split.
      - intros th' code' j Hin Hj. destruct (Hnew _ _ Hin) as [[-> ->]|[Hne Hin']].
        + cbn [app] in Hj. unfold after_unsent in Hj. destruct Hj as [<-|[<-|Hj]]; [reflexivity|reflexivity|].
          apply quiet_uncommitted.
          destruct (shape_head _ _ (HS _ _ Hin0)) as (_&_&Hq). specialize (Hq eq_refl).
          rewrite forallb_forall in Hq. apply Hq. exact Hj.
        + destruct (committed (r_own r) j) eqn:Ec; [|reflexivity]. exfalso. apply Hne.
          rewrite Hthe. eapply committed_thread; [exact Ec|]. eapply (g_thr _ _ HG); eassumption.
      - set (reason := if r_ft r =? c_responseFrame then reason_source_slow else reason_dest_slow).
        assert (Hp2 : fpend (r_own r) ((IFailGet rk reason :: after_unsent r reason) ++ rest)).
        { exists [IFailGet rk reason], (IFailGet (r_own r) reason), rest. split; [reflexivity|]. split; [reflexivity|].
          cbn. apply (eqb_refl key_eqb key_eqb_ok). }
        exists ((IFailGet rk reason :: after_unsent r reason) ++ rest). rewrite <- Hthe.
        split; [eapply lookup_self_fpend; exact Hp2|exact Hp2]. }
    constructor.
    + exact (g_thr _ _ Gold).
    + exact (g_bnd _ _ Gold).
    + intros X HX. apply in_app_or in HX. destruct HX as [HX|HX]; [apply (Gnew X HX)|exact (g_dir _ _ Gold X HX)].
    + intros X HX. apply in_app_or in HX. destruct HX as [HX|HX]; [apply (Gnew X HX)|exact (g_kb _ _ Gold X HX)].
    + intros X th' code' j HX. apply in_app_or in HX. destruct HX as [HX|HX]; [apply (Gnew X HX)|exact (g_com _ _ Gold X th' code' j HX)].
    + intros X HX. apply in_app_or in HX. destruct HX as [HX|HX]; [right; apply (Gnew X HX)|exact (g_dead _ _ Gold X HX)].
  - (* LFire *)
    cbn [drops enq_of app].
    destruct (zlookup tm (timers st)) as [x|] eqn:Ex; [|discriminate].
    destruct (tm_armed x && match lookup tid_eqb (TT tm) (threads st) with None => true | Some _ => false end); [|discriminate].
    inversion H. subst. clear H.
    eapply GInv_new_thread; try eassumption; try reflexivity.
    + intros X Hd. unfold dead, dead_at in *. cbn [set_timers items timers].
      destruct (klookup X (items st)) as [it|]; [|exact I].
      destruct Hd as [Hd|[Hs Hd]]; [left; exact Hd|right; split; [exact Hs|]]. apply tdead_insert; [exact Hd|]. intros ->. cbn.
      destruct Hd as (x0&Hl0&Hx0). rewrite Ex in Hl0. inversion Hl0. subst x0.
      destruct Hx0 as [Hx0|[_ Hx0]]; [left; exact Hx0|right; split; [reflexivity|exact Hx0]].
    + intros X _ Heq. discriminate.
    + intros j [<-|[]]. split; [exact I|]. split; reflexivity.
  - (* LGc *)
    cbn [drops enq_of app].
    destruct (mem_key t (gcs st)); [|discriminate]. inversion H. subst. clear H.
    pose proof (items_delete_tomb_spec (set_gcs st (remove_one t (gcs st))) t) as (Hc&_&Hth&_). cbn [set_gcs conns threads] in Hc, Hth.
    apply (GInv_frame st); [exact Hth| | |exact HG].
    + intro k. rewrite Hc. lia.
    + intros X Hd. apply delete_tomb_dead. exact Hd.
  - cbn [drops enq_of app].
    destruct (c_state (get_conn st k) =? c_connectionActive); [|discriminate]. inversion H. subst.
    apply (GInv_frame st); [reflexivity| |intros X Hd; exact Hd|exact HG]. intro k0. apply nextid_put. reflexivity.
  - cbn [drops enq_of app]. inversion H. subst.
    apply (GInv_frame st); [reflexivity| |intros X Hd; exact Hd|exact HG]. intro k0. apply nextid_put. reflexivity.
  - cbn [drops enq_of app].
    match type of H with (if ?b then _ else _) = _ => destruct b end; [|discriminate]. inversion H. subst.
    apply (GInv_frame st); [reflexivity| |intros X Hd; exact Hd|exact HG]. intro k0. apply nextid_put. reflexivity.
Qed.

(* ---------------------------------------------------------------- no timer fires: AS is kept *)

Definition nofire (l : label) : Prop := match l with LFire _ => False | _ => True end.

Lemma as_insert : forall tms tm' (y : timer),
  (forall tm x, zlookup tm tms = Some x -> tm_armed x || tm_stopped x || tm_released x = true) ->
  tm_armed y || tm_stopped y || tm_released y = true ->
  forall tm x, zlookup tm (zinsert tm' y tms) = Some x -> tm_armed x || tm_stopped x || tm_released x = true.
Proof.
  intros tms tm' y H Hy tm x Hl. rewrite zl_insert in Hl. destruct (tm =? tm'); [inversion Hl; subst; exact Hy|eapply H; exact Hl].
Qed.

Lemma stop_as : forall st tm st' b, AS st -> timer_stop st tm = (st', b) -> AS st'.
Proof.
  intros st tm st' b HA H. unfold timer_stop in H.
  destruct (zlookup tm (timers st)) as [t|]; [|inversion H; subst; exact HA].
  destruct (tm_released t); [inversion H; subst; exact HA|].
  destruct (tm_stopped t); [inversion H; subst; exact HA|].
  destruct (tm_armed t); inversion H; subst; [|exact HA].
  unfold AS. cbn [set_timers timers]. apply as_insert; [exact HA|reflexivity].
Qed.

Lemma release_as : forall st tm, AS st -> AS (timer_release st tm).
Proof.
  intros st tm HA. unfold timer_release.
  destruct (zlookup tm (timers st)) as [t|]; [|exact HA].
  destruct (tm_released t); [exact HA|]. destruct (tm_active t); [exact HA|].
  unfold AS. cbn [set_timers timers]. apply as_insert; [exact HA|]. cbn. apply orb_true_r.
Qed.

Lemma get_as : forall st t stop st' g, AS st -> items_get st t stop = (st', g) -> AS st'.
Proof.
  intros st t stop st' g HA H. unfold items_get in H.
  destruct (klookup t (items st)) as [it|]; [|inversion H; subst; exact HA].
  destruct stop; [|inversion H; subst; exact HA].
  destruct (timer_stop st (it_tm it)) as [st2 b] eqn:E. inversion H. subst. eapply stop_as; eassumption.
Qed.

Lemma delete_as : forall st t st' g, AS st -> items_delete st t = (st', g) -> AS st'.
Proof.
  intros st t st' g HA H. unfold items_delete in H.
  destruct (klookup t (items st)) as [it|]; [|inversion H; subst; exact HA].
  inversion H. subst. apply release_as. exact HA.
Qed.

Lemma delete_call_as : forall st t lk st' g, AS st -> items_delete_call st t lk = (st', g) -> AS st'.
Proof.
  intros st t lk st' g HA H. destruct (items_delete_call_cases st t lk) as [E|[E _]]; rewrite E in H.
  - eapply delete_as; eassumption.
  - inversion H. subst. exact HA.
Qed.

Lemma delete_tomb_as : forall st t, AS st -> AS (items_delete_tomb st t).
Proof.
  intros st t HA. unfold items_delete_tomb.
  destruct (klookup t (items st)) as [it|]; [|exact HA]. destruct (it_tomb it); [|exact HA].
  apply release_as. exact HA.
Qed.

Lemma entomb_as : forall cf st t st' g, AS st -> items_entomb cf st t = (st', g) -> AS st'.
Proof.
  intros cf st t st' g HA H. unfold items_entomb in H.
  destruct (cf_maxtombs cf <? tomb_count st (key_conn t) (key_dir t)); [eapply delete_as; eassumption|].
  destruct (klookup t (items st)) as [it|]; [|inversion H; subst; exact HA].
  destruct (it_tomb it); inversion H; subst; exact HA.
Qed.

Lemma exec_as : forall cf st i room st1 pushed, AS st -> exec cf st i room = (st1, pushed) -> AS st1.
Proof.
  intros cf st i room st1 pushed HA H.
  destruct (is_pure i) eqn:Ep.
  { destruct (exec_pure_frame _ _ _ _ _ _ Ep H) as (Ht&_). unfold AS. rewrite Ht. exact HA. }
  destruct i; try discriminate; cbn [exec] in H.
  - unfold timer_new in H. cbn [fst snd] in H. inversion H. subst. unfold AS. cbn [set_items set_next_tm set_timers put_conn set_conns timers].
    apply as_insert; [exact HA|reflexivity].
  - unfold timer_new in H. cbn [fst snd] in H. inversion H. subst. unfold AS. cbn [set_items set_next_tm set_timers timers].
    apply as_insert; [exact HA|reflexivity].
  - destruct (frameTypeFor (f_mt f)); [|inversion H; subst; exact HA].
    match type of H with context [items_get ?a ?b ?cc] => destruct (items_get a b cc) as [st' g] eqn:E end.
    inversion H. subst. eapply get_as; eassumption.
  - match type of H with context [items_get ?a ?b ?cc] => destruct (items_get a b cc) as [st' g] eqn:E end.
    inversion H. subst. eapply get_as; eassumption.
  - destruct (items_get st t true) as [st' g] eqn:E.
    assert (st1 = st') by (destruct g as [[it [|]]|]; inversion H; reflexivity). subst. eapply get_as; eassumption.
  - destruct (items_entomb cf st t) as [st' g] eqn:E.
    assert (st1 = st') by (destruct g as [[it [|]]|]; inversion H; reflexivity). subst. eapply entomb_as; eassumption.
  - destruct (items_delete_call st t lk) as [st' g] eqn:E.
    assert (st1 = st') by (destruct g as [[it [|]]|]; inversion H; reflexivity). subst. eapply delete_call_as; eassumption.
  - destruct (zlookup tm (timers st)) as [x|] eqn:El; [|inversion H; subst; exact HA].
    destruct (tm_released x) eqn:Er; inversion H; subst; [exact HA|].
    unfold AS. cbn [set_timers timers]. apply as_insert; [exact HA|]. cbn.
    pose proof (HA _ _ El) as Hx. rewrite Er, orb_false_r in Hx. rewrite orb_false_r. exact Hx.
Qed.

Lemma step_as : forall cf st l st', AS st -> nofire l -> step cf st l = Some st' -> AS st'.
Proof.
  intros cf st l st' HA Hn H. unfold step in H. destruct (negb (panicked st =? 0)); [discriminate|].
  destruct l as [k f e|th room|tm|t|k|k|k]; [| |contradiction| | | |].
  - destruct (lookup tid_eqb (TR k) (threads st)); [discriminate|].
    destruct (relayRoute (f_mt f) (cf_cancel cf) =? 1); [|inversion H; subst; exact HA].
    destruct (f_mt f =? c_messageTypeCallReq); inversion H; subst; exact HA.
  - destruct (lookup tid_eqb th (threads st)) as [[|i rest]|]; try discriminate.
    destruct (exec cf st i room) as [st1 pushed] eqn:E. inversion H. subst. exact (exec_as _ _ _ _ _ _ HA E).
  - destruct (mem_key t (gcs st)); [|discriminate]. inversion H. subst.
    apply delete_tomb_as. exact HA.
  - destruct (c_state (get_conn st k) =? c_connectionActive); [|discriminate]. inversion H. subst. exact HA.
  - inversion H. subst. exact HA.
  - match type of H with (if ?b then _ else _) = _ => destruct b end; [|discriminate]. inversion H. subst. exact HA.
Qed.

Lemma AS_init : AS init.
Proof. intros tm x H. discriminate. Qed.

(* ---------------------------------------------------------------- the theorem *)

Lemma gap_at_false : forall st D l, GInv st D -> gap_at D st l = false.
Proof.
  intros st D l HG. unfold gap_at, enq_of. destruct l as [k f e|th room|tm|t|k|k|k]; try reflexivity.
  destruct (lookup tid_eqb th (threads st)) as [[|i rest]|] eqn:El; try reflexivity.
  destruct i; try reflexivity. destruct room; [|reflexivity].
  destruct (is_resp r && (fin_of (r_f r) || strict) && mem_key (r_own r) D) eqn:E; [|reflexivity]. exfalso.
  apply andb_true_iff in E. destruct E as [E Hm]. apply andb_true_iff in E. destruct E as [Hr Hf].
  unfold mem_key in Hm. apply existsb_exists in Hm. destruct Hm as (X&HX&Hk).
  pose proof (g_com _ _ HG X th _ (IRcvEnq r rk lk) HX (lookup_in tid_eqb tid_eqb_ok _ _ _ El) (or_introl eq_refl)) as Hc.
  cbn [committed] in Hc. unfold rcv_commit in Hc. rewrite Hk, Hf, Hr in Hc. discriminate.
Qed.

Lemma gap_free_from : forall cf ls st D st', Inv st -> TInv st -> LInv st -> Shape st -> WInv st ->
  (strict = true -> AS st /\ Forall nofire ls) -> GInv st D ->
  run_fresh cf st ls = Some st' -> gap_free cf st D ls.
Proof.
  intros cf ls. induction ls as [|l rest IH]; intros st D st' HI HT HL HS HW HA HG H; cbn [gap_free]; [exact I|].
  cbn [run_fresh] in H. destruct (fresh_label st l) eqn:Ef; [|discriminate].
  destruct (step cf st l) as [st1|] eqn:Es; [|discriminate].
  split; [apply gap_at_false; exact HG|].
  eapply IH; [eapply step_inv; eassumption|eapply step_tinv; eassumption|eapply LInv_step; eassumption|eapply step_shape; eassumption|
              eapply step_winv; eassumption| |eapply step_ginv; try eassumption; intro Hs; apply (HA Hs)|exact H].
  intro Hs. destruct (HA Hs) as [HAs Hnf]. inversion Hnf; subst. split; [eapply step_as; eassumption|assumption].
Qed.

(* the same, read off the sequence of send-queue attempts of the run *)
Lemma gap_free_trace : forall cf ls st D, gap_free cf st D ls ->
  forall j r2, nth_error (enq_trace cf st ls) j = Some (Some (r2, true)) -> is_resp r2 = true -> fin_of (r_f r2) || strict = true ->
  mem_key (r_own r2) D = false /\
  forall i r1, (i < j)%nat -> nth_error (enq_trace cf st ls) i = Some (Some (r1, false)) -> is_resp r1 = true ->
               r_own r1 <> r_own r2.
Proof.
  intros cf ls. induction ls as [|l rest IH]; intros st D Hg j r2 Hj Hr Hf; cbn [enq_trace] in *.
  - destruct j; discriminate.
  - cbn [gap_free] in Hg. destruct Hg as [Hg0 Hg]. destruct j as [|j'].
    + cbn in Hj. inversion Hj as [He]. unfold gap_at in Hg0. rewrite He, Hr, Hf in Hg0. cbn [andb] in Hg0.
      split; [exact Hg0|]. intros i r1 Hlt. lia.
    + cbn [nth_error] in Hj. destruct (step cf st l) as [st1|]; [|destruct j'; discriminate].
      destruct (IH _ _ Hg _ _ Hj Hr Hf) as [Hm Hall]. rewrite mem_key_app in Hm. apply orb_false_iff in Hm. destruct Hm as [Hm1 Hm2].
      split; [exact Hm2|]. intros i r1 Hlt Hi Hr1. destruct i as [|i'].
      * cbn in Hi. inversion Hi as [He]. unfold drops in Hm1. rewrite He, Hr1 in Hm1. cbn in Hm1.
        rewrite orb_false_r in Hm1. intro Heq. rewrite Heq in Hm1. rewrite (eqb_refl key_eqb key_eqb_ok) in Hm1. discriminate.
      * cbn [nth_error] in Hi. eapply Hall; [|exact Hi|exact Hr1]. lia.
Qed.

End Gap.

(* For every run of the relay model from the initial state (any number of connections and calls,
   any interleaving of the reader goroutines, relay timers, tomb collections and connection
   events; request ids not re-used): a frame that finishes a call is never put on the caller's
   send queue after a response frame of that call was dropped there. *)
Theorem relay_no_gap : forall cf ls st, run_fresh cf init ls = Some st -> gap_free false cf init [] ls.
Proof.
  intros cf ls st H. eapply gap_free_from; [apply Inv_init|apply TInv_init|apply LInv_init|apply Shape_init|apply WInv_init| |apply GInv_init|exact H].
  intro Hx. discriminate.
Qed.

(* ... and in runs in which no relay timer fires, NO response-direction frame of that call at all *)
Theorem relay_no_frame_after_drop : forall cf ls st, run_fresh cf init ls = Some st -> Forall nofire ls ->
  gap_free true cf init [] ls.
Proof.
  intros cf ls st H Hn. eapply gap_free_from; [apply Inv_init|apply TInv_init|apply LInv_init|apply Shape_init|apply WInv_init| |apply GInv_init|exact H].
  intros _. split; [apply AS_init|exact Hn].
Qed.

Theorem relay_no_gap_trace : forall cf ls st, run_fresh cf init ls = Some st ->
  forall i j r1 r2, (i < j)%nat ->
    nth_error (enq_trace cf init ls) i = Some (Some (r1, false)) -> is_resp r1 = true ->
    nth_error (enq_trace cf init ls) j = Some (Some (r2, true)) -> is_resp r2 = true ->
    r_own r2 = r_own r1 -> fin_of (r_f r2) = false.
Proof.
  intros cf ls st H i j r1 r2 Hlt Hi Hr1 Hj Hr2 Heq.
  destruct (fin_of (r_f r2)) eqn:Ef; [|reflexivity]. exfalso.
  assert (Hf : fin_of (r_f r2) || false = true) by (rewrite Ef; reflexivity).
  destruct (gap_free_trace _ _ _ _ _ (relay_no_gap _ _ _ H) _ _ Hj Hr2 Hf) as [_ Hall].
  apply (Hall i r1 Hlt Hi Hr1). symmetry. exact Heq.
Qed.

Theorem relay_no_frame_after_drop_trace : forall cf ls st, run_fresh cf init ls = Some st -> Forall nofire ls ->
  forall i j r1 r2, (i < j)%nat ->
    nth_error (enq_trace cf init ls) i = Some (Some (r1, false)) -> is_resp r1 = true ->
    nth_error (enq_trace cf init ls) j = Some (Some (r2, true)) -> is_resp r2 = true ->
    r_own r2 <> r_own r1.
Proof.
  intros cf ls st H Hn i j r1 r2 Hlt Hi Hr1 Hj Hr2 Heq.
  assert (Hf : fin_of (r_f r2) || true = true) by apply orb_true_r.
  destruct (gap_free_trace _ _ _ _ _ (relay_no_frame_after_drop _ _ _ H Hn) _ _ Hj Hr2 Hf) as [_ Hall].
  apply (Hall i r1 Hlt Hi Hr1). symmetry. exact Heq.
Qed.

(* ---------------------------------------------------------------- statements for Props/C08.v *)

Lemma gates_spec : forall ok tomb finished stopped,
  relayReceiveGate ok tomb finished stopped = (if negb ok then 0 else if tomb || (finished && negb stopped) then 1 else 2) /\
  relayNonCallGate ok tomb finished stopped = (if negb ok then 0 else if tomb || (finished && negb stopped) then 1 else 2).
Proof. intros. split; [apply receive_gate_spec|apply noncall_gate_spec]. Qed.

Lemma gates_model : forall cf st room,
  (forall k f ft own g, exec cf st (INcChk k f ft own g) room = ncchk_generated st k f ft own g) /\
  (forall r rk g, exec cf st (IRcvChk r rk g) room = rcvchk_generated st r rk g).
Proof. intros. split; intros; [apply ncchk_tie|apply rcvchk_tie]. Qed.

Lemma fail_model : forall cf st t reason room,
  (forall found stopped entomb_ok orig source_slow,
     relayFailItem found stopped entomb_ok orig source_slow =
     if found && stopped && entomb_ok then 9 + (if orig then 6 + (if source_slow then 0 else 1) else 0) else 0) /\
  exec cf st (IFailGet t reason) room =
    (let '(st', g) := items_get st t true in
     let found := match g with Some _ => true | None => false end in
     let stopped := match g with Some (_, s) => s | None => false end in
     (st', if relayFailItem found stopped true false false =? 0 then [] else [IEntomb t (FromFail reason)])) /\
  exec cf st (IEntomb t (FromFail reason)) room =
    (let '(st', g) := items_entomb cf st t in
     (st', match g with
           | Some (it, ok) =>
               fail_actions (relayFailItem true true ok (it_orig it) (reason =? reason_source_slow))
                            (key_conn t) (key_id t) (it_call it) reason
           | None => []
           end)) /\
  (* after Entomb the item is a tombstone or gone *)
  (forall st' g it, items_entomb cf st t = (st', g) -> klookup t (items st') = Some it -> it_tomb it = true).
Proof.
  intros cf st t reason room. split; [intros; apply fail_item_spec|]. split; [apply failget_tie|]. split; [apply entomb_fail_tie|].
  intros st' g it H Hl. apply items_entomb_spec in H. destruct H as (_&_&_&_&_&_&H).
  destruct (klookup t (items st)) as [it0|] eqn:El.
  - destruct H as [(_&Hi&_)|[(Ht&_&Hi&_)|(_&_&Hi&_)]]; rewrite Hi in Hl.
    + rewrite (lookup_remove_eq key_eqb key_eqb_ok) in Hl. discriminate.
    + rewrite El in Hl. inversion Hl. subst. exact Ht.
    + rewrite (lookup_insert_eq key_eqb key_eqb_ok) in Hl. inversion Hl. reflexivity.
  - destruct H as (_&Hi&_). rewrite Hi, El in Hl. discriminate.
Qed.
