(* Proofs about the relay's arg2 append path (Model/RelayAppend.v) on top of the writer
   theorems of Proofs/FragWP.v: for every call req first frame laid out as the protocol
   document says, the re-fragmented frames denote arg1, the original pairs followed by the
   appended ones, arg3, with a valid running checksum chain. *)
From Coq Require Import ZArith List Bool Lia ZifyBool.
From Verif Require Import Base.Wrap Base.Bytes Base.Wire Gen.GenConsts Gen.GenFrame Gen.GenRelayFwd
  Model.TypedBuf Model.Messages Model.Crc Model.Frag Model.FragWire Model.Codecs Model.RelayLazy Model.RelayAppend
  Spec.Protocol Spec.FragSpec Spec.FragOk Proofs.CodecP Proofs.FrameP Proofs.CodecsP Proofs.FragWP Proofs.FragWireP Proofs.CkP.
Import ListNotations.
Local Open Scope Z_scope.

(* ---------------- reads over concatenations ---------------- *)
Lemma rd_bytes a rest n : length a = n -> r_bytes n (rb (a ++ rest)) = (a, rb rest).
Proof. intros <-. apply (proj1 (r_bytes_consumes a)). Qed.

Lemma rd_u8 b rest : r_u8 (rb (b :: rest)) = (b, rb rest).
Proof. reflexivity. Qed.

Lemma rd_u16 v rest : 0 <= v < 65536 -> r_u16 (rb (be 2 v ++ rest)) = (v, rb rest).
Proof. intros H. apply (proj1 (r_uint_consumes 2 v (u_ok_2 v H))). Qed.

Lemma rd_len8 s rest : zlen s <= 255 -> r_len8 (rb (s_str1 s ++ rest)) = (s, rb rest).
Proof. intros H. apply (proj1 (r_len8_consumes s H)). Qed.

(* ---------------- the lazy parser on a protocol-conforming first frame ---------------- *)
Definition hsel_fold (hdrs : kvs) (a : hsel) : hsel := fold_left (fun a kv => hsel_upd a (fst kv) (snd kv)) hdrs a.

Definition enc_hdrs (hdrs : kvs) : list Z := flat_map (fun kv => s_str1 (fst kv) ++ s_str1 (snd kv)) hdrs.

Lemma lazy_hdrs_enc : forall hdrs a rest,
  Forall (fun kv => str8_ok (fst kv) /\ str8_ok (snd kv)) hdrs ->
  lazy_hdrs (length hdrs) a (rb (enc_hdrs hdrs ++ rest)) = (hsel_fold hdrs a, rb rest).
Proof.
  induction hdrs as [|[k v] hdrs IH]; intros a rest H; [reflexivity|].
  inversion H as [|x l [Hk Hv] Hr]; subst. cbn [fst snd] in Hk, Hv.
  cbn [length lazy_hdrs enc_hdrs flat_map fst snd]. unfold bindR.
  rewrite <- !app_assoc. rewrite (rd_len8 k _ (proj1 Hk)), (rd_len8 v _ (proj1 Hv)).
  fold (enc_hdrs hdrs). rewrite (IH _ _ Hr). reflexivity.
Qed.

(* first frame of a call req as the protocol document lays it out:
   flags:1 ttl:4 tracing:25 service~1 nh:1 (hk~1 hv~1){nh} csumtype:1 (csum:4){0,1} arg1~2 arg2~2 arg3~2 *)
Definition callreq_first (flags ttl : Z) (tr service : list Z) (hdrs : kvs) (ct : Z) (ckb a1 a2 a3 : list Z) : list Z :=
  [flags] ++ s_callreq ttl tr service hdrs ++ [ct] ++ ckb ++ enc_chunks [a1; a2; a3].

Record first_ok (tr service : list Z) (hdrs : kvs) (ct : Z) (ckb a1 a2 a3 : list Z) : Prop := {
  fo_tr : length tr = 25%nat;
  fo_svc : str8_ok service;
  fo_hdrs : kvs8_ok hdrs;
  fo_ct : 0 <= ct < c_checksumCount;
  fo_ck : zlen ckb = ChecksumSize ct;
  fo_a1 : zlen a1 <= 65535; fo_a2 : zlen a2 <= 65535; fo_a3 : zlen a3 <= 65535
}.

Lemma skipn_app_exact {A} (a b : list A) n : length a = n -> skipn n (a ++ b) = b.
Proof. intros <-. rewrite skipn_app, skipn_all, Nat.sub_diag. reflexivity. Qed.
Lemma firstn_app_exact {A} (a b : list A) n : length a = n -> firstn n (a ++ b) = a.
Proof. intros <-. rewrite firstn_app, firstn_all, Nat.sub_diag. cbn [firstn]. apply app_nil_r. Qed.

Lemma zlen_len {A} (l : list A) : Z.to_nat (zlen l) = length l.
Proof. unfold zlen. apply Nat2Z.id. Qed.

Theorem lazy_callreq_layout : forall flags ttl tr service hdrs ct ckb a1 a2 a3,
  first_ok tr service hdrs ct ckb a1 a2 a3 ->
  let p := callreq_first flags ttl tr service hdrs ct ckb a1 a2 a3 in
  zlen p <= c_MaxFramePayloadSize ->
  exists lz, lazy_callreq p = (0, lz) /\
    lz_ctoff lz = 1 + zlen (s_callreq ttl tr service hdrs) /\ lz_ctype lz = ct /\
    lz_method lz = a1 /\ lz_arg2 p lz = a2 /\ lz_arg3 p lz = a3 /\ lz_a2frag lz = false /\
    lz_as lz = hs_as (hsel_fold hdrs (mkHsel [] [] [] [])) /\
    lz_caller lz = hs_cn (hsel_fold hdrs (mkHsel [] [] [] [])) /\
    slice p 1 (lz_ctoff lz) = s_callreq ttl tr service hdrs /\ nth 0 p 0 = flags /\
    lz_ctoff lz + 1 + zlen ckb + (2 + zlen a1) + (2 + zlen a2) + (2 + zlen a3) = zlen p.
Proof.
  intros flags ttl tr service hdrs ct ckb a1 a2 a3 [Htr Hsvc Hh Hct Hck H1 H2 H3] p Hlen.
  pose proof (zlen_nonneg a1) as N1. pose proof (zlen_nonneg a2) as N2. pose proof (zlen_nonneg a3) as N3.
  pose proof (zlen_nonneg ckb) as Nc. pose proof (zlen_nonneg service) as Ns. pose proof (zlen_nonneg (enc_hdrs hdrs)) as Nh.
  destruct Hsvc as [Hsl _]. destruct Hh as [Hhl Hhf].
  (* the payload as a right-nested concatenation *)
  set (pre30 := [flags] ++ be 4 ttl ++ tr).
  assert (L30 : length pre30 = 30%nat).
  { subst pre30. rewrite !app_length, be_length, Htr. reflexivity. }
  set (t3 := be 2 (zlen a3) ++ a3).
  set (t2 := be 2 (zlen a2) ++ a2 ++ t3).
  set (t1 := be 2 (zlen a1) ++ a1 ++ t2).
  set (tc := [ct] ++ ckb ++ t1).
  assert (Ep : p = pre30 ++ [slen service] ++ service ++ [slen hdrs] ++ enc_hdrs hdrs ++ tc).
  { subst p pre30 tc t1 t2 t3. unfold callreq_first, s_callreq, s_str1, s_headers1, enc_chunks, enc_hdrs.
    cbn [flat_map]. rewrite <- !app_assoc. cbn [app]. rewrite app_nil_r. reflexivity. }
  assert (Zp : zlen p = 30 + 1 + zlen service + 1 + zlen (enc_hdrs hdrs) + 1 + zlen ckb + (2 + zlen a1) + (2 + zlen a2) + (2 + zlen a3)).
  { rewrite Ep. subst tc t1 t2 t3. rewrite !zlen_app, !zlen_be. unfold zlen at 1. rewrite L30.
    unfold zlen at 1 3 5. cbn [length]. lia. }
  unfold c_MaxFramePayloadSize, c_MaxFrameSize, c_FrameHeaderSize in Hlen.
  assert (Zhdr : zlen (s_callreq ttl tr service hdrs) = 29 + 1 + zlen service + 1 + zlen (enc_hdrs hdrs)).
  { unfold s_callreq, s_str1, s_headers1. rewrite !zlen_app, zlen_be. fold (enc_hdrs hdrs).
    unfold zlen at 1 2 4. rewrite Htr. cbn [length]. lia. }
  (* run the parser *)
  set (a2s := 1 + zlen (s_callreq ttl tr service hdrs) + 1 + zlen ckb + (2 + zlen a1) + 2).
  set (H0 := hsel_fold hdrs (mkHsel [] [] [] [])).
  set (lzv := mkLazy (1 + zlen (s_callreq ttl tr service hdrs)) ct a1 a2s (a2s + zlen a2) false (a2s + zlen a2 + 2)
                     (hs_as H0) (hs_cn H0) (hs_rd H0) (hs_rk H0)).
  assert (Ea2e : wrapU 16 (a2s + zlen a2) = a2s + zlen a2) by (apply wrapU_id; lia).
  assert (EL : lazy_callreq p = (0, lzv)).
  { unfold lazy_callreq. rewrite Ep at 1.
    change (Z.to_nat c_u_serviceLenIndex) with 30%nat.
    rewrite (rd_bytes pre30 _ 30 L30).
    cbn [app]. rewrite rd_u8.
    unfold slen at 1. rewrite Nat2Z.id. rewrite (rd_bytes service _ _ eq_refl).
    cbn [app]. rewrite rd_u8. unfold slen at 1. rewrite Nat2Z.id.
    rewrite (lazy_hdrs_enc hdrs _ tc Hhf). fold H0.
    unfold bytes_read. change (rrem (rb tc)) with tc.
    assert (Ect : wrapU 16 (zlen p - zlen tc) = 1 + zlen (s_callreq ttl tr service hdrs)).
    { subst tc t1 t2 t3. rewrite !zlen_app, !zlen_be. unfold zlen at 2. cbn [length]. rewrite wrapU_id; lia. }
    rewrite Ect.
    subst tc. cbn [app]. rewrite rd_u8.
    replace (ct >=? c_checksumCount) with false by lia.
    rewrite <- Hck. rewrite (rd_bytes ckb t1 (Z.to_nat (zlen ckb)) (eq_sym (zlen_len ckb))).
    subst t1. rewrite (rd_u16 (zlen a1)) by lia.
    rewrite (rd_bytes a1 t2 (Z.to_nat (zlen a1)) (eq_sym (zlen_len a1))).
    subst t2. rewrite (rd_u16 (zlen a2)) by lia.
    change (rrem (rb (a2 ++ t3))) with (a2 ++ t3).
    assert (Ea2 : wrapU 16 (zlen p - zlen (a2 ++ t3)) = a2s).
    { subst t3 a2s. rewrite !zlen_app, !zlen_be. rewrite wrapU_id; lia. }
    rewrite Ea2, Ea2e.
    rewrite (rd_bytes a2 t3 (Z.to_nat (zlen a2)) (eq_sym (zlen_len a2))).
    change (rrem (rb t3)) with t3.
    assert (Zt3 : zlen t3 = 2 + zlen a3) by (subst t3; rewrite zlen_app, zlen_be; lia).
    replace (zlen t3 =? 0) with false by lia. cbn [andb].
    subst t3. rewrite (rd_bytes (be 2 (zlen a3)) a3 2 (be_length 2 _)).
    change (rrem (rb a3)) with a3. change (rerr (rb a3)) with false. cbv iota.
    assert (Ea3 : wrapU 16 (zlen p - zlen a3) = a2s + zlen a2 + 2) by (subst a2s; rewrite wrapU_id; lia).
    rewrite Ea3. reflexivity. }
  exists lzv. split; [exact EL|].
  cbn [lzv lz_ctoff lz_ctype lz_method lz_a2frag lz_as lz_caller].
  split; [reflexivity|]. split; [reflexivity|]. split; [reflexivity|].
  (* arg2 / arg3 / prefix slices of p *)
  assert (Ep2 : p = (pre30 ++ [slen service] ++ service ++ [slen hdrs] ++ enc_hdrs hdrs ++ [ct] ++ ckb ++ be 2 (zlen a1) ++ a1 ++ be 2 (zlen a2))
                    ++ a2 ++ be 2 (zlen a3) ++ a3).
  { rewrite Ep. rewrite <- !app_assoc. reflexivity. }
  assert (Lpre : length (pre30 ++ [slen service] ++ service ++ [slen hdrs] ++ enc_hdrs hdrs ++ [ct] ++ ckb ++ be 2 (zlen a1) ++ a1 ++ be 2 (zlen a2)) = Z.to_nat a2s).
  { apply Nat2Z.inj. rewrite Z2Nat.id by lia. fold (zlen (pre30 ++ [slen service] ++ service ++ [slen hdrs] ++ enc_hdrs hdrs ++ [ct] ++ ckb ++ be 2 (zlen a1) ++ a1 ++ be 2 (zlen a2))).
    rewrite !zlen_app, !zlen_be. unfold zlen at 1. rewrite L30. unfold zlen at 1 3 5. cbn [length]. lia. }
  split.
  { unfold lz_arg2, slice. cbn [lzv lz_a2start lz_a2end].
    rewrite Ep2 at 1. rewrite (skipn_app_exact _ _ _ Lpre).
    replace (a2s + zlen a2 - a2s) with (zlen a2) by lia.
    apply firstn_app_exact. symmetry. apply zlen_len. }
  split.
  { unfold lz_arg3. cbn [lzv lz_a3start].
    assert (Ep3 : p = (pre30 ++ [slen service] ++ service ++ [slen hdrs] ++ enc_hdrs hdrs ++ [ct] ++ ckb ++ be 2 (zlen a1) ++ a1 ++ be 2 (zlen a2) ++ a2 ++ be 2 (zlen a3)) ++ a3).
    { rewrite Ep. rewrite <- !app_assoc. reflexivity. }
    rewrite Ep3 at 1. apply skipn_app_exact.
    apply Nat2Z.inj. rewrite Z2Nat.id by lia.
    fold (zlen (pre30 ++ [slen service] ++ service ++ [slen hdrs] ++ enc_hdrs hdrs ++ [ct] ++ ckb ++ be 2 (zlen a1) ++ a1 ++ be 2 (zlen a2) ++ a2 ++ be 2 (zlen a3))).
    rewrite !zlen_app, !zlen_be. unfold zlen at 1. rewrite L30. unfold zlen at 1 3 5. cbn [length]. lia. }
  split; [reflexivity|]. split; [reflexivity|]. split; [reflexivity|].
  split.
  { unfold slice. subst p. unfold callreq_first. cbn [app skipn Z.to_nat Pos.to_nat Pos.iter_op].
    replace (1 + zlen (s_callreq ttl tr service hdrs) - 1) with (zlen (s_callreq ttl tr service hdrs)) by lia.
    apply firstn_app_exact. symmetry. apply zlen_len. }
  split; [reflexivity|]. lia.
Qed.

(* ---------------- the fragmenting writer started by the relay's fragment sender ---------------- *)
Section RelayWriter.
  Variable capf : bool -> Z.
  Variable ck0 : ckst.
  Hypothesis Hcap1 : 3 <= capf true.
  Hypothesis Hcap2 : 5 <= capf false.

  (* BeginArgument on the state in which newFragment(initial) has already written arg1 *)
  Lemma relay_begin_ok method room last :
    capf true = room + (2 + zlen method) -> 2 < room ->
    exists st', w_begin capf last (mkWst c_fragmentingWriteStart 0 [] true [method] room (ck_add ck0 method) false) = Some (0, st')
                /\ in_arg capf ck0 st' [method] [] last.
  Proof.
    intros Hc Hr. unfold w_begin. cbn [ws_err ws_state ws_has ws_chunks ws_room ws_out ws_ck ws_done].
    change (0 =? 0) with true. cbn [negb].
    change (c_fragmentingWriteStart =? c_fragmentingWriteComplete) with false.
    change (is_writing c_fragmentingWriteStart) with false. cbv iota beta.
    change c_chunkHeaderSize with 2. replace (room <=? 2) with false by lia.
    eexists. split; [reflexivity|]. split; [reflexivity|].
    constructor; cbn [ws_err ws_has ws_done ws_chunks ws_out ws_room ws_ck]; try reflexivity.
    - exists [method], []. split; reflexivity.
    - lia.
    - cbn [isnil]. unfold chunks_size. cbn [app fold_right]. change (zlen (@nil Z)) with 0. lia.
    - cbn [app fold_left]. unfold ck_end. cbn [fold_left]. rewrite ck_add_nil. reflexivity.
  Qed.

  (* closing the last argument: besides [final], the checksum object ends as the running
     checksum over everything emitted *)
  Lemma close_last_ck st closed cur : in_arg capf ck0 st closed cur true ->
    exists st', w_close capf st = Some (0, st') /\ final capf ck0 st' (closed ++ [cur]) /\ ws_ck st' = ck_end ck0 (ws_out st').
  Proof.
    intros H. destruct (close_last_ok capf ck0 st closed cur H) as (st' & E & F).
    exists st'. split; [exact E|]. split; [exact F|].
    destruct H as [Hs H]. unfold w_close in E. rewrite (cm_err _ _ _ _ _ H), Hs in E.
    change (0 =? 0) with true in E. cbn [arg_state negb] in E.
    change (is_writing c_fragmentingWriteInLastArgument) with true in E.
    change (c_fragmentingWriteInLastArgument =? c_fragmentingWriteInLastArgument) with true in E. cbn [negb] in E.
    inversion E; subst st'. cbn [ws_ck ws_out]. unfold emit. rewrite ck_end_snoc. cbn [f_chunks].
    apply (cm_ck _ _ _ _ _ H).
  Qed.

  (* arg1 pre-written, then arg2 (any writes) and arg3 (any writes) *)
  Lemma relay_writer_correct method room items2 items3 :
    capf true = room + (2 + zlen method) -> 2 < room ->
    exists codes st,
      w_run capf (arg_ops false items2 ++ arg_ops true items3)
            (mkWst c_fragmentingWriteStart 0 [] true [method] room (ck_add ck0 method) false) [] = Some (codes, st) /\
      denote (chunks_of (ws_out st)) = [method; arg_bytes items2; arg_bytes items3] /\
      frames_ok capf (ws_out st) /\ ck_chain ck0 (ws_out st) /\ ws_ck st = ck_end ck0 (ws_out st).
  Proof.
    intros Hc Hr.
    destruct (relay_begin_ok method room false Hc Hr) as (st1 & E1 & I1).
    assert (A1 : all0 [0]) by (constructor; [reflexivity|constructor]).
    destruct (items_ok capf ck0 Hcap2 items2 st1 [method] [] false [0] I1 A1) as (codes2 & st2 & R2 & A2 & I2).
    cbn [app] in I2.
    destruct (close_ok capf ck0 Hcap2 st2 [method] _ I2) as (st3 & E3 & B3).
    destruct (begin_ok capf ck0 Hcap1 st3 _ true B3) as (st4 & E4 & I4).
    destruct (items_ok capf ck0 Hcap2 items3 st4 _ [] true _ I4 (all0_snoc _ (all0_snoc _ A2)))
      as (codes5 & st5 & R5 & A5 & I5).
    cbn [app] in I5.
    destruct (close_last_ck st5 _ _ I5) as (st6 & E6 & (F1 & F2 & F3 & F4 & F5) & K).
    exists (codes5 ++ [0]), st6. split.
    - unfold arg_ops. cbn [app w_run w_step]. rewrite E1. cbn [app].
      rewrite <- app_assoc. rewrite w_run_app, R2. cbn [app w_run w_step]. rewrite E3, E4.
      rewrite w_run_app, R5. cbn [w_run w_step]. rewrite E6. reflexivity.
    - cbn [app] in F3. auto.
  Qed.
End RelayWriter.

(* ---------------- writeArg2WithAppends produces the encoding of pairs ++ appended ---------------- *)
Lemma arg_bytes_app a b : arg_bytes (a ++ b) = arg_bytes a ++ arg_bytes b.
Proof. unfold arg_bytes. apply flat_map_app. Qed.

Lemma append_pairs_bytes appends : Forall (fun kv => str16_ok (fst kv) /\ str16_ok (snd kv)) appends ->
  arg_bytes (flat_map (fun kv => [IWrite (be 2 (wrapU 16 (zlen (fst kv)))); IWrite (fst kv);
                                   IWrite (be 2 (wrapU 16 (zlen (snd kv)))); IWrite (snd kv)]) appends)
  = flat_map s_pair appends.
Proof.
  induction 1 as [|[k v] l [[Hk _] [Hv _]] _ IH]; [reflexivity|].
  cbn [flat_map fst snd] in *. rewrite arg_bytes_app, IH. unfold arg_bytes at 1. cbn [flat_map app fst snd].
  pose proof (zlen_nonneg k). pose proof (zlen_nonneg v).
  rewrite !wrapU_id by lia. unfold s_pair, s_str2, slen. cbn [fst snd]. fold (zlen k) (zlen v).
  rewrite app_nil_r, <- !app_assoc. reflexivity.
Qed.

Lemma append_items_bytes h appends : kvs16_ok h -> kvs16_ok appends -> zlen h + zlen appends <= 65535 ->
  arg_bytes (append_items (s_theaders h) appends) = s_theaders (h ++ appends).
Proof.
  intros [Hh _] [_ Ha] Hsum. pose proof (zlen_nonneg h). pose proof (zlen_nonneg appends).
  unfold append_items, s_theaders. fold (s_pair). 
  change (fun kv : list Z * list Z => s_str2 (fst kv) ++ s_str2 (snd kv)) with s_pair.
  set (body := flat_map s_pair h).
  rewrite (firstn_app_exact (be 2 (slen h)) body 2 (be_length 2 _)).
  rewrite unbe_be by (change (256 ^ Z.of_nat 2) with 65536; unfold slen; fold (zlen h); lia).
  rewrite (skipn_app_exact (be 2 (slen h)) body 2 (be_length 2 _)).
  change (IWrite ?x :: ?l) with ([IWrite x] ++ l).
  rewrite !arg_bytes_app, (append_pairs_bytes appends Ha).
  assert (Ec : arg_bytes (if zlen (be 2 (slen h) ++ body) >? 2 then [IWrite body] else []) = body).
  { destruct (zlen (be 2 (slen h) ++ body) >? 2) eqn:E; [unfold arg_bytes; cbn [flat_map]; apply app_nil_r|].
    rewrite zlen_app, zlen_be in E. pose proof (zlen_nonneg body). assert (zlen body = 0) as Z0 by lia.
    destruct body; [reflexivity|]. unfold zlen in Z0. cbn [length] in Z0. lia. }
  rewrite Ec. unfold arg_bytes at 1. cbn [flat_map]. rewrite app_nil_r.
  unfold slen. fold (zlen h) (zlen (h ++ appends)). rewrite zlen_app.
  rewrite (wrapU_id 16 (zlen appends)) by lia. rewrite wrapU_id by lia.
  subst body. rewrite flat_map_app. reflexivity.
Qed.

Lemma ck_new_size ct ck0 : 0 <= ct < c_checksumCount -> ck_new ct = Some ck0 -> 0 <= ck_size ck0 <= ChecksumSize ct.
Proof.
  intros H E. unfold c_checksumCount in H.
  assert (C : ct = 0 \/ ct = 1 \/ ct = 2 \/ ct = 3) by lia.
  destruct C as [-> | [-> | [-> | ->]]]; vm_compute in E; inversion E; subst; vm_compute; split; discriminate.
Qed.

(* ---------------- C08 append: the destination sees arg1, pairs ++ appended, arg3 ---------------- *)
Theorem relay_append_correct : forall flags ttl tr service hdrs ct ckb a1 h a3 appends ck0,
  first_ok tr service hdrs ct ckb a1 (s_theaders h) a3 ->
  let p := callreq_first flags ttl tr service hdrs ct ckb a1 (s_theaders h) a3 in
  zlen p <= c_MaxFramePayloadSize ->
  hs_as (hsel_fold hdrs (mkHsel [] [] [] [])) = c_Thrift ->
  ck_new ct = Some ck0 ->
  kvs16_ok h -> kvs16_ok appends -> zlen h + zlen appends <= 65535 ->
  exists lz fs,
    lazy_callreq p = (0, lz) /\
    append_send p lz appends ck0
      = (0, relay_frag_payloads flags (s_callreq ttl tr service hdrs) true fs, ck_end ck0 fs) /\
    denote (chunks_of fs) = [a1; s_theaders (h ++ appends); a3] /\
    frames_ok (relay_capf lz ck0) fs /\ ck_chain ck0 fs /\
    kv_iter (s_theaders (h ++ appends)) = (h ++ appends, true).
Proof.
  intros flags ttl tr service hdrs ct ckb a1 h a3 appends ck0 Hf p Hlen Has Hck Hh Ha Hsum.
  destruct (lazy_callreq_layout flags ttl tr service hdrs ct ckb a1 (s_theaders h) a3 Hf Hlen)
    as (lz & EL & Eoff & Ect & Em & E2 & E3 & Efr & Eas & _ & Epre & Efl & Etot).
  fold p in EL, E2, E3, Epre, Efl, Etot.
  pose proof (ck_new_size ct ck0 (fo_ct _ _ _ _ _ _ _ _ Hf) Hck) as Hcs.
  pose proof (fo_ck _ _ _ _ _ _ _ _ Hf) as Hckb.
  pose proof (zlen_nonneg a1) as N1. pose proof (zlen_nonneg a3) as N3. pose proof (zlen_nonneg (s_theaders h)) as N2.
  assert (N2' : 2 <= zlen (s_theaders h)).
  { unfold s_theaders. rewrite zlen_app, zlen_be. pose proof (zlen_nonneg (flat_map (fun kv => s_str2 (fst kv) ++ s_str2 (snd kv)) h)). lia. }
  unfold c_MaxFramePayloadSize, c_MaxFrameSize, c_FrameHeaderSize in Hlen.
  set (room := relay_capf lz ck0 true - (2 + zlen a1)).
  assert (Hroom : 2 < room).
  { subst room. unfold relay_capf, c_MaxFramePayloadSize, c_MaxFrameSize, c_FrameHeaderSize. lia. }
  assert (Hc1 : 3 <= relay_capf lz ck0 true) by (subst room; lia).
  assert (Hc2 : 5 <= relay_capf lz ck0 false).
  { assert (ck_size ck0 <= 4) by (unfold ck_size; destruct (ck_kind ck0 =? 0); lia).
    unfold relay_capf, c_MaxFramePayloadSize, c_MaxFrameSize, c_FrameHeaderSize. lia. }
  destruct (relay_writer_correct (relay_capf lz ck0) ck0 Hc1 Hc2 a1 room
              (append_items (s_theaders h) appends) [IWrite a3] ltac:(subst room; lia) Hroom)
    as (codes & st & R & D & F & C & K).
  exists lz, (ws_out st). split; [exact EL|].
  split.
  - unfold append_send. rewrite Efr, Eas, Has.
    replace (bytes_eqb c_Thrift c_Thrift) with true by (symmetry; apply bytes_eqb_eq; reflexivity).
    cbn [negb]. rewrite Em. change c_chunkHeaderSize with 2. fold room.
    replace (room <? 0) with false by lia. replace (room <=? 2) with false by lia.
    rewrite E2. replace (zlen (s_theaders h) <? 2) with false by lia.
    unfold append_script, relay_w_init. rewrite E3, Em. change c_chunkHeaderSize with 2. fold room.
    rewrite R. rewrite Efl, Eoff. rewrite Eoff in Epre. rewrite Epre, K. reflexivity.
  - split.
    + rewrite D. rewrite (append_items_bytes h appends Hh Ha Hsum). unfold arg_bytes. cbn [flat_map]. rewrite app_nil_r. reflexivity.
    + split; [exact F|]. split; [exact C|].
      rewrite <- (app_nil_r (s_theaders (h ++ appends))). apply kv_iter_complete.
      destruct Hh as [_ Hhf]. destruct Ha as [_ Haf]. split.
      * rewrite zlen_app. exact Hsum.
      * apply Forall_app. split; assumption.
Qed.

Print Assumptions relay_append_correct.

(* ---------------- continuation frames of an appended call ---------------- *)
(* a call req continue frame of the original call: flags, checksum type, checksum, one chunk
   (after arg3 has started every continuation carries exactly one chunk) *)
Definition cont_payload (flags ctb : Z) (ckb d : list Z) : list Z := [flags; ctb] ++ ckb ++ be 2 (zlen d) ++ d.

Lemma rd_bytes_all d n : length d = n -> r_bytes n (rb d) = (d, rb []).
Proof. intros H. rewrite <- (app_nil_r d) at 1. apply rd_bytes, H. Qed.

Lemma update_cont_layout flags ctb ckb d ck : zlen ckb = ck_size ck -> zlen d <= 65535 ->
  update_cont_ck (cont_payload flags ctb ckb d) ck = (cont_payload flags ctb (ck_sum (ck_add ck d)) d, ck_add ck d).
Proof.
  intros Hc Hd. pose proof (zlen_nonneg d) as Nd. pose proof (zlen_nonneg ckb) as Nc.
  unfold update_cont_ck, cont_payload.
  change ([flags; ctb] ++ ckb ++ be 2 (zlen d) ++ d) with ([flags] ++ [ctb] ++ ckb ++ be 2 (zlen d) ++ d).
  rewrite (rd_bytes [flags] _ 1 eq_refl). rewrite (rd_bytes [ctb] _ 1 eq_refl).
  rewrite <- Hc. rewrite (rd_bytes ckb _ (Z.to_nat (zlen ckb)) (eq_sym (zlen_len ckb))).
  rewrite (rd_u16 (zlen d)) by lia. rewrite (rd_bytes_all d (Z.to_nat (zlen d)) (eq_sym (zlen_len d))).
  change (rerr (rb (be 2 (zlen d) ++ d))) with false. cbv iota.
  replace (skipn (Z.to_nat (2 + zlen ckb)) ([flags] ++ [ctb] ++ ckb ++ be 2 (zlen d) ++ d)) with (be 2 (zlen d) ++ d).
  2:{ replace (Z.to_nat (2 + zlen ckb)) with (S (S (length ckb))) by (unfold zlen; lia).
      cbn [app skipn]. symmetry. apply skipn_app_exact. reflexivity. }
  reflexivity.
Qed.

(* the continuation fragments as the destination receives them: chunk unchanged, checksum
   field = running checksum continued from the state the relay item keeps *)
Fixpoint patched (ck : ckst) (conts : list (bool * list Z)) : list frag :=
  match conts with
  | [] => []
  | (more, d) :: r => mkFrag more (ck_typecode ck) (ck_sum (ck_add ck d)) [d] :: patched (ck_add ck d) r
  end.

Lemma ck_chain_app fs : forall c gs, ck_chain c fs -> ck_chain (ck_end c fs) gs -> ck_chain c (fs ++ gs).
Proof.
  induction fs as [|f fs IH]; intros c gs H1 H2; [exact H2|].
  cbn [app ck_chain] in *. destruct H1 as (A & B & C). split; [exact A|]. split; [exact B|].
  apply IH; [exact C|exact H2].
Qed.

Lemma patched_chain conts : forall ck, ck_chain ck (patched ck conts).
Proof.
  induction conts as [|[more d] r IH]; intros ck; [exact I|].
  cbn [patched ck_chain f_chunks f_ck f_ctype fold_left]. split; [reflexivity|]. split; [reflexivity|]. apply IH.
Qed.

Lemma patched_events conts : forall ck,
  flat_map frag_events (chunks_of (patched ck conts)) = map (fun c => Cont (snd c)) conts.
Proof.
  induction conts as [|[more d] r IH]; intros ck; [reflexivity|].
  cbn [patched chunks_of map flat_map f_chunks frag_events app snd]. f_equal. apply IH.
Qed.

Lemma fold_conts conts : forall closed cur,
  fold_left ev_step (map (fun c : bool * list Z => Cont (snd c)) conts) (closed, cur) = (closed, cur ++ concat (map snd conts)).
Proof.
  induction conts as [|[more d] r IH]; intros closed cur; cbn [map fold_left concat snd].
  - rewrite app_nil_r. reflexivity.
  - unfold ev_step at 2. cbn [fst snd]. rewrite IH, app_assoc. reflexivity.
Qed.

Lemma denote_with_conts fs args last ck conts :
  denote (chunks_of fs) = args ++ [last] ->
  denote (chunks_of (fs ++ patched ck conts)) = args ++ [last ++ concat (map snd conts)].
Proof.
  unfold denote. intros H. rewrite chunks_of_app, flat_map_app, denote_events_app, patched_events.
  destruct (denote_events (flat_map frag_events (chunks_of fs))) as [closed cur].
  apply app_inj_tail in H. destruct H as [-> ->]. rewrite fold_conts. reflexivity.
Qed.

(* the whole appended call as the destination receives it: the re-fragmented first frame
   followed by the original continuation frames with patched checksums *)
Theorem relay_append_whole : forall flags ttl tr service hdrs ct ckb a1 h a3 appends ck0,
  first_ok tr service hdrs ct ckb a1 (s_theaders h) a3 ->
  let p := callreq_first flags ttl tr service hdrs ct ckb a1 (s_theaders h) a3 in
  zlen p <= c_MaxFramePayloadSize ->
  hs_as (hsel_fold hdrs (mkHsel [] [] [] [])) = c_Thrift ->
  ck_new ct = Some ck0 ->
  kvs16_ok h -> kvs16_ok appends -> zlen h + zlen appends <= 65535 ->
  exists lz fs,
    lazy_callreq p = (0, lz) /\
    append_send p lz appends ck0
      = (0, relay_frag_payloads flags (s_callreq ttl tr service hdrs) true fs, ck_end ck0 fs) /\
    forall conts,
      ck_chain ck0 (fs ++ patched (ck_end ck0 fs) conts) /\
      denote (chunks_of (fs ++ patched (ck_end ck0 fs) conts)) = [a1; s_theaders (h ++ appends); a3 ++ concat (map snd conts)].
Proof.
  intros flags ttl tr service hdrs ct ckb a1 h a3 appends ck0 Hf p Hlen Has Hck Hh Ha Hsum.
  destruct (relay_append_correct flags ttl tr service hdrs ct ckb a1 h a3 appends ck0 Hf Hlen Has Hck Hh Ha Hsum)
    as (lz & fs & EL & ES & D & _ & C & _).
  exists lz, fs. split; [exact EL|]. split; [exact ES|]. intros conts. split.
  - apply ck_chain_app; [exact C|apply patched_chain].
  - apply (denote_with_conts fs [a1; s_theaders (h ++ appends)] a3). exact D.
Qed.

Print Assumptions relay_append_whole.
