(* Proofs about the connection close state machine (Model/ConnClose.v). *)
From Coq Require Import ZArith List Bool Lia Arith.
From Verif Require Import Base.Wrap Base.Wire Gen.GenConsts Model.CloseKernel Model.ConnClose Proofs.CloseKernelP.
Import ListNotations.
Local Open Scope Z_scope.

Ltac consts := unfold sA, sSC, sIC, sCl, eDeclined, eProtocol, c_connectionActive, c_connectionStartClose,
  c_connectionInboundClosed, c_connectionClosed, c_ErrCodeDeclined, c_ErrCodeProtocol in *.

Ltac zprop := repeat match goal with
  | H : (_ =? _) = true |- _ => apply Z.eqb_eq in H
  | H : (_ =? _) = false |- _ => apply Z.eqb_neq in H
  | H : (_ && _) = true |- _ => apply andb_true_iff in H; destruct H
  | H : negb _ = true |- _ => apply negb_true_iff in H
  | H : negb _ = false |- _ => apply negb_false_iff in H
  end.

(* case analysis of one thread step: one goal per program counter and branch *)
Ltac tstep_inv H :=
  match type of H with tstep _ _ ?p = Some _ => destruct p end;
  cbn [tstep] in H;
  repeat (match type of H with
    | context [if ?c then _ else _] => destruct c eqn:?
    | context [match inb ?s with _ => _ end] => destruct (inb s) eqn:?
    | context [match outb ?s with _ => _ end] => destruct (outb s) eqn:?
    | context [let '(_, _) := ?x in _] => destruct x eqn:?
    | context [match ?k with KDone _ _ => _ | KCloser => _ | KFail => _ | KProto _ => _ end] => destruct k
    end);
  try discriminate; inversion H; subst; clear H.

Ltac fields := cbn [st inb inb_exp inb_shut outb outb_shut next_id has_relay pending stopped g_stop_closes
  g_replies g_live g_cbs set_st set_inb set_inb_exp set_inb_shut set_outb set_outb_shut set_next_id set_pending
  set_stopped set_stop_closes set_replies set_cbs] in *.

(* ---------- frame lemmas for the two helpers ---------- *)
Lemma send_err_frame : forall s n id c,
  let s' := send_err s n id c in
  st s' = st s /\ inb s' = inb s /\ inb_exp s' = inb_exp s /\ inb_shut s' = inb_shut s /\ outb s' = outb s /\
  outb_shut s' = outb_shut s /\ next_id s' = next_id s /\ has_relay s' = has_relay s /\ pending s' = pending s /\
  stopped s' = stopped s /\ g_stop_closes s' = g_stop_closes s /\ g_live s' = g_live s /\ g_cbs s' = g_cbs s.
Proof. intros. subst s'. unfold send_err. destruct (st s =? sCl); fields; repeat split; reflexivity. Qed.

Lemma remove_ex_frame : forall b id s s' f, remove_ex b id s = (s', f) ->
  st s' = st s /\ inb_shut s' = inb_shut s /\ outb_shut s' = outb_shut s /\ next_id s' = next_id s /\
  has_relay s' = has_relay s /\ pending s' = pending s /\ stopped s' = stopped s /\
  g_stop_closes s' = g_stop_closes s /\ g_replies s' = g_replies s /\ g_live s' = g_live s /\ g_cbs s' = g_cbs s.
Proof.
  intros b id s s' f H. unfold remove_ex in H.
  destruct b; [destruct (has_key id (inb s)); [|destruct (memz id (inb_exp s))]|destruct (has_key id (outb s))];
    inversion H; subst; fields; repeat split; reflexivity.
Qed.

Lemma remove_ex_lists : forall b id s s' f, remove_ex b id s = (s', f) ->
  (exists l, inb s' = filter l (inb s)) /\ (exists l, outb s' = filter l (outb s)).
Proof.
  intros b id s s' f H. unfold remove_ex in H.
  assert (Hid : forall (l : list (Z * bool)), l = filter (fun _ => true) l).
  { induction l as [|x l IH]; cbn; congruence. }
  destruct b; [destruct (has_key id (inb s)); [|destruct (memz id (inb_exp s))]|destruct (has_key id (outb s))];
    inversion H; subst; fields; split; eexists; try (unfold del_key; reflexivity); apply Hid.
Qed.

Lemma remove_ex_nf : forall b id s s', remove_ex b id s = (s', false) -> s' = s.
Proof.
  intros b id s s' H. unfold remove_ex in H.
  destruct b; [destruct (has_key id (inb s)); [|destruct (memz id (inb_exp s))]|destruct (has_key id (outb s))];
    inversion H; reflexivity.
Qed.

(* ---------- thread-modular invariants ---------- *)
Section TM.
  Variable relay : bool.
  Variable I : shared -> nat -> Prop.        (* global part; the number is the number of threads *)
  Variable A : shared -> nat -> pc -> Prop.  (* assertion of thread n at program counter p *)
  Hypothesis HI0 : I (sh0 relay) 0%nat.
  Hypothesis Hspawn : forall s n k, I s n ->
    (forall id r, k = TRelay id r -> has_relay s = true) -> I s (S n) /\ A s n (start_pc k).
  Hypothesis Hstep : forall s n len p s' p', I s len -> (n < len)%nat -> A s n p ->
    tstep s n p = Some (s', p') ->
    I s' len /\ A s' n p' /\ (forall m q, m <> n -> (m < len)%nat -> A s m q -> A s' m q).

  Theorem tm_inv : forall s, Reach step (init relay) s ->
    I (sh s) (length (thr s)) /\ forall n p, nth_error (thr s) n = Some p -> A (sh s) n p.
  Proof.
    apply reach_ind.
    - cbn. split; [exact HI0|]. intros [|n] p H; discriminate.
    - intros s l s' _ [HI HA] Hs. destruct l as [k|tid]; cbn [step] in Hs.
      + assert (Hs' : s' = mkSys (sh s) (thr s ++ [start_pc k])).
        { destruct k; try (inversion Hs; reflexivity). destruct (has_relay (sh s)); inversion Hs; reflexivity. }
        assert (Hrel : forall id r, k = TRelay id r -> has_relay (sh s) = true).
        { intros id r ->. destruct (has_relay (sh s)); [reflexivity|discriminate]. }
        subst s'. cbn [sh thr]. destruct (Hspawn (sh s) (length (thr s)) k HI Hrel) as [HI' HA'].
        split.
        * rewrite app_length. cbn [length]. rewrite Nat.add_1_r. exact HI'.
        * intros n p Hn. apply nth_error_snoc in Hn. destruct Hn as [[_ Hn]|[Hn Hp]].
          -- apply HA; exact Hn.
          -- subst. exact HA'.
      + destruct (nth_error (thr s) tid) as [p|] eqn:Ep; [|discriminate].
        destruct (tstep (sh s) tid p) as [[sh' p']|] eqn:Et; [|discriminate].
        inversion Hs; subst s'; clear Hs. cbn [sh thr].
        pose proof (nth_error_lt _ _ _ Ep) as Hlt.
        destruct (Hstep (sh s) tid (length (thr s)) p sh' p' HI Hlt (HA _ _ Ep) Et) as [HI' [HA' Hoth]].
        split.
        * rewrite length_upd. exact HI'.
        * intros n q Hn. apply nth_error_upd in Hn. destruct Hn as [[Hn Hq]|[Hn Hq]].
          -- subst. exact HA'.
          -- apply Hoth; auto. eapply nth_error_lt; exact Hq.
  Qed.
End TM.

(* ---------- monotone state ---------- *)
Definition st_ok (s : shared) : Prop := 1 <= st s <= 4.

Lemma tstep_mono : forall s n p s' p', tstep s n p = Some (s', p') -> st_ok s ->
  st s <= st s' /\ st_ok s'.
Proof.
  unfold st_ok. intros s n p s' p' H Hok. tstep_inv H; fields; zprop; consts;
    repeat match goal with
    | |- context [send_err ?s ?n ?id ?c] => destruct (send_err_frame s n id c) as [-> _]
    | H : remove_ex _ _ _ = _ |- _ => apply remove_ex_frame in H; destruct H as [-> _]
    end; fields; try lia.
Qed.

Lemma step_sh : forall s l s', step s l = Some s' ->
  (sh s' = sh s) \/ (exists tid p p', nth_error (thr s) tid = Some p /\ tstep (sh s) tid p = Some (sh s', p')).
Proof.
  intros s l s' H. destruct l as [k|tid]; cbn [step] in H.
  - left. destruct k; try (inversion H; reflexivity). destruct (has_relay (sh s)); inversion H; reflexivity.
  - right. destruct (nth_error (thr s) tid) as [p|] eqn:Ep; [|discriminate].
    destruct (tstep (sh s) tid p) as [[sh' p']|] eqn:E; [|discriminate].
    inversion H; subst; cbn [sh]. exists tid, p, p'. auto.
Qed.

Lemma step_mono : forall s l s', step s l = Some s' -> st_ok (sh s) ->
  st (sh s) <= st (sh s') /\ st_ok (sh s').
Proof.
  intros s l s' H Hok. destruct (step_sh _ _ _ H) as [E|[tid [p [p' [_ E]]]]].
  - rewrite E. split; [lia|exact Hok].
  - eapply tstep_mono; eauto.
Qed.

(* along every run -- from any intermediate state to any later state -- the state never
   decreases, and it stays within Active .. Closed *)
Theorem conn_monotone : forall relay ls1 ls2 s1 s2,
  run step (init relay) ls1 = Some s1 -> run step s1 ls2 = Some s2 ->
  st (sh s1) <= st (sh s2) /\ sA <= st (sh s1) /\ st (sh s2) <= sCl.
Proof.
  intros relay ls1 ls2 s1 s2 H1 H2.
  assert (R : forall ls a b, run step a ls = Some b ->
              st_ok (sh a) -> st (sh a) <= st (sh b) /\ st_ok (sh b)).
  { apply (run_rel step (fun a b => st_ok (sh a) -> st (sh a) <= st (sh b) /\ st_ok (sh b))).
    - intros; split; [lia|assumption].
    - intros a b c Hab Hbc Ha. destruct (Hab Ha) as [? Hb]. destruct (Hbc Hb) as [? Hc]. split; [lia|exact Hc].
    - apply step_mono. }
  assert (H0 : st_ok (sh (init relay))) by (unfold st_ok; cbn; consts; lia).
  destruct (R _ _ _ H1 H0) as [_ Ha]. destruct (R _ _ _ H2 Ha) as [Hb Hc].
  unfold st_ok in *. consts. lia.
Qed.

(* ---------- drain: an admitted, unfinished call keeps the connection from closing ---------- *)
Definition noflag (l : list (Z * bool)) : Prop := forall id, ~ In (id, true) l.

Lemma noflag_nil : noflag [].
Proof. intros id H; exact H. Qed.

Lemma noflag_filter : forall f l, noflag l -> noflag (filter f l).
Proof. intros f l H id Hi. apply filter_In in Hi. destruct Hi as [Hi _]. exact (H id Hi). Qed.

Lemma noflag_snoc : forall l id, noflag l -> noflag (l ++ [(id, false)]).
Proof.
  intros l id H id' Hi. apply in_app_or in Hi. destruct Hi as [Hi|[Hi|[]]]; [exact (H id' Hi)|discriminate].
Qed.

Lemma in_deln : forall m n l, In m (deln n l) <-> In m l /\ m <> n.
Proof.
  intros m n l. unfold deln. rewrite filter_In. rewrite negb_true_iff, Nat.eqb_neq. tauto.
Qed.

Lemma nodup_deln : forall n l, NoDup l -> NoDup (deln n l).
Proof. intros n l H. unfold deln. apply NoDup_filter. exact H. Qed.

Lemma length_deln : forall n l, NoDup l -> In n l -> S (length (deln n l)) = length l.
Proof.
  intros n l. induction l as [|x l IH]; intros Hnd Hin; [destruct Hin|].
  inversion Hnd as [|? ? Hx Hnd']; subst. cbn [deln filter]. destruct (Nat.eqb x n) eqn:E; cbn [negb].
  - apply Nat.eqb_eq in E. subst x. cbn [length]. f_equal.
    fold (deln n l). clear IH Hin Hnd. induction l as [|y l IH]; [reflexivity|].
    cbn [deln filter]. destruct (Nat.eqb y n) eqn:E; cbn [negb].
    + apply Nat.eqb_eq in E. subst. exfalso. apply Hx. left. reflexivity.
    + cbn [length]. f_equal. apply IH.
      * intros H. apply Hx. right. exact H.
      * inversion Hnd'; assumption.
  - apply Nat.eqb_neq in E. destruct Hin as [Hin|Hin]; [congruence|].
    cbn [length]. f_equal. fold (deln n l). apply IH; assumption.
Qed.

Definition I_drain (s : shared) (len : nat) : Prop :=
  st_ok s /\
  (sIC <= st s -> stopped s = true \/ (noflag (inb s) /\ pending s = 0)) /\
  (st s = sCl -> stopped s = true \/ noflag (outb s)) /\
  pending s = zlen (g_live s) /\ NoDup (g_live s) /\ (forall m, In m (g_live s) -> (m < len)%nat) /\
  (has_relay s = false -> g_live s = []).

Definition A_drain (s : shared) (n : nat) (p : pc) : Prop :=
  (match p with PRelLive _ => In n (g_live s) | _ => ~ In n (g_live s) end) /\
  match p with
  | PCE1 cur _ => cur <= st s
  | PCE2 cur _ => cur <= st s /\ stopped s = true /\ cur <> sCl
  | PCE3 _ => sSC <= st s
  | PCE4 _ => sSC <= st s /\ pending s = 0
  | PCE5 _ => sSC <= st s /\ pending s = 0 /\ noflag (inb s)
  | PCE6 _ _ | PCE7 _ _ => sIC <= st s
  | PCE8 _ _ => sIC <= st s /\ noflag (outb s)
  | PRel1 _ _ => has_relay s = true
  | _ => True
  end.

(* what a step of thread n guarantees to the other threads *)
Definition G_drain (s s' : shared) (n : nat) : Prop :=
  st s <= st s' /\
  (stopped s = true -> stopped s' = true) /\
  (sSC <= st s -> noflag (inb s) -> noflag (inb s')) /\
  (sSC <= st s -> noflag (outb s) -> noflag (outb s')) /\
  (sSC <= st s -> pending s = 0 -> pending s' = 0) /\
  (forall m, m <> n -> (In m (g_live s') <-> In m (g_live s))) /\
  has_relay s' = has_relay s.

Lemma A_drain_stable : forall s s' n m q, G_drain s s' n -> m <> n -> A_drain s m q -> A_drain s' m q.
Proof.
  intros s s' n m q (Hst & Hstop & Hin & Hout & Hpen & Hlive & Hrel) Hm [Hl Hq].
  split.
  - destruct q; try (rewrite (Hlive m Hm); exact Hl).
  - destruct q; try exact I; cbn in *; consts; try rewrite Hrel; intuition (try lia);
      first [apply Hin|apply Hout|apply Hpen]; auto; lia.
Qed.

Ltac frames :=
  repeat match goal with
  | H : remove_ex _ _ _ = _ |- _ =>
      let F := fresh "F" in let L := fresh "L" in
      pose proof (remove_ex_frame _ _ _ _ _ H) as F; pose proof (remove_ex_lists _ _ _ _ _ H) as L;
      destruct F as (? & ? & ? & ? & ? & ? & ? & ? & ? & ? & ?); destruct L as [[? ?] [? ?]]; clear H
  | |- context [send_err ?s ?n ?id ?c] =>
      let F := fresh "F" in
      pose proof (send_err_frame s n id c) as F; cbv zeta in F;
      destruct F as (? & ? & ? & ? & ? & ? & ? & ? & ? & ? & ? & ? & ?);
      generalize dependent (send_err s n id c); intros
  end.

Lemma noflag_set_flag_absurd : True. Proof. exact I. Qed.

Lemma drain_G : forall s n len p s' p', I_drain s len -> A_drain s n p ->
  tstep s n p = Some (s', p') -> G_drain s s' n.
Proof.
  intros s n len p s' p' (Hok & HI1 & HI2 & Hpen & Hnd & Hlt & Hnorel) [Hl Hp] H.
  unfold G_drain, st_ok in *.
  tstep_inv H; frames; fields; zprop; consts;
    repeat match goal with H : _ = _ |- _ => rewrite H in * end;
    refine (conj _ (conj _ (conj _ (conj _ (conj _ (conj _ _))))));
    try reflexivity; try lia; try tauto;
    try (intros; first [assumption | apply noflag_filter; assumption | apply noflag_snoc; assumption | lia]).
  all: try (intros m Hm; rewrite in_app_iff; cbn [In]; intuition congruence).
  all: try (intros m Hm; rewrite in_deln; tauto).
  intros _ Hz. exfalso. destruct (g_live s); [destruct Hl|unfold zlen in Hz; cbn [length] in Hz; lia].
Qed.

Lemma noflag_set_flag_in : forall id l, In (id, true) (set_flag id l) \/ ~ has_key id l = true.
Proof.
  intros id l. induction l as [|[k f] l IH]; [right; cbn; discriminate|].
  cbn [set_flag map fst has_key existsb]. destruct (k =? id) eqn:E.
  - left. left. apply Z.eqb_eq in E. subst. reflexivity.
  - cbn [orb]. destruct IH as [IH|IH]; [left; right; exact IH|right; exact IH].
Qed.

Lemma nodup_snoc : forall (n : nat) l, NoDup l -> ~ In n l -> NoDup (l ++ [n]).
Proof.
  intros n l. induction l as [|x l IH]; intros Hnd Hn; cbn.
  - constructor; [intros []|constructor].
  - inversion Hnd; subst. constructor.
    + rewrite in_app_iff. cbn [In]. intros [H|[H|[]]]; [contradiction|subst; apply Hn; left; reflexivity].
    + apply IH; [assumption|]. intros H. apply Hn. right. exact H.
Qed.

Lemma zlen_snoc : forall {A} (l : list A) x, zlen (l ++ [x]) = zlen l + 1.
Proof. intros. unfold zlen. rewrite app_length. cbn [length]. lia. Qed.

Lemma zlen_deln : forall n l, NoDup l -> In n l -> zlen (deln n l) = zlen l - 1.
Proof. intros n l H1 H2. unfold zlen. rewrite <- (length_deln n l H1 H2). lia. Qed.

Lemma zlen_pos_in : forall (n : nat) l, In n l -> zlen l = 0 -> False.
Proof. intros n [|x l] H Hz; [destruct H|]. unfold zlen in Hz. cbn [length] in Hz. lia. Qed.

Lemma drain_own : forall s n len p s' p', I_drain s len -> (n < len)%nat -> A_drain s n p ->
  tstep s n p = Some (s', p') -> I_drain s' len /\ A_drain s' n p'.
Proof.
  intros s n len p s' p' (Hok & HI1 & HI2 & Hpen & Hnd & Hlt & Hnorel) Hn [Hl Hp] H.
  unfold I_drain, A_drain, st_ok in *.
  tstep_inv H; frames; fields; zprop; consts;
    repeat match goal with H : _ = _ |- _ => rewrite H in * end;
    unfold ce_after2, ce_fin, resume; consts;
    repeat match goal with |- context [if ?c then _ else _] => destruct c eqn:? end; zprop;
    refine (conj (conj _ (conj _ (conj _ (conj _ (conj _ (conj _ _)))))) (conj _ _));
    try exact I; try assumption; try lia; try tauto.
  all: repeat match goal with
       | |- context [match ?k with KDone _ _ => _ | KCloser => _ | KFail => _ | KProto _ => _ end] => destruct k
       end; try exact I; try assumption; try tauto.
  all: unfold del_key in *.
  all: try (split; [lia|]); try (split; [lia|]); try apply noflag_nil.
  all: try (intros Hge; destruct (HI1 ltac:(lia)) as [Hs|[Hf Hz]];
            [left; exact Hs|right; split; [first [apply noflag_filter|apply noflag_snoc|idtac]; exact Hf|try exact Hz]]).
  all: try (intros Hge; destruct (HI2 ltac:(lia)) as [Hs|Hf];
            [left; exact Hs|right; first [apply noflag_filter|apply noflag_snoc|idtac]; exact Hf]).
  all: try (exfalso; eapply zlen_pos_in; eassumption).
  all: try (rewrite zlen_snoc; reflexivity).
  all: try (rewrite zlen_deln by assumption; reflexivity).
  all: try (apply nodup_snoc; assumption).
  all: try (apply nodup_deln; assumption).
  all: try (rewrite in_app_iff; right; left; reflexivity).
  all: try (rewrite in_deln; tauto).
  all: try (intros m Hm; apply in_deln in Hm; apply Hlt; tauto).
  all: try (intros m Hm; apply in_app_or in Hm; destruct Hm as [Hm|[Hm|[]]]; [apply Hlt; exact Hm|subst; exact Hn]).
  all: try (intros Hr; rewrite (Hnorel Hr) in *; reflexivity).
  all: try (destruct (has_relay s') eqn:Hr; [cbn [andb] in *; zprop; assumption|rewrite (Hnorel eq_refl); reflexivity]).
Qed.

Lemma drain_inv : forall relay s, Reach step (init relay) s ->
  I_drain (sh s) (length (thr s)) /\ forall n p, nth_error (thr s) n = Some p -> A_drain (sh s) n p.
Proof.
  intros relay. apply (tm_inv relay I_drain A_drain).
  - unfold I_drain, st_ok. cbn. consts. repeat split; try lia; try constructor; try tauto.
  - intros s n k (Hok & HI1 & HI2 & Hpen & Hnd & Hlt & Hnorel) Hrel. split.
    + unfold I_drain. refine (conj Hok (conj HI1 (conj HI2 (conj Hpen (conj Hnd (conj _ Hnorel)))))).
      intros m Hm. specialize (Hlt m Hm). lia.
    + assert (Hfresh : ~ In n (g_live s)) by (intros Hin; specialize (Hlt n Hin); lia).
      unfold A_drain. destruct k; cbn [start_pc]; split; try exact I; try exact Hfresh.
      eapply Hrel. reflexivity.
  - intros s n len p s' p' HI Hn HA Ht.
    destruct (drain_own _ _ _ _ _ _ HI Hn HA Ht) as [HI' HA'].
    pose proof (drain_G _ _ _ _ _ _ HI HA Ht) as HG.
    split; [exact HI'|]. split; [exact HA'|].
    intros m q Hm _ Hq. eapply A_drain_stable; eauto.
Qed.

(* DRAIN.  In every reachable state without a connection failure (stoppedExchanges unset):
   an inbound call that was dispatched and whose exchange is still registered keeps the
   connection at or below StartClose; a begun outbound call keeps it at or below InboundClosed;
   the relay's pending counter equals the number of relayed calls admitted and not yet
   finished, and while it is non-zero the connection stays at or below StartClose. *)
Theorem conn_drain : forall relay s, Reach step (init relay) s -> stopped (sh s) = false ->
  ((exists id, In (id, true) (inb (sh s))) -> st (sh s) <= sSC) /\
  ((exists id, In (id, true) (outb (sh s))) -> st (sh s) <= sIC) /\
  pending (sh s) = zlen (g_live (sh s)) /\
  (g_live (sh s) <> [] -> st (sh s) <= sSC).
Proof.
  intros relay s Hr Hns. destruct (drain_inv relay s Hr) as [(Hok & HI1 & HI2 & Hpen & _) _].
  unfold st_ok in Hok. consts. repeat split.
  - intros [id Hin]. destruct (Z_le_gt_dec (st (sh s)) 2) as [L|L]; [exact L|exfalso].
    destruct (HI1 ltac:(lia)) as [Hs|[Hf _]]; [congruence|exact (Hf id Hin)].
  - intros [id Hin]. destruct (Z_le_gt_dec (st (sh s)) 3) as [L|L]; [exact L|exfalso].
    destruct (HI2 ltac:(lia)) as [Hs|Hf]; [congruence|exact (Hf id Hin)].
  - exact Hpen.
  - intros Hne. destruct (Z_le_gt_dec (st (sh s)) 2) as [L|L]; [exact L|exfalso].
    destruct (HI1 ltac:(lia)) as [Hs|[_ Hz]]; [congruence|].
    rewrite Hpen in Hz. destruct (g_live (sh s)); [congruence|]. unfold zlen in Hz. cbn [length] in Hz. lia.
Qed.

(* ---------- closed is signalled exactly once ---------- *)
Definition is_pce9 (p : pc) : bool := match p with PCE9 _ => true | _ => false end.
Definition b2z (b : bool) : Z := if b then 1 else 0.

Lemma signal_tstep : forall s n len p s' p', I_drain s len -> A_drain s n p ->
  tstep s n p = Some (s', p') ->
  g_stop_closes s' + b2z (is_pce9 p') + b2z (st s =? sCl) = g_stop_closes s + b2z (is_pce9 p) + b2z (st s' =? sCl).
Proof.
  intros s n len p s' p' (Hok & _) [_ Hp] H. unfold st_ok in Hok.
  tstep_inv H; frames; fields; zprop; consts;
    repeat match goal with H : _ = _ |- _ => rewrite H in * end;
    unfold ce_after2, ce_fin, resume; consts;
    repeat match goal with |- context [if ?c then _ else _] => destruct c eqn:? end; zprop;
    repeat match goal with
       | |- context [match ?k with KDone _ _ => _ | KCloser => _ | KFail => _ | KProto _ => _ end] => destruct k
       end; cbn [is_pce9 b2z]; try lia.
  all: repeat match goal with |- context [?a =? ?b] => destruct (a =? b) eqn:? end; zprop; cbn [b2z]; try lia.
Qed.

Definition owed (s : sys) : Z := Z.of_nat (count_if is_pce9 (thr s)).

Lemma signal_inv : forall relay s, Reach step (init relay) s ->
  g_stop_closes (sh s) + owed s = b2z (st (sh s) =? sCl).
Proof.
  intros relay. apply reach_ind.
  - reflexivity.
  - intros s l s' Hr IH Hs. destruct (drain_inv relay s Hr) as [HI HA].
    destruct l as [k|tid]; cbn [step] in Hs.
    + assert (Hs' : s' = mkSys (sh s) (thr s ++ [start_pc k])).
      { destruct k; try (inversion Hs; reflexivity). destruct (has_relay (sh s)); inversion Hs; reflexivity. }
      subst s'. unfold owed in *. cbn [sh thr]. rewrite count_if_app.
      replace (count_if is_pce9 [start_pc k]) with 0%nat by (destruct k; reflexivity). rewrite Nat.add_0_r. exact IH.
    + destruct (nth_error (thr s) tid) as [p|] eqn:Ep; [|discriminate].
      destruct (tstep (sh s) tid p) as [[sh' p']|] eqn:Et; [|discriminate].
      inversion Hs; subst s'; clear Hs. unfold owed in *. cbn [sh thr].
      pose proof (signal_tstep _ _ _ _ _ _ HI (HA _ _ Ep) Et) as Hd.
      pose proof (count_if_upd is_pce9 (thr s) tid p p' Ep) as Hc.
      unfold b2z in *. destruct (is_pce9 p), (is_pce9 p'); lia.
Qed.

(* SIGNAL ONCE.  In every reachable state stopCh has been closed at most once; it has been
   closed exactly once when the state is Closed and no thread is between its successful move
   to Closed and its close(stopCh); it has not been closed while the state is not Closed; and at
   most one thread ever owes the close (so close(stopCh) cannot panic). *)
Theorem conn_signal_once : forall relay s, Reach step (init relay) s ->
  0 <= g_stop_closes (sh s) <= 1 /\
  (st (sh s) <> sCl -> g_stop_closes (sh s) = 0 /\ owed s = 0) /\
  (st (sh s) = sCl -> g_stop_closes (sh s) + owed s = 1) /\
  (st (sh s) = sCl -> (forall n p, nth_error (thr s) n = Some p -> is_pce9 p = false) -> g_stop_closes (sh s) = 1).
Proof.
  intros relay s Hr. pose proof (signal_inv relay s Hr) as H.
  assert (Hc : 0 <= g_stop_closes (sh s)).
  { clear H. revert s Hr. apply reach_ind; [cbn; lia|].
    intros s l s' _ IH Hs. destruct (step_sh _ _ _ Hs) as [E|[tid [p [p' [_ E]]]]]; [rewrite E; exact IH|].
    tstep_inv E; frames; fields; repeat match goal with H : _ = _ |- _ => rewrite H in * end; lia. }
  assert (Ho : 0 <= owed s) by (unfold owed; lia).
  unfold b2z in H. destruct (st (sh s) =? sCl) eqn:E; zprop.
  - repeat split; try lia; try congruence.
    intros _ Hall. unfold owed in *. rewrite (count_if_zero is_pce9 (thr s) Hall) in H. lia.
  - repeat split; try lia; try congruence.
Qed.

(* ---------- refuse: a call req that is not dispatched is answered ---------- *)
Definition replies_of (n : nat) (s : shared) : list (nat * Z * Z) :=
  filter (fun r => Nat.eqb (fst (fst r)) n) (g_replies s).

(* [Some (id, code)]: the thread is past its SendSystemError(id, code) *)
Definition sent_done (o id : Z) : option (Z * Z) :=
  if (o =? oRefused1) || (o =? oRefused2) || (o =? oRelRefused) then Some (id, eDeclined)
  else if o =? oProto then Some (id, eProtocol)
  else if (oErrBase <=? o) && (o <=? oErrBase + 255) then Some (id, o - oErrBase) else None.
Definition sent_k (k : cont) : option (Z * Z) :=
  match k with
  | KDone o id => sent_done o id
  | KCloser | KFail => None
  | KProto id => Some (id, eProtocol)
  end.
Definition sent (p : pc) : option (Z * Z) :=
  match p with
  | PDone o id => sent_done o id
  | PClose k | PCloseCb k | PCE0 k | PCE1 _ k | PCE2 _ k | PCE3 k | PCE4 k | PCE5 k | PCE6 _ k | PCE7 _ k
  | PCE8 _ k | PCE9 k | PCE10 k => sent_k k
  | PProtoCAS id | PProtoStopOut id | PProtoStopIn id => Some (id, eProtocol)
  | PR5 id => Some (id, eDeclined)
  | PErrRm id code => sent_done (oErrBase + code) id
  | _ => None
  end.
(* the program counters whose next step is a SendSystemError *)
Definition is_send (p : pc) : option (Z * Z) :=
  match p with
  | PProtoSend id => Some (id, eProtocol)
  | PRRef id | PR4 id | PRelRef id => Some (id, eDeclined)
  | PErr id code => Some (id, code)
  | _ => None
  end.

Lemma sent_done_err : forall code id, code_ok code = true -> sent_done (oErrBase + code) id = Some (id, code).
Proof.
  intros code id H. unfold code_ok in H. apply andb_true_iff in H. destruct H as [H1 H2].
  apply Z.leb_le in H1. apply Z.leb_le in H2. unfold sent_done, oErrBase, oRefused1, oRefused2, oRelRefused, oProto.
  repeat match goal with |- context [?a =? ?b] => destruct (a =? b) eqn:?; [zprop; lia|] end. cbn [orb].
  replace (100 <=? 100 + code) with true by (symmetry; apply Z.leb_le; lia).
  replace (100 + code <=? 100 + 255) with true by (symmetry; apply Z.leb_le; lia).
  cbn [andb]. f_equal. f_equal. lia.
Qed.

Lemma ref_char : forall s n p s' p', tstep s n p = Some (s', p') ->
  match is_send p with
  | Some (id, c) => sent p = None /\ sent p' = Some (id, c) /\ s' = send_err s n id c
  | None => sent p' = sent p /\ g_replies s' = g_replies s
  end.
Proof.
  intros s n p s' p' H.
  tstep_inv H; cbn [is_send sent sent_k]; unfold ce_after2, ce_fin, resume;
    repeat match goal with |- context [if ?c then _ else _] => destruct c eqn:? end;
    repeat match goal with
       | |- context [match ?k with KDone _ _ => _ | KCloser => _ | KFail => _ | KProto _ => _ end] => destruct k
       end; cbn [sent sent_k];
    frames; fields; try (split; [reflexivity|]); try reflexivity; try assumption; auto.
  split; [apply sent_done_err; assumption|reflexivity].
Qed.

Definition answered (s : shared) (n : nat) (id code : Z) : Prop :=
  replies_of n s = [(n, id, code)] \/ (replies_of n s = [] /\ st s = sCl).

Definition I_ref (s : shared) (len : nat) : Prop :=
  st_ok s /\ forall r, In r (g_replies s) -> (fst (fst r) < len)%nat.
Definition A_ref (s : shared) (n : nat) (p : pc) : Prop :=
  match sent p with Some (id, c) => answered s n id c | None => replies_of n s = [] end.

Lemma replies_of_send_same : forall s n id c,
  replies_of n (send_err s n id c) = if st s =? sCl then replies_of n s else replies_of n s ++ [(n, id, c)].
Proof.
  intros. unfold send_err, replies_of. destruct (st s =? sCl); [reflexivity|].
  fields. rewrite filter_app. cbn [filter fst]. rewrite Nat.eqb_refl. reflexivity.
Qed.

Lemma replies_of_send_other : forall s n m id c, m <> n -> replies_of m (send_err s n id c) = replies_of m s.
Proof.
  intros. unfold send_err, replies_of. destruct (st s =? sCl); [reflexivity|].
  fields. rewrite filter_app. cbn [filter fst]. apply Nat.eqb_neq in H. rewrite Nat.eqb_sym, H. apply app_nil_r.
Qed.

Lemma replies_send_in : forall s n id c r, In r (g_replies (send_err s n id c)) -> In r (g_replies s) \/ fst (fst r) = n.
Proof.
  intros s n id c r. unfold send_err. destruct (st s =? sCl); [auto|]. fields. rewrite in_app_iff.
  intros [H|[H|[]]]; [auto|subst; auto].
Qed.

Lemma ref_step : forall s n len p s' p', I_ref s len -> (n < len)%nat -> A_ref s n p ->
  tstep s n p = Some (s', p') ->
  I_ref s' len /\ A_ref s' n p' /\ (forall m q, m <> n -> (m < len)%nat -> A_ref s m q -> A_ref s' m q).
Proof.
  intros s n len p s' p' [Hok Hlt] Hn Hp H.
  destruct (tstep_mono _ _ _ _ _ H Hok) as [Hle Hok'].
  assert (Hcl : st s = sCl -> st s' = sCl) by (unfold st_ok in *; consts; lia).
  pose proof (ref_char _ _ _ _ _ H) as Hc. unfold A_ref, answered in *.
  destruct (is_send p) as [[id c]|].
  - destruct Hc as (Hs & Hs' & ->). rewrite Hs in Hp. rewrite Hs'. split; [|split].
    + split; [exact Hok'|]. intros r Hr. apply replies_send_in in Hr. destruct Hr as [Hr| ->]; auto.
    + rewrite replies_of_send_same. destruct (st s =? sCl) eqn:E; zprop.
      * right. split; [exact Hp|]. destruct (send_err_frame s n id c) as [-> _]. exact E.
      * left. rewrite Hp. reflexivity.
    + intros m q Hm _ Hq. rewrite (replies_of_send_other s n m) by exact Hm.
      destruct (send_err_frame s n id c) as [-> _]. exact Hq.
  - destruct Hc as [Hs Hr]. unfold replies_of in *. rewrite Hr, Hs. split; [|split].
    + split; [exact Hok'|]. rewrite Hr. exact Hlt.
    + destruct (sent p) as [[id c]|]; [|exact Hp]. destruct Hp as [Hp|[Hp Hc]]; [left; exact Hp|right; auto].
    + intros m q Hm _ Hq. destruct (sent q) as [[id c]|]; [|exact Hq].
      destruct Hq as [Hq|[Hq Hc]]; [left; exact Hq|right; auto].
Qed.

Lemma ref_inv : forall relay s, Reach step (init relay) s ->
  I_ref (sh s) (length (thr s)) /\ forall n p, nth_error (thr s) n = Some p -> A_ref (sh s) n p.
Proof.
  intros relay. apply (tm_inv relay I_ref A_ref).
  - split; [unfold st_ok; cbn; consts; lia|]. intros r [].
  - intros s n k [Hok Hlt] _. split.
    + split; [exact Hok|]. intros r Hr. specialize (Hlt r Hr). lia.
    + assert (Hfresh : replies_of n s = []).
      { unfold replies_of. induction (g_replies s) as [|r l IH]; [reflexivity|]. cbn [filter].
        destruct (Nat.eqb (fst (fst r)) n) eqn:E.
        - apply Nat.eqb_eq in E. specialize (Hlt r (or_introl eq_refl)). lia.
        - apply IH. intros r' Hr'. apply Hlt. right. exact Hr'. }
      unfold A_ref. destruct k; cbn [start_pc sent sent_k]; exact Hfresh.
  - apply ref_step.
Qed.

(* REFUSE.  For every reachable state and every finished thread that handled a call req
   (or a relayed call req) with message id [id]:
   - if it refused the call -- at the first state check, at the re-check after registering the
     exchange, or in the relay admission -- then it queued exactly one error frame, which is
     (id, Declined), or it queued none and the connection is Closed;
   - if it ended in a protocol error (duplicate id / exchange set shut down) the same holds with
     code Protocol;
   - if it dispatched the call it queued no error frame. *)
Theorem conn_refuse : forall relay s n o id, Reach step (init relay) s ->
  nth_error (thr s) n = Some (PDone o id) ->
  ((o = oRefused1 \/ o = oRefused2 \/ o = oRelRefused) -> answered (sh s) n id eDeclined) /\
  (o = oProto -> answered (sh s) n id eProtocol) /\
  (o = oDispatched -> replies_of n (sh s) = []).
Proof.
  intros relay s n o id Hr Hn. destruct (ref_inv relay s Hr) as [_ HA]. specialize (HA n _ Hn).
  unfold A_ref in HA. cbn [sent] in HA. unfold sent_done in HA.
  repeat split.
  - intros [E|[E|E]]; subst o; exact HA.
  - intros E; subst o; exact HA.
  - intros E; subst o; exact HA.
Qed.

(* a call req whose processing meets a state other than Active is never dispatched:
   both state tests of handleCallReq and the relay admission go to the refusing branch *)
Lemma conn_refuse_steps : forall s n id, st s <> sA ->
  tstep s n (PR1 id) = Some (s, PRRef id) /\
  tstep s n (PR3 id) = Some (s, PR4 id) /\
  tstep s n (PRel1 id false) = Some (s, PRelRef id) /\
  tstep s n (PRRef id) = Some (send_err s n id eDeclined, PDone oRefused1 id) /\
  tstep s n (PR4 id) = Some (send_err s n id eDeclined, PR5 id) /\
  tstep s n (PRelRef id) = Some (send_err s n id eDeclined, PDone oRelRefused id).
Proof.
  intros s n id H. apply Z.eqb_neq in H. cbn [tstep]. rewrite H. repeat split; reflexivity.
Qed.

(* ---------- reaches closed: no stuck intermediate state ---------- *)
Definition hope_k (k : cont) : bool := match k with KFail => true | _ => false end.

(* a thread that is going to examine the close conditions with an up-to-date view *)
Definition hopeful (s : shared) (p : pc) : bool :=
  match p with
  | PClose k => hope_k k
  | PCloseCb _ | PCE0 _ => true
  | PCE1 cur k | PCE2 cur k => (cur =? st s) || hope_k k
  | PCE3 k | PCE4 k | PCE5 k => (st s =? sSC) || hope_k k
  | PCE6 _ k | PCE7 _ k | PCE8 _ k => (st s =? sIC) || hope_k k
  | PCE9 k | PCE10 k => hope_k k
  | PFailCAS | PFailStopOut | PFailStopIn => true
  | _ => false
  end.

Definition nonempty {A} (l : list A) : bool := match l with [] => false | _ => true end.
Definition busyb (s : shared) : bool := nonempty (inb s) || nonempty (outb s) || negb (pending s =? 0).

Lemma hopeful_st : forall s s' q, st s' = st s -> hopeful s' q = hopeful s q.
Proof. intros s s' q H. destruct q; cbn [hopeful]; rewrite ?H; reflexivity. Qed.

Lemma nonempty_snoc : forall {A} (l : list A) x, nonempty (l ++ [x]) = true.
Proof. intros A [|y l] x; reflexivity. Qed.

Lemma live_own : forall s s' n p p', st_ok s ->
  tstep s n p = Some (s', p') -> (st s' = sSC \/ st s' = sIC) ->
  busyb s' || hopeful s' p' || ((st s' =? st s) && negb (busyb s) && negb (hopeful s p)) = true.
Proof.
  intros s s' n p p' Hok H Hst. unfold st_ok, busyb in *.
  tstep_inv H; cbn [hopeful hope_k];
    unfold ce_after2, ce_fin, resume;
    repeat match goal with |- context [if ?c then _ else _] => destruct c eqn:? end;
    repeat match goal with
       | |- context [match ?k with KDone _ _ => _ | KCloser => _ | KFail => _ | KProto _ => _ end] => destruct k
       end; cbn [hopeful hope_k];
    rewrite ?orb_true_r; try reflexivity;
    repeat match goal with H : remove_ex _ _ _ = (_, false) |- _ => apply remove_ex_nf in H; subst end;
    frames; fields; zprop; consts;
    repeat match goal with
      | H : st ?x = _ |- context [st ?x] => progress rewrite H
      | H : inb ?x = _ |- context [inb ?x] => progress rewrite H
      | H : outb ?x = _ |- context [outb ?x] => progress rewrite H
      | H : pending ?x = _ |- context [pending ?x] => progress rewrite H
      end;
    rewrite ?nonempty_snoc; cbn [nonempty orb andb negb]; rewrite ?orb_true_r; try reflexivity; try lia.
  all: repeat match goal with |- context [?a =? ?b] => destruct (a =? b) eqn:? end; zprop;
       cbn [nonempty orb andb negb]; rewrite ?orb_true_r, ?andb_true_r; try reflexivity; try lia.
  all: repeat match goal with |- context [nonempty ?l] => destruct (nonempty l) end;
       repeat match goal with |- context [hope_k ?k] => destruct (hope_k k) end;
       cbn [orb andb negb]; try reflexivity; try lia.
Qed.

Definition L_inv (s : sys) : Prop :=
  (st (sh s) = sSC \/ st (sh s) = sIC) ->
  busyb (sh s) = true \/ exists n p, nth_error (thr s) n = Some p /\ hopeful (sh s) p = true.

Lemma st_ok_reach : forall relay s, Reach step (init relay) s -> st_ok (sh s).
Proof.
  intros relay. apply reach_ind; [unfold st_ok; cbn; consts; lia|].
  intros s l s' _ IH Hs. eapply step_mono; eauto.
Qed.

Lemma live_inv : forall relay s, Reach step (init relay) s -> L_inv s.
Proof.
  intros relay. apply reach_ind.
  - intros [H|H]; cbn in H; consts; discriminate.
  - intros s l s' Hr IH Hs Hst. pose proof (st_ok_reach relay s Hr) as Hok.
    destruct l as [k|tid]; cbn [step] in Hs.
    + assert (Hs' : s' = mkSys (sh s) (thr s ++ [start_pc k])).
      { destruct k; try (inversion Hs; reflexivity). destruct (has_relay (sh s)); inversion Hs; reflexivity. }
      subst s'. cbn [sh thr] in *. destruct (IH Hst) as [Hb|[n [p [Hn Hp]]]]; [left; exact Hb|].
      right. exists n, p. split; [apply nth_error_snoc_old; exact Hn|exact Hp].
    + destruct (nth_error (thr s) tid) as [p|] eqn:Ep; [|discriminate].
      destruct (tstep (sh s) tid p) as [[sh' p']|] eqn:Et; [|discriminate].
      inversion Hs; subst s'; clear Hs. cbn [sh thr] in *.
      pose proof (live_own _ _ _ _ _ Hok Et Hst) as Hl.
      apply orb_true_iff in Hl. destruct Hl as [Hl|Hl].
      * apply orb_true_iff in Hl. destruct Hl as [Hl|Hl]; [left; exact Hl|].
        right. exists tid, p'. split; [|exact Hl].
        apply nth_error_upd_same. eapply nth_error_lt; exact Ep.
      * apply andb_true_iff in Hl. destruct Hl as [Hl Hnh]. apply andb_true_iff in Hl. destruct Hl as [Hsame Hnb].
        apply Z.eqb_eq in Hsame. apply negb_true_iff in Hnb. apply negb_true_iff in Hnh.
        assert (Hst0 : st (sh s) = sSC \/ st (sh s) = sIC) by (rewrite <- Hsame; exact Hst).
        destruct (IH Hst0) as [Hb|[n [q [Hn Hq]]]]; [congruence|].
        right. exists n, q. split.
        -- rewrite nth_error_upd_other; [exact Hn|]. intros E. subst n. congruence.
        -- rewrite (hopeful_st _ _ q Hsame). exact Hq.
Qed.

(* REACHES CLOSED.  In every reachable state in which the connection has left Active, every
   thread has run to completion, no exchange is registered in either direction and the relay
   has nothing pending, the state is Closed (and, by [conn_signal_once], stopCh is closed). *)
Theorem conn_reaches_closed : forall relay s, Reach step (init relay) s ->
  st (sh s) <> sA ->
  (forall n p, nth_error (thr s) n = Some p -> exists o id, p = PDone o id) ->
  inb (sh s) = [] -> outb (sh s) = [] -> pending (sh s) = 0 ->
  st (sh s) = sCl /\ g_stop_closes (sh s) = 1.
Proof.
  intros relay s Hr Hna Hdone Hi Ho Hp.
  pose proof (st_ok_reach relay s Hr) as Hok. pose proof (live_inv relay s Hr) as HL.
  assert (Hcl : st (sh s) = sCl).
  { unfold st_ok in Hok. consts.
    destruct (Z.eq_dec (st (sh s)) 4) as [E|E]; [exact E|exfalso].
    assert (Hst : st (sh s) = 2 \/ st (sh s) = 3) by lia.
    destruct (HL Hst) as [Hb|[n [p [Hn Hh]]]].
    - unfold busyb in Hb. rewrite Hi, Ho, Hp in Hb. discriminate.
    - destruct (Hdone n p Hn) as [o [id ->]]. discriminate. }
  split; [exact Hcl|].
  destruct (conn_signal_once relay s Hr) as (_ & _ & _ & H1). apply H1; [exact Hcl|].
  intros n p Hn. destruct (Hdone n p Hn) as [o [id ->]]. reflexivity.
Qed.

(* ---------- outbound calls fail locally; exchanges of refused calls are not leaked ---------- *)
Definition owns_in (p : pc) (id : Z) : bool :=
  match p with PR3 i | PR4 i | PR5 i => i =? id | _ => false end.
Definition owns_out (p : pc) (id : Z) : bool :=
  match p with PC3 i | PC4 i => i =? id | _ => false end.

Lemma in_set_flag : forall id i l, In (id, false) (set_flag i l) -> In (id, false) l /\ id <> i.
Proof.
  intros id i l H. unfold set_flag in H. apply in_map_iff in H. destruct H as [[k f] [He Hin]].
  cbn [fst] in He. destruct (k =? i) eqn:E; [discriminate|].
  inversion He; subst. apply Z.eqb_neq in E. auto.
Qed.

Lemma in_del_key : forall id i l, In (id, false) (del_key i l) -> In (id, false) l /\ id <> i.
Proof.
  intros id i l H. unfold del_key in H. apply filter_In in H. destruct H as [Hin Hf].
  cbn [fst] in Hf. apply negb_true_iff, Z.eqb_neq in Hf. auto.
Qed.

Lemma remove_ex_in : forall b i s s' f id, remove_ex b i s = (s', f) ->
  (In (id, false) (inb s') -> In (id, false) (inb s) /\ (b = true -> f = true -> has_key i (inb s) = true -> id <> i)) /\
  (In (id, false) (outb s') -> In (id, false) (outb s) /\ (b = false -> f = true -> id <> i)).
Proof.
  intros b i s s' f id H. unfold remove_ex in H.
  destruct b; [destruct (has_key i (inb s)) eqn:Hk; [|destruct (memz i (inb_exp s))]|destruct (has_key i (outb s))];
    inversion H; subst; fields; split; intros Hin; try (split; [exact Hin|intros; congruence]);
    apply in_del_key in Hin; destruct Hin; split; auto.
Qed.

Lemma has_key_in : forall id f l, In (id, f) l -> has_key id l = true.
Proof.
  intros id f l H. unfold has_key. apply existsb_exists. exists (id, f). split; [exact H|apply Z.eqb_refl].
Qed.

Lemma remove_ex_nf_key : forall b i s s', remove_ex b i s = (s', false) ->
  if b then has_key i (inb s) = false else has_key i (outb s) = false.
Proof.
  intros b i s s' H. unfold remove_ex in H.
  destruct b; [destruct (has_key i (inb s)); [|destruct (memz i (inb_exp s))]|destruct (has_key i (outb s))];
    inversion H; reflexivity.
Qed.

Lemma own_tstep : forall s n p s' p' id, tstep s n p = Some (s', p') ->
  (In (id, false) (inb s') -> owns_in p' id = true \/ (In (id, false) (inb s) /\ owns_in p id = false)) /\
  (In (id, false) (outb s') -> owns_out p' id = true \/ (In (id, false) (outb s) /\ owns_out p id = false)).
Proof.
  intros s n p s' p' id H.
  tstep_inv H; cbn [owns_in owns_out]; unfold ce_after2, ce_fin, resume;
    repeat match goal with |- context [if ?c then _ else _] => destruct c eqn:? end;
    repeat match goal with
       | |- context [match ?k with KDone _ _ => _ | KCloser => _ | KFail => _ | KProto _ => _ end] => destruct k
       end; cbn [owns_in owns_out]; fields;
    repeat match goal with
    | |- context [send_err ?s ?n ?id ?c] =>
        let F := fresh "F" in pose proof (send_err_frame s n id c) as F; cbv zeta in F;
        destruct F as (_ & -> & _ & _ & -> & _)
    end;
    try (split; intros Hin; right; split; [exact Hin|reflexivity]).
  all: try match goal with H : remove_ex _ ?i _ = _ |- _ =>
         let R := fresh "R" in pose proof (remove_ex_in _ _ _ _ _ id H) as R; destruct R as [R1 R2];
         split; intros Hin; [destruct (R1 Hin) as [Hin' Hne]|destruct (R2 Hin) as [Hin' Hne]];
         try (right; split; [exact Hin'|try reflexivity]);
         try (apply Z.eqb_neq; apply Hne; auto; eapply has_key_in; eassumption)
       end.
  all: try (split; intros Hin; [|right; split; [exact Hin|reflexivity]]).
  all: try (split; intros Hin; [right; split; [exact Hin|reflexivity]|]).
  all: try (apply in_app_or in Hin; destruct Hin as [Hin|[Hin|[]]];
            [right; split; [exact Hin|reflexivity]|inversion Hin; subst; left; apply Z.eqb_refl]).
  all: try (apply in_set_flag in Hin; destruct Hin as [Hin Hne]; right; split; [exact Hin|apply Z.eqb_neq; congruence]).
  all: try (destruct (id0 =? id) eqn:E; [left; reflexivity|right; split; [exact Hin|reflexivity]]).
  all: try (right; split; [first [exact Hin|congruence]|reflexivity]).
  all: try (apply Z.eqb_neq; intros E; subst;
            first [apply (Hne eq_refl eq_refl (has_key_in _ _ _ Hin')); reflexivity
                  |apply (Hne eq_refl eq_refl); reflexivity]).
  all: try (apply Z.eqb_neq; intros E; subst;
            match goal with H : remove_ex _ _ _ = (_, false) |- _ => apply remove_ex_nf_key in H; cbv beta iota in H;
              rewrite (has_key_in _ _ _ Hin') in H; discriminate end).
  apply in_del_key in Hin. destruct Hin as [Hin _]. right. split; [exact Hin|reflexivity].
Qed.

Definition own_inv (s : sys) : Prop :=
  forall id,
   (In (id, false) (inb (sh s)) -> exists n p, nth_error (thr s) n = Some p /\ owns_in p id = true) /\
   (In (id, false) (outb (sh s)) -> exists n p, nth_error (thr s) n = Some p /\ owns_out p id = true).

Lemma own_reach : forall relay s, Reach step (init relay) s -> own_inv s.
Proof.
  intros relay. apply reach_ind.
  - intros id. split; intros [].
  - intros s l s' _ IH Hs id. destruct l as [k|tid]; cbn [step] in Hs.
    + assert (Hs' : s' = mkSys (sh s) (thr s ++ [start_pc k])).
      { destruct k; try (inversion Hs; reflexivity). destruct (has_relay (sh s)); inversion Hs; reflexivity. }
      subst s'. cbn [sh thr]. destruct (IH id) as [I1 I2].
      split; intros Hin; [destruct (I1 Hin) as [n [p [Hn Hp]]]|destruct (I2 Hin) as [n [p [Hn Hp]]]];
        exists n, p; (split; [apply nth_error_snoc_old; exact Hn|exact Hp]).
    + destruct (nth_error (thr s) tid) as [p|] eqn:Ep; [|discriminate].
      destruct (tstep (sh s) tid p) as [[sh' p']|] eqn:Et; [|discriminate].
      inversion Hs; subst s'; clear Hs. cbn [sh thr].
      destruct (own_tstep _ _ _ _ _ id Et) as [O1 O2]. destruct (IH id) as [I1 I2].
      pose proof (nth_error_lt _ _ _ Ep) as Hlt.
      split; intros Hin.
      * destruct (O1 Hin) as [Ho|[Hin0 Hno]].
        -- exists tid, p'. split; [apply nth_error_upd_same; exact Hlt|exact Ho].
        -- destruct (I1 Hin0) as [n [q [Hn Hq]]]. exists n, q. split; [|exact Hq].
           rewrite nth_error_upd_other; [exact Hn|]. intros E. subst n. congruence.
      * destruct (O2 Hin) as [Ho|[Hin0 Hno]].
        -- exists tid, p'. split; [apply nth_error_upd_same; exact Hlt|exact Ho].
        -- destruct (I2 Hin0) as [n [q [Hn Hq]]]. exists n, q. split; [|exact Hq].
           rewrite nth_error_upd_other; [exact Hn|]. intros E. subst n. congruence.
Qed.

(* OUTBOUND LOCAL FAILURE.
   (1) beginCall on a connection that is not Active returns ErrConnectionClosed in one step and
       changes nothing else (no exchange, no message id consumed);
   (2) if the state left Active between the check and the registration, the re-check sends the
       call to the removal of its exchange and the same local error;
   (3) in every reachable state an outbound exchange that is registered but not begun belongs to
       a beginCall that is between its registration and its re-check/removal -- exchanges of
       refused calls never stay behind (the same holds for inbound exchanges and handleCallReq). *)
Theorem conn_outbound_local :
  (forall s n, st s <> sA -> tstep s n PC1 = Some (s, PDone oCClosed1 0)) /\
  (forall s n id, st s <> sA -> tstep s n (PC3 id) = Some (s, PC4 id)) /\
  (forall s n id, exists s', tstep s n (PC4 id) = Some (s', if has_key id (outb s) then PCE0 (KDone oCClosed2 id) else PDone oCClosed2 id)
                   /\ has_key id (outb s') = false /\ st s' = st s /\ inb s' = inb s) /\
  (forall relay s, Reach step (init relay) s -> forall id,
     (In (id, false) (outb (sh s)) -> exists n, nth_error (thr s) n = Some (PC3 id) \/ nth_error (thr s) n = Some (PC4 id)) /\
     (In (id, false) (inb (sh s)) -> exists n, nth_error (thr s) n = Some (PR3 id) \/ nth_error (thr s) n = Some (PR4 id)
                                             \/ nth_error (thr s) n = Some (PR5 id))).
Proof.
  split; [|split; [|split]].
  - intros s n H. apply Z.eqb_neq in H. cbn [tstep]. rewrite H. reflexivity.
  - intros s n id H. apply Z.eqb_neq in H. cbn [tstep]. rewrite H. reflexivity.
  - intros s n id. cbn [tstep]. unfold remove_ex. destruct (has_key id (outb s)) eqn:E.
    + eexists. split; [reflexivity|]. fields. repeat split; try reflexivity.
      unfold has_key, del_key. clear E. induction (outb s) as [|[k f] l IH]; [reflexivity|].
      cbn [filter fst]. destruct (k =? id) eqn:Ek; cbn [negb]; [exact IH|].
      cbn [existsb fst]. rewrite Ek. exact IH.
    + eexists. split; [reflexivity|]. repeat split; try reflexivity. exact E.
  - intros relay s Hr id. destruct (own_reach relay s Hr id) as [I1 I2]. split; intros Hin.
    + destruct (I2 Hin) as [n [p [Hn Hp]]]. exists n.
      destruct p; cbn [owns_out] in Hp; try discriminate; apply Z.eqb_eq in Hp; subst; auto.
    + destruct (I1 Hin) as [n [p [Hn Hp]]]. exists n.
      destruct p; cbn [owns_in] in Hp; try discriminate; apply Z.eqb_eq in Hp; subst; auto.
Qed.

(* a handleCallReq thread stays inside its own program counters and can only finish with one of
   four outcomes: dispatched, refused at the first check, refused at the re-check, protocol error *)
Definition reader_k (id : Z) (k : cont) : bool :=
  match k with
  | KDone o i => (o =? oRefused2) && (i =? id)
  | KProto i => i =? id
  | _ => false
  end.
Definition reader_pc (id : Z) (p : pc) : bool :=
  match p with
  | PR1 i | PRRef i | PR2 i | PR3 i | PR4 i | PR5 i | PProtoSend i | PProtoCAS i | PProtoStopOut i | PProtoStopIn i => i =? id
  | PClose k | PCloseCb k | PCE0 k | PCE1 _ k | PCE2 _ k | PCE3 k | PCE4 k | PCE5 k | PCE6 _ k | PCE7 _ k
  | PCE8 _ k | PCE9 k | PCE10 k => reader_k id k
  | PDone o i => ((o =? oDispatched) || (o =? oRefused1) || (o =? oRefused2) || (o =? oProto)) && (i =? id)
  | _ => false
  end.

Lemma conn_reader_outcomes : forall id,
  reader_pc id (start_pc (TReader id)) = true /\
  (forall s n p s' p', reader_pc id p = true -> tstep s n p = Some (s', p') -> reader_pc id p' = true) /\
  (forall o i, reader_pc id (PDone o i) = true ->
     i = id /\ (o = oDispatched \/ o = oRefused1 \/ o = oRefused2 \/ o = oProto)).
Proof.
  intros id. split; [cbn; apply Z.eqb_refl|]. split.
  - intros s n p s' p' Hp H.
    tstep_inv H; cbn [reader_pc reader_k] in *; unfold ce_after2, ce_fin, resume;
      repeat match goal with |- context [if ?c then _ else _] => destruct c eqn:? end;
      repeat match goal with
       | |- context [match ?k with KDone _ _ => _ | KCloser => _ | KFail => _ | KProto _ => _ end] => destruct k
       end; cbn [reader_pc reader_k] in *; try discriminate; try assumption;
      try (apply andb_true_iff in Hp; destruct Hp as [Hp1 Hp2]; apply Z.eqb_eq in Hp1; subst);
      try (rewrite Hp; reflexivity); try (rewrite Hp2; reflexivity); try reflexivity.
  - intros o i H. cbn [reader_pc] in H. apply andb_true_iff in H. destruct H as [H1 H2].
    apply Z.eqb_eq in H2. split; [exact H2|].
    repeat (apply orb_true_iff in H1; destruct H1 as [H1|H1]); apply Z.eqb_eq in H1; auto.
Qed.
