(* The tie between the library's pool sites and the model (property C04, pool discipline), and
   the discipline of the life cycles.

     syncpool_site_offenders_none / syncpool_sites_generated
         the table of every sync.Pool Get / Put site and every call of a put wrapper that go2v
         extracts from the source on this run IS the model's table (row for row, in order);
         stated first as "no offending row numbers" so that a new, removed, moved or re-guarded
         site is reported by its number in Gen/GenSyncPools.v (generated rows unknown to the
         model: n; rows of the model that were not generated: 1000 + n)
     syncpool_decls_generated   the same for the declared pools
     pools_covered              every declared pool is under census in the harness or listed, with
                                the reason, as not tracked
     pool_roles_ok              the roles are well-formed: Get rows begin a cycle, Put / PutVia
                                rows end one or hand on; every cycle is entered and left
     pool_double_release_fns    two release sites of one cycle within one function occur only
                                in the listed function(s)
     lc_disciplined             any interleaving of any number of holders, each taking one object
                                and giving it back at most once, is a disciplined trace -- hence
                                (Proofs/PoolTraceP.v) exclusive after every prefix *)
From Coq Require Import ZArith List Bool Lia String.
From Verif Require Import Base.Wrap Base.Wire Spec.PoolTraceSpec Model.PoolTrace Model.PoolSites Gen.GenSyncPools Proofs.PoolTraceP.
Import ListNotations.
Local Open Scope Z_scope.

(* ------------------------------------------------------------------ the generated tables *)

Lemma syncpool_site_offenders_none : ps_offenders syncpool_sites = [].
Proof. vm_compute. reflexivity. Qed.

Lemma syncpool_sites_generated : map fst pool_site_table = syncpool_sites.
Proof. vm_compute. reflexivity. Qed.

Lemma syncpool_decl_offenders_none : pd_offenders syncpool_decls = [].
Proof. vm_compute. reflexivity. Qed.

Lemma syncpool_decls_generated : pool_decl_table = syncpool_decls.
Proof. vm_compute. reflexivity. Qed.

Lemma pools_covered_b : forallb pool_covered syncpool_decls = true.
Proof. vm_compute. reflexivity. Qed.

Lemma pools_covered : forall d, In d syncpool_decls -> pool_covered d = true.
Proof. apply forallb_forall. exact pools_covered_b. Qed.

Lemma pool_tracked_bytes : pool_tracked_z = pool_tracked.
Proof. vm_compute. reflexivity. Qed.

Lemma run_pooltracked_spec : forall names,
  run_pooltracked (put_list put_bytes names) = [1] -> ps_lzl_eq (fst (take_list take_bytes (put_list put_bytes names))) pool_tracked = true.
Proof.
  intros names. unfold run_pooltracked. rewrite pool_tracked_bytes.
  destruct (take_list take_bytes (put_list put_bytes names)) as [ns rest]. cbn [fst].
  destruct (ps_lzl_eq ns pool_tracked); [reflexivity|discriminate].
Qed.

Lemma pool_roles_ok : forallb ps_role_ok pool_site_table = true /\ ps_cycles_ok = true.
Proof. split; vm_compute; reflexivity. Qed.

Lemma pool_double_release_fns : ps_same_fn_releases pool_site_table = ps_double_release_fns.
Proof. vm_compute. reflexivity. Qed.

(* every release row of the generated table belongs to exactly the cycle the model gives it *)
Lemma pool_release_rows : forall r, In r syncpool_sites ->
  exists role, In (r, role) pool_site_table.
Proof.
  intros r Hr. rewrite <- syncpool_sites_generated in Hr. apply in_map_iff in Hr.
  destruct Hr as [[r' role] [Hf Hin]]. cbn [fst] in Hf. subst r'. exists role. exact Hin.
Qed.

(* ------------------------------------------------------------------ the life cycles *)

Lemma pw_rm1p_keeps : forall x y l, In x l -> x <> y -> In x (pw_rm1p y l).
Proof.
  intros x y l. induction l as [|z r IH]; cbn [pw_rm1p In]; [tauto|].
  intros Hin Hne. destruct (pw_pair_eqb z y) eqn:E.
  - apply pw_pair_eqb_eq in E. subst z. destruct Hin as [Hz|Hin]; [congruence|exact Hin].
  - destruct Hin as [Hz|Hin]; [left; exact Hz|right; apply IH; assumption].
Qed.

Lemma lc_memz_in : forall x l, lc_memz x l = true -> In x l.
Proof.
  intros x l. induction l as [|y r IH]; cbn [lc_memz In]; [discriminate|].
  rewrite orb_true_iff, Z.eqb_eq. intros [H|H]; [left; exact H|right; apply IH; exact H].
Qed.

Lemma max_seen_fresh : forall l x, In x l -> x <= fold_right Z.max 0 l.
Proof.
  induction l as [|y r IH]; intros x; cbn [In fold_right]; [tauto|].
  intros [->|H]; [lia|]. specialize (IH x H). lia.
Qed.

Lemma lc_new_fresh : forall w, ~ In (lc_new w) (pw_seen w).
Proof. intros w Hc. apply max_seen_fresh in Hc. unfold lc_new in Hc. lia. Qed.

Definition lc_inv (s : lc_st) : Prop :=
  forall h, lc_phase s h = 1 -> In (lc_obj s h, h) (pw_held (lc_world s)).

Lemma lc_step_ok : forall s l ev s', lc_inv s -> lc_step s l = Some (ev, s') ->
  disc_from (lc_world s) ev /\ lc_world s' = pw_run (lc_world s) ev /\ lc_inv s'.
Proof.
  intros s l ev s' Hinv. destruct l as [h pick|h|h]; cbn [lc_step].
  - destruct (lc_phase s h =? 0) eqn:E0; cbn [negb]; [|discriminate]. apply Z.eqb_eq in E0.
    assert (Hnew : forall o w', In (o, h) (pw_held w') -> (forall h', lc_phase s h' = 1 -> In (lc_obj s h', h') (pw_held w')) ->
              lc_inv (mkLc w' (lc_upd (lc_phase s) h 1) (lc_upd (lc_obj s) h o))).
    { intros o w' Hoh Hrest h' Hp. unfold lc_inv, lc_upd in *. cbn [lc_phase lc_obj lc_world] in *.
      destruct (Z.eqb_spec h' h) as [Heq|Hne]; [rewrite Heq; exact Hoh|]. apply Hrest. exact Hp. }
    destruct pick as [o|].
    + destruct (lc_memz o (pw_bag (lc_world s))) eqn:Em; [|discriminate].
      intros H; inversion H; subst ev s'. cbn [disc_from ev_ok pw_run fold_left lc_world].
      split; [split; [left; apply lc_memz_in; exact Em|exact I]|]. split; [reflexivity|].
      apply Hnew; cbn [pw_step pw_held]; [left; reflexivity|]. intros h' Hp. right. apply Hinv. exact Hp.
    + intros H; inversion H; subst ev s'. cbn [disc_from ev_ok pw_run fold_left lc_world].
      split.
      * split; [|exact I]. right. apply lc_new_fresh.
      * split; [reflexivity|].
        apply Hnew; cbn [pw_step pw_held]; [left; reflexivity|]. intros h' Hp. right. apply Hinv. exact Hp.
  - destruct (lc_phase s h =? 1) eqn:E1; [|discriminate]. apply Z.eqb_eq in E1.
    intros H; inversion H; subst ev s'. cbn [disc_from ev_ok pw_run fold_left lc_world].
    split; [split; [apply Hinv; exact E1|exact I]|]. split; [reflexivity|].
    intros h' Hp. unfold lc_upd in Hp. cbn [lc_phase lc_obj lc_world pw_step pw_held] in *.
    destruct (Z.eqb_spec h' h) as [Heq|Hne]; [discriminate|].
    apply pw_rm1p_keeps; [apply Hinv; exact Hp|]. intros Hc. inversion Hc. congruence.
  - destruct (lc_phase s h =? 1) eqn:E1; [|discriminate].
    intros H; inversion H; subst ev s'. cbn [disc_from pw_run fold_left lc_world].
    split; [exact I|]. split; [reflexivity|].
    intros h' Hp. unfold lc_upd in Hp. cbn [lc_phase lc_obj lc_world] in *.
    destruct (Z.eqb_spec h' h) as [Heq|Hne]; [discriminate|]. apply Hinv. exact Hp.
Qed.

Lemma disc_from_app_intro : forall a b w, disc_from w a -> disc_from (pw_run w a) b -> disc_from w (a ++ b).
Proof.
  induction a as [|e r IH]; intros b w; cbn [app disc_from pw_run fold_left]; [tauto|].
  intros [Hok Hr] Hb. split; [exact Hok|]. apply IH; assumption.
Qed.

Lemma pw_run_app : forall a b w, pw_run w (a ++ b) = pw_run (pw_run w a) b.
Proof. intros a b w. unfold pw_run. apply fold_left_app. Qed.

Lemma lc_run_ok : forall ls s evs s', lc_inv s -> lc_run s ls = Some (evs, s') ->
  disc_from (lc_world s) evs /\ lc_world s' = pw_run (lc_world s) evs /\ lc_inv s'.
Proof.
  induction ls as [|l r IH]; intros s evs s' Hinv; cbn [lc_run].
  - intros H; inversion H; subst. cbn [disc_from pw_run fold_left]. tauto.
  - destruct (lc_step s l) as [[ev s1]|] eqn:E; [|discriminate].
    destruct (lc_run s1 r) as [[evr s2]|] eqn:Er; [|discriminate].
    intros H; inversion H; subst evs s'.
    destruct (lc_step_ok s l ev s1 Hinv E) as (Hd1 & Hw1 & Hi1).
    destruct (IH s1 evr s2 Hi1 Er) as (Hd2 & Hw2 & Hi2).
    split; [apply disc_from_app_intro; [exact Hd1|rewrite <- Hw1; exact Hd2]|].
    split; [rewrite pw_run_app, <- Hw1; exact Hw2|exact Hi2].
Qed.

Theorem lc_disciplined : forall ls evs s', lc_run lc_init ls = Some (evs, s') -> disciplined evs.
Proof.
  intros ls evs s' H. apply disciplined_iff.
  assert (Hinv : lc_inv lc_init) by (intros h Hp; cbn [lc_init lc_phase] in Hp; discriminate).
  apply (lc_run_ok ls lc_init evs s' Hinv H).
Qed.

(* ... and therefore no two holders of a life-cycle run ever share an object *)
Theorem lc_no_sharing : forall ls evs s', lc_run lc_init ls = Some (evs, s') ->
  forall pre post, evs = pre ++ post -> exclusive (pw_run pw_init pre) /\ no_sharing (pw_run pw_init pre).
Proof.
  intros ls evs s' H pre post Heq. pose proof (lc_disciplined ls evs s' H) as Hd. split.
  - eapply pool_discipline_exclusive; eassumption.
  - eapply pool_discipline_no_sharing; eassumption.
Qed.

(* non-vacuity: three holders overlapping, one of them dropping its object, the pool reusing one *)
Example lc_example :
  exists evs s', lc_run lc_init [LcGet 1 None; LcGet 2 None; LcPut 1; LcGet 3 (Some 1); LcDrop 2; LcPut 3] = Some (evs, s')
    /\ evs = [PGet 1 1; PGet 2 2; PPut 1 1; PGet 1 3; PPut 1 3].
Proof. eexists. eexists. split; vm_compute; reflexivity. Qed.

(* non-vacuity of the tables: the two sites whose combination a missed change exploited *)
Example pool_sites_example :
  existsb (fun p => ps_row_eq (fst p) ps_row_writer_release) pool_site_table = true /\
  existsb (fun p => ps_row_eq (fst p) ps_row_readheaders_release) pool_site_table = true.
Proof. split; vm_compute; reflexivity. Qed.
