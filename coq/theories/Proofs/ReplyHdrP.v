(* C06, family "the header id / type of a RESPONSE is that of the request it answers".

   (Proofs/ReplySpecP.v: the reply-header model of Model/MsgRun.v equals the pairing of the
   protocol document, Spec/ReplyHdr.v.)
   Here: the model is the code: the id expression at every site where the library builds a message
       in answer to a frame is regenerated from the Go source on every run (Gen/GenReplySites.v:
       one list per function and kind of site, local variables resolved to their definitions;
       Gen/GenReplyIds.v: the ID() / messageType() methods, Frame.write, readMessage, the id test
       of outboundHandshake).  [code_*] below chain the generated pieces the way the Go code
       chains the calls; each chain is proved equal to the model's reply header, i.e. every
       generated piece is the identity on the id.  A literal, another variable, arithmetic on the
       id, a dropped or an added site in one of these functions changes a generated definition
       and the corresponding lemma no longer holds. *)
From Coq Require Import ZArith List Bool Lia String.
From Verif Require Import Base.Wrap Gen.GenConsts Gen.GenReplyIds Gen.GenReplySites Model.MsgRun Spec.ReplyHdr Proofs.ReplySpecP.
Import ListNotations.
Local Open Scope Z_scope.

(* ---------------------------------------------------------------- (2) the model is the code *)

(* Frame.write (frame.go) for a control message whose struct answers messageType() = t, ID() = i:
   the header (type, id) of the frame; None = the body did not fit (no frame) *)
Definition ctl_hdr (t i : Z) : option (Z * Z) :=
  match frameWriteType false t, frameWriteId false i with
  | Some t', Some i' => Some (t', i')
  | _, _ => None
  end.

(* inboundHandshake: readMessage -> id -> getInitMessage(ctx, id) -> initMessage{id: id} ->
   initRes.ID() / messageType() -> Frame.write *)
Definition code_reply_init (mismatch is_err : bool) (fid : Z) : list (option (Z * Z)) :=
  map (fun i => ctl_hdr initRes_messageType (initMessage_ID i))
      (flat_map getInitMessageIds (inboundInitResIds (readMessageId false mismatch is_err fid))).
(* inboundHandshake's deferred initError(c, inbound, id, err) -> errorMessage{id: id} *)
Definition code_reply_init_refused (mismatch is_err : bool) (fid : Z) : list (option (Z * Z)) :=
  map (fun i => ctl_hdr errorMessage_messageType (errorMessage_ID i))
      (flat_map initErrorIds (inboundInitErrIds (readMessageId false mismatch is_err fid))).
(* handlePingReq: pingRes{id: frame.Header.ID} *)
Definition code_reply_ping (fid : Z) : list (option (Z * Z)) :=
  map (fun i => ctl_hdr pingRes_messageType (pingRes_ID i)) (pingResIds fid).
(* Connection.SendSystemError(id, ..): errorMessage{id: id} *)
Definition code_sys_error (id : Z) : list (option (Z * Z)) :=
  map (fun i => ctl_hdr errorMessage_messageType (errorMessage_ID i)) (sendSystemErrorIds id).
(* Connection.protocolError(id, ..) -> SendSystemError(id, ..) *)
Definition code_proto_error (id : Z) : list (option (Z * Z)) := flat_map code_sys_error (protocolErrorIds id).
(* handleCallReq: the refusals (closing connection, twice), the duplicate-id protocol error,
   the protocol error of a ping on a closed connection *)
Definition code_callreq_refusals (fid : Z) : list (option (Z * Z)) := flat_map code_sys_error (callReqRefusalIds fid).
Definition code_callreq_proto (fid : Z) : list (option (Z * Z)) := flat_map code_proto_error (callReqProtoErrIds fid).
Definition code_ping_proto (fid : Z) : list (option (Z * Z)) := flat_map code_proto_error (pingReqProtoErrIds fid).
(* the exchange of an inbound call: newExchange(.., frame.Header.ID, ..) -> messageExchange{msgID: msgID} *)
Definition code_mex_id (fid : Z) : list Z := flat_map newExchangeIds (callReqExchangeIds fid).
(* a handler's system error: InboundCallResponse.SendSystemError -> conn.SendSystemError(mex.msgID, ..) *)
Definition code_handler_error (fid : Z) : list (option (Z * Z)) :=
  flat_map code_sys_error (flat_map handlerErrIds (code_mex_id fid)).
(* a response fragment: reqResWriter.newFragment sets frame.Header.ID = w.mex.msgID and
   frame.Header.messageType = message.messageType(), message = response.messageForFragment(initial) *)
Definition code_fragment (initial : bool) (fid : Z) : list (Z * Z) :=
  list_prod (fragmentTypes (inboundResMsgType initial)) (flat_map fragmentIds (code_mex_id fid)).
(* cancel: which exchange an inbound cancel frame cancels; the cancel frame sent for an outbound call *)
Definition code_cancel_sent (mex_id : Z) : list (option (Z * Z)) :=
  map (fun i => ctl_hdr cancelMessage_messageType (cancelMessage_ID i)) (flat_map cancelMsgIds (cancelNotifyIds mex_id)).
(* the connecting side: outboundHandshake's init req, its error frame *)
Definition code_out_init_req : list (option (Z * Z)) :=
  map (fun i => ctl_hdr initReq_messageType (initMessage_ID i)) (flat_map getInitMessageIds outboundInitReqIds).
Definition code_out_init_err : list (option (Z * Z)) :=
  map (fun i => ctl_hdr errorMessage_messageType (errorMessage_ID i)) (flat_map initErrorIds outboundInitErrIds).

Lemma read_message_id : forall rf mm ie fid, readMessageId rf mm ie fid = if rf then 0 else fid.
Proof. intros [] [] [] fid; reflexivity. Qed.

Lemma code_reply_init_ok : forall mm ie fid, code_reply_init mm ie fid = map Some (reply_init fid).
Proof. intros [] [] fid; reflexivity. Qed.
Lemma code_reply_init_refused_ok : forall mm ie fid, code_reply_init_refused mm ie fid = map Some (reply_init_refused fid).
Proof. intros [] [] fid; reflexivity. Qed.
Lemma code_reply_ping_ok : forall fid, code_reply_ping fid = map Some (reply_ping fid).
Proof. reflexivity. Qed.
Lemma code_sys_error_ok : forall id, code_sys_error id = map Some (reply_error id).
Proof. reflexivity. Qed.
Lemma code_proto_error_ok : forall id, code_proto_error id = map Some (reply_error id).
Proof. reflexivity. Qed.
Lemma code_callreq_refusals_ok : forall fid, code_callreq_refusals fid = map Some (reply_error fid ++ reply_error fid).
Proof. reflexivity. Qed.
Lemma code_callreq_proto_ok : forall fid, code_callreq_proto fid = map Some (reply_error fid).
Proof. reflexivity. Qed.
Lemma code_ping_proto_ok : forall fid, code_ping_proto fid = map Some (reply_error fid).
Proof. reflexivity. Qed.
Lemma code_mex_id_ok : forall fid, code_mex_id fid = [fid].
Proof. reflexivity. Qed.
Lemma code_callreq_msg_id_ok : forall fid, map callReq_ID (callReqMsgIds fid) = [fid].
Proof. reflexivity. Qed.
Lemma code_handler_error_ok : forall fid, code_handler_error fid = map Some (reply_error fid).
Proof. reflexivity. Qed.
Lemma code_fragment_ok : forall (frag : bool) fid,
  code_fragment true fid ++ (if frag then code_fragment false fid else []) = reply_call frag fid.
Proof. intros [] fid; reflexivity. Qed.
Lemma code_cancel_lookup_ok : forall fid, cancelLookupIds fid = [fid].
Proof. reflexivity. Qed.
Lemma code_cancel_sent_ok : forall mex_id, code_cancel_sent mex_id = [Some (c_messageTypeCancel, mex_id)].
Proof. reflexivity. Qed.
Lemma code_out_init_req_ok : code_out_init_req = [Some (c_messageTypeInitReq, out_init_id)].
Proof. reflexivity. Qed.
Lemma code_out_init_err_ok : code_out_init_err = [Some (c_messageTypeError, out_init_id)].
Proof. reflexivity. Qed.
Lemma code_out_accept_ok : forall id,
  map (outboundInitResAccept id) (flat_map getInitMessageIds outboundInitReqIds) = [out_accepts id].
Proof.
  intros id. cbn. unfold outboundInitResAccept, out_accepts, out_init_id.
  destruct (id =? 1); reflexivity.
Qed.

(* the type codes the message structs answer with are those of the protocol document *)
Lemma message_types_ok :
  [initReq_messageType; initRes_messageType; callReq_messageType; callRes_messageType;
   callReqContinue_messageType; callResContinue_messageType; cancelMessage_messageType;
   pingReq_messageType; pingRes_messageType; errorMessage_messageType]
  = [1; 2; 3; 4; 19; 20; 192; 208; 209; 255].
Proof. reflexivity. Qed.

(* Frame.write never alters the id or the type a message reports *)
Lemma frame_write_hdr : forall failed t i,
  frameWriteType failed t = (if failed then None else Some t) /\ frameWriteId failed i = (if failed then None else Some i).
Proof. intros [] t i; split; reflexivity. Qed.

Theorem reply_headers_generated :
  (forall mm ie fid, code_reply_init mm ie fid = map Some (reply_init fid)) /\
  (forall mm ie fid, code_reply_init_refused mm ie fid = map Some (reply_init_refused fid)) /\
  (forall fid, code_reply_ping fid = map Some (reply_ping fid)) /\
  (forall fid, code_ping_proto fid = map Some (reply_error fid)) /\
  (forall fid, code_callreq_refusals fid = map Some (reply_error fid ++ reply_error fid)) /\
  (forall fid, code_callreq_proto fid = map Some (reply_error fid)) /\
  (forall fid, code_handler_error fid = map Some (reply_error fid)) /\
  (forall (frag : bool) fid, code_fragment true fid ++ (if frag then code_fragment false fid else []) = reply_call frag fid) /\
  (forall fid, map callReq_ID (callReqMsgIds fid) = [fid]) /\
  (forall fid, cancelLookupIds fid = [fid]).
Proof.
  split; [exact code_reply_init_ok|]. split; [exact code_reply_init_refused_ok|].
  split; [exact code_reply_ping_ok|]. split; [exact code_ping_proto_ok|].
  split; [exact code_callreq_refusals_ok|]. split; [exact code_callreq_proto_ok|].
  split; [exact code_handler_error_ok|]. split; [exact code_fragment_ok|].
  split; [exact code_callreq_msg_id_ok|exact code_cancel_lookup_ok].
Qed.

Theorem out_headers_generated :
  code_out_init_req = [Some (c_messageTypeInitReq, out_init_id)] /\
  code_out_init_err = [Some (c_messageTypeError, out_init_id)] /\
  (forall id, map (outboundInitResAccept id) (flat_map getInitMessageIds outboundInitReqIds) = [out_accepts id]) /\
  (forall id, out_accepts id = true <-> id = out_init_id) /\
  (forall mex_id, code_cancel_sent mex_id = [Some (c_messageTypeCancel, mex_id)]).
Proof.
  split; [exact code_out_init_req_ok|]. split; [exact code_out_init_err_ok|].
  split; [exact code_out_accept_ok|]. split; [|exact code_cancel_sent_ok].
  intros id. unfold out_accepts. apply Z.eqb_eq.
Qed.

(* ---------------------------------------------------------------- no site outside the chains *)

(* Gen/GenReplySites.v reply_id_table: EVERY write to FrameHeader.ID / .messageType (kind 1), every
   call of Connection.SendSystemError / protocolError (kind 2) and every literal of an id-carrying
   message struct (kind 3) of the root package.  Each row lies in a function of a chain above
   ([rid_chained]), in a function that only DECODES a frame it received or builds a REQUEST the
   library originates with a fresh id ([rid_other]; those ids are C04's), or in relay.go (the
   relay's id mapping is the subject of C08-C10). *)
Definition rid_chained : list string :=
  ["Channel.getInitMessage"; "Channel.initError"; "Connection.handlePingReq"; "Connection.SendSystemError";
   "Connection.protocolError"; "Frame.write"; "Connection.handleCallReq"; "InboundCallResponse.SendSystemError";
   "reqResWriter.newFragment"; "Connection.onCancel"]%string.
Definition rid_other : list string :=
  ["FrameHeader.read"; "messageExchange.recvPeerFrameOfType"; "Connection.handleError"; "readError";
   "Connection.pingWithErrHandler"; "Connection.beginCall"]%string.
Definition rid_row_ok (row : string * string * Z * string) : bool :=
  let '(file, fn, _, _) := row in
  String.eqb file "relay.go" || existsb (String.eqb fn) (rid_chained ++ rid_other).

(* and inside the chained functions the site lists are COMPLETE: the number of rows of a kind in
   a function is the number of entries of the generated lists for that function and kind (a site
   written with another receiver or lvalue text would be in the table but in no list) *)
Definition rid_count (fn : string) (kind : Z) : nat :=
  List.length (filter (fun row : string * string * Z * string =>
                         let '(_, f, k, _) := row in String.eqb f fn && (k =? kind)) reply_id_table).
Definition rid_expected : list (string * Z * nat) :=
  [("Channel.getInitMessage", 3, List.length (getInitMessageIds 0));
   ("Channel.initError", 3, List.length (initErrorIds 0));
   ("Connection.handlePingReq", 2, List.length (pingReqProtoErrIds 0));
   ("Connection.handlePingReq", 3, List.length (pingResIds 0));
   ("Connection.SendSystemError", 3, List.length (sendSystemErrorIds 0));
   ("Connection.protocolError", 2, List.length (protocolErrorIds 0));
   ("Connection.handleCallReq", 2, List.length (callReqRefusalIds 0 ++ callReqProtoErrIds 0));
   ("Connection.handleCallReq", 1, 0%nat); ("Connection.handleCallReq", 3, 0%nat);
   ("InboundCallResponse.SendSystemError", 2, List.length (handlerErrIds 0));
   ("reqResWriter.newFragment", 1, List.length (fragmentIds 0 ++ fragmentTypes 0));
   ("Frame.write", 1, 2%nat);
   ("Connection.onCancel", 3, List.length (cancelMsgIds 0))]%string.

Lemma reply_id_table_covered :
  forallb rid_row_ok reply_id_table = true /\
  forallb (fun e : string * Z * nat => let '(fn, kind, n) := e in Nat.eqb (rid_count fn kind) n) rid_expected = true.
Proof. split; vm_compute; reflexivity. Qed.
