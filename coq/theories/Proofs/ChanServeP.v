(* C07, third strengthening: Channel.Serve / Channel.ListenAndServe as threads of the channel close
   model (Model/ChanClose.v: PSrv, PLs1; labels LServe, LListenServe).  The theorems of
   Proofs/ChanCloseP.v are over [Reach cstep cinit], so they quantify over these labels already
   (Serve at any point, any number of times, after Close, racing Close); this file adds what the
   statement says about Serve itself. *)
From Coq Require Import ZArith List Bool Lia Arith.
From Verif Require Import Base.Wrap Base.Wire Gen.GenConsts Model.CloseKernel Model.ChanClose
  Proofs.CloseKernelP Proofs.ChanCloseP.
Import ListNotations.
Local Open Scope Z_scope.

(* ---------- what one Serve does (the single Lock region) ---------- *)
Theorem chan_serve_step : forall s arg,
  exists s' o, ctstep s PSrv arg = Some (s', CDone o) /\
    conns s' = conns s /\ cstates s' = cstates s /\ g_closed s' = g_closed s /\ g_owed s' = g_owed s /\
    ((o = oSrvOk /\ chst s = hClient /\ lis s = false /\ chst s' = hListening /\ lis s' = true) \/
     (o = oSrvInvalid /\ chst s <> hClient /\ lis s = false /\ chst s' = chst s /\ lis s' = true) \/
     (o = oSrvAlready /\ lis s = true /\ s' = s)).
Proof.
  intros s arg. cbn [ctstep]. destruct (lis s) eqn:El.
  - exists s, oSrvAlready. repeat split. right. right. repeat split.
  - destruct (chst s =? hClient) eqn:Ec; cbn [negb].
    + apply Z.eqb_eq in Ec. eexists. exists oSrvOk. split; [reflexivity|]. cfields. repeat split.
      left. repeat split; assumption.
    + apply Z.eqb_neq in Ec. eexists. exists oSrvInvalid. split; [reflexivity|]. cfields. repeat split.
      right. left. repeat split; assumption.
Qed.

(* ListenAndServe: the unlocked test of mutable.l, then Serve *)
Theorem chan_listen_serve_step : forall s arg,
  ctstep s PLs1 arg = Some (s, if lis s then CDone oSrvAlready else PSrv).
Proof. intros s arg. cbn [ctstep]. destruct (lis s); reflexivity. Qed.

(* ---------- once Close has taken effect nothing is served any more ---------- *)
(* From any reachable state at or beyond StartClose, along every continuation (further Close calls,
   Serve / ListenAndServe calls, connection events, callbacks): the state stays at or beyond
   StartClose, every connection that completes its handshake is refused (not tracked, closed), and
   every Serve fails (errAlreadyListening / errInvalidStateForOp) without touching the state. *)
Theorem chan_no_service_after_close : forall ls1 ls2 s1 s2,
  run cstep cinit ls1 = Some s1 -> hSC <= chst (csh s1) -> run cstep s1 ls2 = Some s2 ->
  hSC <= chst (csh s2) /\
  (forall c arg, ctstep (csh s2) (PAd1 c) arg = Some (csh s2, PAd2 c)) /\
  (forall arg, ctstep (csh s2) PConn arg = Some (csh s2, CDone oConnErr)) /\
  (forall arg, exists s' o, ctstep (csh s2) PSrv arg = Some (s', CDone o) /\
                            (o = oSrvAlready \/ o = oSrvInvalid) /\ chst s' = chst (csh s2) /\ conns s' = conns (csh s2)).
Proof.
  intros ls1 ls2 s1 s2 H1 Hge H2.
  destruct (chan_monotone ls1 ls2 s1 s2 H1 H2) as (Hle & _ & _).
  assert (Hge2 : hSC <= chst (csh s2)) by lia.
  split; [exact Hge2|].
  destruct (chan_connect_local (csh s2) 0 Hge2) as [_ Hx].
  split; [intros c arg; destruct (chan_connect_local (csh s2) arg Hge2) as [_ Hy]; apply Hy|].
  split; [intros arg; destruct (chan_connect_local (csh s2) arg Hge2) as [Hy _]; exact Hy|].
  intros arg. destruct (chan_serve_step (csh s2) arg) as (s' & o & Hs & Hc & _ & _ & _ & Hcase).
  exists s', o. split; [exact Hs|].
  destruct Hcase as [(-> & Hcl & _)|[(-> & _ & _ & Hst & _)|(-> & _ & ->)]].
  - exfalso. rewrite Hcl in Hge2. cconsts. lia.
  - split; [right; reflexivity|]. split; assumption.
  - split; [left; reflexivity|]. split; reflexivity.
Qed.

(* ---------- at most one Serve ever succeeds ---------- *)
Definition srv_ok (p : cpc) : bool := match p with CDone o => o =? oSrvOk | _ => false end.

Lemma srv_tstep : forall s p arg s' p', A_ch s p -> ctstep s p arg = Some (s', p') ->
  b2z (lis s) <= b2z (lis s') /\
  b2z (srv_ok p') + b2z (lis s) <= b2z (srv_ok p) + b2z (lis s') /\
  (chst s' = hListening -> chst s = hListening \/ lis s' = true).
Proof.
  intros s p arg s' p' HA H.
  assert (Hcc : forall d, lis (conn_close s d) = lis s /\ chst (conn_close s d) = chst s).
  { intros d. unfold conn_close. destruct (cstate s d =? kA); split; reflexivity. }
  ctstep_inv H; cfields; cbn [srv_ok b2z A_ch] in *;
    try (destruct (Hcc (Z.to_nat arg)) as [-> ->]); try (destruct (Hcc c) as [-> ->]);
    try (match goal with |- context [if ?b then PCl3 else _] => destruct b end);
    try (match goal with |- context [if ?b then PCb6 else _] => destruct b end);
    cbn [srv_ok b2z]; unfold oCloseDone, oCbDone, oAdded, oNotAdded, oConnOk, oConnErr, oSrvOk, oSrvAlready, oSrvInvalid;
    cbn [Z.eqb Pos.eqb b2z];
    repeat match goal with |- context [lis ?x] => destruct (lis x) end; cbn [b2z];
    (split; [lia|split; [lia|]]); intros Hx; try (left; exact Hx); try (right; reflexivity);
    zprop; cconsts; try lia.
  all: destruct HA as ([Hu|Hu] & _); lia.
Qed.

Definition srv_count (s : csys) : Z := Z.of_nat (count_if srv_ok (cthr s)).

Lemma serve_inv : forall s, Reach cstep cinit s ->
  srv_count s <= b2z (lis (csh s)) /\ (chst (csh s) = hListening -> lis (csh s) = true).
Proof.
  apply reach_ind; [split; [cbn; lia|cbn; cconsts; discriminate]|].
  intros s l s' Hr [IH1 IH2] Hs. destruct (ch_inv s Hr) as [HI HA].
  assert (Hadd : forall p, srv_ok p = false -> count_if srv_ok (cthr s ++ [p]) = count_if srv_ok (cthr s)).
  { intros p Hp. rewrite count_if_app. unfold count_if at 2. cbn [filter]. rewrite Hp. cbn. lia. }
  unfold srv_count in *. destruct l; cbn [cstep] in Hs.
  - destruct ((chst (csh s) =? hClient) && negb (lis (csh s))) eqn:E; [|discriminate]. inversion Hs; subst; clear Hs.
    cbn [csh cthr]. cfields. zprop. rewrite H0 in IH1. cbn [b2z] in *. split; [lia|reflexivity].
  - inversion Hs; subst; clear Hs. cbn [csh cthr]. cfields. rewrite Hadd by reflexivity. split; assumption.
  - destruct ((c <? length (cstates (csh s)))%nat && (cstate (csh s) c <? v) && (v <=? kCl)); [|discriminate].
    inversion Hs; subst; clear Hs. cbn [csh cthr]. cfields. split; assumption.
  - inversion Hs; subst; clear Hs. cbn [csh cthr]. rewrite Hadd by reflexivity. split; assumption.
  - destruct (c <? length (cstates (csh s)))%nat; [|discriminate]. inversion Hs; subst; clear Hs.
    cbn [csh cthr]. cfields. rewrite Hadd by reflexivity. split; assumption.
  - inversion Hs; subst; clear Hs. cbn [csh cthr]. rewrite Hadd by reflexivity. split; assumption.
  - destruct (nth_error (cthr s) tid) as [p|] eqn:Ep; [|discriminate].
    destruct (ctstep (csh s) p arg) as [[sh' p']|] eqn:Et; [|discriminate].
    inversion Hs; subst; clear Hs. cbn [csh cthr].
    destruct (srv_tstep _ _ _ _ _ (HA _ _ Ep) Et) as (M1 & M2 & M3).
    pose proof (count_if_upd srv_ok (cthr s) tid p p' Ep) as Hc.
    split.
    + unfold b2z in *. destruct (srv_ok p), (srv_ok p'), (lis (csh s)), (lis sh'); lia.
    + intros Hx. destruct (M3 Hx) as [Hy|Hy]; [|exact Hy].
      specialize (IH2 Hy). rewrite IH2 in M1. destruct (lis sh'); [reflexivity|cbn in M1; lia].
  - inversion Hs; subst; clear Hs. cbn [csh cthr]. rewrite Hadd by reflexivity. split; assumption.
  - inversion Hs; subst; clear Hs. cbn [csh cthr]. rewrite Hadd by reflexivity. split; assumption.
Qed.

(* SERVE ONCE.  In every reachable state at most one Serve call has returned nil (one accept loop),
   a listening channel has its listener set, and a Serve that returned nil left the channel at or
   beyond Listening for good (with chan_monotone). *)
Theorem chan_serve_once : forall s, Reach cstep cinit s ->
  0 <= srv_count s <= 1 /\
  (srv_count s = 1 -> lis (csh s) = true) /\
  (chst (csh s) = hListening -> lis (csh s) = true).
Proof.
  intros s Hr. destruct (serve_inv s Hr) as [H1 H2].
  assert (H0 : 0 <= srv_count s) by (unfold srv_count; lia).
  unfold b2z in H1. destruct (lis (csh s)); repeat split; try lia; auto.
Qed.

(* a Serve that has returned nil found the channel a client and the state is now >= Listening *)
Lemma serve_ok_listening_step : forall s arg s',
  ctstep s PSrv arg = Some (s', CDone oSrvOk) -> chst s = hClient /\ chst s' = hListening.
Proof.
  intros s arg s' H. destruct (chan_serve_step s arg) as (s2 & o & Hs & _ & _ & _ & _ & Hcase).
  rewrite Hs in H. inversion H; subst.
  destruct Hcase as [(_ & Hc & _ & Hl & _)|[(Ho & _)|(Ho & _)]]; [split; assumption|discriminate Ho|discriminate Ho].
Qed.
