(* C09, close progress of the relay model: every decrement of Relayer.pending is followed, in the
   SAME goroutine and as its very next action, by the close check (conn.checkExchanges, model
   instruction ICheck); the check of a closing connection whose counter is zero closes it; a
   connection that has left the active state never returns to it and its counter never grows.
   Hence: whenever pending drops to 0 on a connection in connectionStartClose (or
   InboundClosed), the goroutine that dropped it completes the close -- from EVERY state, not
   only from quiescent ones. *)
From Coq Require Import ZArith List Bool Lia.
From Verif Require Import Base.Wrap Gen.GenConsts Gen.GenFrame Model.RelayItems
  Proofs.RelayAssocP Proofs.RelayCoreP.
Import ListNotations.
Local Open Scope Z_scope.

Definition closing (s : Z) : bool := (s =? c_connectionStartClose) || (s =? c_connectionInboundClosed).

(* the effect of one instruction on the connection record of k *)
Inductive conn_eff (st : state) (k : Z) (i : instr) (st1 : state) (pushed : list instr) : Prop :=
| ce_same : get_conn st1 k = get_conn st k -> conn_eff st k i st1 pushed
| ce_nextid : c_state (get_conn st1 k) = c_state (get_conn st k) ->
              c_pending (get_conn st1 k) = c_pending (get_conn st k) -> conn_eff st k i st1 pushed
| ce_inc : c_state (get_conn st k) = c_connectionActive -> c_state (get_conn st1 k) = c_connectionActive ->
           c_pending (get_conn st1 k) = wrapU 32 (c_pending (get_conn st k) + 1) -> conn_eff st k i st1 pushed
| ce_dec : i = IDec k -> pushed = [ICheck k] -> c_state (get_conn st1 k) = c_state (get_conn st k) ->
           c_pending (get_conn st1 k) = wrapU 32 (c_pending (get_conn st k) - 1) -> conn_eff st k i st1 pushed
| ce_startclose : c_state (get_conn st k) = c_connectionActive -> c_state (get_conn st1 k) = c_connectionStartClose ->
           c_pending (get_conn st1 k) = c_pending (get_conn st k) -> conn_eff st k i st1 pushed
| ce_closed : c_state (get_conn st1 k) = c_connectionClosed ->
           c_pending (get_conn st1 k) = c_pending (get_conn st k) -> conn_eff st k i st1 pushed.

Lemma get_conn_put : forall st k cn k', get_conn (put_conn st k cn) k' = if k' =? k then cn else get_conn st k'.
Proof. intros st k cn k'. rewrite !get_conn_getc. cbn [put_conn set_conns conns]. apply getc_insert. Qed.

Lemma get_conn_core : forall a b k, core_eq a b -> get_conn a k = get_conn b k.
Proof. intros a b k (H&_). unfold get_conn. rewrite H. reflexivity. Qed.

Lemma exec_conn_eff : forall cf st i room st1 pushed k, exec cf st i room = (st1, pushed) -> conn_eff st k i st1 pushed.
Proof.
  intros cf st i room st1 pushed k H.
  assert (Hsame : forall s p, (s, p) = (st1, pushed) -> conns s = conns st -> conn_eff st k i st1 pushed).
  { intros s p Hs Hc. inversion Hs. subst. apply ce_same. unfold get_conn. rewrite Hc. reflexivity. }
  destruct i; cbn [exec] in H.
  - (* IStart *) destruct (e_start e =? 0); [eapply Hsame; [exact H|reflexivity]|].
    destruct ((e_start e =? 1) || (e_start e =? 3)); eapply Hsame; try exact H; reflexivity.
  - (* ICanHandle *)
    destruct (c_state (get_conn st k0) =? c_connectionActive) eqn:Ea; [|eapply Hsame; [exact H|reflexivity]].
    inversion H. subst st1 pushed. apply Z.eqb_eq in Ea. destruct (Z.eq_dec k k0) as [->|Hne].
    + apply ce_inc; [exact Ea|rewrite get_conn_put, Z.eqb_refl; exact Ea|rewrite get_conn_put, Z.eqb_refl; reflexivity].
    + apply ce_same. rewrite get_conn_put. apply Z.eqb_neq in Hne. rewrite Hne. reflexivity.
  - (* IGetDest *)
    destruct (lookup key_eqb (k0, 0, f_id f) (items st)); [eapply Hsame; [exact H|reflexivity]|].
    destruct (e_dest e =? -1); [eapply Hsame; [exact H|reflexivity]|].
    destruct (e_dest e <? 0); eapply Hsame; try exact H; reflexivity.
  - (* IRemoteCan *)
    destruct (c_state (get_conn st d) =? c_connectionActive) eqn:Ea; [|eapply Hsame; [exact H|reflexivity]].
    inversion H. subst st1 pushed. apply Z.eqb_eq in Ea. destruct (Z.eq_dec k d) as [->|Hne].
    + apply ce_inc; [exact Ea|rewrite get_conn_put, Z.eqb_refl; exact Ea|rewrite get_conn_put, Z.eqb_refl; reflexivity].
    + apply ce_same. rewrite get_conn_put. apply Z.eqb_neq in Hne. rewrite Hne. reflexivity.
  - (* IAddDest *)
    unfold timer_new in H. cbn [fst snd] in H. inversion H. subst st1 pushed.
    assert (Hg : forall x, get_conn (set_items (set_next_tm (set_timers (put_conn st d x) (insert Z.eqb (next_tm (put_conn st d x))
                   {| tm_armed := true; tm_active := true; tm_stopped := false; tm_released := false; tm_key := (d, 1, c_nextid (get_conn st d)); tm_orig := false |}
                   (timers (put_conn st d x)))) (next_tm (put_conn st d x) + 1))
                   (insert key_eqb (d, 1, c_nextid (get_conn st d))
                      {| it_call := c; it_remap := f_id f; it_dest := k0; it_orig := false; it_tomb := false; it_tm := next_tm (put_conn st d x) |}
                      (items (set_next_tm (set_timers (put_conn st d x) (insert Z.eqb (next_tm (put_conn st d x))
                   {| tm_armed := true; tm_active := true; tm_stopped := false; tm_released := false; tm_key := (d, 1, c_nextid (get_conn st d)); tm_orig := false |}
                   (timers (put_conn st d x)))) (next_tm (put_conn st d x) + 1))))) k = get_conn (put_conn st d x) k) by (intro; reflexivity).
    destruct (Z.eq_dec k d) as [->|Hne].
    + apply ce_nextid; rewrite Hg, get_conn_put, Z.eqb_refl; reflexivity.
    + apply ce_same. rewrite Hg, get_conn_put. apply Z.eqb_neq in Hne. rewrite Hne. reflexivity.
  - (* IAddOrig *)
    unfold timer_new in H. cbn [fst snd] in H. inversion H. subst st1 pushed. apply ce_same. reflexivity.
  - (* ICb *) eapply Hsame; [exact H|reflexivity].
  - (* IDec *)
    inversion H. subst st1 pushed. destruct (Z.eq_dec k k0) as [->|Hne].
    + apply ce_dec; [reflexivity|reflexivity|rewrite get_conn_put, Z.eqb_refl; reflexivity|rewrite get_conn_put, Z.eqb_refl; reflexivity].
    + apply ce_same. rewrite get_conn_put. apply Z.eqb_neq in Hne. rewrite Hne. reflexivity.
  - (* ICheck *)
    match type of H with (if ?b then _ else _) = _ => destruct b end; [|eapply Hsame; [exact H|reflexivity]].
    inversion H. subst st1 pushed. destruct (Z.eq_dec k k0) as [->|Hne].
    + apply ce_closed; rewrite get_conn_put, Z.eqb_refl; reflexivity.
    + apply ce_same. rewrite get_conn_put. apply Z.eqb_neq in Hne. rewrite Hne. reflexivity.
  - (* ISendErr *)
    destruct ((c_state (get_conn st k0) =? c_connectionClosed) || negb room); eapply Hsame; try exact H; reflexivity.
  - (* IConnClose *)
    destruct (c_state (get_conn st k0) =? c_connectionActive) eqn:Ea; [|eapply Hsame; [exact H|reflexivity]].
    inversion H. subst st1 pushed. apply Z.eqb_eq in Ea. destruct (Z.eq_dec k k0) as [->|Hne].
    + apply ce_startclose; [exact Ea|rewrite get_conn_put, Z.eqb_refl; reflexivity|rewrite get_conn_put, Z.eqb_refl; reflexivity].
    + apply ce_same. rewrite get_conn_put. apply Z.eqb_neq in Hne. rewrite Hne. reflexivity.
  - (* INcGet *)
    destruct (frameTypeFor (f_mt f)); [|eapply Hsame; [exact H|reflexivity]].
    match type of H with context [items_get ?a ?b ?cc] => destruct (items_get a b cc) as [st' g] eqn:E end.
    inversion H. subst. apply items_get_spec in E. destruct E as [E _]. apply ce_same. apply get_conn_core. exact E.
  - (* INcChk *)
    destruct g as [[it stopped]|]; [|eapply Hsame; [exact H|reflexivity]].
    destruct (it_tomb it || (fin_of f && negb stopped)); eapply Hsame; try exact H; reflexivity.
  - (* IRcvGet *)
    match type of H with context [items_get ?a ?b ?cc] => destruct (items_get a b cc) as [st' g] eqn:E end.
    inversion H. subst. apply items_get_spec in E. destruct E as [E _]. apply ce_same. apply get_conn_core. exact E.
  - (* IRcvChk *)
    destruct g as [[it stopped]|]; [|eapply Hsame; [exact H|reflexivity]].
    destruct (it_tomb it || (fin_of (r_f r) && negb stopped)); eapply Hsame; try exact H; reflexivity.
  - (* IRcvEnq *) destruct room; eapply Hsame; try exact H; reflexivity.
  - (* IFailGet *)
    destruct (items_get st t true) as [st' g] eqn:E. apply items_get_spec in E. destruct E as [E _].
    apply ce_same. assert (st1 = st') by (destruct g as [[it [|]]|]; inversion H; reflexivity). subst. apply get_conn_core. exact E.
  - (* IEntomb *)
    destruct (items_entomb cf st t) as [st' g] eqn:E. apply items_entomb_spec in E. destruct E as (E&_).
    apply ce_same. assert (st1 = st') by (destruct g as [[it [|]]|]; inversion H; reflexivity). subst.
    unfold get_conn. rewrite E. reflexivity.
  - (* IDelete *)
    destruct (items_delete_call st t lk) as [st' g] eqn:E. apply items_delete_call_spec in E. destruct E as (E&_).
    apply ce_same. assert (st1 = st') by (destruct g as [[it [|]]|]; inversion H; reflexivity). subst.
    unfold get_conn. rewrite E. reflexivity.
  - (* ITimerRun *)
    destruct (lookup Z.eqb tm (timers st)) as [x|]; [|eapply Hsame; [exact H|reflexivity]].
    destruct (tm_released x); eapply Hsame; try exact H; reflexivity.
Qed.

Lemma get_conn_set_thread : forall st t code k, get_conn (set_thread st t code) k = get_conn st k.
Proof. reflexivity. Qed.

Lemma lookup_set_thread_self : forall st t i rest, lookup tid_eqb t (threads (set_thread st t (i :: rest))) = Some (i :: rest).
Proof. intros. cbn [set_thread set_threads threads]. apply (lookup_insert_eq tid_eqb tid_eqb_ok). Qed.

Lemma active_not_closing : closing c_connectionActive = false.
Proof. vm_compute. reflexivity. Qed.

(* ONE STEP, any state: the counter of a connection changes only by an increment on an ACTIVE
   connection (which stays active) or by the decrement of decrementPending -- and then the
   decrementing goroutine's next action is the close check of that connection. *)
Theorem pending_step : forall cf st l st' k, step cf st l = Some st' ->
  c_pending (get_conn st' k) = c_pending (get_conn st k) \/
  (c_state (get_conn st k) = c_connectionActive /\ c_state (get_conn st' k) = c_connectionActive /\
   c_pending (get_conn st' k) = wrapU 32 (c_pending (get_conn st k) + 1)) \/
  (c_state (get_conn st' k) = c_state (get_conn st k) /\
   c_pending (get_conn st' k) = wrapU 32 (c_pending (get_conn st k) - 1) /\
   exists t room rest, l = LStep t room /\ lookup tid_eqb t (threads st') = Some (ICheck k :: rest)).
Proof.
  intros cf st l st' k H. unfold step in H. destruct (negb (panicked st =? 0)); [discriminate|].
  destruct l as [k0 f e|t room|tm|t0|k0|k0|k0].
  - left. destruct (lookup tid_eqb (TR k0) (threads st)); [discriminate|].
    destruct (relayRoute (f_mt f) (cf_cancel cf) =? 1); [|inversion H; reflexivity].
    destruct (f_mt f =? c_messageTypeCallReq); inversion H; reflexivity.
  - destruct (lookup tid_eqb t (threads st)) as [[|i rest]|] eqn:El; try discriminate.
    destruct (exec cf st i room) as [st1 pushed] eqn:E. inversion H. subst st'. clear H.
    rewrite !get_conn_set_thread.
    destruct (exec_conn_eff _ _ _ _ _ _ k E) as [Hs|Hs Hp|Ha Ha' Hp|Hi Hpu Hs Hp|Ha Hs Hp|Hs Hp].
    + left. rewrite Hs. reflexivity.
    + left. exact Hp.
    + right. left. repeat split; assumption.
    + right. right. split; [exact Hs|]. split; [exact Hp|]. exists t, room, rest. split; [reflexivity|].
      subst pushed. cbn [app]. apply lookup_set_thread_self.
    + left. exact Hp.
    + left. exact Hp.
  - left. destruct (lookup Z.eqb tm (timers st)) as [x|]; [|discriminate].
    destruct (tm_armed x && match lookup tid_eqb (TT tm) (threads st) with None => true | Some _ => false end); [|discriminate].
    inversion H. reflexivity.
  - left. destruct (mem_key t0 (gcs st)); [|discriminate]. inversion H.
    destruct (items_delete_tomb_spec (set_gcs st (remove_one t0 (gcs st))) t0) as (A&_).
    unfold get_conn. rewrite A. reflexivity.
  - left. destruct (c_state (get_conn st k0) =? c_connectionActive); [|discriminate]. inversion H.
    rewrite get_conn_put. destruct (k =? k0) eqn:E; [apply Z.eqb_eq in E; subst|]; reflexivity.
  - left. inversion H. rewrite get_conn_put. destruct (k =? k0) eqn:E; [apply Z.eqb_eq in E; subst|]; reflexivity.
  - left. match type of H with (if ?b then _ else _) = _ => destruct b end; [|discriminate]. inversion H.
    rewrite get_conn_put. destruct (k =? k0) eqn:E; [apply Z.eqb_eq in E; subst|]; reflexivity.
Qed.

(* a connection that has left connectionActive never returns to it *)
Theorem inactive_stays : forall cf st l st' k, step cf st l = Some st' ->
  c_state (get_conn st k) <> c_connectionActive -> c_state (get_conn st' k) <> c_connectionActive.
Proof.
  intros cf st l st' k H Hn. unfold step in H. destruct (negb (panicked st =? 0)); [discriminate|].
  assert (Hcl : c_connectionClosed <> c_connectionActive) by (vm_compute; discriminate).
  assert (Hsc : c_connectionStartClose <> c_connectionActive) by (vm_compute; discriminate).
  destruct l as [k0 f e|t room|tm|t0|k0|k0|k0].
  - destruct (lookup tid_eqb (TR k0) (threads st)); [discriminate|].
    destruct (relayRoute (f_mt f) (cf_cancel cf) =? 1); [|inversion H; subst; exact Hn].
    destruct (f_mt f =? c_messageTypeCallReq); inversion H; exact Hn.
  - destruct (lookup tid_eqb t (threads st)) as [[|i rest]|] eqn:El; try discriminate.
    destruct (exec cf st i room) as [st1 pushed] eqn:E. inversion H. subst st'. clear H.
    rewrite get_conn_set_thread.
    destruct (exec_conn_eff _ _ _ _ _ _ k E) as [Hs|Hs Hp|Ha Ha' Hp|Hi Hpu Hs Hp|Ha Hs Hp|Hs Hp].
    + rewrite Hs. exact Hn.
    + rewrite Hs. exact Hn.
    + contradiction.
    + rewrite Hs. exact Hn.
    + contradiction.
    + rewrite Hs. exact Hcl.
  - destruct (lookup Z.eqb tm (timers st)) as [x|]; [|discriminate].
    destruct (tm_armed x && match lookup tid_eqb (TT tm) (threads st) with None => true | Some _ => false end); [|discriminate].
    inversion H. exact Hn.
  - destruct (mem_key t0 (gcs st)); [|discriminate]. inversion H.
    destruct (items_delete_tomb_spec (set_gcs st (remove_one t0 (gcs st))) t0) as (A&_).
    unfold get_conn. rewrite A. exact Hn.
  - destruct (c_state (get_conn st k0) =? c_connectionActive); [|discriminate]. inversion H.
    rewrite get_conn_put. destruct (k =? k0) eqn:E; [exact Hsc|exact Hn].
  - inversion H. rewrite get_conn_put. destruct (k =? k0) eqn:E; [exact Hcl|exact Hn].
  - match type of H with (if ?b then _ else _) = _ => destruct b end; [|discriminate]. inversion H.
    rewrite get_conn_put. destruct (k =? k0) eqn:E; [exact Hcl|exact Hn].
Qed.

(* the close check of a closing connection whose relayer can close completes the close *)
Theorem check_closes : forall cf st t k rest room,
  panicked st = 0 -> lookup tid_eqb t (threads st) = Some (ICheck k :: rest) ->
  closing (c_state (get_conn st k)) = true -> c_pending (get_conn st k) = 0 ->
  exists st', step cf st (LStep t room) = Some st' /\ c_state (get_conn st' k) = c_connectionClosed /\
              c_pending (get_conn st' k) = 0.
Proof.
  intros cf st t k rest room Hp Hl Hc Hz. unfold step. rewrite Hp, Hl. cbn [Z.eqb negb exec].
  unfold closing in Hc. rewrite Hc, Hz. cbn [Z.eqb andb]. eexists. split; [reflexivity|].
  rewrite get_conn_set_thread, get_conn_put, Z.eqb_refl. split; reflexivity.
Qed.

(* MAIN: from EVERY state -- whatever else the relay is doing -- a step after which the counter
   of a closing connection is 0 while it was not 0 before is the decrement of decrementPending by
   some goroutine t, whose very next action is the close check; that action closes the
   connection. *)
Theorem drop_to_zero_closes : forall cf st l st' k, step cf st l = Some st' ->
  c_pending (get_conn st k) <> 0 -> c_pending (get_conn st' k) = 0 ->
  closing (c_state (get_conn st' k)) = true ->
  exists t room rest, l = LStep t room /\ lookup tid_eqb t (threads st') = Some (ICheck k :: rest) /\
    forall room', exists st'', step cf st' (LStep t room') = Some st'' /\
                               c_state (get_conn st'' k) = c_connectionClosed /\ c_pending (get_conn st'' k) = 0.
Proof.
  intros cf st l st' k H Hnz Hz Hc.
  destruct (pending_step cf st l st' k H) as [He|[(Ha&Ha'&_)|(Hs&Hp&t&room&rest&Hl&Hlk)]].
  - congruence.
  - rewrite Ha', active_not_closing in Hc. discriminate.
  - exists t, room, rest. split; [exact Hl|]. split; [exact Hlk|]. intro room'.
    destruct (panicked st' =? 0) eqn:Ep.
    + apply Z.eqb_eq in Ep. apply (check_closes cf st' t k rest room' Ep Hlk Hc Hz).
    + (* the decrement itself cannot panic *)
      exfalso. subst l. unfold step in H. destruct (negb (panicked st =? 0)) eqn:Ep0; [discriminate|].
      destruct (lookup tid_eqb t (threads st)) as [[|i rest0]|] eqn:El; try discriminate.
      destruct (exec cf st i room) as [st1 pushed] eqn:E. inversion H. subst st'.
      destruct (exec_conn_eff _ _ _ _ _ _ k E) as [Hs'|Hs' Hp''|Ha Ha' Hp''|Hi Hpu Hs' Hp''|Ha Hs' Hp''|Hs' Hp''];
        rewrite ?get_conn_set_thread in *.
      * rewrite Hs' in Hz. congruence.
      * congruence.
      * rewrite Ha', active_not_closing in Hc. discriminate.
      * subst i. cbn [exec] in E. inversion E. subst st1. cbn in Ep. apply negb_false_iff in Ep0. congruence.
      * congruence.
      * congruence.
Qed.

(* while a connection is not active its counter never grows: a closing connection with
   counter 0 stays at 0 unless a goroutine still holds a unit (and that decrement would again
   be followed by the check) *)
Theorem closing_pending_no_growth : forall cf st l st' k, step cf st l = Some st' ->
  c_state (get_conn st k) <> c_connectionActive ->
  c_pending (get_conn st' k) = c_pending (get_conn st k) \/
  (c_pending (get_conn st' k) = wrapU 32 (c_pending (get_conn st k) - 1) /\
   exists t room rest, l = LStep t room /\ lookup tid_eqb t (threads st') = Some (ICheck k :: rest)).
Proof.
  intros cf st l st' k H Hn. destruct (pending_step cf st l st' k H) as [He|[(Ha&_)|(_&Hp&Hex)]].
  - left. exact He.
  - contradiction.
  - right. split; assumption.
Qed.
