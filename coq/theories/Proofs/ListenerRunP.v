(* The harness entry point of the listener model (run_listenerclose, engine listenerclose) only
   visits reachable states of the interleaving system: every operation of a script and the
   settling of the waiting Close calls are sequences of [lstep]s.  So the states the engine
   compares with the real tnet wrapper are states the theorem C07_listener quantifies over. *)
From Coq Require Import ZArith List Bool Lia.
From Verif Require Import Model.CloseKernel Model.ListenerClose Proofs.CloseKernelP Proofs.ListenerCloseP.
Import ListNotations.
Local Open Scope Z_scope.

Definition LR (s : lsys) : Prop := Reach lstep linit s.

Lemma lrun2_reach : forall s tid ok s', LR s -> lrun2 s tid ok = Some s' -> LR s'.
Proof.
  intros s tid ok s' H E. unfold lrun2 in E. destruct (lstep s (LRunL tid ok)) as [s1|] eqn:E1; [|discriminate].
  eapply reach_step; [eapply reach_step; [exact H|exact E1]|exact E].
Qed.

Lemma lop_reach : forall s op a, LR s -> LR (fst (lop s op a)).
Proof.
  intros s op a H. unfold lop.
  destruct (op =? 0).
  { destruct (lstep s LAccept) as [s1|] eqn:E1; [|exact H].
    assert (H1 : LR s1) by (eapply reach_step; [exact H|exact E1]).
    destruct (lrun2 s1 (length (lthr s)) true) as [s2|] eqn:E2; [|exact H].
    assert (H2 : LR s2) by (eapply lrun2_reach; [exact H1|exact E2]).
    destruct (nth_error (lthr s2) (length (lthr s))) as [p|]; [|exact H2].
    destruct p as [| |b| | | | |]; try exact H2. destruct b; [exact H2|].
    destruct (lrun2 s2 (length (lthr s)) false) as [s3|] eqn:E3; [|exact H].
    eapply lrun2_reach; [exact H2|exact E3]. }
  destruct ((op =? 1) || (op =? 2)).
  { destruct (nth_error (lthr s) (Z.to_nat a)) as [p|]; [|exact H].
    destruct p; try exact H.
    destruct (lrun2 s (Z.to_nat a) (op =? 1)) as [s1|] eqn:E1; [|exact H].
    eapply lrun2_reach; [exact H|exact E1]. }
  destruct (op =? 3); [|exact H].
  destruct (lstep s LCloseL) as [s1|] eqn:E1; [|exact H].
  destruct (lstep s1 (LRunL (length (lthr s)) true)) as [s2|] eqn:E2; [|exact H].
  eapply reach_step; [eapply reach_step; [exact H|exact E1]|exact E2].
Qed.

Lemma lsettle_from_reach : forall fuel i s, LR s -> LR (lsettle_from fuel i s).
Proof.
  induction fuel as [|f IH]; intros i s H; cbn [lsettle_from]; [exact H|].
  apply IH. destruct (nth_error (lthr s) i) as [p|]; [|exact H].
  destruct p; try exact H.
  destruct (lstep s (LRunL i true)) as [s1|] eqn:E; [|exact H].
  eapply reach_step; [exact H|exact E].
Qed.

Lemma listener_entry_reachable : forall s op a,
  Reach lstep linit s -> Reach lstep linit (lsettle (fst (lop s op a))).
Proof. intros s op a H. apply lsettle_from_reach. apply lop_reach. exact H. Qed.

(* after settling no Close call is left waiting although refs = 0 *)
Lemma lsettle_from_done : forall fuel i s,
  (forall j p, (j < i)%nat -> nth_error (lthr s) j = Some p -> refs s = 0 -> p <> LK2) ->
  (i + fuel = length (lthr s))%nat ->
  forall j p, nth_error (lthr (lsettle_from fuel i s)) j = Some p -> refs (lsettle_from fuel i s) = 0 -> p <> LK2.
Proof.
  induction fuel as [|f IH]; intros i s Hlt Hlen j p Hj Hr; cbn [lsettle_from] in *.
  - apply (Hlt j p); auto. assert (j < length (lthr s))%nat by (apply nth_error_Some; congruence). lia.
  - revert Hj Hr. apply IH.
    + intros k q Hk Hq Hr.
      destruct (nth_error (lthr s) i) as [pi|] eqn:Ei.
      * destruct pi; try (destruct (Nat.eq_dec k i) as [->|Hne]; [rewrite Ei in Hq; inversion Hq; discriminate|apply (Hlt k q); auto; lia]).
        cbn [lstep] in *. rewrite Ei in *. cbn [ltstep] in *.
        destruct (refs s =? 0) eqn:E0.
        -- cbn [lthr refs] in *. destruct (Nat.eq_dec k i) as [->|Hne].
           ++ rewrite nth_error_upd_same in Hq by (apply nth_error_Some; congruence). inversion Hq. discriminate.
           ++ rewrite nth_error_upd_other in Hq by exact Hne. apply (Hlt k q); auto. lia.
        -- apply Z.eqb_neq in E0. contradiction.
      * assert (length (lthr s) <= i)%nat by (apply nth_error_None; exact Ei). lia.
    + destruct (nth_error (lthr s) i) as [pi|] eqn:Ei; [|lia].
      destruct pi; try lia. cbn [lstep]. rewrite Ei. cbn [ltstep].
      destruct (refs s =? 0); cbn [lthr]; [rewrite length_upd|]; lia.
Qed.

Lemma listener_settled : forall s j p,
  nth_error (lthr (lsettle s)) j = Some p -> refs (lsettle s) = 0 -> p <> LK2.
Proof.
  intros s. unfold lsettle. apply lsettle_from_done; [intros j p H; lia|lia].
Qed.
