(* C10, server side: THE QUANTIFIER WIDENED TO HANDLERS WRITTEN WITH THE HELPERS.

   [handler_ok] (Model/RespWire.v) is the syntactic reading of "handlers that either complete the
   response or send one system error": SendSystemError at most once and never after doneSending
   (HDone).  A handler written the documented way -- an ErrorHandlerFunc that answers through
   NewArgWriter(..).Write / WriteJSON and returns the first error -- leaves that class in one
   situation: the helper's Close of arg3 FAILS at the transport (deadline, cancel, connection
   failure while the final fragment is flushed); Close has then run doneSending, the helper
   returns Close's error and the library calls SendSystemError AFTER HDone.  That is harmless --
   every failing flush marks the response as failed (reqres.go failed), and SendSystemError is
   refused by response.err -- but it has to be proved, for every interleaving.

   [helper_ok id]: SendSystemError of call id at most once, and after HDone only when the final
   flush of that Close did NOT enqueue its fragment (the handler label of the call right before
   HDone is not [HFlushSel id true]): the Close returned an error.  It contains [handler_ok].

   Theorem [helper_ok_not_misused]: in every run such a call never gets past the error check of
   SendSystemError after doneSending.  Hence the whole grammar theorem for it
   ([respwire_grammar_helper]).  Invariant: a call at PDone whose last handler action was not the
   enqueue of the final fragment has response.err set; response.err is never cleared. *)
From Coq Require Import ZArith List Bool Lia.
From Verif Require Import Base.Wire Spec.WireOk Proofs.WireOkP Model.ArgHelper Model.RespWire Proofs.RespWireP.
Import ListNotations.
Local Open Scope Z_scope.

(* ---- the discipline ---------------------------------------------------------------------------- *)

Inductive htrk := TOpen | TDoneOK | TDoneFailed | TSys.

(* handler actions of call [id] *)
Definition hl_of (id : Z) (l : label) : bool :=
  match l with
  | HStart i _ | HResp i | HReadFail i _ | HArgWriter i _ | HFlush i _ | HFlushSel i _
  | HNewFrag i | HClose i _ | HDone i | HSysErr i _ | HSetAppErr i | HBlackhole i
  | HHelperWrite i _ _ => i =? id
  | _ => false
  end.

Definition trk_after (t : htrk) (enq : bool) (l : label) : htrk :=
  match l with
  | HSysErr _ _ => TSys
  | HDone _ => match t with TSys => TSys | _ => if enq then TDoneOK else TDoneFailed end
  | _ => t
  end.

Definition enq_after (l : label) : bool :=
  match l with HFlushSel _ e => e | _ => false end.

Definition sys_allowed (t : htrk) : bool :=
  match t with TOpen | TDoneFailed => true | _ => false end.

Fixpoint helper_ok (id : Z) (t : htrk) (enq : bool) (ls : list label) : bool :=
  match ls with
  | [] => true
  | l :: r =>
      if hl_of id l then
        match l with
        | HSysErr _ _ => sys_allowed t && helper_ok id TSys false r
        | _ => helper_ok id (trk_after t enq l) (enq_after l) r
        end
      else helper_ok id t enq r
  end.

(* [handler_ok] is contained in it *)
Lemma helper_ok_no_sys id r : forall t e, handler_ok id true r = true -> helper_ok id t e r = true.
Proof.
  induction r as [|l r IH]; intros t e H; [reflexivity|].
  cbn [helper_ok]. destruct (hl_of id l) eqn:HL.
  - destruct l; cbn [hl_of] in HL; try discriminate HL; cbn [handler_ok] in H;
      try (apply IH; exact H);
      try (rewrite HL in H; first [discriminate H | apply IH; exact H]).
  - destruct l; cbn [handler_ok] in H; try (apply IH; exact H);
      cbn [hl_of] in HL; rewrite HL in H; apply IH; exact H.
Qed.

Lemma handler_ok_helper_ok id r : forall e, handler_ok id false r = true -> helper_ok id TOpen e r = true.
Proof.
  induction r as [|l r IH]; intros e H; [reflexivity|].
  cbn [helper_ok]. destruct (hl_of id l) eqn:HL.
  - destruct l; cbn [hl_of] in HL; try discriminate HL; cbn [handler_ok trk_after enq_after] in *;
      try (apply IH; exact H); rewrite HL in H.
    + (* HDone *) destruct e; apply helper_ok_no_sys; exact H.
    + (* HSysErr *) cbn [negb andb sys_allowed] in *. apply helper_ok_no_sys; exact H.
  - destruct l; cbn [handler_ok] in H; try (apply IH; exact H);
      cbn [hl_of] in HL; rewrite HL in H; apply IH; exact H.
Qed.

(* ---- what a handler step does to response.err and to the pc ---------------------------------- *)

Definition hres (id : Z) (st' : state) (P : call -> Prop) : Prop :=
  exists c', get id (calls st') = Some c' /\ P c'.

Lemma hres_commit st id c chk (P : call -> Prop) : P c -> hres id (commit st id c chk) P.
Proof. intros H. exists c. split; [apply get_commit_same | exact H]. Qed.

Lemma hres_enq st id c chk k (P : call -> Prop) : P c -> hres id (enqueue (commit st id c chk) id k) P.
Proof. intros H. exists c. split; [cbn [calls enqueue]; apply get_commit_same | exact H]. Qed.

Lemma werr_shut c c1 chk : shut_call c = (c1, chk) -> w_err c1 = w_err c /\ h_pc c1 = h_pc c.
Proof. unfold shut_call. destruct (m_shut c); intros H; inversion H; subst; cbn; auto. Qed.

Lemma werr_failed c c1 chk : failed_call c = (c1, chk) -> w_err c1 = true /\ h_pc c1 = h_pc c.
Proof.
  unfold failed_call. destruct (w_err c) eqn:W.
  - intros H; inversion H; subst; auto.
  - destruct (shut_call c) as [c2 chk2] eqn:E. apply werr_shut in E. intros H; inversion H; subst; cbn. tauto.
Qed.

Lemma werr_done c c1 chk : done_sending c = (c1, chk) -> w_err c1 = w_err c.
Proof.
  unfold done_sending. destruct (w_err (cancel_call c)) eqn:W.
  - intros H; inversion H; subst; cbn. reflexivity.
  - destruct (shut_call (cancel_call c)) as [c2 chk2] eqn:E. apply werr_shut in E.
    intros H; inversion H; subst; cbn. destruct E as [E _]. rewrite E. reflexivity.
Qed.

(* the property tracked along a handler step of the same call: response.err is kept, and a step
   that ends at PDone without having enqueued the final fragment has set it *)
Definition trackP (c : call) (enq : bool) (c' : call) : Prop :=
  (w_err c = true -> w_err c' = true) /\ (h_pc c' = PDone -> enq = false -> w_err c' = true).

Ltac tp :=
  unfold trackP; cbn [w_err h_pc ret upd_f upd_pc upd_w upd_epc upd_mex upd_dones set_ferr cancel_call];
  repeat match goal with
         | H : _ /\ _ |- _ => destruct H
         | H : w_err ?x = _ |- _ => rewrite H in *
         | H : h_pc ?x = _ |- _ => rewrite H in *
         end;
  split; intros; try congruence; try discriminate; auto.

Lemma track_flush1 st id c final : hres id (flush1 st id c final) (trackP c false).
Proof.
  unfold flush1. destruct (w_err c) eqn:W.
  - apply hres_commit. destruct final; tp.
  - destruct (check_error c).
    + destruct (failed_call c) as [c1 chk] eqn:F. apply werr_failed in F.
      apply hres_commit. destruct final; tp.
    + apply hres_commit. tp.
Qed.

Lemma trackP_upd_f c fs fe cur first enq c' :
  trackP (upd_f c fs fe cur first) enq c' -> trackP c enq c'.
Proof. unfold trackP. cbn [w_err upd_f]. exact (fun H => H). Qed.

Lemma hres_imp id st' (P Q : call -> Prop) : (forall c, P c -> Q c) -> hres id st' P -> hres id st' Q.
Proof. intros I (c & G & H). exists c. auto. Qed.

Lemma track_arg_writer st id c k : hres id (arg_writer st id c k) (trackP c false).
Proof.
  unfold arg_writer.
  repeat match goal with
         | |- hres _ (commit _ _ _ _) _ => apply hres_commit; tp
         | |- hres _ (let '(_, _) := failed_call ?x in _) _ =>
             let E := fresh "E" in destruct (failed_call x) eqn:E; apply werr_failed in E;
             cbn [w_err h_pc set_ferr upd_f] in E
         | |- hres _ (if ?b then _ else _) _ => destruct b eqn:?
         | |- hres _ (match ?x with _ => _ end) _ => destruct x eqn:?
         end.
Qed.

Lemma track_hclose st id c ff st' :
  h_pc c = PIdle -> hclose st id c ff = Some st' -> hres id st' (trackP c false).
Proof.
  intros Hpc H. unfold hclose in H.
  destruct (f_err c). { apply Some_inj in H; subst st'. apply hres_commit; tp. }
  destruct (f_state c).
  - apply Some_inj in H; subst st'. apply hres_commit; tp.
  - destruct (negb ff).
    + apply Some_inj in H; subst st'. apply hres_commit; tp.
    + destruct (negb (f_cur (upd_f c FWaiting false (f_cur c) (f_first c)))); [discriminate|].
      apply Some_inj in H; subst st'.
      eapply hres_imp; [|apply track_flush1]. intros x. apply trackP_upd_f.
  - destruct (negb (f_cur c)); [discriminate|].
    apply Some_inj in H; subst st'.
    eapply hres_imp; [|apply track_flush1]. intros x. apply trackP_upd_f.
  - apply Some_inj in H; subst st'. apply hres_commit; tp.
  - apply Some_inj in H; subst st'. apply hres_commit; tp.
Qed.

Lemma hstep_track st id c l st' :
  get id (calls st) = Some c ->
  hstep st id c l = Some st' -> hres id st' (trackP c (enq_after l)).
Proof.
  intros Hg H. unfold hstep in H.
  destruct l; destruct (h_pc c) eqn:Hpc; try discriminate; cbn [enq_after].
  - (* HStart *)
    destruct ok.
    + apply Some_inj in H; subst st'. apply hres_commit; tp.
    + destruct (shut_call c) as [c1 chk] eqn:E. apply werr_shut in E.
      apply Some_inj in H; subst st'. apply hres_commit; tp.
  - (* HResp *)
    apply Some_inj in H; subst st'. destruct (rd_err c); apply hres_commit; tp.
  - (* HReadFail *)
    destruct (rd_err c).
    + apply Some_inj in H; subst st'. exists c. split; [exact Hg | tp].
    + destruct shut.
      * destruct (shut_call c) as [c1 chk] eqn:E. apply werr_shut in E.
        apply Some_inj in H; subst st'. apply hres_commit; tp.
      * apply Some_inj in H; subst st'. apply hres_commit; tp.
  - (* HArgWriter *)
    apply Some_inj in H; subst st'. apply track_arg_writer.
  - (* HFlush *)
    destruct (viaWrite && f_err c). { apply Some_inj in H; subst st'. apply hres_commit; tp. }
    destruct (viaWrite && negb (writing (f_state c))). { apply Some_inj in H; subst st'. apply hres_commit; tp. }
    destruct (negb (f_cur c)); [discriminate|].
    apply Some_inj in H; subst st'. apply track_flush1.
  - (* HFlushSel *)
    destruct enq.
    + apply Some_inj in H; subst st'. apply hres_enq. destruct final; tp.
    + destruct (check_error c); [|discriminate].
      destruct (failed_call c) as [c1 chk] eqn:F. apply werr_failed in F.
      apply Some_inj in H; subst st'. apply hres_commit. destruct final; tp.
  - (* HNewFrag *)
    destruct (check_error c).
    + destruct (failed_call c) as [c1 chk] eqn:F. apply werr_failed in F.
      apply Some_inj in H; subst st'. apply hres_commit; tp.
    + apply Some_inj in H; subst st'. apply hres_commit; tp.
  - (* HClose *)
    eapply track_hclose; eassumption.
  - (* HDone *)
    destruct (done_sending c) as [c1 chk] eqn:D. apply werr_done in D.
    apply Some_inj in H; subst st'. apply hres_commit; tp.
  - (* HSysErr *)
    destruct (w_err c) eqn:W. { apply Some_inj in H; subst st'. apply hres_commit; tp. }
    destruct (conn_send_syserr (if g_dones c then add_misused st id else st) id full) as [st1 ok] eqn:Cs.
    destruct (done_sending (upd_w c false WComplete (rd_err c))) as [c1 chk] eqn:D. apply werr_done in D.
    apply Some_inj in H; subst st'. apply hres_commit; tp.
  - (* HSetAppErr *)
    destruct (w_state c);
      try (apply Some_inj in H; subst st'; apply hres_commit; tp);
      destruct (failed_call c) as [c1 chk] eqn:F; apply werr_failed in F;
      apply Some_inj in H; subst st'; apply hres_commit; tp.
  - (* HBlackhole *)
    apply Some_inj in H; subst st'. apply hres_commit; tp.
  - (* HHelperWrite *)
    rewrite helper_closes_eq in H. destruct ok.
    + eapply track_hclose; eassumption.
    + apply Some_inj in H; subst st'. apply hres_commit; tp.
Qed.

(* ---- steps that are not handler actions of call [id] ------------------------------------------ *)

Definition keep (c c' : call) : Prop :=
  g_dones c' = g_dones c /\ w_err c' = w_err c /\ (h_pc c' = PDone -> h_pc c = PDone).

Lemma keep_refl c : keep c c.
Proof. unfold keep. auto. Qed.

Definition kept (st : state) (id : Z) (x : call) : Prop :=
  (g_dones x = false /\ h_pc x <> PDone) \/ exists c0, get id (calls st) = Some c0 /\ keep c0 x.

Lemma kept_commit st lid c c' chk id x :
  get lid (calls st) = Some c -> keep c c' ->
  get id (calls (commit st lid c' chk)) = Some x -> kept st id x.
Proof.
  intros Hg K Hx. right. destruct (Z.eq_dec id lid) as [->|N].
  - rewrite get_commit_same in Hx. inversion Hx; subst. exists c. auto.
  - exists x. split; [|apply keep_refl]. rewrite <- Hx. unfold commit.
    destruct chk; cbn; symmetry; apply get_put_other; exact N.
Qed.

Lemma kept_same st st' id x : calls st' = calls st -> get id (calls st') = Some x -> kept st id x.
Proof. intros E Hx. right. exists x. rewrite <- E. split; [exact Hx | apply keep_refl]. Qed.

Lemma keep_shut c c1 chk : shut_call c = (c1, chk) -> keep c c1.
Proof. unfold shut_call. destruct (m_shut c); intros H; inversion H; subst; unfold keep; cbn; auto. Qed.

Lemma keep_notify c : keep c (notify c).
Proof. unfold notify. destruct (in_ex c); unfold keep; cbn; auto. Qed.

Lemma get_map_notify_keep id l x :
  get id (map notify_in_ex l) = Some x -> exists c0, get id l = Some c0 /\ keep c0 x.
Proof.
  induction l as [|[k c0] r IH]; cbn [map get notify_in_ex fst snd]; [discriminate|].
  destruct (k =? id); [|exact IH]. intros H; inversion H; subst. exists c0. split; [reflexivity | apply keep_notify].
Qed.

Lemma kept_stop st id x : get id (calls (conn_stop st)) = Some x -> kept st id x.
Proof.
  unfold conn_stop. destruct (stopped st); [apply kept_same; reflexivity|].
  destruct (mexset_shut st); [apply kept_same; reflexivity|].
  cbn [calls set_calls]. intros H. right. apply get_map_notify_keep. exact H.
Qed.

Lemma kept_close st id x : get id (calls (conn_close st)) = Some x -> kept st id x.
Proof. destruct (close_fields st) as (A & _). apply kept_same. exact A. Qed.

Lemma other_handler st l st' id :
  hl_of id l = false -> handler_label l = true -> step st l = Some st' ->
  exists lid c, lid <> id /\ get lid (calls st) = Some c /\ hstep st lid c l = Some st'.
Proof.
  intros HL HH H.
  destruct l; try discriminate HH; cbn [hl_of] in HL; cbn [step] in H; unfold with_call in H;
    (destruct (get id0 (calls st)) as [c|] eqn:Hg; [|discriminate]);
    exists id0, c; (split; [intros ->; rewrite Z.eqb_refl in HL; discriminate | split; [exact Hg | exact H]]).
Qed.

Lemma step_mis_other st l st' id :
  hl_of id l = false -> step st l = Some st' ->
  misused st' = misused st \/ exists lid, lid <> id /\ misused st' = misused st ++ [lid].
Proof.
  intros HL H. destruct (handler_label l) eqn:HH.
  - destruct (other_handler _ _ _ _ HL HH H) as (lid & c & N & Hg & Hs).
    pose proof (hstep_mis _ _ _ _ _ Hs) as M.
    destruct l; try (left; exact M). destruct M as [M | [_ M]]; [left; exact M | right; exists lid; auto].
  - destruct (step_other st l st' id new_call HH H) as [M _]. left; exact M.
Qed.

Lemma step_keep st l st' id x :
  hl_of id l = false -> step st l = Some st' -> get id (calls st') = Some x -> kept st id x.
Proof.
  intros HL H Hx.
  destruct (handler_label l) eqn:HH.
  - (* a handler action of another call *)
    destruct (other_handler _ _ _ _ HL HH H) as (lid & c & N & Hg & Hs).
    pose proof (frame_hstep _ _ _ _ _ Hs) as (_ & _ & _ & Fo).
    destruct (Fo id (not_eq_sym N)) as [E1 _].
    right. exists x. split; [rewrite <- E1; exact Hx | apply keep_refl].
  - (* reader, timers, connection *)
    destruct l; try discriminate HH; cbn [step] in H.
    + (* RdCallReq1 *)
      destruct (rd_pc st); try discriminate.
      destruct (send_syserr_fields (add_requested st id0) id0 full) as (S1 & _).
      destruct (cst (add_requested st id0)); apply Some_inj in H; subst st';
        first [ apply (kept_same st _ id x eq_refl Hx) | apply (kept_same st _ id x S1 Hx) ].
    + (* RdCallReq2 *)
      destruct (rd_pc st) as [|rid| | |]; try discriminate.
      destruct (negb ok); [apply Some_inj in H; subst st'; apply (kept_same st _ id x eq_refl Hx)|].
      destruct (mexset_shut st || _); apply Some_inj in H; subst st'.
      * destruct (send_syserr_fields st rid full) as (S1 & _). apply (kept_same st _ id x S1 Hx).
      * cbn [calls set_rd set_calls] in Hx. destruct (Z.eq_dec id rid) as [->|N].
        -- rewrite get_put_same in Hx. inversion Hx; subst. left. cbn. split; [reflexivity | discriminate].
        -- rewrite (get_put_other _ _ _ _ N) in Hx. right. exists x. split; [exact Hx | apply keep_refl].
    + (* RdCallReq3 *)
      destruct (rd_pc st) as [| |rid| |]; try discriminate. unfold with_call in H.
      destruct (get rid (calls st)) as [c|] eqn:Hg; [|discriminate].
      destruct (send_syserr_fields st rid full) as (S1 & _).
      assert (Hg1 : get rid (calls (fst (conn_send_syserr st rid full))) = Some c) by (rewrite S1; exact Hg).
      destruct (cst st); [|destruct (shut_call c) as [c1 chk] eqn:E; apply keep_shut in E ..];
        apply Some_inj in H; subst st'; cbn [calls set_rd] in Hx.
      * eapply kept_commit; [exact Hg | | exact Hx]. unfold keep; cbn. repeat split; auto; discriminate.
      * assert (K : kept (fst (conn_send_syserr st rid full)) id x).
        { eapply kept_commit; [exact Hg1 | | exact Hx]. unfold keep in *; cbn. destruct E as (E1 & E2 & _). repeat split; auto; discriminate. }
        unfold kept in *. rewrite S1 in K. exact K.
      * assert (K : kept (fst (conn_send_syserr st rid full)) id x).
        { eapply kept_commit; [exact Hg1 | | exact Hx]. unfold keep in *; cbn. destruct E as (E1 & E2 & _). repeat split; auto; discriminate. }
        unfold kept in *. rewrite S1 in K. exact K.
      * assert (K : kept (fst (conn_send_syserr st rid full)) id x).
        { eapply kept_commit; [exact Hg1 | | exact Hx]. unfold keep in *; cbn. destruct E as (E1 & E2 & _). repeat split; auto; discriminate. }
        unfold kept in *. rewrite S1 in K. exact K.
    + (* RdProtoClose *)
      destruct (rd_pc st); try discriminate. apply Some_inj in H; subst st'. cbn [calls set_rd] in Hx.
      apply kept_close; exact Hx.
    + (* RdProtoStop *)
      destruct (rd_pc st); try discriminate. apply Some_inj in H; subst st'. cbn [calls set_rd] in Hx.
      apply kept_stop; exact Hx.
    + (* RdCancel *)
      destruct (rd_pc st); try discriminate.
      destruct (propagate st); [|apply Some_inj in H; subst st'; apply (kept_same st _ id x eq_refl Hx)].
      destruct (get id0 (calls st)) as [c|] eqn:Hg; [|apply Some_inj in H; subst st'; apply (kept_same st _ id x eq_refl Hx)].
      destruct (in_ex c); apply Some_inj in H; subst st'; [|apply (kept_same st _ id x eq_refl Hx)].
      eapply kept_commit; [exact Hg | | exact Hx]. unfold keep; cbn; auto.
    + (* Deadline *)
      unfold with_call in H. destruct (get id0 (calls st)) as [c|] eqn:Hg; [|discriminate].
      destruct (m_ctx c); try discriminate. apply Some_inj in H; subst st'.
      eapply kept_commit; [exact Hg | | exact Hx]. unfold keep; cbn; auto.
    + (* ExpireCtx *)
      unfold with_call in H. destruct (get id0 (calls st)) as [c|] eqn:Hg; [|discriminate].
      destruct (e_pc c); try discriminate. destruct (m_ctx c); try discriminate;
        apply Some_inj in H; subst st'; (eapply kept_commit; [exact Hg | | exact Hx]); unfold keep; cbn; auto.
    + (* ExpireErr *)
      unfold with_call in H. destruct (get id0 (calls st)) as [c|] eqn:Hg; [|discriminate].
      destruct (e_pc c); try discriminate. destruct (m_errch c); try discriminate.
      apply Some_inj in H; subst st'. eapply kept_commit; [exact Hg | | exact Hx]. unfold keep; cbn; auto.
    + apply Some_inj in H; subst st'. apply kept_close; exact Hx.
    + apply Some_inj in H; subst st'. apply kept_stop; exact Hx.
    + apply Some_inj in H; subst st'. apply (kept_same st _ id x eq_refl Hx).
    + apply Some_inj in H; subst st'. apply (kept_same st _ id x eq_refl Hx).
    + destruct (0 <? n_out st); [|discriminate]. apply Some_inj in H; subst st'. apply (kept_same st _ id x eq_refl Hx).
Qed.

(* ---- the invariant along a run ------------------------------------------------------------------ *)

Definition J (t : htrk) (enq : bool) (c : call) : Prop :=
  (t = TOpen -> g_dones c = false) /\
  (t = TDoneFailed -> g_dones c = true -> w_err c = true) /\
  (h_pc c = PDone -> enq = false -> w_err c = true).

Lemma J_kept st id x t enq :
  (forall c, get id (calls st) = Some c -> J t enq c) -> kept st id x -> J t enq x.
Proof.
  intros HJ [[D P] | (c0 & G & K1 & K2 & K3)].
  - unfold J. rewrite D. split; [reflexivity|]. split; [discriminate|]. intros E; contradiction.
  - destruct (HJ c0 G) as (A & B & C). unfold J. rewrite K1, K2. repeat split; auto.
Qed.

(* past the error check of SendSystemError after doneSending: the response had not failed *)
Lemma syserr_mis st id c full st' :
  hstep st id c (HSysErr id full) = Some st' ->
  misused st' = misused st \/ (g_dones c = true /\ w_err c = false).
Proof.
  intros H. unfold hstep in H. destruct (h_pc c); try discriminate.
  destruct (w_err c) eqn:W. { apply Some_inj in H; subst st'. left. apply mis_commit. }
  destruct (g_dones c) eqn:D; [right; auto|]. left.
  destruct (conn_send_syserr st id full) as [st1 ok] eqn:Cs.
  destruct (done_sending (upd_w c false WComplete (rd_err c))) as [c1 chk].
  apply Some_inj in H; subst st'. rewrite mis_commit.
  destruct (send_syserr_fields st id full) as (_ & _ & M & _). rewrite Cs in M. exact M.
Qed.

Lemma hstep_J st id c l st' t enq :
  get id (calls st) = Some c -> hstep st id c l = Some st' -> hl_of id l = true ->
  J t enq c -> ~ In id (misused st) ->
  match l with HSysErr _ _ => sys_allowed t = true | _ => True end ->
  ~ In id (misused st') /\
  forall c', get id (calls st') = Some c' -> J (trk_after t enq l) (enq_after l) c'.
Proof.
  intros Hg H HL (Ja & Jb & Jc) Hm Hs.
  destruct (hstep_track _ _ _ _ _ Hg H) as (c1 & G1 & T1 & T2).
  pose proof (hstep_mis _ _ _ _ _ H) as M.
  pose proof (hstep_dones _ _ _ _ _ Hg H) as D.
  assert (Hpd : forall i, l = HDone i -> h_pc c = PDone).
  { intros i ->. unfold hstep in H. destruct (h_pc c); try discriminate. reflexivity. }
  destruct l; cbn [hl_of] in HL; try discriminate HL; cbn [trk_after enq_after] in *;
    try (split; [rewrite M; exact Hm|]; intros c' G; rewrite G1 in G; inversion G; subst c';
         destruct D as (c2 & G2 & D2); rewrite G1 in G2; inversion G2; subst c2;
         split; [intros Et; rewrite D2; auto | split; [intros Et Gd; apply T1; apply Jb; [exact Et | congruence] | exact T2]]).
  - (* HDone *)
    split; [rewrite M; exact Hm|]. intros c' G. rewrite G1 in G; inversion G; subst c'.
    pose proof (Hpd _ eq_refl) as Pd.
    split; [destruct t, enq; discriminate|]. split; [|exact T2].
    intros Et _. apply T1. apply Jc; [exact Pd|]. destruct t, enq; try discriminate; reflexivity.
  - (* HSysErr *)
    apply Z.eqb_eq in HL. subst id0.
    split.
    + destruct (syserr_mis _ _ _ _ _ H) as [E | [Gd We]]; [rewrite E; exact Hm|].
      exfalso. destruct t; try discriminate Hs.
      * rewrite (Ja eq_refl) in Gd. discriminate.
      * rewrite (Jb eq_refl Gd) in We. discriminate.
    + intros c' G. rewrite G1 in G; inversion G; subst c'.
      split; [discriminate|]. split; [discriminate | exact T2].
Qed.

Lemma helper_ok_run ls : forall st st' id t enq,
  run_from st ls = Some st' -> helper_ok id t enq ls = true ->
  (forall c, get id (calls st) = Some c -> J t enq c) ->
  ~ In id (misused st) -> ~ In id (misused st').
Proof.
  induction ls as [|l r IH]; intros st st' id t enq H Hok HJ Hm; cbn [run_from] in H.
  - apply Some_inj in H; subst; exact Hm.
  - destruct (step st l) as [st1|] eqn:E; [|discriminate].
    cbn [helper_ok] in Hok. destruct (hl_of id l) eqn:HL.
    + assert (X : exists c, get id (calls st) = Some c /\ hstep st id c l = Some st1).
      { destruct l; cbn [hl_of] in HL; try discriminate HL; apply Z.eqb_eq in HL; subst;
          cbn [step] in E; unfold with_call in E;
          (destruct (get id (calls st)) as [c|] eqn:Hg; [|discriminate]); exists c; auto. }
      destruct X as (c & Hg & Hs).
      assert (Y : match l with HSysErr _ _ => sys_allowed t = true | _ => True end /\
                  helper_ok id (trk_after t enq l) (enq_after l) r = true).
      { destruct l; cbn [trk_after enq_after] in *; try (split; [exact I | exact Hok]).
        apply andb_true_iff in Hok. exact Hok. }
      destruct Y as [Y1 Y2].
      destruct (hstep_J _ _ _ _ _ _ _ Hg Hs HL (HJ c Hg) Hm Y1) as [Hm1 HJ1].
      eapply IH; eassumption.
    + assert (Hm1 : ~ In id (misused st1)).
      { destruct (step_mis_other _ _ _ _ HL E) as [-> | (lid & N & ->)]; [exact Hm|].
        intros X. apply in_app_or in X as [X | [X | []]]; [auto | congruence]. }
      eapply IH; [exact H | exact Hok | | exact Hm1].
      intros c' G. eapply J_kept; [exact HJ|]. eapply step_keep; eassumption.
Qed.

(* ---- the theorems ------------------------------------------------------------------------------------ *)

Theorem helper_ok_not_misused prop ls st id :
  run prop ls = Some st -> helper_ok id TOpen false ls = true -> ~ In id (misused st).
Proof.
  intros H Hok. eapply helper_ok_run; [exact H | exact Hok | | intros []].
  intros c G. discriminate G.
Qed.

(* the grammar for every call that keeps the helper discipline *)
Theorem respwire_grammar_helper prop ls st :
  run prop ls = Some st ->
  forall id, (req_count id ls <= 1)%nat -> helper_ok id TOpen false ls = true ->
    wire_prefix_ok (proj id (sent st)) = true /\
    (forall l1 k l2, proj id (sent st) = l1 ++ k :: l2 -> terminal k = true -> l2 = []) /\
    (length (filter terminal (proj id (sent st))) <= 1)%nat /\
    (req_count id ls = O -> proj id (sent st) = []) /\
    (get id (calls st) = None -> proj id (sent st) = [] \/ proj id (sent st) = [Err]).
Proof.
  intros Hrun id Hc Hok.
  assert (E : count_req id (requested st) = req_count id ls).
  { unfold run in Hrun. rewrite (requested_count _ _ _ id Hrun). cbn. lia. }
  pose proof (respwire_grammar prop ls st Hrun id) as G. rewrite E in G.
  apply G; [exact Hc | eapply helper_ok_not_misused; eassumption].
Qed.

(* ---- witnesses ------------------------------------------------------------------------------------------
   call 7 answers through the helper; the deadline passes before the helper's Close of arg3, the
   final flush fails (at checkError, or at the select), Close has run doneSending and returned the
   error, the ErrorHandlerFunc sends its system error: outside [handler_ok], inside [helper_ok];
   nothing is sent, the call is not "misused". *)
Definition close_fails_early : list label :=
  [RdCallReq1 7 false; RdCallReq2 true false; RdCallReq3 false; HStart 7 true; HResp 7;
   HArgWriter 7 1; HClose 7 false; HArgWriter 7 2; HHelperWrite 7 true false; HArgWriter 7 3;
   Deadline 7; HHelperWrite 7 true false; HDone 7; HSysErr 7 false].
Definition close_fails_at_select : list label :=
  [RdCallReq1 7 false; RdCallReq2 true false; RdCallReq3 false; HStart 7 true; HResp 7;
   HArgWriter 7 1; HClose 7 false; HArgWriter 7 2; HHelperWrite 7 true false; HArgWriter 7 3;
   HHelperWrite 7 true false; Deadline 7; HFlushSel 7 false; HDone 7; HSysErr 7 false].

Lemma helper_ok_examples :
  (handler_ok 7 false close_fails_early = false /\ helper_ok 7 TOpen false close_fails_early = true /\
   exists st, run false close_fails_early = Some st /\ proj 7 (sent st) = [] /\ misused st = [] /\
              exists c, get 7 (calls st) = Some c /\ g_rets c = [0; 0; 0; 0; 0; 1; 1]) /\
  (handler_ok 7 false close_fails_at_select = false /\ helper_ok 7 TOpen false close_fails_at_select = true /\
   exists st, run false close_fails_at_select = Some st /\ proj 7 (sent st) = [] /\ misused st = [] /\
              exists c, get 7 (calls st) = Some c /\ g_rets c = [0; 0; 0; 0; 0; 1; 1]) /\
  (* tight: a system error after a Close that DID enqueue the final fragment is outside *)
  helper_ok 7 TOpen false misuse_labels = false.
Proof.
  repeat split; try reflexivity;
    (eexists; split; [vm_compute; reflexivity|]; split; [vm_compute; reflexivity|];
     split; [vm_compute; reflexivity|]; eexists; split; vm_compute; reflexivity).
Qed.
