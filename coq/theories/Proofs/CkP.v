(* The running checksum of a fragment sequence, in closed form. *)
From Coq Require Import ZArith List Bool Lia.
From Verif Require Import Base.Wrap Base.Bytes Model.Crc Model.Frag Spec.FragSpec Spec.FragOk Proofs.FragWP Proofs.CrcP.
Import ListNotations.
Local Open Scope Z_scope.

Lemma fold_ck_add_concat chunks : forall c, fold_left ck_add chunks c = ck_add c (concat chunks).
Proof.
  induction chunks as [|x chunks IH]; intros c; cbn [fold_left concat].
  - symmetry. apply ck_add_nil.
  - rewrite IH, ck_add_app. reflexivity.
Qed.

(* all argument bytes carried by fragments 0..k *)
Definition data_upto (k : nat) (fs : list frag) : list Z := concat (map (fun f => concat (f_chunks f)) (firstn (S k) fs)).

(* ck_chain in closed form: fragment k carries the checksum of ALL argument bytes of the
   message up to and including that fragment, and the (constant) type code *)
Lemma ck_chain_closed : forall fs c k f, ck_chain c fs -> nth_error fs k = Some f ->
  f_ck f = ck_sum (ck_add c (data_upto k fs)) /\ f_ctype f = ck_typecode c.
Proof.
  induction fs as [|g fs IH]; intros c k f H Hk; [destruct k; discriminate|].
  cbn [ck_chain] in H. destruct H as [H1 [H2 H3]].
  destruct k as [|k]; cbn [nth_error] in Hk.
  - inversion Hk; subst g. unfold data_upto. cbn [firstn map concat]. rewrite app_nil_r.
    rewrite <- fold_ck_add_concat. auto.
  - destruct (IH _ k f H3 Hk) as [A B]. split.
    + rewrite A. unfold data_upto. cbn [firstn map concat]. rewrite fold_ck_add_concat, ck_add_app. reflexivity.
    + rewrite B. apply ck_fold_typecode.
Qed.

(* for the two CRC types: the field is the big-endian CRC, computed from scratch, of all
   argument bytes so far *)
Lemma ck_sum_crc kind v bs : kind = 1 \/ kind = 3 ->
  ck_sum (ck_add (mkCk kind v) bs) = be 4 (crc32_update (if kind =? 1 then poly_ieee else poly_castagnoli) v bs).
Proof. intros [-> | ->]; reflexivity. Qed.

Lemma recv_type_change : forall st c f rest, rs_err st = 0 -> rs_ck st = Some c ->
  ck_typecode c <> f_ctype f ->
  exists st2, r_recv (rs_with_in st (f :: rest)) = Some (7, st2) /\ rs_err st2 = 7.
Proof.
  intros st c f rest He Hc Hn. unfold r_recv, rs_with_in. cbn [rs_err rs_in rs_ck rs_got rs_rel rs_state rs_rem rs_cur rs_more rs_fin].
  rewrite He, Hc. cbn [Z.eqb negb].
  assert (E : (ck_typecode c =? f_ctype f) = false) by (apply Z.eqb_neq; exact Hn).
  rewrite E. cbn [negb andb]. eexists. split; reflexivity.
Qed.
