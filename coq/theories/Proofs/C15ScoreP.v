(* Property C15: the score a list stores for a peer is the score of the peer's live state.
   Proofs over Model/C15Score.v; ties of the model's steps to Gen/GenC15Score.v. *)
From Coq Require Import ZArith List Bool Arith Lia Permutation.
From Verif Require Import Base.Wrap Base.Wire Gen.GenConsts Gen.GenPeers Spec.PeerSelect Spec.C15ScoreSpec
  Model.Retry Model.PeerHeap Model.PeerList Model.ReqSel Model.C15Score
  Proofs.PeerHeapP Proofs.PeerListP.
Import ListNotations.
Local Open Scope Z_scope.

(* ================================================================ 1. scores of one list *)

Lemma bytes_eqb_refl K : bytes_eqb K K = true.
Proof. now apply bytes_eqb_eq. Qed.
Lemma bytes_eqb_neq a b : a <> b -> bytes_eqb a b = false.
Proof. intros H. destruct (bytes_eqb a b) eqn:E; [apply bytes_eqb_eq in E; contradiction|reflexivity]. Qed.
Lemma bytes_eqb_false a b : bytes_eqb a b = false -> a <> b.
Proof. intros E ->. now rewrite bytes_eqb_refl in E. Qed.

Lemma wf_nodup_hps l : wf l -> NoDup (hps (pl_arr l)).
Proof. intros (Hnd & Hperm & _). eapply Permutation_NoDup; eassumption. Qed.

Lemma wf_key_entry l K sc : wf l -> In (K, sc) (peers_of l) -> In K (pl_keys l).
Proof.
  intros (_ & Hperm & _) Hin. eapply Permutation_in; [apply Permutation_sym, Hperm|].
  unfold peers_of in Hin. apply in_map_iff in Hin as (x & E & Hx). unfold hs in E. inversion E; subst.
  unfold hps. now apply in_map.
Qed.

(* two entries of a well-formed list with the same host:port are the same entry *)
Lemma nodup_hget h p k : NoDup (hps h) -> (p < length h)%nat -> (k < length h)%nat ->
  ps_hp (hget h k) = ps_hp (hget h p) -> k = p.
Proof.
  intros Hnd Hp Hk E. unfold hps in Hnd. rewrite NoDup_nth with (d := ps_hp ps_dflt) in Hnd.
  apply Hnd; rewrite ?map_length; try assumption.
  rewrite !(map_nth ps_hp). exact E.
Qed.

Lemma update_score_hs h hp s h' : hinv h -> NoDup (hps h) -> In hp (hps h) -> update_score h hp s = Some h' ->
  forall K sc, In (K, sc) (map hs h') -> (K = hp /\ sc = s) \/ (K <> hp /\ In (K, sc) (map hs h)).
Proof.
  intros [Hi Hv] Hnd Hin E K sc Hent. unfold update_score in E.
  destruct (find_pos_in h hp Hin) as [p Ep]. rewrite Ep in E.
  destruct (find_pos_some h hp p Ep) as [Hp Ehp].
  set (y := hget h p) in *. set (h1 := set_nth h p (set_score y s)) in *.
  assert (L1 : length h1 = length h) by apply length_set_nth.
  assert (Ey : ps_index y = Z.of_nat p) by (apply Hi; exact Hp).
  destruct (heap_fix_spec ek_score ek_score_le ek_score_trans h1 (ps_index y) ltac:(lia)) as (h2 & E2 & S2 & _).
  rewrite E2 in E. inversion E; subst h'.
  pose proof (ident_hs_perm _ _ (same_perm _ _ S2)) as P.
  apply (Permutation_in _ P) in Hent.
  apply in_map_iff in Hent as (z & Ez & Hz). apply In_hget in Hz as (k & Hk & Ek).
  unfold hs in Ez. inversion Ez; subst K sc. clear Ez.
  destruct (Nat.eq_dec k p) as [->|Hne].
  - left. subst z. unfold h1. rewrite hget_set_eq by exact Hp. cbn. split; [exact Ehp|reflexivity].
  - right. subst z. unfold h1. rewrite hget_set_neq by congruence.
    rewrite L1 in Hk. split.
    + intros Eq. apply Hne. apply (nodup_hget h p k Hnd Hp Hk). unfold y in Ehp. congruence.
    + apply in_map_iff. exists (hget h k). split; [reflexivity|now apply hget_In].
Qed.

(* PeerList.onPeerChange / updatePeer: the entry of K gets the new score, nothing else changes *)
Lemma pl_update_scores l K s : wf l ->
  exists l', pl_update l K s = Some l' /\ wf l' /\ pl_keys l' = pl_keys l /\
    (forall K' sc, In (K', sc) (peers_of l') ->
       (K' = K /\ sc = s) \/ (K' <> K /\ In (K', sc) (peers_of l))).
Proof.
  intros Hwf. destruct (pl_update_spec l K s Hwf) as (l' & E & W & Ke & _).
  exists l'. split; [exact E|]. split; [exact W|]. split; [exact Ke|].
  pose proof Hwf as (Hnd & Hperm & Hinv). unfold pl_update in E.
  destruct (mem K (pl_keys l)) eqn:Em.
  - apply mem_In in Em.
    assert (Hin : In K (hps (pl_arr l))) by (eapply Permutation_in; eassumption).
    destruct (find_pos_in _ _ Hin) as [p Ep]. rewrite Ep in E.
    destruct (find_pos_some _ _ _ Ep) as [Hp Ehp].
    destruct (ps_score (hget (pl_arr l) p) =? s) eqn:Es.
    + inversion E; subst l'. intros K' sc Hent.
      destruct (bytes_eqb K' K) eqn:Ek; [|right; split; [now apply bytes_eqb_false|exact Hent]].
      apply bytes_eqb_eq in Ek. subst K'. left. split; [reflexivity|].
      unfold peers_of in Hent. apply in_map_iff in Hent as (z & Ez & Hz).
      apply In_hget in Hz as (k & Hk & Ekz). unfold hs in Ez. inversion Ez; subst.
      assert (k = p) by (apply (nodup_hget _ p k (wf_nodup_hps l Hwf) Hp Hk); congruence).
      subst k. apply Z.eqb_eq in Es. exact Es.
    + destruct (update_score (pl_arr l) K s) as [arr|] eqn:Eu; [|discriminate].
      inversion E; subst l'. cbn [peers_of pl_arr]. intros K' sc Hent.
      exact (update_score_hs _ _ _ _ Hinv (wf_nodup_hps l Hwf) Hin Eu K' sc Hent).
  - inversion E; subst l'. intros K' sc Hent. right. split; [|exact Hent].
    intros ->. apply mem_false in Em. apply Em. eapply wf_key_entry; eassumption.
Qed.

(* PeerList.SetStrategy: every entry gets the score the new calculator gives *)
Lemma pl_update_all_scores f : forall order l, wf l ->
  exists l', pl_update_all l f order = Some l' /\ wf l' /\ pl_keys l' = pl_keys l /\
    (forall K sc, In (K, sc) (peers_of l') ->
       (In K order /\ sc = f K) \/ (~ In K order /\ In (K, sc) (peers_of l))) /\
    (forall K sc, In (K, sc) (peers_of l') -> (forall K0 s0, In (K0, s0) (peers_of l) -> s0 = f K0 \/ In K0 order) -> sc = f K).
Proof.
  induction order as [|K0 r IH]; intros l Hwf; cbn [pl_update_all].
  - exists l. split; [reflexivity|]. split; [exact Hwf|]. split; [reflexivity|]. split.
    + intros K sc H. right. split; [intros []|exact H].
    + intros K sc H Hall. destruct (Hall K sc H) as [E|[]]. exact E.
  - destruct (pl_update_scores l K0 (f K0) Hwf) as (l1 & E1 & W1 & K1 & S1). rewrite E1.
    destruct (IH l1 W1) as (l2 & E2 & W2 & K2 & S2 & A2). exists l2. split; [exact E2|]. split; [exact W2|].
    split; [congruence|]. split.
    + intros K sc H. destruct (S2 K sc H) as [[Hin Es]|[Hn Hold]].
      * left. split; [right; exact Hin|exact Es].
      * destruct (S1 K sc Hold) as [[-> Es]|[Hne Hold1]].
        -- left. split; [left; reflexivity|exact Es].
        -- right. split; [|exact Hold1]. intros [Eq|Hin]; [congruence|contradiction].
    + intros K sc H Hall. apply (A2 K sc H). intros K' s' H'.
      destruct (S1 K' s' H') as [[-> Es]|[Hne Hold1]]; [left; exact Es|].
      destruct (Hall K' s' Hold1) as [Es|[Eq|Hin]]; [left; exact Es|congruence|right; exact Hin].
Qed.

Lemma iteration_order_all keys order K : In K keys -> In K (iteration_order keys order).
Proof.
  intros Hin. unfold iteration_order.
  set (listed := filter (fun k => mem k keys) (nodup_hp order)).
  apply in_or_app. destruct (mem K listed) eqn:Em.
  - left. now apply mem_In.
  - right. apply filter_In. split; [exact Hin|]. now rewrite Em.
Qed.

Lemma pl_set_strategy_scores l f order : wf l ->
  exists l', pl_set_strategy l f order = Some l' /\ wf l' /\ pl_keys l' = pl_keys l /\
    forall K sc, In (K, sc) (peers_of l') -> sc = f K.
Proof.
  intros Hwf. unfold pl_set_strategy.
  destruct (pl_update_all_scores f (iteration_order (pl_keys l) order) l Hwf) as (l' & E & W & Ke & _ & A).
  exists l'. split; [exact E|]. split; [exact W|]. split; [exact Ke|].
  intros K sc H. apply (A K sc H). intros K0 s0 H0. right.
  apply iteration_order_all. eapply wf_key_entry; eassumption.
Qed.

(* ================================================================ 2. what a thread still owes *)

(* b re-scores K in list j (AResUpd) or is an updatePeer(K) that has not yet passed list j *)
Definition is_upd (j : nat) (K : hostport) (b : sbase) : bool :=
  match b with
  | BAct (AResUpd j' K') => Nat.eqb j' j && bytes_eqb K' K
  | BUpd j' K' => Nat.leb j' j && bytes_eqb K' K
  | _ => false
  end.
Definition owes_b (j : nat) (K : hostport) (bs : list sbase) : bool := existsb (is_upd j K) bs.
Definition owes_i (j : nat) (K : hostport) (i : sinstr) : bool :=
  match i with IB b => is_upd j K b | IIf _ body => owes_b j K body end.
Definition owes (j : nat) (K : hostport) (t : list sinstr) : bool := existsb (owes_i j K) t.
Definition owed (j : nat) (K : hostport) (ts : list (list sinstr)) : bool := existsb (owes j K) ts.

(* a whole Channel.updatePeer(K) is still ahead (possibly behind a root lookup of K itself) *)
Definition is_upd0 (K : hostport) (b : sbase) : bool :=
  match b with BUpd O K' => bytes_eqb K' K | _ => false end.
Definition upd0_b (K : hostport) (bs : list sbase) : bool := existsb (is_upd0 K) bs.
Definition guard_about (g : sguard) (K : hostport) : bool :=
  match g with GRoot K' => bytes_eqb K' K | _ => false end.
Definition upd0_i (K : hostport) (i : sinstr) : bool :=
  match i with IB b => is_upd0 K b | IIf g body => guard_about g K && upd0_b K body end.
Definition upd0 (K : hostport) (t : list sinstr) : bool := existsb (upd0_i K) t.

Definition conn_keys (ct : list sconn) (c : Z) : option (hostport * hostport) :=
  match find_conn ct c with Some x => Some (sc_ann x, sc_dial x) | None => None end.

(* the peers whose attributes an action changes *)
Definition touched (ck : Z -> option (hostport * hostport)) (a : sact) : list hostport :=
  match a with
  | AConnAdd _ K _ | AConnDrop _ K => [K]
  | APend c _ => match ck c with
                 | Some (ann, dial) => ann :: (if alias_of ann dial then [dial] else [])
                 | None => []
                 end
  | _ => []
  end.

(* a connection is only ever added to the peer of its announced or of its dialled host:port *)
Definition act_conn_ok (ck : Z -> option (hostport * hostport)) (a : sact) : bool :=
  match a with
  | AConnAdd c K _ => match ck c with
                      | Some (ann, dial) => bytes_eqb K ann || (alias_of ann dial && bytes_eqb K dial)
                      | None => false
                      end
  | APend c _ => match ck c with Some _ => true | None => false end
  | _ => true
  end.

(* skipping the body of a failed test loses no re-scoring that an existing entry could need *)
Definition guard_okb (g : sguard) (body : list sbase) : bool :=
  forallb (fun b => match b with
                    | BAct (AResUpd j K) =>
                        match g with
                        | GRoot K' => bytes_eqb K' K
                        | GMember j' K' => Nat.eqb j' j && bytes_eqb K' K
                        | GNotMember _ _ => false
                        end
                    | BUpd _ K => match g with GRoot K' => bytes_eqb K' K | _ => false end
                    | _ => true
                    end) body.

(* COVERED: every change of a peer's attributes is followed, in the same thread, by updatePeer of
   that peer *)
Fixpoint cov_b (ck : Z -> option (hostport * hostport)) (bs : list sbase) (after : hostport -> bool) : bool :=
  match bs with
  | [] => true
  | BAct a :: r => act_conn_ok ck a && forallb (fun K => upd0_b K r || after K) (touched ck a) && cov_b ck r after
  | BUpd _ _ :: r => cov_b ck r after
  end.
Fixpoint good (ck : Z -> option (hostport * hostport)) (t : list sinstr) : bool :=
  match t with
  | [] => true
  | IB (BAct a) :: r => act_conn_ok ck a && forallb (fun K => upd0 K r) (touched ck a) && good ck r
  | IB (BUpd _ _) :: r => good ck r
  | IIf g body :: r => cov_b ck body (fun K => upd0 K r) && guard_okb g body && good ck r
  end.

Lemma is_upd0_upd j K b : is_upd0 K b = true -> is_upd j K b = true.
Proof. destruct b as [a|[|j'] K']; cbn; try discriminate. intros ->. reflexivity. Qed.
Lemma upd0_b_owes j K bs : upd0_b K bs = true -> owes_b j K bs = true.
Proof.
  unfold upd0_b, owes_b. rewrite !existsb_exists. intros (b & Hb & E). exists b. split; [exact Hb|now apply is_upd0_upd].
Qed.
Lemma upd0_owes j K t : upd0 K t = true -> owes j K t = true.
Proof.
  unfold upd0, owes. rewrite !existsb_exists. intros (i & Hi & E). exists i. split; [exact Hi|].
  destruct i as [b|g body]; cbn in *; [now apply is_upd0_upd|].
  apply andb_true_iff in E as [_ E]. now apply upd0_b_owes.
Qed.

Lemma owes_app j K a b : owes j K (a ++ b) = owes j K a || owes j K b.
Proof. apply existsb_app. Qed.
Lemma owes_map_IB j K bs : owes j K (map IB bs) = owes_b j K bs.
Proof. unfold owes, owes_b. induction bs as [|b r IH]; cbn; [reflexivity|]. now rewrite IH. Qed.
Lemma upd0_app K a b : upd0 K (a ++ b) = upd0 K a || upd0 K b.
Proof. apply existsb_app. Qed.
Lemma upd0_map_IB K bs : upd0 K (map IB bs) = upd0_b K bs.
Proof. unfold upd0, upd0_b. induction bs as [|b r IH]; cbn; [reflexivity|]. now rewrite IH. Qed.

Lemma forallb_ext_in {A} (f g : A -> bool) l : (forall x, In x l -> f x = g x) -> forallb f l = forallb g l.
Proof. induction l as [|x r IH]; cbn; intros H; [reflexivity|]. rewrite H by (now left). rewrite IH; [reflexivity|]. intros y Hy. apply H. now right. Qed.

Lemma good_app_IB ck bs r : good ck (map IB bs ++ r) = cov_b ck bs (fun K => upd0 K r) && good ck r.
Proof.
  induction bs as [|b bs IH]; cbn [map app good cov_b]; [reflexivity|].
  destruct b as [a|j K]; [|exact IH].
  rewrite IH. rewrite (forallb_ext_in (fun K => upd0 K (map IB bs ++ r)) (fun K => upd0_b K bs || upd0 K r)).
  - now rewrite !andb_assoc.
  - intros K _. now rewrite upd0_app, upd0_map_IB.
Qed.

(* the connection table may grow and pending counts may change: obligations stay *)
Lemma touched_stable ck ck' a : (forall c, ck c <> None -> ck' c = ck c) -> act_conn_ok ck a = true ->
  touched ck' a = touched ck a /\ act_conn_ok ck' a = true.
Proof.
  intros H Hok. destruct a; cbn in *; try (split; reflexivity).
  - destruct (ck c) as [[ann dial]|] eqn:E; [|discriminate]. rewrite (H c) by congruence. rewrite E. now split.
  - destruct (ck c) as [[ann dial]|] eqn:E; [|discriminate]. rewrite (H c) by congruence. rewrite E. now split.
Qed.
Lemma cov_b_stable ck ck' after : (forall c, ck c <> None -> ck' c = ck c) ->
  forall bs, cov_b ck bs after = true -> cov_b ck' bs after = true.
Proof.
  intros H. induction bs as [|b r IH]; cbn [cov_b]; [auto|]. destruct b as [a|j K]; [|exact IH].
  intros E. apply andb_true_iff in E as [E E3]. apply andb_true_iff in E as [E1 E2].
  destruct (touched_stable ck ck' a H E1) as [-> ->]. rewrite E2, (IH E3). reflexivity.
Qed.
Lemma good_stable ck ck' : (forall c, ck c <> None -> ck' c = ck c) ->
  forall t, good ck t = true -> good ck' t = true.
Proof.
  intros H. induction t as [|i r IH]; cbn [good]; [auto|]. destruct i as [[a|j K]|g body].
  - intros E. apply andb_true_iff in E as [E E3]. apply andb_true_iff in E as [E1 E2].
    destruct (touched_stable ck ck' a H E1) as [-> ->]. rewrite E2, (IH E3). reflexivity.
  - exact IH.
  - intros E. apply andb_true_iff in E as [E E3]. apply andb_true_iff in E as [E1 E2].
    rewrite (cov_b_stable ck ck' _ H body E1), E2, (IH E3). reflexivity.
Qed.

(* threads *)
Lemma set_thread_length ts i t : length (set_thread ts i t) = length ts.
Proof. revert i; induction ts as [|x r IH]; intros [|i]; cbn; auto. Qed.
Lemma set_thread_In ts i t x : In x (set_thread ts i t) -> x = t \/ In x ts.
Proof.
  revert i; induction ts as [|y r IH]; intros [|i]; cbn; try tauto.
  - intros [<-|H]; auto.
  - intros [<-|H]; auto. destruct (IH i H); auto.
Qed.
Lemma owed_set_thread j K ts i old new : nth_error ts i = Some old ->
  (owes j K old = true -> owes j K new = true) ->
  owed j K ts = true -> owed j K (set_thread ts i new) = true.
Proof.
  revert i; induction ts as [|y r IH]; intros [|i] Hn Himp; cbn in *; try discriminate.
  - inversion Hn; subst y. intros E. apply orb_true_iff in E as [E|E]; [rewrite (Himp E); reflexivity|].
    rewrite E. apply orb_true_r.
  - intros E. apply orb_true_iff in E as [E|E]; [rewrite E; reflexivity|].
    unfold owed in IH. rewrite (IH i Hn Himp E). apply orb_true_r.
Qed.
Lemma Forall_set_thread (P : list sinstr -> Prop) ts i t : Forall P ts -> P t -> Forall P (set_thread ts i t).
Proof.
  intros H Ht. revert i; induction H as [|x r Hx Hr IH]; intros [|i]; cbn; constructor; auto.
Qed.

(* ================================================================ 3. what the calculators read: frames *)

Lemma attrs_same s s' K : ss_conns s' = ss_conns s -> ss_in s' = ss_in s -> ss_out s' = ss_out s ->
  s_attrs s' K = s_attrs s K.
Proof. intros E1 E2 E3. unfold s_attrs. now rewrite E1, E2, E3. Qed.

Lemma filter_holds_snoc K K0 c m : K <> K0 -> filter (holds K) (m ++ [(K0, c)]) = filter (holds K) m.
Proof.
  intros Hne. rewrite filter_app. cbn. unfold holds at 2. cbn. rewrite bytes_eqb_neq by congruence. apply app_nil_r.
Qed.
Lemma filter_holds_rm1 K K0 c m : K <> K0 -> filter (holds K) (rm1 K0 c m) = filter (holds K) m.
Proof.
  intros Hne. induction m as [|e r IH]; cbn; [reflexivity|].
  destruct (is_pair K0 c e) eqn:Ep.
  - unfold is_pair in Ep. apply andb_true_iff in Ep as [Ep _]. apply bytes_eqb_eq in Ep.
    unfold holds at 2. rewrite Ep, bytes_eqb_neq by congruence. reflexivity.
  - cbn. now rewrite IH.
Qed.

Lemma find_conn_map c d ct c' : find_conn (map (set_pend c d) ct) c' = option_map (set_pend c d) (find_conn ct c').
Proof.
  unfold find_conn. induction ct as [|x r IH]; cbn; [reflexivity|].
  assert (E : sc_id (set_pend c d x) = sc_id x) by (unfold set_pend; destruct (sc_id x =? c); reflexivity).
  rewrite E. destruct (sc_id x =? c'); [reflexivity|exact IH].
Qed.
Lemma conn_keys_map c d ct c' : conn_keys (map (set_pend c d) ct) c' = conn_keys ct c'.
Proof.
  unfold conn_keys. rewrite find_conn_map. destruct (find_conn ct c') as [x|]; cbn; [|reflexivity].
  unfold set_pend. destruct (sc_id x =? c); reflexivity.
Qed.
Lemma find_conn_id ct c x : find_conn ct c = Some x -> sc_id x = c /\ In x ct.
Proof. unfold find_conn. intros E. apply find_some in E as [Hin E]. apply Z.eqb_eq in E. auto. Qed.
Lemma conn_pend_map c d ct c' : c' <> c -> conn_pend (map (set_pend c d) ct) c' = conn_pend ct c'.
Proof.
  intros Hne. unfold conn_pend. rewrite find_conn_map. destruct (find_conn ct c') as [x|] eqn:E; cbn; [|reflexivity].
  destruct (find_conn_id _ _ _ E) as [Ei _]. unfold set_pend. rewrite Ei.
  destruct (c' =? c) eqn:Ec; [apply Z.eqb_eq in Ec; contradiction|reflexivity].
Qed.
Lemma find_conn_snoc ct x c : find_conn ct c <> None -> find_conn (ct ++ [x]) c = find_conn ct c.
Proof.
  unfold find_conn. induction ct as [|y r IH]; cbn; [congruence|].
  destruct (sc_id y =? c); [reflexivity|exact IH].
Qed.
Lemma find_conn_snoc_new ct x : find_conn ct (sc_id x) = None -> find_conn (ct ++ [x]) (sc_id x) = Some x.
Proof.
  unfold find_conn. induction ct as [|y r IH]; cbn; [now rewrite Z.eqb_refl|].
  destruct (sc_id y =? sc_id x); [discriminate|exact IH].
Qed.

(* ================================================================ 4. the invariant *)

Definition ck_of (s : sstate) : Z -> option (hostport * hostport) := conn_keys (ss_conns s).

(* the entry of K in list j is fresh, or a running operation still owes its re-scoring *)
Definition entry_ok (s : sstate) (j : nat) (cl : clist) (K : hostport) (sc : Z) : Prop :=
  sc = live_score s cl K \/ owed j K (ss_thr s) = true.

Record sinv (s : sstate) : Prop := {
  iv_wf : Forall (fun cl => wf (cl_pl cl)) (ss_lists s);
  iv_root : forall cl K, In cl (ss_lists s) -> In K (pl_keys (cl_pl cl)) -> In K (ss_root s);
  iv_ann : forall x, In x (ss_conns s) -> is_nil (sc_ann x) = false;
  iv_hold : forall K c, In (K, c) (ss_in s ++ ss_out s) ->
    exists ann dial, ck_of s c = Some (ann, dial) /\ (K = ann \/ (alias_of ann dial = true /\ K = dial));
  iv_entries : forall j cl K sc, nth_error (ss_lists s) j = Some cl -> In (K, sc) (peers_of (cl_pl cl)) ->
    entry_ok s j cl K sc;
  iv_thr : Forall (fun t => good (ck_of s) t = true) (ss_thr s) }.

Lemma sinv_init n : sinv (s_init n).
Proof.
  split; cbn.
  - apply (chan_init_wf n).
  - intros cl K Hcl HK. exfalso. destruct Hcl as [<-|Hcl]; [exact HK|]. apply repeat_spec in Hcl. subst cl. exact HK.
  - intros x [].
  - intros K c [].
  - intros j cl K sc Hn Hin. exfalso.
    assert (Hcl : In cl (mkCL pl_empty 0 :: repeat (mkCL pl_empty 1) n)) by (eapply nth_error_In; exact Hn).
    destruct Hcl as [<-|Hcl]; [exact Hin|]. apply repeat_spec in Hcl. subst cl. exact Hin.
  - constructor.
Qed.

Lemma nth_error_set_list ls j c j' :
  nth_error (set_list ls j c) j' =
    if Nat.eqb j' j then (if (j <? length ls)%nat then Some c else None) else nth_error ls j'.
Proof.
  revert j j'; induction ls as [|x r IH]; intros [|j] [|j']; cbn [set_list nth_error length Nat.eqb]; try reflexivity.
  - now destruct (Nat.eqb j' j).
  - rewrite IH. destruct (Nat.eqb j' j); [|reflexivity].
    destruct (Nat.ltb_spec j (length r)), (Nat.ltb_spec (S j) (S (length r))); try reflexivity; lia.
Qed.
Lemma set_list_length ls j c : length (set_list ls j c) = length ls.
Proof. revert j; induction ls as [|x r IH]; intros [|j]; cbn; auto. Qed.
Lemma In_set_list ls j c x : In x (set_list ls j c) -> x = c \/ In x ls.
Proof.
  revert j; induction ls as [|y r IH]; intros [|j]; cbn; try tauto.
  - intros [<-|H]; auto.
  - intros [<-|H]; auto. destruct (IH j H); auto.
Qed.

Lemma entry_in_keys s j cl K sc : sinv s -> nth_error (ss_lists s) j = Some cl -> In (K, sc) (peers_of (cl_pl cl)) ->
  In K (pl_keys (cl_pl cl)).
Proof.
  intros I Hn Hin. eapply wf_key_entry; [|exact Hin].
  pose proof (iv_wf s I) as W. rewrite Forall_forall in W. apply W. eapply nth_error_In; exact Hn.
Qed.

(* a step that only changes the remaining program of thread i *)
Lemma thread_step_inv s i old new : sinv s -> nth_error (ss_thr s) i = Some old ->
  good (ck_of s) new = true ->
  (forall j cl K sc, nth_error (ss_lists s) j = Some cl -> In (K, sc) (peers_of (cl_pl cl)) ->
     owes j K old = true -> owes j K new = true) ->
  sinv (with_thr s (set_thread (ss_thr s) i new)).
Proof.
  intros I Hn Hg Himp. destruct I as [W R A H E T]. split; cbn; try assumption.
  - intros j cl K sc Hj Hin. destruct (E j cl K sc Hj Hin) as [Ef|Eo]; [left; exact Ef|right].
    cbn. eapply owed_set_thread; [exact Hn| |exact Eo]. now apply (Himp j cl K sc).
  - now apply Forall_set_thread.
Qed.

(* ---------------------------------------------------------------- tests and Channel.updatePeer *)

Lemma owes_b_exists j K body : owes_b j K body = true -> exists b, In b body /\ is_upd j K b = true.
Proof. unfold owes_b. rewrite existsb_exists. auto. Qed.

Lemma guard_false_no_entry s g body j cl K sc : sinv s -> guard s g = false -> guard_okb g body = true ->
  nth_error (ss_lists s) j = Some cl -> In (K, sc) (peers_of (cl_pl cl)) -> owes_b j K body = false.
Proof.
  intros I Hg Hok Hn Hin. destruct (owes_b j K body) eqn:Eo; [exfalso|reflexivity].
  apply owes_b_exists in Eo as (b & Hb & Eb).
  unfold guard_okb in Hok. rewrite forallb_forall in Hok. specialize (Hok b Hb).
  pose proof (entry_in_keys s j cl K sc I Hn Hin) as Hkey.
  assert (Hroot : In K (ss_root s)) by (eapply (iv_root s I); [eapply nth_error_In; exact Hn|exact Hkey]).
  destruct b as [a|j' K'']; cbn in Eb.
  - destruct a; try discriminate. apply andb_true_iff in Eb as [Ej Ek].
    apply Nat.eqb_eq in Ej. apply bytes_eqb_eq in Ek. subst j0 K0.
    destruct g as [K'|j' K'|j' K']; cbn in Hg, Hok.
    + apply bytes_eqb_eq in Hok. subst K'. apply mem_false in Hg. contradiction.
    + apply andb_true_iff in Hok as [Ej Ek]. apply Nat.eqb_eq in Ej. apply bytes_eqb_eq in Ek. subst j' K'.
      rewrite Hn in Hg. apply mem_false in Hg. contradiction.
    + discriminate.
  - apply andb_true_iff in Eb as [_ Ek]. apply bytes_eqb_eq in Ek. subst K''.
    destruct g as [K'|j'' K'|j'' K']; cbn in Hg, Hok; try discriminate.
    apply bytes_eqb_eq in Hok. subst K'. apply mem_false in Hg. contradiction.
Qed.

Lemma step_if_inv s i g body r : sinv s -> nth_error (ss_thr s) i = Some (IIf g body :: r) ->
  sinv (with_thr s (set_thread (ss_thr s) i (if guard s g then map IB body ++ r else r))).
Proof.
  intros I Hn.
  assert (Hg : good (ck_of s) (IIf g body :: r) = true).
  { pose proof (iv_thr s I) as T. rewrite Forall_forall in T. apply T. eapply nth_error_In; exact Hn. }
  cbn [good] in Hg. apply andb_true_iff in Hg as [Hg G3]. apply andb_true_iff in Hg as [G1 G2].
  eapply thread_step_inv; [exact I|exact Hn| |].
  - destruct (guard s g); [|exact G3]. rewrite good_app_IB, G1, G3. reflexivity.
  - intros j cl K sc Hj Hin. cbn [owes existsb owes_i]. fold (owes j K r).
    destruct (guard s g) eqn:Eg.
    + rewrite owes_app, owes_map_IB. auto.
    + rewrite (guard_false_no_entry s g body j cl K sc I Eg G2 Hj Hin). cbn. auto.
Qed.

Lemma step_upd_inv s i j0 K0 r : sinv s -> nth_error (ss_thr s) i = Some (IB (BUpd j0 K0) :: r) ->
  sinv (with_thr s (set_thread (ss_thr s) i
          (if (j0 <? length (ss_lists s))%nat
           then IIf (GMember j0 K0) [BAct (AResUpd j0 K0)] :: IB (BUpd (S j0) K0) :: r else r))).
Proof.
  intros I Hn.
  assert (Hg : good (ck_of s) (IB (BUpd j0 K0) :: r) = true).
  { pose proof (iv_thr s I) as T. rewrite Forall_forall in T. apply T. eapply nth_error_In; exact Hn. }
  cbn [good] in Hg.
  eapply thread_step_inv; [exact I|exact Hn| |].
  - destruct (j0 <? length (ss_lists s))%nat; [|exact Hg].
    cbn [good cov_b guard_okb forallb act_conn_ok touched]. rewrite Nat.eqb_refl, bytes_eqb_refl, Hg. reflexivity.
  - intros j cl K sc Hj Hin. cbn [owes existsb owes_i is_upd]. fold (owes j K r).
    assert (Hlt : (j < length (ss_lists s))%nat) by (apply nth_error_Some; congruence).
    destruct (Nat.ltb_spec j0 (length (ss_lists s))) as [Hl|Hl].
    + cbn [owes existsb owes_i owes_b is_upd]. fold (owes j K r).
      destruct (bytes_eqb K0 K); rewrite ?andb_false_r; cbn; [|auto].
      rewrite !andb_true_r. intros E. apply orb_true_iff in E as [E|E]; [|rewrite E; now rewrite !orb_true_r].
      apply Nat.leb_le in E. destruct (Nat.eqb_spec j0 j) as [|Hne]; [reflexivity|].
      cbn. replace (match j with 0%nat => false | S m' => (j0 <=? m')%nat end) with true; [reflexivity|].
      symmetry. destruct j; [lia|]. apply Nat.leb_le. lia.
    + intros E. apply orb_true_iff in E as [E|E]; [|exact E].
      apply andb_true_iff in E as [E _]. apply Nat.leb_le in E. lia.
Qed.

(* ---------------------------------------------------------------- actions *)

Lemma thread_good s i t : sinv s -> nth_error (ss_thr s) i = Some t -> good (ck_of s) t = true.
Proof.
  intros I Hn. pose proof (iv_thr s I) as T. rewrite Forall_forall in T. apply T. eapply nth_error_In; exact Hn.
Qed.

(* an action that leaves the lists alone: peer-lock regions, exchange sets, the root list *)
Lemma act_frame_inv s i a r cs inn out root :
  sinv s -> nth_error (ss_thr s) i = Some (IB (BAct a) :: r) ->
  (forall j K, is_upd j K (BAct a) = false) ->
  (forall c, ck_of s c <> None -> conn_keys cs c = ck_of s c) ->
  (forall K, ~ In K (touched (ck_of s) a) ->
     s_attrs (mkSS cs inn out root (ss_lists s) (ss_thr s)) K = s_attrs s K) ->
  (forall cl K, In cl (ss_lists s) -> In K (pl_keys (cl_pl cl)) -> In K root) ->
  (forall x, In x cs -> is_nil (sc_ann x) = false) ->
  (forall K c, In (K, c) (inn ++ out) ->
     exists ann dial, conn_keys cs c = Some (ann, dial) /\ (K = ann \/ (alias_of ann dial = true /\ K = dial))) ->
  sinv (mkSS cs inn out root (ss_lists s) (set_thread (ss_thr s) i r)).
Proof.
  intros I Hn Hnu Hck Hat Hroot Hann Hhold.
  pose proof (thread_good s i _ I Hn) as Hg. cbn [good] in Hg.
  apply andb_true_iff in Hg as [Hg G3]. apply andb_true_iff in Hg as [G1 G2].
  rewrite forallb_forall in G2.
  split; cbn [ss_lists ss_root ss_conns ss_in ss_out ss_thr]; try assumption.
  - exact (iv_wf s I).
  - intros j cl K sc Hj Hin. unfold entry_ok. cbn [ss_thr].
    destruct (in_dec (list_eq_dec Z.eq_dec) K (touched (ck_of s) a)) as [Ht|Ht].
    + right. eapply owed_set_thread with (old := IB (BAct a) :: r); [exact Hn|intros _; apply upd0_owes, G2, Ht|].
      (* the thread itself owes it now; owed before is irrelevant: use the thread's own obligation *)
      unfold owed. apply existsb_exists. exists (IB (BAct a) :: r). split; [eapply nth_error_In; exact Hn|].
      cbn [owes existsb owes_i]. fold (owes j K r). rewrite (upd0_owes j K r (G2 K Ht)). apply orb_true_r.
    + destruct (iv_entries s I j cl K sc Hj Hin) as [Ef|Eo].
      * left. unfold live_score in *. rewrite Ef. f_equal. symmetry. apply (Hat K Ht).
      * right. eapply owed_set_thread; [exact Hn| |exact Eo].
        cbn [owes existsb owes_i]. fold (owes j K r). rewrite Hnu. cbn. auto.
  - apply Forall_set_thread.
    + pose proof (iv_thr s I) as T. rewrite Forall_forall in T |- *. intros t Ht.
      apply (good_stable (ck_of s) (conn_keys cs) Hck). now apply T.
    + apply (good_stable (ck_of s) (conn_keys cs) Hck). exact G3.
Qed.

(* an action on list j0 *)
Lemma act_list_inv s i a r j0 cl cl' root :
  sinv s -> nth_error (ss_thr s) i = Some (IB (BAct a) :: r) ->
  nth_error (ss_lists s) j0 = Some cl ->
  wf (cl_pl cl') ->
  (forall K, In K (ss_root s) -> In K root) ->
  (forall K, In K (pl_keys (cl_pl cl')) -> In K root) ->
  (forall K sc, In (K, sc) (peers_of (cl_pl cl')) ->
     sc = calc (cl_strat cl') (s_attrs s K) \/
     (cl_strat cl' = cl_strat cl /\ In (K, sc) (peers_of (cl_pl cl)) /\ is_upd j0 K (BAct a) = false)) ->
  (forall j K, j <> j0 -> is_upd j K (BAct a) = false) ->
  sinv (mkSS (ss_conns s) (ss_in s) (ss_out s) root (set_list (ss_lists s) j0 cl') (set_thread (ss_thr s) i r)).
Proof.
  intros I Hn Hj0 Wf' Hr1 Hr2 Hent Hother.
  pose proof (thread_good s i _ I Hn) as Hg. cbn [good] in Hg.
  apply andb_true_iff in Hg as [_ G3].
  assert (Hlt : (j0 < length (ss_lists s))%nat) by (apply nth_error_Some; congruence).
  split; cbn [ss_lists ss_root ss_conns ss_in ss_out ss_thr].
  - apply set_list_Forall; [exact (iv_wf s I)|exact Wf'].
  - intros c K Hc HK. apply In_set_list in Hc as [->|Hc]; [now apply Hr2|].
    apply Hr1. eapply (iv_root s I); eassumption.
  - exact (iv_ann s I).
  - exact (iv_hold s I).
  - intros j c K sc Hj Hin. rewrite nth_error_set_list in Hj. unfold entry_ok. cbn [ss_thr].
    assert (Hat : forall c0, live_score (mkSS (ss_conns s) (ss_in s) (ss_out s) root (set_list (ss_lists s) j0 cl')
                                          (set_thread (ss_thr s) i r)) c0 K = live_score s c0 K) by reflexivity.
    rewrite Hat.
    destruct (Nat.eqb_spec j j0) as [->|Hne].
    + apply Nat.ltb_lt in Hlt. rewrite Hlt in Hj. inversion Hj; subst c.
      destruct (Hent K sc Hin) as [Ef|(Es & Hold & Hnu)]; [left; exact Ef|].
      destruct (iv_entries s I j0 cl K sc Hj0 Hold) as [Ef|Eo].
      * left. unfold live_score in *. now rewrite Es.
      * right. eapply owed_set_thread; [exact Hn| |exact Eo].
        cbn [owes existsb owes_i]. fold (owes j0 K r). rewrite Hnu. cbn. auto.
    + destruct (iv_entries s I j c K sc Hj Hin) as [Ef|Eo]; [left; exact Ef|right].
      eapply owed_set_thread; [exact Hn| |exact Eo].
      cbn [owes existsb owes_i]. fold (owes j K r). rewrite (Hother j K Hne). cbn. auto.
  - apply Forall_set_thread; [exact (iv_thr s I)|exact G3].
Qed.

(* an action that turns out to change nothing (a list that does not exist, Add of a member) *)
Lemma act_noop_inv s i a r :
  sinv s -> nth_error (ss_thr s) i = Some (IB (BAct a) :: r) ->
  (forall j cl K sc, nth_error (ss_lists s) j = Some cl -> In (K, sc) (peers_of (cl_pl cl)) -> is_upd j K (BAct a) = false) ->
  sinv (with_thr s (set_thread (ss_thr s) i r)).
Proof.
  intros I Hn Hnu. pose proof (thread_good s i _ I Hn) as Hg. cbn [good] in Hg.
  apply andb_true_iff in Hg as [_ G3].
  eapply thread_step_inv; [exact I|exact Hn|exact G3|].
  intros j cl K sc Hj Hin. cbn [owes existsb owes_i]. fold (owes j K r). rewrite (Hnu j cl K sc Hj Hin). cbn. auto.
Qed.

Lemma root_add_incl K0 r K : In K r -> In K (root_add K0 r).
Proof. unfold root_add. destruct (mem K0 r); [auto|]. intros H. apply in_or_app. now left. Qed.
Lemma root_add_in K0 r : In K0 (root_add K0 r).
Proof. unfold root_add. destruct (mem K0 r) eqn:E; [now apply mem_In|]. apply in_or_app. right. now left. Qed.
Lemma In_rm1 K c m e : In e (rm1 K c m) -> In e m.
Proof. induction m as [|x r IH]; cbn; [auto|]. destruct (is_pair K c x); [auto|]. intros [<-|H]; auto. Qed.

Lemma attrs_conn_add s K K0 c (inb : bool) root ls ts : K <> K0 ->
  s_attrs (mkSS (ss_conns s) (if inb then ss_in s ++ [(K0, c)] else ss_in s)
                (if inb then ss_out s else ss_out s ++ [(K0, c)]) root ls ts) K = s_attrs s K.
Proof.
  intros Hne. unfold s_attrs. cbn [ss_conns ss_in ss_out].
  assert (E1 : filter (holds K) [(K0, c)] = []).
  { cbn. unfold holds. cbn. rewrite bytes_eqb_neq by congruence. reflexivity. }
  destruct inb; rewrite !filter_app, E1, ?app_nil_r; reflexivity.
Qed.

Lemma attrs_conn_drop_in s K K0 c root ls ts : K <> K0 ->
  s_attrs (mkSS (ss_conns s) (rm1 K0 c (ss_in s)) (ss_out s) root ls ts) K = s_attrs s K.
Proof. intros Hne. unfold s_attrs. cbn [ss_conns ss_in ss_out]. rewrite !filter_app, !filter_holds_rm1 by exact Hne. reflexivity. Qed.
Lemma attrs_conn_drop_out s K K0 c root ls ts : K <> K0 ->
  s_attrs (mkSS (ss_conns s) (ss_in s) (rm1 K0 c (ss_out s)) root ls ts) K = s_attrs s K.
Proof. intros Hne. unfold s_attrs. cbn [ss_conns ss_in ss_out]. rewrite !filter_app, !filter_holds_rm1 by exact Hne. reflexivity. Qed.

Lemma attrs_pend s K c d root ls ts :
  (forall e, In e (ss_out s ++ ss_in s) -> holds K e = true -> snd e <> c) ->
  s_attrs (mkSS (map (set_pend c d) (ss_conns s)) (ss_in s) (ss_out s) root ls ts) K = s_attrs s K.
Proof.
  intros H. unfold s_attrs. cbn [ss_conns ss_in ss_out]. f_equal; f_equal.
  - apply map_ext_in. intros e He. apply filter_In in He as [He1 He2]. apply conn_pend_map. now apply H.
  - f_equal. apply map_ext_in. intros e He. apply filter_In in He as [He1 He2]. apply conn_pend_map. now apply H.
Qed.

Lemma step_act_inv s i a r : sinv s -> nth_error (ss_thr s) i = Some (IB (BAct a) :: r) ->
  exists s1, act s a = Some s1 /\ sinv (with_thr s1 (set_thread (ss_thr s1) i r)).
Proof.
  intros I Hn. pose proof (thread_good s i _ I Hn) as Hg. cbn [good] in Hg.
  apply andb_true_iff in Hg as [Hg _]. apply andb_true_iff in Hg as [Hok _].
  destruct a as [c K0 inb|c K0|c d|j0 K0|j0 K0 d1 d2|j0 K0|j0 strat order|j0 prev d|j0 prev d|K0]; cbn [act].
  - (* AConnAdd *)
    eexists. split; [reflexivity|].
    apply (act_frame_inv s i (AConnAdd c K0 inb) r (ss_conns s) (if inb then ss_in s ++ [(K0, c)] else ss_in s)
             (if inb then ss_out s else ss_out s ++ [(K0, c)]) (root_add K0 (ss_root s)) I Hn).
    + reflexivity.
    + intros c0 _. reflexivity.
    + intros K Ht. apply attrs_conn_add. intros ->. apply Ht. now left.
    + intros cl K Hcl HK. apply root_add_incl. eapply (iv_root s I); eassumption.
    + exact (iv_ann s I).
    + intros K c' Hin.
      assert (Hold : In (K, c') (ss_in s ++ ss_out s) \/ (K, c') = (K0, c)).
      { destruct inb; apply in_app_or in Hin as [Hin|Hin].
        - apply in_app_or in Hin as [Hin|[<-|[]]]; [left; apply in_or_app; now left|now right].
        - left. apply in_or_app. now right.
        - left. apply in_or_app. now left.
        - apply in_app_or in Hin as [Hin|[<-|[]]]; [left; apply in_or_app; now right|now right]. }
      destruct Hold as [Hold|E]; [exact (iv_hold s I K c' Hold)|].
      inversion E; subst K c'. cbn [act_conn_ok] in Hok. fold (ck_of s).
      destruct (ck_of s c) as [[ann dial]|]; [|discriminate]. exists ann, dial. split; [reflexivity|].
      apply orb_true_iff in Hok as [Hk|Hk]; [left; now apply bytes_eqb_eq|right].
      apply andb_true_iff in Hk as [Ha Hk]. split; [exact Ha|now apply bytes_eqb_eq].
  - (* AConnDrop *)
    destruct (existsb (is_pair K0 c) (ss_in s)); (eexists; split; [reflexivity|]).
    + apply (act_frame_inv s i (AConnDrop c K0) r (ss_conns s) (rm1 K0 c (ss_in s)) (ss_out s) (ss_root s) I Hn).
      * reflexivity.
      * intros c0 _. reflexivity.
      * intros K Ht. apply attrs_conn_drop_in. intros ->. apply Ht. now left.
      * exact (iv_root s I).
      * exact (iv_ann s I).
      * intros K c' Hin. apply (iv_hold s I). apply in_app_or in Hin as [Hin|Hin]; apply in_or_app;
          [left; eapply In_rm1; exact Hin|now right].
    + apply (act_frame_inv s i (AConnDrop c K0) r (ss_conns s) (ss_in s) (rm1 K0 c (ss_out s)) (ss_root s) I Hn).
      * reflexivity.
      * intros c0 _. reflexivity.
      * intros K Ht. apply attrs_conn_drop_out. intros ->. apply Ht. now left.
      * exact (iv_root s I).
      * exact (iv_ann s I).
      * intros K c' Hin. apply (iv_hold s I). apply in_app_or in Hin as [Hin|Hin]; apply in_or_app;
          [now left|right; eapply In_rm1; exact Hin].
  - (* APend *)
    eexists. split; [reflexivity|].
    apply (act_frame_inv s i (APend c d) r (map (set_pend c d) (ss_conns s)) (ss_in s) (ss_out s) (ss_root s) I Hn).
    + reflexivity.
    + intros c0 _. apply conn_keys_map.
    + intros K Ht. apply attrs_pend. intros e He Hh Ec.
      destruct e as [K' c']. cbn in Ec, Hh. subst c'. unfold holds in Hh. cbn in Hh. apply bytes_eqb_eq in Hh. subst K'.
      assert (Hin : In (K, c) (ss_in s ++ ss_out s)).
      { apply in_app_or in He as [He|He]; apply in_or_app; auto. }
      destruct (iv_hold s I K c Hin) as (ann & dial & Eck & Hk). apply Ht. cbn [touched]. rewrite Eck.
      destruct Hk as [->|[Ha ->]]; [now left|]. rewrite Ha. right. now left.
    + exact (iv_root s I).
    + intros x Hx. apply in_map_iff in Hx as (x0 & <- & Hx0). pose proof (iv_ann s I x0 Hx0) as A.
      unfold set_pend. destruct (sc_id x0 =? c); exact A.
    + intros K c' Hin. destruct (iv_hold s I K c' Hin) as (ann & dial & Eck & Hk). exists ann, dial.
      split; [|exact Hk]. rewrite conn_keys_map. exact Eck.
  - (* AResUpd *)
    unfold on_list. destruct (nth_error (ss_lists s) j0) as [cl|] eqn:Ej0.
    + destruct (pl_update_scores (cl_pl cl) K0 (live_score s cl K0)) as (l' & E & W & Ke & S).
      { pose proof (iv_wf s I) as Wf. rewrite Forall_forall in Wf. apply Wf. eapply nth_error_In; exact Ej0. }
      rewrite E. eexists. split; [reflexivity|].
      apply (act_list_inv s i (AResUpd j0 K0) r j0 cl (mkCL l' (cl_strat cl)) (ss_root s) I Hn Ej0 W).
      * auto.
      * intros K HK. cbn in HK. rewrite Ke in HK. eapply (iv_root s I); [eapply nth_error_In; exact Ej0|exact HK].
      * intros K sc Hin. cbn [cl_pl cl_strat] in *. destruct (S K sc Hin) as [[-> ->]|[Hne Hold]]; [left; reflexivity|right].
        split; [reflexivity|]. split; [exact Hold|]. cbn. rewrite Nat.eqb_refl. cbn. apply bytes_eqb_neq. congruence.
      * intros j K Hne. cbn. destruct (Nat.eqb_spec j0 j); [congruence|reflexivity].
    + eexists. split; [reflexivity|]. eapply act_noop_inv; [exact I|exact Hn|].
      intros j cl K sc Hj _. cbn. destruct (Nat.eqb_spec j0 j) as [->|]; [congruence|reflexivity].
  - (* AAddLocked *)
    destruct (nth_error (ss_lists s) j0) as [cl|] eqn:Ej0.
    + destruct (mem K0 (pl_keys (cl_pl cl))) eqn:Em.
      * eexists. split; [reflexivity|]. eapply act_noop_inv; [exact I|exact Hn|]. intros; reflexivity.
      * apply mem_false in Em.
        destruct (pl_add_spec (cl_pl cl) K0 (live_score s cl K0) d1 d2) as (l' & n & E & W & _ & Hnew).
        { pose proof (iv_wf s I) as Wf. rewrite Forall_forall in Wf. apply Wf. eapply nth_error_In; exact Ej0. }
        destruct (Hnew Em) as (Ke & _ & _ & _ & P & _).
        rewrite E. eexists. split; [reflexivity|].
        apply (act_list_inv s i (AAddLocked j0 K0 d1 d2) r j0 cl (mkCL l' (cl_strat cl)) (root_add K0 (ss_root s)) I Hn Ej0 W).
        -- intros K HK. now apply root_add_incl.
        -- intros K HK. cbn in HK. rewrite Ke in HK. apply in_app_or in HK as [HK|[<-|[]]]; [|apply root_add_in].
           apply root_add_incl. eapply (iv_root s I); [eapply nth_error_In; exact Ej0|exact HK].
        -- intros K sc Hin. cbn [cl_pl cl_strat] in *. apply (Permutation_in _ P) in Hin as [Eq|Hold].
           ++ inversion Eq; subst. left. reflexivity.
           ++ right. auto.
        -- reflexivity.
    + eexists. split; [reflexivity|]. eapply act_noop_inv; [exact I|exact Hn|]. intros; reflexivity.
  - (* ARemove *)
    unfold on_list. destruct (nth_error (ss_lists s) j0) as [cl|] eqn:Ej0.
    + destruct (pl_remove_spec (cl_pl cl) K0) as (l' & ok & E & W & Hf & Ht).
      { pose proof (iv_wf s I) as Wf. rewrite Forall_forall in Wf. apply Wf. eapply nth_error_In; exact Ej0. }
      rewrite E. eexists. split; [reflexivity|].
      apply (act_list_inv s i (ARemove j0 K0) r j0 cl (mkCL l' (cl_strat cl)) (ss_root s) I Hn Ej0 W).
      * auto.
      * intros K HK. cbn in HK. eapply (iv_root s I); [eapply nth_error_In; exact Ej0|].
        destruct ok; [destruct (Ht eq_refl) as (_ & Ke & _); rewrite Ke in HK; now apply del_In in HK|].
        destruct (Hf eq_refl) as [-> _]. exact HK.
      * intros K sc Hin. cbn [cl_pl cl_strat] in *. right. split; [reflexivity|]. split; [|reflexivity].
        destruct ok; [|destruct (Hf eq_refl) as [-> _]; exact Hin].
        destruct (Ht eq_refl) as (_ & _ & _ & _ & x & _ & P). unfold peers_of in *. rewrite map_hs_ident in *.
        eapply Permutation_in; [apply Permutation_sym, (Permutation_map proj_hs), P|]. cbn. now right.
      * reflexivity.
    + eexists. split; [reflexivity|]. eapply act_noop_inv; [exact I|exact Hn|]. intros; reflexivity.
  - (* ASetStrategy *)
    unfold on_list. destruct (nth_error (ss_lists s) j0) as [cl|] eqn:Ej0.
    + destruct (pl_set_strategy_scores (cl_pl cl) (fun hp => calc strat (s_attrs s hp)) order) as (l' & E & W & Ke & S).
      { pose proof (iv_wf s I) as Wf. rewrite Forall_forall in Wf. apply Wf. eapply nth_error_In; exact Ej0. }
      rewrite E. eexists. split; [reflexivity|].
      apply (act_list_inv s i (ASetStrategy j0 strat order) r j0 cl (mkCL l' strat) (ss_root s) I Hn Ej0 W).
      * auto.
      * intros K HK. cbn in HK. rewrite Ke in HK. eapply (iv_root s I); [eapply nth_error_In; exact Ej0|exact HK].
      * intros K sc Hin. left. cbn [cl_pl cl_strat] in *. exact (S K sc Hin).
      * reflexivity.
    + eexists. split; [reflexivity|]. eapply act_noop_inv; [exact I|exact Hn|]. intros; reflexivity.
  - (* AGet *)
    unfold on_list. destruct (nth_error (ss_lists s) j0) as [cl|] eqn:Ej0.
    + assert (Wcl : wf (cl_pl cl)).
      { pose proof (iv_wf s I) as Wf. rewrite Forall_forall in Wf. apply Wf. eapply nth_error_In; exact Ej0. }
      pose proof (get_min_eligible (cl_pl cl) prev d Wcl) as G.
      destruct (pl_get (cl_pl cl) prev d) as [[[l' res] n]|]; [|contradiction].
      assert (Hl : wf l' /\ pl_keys l' = pl_keys (cl_pl cl) /\ Permutation (peers_of l') (peers_of (cl_pl cl))).
      { destruct res as [p| |]; [destruct G as (_ & W & Ke & P); auto|destruct G as [_ ->]; auto|contradiction]. }
      destruct Hl as (W & Ke & P). eexists. split; [reflexivity|].
      apply (act_list_inv s i (AGet j0 prev d) r j0 cl (mkCL l' (cl_strat cl)) (ss_root s) I Hn Ej0 W).
      * auto.
      * intros K HK. cbn in HK. rewrite Ke in HK. eapply (iv_root s I); [eapply nth_error_In; exact Ej0|exact HK].
      * intros K sc Hin. right. cbn [cl_pl cl_strat] in *. split; [reflexivity|]. split; [|reflexivity].
        eapply Permutation_in; eassumption.
      * reflexivity.
    + eexists. split; [reflexivity|]. eapply act_noop_inv; [exact I|exact Hn|]. intros; reflexivity.
  - (* AGetNew *)
    unfold on_list. destruct (nth_error (ss_lists s) j0) as [cl|] eqn:Ej0.
    + assert (Wcl : wf (cl_pl cl)).
      { pose proof (iv_wf s I) as Wf. rewrite Forall_forall in Wf. apply Wf. eapply nth_error_In; exact Ej0. }
      pose proof (getnew_min_eligible (cl_pl cl) prev d Wcl) as G.
      destruct (pl_getnew (cl_pl cl) prev d) as [[[l' res] n]|]; [|contradiction].
      assert (Hl : wf l' /\ pl_keys l' = pl_keys (cl_pl cl) /\ Permutation (peers_of l') (peers_of (cl_pl cl))).
      { destruct res as [p| |]; [destruct G as (_ & W & Ke & P); auto|destruct G as [_ ->]; auto|
          destruct G as (_ & _ & W & Ke & P); auto]. }
      destruct Hl as (W & Ke & P). eexists. split; [reflexivity|].
      apply (act_list_inv s i (AGetNew j0 prev d) r j0 cl (mkCL l' (cl_strat cl)) (ss_root s) I Hn Ej0 W).
      * auto.
      * intros K HK. cbn in HK. rewrite Ke in HK. eapply (iv_root s I); [eapply nth_error_In; exact Ej0|exact HK].
      * intros K sc Hin. right. cbn [cl_pl cl_strat] in *. split; [reflexivity|]. split; [|reflexivity].
        eapply Permutation_in; eassumption.
      * reflexivity.
    + eexists. split; [reflexivity|]. eapply act_noop_inv; [exact I|exact Hn|]. intros; reflexivity.
  - (* ACollect *)
    destruct (can_remove s K0) eqn:Ec; (eexists; split; [reflexivity|]).
    + apply (act_frame_inv s i (ACollect K0) r (ss_conns s) (ss_in s) (ss_out s) (del K0 (ss_root s)) I Hn).
      * reflexivity.
      * intros c0 _. reflexivity.
      * intros K _. reflexivity.
      * intros cl K Hcl HK. apply del_In. split; [eapply (iv_root s I); eassumption|].
        intros ->. unfold can_remove in Ec. apply andb_true_iff in Ec as [_ Ec]. rewrite forallb_forall in Ec.
        specialize (Ec cl Hcl). apply negb_true_iff in Ec. apply mem_false in Ec. contradiction.
      * exact (iv_ann s I).
      * exact (iv_hold s I).
    + apply (act_frame_inv s i (ACollect K0) r (ss_conns s) (ss_in s) (ss_out s) (ss_root s) I Hn).
      * reflexivity.
      * intros c0 _. reflexivity.
      * intros K _. reflexivity.
      * exact (iv_root s I).
      * exact (iv_ann s I).
      * exact (iv_hold s I).
Qed.

(* ---------------------------------------------------------------- every step, every spawn *)

Lemma sstep_inv s i : sinv s -> exists s', sstep s i = Some s' /\ sinv s'.
Proof.
  intros I. unfold sstep. destruct (nth_error (ss_thr s) i) as [[|[[a|j K]|g body] r]|] eqn:Hn.
  - eauto.
  - destruct (step_act_inv s i a r I Hn) as (s1 & E & I1). rewrite E. eauto.
  - pose proof (step_upd_inv s i j K r I Hn) as I1.
    destruct (j <? length (ss_lists s))%nat; eauto.
  - pose proof (step_if_inv s i g body r I Hn) as I1. eauto.
  - eauto.
Qed.

Lemma owed_app j K a b : owed j K (a ++ b) = owed j K a || owed j K b.
Proof. apply existsb_app. Qed.

Lemma add_thr_inv s t : sinv s -> good (ck_of s) t = true -> sinv (add_thr s t).
Proof.
  intros [W R A H E T] Hg. split; cbn; try assumption.
  - intros j cl K sc Hj Hin. destruct (E j cl K sc Hj Hin) as [Ef|Eo]; [left; exact Ef|right].
    unfold add_thr. cbn [with_thr ss_thr]. rewrite owed_app, Eo. reflexivity.
  - apply Forall_app. split; [exact T|]. constructor; [exact Hg|constructor].
Qed.

Lemma conn_keys_snoc ct x c : conn_keys ct c <> None -> conn_keys (ct ++ [x]) c = conn_keys ct c.
Proof.
  unfold conn_keys. intros Hne. rewrite find_conn_snoc; [reflexivity|].
  destruct (find_conn ct c); congruence.
Qed.

Lemma add_conn_inv s x : sinv s -> find_conn (ss_conns s) (sc_id x) = None -> is_nil (sc_ann x) = false ->
  sinv (add_conn s x) /\ ck_of (add_conn s x) (sc_id x) = Some (sc_ann x, sc_dial x).
Proof.
  intros I Hnew Hann. split.
  - assert (Hck : forall c, ck_of s c <> None -> conn_keys (ss_conns s ++ [x]) c = ck_of s c).
    { intros c Hc. now apply conn_keys_snoc. }
    assert (Hat : forall K, s_attrs (add_conn s x) K = s_attrs s K).
    { intros K. unfold s_attrs, add_conn. cbn [ss_conns ss_in ss_out].
      assert (Hp : forall e, In e (ss_out s ++ ss_in s) -> conn_pend (ss_conns s ++ [x]) (snd e) = conn_pend (ss_conns s) (snd e)).
      { intros [K' c'] He. cbn [snd]. unfold conn_pend. rewrite find_conn_snoc; [reflexivity|].
        assert (Hin : In (K', c') (ss_in s ++ ss_out s)) by (apply in_app_or in He as [He|He]; apply in_or_app; auto).
        destruct (iv_hold s I K' c' Hin) as (ann & dial & Eck & _). unfold ck_of, conn_keys in Eck.
        destruct (find_conn (ss_conns s) c'); congruence. }
      f_equal; f_equal.
      - apply map_ext_in. intros e He. apply filter_In in He as [He _]. now apply Hp.
      - f_equal. apply map_ext_in. intros e He. apply filter_In in He as [He _]. now apply Hp. }
    destruct I as [W R A H E T]. split; cbn [add_conn ss_conns ss_in ss_out ss_root ss_lists ss_thr]; try assumption.
    + intros y Hy. apply in_app_or in Hy as [Hy|[<-|[]]]; [now apply A|exact Hann].
    + intros K c Hin. destruct (H K c Hin) as (ann & dial & Eck & Hk). exists ann, dial. split; [|exact Hk].
      unfold ck_of. cbn [ss_conns]. rewrite Hck; [exact Eck|congruence].
    + intros j cl K sc Hj Hin. destruct (E j cl K sc Hj Hin) as [Ef|Eo]; [left|right; exact Eo].
      unfold live_score in *. rewrite Ef. f_equal. symmetry. apply Hat.
    + rewrite Forall_forall in T |- *. intros t Ht. apply (good_stable (ck_of s) _ Hck). now apply T.
  - unfold ck_of, conn_keys, add_conn. cbn [ss_conns]. now rewrite find_conn_snoc_new.
Qed.

Lemma good_add_to_peer ck c K inb r :
  (match ck c with Some (ann, dial) => bytes_eqb K ann || (alias_of ann dial && bytes_eqb K dial) | None => false end) = true ->
  good ck r = true -> good ck (add_to_peer c K inb ++ r) = true.
Proof.
  intros H Hr. cbn [add_to_peer app good act_conn_ok touched forallb upd0 existsb upd0_i is_upd0].
  apply andb_true_iff. split; [|exact Hr]. apply andb_true_iff. split; [exact H|].
  rewrite bytes_eqb_refl. reflexivity.
Qed.

Lemma good_close_block ck c K r : good ck r = true -> good ck (close_block c K :: r) = true.
Proof.
  intros Hr. cbn [close_block good cov_b act_conn_ok touched forallb upd0_b existsb is_upd0 guard_okb].
  rewrite bytes_eqb_refl, Hr. reflexivity.
Qed.
Lemma good_exch_block ck K r : good ck r = true -> good ck (exch_block K :: r) = true.
Proof. intros Hr. cbn [exch_block good cov_b guard_okb forallb]. rewrite bytes_eqb_refl, Hr. reflexivity. Qed.
Lemma upd0_exch_block K r : upd0 K (exch_block K :: r) = true.
Proof. cbn. now rewrite bytes_eqb_refl. Qed.

Lemma good_prog_exch ck c ann dial d : ck c = Some (ann, dial) -> is_nil ann = false ->
  good ck (prog_exch c ann dial d) = true.
Proof.
  intros Hc Hn. unfold prog_exch, exch_updated, exch_block. rewrite Hn.
  destruct (alias_of ann dial) eqn:Ea;
    cbn [good cov_b guard_okb forallb act_conn_ok touched upd0 existsb upd0_i guard_about upd0_b is_upd0];
    rewrite Hc, Ea; cbn [forallb]; rewrite !bytes_eqb_refl; cbn; rewrite ?orb_true_r; reflexivity.
Qed.

Lemma spawn_inv s op : sinv s -> sinv (spawn s op).
Proof.
  intros I. destruct op as [c ann dial|c ann|c|c d|j K d1 d2|j K|j strat order|j prev d|j prev d|K]; cbn [spawn].
  - (* OConnect *)
    destruct (known_conn s c || is_nil ann || is_nil dial) eqn:Ek; [exact I|].
    apply orb_false_iff in Ek as [Ek Ed]. apply orb_false_iff in Ek as [Ek Ea].
    assert (Hnew : find_conn (ss_conns s) c = None) by (unfold known_conn in Ek; destruct (find_conn (ss_conns s) c); [discriminate|reflexivity]).
    destruct (add_conn_inv s (mkSC c ann dial 0) I Hnew Ea) as [I1 Eck]. cbn [sc_id sc_ann sc_dial] in Eck.
    apply add_thr_inv; [exact I1|]. unfold prog_connect.
    apply good_add_to_peer; [rewrite Eck, bytes_eqb_refl; reflexivity|].
    destruct (bytes_eqb dial ann) eqn:Eda; cbn [negb]; [reflexivity|].
    rewrite <- (app_nil_r (add_to_peer c dial false)). apply good_add_to_peer; [|reflexivity].
    rewrite Eck. unfold alias_of. rewrite Ed, Eda, bytes_eqb_refl. reflexivity.
  - (* OAccept *)
    destruct (known_conn s c || is_nil ann) eqn:Ek; [exact I|].
    apply orb_false_iff in Ek as [Ek Ea].
    assert (Hnew : find_conn (ss_conns s) c = None) by (unfold known_conn in Ek; destruct (find_conn (ss_conns s) c); [discriminate|reflexivity]).
    destruct (add_conn_inv s (mkSC c ann [] 0) I Hnew Ea) as [I1 Eck]. cbn [sc_id sc_ann sc_dial] in Eck.
    apply add_thr_inv; [exact I1|]. unfold prog_accept.
    rewrite <- (app_nil_r (add_to_peer c ann true)). apply good_add_to_peer; [|reflexivity].
    rewrite Eck, bytes_eqb_refl. reflexivity.
  - (* OClose *)
    destruct (find_conn (ss_conns s) c) as [x|] eqn:Ef; [|exact I].
    apply add_thr_inv; [exact I|]. unfold prog_close. apply good_close_block.
    destruct (alias_of (sc_ann x) (sc_dial x)); [apply good_close_block|]; reflexivity.
  - (* OExch *)
    destruct (find_conn (ss_conns s) c) as [x|] eqn:Ef; [|exact I].
    apply add_thr_inv; [exact I|].
    destruct (find_conn_id _ _ _ Ef) as [_ Hx].
    apply good_prog_exch; [unfold ck_of, conn_keys; now rewrite Ef|exact (iv_ann s I x Hx)].
  - destruct (is_nil K); [exact I|]. apply add_thr_inv; [exact I|reflexivity].
  - apply add_thr_inv; [exact I|reflexivity].
  - apply add_thr_inv; [exact I|reflexivity].
  - apply add_thr_inv; [exact I|reflexivity].
  - apply add_thr_inv; [exact I|reflexivity].
  - apply add_thr_inv; [exact I|reflexivity].
Qed.

Lemma sev_inv s e : sinv s -> exists s', sev s e = Some s' /\ sinv s'.
Proof.
  intros I. destruct e as [op|i]; cbn [sev].
  - eexists. split; [reflexivity|now apply spawn_inv].
  - now apply sstep_inv.
Qed.

Lemma srun_inv es : forall s, sinv s -> exists s', srun s es = Some s' /\ sinv s'.
Proof.
  induction es as [|e r IH]; intros s I; cbn [srun]; [eauto|].
  destruct (sev_inv s e I) as (s1 & E & I1). rewrite E. now apply IH.
Qed.

(* ================================================================ 5. the theorems *)

(* no schedule makes the model panic *)
Theorem srun_total n es : exists s, srun (s_init n) es = Some s.
Proof. destruct (srun_inv es (s_init n) (sinv_init n)) as (s & E & _). eauto. Qed.

Lemma reach_inv n es s : srun (s_init n) es = Some s -> sinv s.
Proof. intros E. destruct (srun_inv es (s_init n) (sinv_init n)) as (s' & E' & I). congruence. Qed.

(* at every moment: a stored score is the live one, or a running operation still has the
   re-scoring of exactly this entry ahead *)
Theorem score_fresh_or_owed n es s : srun (s_init n) es = Some s ->
  forall j cl x, nth_error (ss_lists s) j = Some cl -> In x (pl_arr (cl_pl cl)) ->
    ps_score x = live_score s cl (ps_hp x) \/
    exists t, In t (ss_thr s) /\ owes j (ps_hp x) t = true.
Proof.
  intros E j cl x Hj Hx. pose proof (reach_inv n es s E) as I.
  assert (Hin : In (ps_hp x, ps_score x) (peers_of (cl_pl cl))).
  { unfold peers_of. apply in_map_iff. exists x. split; [reflexivity|exact Hx]. }
  destruct (iv_entries s I j cl _ _ Hj Hin) as [Ef|Eo]; [left; exact Ef|right].
  unfold owed in Eo. apply existsb_exists in Eo. exact Eo.
Qed.

Lemma quiescent_owed s j K : quiescent s = true -> owed j K (ss_thr s) = false.
Proof.
  unfold quiescent, owed. intros Q. rewrite forallb_forall in Q.
  destruct (existsb (owes j K) (ss_thr s)) eqn:E; [|reflexivity].
  apply existsb_exists in E as (t & Ht & Eo). specialize (Q t Ht). destruct t; [discriminate Eo|discriminate Q].
Qed.

(* FRESHNESS: whenever no operation is running, every list holds for every member exactly the
   score its calculator gives the member's live state *)
Theorem score_fresh_quiescent n es s : srun (s_init n) es = Some s -> quiescent s = true ->
  forall cl x, In cl (ss_lists s) -> In x (pl_arr (cl_pl cl)) -> ps_score x = live_score s cl (ps_hp x).
Proof.
  intros E Q cl x Hcl Hx. apply In_nth_error in Hcl as [j Hj].
  destruct (score_fresh_or_owed n es s E j cl x Hj Hx) as [Ef|(t & Ht & Eo)]; [exact Ef|].
  pose proof (quiescent_owed s j (ps_hp x) Q) as Hno. unfold owed in Hno.
  assert (existsb (owes j (ps_hp x)) (ss_thr s) = true) by (apply existsb_exists; eauto). congruence.
Qed.

(* hence selection at a quiescent moment returns a peer whose LIVE score is minimal among the
   eligible members (Spec/PeerSelect.v), for every list of the channel *)
Theorem get_least_loaded_live n es s : srun (s_init n) es = Some s -> quiescent s = true ->
  forall cl prev d, In cl (ss_lists s) ->
    match pl_get (cl_pl cl) prev d with
    | Some (_, SelOk p, _) =>
        least_loaded (eligible_get prev (pl_keys (cl_pl cl)))
                     (map (fun x => (ps_hp x, live_score s cl (ps_hp x))) (pl_arr (cl_pl cl))) p
    | Some (_, SelNoPeers, _) => pl_keys (cl_pl cl) = []
    | _ => False
    end.
Proof.
  intros E Q cl prev d Hcl. pose proof (reach_inv n es s E) as I.
  assert (W : wf (cl_pl cl)) by (pose proof (iv_wf s I) as Wf; rewrite Forall_forall in Wf; now apply Wf).
  pose proof (get_min_eligible (cl_pl cl) prev d W) as G.
  destruct (pl_get (cl_pl cl) prev d) as [[[l' res] k]|]; [|exact G].
  destruct res as [p| |]; [|exact (proj1 G)|exact G].
  destruct G as (LL & _). unfold peers_of in LL.
  rewrite (map_ext_in hs (fun x => (ps_hp x, live_score s cl (ps_hp x)))) in LL; [exact LL|].
  intros x Hx. unfold hs. f_equal. exact (score_fresh_quiescent n es s E Q cl x Hcl Hx).
Qed.

(* ================================================================ 6. sequential histories (the harness entry point) *)

Fixpoint seq_run (s : sstate) (ops : list sop) : option sstate :=
  match ops with
  | [] => Some s
  | op :: r => match seq_op s op with Some s' => seq_run s' r | None => None end
  end.

Lemma srun_app a : forall s b, srun s (a ++ b) = match srun s a with Some s' => srun s' b | None => None end.
Proof. induction a as [|e r IH]; intros s b; cbn [app srun]; [reflexivity|]. destruct (sev s e); [apply IH|reflexivity]. Qed.

Lemma seq_run_srun ops : forall s s', seq_run s ops = Some s' -> exists es, srun s es = Some s'.
Proof.
  induction ops as [|op r IH]; intros s s' E; cbn [seq_run] in E.
  - exists []. exact E.
  - destruct (seq_op s op) as [s1|] eqn:E1; [|discriminate]. destruct (IH s1 s' E) as [es Es].
    exists (seq_events s op ++ es). rewrite srun_app. unfold seq_op in E1. now rewrite E1.
Qed.

(* what run_c15score prints after every operation is the specification: stored = live *)
Theorem seq_fresh n ops s : seq_run (s_init n) ops = Some s -> quiescent s = true ->
  forall cl x, In cl (ss_lists s) -> In x (pl_arr (cl_pl cl)) -> ps_score x = live_score s cl (ps_hp x).
Proof.
  intros E Q. destruct (seq_run_srun ops _ _ E) as [es Es]. exact (score_fresh_quiescent n es s Es Q).
Qed.

Theorem seq_total n ops : exists s, seq_run (s_init n) ops = Some s.
Proof.
  assert (H : forall ops s, sinv s -> exists s', seq_run s ops = Some s').
  { clear. induction ops as [|op r IH]; intros s I; cbn [seq_run]; [eauto|].
    destruct (srun_inv (seq_events s op) s I) as (s1 & E1 & I1). unfold seq_op. rewrite E1. now apply IH. }
  apply H, sinv_init.
Qed.

(* ================================================================ 7. the obligation is needed: uncovered programs go stale *)

(* run a thread with program p from state s to its end *)
Definition run_prog (s : sstate) (p : list sinstr) : option sstate :=
  srun (add_thr s p) (repeat (EStep (length (ss_thr s))) 40).

Definition stale_entries (s : sstate) : list (nat * hostport * Z * Z) :=
  flat_map (fun jc => let '(j, cl) := jc in
     flat_map (fun x => if ps_score x =? live_score s cl (ps_hp x) then []
                        else [(j, ps_hp x, ps_score x, live_score s cl (ps_hp x))]) (pl_arr (cl_pl cl)))
    (combine (seq 0 (length (ss_lists s))) (ss_lists s)).

(* peers "r" (announced) and "a" (the address dialled: a forwarder in front of r) *)
Definition hp_r : hostport := [114].
Definition hp_a : hostport := [97].

(* the alias peer is in the channel's list and connected through the forwarder *)
Definition alias_setup : list sop := [OAdd 0 hp_a 0 0; OAdd 0 hp_r 0 0; OConnect 1 hp_r hp_a].

(* connectionCloseStateChange with "drop from every peer, then re-score once" (only the announced peer) *)
Definition close_rescore_once : list sinstr :=
  [IIf (GRoot hp_r) [BAct (AConnDrop 1 hp_r)]; IIf (GRoot hp_a) [BAct (AConnDrop 1 hp_a)]; IIf (GRoot hp_r) [BUpd 0 hp_r]].

(* exchangeUpdated that re-scores the announced peer only *)
Definition exch_announced_only : list sinstr := [IB (BAct (APend 1 1)); IIf (GRoot hp_r) [BUpd 0 hp_r]].

Lemma uncovered_close_goes_stale :
  match seq_run (s_init 0) alias_setup with
  | Some s0 =>
      stale_entries s0 = [] /\ good (ck_of s0) close_rescore_once = false /\
      match run_prog s0 close_rescore_once with
      | Some s1 => quiescent s1 = true /\ stale_entries s1 = [(0%nat, hp_a, 2 ^ 31 - 1, 2 ^ 64 - 1)]
      | None => False
      end
  | None => False
  end.
Proof. vm_compute. repeat split; reflexivity. Qed.

Lemma uncovered_exch_goes_stale :
  match seq_run (s_init 0) alias_setup with
  | Some s0 =>
      good (ck_of s0) exch_announced_only = false /\
      match run_prog s0 exch_announced_only with
      | Some s1 => quiescent s1 = true /\ stale_entries s1 = [(0%nat, hp_a, 2 ^ 31 - 1, 2 ^ 31)]
      | None => False
      end
  | None => False
  end.
Proof. vm_compute. repeat split; reflexivity. Qed.

(* the covered programs of the model on the same history: nothing stale *)
Lemma covered_close_stays_fresh :
  match seq_run (s_init 0) (alias_setup ++ [OExch 1 1; OExch 1 1; OExch 1 (-1); OClose 1]) with
  | Some s =>
      quiescent s = true /\ stale_entries s = [] /\
      map (fun x => (ps_hp x, ps_score x)) (flat_map (fun cl => pl_arr (cl_pl cl)) (ss_lists s)) =
        [(hp_r, 2 ^ 64 - 1); (hp_a, 2 ^ 64 - 1)]
  | None => False
  end.
Proof. vm_compute. repeat split; reflexivity. Qed.

(* ================================================================ 8. the family: ANY covered program *)

(* besides the operations of the model, any thread program may be started, provided it is
   COVERED ([good]): every change of a peer's connections / pending calls is followed, in the same
   thread, by Channel.updatePeer of that very peer (possibly behind a root-list lookup of the same
   host:port), connections are only added to the peers of their announced / dialled host:port, and
   a failed test skips re-scorings of its own subject only.  An uncovered program is not started. *)
Inductive gevent :=
| GEv (e : sevent)
| GProg (p : list sinstr).

Definition gev (s : sstate) (g : gevent) : option sstate :=
  match g with
  | GEv e => sev s e
  | GProg p => Some (if good (ck_of s) p then add_thr s p else s)
  end.

Fixpoint grun (s : sstate) (gs : list gevent) : option sstate :=
  match gs with
  | [] => Some s
  | g :: r => match gev s g with Some s' => grun s' r | None => None end
  end.

Lemma grun_inv gs : forall s, sinv s -> exists s', grun s gs = Some s' /\ sinv s'.
Proof.
  induction gs as [|g r IH]; intros s I; cbn [grun]; [eauto|].
  destruct g as [e|p]; cbn [gev].
  - destruct (sev_inv s e I) as (s1 & E & I1). rewrite E. now apply IH.
  - apply IH. destruct (good (ck_of s) p) eqn:Eg; [now apply add_thr_inv|exact I].
Qed.

Theorem covered_programs_fresh n gs s : grun (s_init n) gs = Some s -> quiescent s = true ->
  forall cl x, In cl (ss_lists s) -> In x (pl_arr (cl_pl cl)) -> ps_score x = live_score s cl (ps_hp x).
Proof.
  intros E Q cl x Hcl Hx.
  destruct (grun_inv gs (s_init n) (sinv_init n)) as (s' & E' & I). rewrite E in E'. inversion E'; subst s'.
  apply In_nth_error in Hcl as [j Hj].
  assert (Hin : In (ps_hp x, ps_score x) (peers_of (cl_pl cl))).
  { unfold peers_of. apply in_map_iff. exists x. split; [reflexivity|exact Hx]. }
  destruct (iv_entries s I j cl _ _ Hj Hin) as [Ef|Eo]; [exact Ef|].
  rewrite (quiescent_owed s j (ps_hp x) Q) in Eo. discriminate.
Qed.

Theorem covered_programs_total n gs : exists s, grun (s_init n) gs = Some s.
Proof. destruct (grun_inv gs (s_init n) (sinv_init n)) as (s & E & _). eauto. Qed.
