(* Proofs about the per-frame dispatch model Model/PeerInput.v (C03): every iteration of the
   reader loop has one of a few outcomes ([outcome]); the theorems of Props/C03.v are read off
   that classification. *)
From Coq Require Import ZArith List Bool Lia ZifyBool.
From Verif Require Import Base.Wrap Base.Bytes Base.Wire Gen.GenConsts Gen.GenFrame Model.TypedBuf Model.Messages
  Model.Crc Model.Frag Model.FragWire Model.PeerInput Proofs.CodecP Proofs.CodecsP Proofs.PeerInputP.
Import ListNotations.
Local Open Scope Z_scope.

(* ---------------- the exchange maps ---------------- *)
Lemma mx_put_keys id e m : mx_keys (mx_put id e m) = mx_keys m.
Proof.
  induction m as [|[k e0] m IH]; [reflexivity|]. cbn [mx_put]. destruct (k =? id); cbn [mx_keys map fst] in *; [reflexivity|].
  f_equal. exact IH.
Qed.
Lemma mx_put_other id id' e m : id' <> id -> mx_lookup id' (mx_put id e m) = mx_lookup id' m.
Proof.
  intros Hne. induction m as [|[k e0] m IH]; [reflexivity|]. cbn [mx_put]. destruct (k =? id) eqn:E.
  - cbn [mx_lookup]. destruct (k =? id') eqn:E'; [lia|reflexivity].
  - cbn [mx_lookup]. destruct (k =? id'); [reflexivity|exact IH].
Qed.
Lemma notify_keys m : mx_keys (notify_all m) = mx_keys m.
Proof. unfold mx_keys, notify_all. rewrite map_map. apply map_ext. intros [k e]. reflexivity. Qed.
Lemma notify_lookup id m : mx_lookup id (notify_all m) = option_map mx_set_err (mx_lookup id m).
Proof.
  induction m as [|[k e] m IH]; [reflexivity|]. cbn [notify_all map fst snd mx_lookup].
  destruct (k =? id); [reflexivity|exact IH].
Qed.

(* ---------------- close machinery ---------------- *)
Definition st_code_ok (s : Z) : Prop :=
  s = c_connectionActive \/ s = c_connectionStartClose \/ s = c_connectionInboundClosed \/ s = c_connectionClosed.

Lemma set_state_same st : set_state (cs_state st) st = st.
Proof. destruct st. reflexivity. Qed.

Lemma check_exchanges_shape st : exists s, check_exchanges st = set_state s st /\ (state_ok st -> st_code_ok s).
Proof.
  unfold check_exchanges.
  destruct (negb (cs_state st =? c_connectionClosed) && cs_stopped st) eqn:A.
  - (* forced to Closed *)
    cbn [cs_state set_state cs_in cs_out].
    change (c_connectionClosed =? c_connectionStartClose) with false. cbv iota.
    change (c_connectionClosed =? c_connectionInboundClosed) with false. cbv iota.
    exists c_connectionClosed. split; [reflexivity|]. intros _. unfold st_code_ok. auto.
  - destruct (cs_state st =? c_connectionStartClose) eqn:B.
    + destruct (zlen (cs_in st) =? 0) eqn:C.
      * cbn [cs_state set_state cs_in cs_out].
        change (c_connectionInboundClosed =? c_connectionInboundClosed) with true. cbv iota.
        destruct (zlen (cs_out st) =? 0).
        -- exists c_connectionClosed. split; [reflexivity|]. intros _. unfold st_code_ok. auto.
        -- exists c_connectionInboundClosed. split; [reflexivity|]. intros _. unfold st_code_ok. auto.
      * assert (cs_state st =? c_connectionInboundClosed = false) as D by (unfold c_connectionInboundClosed, c_connectionStartClose in *; lia).
        rewrite D. exists (cs_state st). split; [symmetry; apply set_state_same|]. intros H. exact H.
    + destruct (cs_state st =? c_connectionInboundClosed) eqn:D.
      * destruct (zlen (cs_out st) =? 0).
        -- exists c_connectionClosed. split; [reflexivity|]. intros _. unfold st_code_ok. auto.
        -- exists (cs_state st). split; [symmetry; apply set_state_same|]. intros H. exact H.
      * exists (cs_state st). split; [symmetry; apply set_state_same|]. intros H. exact H.
Qed.

Lemma conn_close_shape st : exists s, conn_close st = set_state s st /\ (state_ok st -> st_code_ok s).
Proof.
  unfold conn_close. destruct (cs_state st =? c_connectionActive).
  - destruct (check_exchanges_shape (set_state c_connectionStartClose st)) as [s [E H]].
    exists s. split; [rewrite E; destruct st; reflexivity|]. intros _. apply H. unfold state_ok. cbn. auto.
  - exists (cs_state st). split; [symmetry; apply set_state_same|]. intros H. exact H.
Qed.

(* what a shutdown of the connection may do to the rest of the state *)
Definition shut (st st' : cstate) : Prop :=
  (cs_in st' = cs_in st \/ cs_in st' = notify_all (cs_in st)) /\
  (cs_out st' = cs_out st \/ cs_out st' = notify_all (cs_out st)) /\
  cs_cancel st' = cs_cancel st /\ state_ok st' /\ cs_stopped st' = true.

Lemma stop_close_shut st0 st : state_ok st0 ->
  cs_in st = cs_in st0 -> cs_out st = cs_out st0 -> cs_cancel st = cs_cancel st0 -> cs_stopped st = cs_stopped st0 -> state_ok st ->
  shut st0 (stop_exchanges (conn_close st)) /\ shut st0 (check_exchanges (stop_exchanges (conn_close st))).
Proof.
  intros Hok0 Ein Eout Ec Es Hok.
  destruct (conn_close_shape st) as [s [E Hs]]. specialize (Hs Hok). rewrite E.
  assert (S1 : shut st0 (stop_exchanges (set_state s st))).
  { unfold stop_exchanges. cbn [cs_stopped set_state cs_in cs_out cs_state cs_sendroom cs_cancel].
    destruct (cs_stopped st) eqn:St.
    - unfold shut. cbn [cs_in cs_out cs_cancel cs_stopped set_state]. rewrite Ein, Eout, Ec. unfold state_ok. cbn [cs_state set_state]. auto.
    - unfold shut. cbn [cs_in cs_out cs_cancel cs_stopped]. rewrite Ein, Eout, Ec. unfold state_ok. cbn [cs_state]. auto. }
  split; [exact S1|].
  destruct (check_exchanges_shape (stop_exchanges (set_state s st))) as [s2 [E2 H2]]. rewrite E2.
  destruct S1 as [A [B [C [D F]]]]. specialize (H2 D).
  unfold shut. cbn [cs_in cs_out cs_cancel cs_stopped set_state]. unfold state_ok. cbn [cs_state set_state]. auto.
Qed.

Lemma send_system_error_shape st id code st1 e : send_system_error st id code = (st1, e) ->
  (e = [] /\ st1 = st) \/ (e = [SendFrame c_messageTypeError id code] /\ st1 = set_room (cs_sendroom st - 1) st /\ cs_sendroom st > 0).
Proof.
  unfold send_system_error. destruct (cs_state st =? c_connectionClosed); [intros H; inversion H; auto|].
  destruct (cs_sendroom st >? 0) eqn:R; intros H; inversion H; subst; [right|left]; auto.
  split; [reflexivity|]. split; [reflexivity|lia].
Qed.

Lemma connection_error_shut st st' es : state_ok st -> connection_error st = (st', es) -> es = [CloseConn] /\ shut st st'.
Proof.
  intros Hok H. unfold connection_error in H. inversion H; subst. split; [reflexivity|].
  apply (stop_close_shut st st Hok); auto.
Qed.

Lemma protocol_error_shut st id st' es : state_ok st -> protocol_error st id = (st', es) ->
  shut st st' /\ (es = [CloseConn] \/ es = [SendFrame c_messageTypeError id c_ErrCodeProtocol; CloseConn]).
Proof.
  intros Hok H. unfold protocol_error in H. destruct (send_system_error st id c_ErrCodeProtocol) as [st1 e] eqn:E.
  inversion H; subst. apply send_system_error_shape in E. destruct E as [[E1 E2]|[E1 [E2 _]]]; subst.
  - split; [apply (stop_close_shut st st Hok); auto|left; reflexivity].
  - split; [|right; reflexivity].
    apply (stop_close_shut st (set_room (cs_sendroom st - 1) st) Hok); auto.
Qed.

(* a call req accepted by parseInboundFragment carries a known checksum type: the pool lookup
   checksumType.New() in handleCallReq cannot go out of range *)
Lemma pif_ctype_known payload ct : bytes_ok payload = true -> parse_inbound_fragment payload = (0, ct) -> ck_new ct <> None.
Proof.
  intros Hb. unfold parse_inbound_fragment. destruct (r_u8 (rb payload)) as [flags r0] eqn:E0.
  assert (B0 : bytes_ok (rrem r0) = true).
  { pose proof (suffix_bytes_ok r_u8 (rb payload) (suffix_uint 1) Hb) as X. rewrite E0 in X. exact X. }
  pose proof (suffix_bytes_ok r_callreq r0 suffix_callreq B0) as B1.
  destruct (rerr (snd (r_callreq r0))); [discriminate|].
  destruct (r_u8 (snd (r_callreq r0))) as [c r2] eqn:E1.
  pose proof (r_u8_range _ _ _ B1 E1) as Rct.
  destruct (c >=? c_checksumCount) eqn:G; [discriminate|].
  destruct (r_bytes (Z.to_nat (ChecksumSize c)) r2) as [ck r3]. destruct (rerr r3); [discriminate|].
  intros H. inversion H; subst. unfold ck_new.
  replace ((ct <? 0) || (ct >=? c_checksumCount)) with false by lia.
  destruct (ct =? c_ChecksumTypeCrc32); [discriminate|]. destruct (ct =? c_ChecksumTypeCrc32C); discriminate.
Qed.

(* ---------------- the outcomes of one reader iteration ---------------- *)
Inductive outcome (st : cstate) (mt id : Z) (payload : list Z) : cstate -> list effect -> Prop :=
| O_drop : frame_legal st mt id payload = false -> outcome st mt id payload st [Drop]
| O_declined : frame_legal st mt id payload = false -> cs_sendroom st > 0 ->
    outcome st mt id payload (set_room (cs_sendroom st - 1) st) [SendFrame c_messageTypeError id c_ErrCodeDeclined]
| O_close st' es : frame_legal st mt id payload = false -> shut st st' ->
    (es = [CloseConn] \/ es = [SendFrame c_messageTypeError id c_ErrCodeProtocol; CloseConn]) ->
    outcome st mt id payload st' es
| O_pong_full st' : mt = c_messageTypePingReq -> cs_state st <> c_connectionClosed -> cs_sendroom st <= 0 -> shut st st' ->
    outcome st mt id payload st' [CloseConn]
| O_pong : mt = c_messageTypePingReq -> cs_state st <> c_connectionClosed -> cs_sendroom st > 0 ->
    outcome st mt id payload (set_room (cs_sendroom st - 1) st) [SendFrame c_messageTypePingRes id 0]
| O_dispatch f : mt = c_messageTypeCallReq -> cs_state st = c_connectionActive -> cs_stopped st = false ->
    mx_lookup id (cs_in st) = None -> parse_inbound_fragment payload = (0, f) ->
    outcome st mt id payload (set_in ((id, mx_new) :: cs_in st) st) [Dispatch id]
| O_fwd_in m m' ok : mt = c_messageTypeCallReqContinue -> mx_lookup id (cs_in st) = Some m -> mex_forward m = (m', ok) ->
    outcome st mt id payload (set_in (mx_put id m' (cs_in st)) st) [if ok then Deliver id else Drop]
| O_fwd_out m m' ok : frame_legal st mt id payload = true ->
    mx_lookup id (cs_out st) = Some m -> mex_forward m = (m', ok) ->
    outcome st mt id payload (set_out (mx_put id m' (cs_out st)) st) [if ok then Deliver id else Drop]
| O_cancel m : mt = c_messageTypeCancel -> cs_cancel st = true -> mx_lookup id (cs_in st) = Some m ->
    outcome st mt id payload (set_in (mx_put id (mex_cancel m) (cs_in st)) st) [Cancel id].

Ltac rw_tests := repeat match goal with H : (_ =? _) = _ |- _ => rewrite H end.

Lemma forward_outcome_out st mt id payload ex e :
  (has id (cs_out st) = false -> frame_legal st mt id payload = false) ->
  (has id (cs_out st) = true -> frame_legal st mt id payload = true) ->
  forward (cs_out st) id = (ex, e) -> outcome st mt id payload (set_out ex st) e.
Proof.
  intros Hf Ht. unfold forward. unfold has in *. destruct (mx_lookup id (cs_out st)) as [m|] eqn:L.
  - destruct (mex_forward m) as [m' ok] eqn:F. intros H. inversion H; subst.
    apply (O_fwd_out st mt id payload m m' ok); auto.
  - intros H. inversion H; subst. replace (set_out (cs_out st) st) with st by (destruct st; reflexivity).
    apply O_drop. auto.
Qed.

Lemma span_in_buffer : (c_u_spanIndex + c_u_spanLength >? c_MaxFramePayloadSize) = false.
Proof. reflexivity. Qed.

Theorem hfnr_outcome st mt id payload st' es : state_ok st -> bytes_ok payload = true ->
  handle_frame_no_relay st mt id payload = (st', es) -> outcome st mt id payload st' es.
Proof.
  intros Hok Hb. unfold handle_frame_no_relay.
  destruct (mt =? c_messageTypeCallReq) eqn:T1.
  { (* call req *)
    assert (mt = c_messageTypeCallReq) by lia. subst mt. unfold handle_call_req.
    destruct (cs_state st =? c_connectionActive) eqn:A.
    - destruct (parse_inbound_fragment payload) as [code f] eqn:P.
      destruct (negb (code =? 0)) eqn:C.
      + intros H. inversion H; subst. apply O_drop. unfold frame_legal. rewrite T1, P. cbn [fst]. lia.
      + assert (code = 0) by lia. subst code.
        destruct (cs_stopped st || match mx_lookup id (cs_in st) with Some _ => true | None => false end) eqn:D.
        * intros H. destruct (protocol_error_shut st id st' es Hok H) as [S E].
          apply O_close; [|exact S|exact E]. unfold frame_legal, has. rewrite T1. lia.
        * pose proof (pif_ctype_known _ _ Hb P) as Hn.
          destruct (ck_new f) eqn:K; [|congruence].
          intros H. inversion H; subst. apply orb_false_iff in D. destruct D as [D1 D2].
          apply (O_dispatch st _ id payload f); auto; [lia|].
          destruct (mx_lookup id (cs_in st)); [discriminate|reflexivity].
    - assert (NA : cs_state st <> c_connectionActive) by lia.
      assert (L : frame_legal st c_messageTypeCallReq id payload = false).
      { unfold frame_legal. rewrite T1, A. reflexivity. }
      destruct ((cs_state st =? c_connectionStartClose) || (cs_state st =? c_connectionInboundClosed) || (cs_state st =? c_connectionClosed)) eqn:B.
      + rewrite span_in_buffer. destruct (send_system_error st id c_ErrCodeDeclined) as [st1 e] eqn:S.
        intros H. inversion H; subst. apply send_system_error_shape in S. destruct S as [[E1 E2]|[E1 [E2 R]]]; subst.
        * cbn [or_drop]. apply O_drop. exact L.
        * cbn [or_drop]. apply O_declined; assumption.
      + exfalso. unfold state_ok in Hok. lia. }
  destruct (mt =? c_messageTypeCallReqContinue) eqn:T2.
  { assert (mt = c_messageTypeCallReqContinue) by lia. subst mt.
    unfold forward. destruct (mx_lookup id (cs_in st)) as [m|] eqn:L.
    - destruct (mex_forward m) as [m' ok] eqn:F. intros H. inversion H; subst.
      apply (O_fwd_in st _ id payload m m' ok); auto.
    - intros H. inversion H; subst. replace (set_in (cs_in st) st) with st by (destruct st; reflexivity).
      apply O_drop. unfold frame_legal, has. rewrite T1, T2, L. reflexivity. }
  destruct (mt =? c_messageTypeCallRes) eqn:T3.
  { destruct (forward (cs_out st) id) as [ex e] eqn:F. intros H. inversion H; subst.
    apply (forward_outcome_out st mt id payload); [| |exact F]; intros Hh; unfold frame_legal; rw_tests; cbn [orb]; exact Hh. }
  destruct (mt =? c_messageTypeCallResContinue) eqn:T4.
  { destruct (forward (cs_out st) id) as [ex e] eqn:F. intros H. inversion H; subst.
    apply (forward_outcome_out st mt id payload); [| |exact F]; intros Hh; unfold frame_legal; rw_tests; cbn [orb]; exact Hh. }
  destruct (mt =? c_messageTypePingReq) eqn:T5.
  { assert (mt = c_messageTypePingReq) by lia. subst mt. unfold handle_ping_req.
    destruct (cs_state st =? c_connectionClosed) eqn:A.
    - intros H. destruct (protocol_error_shut st id st' es Hok H) as [S E].
      apply O_close; [|exact S|exact E]. unfold frame_legal. rw_tests. cbn [orb]. rw_tests. reflexivity.
    - destruct (cs_sendroom st >? 0) eqn:R.
      + intros H. inversion H; subst. apply O_pong; [reflexivity|lia|lia].
      + intros H. destruct (connection_error_shut st st' es Hok H) as [E S]. subst es.
        apply O_pong_full; [reflexivity|lia|lia|exact S]. }
  destruct (mt =? c_messageTypePingRes) eqn:T6.
  { destruct (forward (cs_out st) id) as [ex e] eqn:F. intros H. inversion H; subst.
    apply (forward_outcome_out st mt id payload); [| |exact F]; intros Hh; unfold frame_legal; rw_tests; cbn [orb]; exact Hh. }
  destruct (mt =? c_messageTypeError) eqn:T7.
  { unfold handle_error. destruct (r_error (rb payload)) as [m r] eqn:E.
    assert (L : frame_legal st mt id payload = negb (rerr r) && negb (em_code m =? c_ErrCodeProtocol) && has id (cs_out st)).
    { unfold frame_legal. rw_tests. cbn [orb]. rw_tests. rewrite E. reflexivity. }
    destruct (rerr r) eqn:R.
    - intros H. destruct (connection_error_shut st st' es Hok H) as [Es S]. subst es.
      apply O_close; [rewrite L; reflexivity|exact S|left; reflexivity].
    - destruct (em_code m =? c_ErrCodeProtocol) eqn:C.
      + intros H. destruct (connection_error_shut st st' es Hok H) as [Es S]. subst es.
        apply O_close; [rewrite L; reflexivity|exact S|left; reflexivity].
      + destruct (forward (cs_out st) id) as [ex e] eqn:F. intros H. inversion H; subst.
        apply (forward_outcome_out st mt id payload); [| |exact F]; intros Hh; rewrite L, Hh; reflexivity. }
  destruct (mt =? c_messageTypeCancel) eqn:T8.
  { assert (mt = c_messageTypeCancel) by lia. subst mt. unfold handle_cancel.
    assert (L : frame_legal st c_messageTypeCancel id payload = cs_cancel st && has id (cs_in st)).
    { unfold frame_legal. rw_tests. cbn [orb]. rw_tests. destruct (r_error (rb payload)). reflexivity. }
    destruct (cs_cancel st) eqn:C; cbn [negb].
    - destruct (mx_lookup id (cs_in st)) as [m|] eqn:Lk.
      + intros H. inversion H; subst. apply (O_cancel st _ id payload m); auto.
      + intros H. inversion H; subst. apply O_drop. rewrite L. unfold has. rewrite Lk. reflexivity.
    - intros H. inversion H; subst. apply O_drop. rewrite L. reflexivity. }
  intros H. inversion H; subst. apply O_drop. unfold frame_legal. rw_tests. cbn [orb]. rw_tests. reflexivity.
Qed.

(* ---------------- consequences of the classification ---------------- *)
Lemma outcome_state_ok st mt id payload st' es : state_ok st -> outcome st mt id payload st' es -> state_ok st'.
Proof.
  intros Hok O. destruct O; try exact Hok;
    try (match goal with H : shut _ _ |- _ => destruct H as [_ [_ [_ [H _]]]]; exact H end).
Qed.

Lemma outcome_no_panic st mt id payload st' es : outcome st mt id payload st' es -> forallb (fun e => negb (is_panic e)) es = true.
Proof.
  intros O. destruct O; try reflexivity.
  - destruct H1; subst; reflexivity.
  - destruct ok; reflexivity.
  - destruct ok; reflexivity.
Qed.

(* an illegal or malformed frame: only Drop / one error frame / CloseConn, the key sets are
   unchanged, and without CloseConn nothing but the send queue changes *)
Definition quiet (st st' : cstate) : Prop :=
  cs_in st' = cs_in st /\ cs_out st' = cs_out st /\ cs_state st' = cs_state st /\ cs_stopped st' = cs_stopped st.

Lemma outcome_illegal st mt id payload st' es : outcome st mt id payload st' es -> frame_legal st mt id payload = false ->
  forallb allowed_effect es = true /\ (length (filter is_send es) <= 1)%nat /\
  mx_keys (cs_in st') = mx_keys (cs_in st) /\ mx_keys (cs_out st') = mx_keys (cs_out st) /\
  (existsb is_close es = false -> quiet st st') /\
  (forall mt' i c, In (SendFrame mt' i c) es -> mt' = c_messageTypeError /\ i = id).
Proof.
  intros O L. destruct O.
  - split; [reflexivity|]. split; [cbn; lia|]. split; [reflexivity|]. split; [reflexivity|].
    split; [intros _; unfold quiet; auto|]. intros ? ? ? [F|[]]; discriminate.
  - split; [reflexivity|]. split; [cbn; lia|]. split; [reflexivity|]. split; [reflexivity|].
    split; [intros _; unfold quiet; cbn; auto|]. intros ? ? ? [F|[]]. inversion F; auto.
  - destruct H0 as [A [B _]]. split; [destruct H1; subst; reflexivity|]. split; [destruct H1; subst; cbn; lia|].
    split; [destruct A as [A|A]; rewrite A; [reflexivity|apply notify_keys]|].
    split; [destruct B as [B|B]; rewrite B; [reflexivity|apply notify_keys]|].
    split; [destruct H1; subst; cbn; discriminate|].
    intros mt' i c Hin. destruct H1; subst; cbn in Hin.
    + destruct Hin as [F|[]]; discriminate.
    + destruct Hin as [F|[F|[]]]; [inversion F; auto|discriminate].
  - exfalso. subst mt. unfold frame_legal in L. cbn in L. lia.
  - exfalso. subst mt. unfold frame_legal in L. cbn in L. lia.
  - exfalso. subst mt. unfold frame_legal, has in L. rewrite H0, H1, H2, H3 in L. discriminate.
  - exfalso. subst mt. unfold frame_legal, has in L. cbn in L. rewrite H0 in L. discriminate.
  - congruence.
  - exfalso. subst mt. unfold frame_legal, has in L. cbn in L. rewrite H0, H1 in L. destruct (r_error (rb payload)). discriminate.
Qed.

(* any frame: an exchange with another id is untouched, except that a shutdown of the
   connection sets its error latch *)
Definition other_kept (ex ex' : exmap) (closing : bool) (id : Z) : Prop :=
  forall id', id' <> id -> mx_lookup id' ex' = mx_lookup id' ex \/
                          (closing = true /\ mx_lookup id' ex' = option_map mx_set_err (mx_lookup id' ex)).

Lemma shut_other st st' id : shut st st' -> other_kept (cs_in st) (cs_in st') true id /\ other_kept (cs_out st) (cs_out st') true id.
Proof.
  intros [A [B _]]. split; intros id' _.
  - destruct A as [A|A]; rewrite A; [left; reflexivity|right; split; [reflexivity|apply notify_lookup]].
  - destruct B as [B|B]; rewrite B; [left; reflexivity|right; split; [reflexivity|apply notify_lookup]].
Qed.

Lemma outcome_local st mt id payload st' es : outcome st mt id payload st' es ->
  other_kept (cs_in st) (cs_in st') (existsb is_close es) id /\ other_kept (cs_out st) (cs_out st') (existsb is_close es) id.
Proof.
  intros O. destruct O.
  - split; intros id' _; left; reflexivity.
  - split; intros id' _; left; reflexivity.
  - replace (existsb is_close es) with true by (destruct H1; subst; reflexivity). apply shut_other. assumption.
  - apply (shut_other st st' id). assumption.
  - split; intros id' _; left; reflexivity.
  - split; intros id' Hne; left; [|reflexivity]. cbn [cs_in set_in mx_lookup]. destruct (id =? id') eqn:E; [lia|reflexivity].
  - split; intros id' Hne; left; [|reflexivity]. cbn [cs_in set_in]. apply mx_put_other. exact Hne.
  - split; intros id' Hne; left; [reflexivity|]. cbn [cs_out set_out]. apply mx_put_other. exact Hne.
  - split; intros id' Hne; left; [|reflexivity]. cbn [cs_in set_in]. apply mx_put_other. exact Hne.
Qed.

Lemma outcome_dispatch st mt id payload st' es i : outcome st mt id payload st' es -> In (Dispatch i) es ->
  i = id /\ es = [Dispatch id] /\ mt = c_messageTypeCallReq /\ cs_state st = c_connectionActive /\ cs_stopped st = false /\
  mx_lookup id (cs_in st) = None /\ exists ct, parse_inbound_fragment payload = (0, ct).
Proof.
  intros O Hin. destruct O; cbn in Hin.
  - destruct Hin as [F|[]]; discriminate.
  - destruct Hin as [F|[]]; discriminate.
  - destruct H1; subst; cbn in Hin; [destruct Hin as [F|[]]; discriminate|destruct Hin as [F|[F|[]]]; discriminate].
  - destruct Hin as [F|[]]; discriminate.
  - destruct Hin as [F|[]]; discriminate.
  - destruct Hin as [F|[]]. inversion F; subst. split; [reflexivity|]. split; [reflexivity|]. split; [reflexivity|].
    split; [assumption|]. split; [assumption|]. split; [assumption|]. exists f. assumption.
  - destruct ok; destruct Hin as [F|[]]; discriminate.
  - destruct ok; destruct Hin as [F|[]]; discriminate.
  - destruct Hin as [F|[]]; discriminate.
Qed.

(* ---------------- one reader iteration including ReadBody ---------------- *)
Lemma frame_read_body_payload_ok hdr body code h payload rest : bytes_ok body = true ->
  frame_read_body hdr body = (code, h, payload, rest) -> bytes_ok payload = true /\ bytes_ok rest = true.
Proof.
  intros Hb. unfold frame_read_body. destruct (r_fheader (rb hdr)) as [h0 r0].
  destruct (rerr r0); [intros H; inversion H; subst; split; [reflexivity|exact Hb]|].
  destruct (PayloadSize (fh_size h0) >? c_MaxFramePayloadSize); [intros H; inversion H; subst; split; [reflexivity|exact Hb]|].
  destruct (PayloadSize (fh_size h0) >? 0).
  - destruct (zlen body <? PayloadSize (fh_size h0)); intros H; inversion H; subst; (split; [|try exact Hb]); try reflexivity.
    + apply bytes_ok_firstn, Hb.
    + apply bytes_ok_skipn, Hb.
  - intros H; inversion H; subst; split; [reflexivity|exact Hb].
Qed.

(* the outcomes of handle_frame: a failed read shuts the connection down, otherwise [outcome] *)
Lemma handle_frame_cases st hdr body st' es : state_ok st -> bytes_ok body = true -> handle_frame st hdr body = (st', es) ->
  exists code h payload rest, frame_read_body hdr body = (code, h, payload, rest) /\
    ((code <> 0 /\ es = [CloseConn] /\ shut st st') \/ (code = 0 /\ outcome st (fh_type h) (fh_id h) payload st' es)).
Proof.
  intros Hok Hb. unfold handle_frame. destruct (frame_read_body hdr body) as [[[code h] payload] rest] eqn:F.
  exists code, h, payload, rest. split; [reflexivity|].
  destruct (frame_read_body_payload_ok _ _ _ _ _ _ Hb F) as [Hp _].
  destruct (negb (code =? 0)) eqn:C.
  - left. destruct (connection_error_shut st st' es Hok H) as [E S]. split; [lia|]. split; assumption.
  - right. split; [lia|]. apply hfnr_outcome; assumption.
Qed.

Theorem handle_frame_state_ok st hdr body : state_ok st -> bytes_ok body = true -> state_ok (fst (handle_frame st hdr body)).
Proof.
  intros Hok Hb. destruct (handle_frame st hdr body) as [st' es] eqn:H.
  destruct (handle_frame_cases _ _ _ _ _ Hok Hb H) as [code [h [payload [rest [_ [[_ [_ S]]|[_ O]]]]]]]; cbn [fst].
  - destruct S as [_ [_ [_ [S _]]]]. exact S.
  - apply (outcome_state_ok _ _ _ _ _ _ Hok O).
Qed.

Theorem handle_frame_no_panic st hdr body : state_ok st -> bytes_ok body = true ->
  forall e, In e (snd (handle_frame st hdr body)) -> is_panic e = false.
Proof.
  intros Hok Hb e Hin. destruct (handle_frame st hdr body) as [st' es] eqn:H. cbn [snd] in Hin.
  destruct (handle_frame_cases _ _ _ _ _ Hok Hb H) as [code [h [payload [rest [_ [[_ [E _]]|[_ O]]]]]]].
  - subst es. destruct Hin as [F|[]]. subst e. reflexivity.
  - pose proof (outcome_no_panic _ _ _ _ _ _ O) as P. rewrite forallb_forall in P. specialize (P e Hin).
    destruct (is_panic e); [discriminate|reflexivity].
Qed.

Theorem handle_frame_effects st hdr body st' es : state_ok st -> bytes_ok body = true ->
  frame_wf_legal st hdr body = false -> handle_frame st hdr body = (st', es) ->
  forallb allowed_effect es = true /\ (length (filter is_send es) <= 1)%nat /\
  mx_keys (cs_in st') = mx_keys (cs_in st) /\ mx_keys (cs_out st') = mx_keys (cs_out st) /\
  (existsb is_close es = false ->
     cs_in st' = cs_in st /\ cs_out st' = cs_out st /\ cs_state st' = cs_state st /\ cs_stopped st' = cs_stopped st).
Proof.
  intros Hok Hb L H. destruct (handle_frame_cases _ _ _ _ _ Hok Hb H) as [code [h [payload [rest [F [[_ [E S]]|[C O]]]]]]].
  - subst es. destruct S as [A [B _]]. split; [reflexivity|]. split; [cbn; lia|].
    split; [destruct A as [A|A]; rewrite A; [reflexivity|apply notify_keys]|].
    split; [destruct B as [B|B]; rewrite B; [reflexivity|apply notify_keys]|]. cbn. discriminate.
  - unfold frame_wf_legal in L. rewrite F in L. subst code. cbn [Z.eqb andb] in L.
    destruct (outcome_illegal _ _ _ _ _ _ O L) as [A [B [C [D [E _]]]]]. auto.
Qed.

Theorem handle_frame_error_frame_id st hdr body st' es : state_ok st -> bytes_ok body = true ->
  frame_wf_legal st hdr body = false -> handle_frame st hdr body = (st', es) ->
  forall mt i c, In (SendFrame mt i c) es ->
    mt = c_messageTypeError /\ i = fh_id (fst (r_fheader (rb hdr))) /\ (c = c_ErrCodeDeclined \/ c = c_ErrCodeProtocol).
Proof.
  intros Hok Hb L H mt i c Hin. destruct (handle_frame_cases _ _ _ _ _ Hok Hb H) as [code [h [payload [rest [F [[_ [E S]]|[C O]]]]]]].
  - subst es. destruct Hin as [X|[]]; discriminate.
  - unfold frame_wf_legal in L. rewrite F in L. subst code. cbn [Z.eqb andb] in L.
    assert (Hh : h = fst (r_fheader (rb hdr))).
    { unfold frame_read_body in F. destruct (r_fheader (rb hdr)) as [h0 r0]. cbn [fst].
      destruct (rerr r0); [inversion F|]. destruct (PayloadSize (fh_size h0) >? c_MaxFramePayloadSize); [inversion F|].
      destruct (PayloadSize (fh_size h0) >? 0); [destruct (zlen body <? PayloadSize (fh_size h0))|]; inversion F; reflexivity. }
    rewrite <- Hh. destruct O; cbn in Hin.
    + destruct Hin as [X|[]]; discriminate.
    + destruct Hin as [X|[]]. inversion X; subst. auto.
    + destruct H2; subst; cbn in Hin; [destruct Hin as [X|[]]; discriminate|].
      destruct Hin as [X|[X|[]]]; [inversion X; subst; auto|discriminate].
    + destruct Hin as [X|[]]; discriminate.
    + exfalso. unfold frame_legal in L. rewrite H0 in L. cbn in L. lia.
    + destruct Hin as [X|[]]; discriminate.
    + destruct ok; destruct Hin as [X|[]]; discriminate.
    + destruct ok; destruct Hin as [X|[]]; discriminate.
    + destruct Hin as [X|[]]; discriminate.
Qed.

Theorem handle_frame_local st hdr body st' es code h payload rest : state_ok st -> bytes_ok body = true ->
  handle_frame st hdr body = (st', es) -> frame_read_body hdr body = (code, h, payload, rest) ->
  other_kept (cs_in st) (cs_in st') (existsb is_close es) (fh_id h) /\
  other_kept (cs_out st) (cs_out st') (existsb is_close es) (fh_id h).
Proof.
  intros Hok Hb H F. destruct (handle_frame_cases _ _ _ _ _ Hok Hb H) as [code' [h' [payload' [rest' [F' [[_ [E S]]|[C O]]]]]]].
  - subst es. apply shut_other. exact S.
  - rewrite F in F'. inversion F'; subst. apply (outcome_local _ _ _ _ _ _ O).
Qed.

Theorem handle_frame_dispatch st hdr body st' es i : state_ok st -> bytes_ok body = true ->
  handle_frame st hdr body = (st', es) -> In (Dispatch i) es ->
  exists h payload rest f, frame_read_body hdr body = (0, h, payload, rest) /\ fh_type h = c_messageTypeCallReq /\ fh_id h = i /\
    parse_inbound_fragment payload = (0, f) /\
    cs_state st = c_connectionActive /\ cs_stopped st = false /\ mx_lookup i (cs_in st) = None /\ es = [Dispatch i].
Proof.
  intros Hok Hb H Hin. destruct (handle_frame_cases _ _ _ _ _ Hok Hb H) as [code [h [payload [rest [F [[_ [E S]]|[C O]]]]]]].
  - subst es. destruct Hin as [X|[]]; discriminate.
  - subst code. destruct (outcome_dispatch _ _ _ _ _ _ _ O Hin) as [A [B [C [D [E [G [f P]]]]]]]. subst i.
    exists h, payload, rest, f. repeat split; auto.
Qed.

(* ---------------- the reader loop over a whole byte stream ---------------- *)
Theorem read_frames_no_panic fuel : forall st stream, state_ok st -> bytes_ok stream = true ->
  forall es e, In es (snd (read_frames fuel st stream)) -> In e es -> is_panic e = false.
Proof.
  induction fuel as [|fuel IH]; intros st stream Hok Hb es e Hes He; [destruct Hes|].
  cbn [read_frames] in Hes. destruct (zlen stream <? c_FrameHeaderSize).
  - unfold connection_error in Hes. cbn in Hes. destruct Hes as [X|[]]. subst es. destruct He as [X|[]]. subst e. reflexivity.
  - destruct (frame_read_body (firstn 16 stream) (skipn 16 stream)) as [[[code h] payload] rest] eqn:F.
    destruct (frame_read_body_payload_ok _ _ _ _ _ _ (bytes_ok_skipn 16 _ Hb) F) as [Hp Hr].
    destruct (negb (code =? 0)).
    + unfold connection_error in Hes. cbn in Hes. destruct Hes as [X|[]]. subst es. destruct He as [X|[]]. subst e. reflexivity.
    + destruct (handle_frame_no_relay st (fh_type h) (fh_id h) payload) as [st1 e1] eqn:H1.
      pose proof (hfnr_outcome _ _ _ _ _ _ Hok Hp H1) as O.
      destruct (read_frames fuel st1 rest) as [st2 es2] eqn:R. cbn [snd] in Hes. destruct Hes as [X|Hes].
      * subst es. pose proof (outcome_no_panic _ _ _ _ _ _ O) as P. rewrite forallb_forall in P. specialize (P e He).
        destruct (is_panic e); [discriminate|reflexivity].
      * apply (IH st1 rest (outcome_state_ok _ _ _ _ _ _ Hok O) Hr es e); [rewrite R; exact Hes|exact He].
Qed.

Theorem handle_frame_local_unfolded : forall st hdr body st' es code h payload rest, state_ok st -> bytes_ok body = true ->
  handle_frame st hdr body = (st', es) -> frame_read_body hdr body = (code, h, payload, rest) ->
  forall id', id' <> fh_id h ->
    (mx_lookup id' (cs_in st') = mx_lookup id' (cs_in st) \/
     (existsb is_close es = true /\ mx_lookup id' (cs_in st') = option_map mx_set_err (mx_lookup id' (cs_in st)))) /\
    (mx_lookup id' (cs_out st') = mx_lookup id' (cs_out st) \/
     (existsb is_close es = true /\ mx_lookup id' (cs_out st') = option_map mx_set_err (mx_lookup id' (cs_out st)))).
Proof.
  intros st hdr body st' es code h payload rest Hok Hb H F id' Hne.
  destruct (handle_frame_local _ _ _ _ _ _ _ _ _ Hok Hb H F) as [A B]. split; [apply A|apply B]; exact Hne.
Qed.

(* the body of cancel and ping frames is never looked at *)
Theorem cancel_ping_body_ignored : forall st mt id p1 p2,
  mt = c_messageTypeCancel \/ mt = c_messageTypePingReq \/ mt = c_messageTypePingRes ->
  handle_frame_no_relay st mt id p1 = handle_frame_no_relay st mt id p2.
Proof. intros st mt id p1 p2 [H|[H|H]]; subst mt; reflexivity. Qed.

(* ---------------- ping requests: the state test of Connection.handlePingReq ---------------- *)
From Verif Require Import Gen.GenClose2.

(* TIE: the model's decision whether a ping req is answered IS the state test go2v regenerates
   from the `if state := c.readState(); state == connectionClosed {` statement of
   Connection.handlePingReq on every run (Gen/GenClose2.v pingReqAnswer: 1 = control falls out
   of the statement and the ping res is sent, 0 = the branch that calls protocolError) *)
Theorem ping_state_test_generated : forall st id,
  handle_ping_req st id =
  (if pingReqAnswer (cs_state st) =? 1
   then (if cs_sendroom st >? 0 then (set_room (cs_sendroom st - 1) st, [SendFrame c_messageTypePingRes id 0])
         else connection_error st)
   else protocol_error st id).
Proof.
  intros st id. unfold handle_ping_req, pingReqAnswer. destruct (cs_state st =? c_connectionClosed); reflexivity.
Qed.

(* ... and so is the specification's notion of a legal ping req *)
Theorem ping_legal_generated : forall st id payload,
  frame_legal st c_messageTypePingReq id payload = (pingReqAnswer (cs_state st) =? 1).
Proof.
  intros st id payload. unfold frame_legal, pingReqAnswer. cbn. destruct (cs_state st =? c_connectionClosed); reflexivity.
Qed.

(* of the four connection states only Closed refuses *)
Theorem ping_refused_only_closed :
  pingReqAnswer c_connectionActive = 1 /\ pingReqAnswer c_connectionStartClose = 1 /\
  pingReqAnswer c_connectionInboundClosed = 1 /\ pingReqAnswer c_connectionClosed = 0.
Proof. repeat split; reflexivity. Qed.

(* a ping req on a connection that is not Closed -- Active or draining after Close, whatever
   is in flight -- with room in the send queue: exactly one effect, the ping res with the
   request's id; the close state, both exchange maps (every exchange in every detail) and the
   stopped flag are what they were: the drain goes on *)
Theorem ping_answered_unless_closed : forall st id payload, cs_state st <> c_connectionClosed -> cs_sendroom st > 0 ->
  handle_frame_no_relay st c_messageTypePingReq id payload
  = (set_room (cs_sendroom st - 1) st, [SendFrame c_messageTypePingRes id 0]).
Proof.
  intros st id payload Hs Hr. unfold handle_frame_no_relay. cbn. unfold handle_ping_req.
  replace (cs_state st =? c_connectionClosed) with false by lia.
  replace (cs_sendroom st >? 0) with true by lia. reflexivity.
Qed.

(* a Closed connection refuses: nothing is sent (SendSystemError refuses on a Closed
   connection), the exchanges are stopped *)
Theorem ping_refused_closed : forall st id payload, cs_state st = c_connectionClosed ->
  snd (handle_frame_no_relay st c_messageTypePingReq id payload) = [CloseConn] /\
  frame_legal st c_messageTypePingReq id payload = false.
Proof.
  intros st id payload Hs. unfold handle_frame_no_relay, frame_legal. cbn. unfold handle_ping_req, protocol_error, send_system_error.
  rewrite Hs. cbn. split; reflexivity.
Qed.
