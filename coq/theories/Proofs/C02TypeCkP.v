(* C02 -- the checksum type of a message is fixed by its first fragment.

   1. Tie: the reader step of Model/Frag.v (r_recv) is the step whose decision between the
      receipt of a fragment and the chunk loop -- receiver error, creation of the checksum from
      the first fragment's type byte, comparison of every later type byte with the checksum's
      type code -- is the definition go2v regenerates from fragmenting_reader.go on every run
      (Gen/GenC02TypeCk.c02ReaderTypeCk).
   2. Sweep of that generated decision over all 256 values of the type byte, for each base type.
   3. Run-level theorem: whatever the application does with the reader (any script of
      BeginArgument / Read / Close / ArgReadHelper operations), a message in which a non-initial
      fragment announces another checksum type than the first one is never reported complete, and
      the reader takes no fragment after that one. *)
From Coq Require Import ZArith List Bool Lia ZifyBool.
From Verif Require Import Base.Wrap Base.Bytes Base.Wire Gen.GenConsts Gen.GenFrame Gen.GenC02TypeCk
  Model.Crc Model.Frag Model.FragWire Spec.FragSpec Spec.FragOk Proofs.FragWP Proofs.CrcP Proofs.CkP.
Import ListNotations.
Local Open Scope Z_scope.

(* ------------------------------------------------------------------------- *)
(* 1. the generated decision inside the reader step                            *)
(* ------------------------------------------------------------------------- *)

Definition c02_has (ck : option ckst) : bool := match ck with Some _ => true | None => false end.
Definition c02_tc (ck : option ckst) : Z := match ck with Some c => ck_typecode c | None => 0 end.

(* recvAndParseNextFragment, the statements between `recvNextFragment` and the chunk loop taken
   from the generated definition: (newed, code) = (type byte a checksum is created for or -1,
   error returned before the chunk loop or 0).  A nil checksum that is not created is a nil
   dereference in the chunk loop: None. *)
Definition c02_r_recv (st : rst) : option (Z * rst) :=
  if negb (rs_err st =? 0) then Some (rs_err st, st) else
  let rel := if rs_got st >? rs_rel st then rs_got st else rs_rel st in
  let recv_err := match rs_in st with [] => 9 | _ :: _ => 0 end in
  let ftype := match rs_in st with [] => 0 | f :: _ => f_ctype f end in
  let '(newed, code) := c02ReaderTypeCk recv_err (c02_has (rs_ck st)) (c02_tc (rs_ck st)) ftype in
  match rs_in st with
  | [] => Some (code, mkRst (rs_state st) code (rs_rem st) (rs_cur st) (rs_more st) [] (rs_ck st) (rs_got st) rel (rs_fin st))
  | f :: rest =>
      let got := rs_got st + 1 in
      match (if newed =? -1 then rs_ck st else ck_new newed) with
      | None => None
      | Some c =>
          let st0 := mkRst (rs_state st) 0 (rs_rem st) (rs_cur st) (rs_more st) rest (Some c) got rel (rs_fin st) in
          if negb (code =? 0) then Some (code, rset_err st0 code)
          else
            let c' := fold_left ck_add (f_chunks f) c in
            let st1 := mkRst (rs_state st) 0 [] (rs_cur st) (f_more f) rest (Some c') got rel (rs_fin st) in
            if negb (bytes_eqb (f_ck f) (ck_sum c')) then Some (8, rset_err st1 8)
            else match f_chunks f with
                 | [] => Some (13, rset_err st1 13)
                 | ch :: chs => Some (0, mkRst (rs_state st) 0 chs ch (f_more f) rest (Some c') got rel (rs_fin st))
                 end
      end
  end.

Lemma ck_new_neg1 : ck_new (-1) = None.
Proof. reflexivity. Qed.

Theorem c02_r_recv_generated : forall st, r_recv st = c02_r_recv st.
Proof.
  intros st. unfold r_recv, c02_r_recv, c02ReaderTypeCk.
  destruct (negb (rs_err st =? 0)); [reflexivity|].
  destruct (rs_in st) as [|f rest]; [reflexivity|].
  cbn [Z.eqb negb].
  destruct (rs_ck st) as [c|]; cbn [c02_has c02_tc negb].
  - destruct (ck_typecode c =? f_ctype f); cbn [negb andb Z.eqb]; reflexivity.
  - destruct (f_ctype f =? -1) eqn:E.
    + apply Z.eqb_eq in E. rewrite E, ck_new_neg1. reflexivity.
    + cbn [negb Z.eqb andb]. destruct (ck_new (f_ctype f)) as [c|]; [|reflexivity].
      rewrite Bool.andb_false_r. reflexivity.
Qed.

(* ------------------------------------------------------------------------- *)
(* 2. the generated decision, all 256 values of the type byte                  *)
(* ------------------------------------------------------------------------- *)

Definition c02_bytes : list Z := map Z.of_nat (seq 0 256).

Lemma c02_bytes_in t : 0 <= t < 256 -> In t c02_bytes.
Proof.
  intros H. unfold c02_bytes. apply in_map_iff. exists (Z.to_nat t). split; [lia|].
  apply in_seq. lia.
Qed.

(* the three base types with a working checksum object: TypeCode() of the object New() returns
   for them is the type itself (Farmhash is backed by the null checksum) *)
Definition c02_base_types : list Z := [c_ChecksumTypeNone; c_ChecksumTypeCrc32; c_ChecksumTypeCrc32C].

Definition c02_sweep_later : bool :=
  forallb (fun b => forallb (fun t =>
    let '(newed, code) := c02ReaderTypeCk 0 true b t in
    (newed =? -1) && (code =? (if t =? b then 0 else 7))) c02_bytes) c02_base_types.

Definition c02_sweep_first : bool :=
  forallb (fun x => forallb (fun t =>
    let '(newed, code) := c02ReaderTypeCk 0 false x t in (newed =? t) && (code =? 0)) c02_bytes) c02_bytes.

Lemma c02_sweep_later_ok : c02_sweep_later = true.
Proof. vm_compute. reflexivity. Qed.
Lemma c02_sweep_first_ok : c02_sweep_first = true.
Proof. vm_compute. reflexivity. Qed.

(* a later fragment: no checksum is created, and the step fails with errMismatchedChecksumTypes
   exactly when the type byte is not the base type -- for every byte value *)
Theorem c02_typeck_later_all_bytes : forall b t, In b c02_base_types -> 0 <= t < 256 ->
  c02ReaderTypeCk 0 true b t = (-1, if t =? b then 0 else 7).
Proof.
  intros b t Hb Ht. pose proof c02_sweep_later_ok as S. unfold c02_sweep_later in S.
  rewrite forallb_forall in S. specialize (S b Hb). rewrite forallb_forall in S.
  specialize (S t (c02_bytes_in t Ht)).
  destruct (c02ReaderTypeCk 0 true b t) as [nw code]. apply andb_true_iff in S. destruct S as [A B].
  apply Z.eqb_eq in A. apply Z.eqb_eq in B. rewrite A, B. reflexivity.
Qed.

(* the first fragment: the checksum is created for the fragment's own type byte, whatever the
   (irrelevant) third argument, and nothing fails here *)
Theorem c02_typeck_first_all_bytes : forall x t, 0 <= x < 256 -> 0 <= t < 256 ->
  c02ReaderTypeCk 0 false x t = (t, 0).
Proof.
  intros x t Hx Ht. pose proof c02_sweep_first_ok as S. unfold c02_sweep_first in S.
  rewrite forallb_forall in S. specialize (S x (c02_bytes_in x Hx)). rewrite forallb_forall in S.
  specialize (S t (c02_bytes_in t Ht)).
  destruct (c02ReaderTypeCk 0 false x t) as [nw code]. apply andb_true_iff in S. destruct S as [A B].
  apply Z.eqb_eq in A. apply Z.eqb_eq in B. rewrite A, B. reflexivity.
Qed.

(* ------------------------------------------------------------------------- *)
(* 3. a type change mid-message is never reported complete                      *)
(* ------------------------------------------------------------------------- *)

Definition c02_base (t : Z) : Prop := In t c02_base_types.

(* the type the reader has fixed so far *)
Definition c02_ty (st : rst) : option Z :=
  match rs_ck st with Some c => Some (ck_typecode c) | None => None end.

(* among the next n fragments to arrive there is one whose type byte is not the fixed type T
   (T = None: the type is fixed by the first of them, a base type), and every fragment before it
   announces more fragments (it is a fragment of the same message) *)
Fixpoint c02_bad (T : option Z) (fs : list frag) (n : Z) : Prop :=
  match fs with
  | [] => False
  | f :: r =>
      match T with
      | Some t => (f_ctype f <> t /\ 1 <= n) \/ (f_more f = true /\ c02_bad (Some t) r (n - 1))
      | None => c02_base (f_ctype f) /\ f_more f = true /\ c02_bad (Some (f_ctype f)) r (n - 1)
      end
  end.

Lemma c02_bad_pos fs : forall T n, c02_bad T fs n -> 1 <= n.
Proof.
  induction fs as [|f r IH]; intros T n H; cbn [c02_bad] in H; [contradiction|].
  destruct T as [t|].
  - destruct H as [[_ H]|[_ H]]; [exact H|]. apply IH in H. lia.
  - destruct H as [_ [_ H]]. apply IH in H. lia.
Qed.

Lemma c02_bad_eq T fs n m : n = m -> c02_bad T fs n -> c02_bad T fs m.
Proof. intros ->. exact (fun H => H). Qed.

Definition c02_good (N : Z) (st : rst) : Prop :=
  rs_more st = true /\ c02_bad (c02_ty st) (rs_in st) (N - rs_got st).
Definition c02_dead (N : Z) (st : rst) : Prop := rs_err st <> 0 /\ rs_got st <= N.
Definition c02_inv (N : Z) (st : rst) : Prop :=
  rs_state st <> c_fragmentingReadComplete /\ rs_fin st = false /\ (c02_dead N st \/ c02_good N st).

Lemma c02_good_got N st : c02_good N st -> rs_got st <= N.
Proof. intros [_ H]. apply c02_bad_pos in H. lia. Qed.

Lemma c02_inv_got N st : c02_inv N st -> rs_got st <= N.
Proof. intros [_ [_ [[_ H]|H]]]; [exact H|exact (c02_good_got _ _ H)]. Qed.

Lemma c02_inv_good N st : c02_inv N st -> rs_err st = 0 -> c02_good N st.
Proof. intros [_ [_ [[H _]|H]]] E; [contradiction|exact H]. Qed.

Lemma c02_good_core N st st' :
  rs_more st' = rs_more st -> rs_in st' = rs_in st -> rs_ck st' = rs_ck st -> rs_got st' = rs_got st ->
  c02_good N st -> c02_good N st'.
Proof. unfold c02_good, c02_ty. intros -> -> -> ->. exact (fun H => H). Qed.

Lemma c02_inv_core N st st' :
  rs_state st' = rs_state st -> rs_fin st' = rs_fin st -> rs_err st' = rs_err st ->
  rs_more st' = rs_more st -> rs_in st' = rs_in st -> rs_ck st' = rs_ck st -> rs_got st' = rs_got st ->
  c02_inv N st -> c02_inv N st'.
Proof.
  intros A B C D E F G [I1 [I2 I3]]. unfold c02_inv. rewrite A, B. split; [exact I1|]. split; [exact I2|].
  destruct I3 as [[H1 H2]|H]; [left; unfold c02_dead; rewrite C, G; split; assumption|].
  right. exact (c02_good_core N st st' D E F G H).
Qed.

Lemma c02_inv_of_good N st st' :
  rs_state st' <> c_fragmentingReadComplete -> rs_fin st' = false ->
  rs_more st' = rs_more st -> rs_in st' = rs_in st -> rs_ck st' = rs_ck st -> rs_got st' = rs_got st ->
  c02_good N st -> c02_inv N st'.
Proof.
  intros A B D E F G H. split; [exact A|]. split; [exact B|]. right. exact (c02_good_core N st st' D E F G H).
Qed.

Lemma c02_inv_err N st e : c02_inv N st -> e <> 0 -> c02_inv N (rset_err st e).
Proof.
  intros I Ne. pose proof (c02_inv_got _ _ I) as G. destruct I as [I1 [I2 _]].
  split; [exact I1|]. split; [exact I2|]. left. split; [exact Ne|exact G].
Qed.

Lemma c02_ck_new_base t : c02_base t -> exists c, ck_new t = Some c /\ ck_typecode c = t.
Proof.
  intros [<-|[<-|[<-|[]]]]; eexists; (split; [vm_compute; reflexivity|reflexivity]).
Qed.

(* the reader step *)
Lemma c02_recv_good N st c st' : rs_err st = 0 -> c02_good N st -> r_recv st = Some (c, st') ->
  rs_state st' = rs_state st /\ rs_fin st' = rs_fin st /\
  ((c <> 0 /\ c02_dead N st') \/ (c = 0 /\ c02_good N st')).
Proof.
  intros Ee [Gm Gb] H. unfold r_recv in H. rewrite Ee in H. cbn [Z.eqb negb] in H.
  unfold c02_ty in Gb.
  destruct (rs_in st) as [|f rest] eqn:Ein; [contradiction|]. cbn [c02_bad] in Gb.
  assert (Tail : forall c0, ck_typecode c0 = f_ctype f ->
            f_more f = true -> c02_bad (Some (f_ctype f)) rest (N - rs_got st - 1) ->
            (let c' := fold_left ck_add (f_chunks f) c0 in
             let rel := if rs_got st >? rs_rel st then rs_got st else rs_rel st in
             let st1 := mkRst (rs_state st) 0 [] (rs_cur st) (f_more f) rest (Some c') (rs_got st + 1) rel (rs_fin st) in
             if negb (bytes_eqb (f_ck f) (ck_sum c')) then Some (8, rset_err st1 8)
             else match f_chunks f with
                  | [] => Some (13, rset_err st1 13)
                  | ch :: chs => Some (0, mkRst (rs_state st) 0 chs ch (f_more f) rest (Some c') (rs_got st + 1) rel (rs_fin st))
                  end) = Some (c, st') ->
            rs_state st' = rs_state st /\ rs_fin st' = rs_fin st /\
            ((c <> 0 /\ c02_dead N st') \/ (c = 0 /\ c02_good N st'))).
  { intros c0 Etc Hm Hb T. cbn zeta in T. pose proof (c02_bad_pos _ _ _ Hb) as Hp.
    assert (Etf : ck_typecode (fold_left ck_add (f_chunks f) c0) = f_ctype f) by (rewrite ck_fold_typecode; exact Etc).
    remember (fold_left ck_add (f_chunks f) c0) as c' eqn:Ec'. clear Ec'.
    destruct (negb (bytes_eqb (f_ck f) (ck_sum c'))).
    - inversion T; subst c st'. unfold rset_err; cbn [rs_state rs_fin rs_err rs_got rs_more rs_in rs_ck]. split; [reflexivity|]. split; [reflexivity|].
      left. split; [lia|]. unfold c02_dead. cbn [rs_err rs_got]. split; lia.
    - destruct (f_chunks f) as [|ch chs] eqn:Ech.
      + inversion T; subst c st'. unfold rset_err; cbn [rs_state rs_fin rs_err rs_got rs_more rs_in rs_ck]. split; [reflexivity|]. split; [reflexivity|].
        left. split; [lia|]. unfold c02_dead. cbn [rs_err rs_got]. split; lia.
      + inversion T; subst c st'. cbn [rs_state rs_fin]. split; [reflexivity|]. split; [reflexivity|].
        right. split; [reflexivity|]. unfold c02_good, c02_ty. cbn [rs_more rs_in rs_ck rs_got].
        split; [exact Hm|]. rewrite Etf.
        apply (c02_bad_eq _ _ (N - rs_got st - 1)); [lia|exact Hb]. }
  destruct (rs_ck st) as [c0|] eqn:Eck.
  - destruct (ck_typecode c0 =? f_ctype f) eqn:Et; cbn [negb andb] in H.
    + apply Z.eqb_eq in Et. destruct Gb as [[Gb _]|[Hm Hb]]; [congruence|].
      rewrite Et in Hb. apply (Tail c0 Et Hm Hb). exact H.
    + inversion H; subst c st'. unfold rset_err; cbn [rs_state rs_fin rs_err rs_got rs_more rs_in rs_ck]. split; [reflexivity|]. split; [reflexivity|].
      left. split; [lia|]. unfold c02_dead. cbn [rs_err rs_got].
      assert (1 <= N - rs_got st) by (destruct Gb as [[_ Gb]|[_ Gb]]; [exact Gb|apply c02_bad_pos in Gb; lia]).
      split; lia.
  - destruct Gb as [Hbase [Hm Hb]]. destruct (c02_ck_new_base _ Hbase) as [c0 [En Etc]].
    rewrite En in H. rewrite Bool.andb_false_r in H. apply (Tail c0 Etc Hm Hb). exact H.
Qed.

Lemma c02_recv_inv N st c st' : c02_inv N st -> r_recv st = Some (c, st') ->
  c02_inv N st' /\ (c = 0 -> c02_good N st').
Proof.
  intros I H. destruct (Z.eq_dec (rs_err st) 0) as [Ee|Ne].
  - pose proof (c02_inv_good _ _ I Ee) as G. destruct I as [I1 [I2 _]].
    destruct (c02_recv_good N st c st' Ee G H) as [A [B [[Nc D]|[Ec Gd]]]].
    + split; [|intros; contradiction]. unfold c02_inv. rewrite A, B. split; [exact I1|]. split; [exact I2|]. left. exact D.
    + split; [|intros _; exact Gd]. unfold c02_inv. rewrite A, B. split; [exact I1|]. split; [exact I2|]. right. exact Gd.
  - rewrite (r_recv_sticky st (rs_err st) eq_refl Ne) in H. inversion H; subst c st'.
    split; [exact I|intros; contradiction].
Qed.

Lemma c02_arg_state_nc (last : bool) :
  (if last then c_fragmentingReadInLastArgument else c_fragmentingReadInArgument) <> c_fragmentingReadComplete.
Proof. destruct last; discriminate. Qed.

(* BeginArgument *)
Lemma c02_begin_inv N last st c st' : c02_inv N st -> r_begin last st = Some (c, st') -> c02_inv N st'.
Proof.
  intros I H. unfold r_begin in H.
  destruct (rs_err st =? 0) eqn:Ee; cbn [negb] in H; [|inversion H; subst; exact I].
  apply Z.eqb_eq in Ee.
  destruct (is_reading (rs_state st)); [inversion H; subst; apply c02_inv_err; [exact I|lia]|].
  destruct (rs_state st =? c_fragmentingReadComplete); [inversion H; subst; apply c02_inv_err; [exact I|lia]|].
  destruct (rs_state st =? c_fragmentingReadStart).
  - destruct (r_recv st) as [[c1 st1]|] eqn:R; [|discriminate].
    destruct (c02_recv_inv N st c1 st1 I R) as [I1 G1].
    destruct (c1 =? 0) eqn:Ec; [|inversion H; subst; exact I1].
    apply Z.eqb_eq in Ec. inversion H; subst c st'.
    apply (c02_inv_of_good N st1); try reflexivity; [apply c02_arg_state_nc|apply I1|exact (G1 Ec)].
  - inversion H; subst c st'.
    apply (c02_inv_of_good N st); try reflexivity; [apply c02_arg_state_nc|apply I|exact (c02_inv_good _ _ I Ee)].
Qed.

(* Read *)
Lemma c02_read_loop_inv N : forall fuel n acc st bs c st',
  c02_inv N st -> r_read_loop fuel n acc st = Some (bs, c, st') -> c02_inv N st'.
Proof.
  induction fuel as [|fuel IH]; intros n acc st bs c st' I H; cbn [r_read_loop] in H; cbv zeta in H.
  - set (st1 := mkRst (rs_state st) (rs_err st) (rs_rem st) (skipn (Z.to_nat (Z.min n (zlen (rs_cur st)))) (rs_cur st))
                      (rs_more st) (rs_in st) (rs_ck st) (rs_got st) (rs_rel st) (rs_fin st)) in *.
    assert (I1 : c02_inv N st1) by (apply (c02_inv_core N st); try reflexivity; exact I).
    destruct (n - Z.min n (zlen (rs_cur st)) =? 0); [inversion H; subst; exact I1|].
    cbn [rs_rem rs_more st1] in H.
    destruct (rs_rem st); [|inversion H; subst; exact I1].
    destruct (negb (rs_more st)); inversion H; subst; exact I1.
  - set (st1 := mkRst (rs_state st) (rs_err st) (rs_rem st) (skipn (Z.to_nat (Z.min n (zlen (rs_cur st)))) (rs_cur st))
                      (rs_more st) (rs_in st) (rs_ck st) (rs_got st) (rs_rel st) (rs_fin st)) in *.
    assert (I1 : c02_inv N st1) by (apply (c02_inv_core N st); try reflexivity; exact I).
    destruct (n - Z.min n (zlen (rs_cur st)) =? 0); [inversion H; subst; exact I1|].
    cbn [rs_rem rs_more st1] in H.
    destruct (rs_rem st); [|inversion H; subst; exact I1].
    destruct (negb (rs_more st)); [inversion H; subst; exact I1|].
    destruct (r_recv st1) as [[c2 st2]|] eqn:R; [|discriminate].
    destruct (c02_recv_inv N st1 c2 st2 I1 R) as [I2 _].
    destruct (c2 =? 0); [exact (IH _ _ _ _ _ _ I2 H)|inversion H; subst; exact I2].
Qed.

Lemma c02_read_inv N n st bs c st' : c02_inv N st -> r_read n st = Some (bs, c, st') -> c02_inv N st'.
Proof.
  intros I H. unfold r_read in H.
  destruct (negb (rs_err st =? 0)); [inversion H; subst; exact I|].
  destruct (negb (is_reading (rs_state st))); [inversion H; subst; apply c02_inv_err; [exact I|lia]|].
  exact (c02_read_loop_inv N _ _ _ _ _ _ _ I H).
Qed.

(* Close *)
Lemma c02_close_next_inv N : forall fuel st c st',
  rs_state st <> c_fragmentingReadComplete -> rs_fin st = false -> c02_good N st ->
  r_close_next fuel st = Some (c, st') -> c02_inv N st'.
Proof.
  induction fuel as [|fuel IH]; intros st c st' S F G H; cbn [r_close_next] in H.
  - assert (I : c02_inv N st) by (split; [exact S|split; [exact F|right; exact G]]).
    destruct (rs_rem st) as [|ch chs].
    + destruct (negb (rs_more st)); inversion H; subst; apply c02_inv_err; try exact I; lia.
    + inversion H; subst c st'. apply (c02_inv_of_good N st); try reflexivity; assumption.
  - assert (I : c02_inv N st) by (split; [exact S|split; [exact F|right; exact G]]).
    destruct (rs_rem st) as [|ch chs].
    + destruct (negb (rs_more st)); [inversion H; subst; apply c02_inv_err; try exact I; lia|].
      destruct (r_recv st) as [[c1 st1]|] eqn:R; [|discriminate].
      destruct (c02_recv_inv N st c1 st1 I R) as [I1 G1].
      destruct (c1 =? 0) eqn:Ec; cbn [negb] in H; [|inversion H; subst; exact I1].
      apply Z.eqb_eq in Ec.
      destruct (zlen (rs_cur st1) >? 0); [inversion H; subst; apply c02_inv_err; [exact I1|lia]|].
      apply (IH st1 c st'); [apply I1|apply I1|exact (G1 Ec)|exact H].
    + inversion H; subst c st'. apply (c02_inv_of_good N st); try reflexivity; assumption.
Qed.

Lemma c02_close_inv N st c st' : c02_inv N st -> r_close st = Some (c, st') -> c02_inv N st'.
Proof.
  intros I H. unfold r_close in H.
  destruct (rs_err st =? 0) eqn:Ee; cbn [negb] in H; [|inversion H; subst; exact I].
  apply Z.eqb_eq in Ee. pose proof (c02_inv_good _ _ I Ee) as G.
  destruct (negb (is_reading (rs_state st))); [inversion H; subst; apply c02_inv_err; [exact I|lia]|].
  destruct (zlen (rs_cur st) >? 0); [inversion H; subst; apply c02_inv_err; [exact I|lia]|].
  destruct (rs_state st =? c_fragmentingReadInLastArgument).
  - destruct (rs_rem st); [|inversion H; subst; apply c02_inv_err; [exact I|lia]].
    destruct G as [Gm _]. rewrite Gm in H. inversion H; subst; apply c02_inv_err; [exact I|lia].
  - refine (c02_close_next_inv N _ _ c st' _ _ _ H); cbn [rs_state rs_fin].
    + discriminate.
    + apply I.
    + apply (c02_good_core N st); try reflexivity. exact G.
Qed.

(* ArgReadHelper.Read *)
Lemma c02_readall_inv N bufsz : forall fuel acc st bs c st',
  c02_inv N st -> r_readall fuel bufsz acc st = Some (bs, c, st') -> c02_inv N st'.
Proof.
  induction fuel as [|fuel IH]; intros acc st bs c st' I H; cbn [r_readall] in H.
  - inversion H; subst; exact I.
  - destruct (r_read bufsz st) as [[[bs1 c1] st1]|] eqn:R; [|discriminate].
    pose proof (c02_read_inv N _ _ _ _ _ I R) as I1.
    destruct (c1 =? 0); [exact (IH _ _ _ _ _ I1 H)|].
    destruct (c1 =? 12); inversion H; subst; exact I1.
Qed.

Lemma c02_helper_inv N bufsz st bs c st' : c02_inv N st -> r_helper_read bufsz st = Some (bs, c, st') -> c02_inv N st'.
Proof.
  intros I H. unfold r_helper_read in H.
  destruct (r_readall _ bufsz [] st) as [[[bs1 c1] st1]|] eqn:R; [|discriminate].
  pose proof (c02_readall_inv N _ _ _ _ _ _ _ I R) as I1.
  destruct (negb (c1 =? 0)); [inversion H; subst; exact I1|].
  destruct (r_read 128 st1) as [[[ex c2] st2]|] eqn:R2; [|discriminate].
  pose proof (c02_read_inv N _ _ _ _ _ I1 R2) as I2.
  destruct (zlen ex >? 0); [inversion H; subst; exact I2|].
  destruct (negb (c2 =? 12) && negb (c2 =? 0)); [inversion H; subst; exact I2|].
  destruct (r_close st2) as [[c3 st3]|] eqn:R3; [|discriminate].
  inversion H; subst. exact (c02_close_inv N _ _ _ I2 R3).
Qed.

(* any script of operations *)
Lemma c02_run_inv N : forall ops st obs st', c02_inv N st -> r_run_lin ops st = Some (obs, st') -> c02_inv N st'.
Proof.
  induction ops as [|o ops IH]; intros st obs st' I H; cbn [r_run_lin] in H; [inversion H; subst; exact I|].
  cbv zeta in H.
  destruct o as [l|n| |n].
  - destruct (r_begin l st) as [[c1 st1]|] eqn:R; [|discriminate].
    pose proof (c02_begin_inv N _ _ _ _ I R) as I1.
    destruct (r_run_lin ops st1) as [[rest stf]|] eqn:R2; [|discriminate].
    inversion H; subst. exact (IH _ _ _ I1 R2).
  - destruct (r_read n st) as [[[bs c1] st1]|] eqn:R; [|discriminate].
    pose proof (c02_read_inv N _ _ _ _ _ I R) as I1.
    destruct (r_run_lin ops st1) as [[rest stf]|] eqn:R2; [|discriminate].
    inversion H; subst. exact (IH _ _ _ I1 R2).
  - destruct (r_close st) as [[c1 st1]|] eqn:R; [|discriminate].
    pose proof (c02_close_inv N _ _ _ I R) as I1.
    destruct (r_run_lin ops st1) as [[rest stf]|] eqn:R2; [|discriminate].
    inversion H; subst. exact (IH _ _ _ I1 R2).
  - destruct (r_helper_read n st) as [[[bs c1] st1]|] eqn:R; [|discriminate].
    pose proof (c02_helper_inv N _ _ _ _ _ I R) as I1.
    destruct (r_run_lin ops st1) as [[rest stf]|] eqn:R2; [|discriminate].
    inversion H; subst. exact (IH _ _ _ I1 R2).
Qed.

Lemma c02_bad_later t f post : forall pre,
  Forall (fun g => f_more g = true) pre -> f_ctype f <> t ->
  c02_bad (Some t) (pre ++ f :: post) (1 + zlen pre).
Proof.
  induction pre as [|g pre IH]; intros Hp Hn; cbn [app c02_bad].
  - left. split; [exact Hn|]. unfold zlen. cbn [length]. lia.
  - right. inversion Hp as [|? ? Hg Hr]; subst. split; [exact Hg|].
    apply (c02_bad_eq _ _ (1 + zlen pre)); [unfold zlen; cbn [length]; lia|exact (IH Hr Hn)].
Qed.

(* THE THEOREM.  A message whose first fragment f0 has a base type (none, crc32, crc32c) and in
   which a later fragment f -- a fragment of the same message: f0 and every fragment before f
   announce more fragments -- carries another type byte: whatever script of reader operations
   the application runs, the reader never reaches the complete state, never calls
   doneReading, and takes no fragment beyond f (the read has failed by the end of f). *)
Theorem c02_type_change_never_complete : forall f0 pre f post ops obs st,
  c02_base (f_ctype f0) -> f_more f0 = true -> Forall (fun g => f_more g = true) pre ->
  f_ctype f <> f_ctype f0 ->
  r_run_lin ops (r_init (f0 :: pre ++ f :: post)) = Some (obs, st) ->
  rs_state st <> c_fragmentingReadComplete /\ rs_fin st = false /\ rs_got st <= 2 + zlen pre.
Proof.
  intros f0 pre f post ops obs st Hb Hm Hp Hn H.
  assert (I : c02_inv (2 + zlen pre) (r_init (f0 :: pre ++ f :: post))).
  { split; [discriminate|]. split; [reflexivity|]. right. split; [reflexivity|].
    unfold c02_ty. cbn [r_init rs_ck rs_in rs_got c02_bad]. split; [exact Hb|]. split; [exact Hm|].
    apply (c02_bad_eq _ _ (1 + zlen pre)); [lia|exact (c02_bad_later _ f post pre Hp Hn)]. }
  pose proof (c02_run_inv _ _ _ _ _ I H) as If.
  split; [apply If|]. split; [apply If|exact (c02_inv_got _ _ If)].
Qed.

(* the step itself: at the re-typed fragment the generated decision returns 7 and the model
   step fails with errMismatchedChecksumTypes, sticky -- all 256 byte values, all base types *)
Theorem c02_retyped_fragment_fails : forall st c f rest t,
  rs_err st = 0 -> rs_ck st = Some c -> c02_base (ck_typecode c) -> 0 <= t < 256 ->
  f_ctype f = t -> t <> ck_typecode c ->
  snd (c02ReaderTypeCk 0 true (ck_typecode c) t) = 7 /\
  exists st2, r_recv (rs_with_in st (f :: rest)) = Some (7, st2) /\ rs_err st2 = 7.
Proof.
  intros st c f rest t He Hc Hb Ht Ef Hn. split.
  - rewrite (c02_typeck_later_all_bytes _ t Hb Ht). cbn [snd].
    destruct (t =? ck_typecode c) eqn:E; [apply Z.eqb_eq in E; contradiction|reflexivity].
  - apply (recv_type_change st c f rest He Hc). rewrite Ef. intros E. apply Hn. symmetry. exact E.
Qed.

(* non-vacuity: a three-fragment crc32 message whose last fragment is re-typed to Farmhash (2)
   with the checksum bytes left as they were; the unmodified message reads back complete, the
   re-typed one fails with errMismatchedChecksumTypes (code 7) when the third fragment arrives *)
Definition c02_ex_chunks : list (list (list Z)) := [[[1;2]]; [[3]; [4;5]]; [[6]; [7]]].
Definition c02_ex_ck (k : nat) : list Z :=
  ck_sum (ck_add (mkCk 1 0) (concat (concat (firstn (S k) c02_ex_chunks)))).
Definition c02_ex_msg (t2 : Z) : list frag :=
  [mkFrag true 1 (c02_ex_ck 0) [[1;2]]; mkFrag true 1 (c02_ex_ck 1) [[3]; [4;5]]; mkFrag false t2 (c02_ex_ck 2) [[6]; [7]]].
Definition c02_ex_ops : list rop := [RBegin false; RHelper 512; RBegin false; RHelper 512; RBegin true; RHelper 512].

Example c02_ex_conforming_completes :
  exists obs st, r_run_lin c02_ex_ops (r_init (c02_ex_msg 1)) = Some (obs, st) /\
    rs_state st = c_fragmentingReadComplete /\ rs_fin st = true /\ rs_err st = 0.
Proof. eexists. eexists. vm_compute. repeat split; reflexivity. Qed.

Example c02_ex_retyped_fails :
  exists obs st, r_run_lin c02_ex_ops (r_init (c02_ex_msg 2)) = Some (obs, st) /\
    rs_state st <> c_fragmentingReadComplete /\ rs_fin st = false /\ rs_err st = 7 /\ rs_got st = 3.
Proof. eexists. eexists. vm_compute. repeat split; try reflexivity. discriminate. Qed.

Print Assumptions c02_r_recv_generated.
Print Assumptions c02_typeck_later_all_bytes.
Print Assumptions c02_type_change_never_complete.
