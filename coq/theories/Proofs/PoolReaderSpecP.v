(* Proofs about the pooled typed.Reader / typed.Writer models (Model/PoolReader.v), independent of
   the tables generated from the source (the tie is Proofs/PoolReaderP.v):
   - what a user of a pooled Reader computes does not depend on the state its previous user left
     the object in (sticky error, scratch bytes, stale underlying reader);
   - thrift.ReadHeaders through a pooled Reader in ANY state decodes exactly what the
     specification of the header block (Model/Codecs.r_theaders over the bytes alone) says;
   - without the reset of the error field (the Get path of a reviewer's mutant) both fail. *)
From Coq Require Import ZArith List Bool Lia.
From Verif Require Import Base.Wrap Base.Bytes Base.Wire
  Model.TypedBuf Model.Messages Model.Codecs Model.PoolReader Proofs.CodecP.
Import ListNotations.
Local Open Scope Z_scope.

Lemma tr_new_is_get : forall pooled s, tr_new pooled s = tr_get tr_new_resets pooled s.
Proof. intros [rd e b] s. reflexivity. Qed.

(* ---------------------------------------------------------------- io.ReadFull *)
Lemma read_full_facts s n readN err data s' : 0 <= n ->
  read_full s n = (readN, err, data, s') ->
  zlen data = readN /\ 0 <= readN <= n /\
  (readN = n -> n <= zlen (ps_bytes s) /\ data = firstn (Z.to_nat n) (ps_bytes s) /\
                s' = (if n =? 0 then s else mkPS (skipn (Z.to_nat n) (ps_bytes s)) (ps_fin s)) /\ err = 0) /\
  (readN < n -> zlen (ps_bytes s) < n /\ (ps_fin s <> 0 -> err <> 0) /\ s' = mkPS [] (ps_fin s)).
Proof.
  intros Hn H. unfold read_full in H.
  destruct (Z.leb_spec n 0) as [L0|L0].
  - injection H as <- <- <- <-. assert (n = 0) by lia. subst n. cbn. pose proof (zlen_nonneg (ps_bytes s)).
    repeat split; try lia; try reflexivity.
  - destruct (Z.leb_spec n (zlen (ps_bytes s))) as [L1|L1].
    + injection H as <- <- <- <-. unfold zlen in *. rewrite firstn_length.
      replace (n =? 0) with false by (symmetry; apply Z.eqb_neq; lia).
      repeat split; try lia; try reflexivity.
    + injection H as <- <- <- <-. pose proof (zlen_nonneg (ps_bytes s)).
      repeat split; try lia.
      intros Hf. destruct (zlen (ps_bytes s) =? 0); [exact Hf|]. destruct (ps_fin s =? 1); [lia|exact Hf].
Qed.

Lemma firstn_exact {A} (a b : list A) : firstn (length a) (a ++ b) = a.
Proof. rewrite firstn_app, firstn_all, Nat.sub_diag. cbn. apply app_nil_r. Qed.

Lemma buf_store_length buf data : (length data <= length buf)%nat -> length (buf_store buf data) = length buf.
Proof. intros H. unfold buf_store. rewrite app_length, skipn_length. lia. Qed.

(* ---------------------------------------------------------------- normal forms: no buffer content *)
Definition tr_ok (r : treader) : Prop := length (tr_buf r) = 32%nat.

(* what ReadString(n) returns and leaves, computed from the underlying reader alone *)
Definition rs_result (s : psrc) (n : Z) : list Z * psrc * Z :=
  let '(readN, err, data, s') := read_full s n in (if readN <? n then [] else data, s', err).

Lemma tr_read_string_nf r n : tr_ok r -> tr_err r = 0 -> 0 <= n ->
  exists buf', length buf' = 32%nat /\
    tr_read_string n r = Some (fst (fst (rs_result (tr_rd r) n)),
                               mkTR (snd (fst (rs_result (tr_rd r) n))) (snd (rs_result (tr_rd r) n)) buf').
Proof.
  intros Hok He Hn. unfold tr_read_string, rs_result. rewrite He. cbn [Z.eqb negb].
  replace (n <? 0) with false by (symmetry; apply Z.ltb_ge; lia).
  destruct (read_full (tr_rd r) n) as [[[readN err] data] s'] eqn:E.
  destruct (read_full_facts _ _ _ _ _ _ Hn E) as (Hl & Hr & Hfull & _).
  unfold c_maxPoolStringLen. unfold tr_ok in Hok.
  destruct (Z.leb_spec n 32) as [L|L].
  - assert (Hd : (length data <= length (tr_buf r))%nat) by (unfold zlen in Hl; lia).
    exists (buf_store (tr_buf r) data). split; [rewrite buf_store_length; assumption|].
    destruct (Z.ltb_spec readN n) as [Lt|Ge]; cbn [fst snd]; [reflexivity|].
    assert (Hrn : Z.to_nat n = length data) by (unfold zlen in Hl; lia).
    rewrite Hrn. unfold buf_store. rewrite firstn_exact. reflexivity.
  - exists (tr_buf r). split; [assumption|].
    destruct (Z.ltb_spec readN n); reflexivity.
Qed.

Lemma tr_read_uint16_nf r : tr_ok r -> tr_err r = 0 ->
  exists buf', length buf' = 32%nat /\
    tr_read_uint16 r = (let '(v, s', e) := rs_result (tr_rd r) 2 in
                        (match v with [] => 0 | _ => unbe v end, mkTR s' e buf')).
Proof.
  intros Hok He. unfold tr_read_uint16, rs_result. rewrite He. cbn [Z.eqb negb].
  destruct (read_full (tr_rd r) 2) as [[[readN err] data] s'] eqn:E.
  destruct (read_full_facts _ 2 _ _ _ _ ltac:(lia) E) as (Hl & Hr & _ & _).
  unfold tr_ok in Hok.
  assert (Hd : (length data <= length (tr_buf r))%nat) by (unfold zlen in Hl; lia).
  exists (buf_store (tr_buf r) data). split; [rewrite buf_store_length; assumption|].
  destruct (Z.ltb_spec readN 2) as [Lt|Ge]; [reflexivity|].
  cbn [tr_buf].
  assert (L2 : 2%nat = length data) by (unfold zlen in Hl; lia).
  rewrite L2. unfold buf_store. rewrite firstn_exact.
  destruct data; [discriminate|reflexivity].
Qed.

Lemma tr_read_uint16_err r : tr_err r <> 0 -> tr_read_uint16 r = (0, r).
Proof. intros H. unfold tr_read_uint16. destruct (Z.eqb_spec (tr_err r) 0); [contradiction|reflexivity]. Qed.
Lemma tr_read_string_err r n : tr_err r <> 0 -> tr_read_string n r = Some ([], r).
Proof. intros H. unfold tr_read_string. destruct (Z.eqb_spec (tr_err r) 0); [contradiction|reflexivity]. Qed.

(* ---------------------------------------------------------------- independence of the pooled state *)
Lemma bytes_ok_split n l : bytes_ok l = true ->
  bytes_ok (firstn n l) = true /\ bytes_ok (skipn n l) = true.
Proof.
  intros H. rewrite <- (firstn_skipn n l) in H. rewrite bytes_ok_app in H.
  apply andb_true_iff in H. exact H.
Qed.

Lemma rs_result_bytes_ok s n : 0 <= n -> bytes_ok (ps_bytes s) = true ->
  bytes_ok (fst (fst (rs_result s n))) = true /\ bytes_ok (ps_bytes (snd (fst (rs_result s n)))) = true.
Proof.
  intros Hn Hb. unfold rs_result.
  destruct (read_full s n) as [[[readN err] data] s'] eqn:E.
  destruct (read_full_facts _ _ _ _ _ _ Hn E) as (Hl & Hr & Hfull & Hshort).
  destruct (Z.ltb_spec readN n) as [Lt|Ge]; cbn [fst snd].
  - destruct (Hshort Lt) as (_ & _ & ->). split; reflexivity.
  - assert (Hrn : readN = n) by lia. destruct (Hfull Hrn) as (_ & -> & -> & _).
    destruct (bytes_ok_split (Z.to_nat n) _ Hb) as [B1 B2]. split; [exact B1|].
    destruct (n =? 0); [exact Hb|exact B2].
Qed.

(* two Readers over the same underlying reader with the same error state; the scratch buffers differ *)
Definition same (r1 r2 : treader) : Prop :=
  tr_rd r1 = tr_rd r2 /\ tr_err r1 = tr_err r2 /\ tr_ok r1 /\ tr_ok r2 /\ bytes_ok (ps_bytes (tr_rd r1)) = true.

Lemma u16_same r1 r2 : same r1 r2 ->
  fst (tr_read_uint16 r1) = fst (tr_read_uint16 r2) /\ 0 <= fst (tr_read_uint16 r1) /\
  same (snd (tr_read_uint16 r1)) (snd (tr_read_uint16 r2)).
Proof.
  intros (Hrd & He & Ho1 & Ho2 & Hb).
  destruct (Z.eq_dec (tr_err r1) 0) as [E0|E0].
  - destruct (tr_read_uint16_nf r1 Ho1 E0) as (b1 & L1 & ->).
    destruct (tr_read_uint16_nf r2 Ho2 ltac:(congruence)) as (b2 & L2 & ->).
    rewrite <- Hrd. pose proof (rs_result_bytes_ok (tr_rd r1) 2 ltac:(lia) Hb) as [B1 B2].
    destruct (rs_result (tr_rd r1) 2) as [[v s'] e]. cbn [fst snd] in *.
    split; [reflexivity|]. split.
    + destruct v; [lia|]. pose proof (unbe_range _ B1). lia.
    + repeat split; assumption.
  - rewrite (tr_read_uint16_err r1 E0), (tr_read_uint16_err r2 ltac:(congruence)). cbn.
    split; [reflexivity|]. split; [lia|]. repeat split; assumption.
Qed.

Lemma str_same r1 r2 n : same r1 r2 -> 0 <= n ->
  exists v r1' r2', tr_read_string n r1 = Some (v, r1') /\ tr_read_string n r2 = Some (v, r2') /\ same r1' r2'.
Proof.
  intros (Hrd & He & Ho1 & Ho2 & Hb) Hn.
  destruct (Z.eq_dec (tr_err r1) 0) as [E0|E0].
  - destruct (tr_read_string_nf r1 n Ho1 E0 Hn) as (b1 & L1 & ->).
    destruct (tr_read_string_nf r2 n Ho2 ltac:(congruence) Hn) as (b2 & L2 & ->).
    rewrite <- Hrd. pose proof (rs_result_bytes_ok (tr_rd r1) n Hn Hb) as [B1 B2].
    eexists _, _, _. split; [reflexivity|]. split; [reflexivity|].
    repeat split; assumption.
  - rewrite (tr_read_string_err r1 n E0), (tr_read_string_err r2 n ltac:(congruence)).
    eexists _, _, _. split; [reflexivity|]. split; [reflexivity|]. repeat split; assumption.
Qed.

Lemma len16_same r1 r2 : same r1 r2 ->
  exists v r1' r2', tr_read_len16 r1 = Some (v, r1') /\ tr_read_len16 r2 = Some (v, r2') /\ same r1' r2'.
Proof.
  intros H. unfold tr_read_len16. destruct (u16_same r1 r2 H) as (Hv & Hp & Hs).
  destruct (tr_read_uint16 r1) as [n1 a1]. destruct (tr_read_uint16 r2) as [n2 a2]. cbn [fst snd] in *. subst n2.
  apply str_same; assumption.
Qed.

Lemma loop_same k : forall r1 r2 acc, same r1 r2 ->
  exists h r1' r2', tr_headers_loop k r1 acc = Some (h, r1') /\ tr_headers_loop k r2 acc = Some (h, r2') /\ same r1' r2'.
Proof.
  induction k as [|k IH]; intros r1 r2 acc H; cbn [tr_headers_loop].
  - eexists _, _, _. split; [reflexivity|]. split; [reflexivity|]. exact H.
  - pose proof H as (_ & He & _). rewrite <- He.
    destruct (negb (tr_err r1 =? 0)).
    + eexists _, _, _. split; [reflexivity|]. split; [reflexivity|]. exact H.
    + destruct (len16_same r1 r2 H) as (key & a1 & a2 & -> & -> & Ha).
      destruct (len16_same a1 a2 Ha) as (v & b1 & b2 & -> & -> & Hb).
      apply IH. exact Hb.
Qed.

Lemma headers_same r1 r2 : same r1 r2 ->
  exists h e r1' r2', tr_read_headers r1 = Some (h, e, r1') /\ tr_read_headers r2 = Some (h, e, r2') /\ same r1' r2'.
Proof.
  intros H. unfold tr_read_headers. destruct (u16_same r1 r2 H) as (Hv & Hp & Hs).
  destruct (tr_read_uint16 r1) as [n1 a1]. destruct (tr_read_uint16 r2) as [n2 a2]. cbn [fst snd] in *. subst n2.
  destruct (n1 =? 0).
  - pose proof Hs as (_ & He & _). rewrite <- He. eexists _, _, _, _. split; [reflexivity|]. split; [reflexivity|]. exact Hs.
  - destruct (loop_same (Z.to_nat n1) a1 a2 [] Hs) as (h & b1 & b2 & -> & -> & Hb).
    pose proof Hb as (_ & He & _). rewrite <- He. eexists _, _, _, _. split; [reflexivity|]. split; [reflexivity|]. exact Hb.
Qed.

Lemma tr_new_same p1 p2 s : tr_ok p1 -> tr_ok p2 -> bytes_ok (ps_bytes s) = true -> same (tr_new p1 s) (tr_new p2 s).
Proof. intros H1 H2 Hb. unfold same, tr_new, tr_ok. cbn. repeat split; assumption. Qed.

(* the pooled object's state does not matter: two users with the same input, given pooled Readers in
   ANY two states, get the same headers and the same error; what they put back is a Reader again *)
Theorem pooled_reader_independent p1 p2 s : tr_ok p1 -> tr_ok p2 -> bytes_ok (ps_bytes s) = true ->
  exists h e r1' r2', tr_ReadHeaders p1 s = Some (h, e, r1') /\ tr_ReadHeaders p2 s = Some (h, e, r2') /\ tr_ok r1' /\ tr_ok r2'.
Proof.
  intros H1 H2 Hb. unfold tr_ReadHeaders.
  destruct (headers_same _ _ (tr_new_same p1 p2 s H1 H2 Hb)) as (h & e & a & b & Ea & Eb & (_ & _ & Oa & Ob & _)).
  exists h, e, a, b. repeat split; assumption.
Qed.

(* a brand-new Reader: what readerPool.New returns *)
Definition tr_fresh : treader := mkTR (mkPS [] 0) 0 (repeat 0 32).
Lemma tr_fresh_ok : tr_ok tr_fresh. Proof. reflexivity. Qed.

(* a whole history: the same pooled object serves one header block after the other (hostile or not,
   from any connection); every result is the result a brand-new Reader gives on that block alone *)
Fixpoint tr_serve (pooled : treader) (inputs : list psrc) : list (option (option kvs * Z)) :=
  match inputs with
  | [] => []
  | s :: rest => match tr_ReadHeaders pooled s with
                 | None => [None]
                 | Some (h, e, r') => Some (h, e) :: tr_serve r' rest
                 end
  end.
Definition tr_alone (s : psrc) : option (option kvs * Z) :=
  match tr_ReadHeaders tr_fresh s with None => None | Some (h, e, _) => Some (h, e) end.

Theorem pooled_reader_history : forall inputs pooled, tr_ok pooled ->
  Forall (fun s => bytes_ok (ps_bytes s) = true) inputs ->
  tr_serve pooled inputs = map tr_alone inputs.
Proof.
  induction inputs as [|s rest IH]; intros pooled Hok Hall; [reflexivity|].
  inversion Hall as [|? ? Hs Hrest]; subst. cbn [tr_serve map]. unfold tr_alone at 1.
  destruct (pooled_reader_independent pooled tr_fresh s Hok tr_fresh_ok Hs) as (h & e & a & b & -> & -> & Oa & _).
  f_equal. apply IH; assumption.
Qed.

(* ---------------------------------------------------------------- against the specification of the block *)
(* the Reader over a stream vs. the specification's decoder over the bytes (typed.ReadBuffer model) *)
Definition sim (r : treader) (b : rbuf) : Prop :=
  tr_ok r /\ bytes_ok (ps_bytes (tr_rd r)) = true /\ ps_fin (tr_rd r) <> 0 /\
  ((tr_err r = 0 /\ rerr b = false /\ ps_bytes (tr_rd r) = rrem b) \/ (tr_err r <> 0 /\ rerr b = true)).

Lemma rs_result_spec s n l : 0 <= n -> ps_bytes s = l -> ps_fin s <> 0 ->
  ps_fin (snd (fst (rs_result s n))) = ps_fin s /\
  ((snd (rs_result s n) = 0 /\ rerr (snd (r_bytes (Z.to_nat n) (rb l))) = false /\
    ps_bytes (snd (fst (rs_result s n))) = rrem (snd (r_bytes (Z.to_nat n) (rb l))) /\
    fst (fst (rs_result s n)) = fst (r_bytes (Z.to_nat n) (rb l)))
   \/ (snd (rs_result s n) <> 0 /\ rerr (snd (r_bytes (Z.to_nat n) (rb l))) = true /\ fst (fst (rs_result s n)) = [])).
Proof.
  intros Hn Hl Hf. unfold rs_result.
  destruct (read_full s n) as [[[readN err] data] s'] eqn:E.
  destruct (read_full_facts _ _ _ _ _ _ Hn E) as (Hd & Hr & Hfull & Hshort).
  unfold r_bytes, rb. cbn [rerr rrem]. rewrite Hl in *.
  destruct (Z.ltb_spec readN n) as [Lt|Ge]; cbn [fst snd].
  - destruct (Hshort Lt) as (Hlt & He & ->). cbn [ps_fin]. split; [reflexivity|]. right.
    split; [exact (He Hf)|]. split; [|reflexivity].
    destruct (Nat.ltb_spec (length l) (Z.to_nat n)) as [_|G]; [reflexivity|]. unfold zlen in Hlt. lia.
  - assert (Hrn : readN = n) by lia. destruct (Hfull Hrn) as (Hle & -> & -> & ->).
    destruct (Nat.ltb_spec (length l) (Z.to_nat n)) as [G|_]; [unfold zlen in Hle; lia|]. cbn [fst snd rerr rrem].
    split; [destruct (n =? 0); reflexivity|]. left.
    split; [reflexivity|]. split; [reflexivity|]. split; [|reflexivity].
    destruct (Z.eqb_spec n 0) as [->|_]; [cbn; exact Hl|reflexivity].
Qed.

Lemma sim_str r b n : sim r b -> 0 <= n ->
  exists v r', tr_read_string n r = Some (v, r') /\ sim r' (snd (r_string n b)) /\
               (rerr (snd (r_string n b)) = false -> v = fst (r_string n b)).
Proof.
  intros (Hok & Hb & Hf & [(E0 & Re & Hl)|(E1 & Re)]) Hn; unfold r_string.
  - destruct (tr_read_string_nf r n Hok E0 Hn) as (buf' & Lb & ->).
    destruct (rs_result_spec (tr_rd r) n (rrem b) Hn Hl Hf) as (Hfin & Hcase).
    pose proof (rs_result_bytes_ok (tr_rd r) n Hn Hb) as [_ B2].
    assert (Eb : b = rb (rrem b)) by (destruct b as [l e]; cbn in Re; subst e; reflexivity).
    rewrite Eb. cbn [rrem rb] in *. eexists _, _. split; [reflexivity|].
    destruct Hcase as [(He & Hr & Hrem & Hv)|(He & Hr & _)].
    + split; [|intros _; exact Hv].
      unfold sim, tr_ok. cbn [tr_rd tr_err tr_buf]. repeat split; try assumption; try congruence.
      left. repeat split; assumption.
    + split; [|intros C; congruence].
      unfold sim, tr_ok. cbn [tr_rd tr_err tr_buf]. repeat split; try assumption; try congruence.
      right. split; assumption.
  - rewrite (tr_read_string_err r n E1). eexists _, _. split; [reflexivity|].
    unfold r_bytes. rewrite Re. cbn [snd fst]. split; [|intros C; congruence].
    unfold sim. repeat split; try assumption. right. split; assumption.
Qed.

Lemma sim_u16 r b : sim r b ->
  sim (snd (tr_read_uint16 r)) (snd (r_u16 b)) /\ 0 <= fst (tr_read_uint16 r) /\
  fst (tr_read_uint16 r) = fst (r_u16 b).
Proof.
  intros (Hok & Hb & Hf & [(E0 & Re & Hl)|(E1 & Re)]); unfold r_u16, r_uint, bindR.
  - destruct (tr_read_uint16_nf r Hok E0) as (buf' & Lb & ->).
    destruct (rs_result_spec (tr_rd r) 2 (rrem b) ltac:(lia) Hl Hf) as (Hfin & Hcase).
    pose proof (rs_result_bytes_ok (tr_rd r) 2 ltac:(lia) Hb) as [B1 B2].
    assert (Eb : b = rb (rrem b)) by (destruct b as [l e]; cbn in Re; subst e; reflexivity).
    rewrite Eb. cbn [rrem rb] in *. change (Z.to_nat 2) with 2%nat in Hcase.
    destruct (rs_result (tr_rd r) 2) as [[v s'] e]. cbn [fst snd] in *.
    destruct (r_bytes 2 (rb (rrem b))) as [bs b1]. cbn [fst snd] in *.
    destruct Hcase as [(He & Hr & Hrem & Hv)|(He & Hr & Hv)].
    + rewrite Hr. split.
      * unfold sim, tr_ok. cbn [tr_rd tr_err tr_buf]. repeat split; try assumption; try congruence.
        left. repeat split; assumption.
      * subst v. split; [destruct bs; [lia|]; pose proof (unbe_range _ B1); lia|].
        destruct bs as [|x bs]; reflexivity.
    + rewrite Hr. split.
      * unfold sim, tr_ok. cbn [tr_rd tr_err tr_buf]. repeat split; try assumption; try congruence.
        right. split; assumption.
      * subst v. split; [lia|reflexivity].
  - rewrite (tr_read_uint16_err r E1). unfold r_bytes. rewrite Re. cbn [fst snd]. rewrite Re.
    split; [|split; [lia|reflexivity]].
    unfold sim. repeat split; try assumption. right. split; assumption.
Qed.

Lemma sim_len16 r b : sim r b ->
  exists v r', tr_read_len16 r = Some (v, r') /\ sim r' (snd (r_len16 b)) /\
               (rerr (snd (r_len16 b)) = false -> v = fst (r_len16 b)).
Proof.
  intros H. unfold tr_read_len16, r_len16, bindR. destruct (sim_u16 r b H) as (Hs & Hp & Hv).
  destruct (tr_read_uint16 r) as [n1 r1]. destruct (r_u16 b) as [n b1]. cbn [fst snd] in *. subst n1.
  apply sim_str; assumption.
Qed.

Lemma sim_sticky_err r b : sim r b -> tr_err r <> 0 -> rerr b = true.
Proof. intros (_ & _ & _ & [(E & _)|(_ & R)]) H; [contradiction|exact R]. Qed.
Lemma sim_err_iff r b : sim r b -> (tr_err r = 0 <-> rerr b = false).
Proof.
  intros (_ & _ & _ & [(E & R & _)|(E & R)]); split; intros C; try assumption.
  - contradiction.
  - rewrite R in C. discriminate.
Qed.

Lemma sim_loop k : forall r b acc, sim r b ->
  exists h r', tr_headers_loop k r acc = Some (h, r') /\ sim r' (snd (r_kv16s k b)) /\
               (rerr (snd (r_kv16s k b)) = false -> h = acc ++ fst (r_kv16s k b)).
Proof.
  induction k as [|k IH]; intros r b acc H; cbn [tr_headers_loop r_kv16s].
  - eexists _, _. split; [reflexivity|]. unfold retR. cbn. split; [exact H|]. intros _. rewrite app_nil_r. reflexivity.
  - unfold bindR, retR.
    destruct (Z.eqb_spec (tr_err r) 0) as [E0|E1]; cbn [negb].
    + destruct (sim_len16 r b H) as (key & r1 & -> & S1 & V1).
      destruct (r_len16 b) as [key' b1]. cbn [fst snd] in *.
      destruct (sim_len16 r1 b1 S1) as (v & r2 & -> & S2 & V2).
      pose proof (r_len16_sticky b1) as St1.
      destruct (r_len16 b1) as [v' b2]. cbn [fst snd] in *.
      destruct (IH r2 b2 (acc ++ [(key, v)]) S2) as (h & r' & -> & S3 & V3).
      pose proof (r_kv16s_sticky k b2) as St2.
      destruct (r_kv16s k b2) as [rest b3]. cbn [fst snd] in *.
      eexists _, _. split; [reflexivity|]. split; [exact S3|]. intros R3.
      assert (R2 : rerr b2 = false) by (destruct (rerr b2); [specialize (St2 eq_refl); congruence|reflexivity]).
      assert (R1 : rerr b1 = false) by (destruct (rerr b1); [specialize (St1 eq_refl); congruence|reflexivity]).
      rewrite (V3 R3), (V1 R1), (V2 R2), <- app_assoc. reflexivity.
    + eexists _, _. split; [reflexivity|]. pose proof (sim_sticky_err r b H E1) as R.
      pose proof (r_kv16s_sticky (S k) b R) as St. cbn [r_kv16s] in St. unfold bindR, retR in St.
      destruct (r_len16 b) as [key' b1]. destruct (r_len16 b1) as [v' b2]. destruct (r_kv16s k b2) as [rest b3].
      cbn [fst snd] in *. split; [|intros C; congruence].
      destruct H as (Hok & Hb & Hf & _). unfold sim. repeat split; try assumption. right. split; assumption.
Qed.

(* thrift.ReadHeaders through a pooled Reader in ANY state, on a header block that arrives as [bytes]
   followed by an error [fin] of the underlying reader (io.EOF for an argument that ends; the error of
   the argument reader otherwise): no panic, the error is nil exactly when the specification's decoder
   accepts the block, and then the headers are the specified ones *)
Theorem pooled_headers_spec pooled bytes fin : tr_ok pooled -> bytes_ok bytes = true -> fin <> 0 ->
  exists h e r', tr_ReadHeaders pooled (mkPS bytes fin) = Some (h, e, r') /\ tr_ok r' /\
    (e = 0 <-> rerr (snd (r_theaders (rb bytes))) = false) /\
    (e = 0 -> h = fst (r_theaders (rb bytes))).
Proof.
  intros Hok Hb Hf. unfold tr_ReadHeaders, tr_read_headers, r_theaders, bindR, retR.
  assert (S0 : sim (tr_new pooled (mkPS bytes fin)) (rb bytes)).
  { unfold sim, tr_new, tr_ok. cbn. repeat split; try assumption. left. repeat split; reflexivity. }
  destruct (sim_u16 _ _ S0) as (S1 & Hp & Hv).
  destruct (tr_read_uint16 (tr_new pooled (mkPS bytes fin))) as [n1 r1].
  destruct (r_u16 (rb bytes)) as [n b1]. cbn [fst snd] in *. subst n1.
  destruct (n =? 0).
  - eexists _, _, _. split; [reflexivity|]. split; [apply S1|]. cbn [fst snd]. split; [apply (sim_err_iff _ _ S1)|reflexivity].
  - destruct (sim_loop (Z.to_nat n) r1 b1 [] S1) as (h & r' & -> & S2 & V).
    destruct (r_kv16s (Z.to_nat n) b1) as [p b2]. cbn [fst snd] in *.
    eexists _, _, _. split; [reflexivity|]. split; [apply S2|]. split; [apply (sim_err_iff _ _ S2)|].
    intros E. rewrite (V (proj1 (sim_err_iff _ _ S2) E)). reflexivity.
Qed.

(* ---------------------------------------------------------------- the resets are necessary *)
(* a Get path that assigns only r.reader (the error field survives the pool): ONE malformed header
   block -- count 1, key length 5, one byte -- makes the same pooled object fail the next, well-formed
   block (of any connection) with the stale io.ErrUnexpectedEOF, although the specification accepts it *)
Theorem reader_err_reset_necessary :
  exists hostile good, bytes_ok hostile = true /\ bytes_ok good = true /\
    rerr (snd (r_theaders (rb good))) = false /\
    match tr_ReadHeaders_with tr_resets_no_err tr_fresh (mkPS hostile 1) with
    | Some (_, _, released) =>
        match tr_ReadHeaders_with tr_resets_no_err released (mkPS good 1) with
        | Some (_, e, _) => e = 2
        | None => False
        end
    | None => False
    end.
Proof. exists [0; 1; 0; 5; 97], [0; 1; 0; 1; 107; 0; 1; 118]. vm_compute. repeat split; reflexivity. Qed.

(* a Get path that clears the error but keeps the previous user's underlying reader: the next user
   decodes what the previous user's stream still held, not its own block *)
Theorem reader_reader_reset_necessary :
  exists first good, bytes_ok first = true /\ bytes_ok good = true /\
    match tr_ReadHeaders_with tr_resets_no_reader (mkTR (mkPS first 1) 0 (repeat 0 32)) (mkPS good 1) with
    | Some (h, e, _) => e = 0 /\ h <> fst (r_theaders (rb good))
    | None => False
    end.
Proof.
  exists [0; 1; 0; 1; 120; 0; 1; 121], [0; 1; 0; 1; 107; 0; 1; 118]. vm_compute.
  repeat split; try reflexivity. discriminate.
Qed.

(* ---------------------------------------------------------------- typed.Writer and its pooled scratch *)
Lemma tw_uint16_clean n ib w : length ib = 8%nat ->
  fst (tw_uint16 n ib w) = tw_bytes (be 2 n) w /\ length (snd (tw_uint16 n ib w)) = 8%nat.
Proof.
  intros L. unfold tw_uint16, tw_bytes. destruct (negb (tw_err w =? 0)); cbn [fst snd]; [split; [reflexivity|exact L]|].
  assert (L2 : 2%nat = length (be 2 n)) by (rewrite be_length; reflexivity).
  split.
  - unfold buf_store. rewrite L2 at 1. rewrite firstn_exact. reflexivity.
  - rewrite buf_store_length; [exact L|]. rewrite be_length, L. lia.
Qed.

Lemma tw_len16_clean b ib w : length ib = 8%nat ->
  fst (tw_len16 b ib w) = (if negb (tw_err w =? 0) then w else tw_bytes b (tw_bytes (be 2 (wrapU 16 (zlen b))) w)) /\
  length (snd (tw_len16 b ib w)) = 8%nat.
Proof.
  intros L. unfold tw_len16. destruct (negb (tw_err w =? 0)); cbn [fst snd]; [split; [reflexivity|exact L]|].
  destruct (tw_uint16_clean (wrapU 16 (zlen b)) ib w L) as [E1 E2].
  destruct (tw_uint16 (wrapU 16 (zlen b)) ib w) as [w1 ib1]. cbn [fst snd] in *. subst w1. split; [reflexivity|exact E2].
Qed.

(* whatever the pooled 8-byte scratch holds, a Writer writes the same bytes and ends in the same state *)
Theorem pooled_intbuf_clean : forall ops ib1 ib2 w, length ib1 = 8%nat -> length ib2 = 8%nat ->
  pwr_run_ops ops ib1 w = pwr_run_ops ops ib2 w.
Proof.
  induction ops as [|[[op a] b] rest IH]; intros ib1 ib2 w L1 L2; [reflexivity|]. cbn [pwr_run_ops].
  destruct (op =? 0).
  - destruct (tw_uint16_clean a ib1 w L1) as [E1 K1]. destruct (tw_uint16_clean a ib2 w L2) as [E2 K2].
    destruct (tw_uint16 a ib1 w) as [w1 j1]. destruct (tw_uint16 a ib2 w) as [w2 j2]. cbn [fst snd] in *. subst w1 w2.
    apply IH; assumption.
  - destruct (op =? 1); [apply IH; assumption|].
    destruct (tw_len16_clean b ib1 w L1) as [E1 K1]. destruct (tw_len16_clean b ib2 w L2) as [E2 K2].
    destruct (tw_len16 b ib1 w) as [w1 j1]. destruct (tw_len16 b ib2 w) as [w2 j2]. cbn [fst snd] in *. subst w1 w2.
    apply IH; assumption.
Qed.

(* ---------------------------------------------------------------- the harness entry point *)
(* the correspondence sub poolreader starts from the poisoned object; by the theorems above its
   header uses equal the specification on each block alone (the driver's spec_subs) *)
Lemma tr_poison_ok : tr_ok tr_poison.
Proof. reflexivity. Qed.
