(* Proofs about the relay's frame transformation (Model/RelayLazy.v, Model/RelayFwd.v):
   validateRelayMaxTimeout, the ttl clamp, transparency of the forwarded call req frame. *)
From Coq Require Import ZArith List Bool Lia ZifyBool.
From Verif Require Import Base.Wrap Base.Bytes Base.Wire Gen.GenConsts Gen.GenFrame Gen.GenRelayFwd
  Model.TypedBuf Model.Messages Model.Crc Model.Frag Model.FragWire Model.RelayLazy Model.RelayAppend Model.RelayFwd
  Spec.Protocol Spec.RelaySpec Proofs.CodecP.
Import ListNotations.
Local Open Scope Z_scope.

(* ---------------- validateRelayMaxTimeout ---------------- *)
Definition max_ok (maxT : Z) : Prop := 0 < Z.quot maxT ms_ns <= 4294967295.

Lemma validate_max_ok d : - 2 ^ 63 <= d < 2 ^ 63 -> max_ok (validateRelayMaxTimeout d).
Proof.
  intros Hd. unfold validateRelayMaxTimeout, max_ok, ms_ns.
  assert (Hq : - 2 ^ 63 <= Z.quot d 1000000 < 2 ^ 63).
  { destruct (Z.le_gt_cases 0 d) as [P|N].
    - rewrite Z.quot_div_nonneg by lia. split; [pose proof (Z.div_pos d 1000000 P); lia|].
      apply Z.div_lt_upper_bound; lia.
    - pose proof (Z.quot_opp_l d 1000000 ltac:(lia)) as E.
      assert (Q : 0 <= Z.quot (- d) 1000000 < 2 ^ 63 + 1).
      { rewrite Z.quot_div_nonneg by lia. split; [apply Z.div_pos; lia|]. apply Z.div_lt_upper_bound; lia. }
      lia. }
  rewrite (wrapS_id 64) by (change (64 - 1) with 63; lia).
  destruct ((Z.quot d 1000000 >? 0) && (Z.quot d 1000000 <=? 4294967295)) eqn:E.
  - lia.
  - assert (Z.quot c_u_defaultRelayMaxTimeout 1000000 = 120000) as Hdef by reflexivity.
    destruct (d =? 0); rewrite Hdef; lia.
Qed.

Lemma max_ok_range maxT : max_ok maxT -> 0 < maxT < 2 ^ 63.
Proof.
  unfold max_ok, ms_ns. intros H.
  destruct (Z.le_gt_cases maxT 0) as [N|P].
  - exfalso. destruct (Z.eq_dec maxT 0) as [->|Nz]; [cbn in H; lia|].
    pose proof (Z.quot_opp_l maxT 1000000 ltac:(lia)) as E.
    assert (0 <= Z.quot (- maxT) 1000000) by (rewrite Z.quot_div_nonneg by lia; apply Z.div_pos; lia). lia.
  - split; [exact P|]. rewrite Z.quot_div_nonneg in H by lia.
    pose proof (Z.mul_succ_div_gt maxT 1000000 ltac:(lia)). lia.
Qed.

(* ---------------- list helpers ---------------- *)
Lemma skipn_skipn_add {A} (a b : nat) (l : list A) : skipn b (skipn a l) = skipn (a + b) l.
Proof.
  revert l; induction a as [|a IH]; intros l; [reflexivity|].
  destruct l; [rewrite !skipn_nil; reflexivity|]. cbn [skipn plus]. apply IH.
Qed.

Lemma split_1_4 (p : list Z) : p = firstn 1 p ++ firstn 4 (skipn 1 p) ++ skipn 5 p.
Proof.
  change (skipn 5 p) with (skipn (1 + 4) p).
  rewrite <- (skipn_skipn_add 1 4 p). rewrite (firstn_skipn 4 (skipn 1 p)). symmetry. apply firstn_skipn.
Qed.

Lemma bytes_ok_firstn n l : bytes_ok l = true -> bytes_ok (firstn n l) = true.
Proof.
  intros H. rewrite <- (firstn_skipn n l) in H. rewrite bytes_ok_app in H. apply andb_true_iff in H. tauto.
Qed.
Lemma bytes_ok_skipn n l : bytes_ok l = true -> bytes_ok (skipn n l) = true.
Proof.
  intros H. rewrite <- (firstn_skipn n l) in H. rewrite bytes_ok_app in H. apply andb_true_iff in H. tauto.
Qed.

Lemma ttl_bytes_len (p : list Z) : 5 <= zlen p -> length (firstn 4 (skipn 1 p)) = 4%nat.
Proof. unfold zlen. intros H. rewrite firstn_length, skipn_length. lia. Qed.

Lemma ttl_range p : bytes_ok p = true -> 5 <= zlen p -> 0 <= sp_ttl p < 2 ^ 32.
Proof.
  intros Hb Hl. unfold sp_ttl.
  pose proof (unbe_range (firstn 4 (skipn 1 p)) (bytes_ok_firstn _ _ (bytes_ok_skipn _ _ Hb))) as R.
  rewrite (ttl_bytes_len p Hl) in R. exact R.
Qed.

Lemma lazy_ttl_is_spec p : lazy_ttl_ms p = sp_ttl p.
Proof. reflexivity. Qed.

Lemma lazyTTL_small t : 0 <= t < 2 ^ 32 -> lazyTTL t = t * 1000000.
Proof.
  intros H. unfold lazyTTL. rewrite (wrapS_id 64 t) by (change (64 - 1) with 63; lia).
  apply wrapS_id; [lia|]. change (64 - 1) with 63. lia.
Qed.

(* ---------------- the clamp is min(ttl, max), everything else untouched ---------------- *)
Lemma clamp_ttl_spec maxT p : max_ok maxT -> bytes_ok p = true -> 5 <= zlen p ->
  clamp_ttl maxT p = sp_clamp (Z.quot maxT ms_ns) p.
Proof.
  intros Hm Hb Hl. pose proof (max_ok_range _ Hm) as Hr. pose proof (ttl_range p Hb Hl) as Ht.
  unfold clamp_ttl, sp_clamp. rewrite lazy_ttl_is_spec, (lazyTTL_small _ Ht).
  unfold max_ok, ms_ns in *. rewrite Z.quot_div_nonneg in * by lia.
  set (M := maxT / 1000000) in *.
  assert (HM : M * 1000000 <= maxT < (M + 1) * 1000000).
  { subst M. pose proof (Z.mul_div_le maxT 1000000 ltac:(lia)). pose proof (Z.mul_succ_div_gt maxT 1000000 ltac:(lia)). lia. }
  destruct (sp_ttl p * 1000000 >? maxT) eqn:E.
  - unfold set_ttl, ms_ns. rewrite Z.quot_div_nonneg by lia. fold M.
    rewrite (wrapS_id 64 M) by (change (64 - 1) with 63; lia).
    rewrite (wrapU_id 32 M) by lia.
    replace (Z.min (sp_ttl p) M) with M by lia. reflexivity.
  - replace (Z.min (sp_ttl p) M) with (sp_ttl p) by lia.
    unfold sp_ttl. rewrite <- (ttl_bytes_len p Hl) at 1.
    rewrite be_unbe by (apply bytes_ok_firstn, bytes_ok_skipn, Hb).
    apply split_1_4.
Qed.

(* the forwarded ttl (ms) is min(received, floor(max/ms)): never larger than either *)
Lemma sp_clamp_ttl max_ms p : 0 <= max_ms < 2 ^ 32 -> bytes_ok p = true -> 5 <= zlen p ->
  sp_ttl (sp_clamp max_ms p) = Z.min (sp_ttl p) max_ms.
Proof.
  intros Hm Hb Hl. pose proof (ttl_range p Hb Hl) as Ht.
  unfold sp_clamp. unfold sp_ttl at 1.
  assert (L1 : length (firstn 1 p) = 1%nat) by (unfold zlen in Hl; rewrite firstn_length; lia).
  replace (skipn 1 (firstn 1 p ++ be 4 (Z.min (sp_ttl p) max_ms) ++ skipn 5 p))
    with (be 4 (Z.min (sp_ttl p) max_ms) ++ skipn 5 p).
  2:{ rewrite skipn_app, L1. rewrite (skipn_all2 (firstn 1 p)) by lia. reflexivity. }
  assert (F : forall (l r : list Z), length l = 4%nat -> firstn 4 (l ++ r) = l).
  { intros l r L. rewrite <- L. replace (length l) with (length l + 0)%nat by lia.
    rewrite firstn_app_2. cbn [firstn]. apply app_nil_r. }
  rewrite F by apply be_length.
  apply unbe_be. change (256 ^ Z.of_nat 4) with (2 ^ 32). lia.
Qed.

Lemma sp_clamp_len max_ms p : 5 <= zlen p -> zlen (sp_clamp max_ms p) = zlen p.
Proof.
  intros Hl. unfold sp_clamp. rewrite !zlen_app, zlen_be. unfold zlen in *.
  rewrite firstn_length, skipn_length. lia.
Qed.

Lemma sp_clamp_bytes_ok max_ms p : bytes_ok p = true -> bytes_ok (sp_clamp max_ms p) = true.
Proof.
  intros Hb. unfold sp_clamp. rewrite !bytes_ok_app, be_bytes_ok, (bytes_ok_firstn 1 p Hb), (bytes_ok_skipn 5 p Hb). reflexivity.
Qed.

(* ---------------- transparency of the forwarded call req frame ---------------- *)
(* everything of the call req message header behind the ttl *)
Definition callreq_tail : rbuf -> (span * list Z * kvs) * rbuf :=
  s <- r_span ;; svc <- r_len8 ;; h <- r_headers ;; retR (s, svc, h).

Lemma r_u32_exact l4 rest : length l4 = 4%nat -> r_u32 (rb (l4 ++ rest)) = (unbe l4, rb rest).
Proof.
  intros L. unfold r_u32, r_uint, bindR, r_bytes, rb. cbn [rerr rrem].
  rewrite app_length, L. cbn [Nat.ltb Nat.leb plus].
  replace (firstn 4 (l4 ++ rest)) with l4.
  2:{ rewrite <- L. replace (length l4) with (length l4 + 0)%nat by lia. rewrite firstn_app_2. cbn [firstn]. symmetry. apply app_nil_r. }
  replace (skipn 4 (l4 ++ rest)) with rest.
  2:{ rewrite <- L. rewrite skipn_app, skipn_all, Nat.sub_diag. reflexivity. }
  reflexivity.
Qed.

Lemma r_callreq_split l4 rest : length l4 = 4%nat ->
  r_callreq (rb (l4 ++ rest)) =
  (let '((s, svc, h), r) := callreq_tail (rb rest) in (mkCallReq (wrapS 64 (unbe l4 * ms_ns)) s svc h, r)).
Proof.
  intros L. unfold r_callreq, callreq_tail. unfold bindR at 1. rewrite (r_u32_exact l4 rest L).
  unfold bindR, retR.
  destruct (r_span (rb rest)) as [s ra]. destruct (r_len8 ra) as [svc rb']. destruct (r_headers rb') as [hh rc]. reflexivity.
Qed.

Lemma r_u8_cons f X : r_u8 (rb (f :: X)) = (f, rb X).
Proof.
  unfold r_u8, r_uint, bindR, r_bytes, rb. cbn [rerr rrem length Nat.ltb Nat.leb firstn skipn].
  reflexivity.
Qed.

Theorem relay_callreq_transparent : forall maxT newid h p,
  max_ok maxT -> bytes_ok p = true -> 5 <= zlen p ->
  let h' := set_id h newid in
  let p' := clamp_ttl maxT p in
  fh_id h' = newid /\ fh_type h' = fh_type h /\ fh_size h' = fh_size h /\ fh_res1 h' = fh_res1 h /\
  zlen p' = zlen p /\ bytes_ok p' = true /\
  (let '(fl, r0) := r_u8 (rb p) in let '(m, r1) := r_callreq r0 in
   let '(fl', r0') := r_u8 (rb p') in let '(m', r1') := r_callreq r0' in
   fl' = fl /\ r1' = r1 /\
   cq_span m' = cq_span m /\ cq_service m' = cq_service m /\ cq_headers m' = cq_headers m /\
   cq_ttl_ns m' = Z.min (cq_ttl_ns m) (Z.quot maxT ms_ns * ms_ns)) /\
  parse_frag_payload c_messageTypeCallReq p' = parse_frag_payload c_messageTypeCallReq p.
Proof.
  intros maxT newid h p Hm Hb Hl. cbv zeta.
  rewrite (clamp_ttl_spec maxT p Hm Hb Hl).
  split; [reflexivity|]. split; [reflexivity|]. split; [reflexivity|]. split; [reflexivity|].
  split; [apply sp_clamp_len, Hl|]. split; [apply sp_clamp_bytes_ok, Hb|].
  pose proof (ttl_range p Hb Hl) as Ht. pose proof (max_ok_range _ Hm) as Hr.
  assert (HM : 0 < Z.quot maxT ms_ns <= 4294967295) by exact Hm.
  set (M := Z.quot maxT ms_ns) in *.
  (* p = f :: t4 ++ rest *)
  assert (Ep : exists f, p = f :: firstn 4 (skipn 1 p) ++ skipn 5 p).
  { pose proof (split_1_4 p) as E. destruct p as [|f p0]; [unfold zlen in Hl; cbn in Hl; lia|].
    exists f. exact E. }
  destruct Ep as [f Ep].
  assert (L4 : length (firstn 4 (skipn 1 p)) = 4%nat) by (apply ttl_bytes_len, Hl).
  set (t4 := firstn 4 (skipn 1 p)) in *. set (rest := skipn 5 p) in *.
  assert (Ec : sp_clamp M p = f :: be 4 (Z.min (sp_ttl p) M) ++ rest).
  { unfold sp_clamp. fold rest. rewrite Ep at 1. reflexivity. }
  rewrite Ec. rewrite Ep at 1 3.
  assert (Hmin : 0 <= Z.min (sp_ttl p) M < 2 ^ 32) by lia.
  split.
  - rewrite !r_u8_cons. rewrite (r_callreq_split t4 rest L4), (r_callreq_split _ rest (be_length 4 _)).
    destruct (callreq_tail (rb rest)) as [[[s svc] hh] r].
    cbn [cq_span cq_service cq_headers cq_ttl_ns].
    split; [reflexivity|]. split; [reflexivity|]. split; [reflexivity|]. split; [reflexivity|]. split; [reflexivity|].
    rewrite unbe_be by (change (256 ^ Z.of_nat 4) with (2 ^ 32); exact Hmin).
    change (unbe t4) with (sp_ttl p). unfold ms_ns in *.
    rewrite !(wrapS_id 64) by (change (64 - 1) with 63; lia).
    rewrite Z.mul_min_distr_nonneg_r by lia. reflexivity.
  - unfold parse_frag_payload. rewrite !r_u8_cons.
    change (c_messageTypeCallReq =? c_messageTypeCallReq) with true. cbv iota.
    rewrite (r_callreq_split t4 rest L4), (r_callreq_split _ rest (be_length 4 _)).
    destruct (callreq_tail (rb rest)) as [[[s svc] hh] r]. reflexivity.
Qed.

(* continuation, response and error frames: only the id is rewritten *)
Theorem relay_other_transparent : forall newid h p,
  let h' := set_id h newid in
  fh_id h' = newid /\ fh_type h' = fh_type h /\ fh_size h' = fh_size h /\ fh_res1 h' = fh_res1 h /\
  frame_out h' p = firstn 4 (frame_out h p) ++ be 4 newid ++ skipn 8 (frame_out h p).
Proof.
  intros newid h p. cbv zeta. repeat (split; [reflexivity|]).
  unfold frame_out, set_id. cbn [fh_size fh_type fh_res1 fh_id].
  unfold w_fheader, w_u16, w_u8, w_u32, w_uint, seqW, w_bytes, wb. cbn [werr wroom wout].
  cbn [Z.eqb negb].
  rewrite !zlen_be. unfold zlen. cbn [length repeat Z.of_nat Pos.of_succ_nat Pos.succ].
  cbn [Z.ltb Z.compare Pos.compare Pos.compare_cont Z.sub Z.add Z.opp Z.pos_sub Pos.pred_double Z.eqb negb app wout werr wroom].
  reflexivity.
Qed.
