(* C17, last clause: a sub-channel call made in a retry attempt avoids the peers already
   tried while untried ones exist -- from the peer selection theorem of C15. *)
From Coq Require Import ZArith List Bool Lia.
From Verif Require Import Base.Wrap Spec.PeerSelect Model.PeerHeap Model.PeerList Proofs.PeerListP Model.Retry.
Import ListNotations.
Local Open Scope Z_scope.

Lemma existsb_In {A} (f : A -> bool) l x : In x l -> f x = true -> existsb f l = true.
Proof. intros Hi Hf. apply existsb_exists. exists x. auto. Qed.

(* If some member of the list has an untried host:port, Get returns a member whose host:port
   is untried; if some member has an untried host:port AND an untried host, Get returns such a
   member.  [prev] is the request's selected set (what AddSelectedPeer accumulated). *)
Theorem get_avoids_tried : forall ops l prev d l' p n,
  lrun pl_empty ops = Some l -> pl_get l prev d = Some (l', SelOk p, n) ->
  ((exists q, In q (pl_keys l) /\ tier2 prev q = true) -> tier2 prev p = true) /\
  ((exists q, In q (pl_keys l) /\ tier1 prev q = true) -> tier1 prev p = true).
Proof.
  intros ops l prev d l' p n Hr Hg.
  pose proof (min_eligible_reachable ops l prev d Hr) as H. rewrite Hg in H.
  destruct H as [[s [_ [He _]]] _]. unfold eligible_get in He.
  split; intros [q [Hq Ht]].
  - destruct (existsb (tier1 prev) (pl_keys l)) eqn:E1.
    + unfold tier1 in He. apply andb_true_iff in He as [A _]. exact A.
    + pose proof (existsb_In (tier2 prev) (pl_keys l) q Hq Ht) as E2. rewrite E2 in He. exact He.
  - pose proof (existsb_In (tier1 prev) (pl_keys l) q Hq Ht) as E1. rewrite E1 in He. exact He.
Qed.

(* the retry model's host function is the selection spec's host function *)
Lemma get_host_host_of hp : get_host hp = host_of hp.
Proof. reflexivity. (* the two host functions are the same fixpoint *) Qed.
