(* Proofs about Model/CallDrain.v: every call that is over for its owner has shut its
   exchange down, for every interleaving; hence (Proofs/MexDrainP.v) the exchange maps are empty. *)
From Coq Require Import ZArith List Bool Lia ZifyBool.
From Verif Require Import Base.Wire Model.MexDrain Model.CallDrain Proofs.MexDrainP.
Import ListNotations.
Local Open Scope Z_scope.

(* ---- the exits of the writer ---------------------------------------------------------- *)

(* An operation that calls mex.shutdown() does so on a writer that had not failed, returns an
   error and marks the writer failed; an operation that returns an error WITHOUT calling
   shutdown() is the sticky error of a writer that failed (and shut down) before. *)
Lemma op_code_sound werr o :
  op_enabled o = true ->
  let c := op_code werr o in
  (x_shut c = true -> werr = false /\ x_err c = true /\ x_set c = true) /\
  (x_shut c = false -> x_set c = false /\ (x_err c = true -> werr = true)).
Proof.
  intros He. destruct o as [state_ok b|ce|ce arm]; cbn [op_enabled] in He.
  - assert (Hb : b = 0 \/ b = 1 \/ b = 2) by lia.
    destruct Hb as [->|[->| ->]]; destruct werr, state_ok; vm_compute; repeat split; intros; congruence.
  - destruct werr, ce; vm_compute; repeat split; intros; congruence.
  - assert (Ha : arm = 0 \/ arm = 1 \/ arm = 2) by lia.
    destruct Ha as [->|[->| ->]]; destruct werr, ce; vm_compute; repeat split; intros; congruence.
Qed.

(* the same read on flushFragment alone: whatever makes it return an error, the exchange is
   shut down by that call or was shut down by the failure that made the error sticky *)
Lemma flush_error_shuts werr ce arm :
  0 <= arm <= 2 ->
  x_err (w_flush_fragment werr ce arm) = true ->
  x_shut (w_flush_fragment werr ce arm) = true \/ werr = true.
Proof.
  intros Ha He. assert (H : arm = 0 \/ arm = 1 \/ arm = 2) by lia.
  destruct H as [->|[->| ->]]; destruct werr, ce; vm_compute in *; auto; discriminate.
Qed.

(* ---- the program counters of the exchange objects under the set's steps ---------------- *)

Definition pcs (m : mexset) : list Z := map mo_pc (ms_objs m).

Lemma map_upd_nth {A B} (f : A -> B) n x l : map f (upd_nth n x l) = upd_nth n (f x) (map f l).
Proof.
  revert n. induction l as [|y r IH]; intros n; destruct n; cbn [upd_nth map]; try reflexivity.
  rewrite IH. reflexivity.
Qed.

Lemma upd_nth_same {A} n (x : A) l : nth_error l n = Some x -> upd_nth n x l = l.
Proof.
  revert n. induction l as [|y r IH]; intros n; destruct n; cbn [upd_nth nth_error]; intros H; try reflexivity.
  - injection H as ->. reflexivity.
  - rewrite (IH _ H). reflexivity.
Qed.

Lemma nth_upd_nth_same {A} n (x : A) l : (n < length l)%nat -> nth_error (upd_nth n x l) n = Some x.
Proof.
  revert n. induction l as [|y r IH]; intros n Hn; cbn [length] in Hn; [lia|].
  destruct n; cbn [upd_nth nth_error]; [reflexivity|]. apply IH. lia.
Qed.

Lemma upd_nth_length {A} n (x : A) l : length (upd_nth n x l) = length l.
Proof.
  revert n. induction l as [|y r IH]; intros n; destruct n; cbn [upd_nth length]; try reflexivity.
  rewrite IH. reflexivity.
Qed.

Lemma notify_all_pcs hs : forall objs, map mo_pc (notify_all hs objs) = map mo_pc objs.
Proof.
  induction hs as [|h r IH]; intros objs; cbn [notify_all]; [reflexivity|].
  destruct (h <? 0); [apply IH|].
  destruct (nth_error objs (Z.to_nat h)) as [o|] eqn:Hn; [|apply IH].
  rewrite IH, map_upd_nth. cbn [mo_pc].
  apply upd_nth_same. rewrite nth_error_map, Hn. reflexivity.
Qed.

Lemma delete_exchange_objs id m : ms_objs (snd (delete_exchange id m)) = ms_objs m.
Proof.
  unfold delete_exchange. destruct (has_key id (ms_exch m)); [reflexivity|].
  destruct (has id (ms_expired m)); reflexivity.
Qed.

Lemma remove_exchange_objs id m : ms_objs (remove_exchange id m) = ms_objs m.
Proof.
  unfold remove_exchange. pose proof (delete_exchange_objs id m) as H.
  destruct (delete_exchange id m) as [[f e] m1]. cbn [snd] in H.
  destruct (f || e); cbn [add_recheck ms_objs]; exact H.
Qed.

Lemma expire_exchange_objs id m : ms_objs (expire_exchange id m) = ms_objs m.
Proof.
  unfold expire_exchange. pose proof (delete_exchange_objs id m) as H.
  destruct (delete_exchange id m) as [[f e] m1]. cbn [snd] in H.
  destruct (f || e); cbn [add_recheck ms_objs]; exact H.
Qed.

Lemma get_obj_pcs m h o : get_obj m h = Some o -> nth_error (pcs m) (Z.to_nat h) = Some (mo_pc o).
Proof. intros H. unfold pcs. rewrite nth_error_map, (get_obj_nth _ _ _ H). reflexivity. Qed.

Lemma pcs_new m id m' :
  mstep m (MNew id) = Some m' ->
  pcs m' = if ms_shutdown m || has_key id (ms_exch m) then pcs m else pcs m ++ [0].
Proof.
  cbn [mstep]. destruct (ms_shutdown m); cbn [orb].
  - intros H. injection H as <-. reflexivity.
  - destruct (has_key id (ms_exch m)); intros H; injection H as <-; [reflexivity|].
    unfold pcs. cbn [ms_objs]. rewrite map_app. reflexivity.
Qed.

Lemma pcs_cas m h o m' :
  get_obj m h = Some o -> mstep m (MShutCas h) = Some m' ->
  pcs m' = if mo_pc o =? 0 then upd_nth (Z.to_nat h) 1 (pcs m) else pcs m.
Proof.
  intros Hg. cbn [mstep]. rewrite Hg. destruct (mo_pc o =? 0); intros H; injection H as <-; [|reflexivity].
  unfold pcs, set_obj. cbn [ms_objs]. rewrite map_upd_nth. reflexivity.
Qed.

Lemma pcs_remove m h m' :
  mstep m (MShutRemove h) = Some m' ->
  exists o, get_obj m h = Some o /\ mo_pc o = 1 /\ pcs m' = upd_nth (Z.to_nat h) 2 (pcs m).
Proof.
  cbn [mstep]. destruct (get_obj m h) as [o|] eqn:Hg; [|discriminate].
  destruct (mo_pc o =? 1) eqn:E; [|discriminate]. intros H. injection H as <-.
  exists o. split; [reflexivity|]. split; [lia|].
  unfold pcs. rewrite remove_exchange_objs. unfold set_obj. cbn [ms_objs]. rewrite map_upd_nth. reflexivity.
Qed.

Lemma pcs_env m l m' :
  (exists h, l = MExpire h) \/ l = MStop \/ (exists id, l = MForward id) ->
  mstep m l = Some m' -> pcs m' = pcs m.
Proof.
  intros [[h ->]|[->|[id ->]]]; cbn [mstep].
  - destruct (get_obj m h); [|discriminate]. intros H. injection H as <-.
    unfold pcs. rewrite expire_exchange_objs. reflexivity.
  - destruct (ms_shutdown m); intros H; injection H as <-; [reflexivity|].
    unfold pcs. cbn [ms_objs]. apply notify_all_pcs.
  - intros H. injection H as <-. reflexivity.
Qed.

(* ---- the invariant: thread t and exchange object t ------------------------------------ *)

Definition TI (x : cthread) (opc : Z) : Prop :=
  (ct_pc x = 0 /\ opc = (if ct_werr x then 2 else 0) /\ (ct_lasterr x = true -> ct_werr x = true)) \/
  (ct_pc x = 1 /\ opc = 0 /\ (ct_after x = 0 /\ ct_werr x = true \/ ct_after x = 3)) \/
  (ct_pc x = 2 /\ opc = 1 /\ (ct_after x = 0 /\ ct_werr x = true \/ ct_after x = 3)) \/
  (ct_pc x = 3 /\ opc = 2).

Definition CInv (s : cstate) : Prop := Forall2 TI (cs_thr s) (pcs (cs_mex s)).

Lemma Forall2_nth {A B} (R : A -> B -> Prop) l1 l2 n x :
  Forall2 R l1 l2 -> nth_error l1 n = Some x -> exists y, nth_error l2 n = Some y /\ R x y.
Proof.
  intros H. revert n. induction H as [|a b r1 r2 Hab _ IH]; intros n Hn.
  - destruct n; discriminate.
  - destruct n; cbn [nth_error] in *.
    + injection Hn as <-. exists b. split; [reflexivity|exact Hab].
    + apply IH. exact Hn.
Qed.

Lemma Forall2_upd {A B} (R : A -> B -> Prop) l1 l2 n x y :
  Forall2 R l1 l2 -> R x y -> Forall2 R (upd_nth n x l1) (upd_nth n y l2).
Proof.
  intros H Hxy. revert n. induction H as [|a b r1 r2 Hab Hr IH]; intros n; destruct n; cbn [upd_nth]; constructor; auto.
Qed.

Lemma Forall2_upd_l {A B} (R : A -> B -> Prop) l1 l2 n x y :
  Forall2 R l1 l2 -> nth_error l2 n = Some y -> R x y -> Forall2 R (upd_nth n x l1) l2.
Proof.
  intros H Hn Hxy. rewrite <- (upd_nth_same n y l2 Hn). apply Forall2_upd; assumption.
Qed.

Lemma get_thr_nth s t x : get_thr s t = Some x -> nth_error (cs_thr s) (Z.to_nat t) = Some x.
Proof. unfold get_thr. destruct (t <? 0); [discriminate|auto]. Qed.

Lemma CInv_init : CInv cs_init.
Proof. constructor. Qed.

Lemma CInv_thread_only s t x x' opc :
  CInv s -> get_thr s t = Some x -> nth_error (pcs (cs_mex s)) (Z.to_nat t) = Some opc ->
  TI x' opc -> CInv (set_thr s t x').
Proof.
  intros HI _ Hn HT. unfold CInv, set_thr. cbn [cs_thr cs_mex].
  eapply Forall2_upd_l; eauto.
Qed.

Lemma CInv_step s l s' : CInv s -> cstep s l = Some s' -> CInv s'.
Proof.
  intros HI Hs. destruct l as [id|t o|t|t|t|t|h| |id]; cbn [cstep] in Hs.
  - (* CBegin *)
    destruct (mstep (cs_mex s) (MNew id)) as [m|] eqn:Hm; [|discriminate].
    pose proof (pcs_new _ _ _ Hm) as Hp.
    destruct (ms_shutdown (cs_mex s) || has_key id (ms_exch (cs_mex s))); injection Hs as <-;
      unfold CInv; cbn [with_mex cs_thr cs_mex]; rewrite Hp; [exact HI|].
    apply Forall2_app; [exact HI|]. constructor; [|constructor].
    left. cbn. repeat split; intros; congruence.
  - (* COp *)
    destruct (get_thr s t) as [x|] eqn:Hg; [|discriminate].
    destruct ((ct_pc x =? 0) && op_enabled o) eqn:Hen; [|discriminate].
    apply andb_true_iff in Hen as [Hpc Hop].
    destruct (Forall2_nth _ _ _ _ _ HI (get_thr_nth _ _ _ Hg)) as (opc & Hn & HT).
    destruct HT as [(_ & Hopc & Hle)|[(H1 & _)|[(H1 & _)|(H1 & _)]]]; try lia.
    pose proof (op_code_sound (ct_werr x) o Hop) as [Hshut Hnoshut]. cbn zeta in Hshut, Hnoshut.
    destruct (x_shut (op_code (ct_werr x) o)) eqn:Hsh; injection Hs as <-.
    + destruct (Hshut eq_refl) as (Hw & He & Hse).
      eapply CInv_thread_only; eauto. right. left. cbn [ct_pc ct_after ct_werr].
      rewrite Hse, orb_true_r. rewrite Hw in Hopc. auto.
    + destruct (Hnoshut eq_refl) as (Hse & He).
      eapply CInv_thread_only; eauto. left. cbn [ct_pc ct_werr ct_lasterr].
      rewrite Hse, orb_false_r. auto.
  - (* CFinish *)
    destruct (get_thr s t) as [x|] eqn:Hg; [|discriminate].
    destruct ((ct_pc x =? 0) && negb (ct_werr x)) eqn:Hen; [|discriminate].
    apply andb_true_iff in Hen as [Hpc Hw]. injection Hs as <-.
    destruct (Forall2_nth _ _ _ _ _ HI (get_thr_nth _ _ _ Hg)) as (opc & Hn & HT).
    destruct HT as [(_ & Hopc & Hle)|[(H1 & _)|[(H1 & _)|(H1 & _)]]]; try lia.
    eapply CInv_thread_only; eauto. right. left. cbn [ct_pc ct_after ct_werr].
    destruct (ct_werr x); [discriminate|]. auto.
  - (* CCas *)
    destruct (get_thr s t) as [x|] eqn:Hg; [|discriminate].
    destruct (get_obj (cs_mex s) t) as [o|] eqn:Ho; [|discriminate].
    destruct (ct_pc x =? 1) eqn:Hpc; [|discriminate].
    destruct (mstep (cs_mex s) (MShutCas t)) as [m|] eqn:Hm; [|discriminate]. injection Hs as <-.
    destruct (Forall2_nth _ _ _ _ _ HI (get_thr_nth _ _ _ Hg)) as (opc & Hn & HT).
    rewrite (get_obj_pcs _ _ _ Ho) in Hn. injection Hn as <-.
    destruct HT as [(H1 & _)|[(_ & Hopc & Haf)|[(H1 & _)|(H1 & _)]]]; try lia.
    pose proof (pcs_cas _ _ _ _ Ho Hm) as Hp. rewrite Hopc in *. cbn [Z.eqb] in *.
    unfold CInv, set_thr, with_mex. cbn [cs_thr cs_mex]. rewrite Hp.
    apply Forall2_upd; [exact HI|]. right. right. left. cbn [ct_pc ct_after ct_werr]. auto.
  - (* CRemove *)
    destruct (get_thr s t) as [x|] eqn:Hg; [|discriminate].
    destruct (ct_pc x =? 2) eqn:Hpc; [|discriminate].
    destruct (mstep (cs_mex s) (MShutRemove t)) as [m|] eqn:Hm; [|discriminate]. injection Hs as <-.
    destruct (pcs_remove _ _ _ Hm) as (o & Ho & Hopc1 & Hp).
    destruct (Forall2_nth _ _ _ _ _ HI (get_thr_nth _ _ _ Hg)) as (opc & Hn & HT).
    destruct HT as [(H1 & _)|[(H1 & _)|[(_ & Hopc & Haf)|(H1 & _)]]]; try lia.
    unfold CInv, set_thr, with_mex. cbn [cs_thr cs_mex]. rewrite Hp.
    apply Forall2_upd; [exact HI|].
    destruct Haf as [(Ha & Hw)| Ha]; rewrite Ha.
    + left. cbn [ct_pc ct_werr ct_lasterr]. rewrite Hw. auto.
    + right. right. right. cbn [ct_pc]. auto.
  - (* CGiveUp *)
    destruct (get_thr s t) as [x|] eqn:Hg; [|discriminate].
    destruct ((ct_pc x =? 0) && ct_lasterr x) eqn:Hen; [|discriminate].
    apply andb_true_iff in Hen as [Hpc Hl]. injection Hs as <-.
    destruct (Forall2_nth _ _ _ _ _ HI (get_thr_nth _ _ _ Hg)) as (opc & Hn & HT).
    destruct HT as [(_ & Hopc & Hle)|[(H1 & _)|[(H1 & _)|(H1 & _)]]]; try lia.
    eapply CInv_thread_only; eauto. right. right. right. cbn [ct_pc].
    rewrite (Hle Hl) in Hopc. auto.
  - (* CExpire *)
    unfold lift_mex in Hs. destruct (mstep (cs_mex s) (MExpire h)) as [m|] eqn:Hm; [|discriminate]. injection Hs as <-.
    unfold CInv, with_mex. cbn [cs_thr cs_mex]. rewrite (pcs_env _ _ _ (or_introl (ex_intro _ h eq_refl)) Hm). exact HI.
  - unfold lift_mex in Hs. destruct (mstep (cs_mex s) MStop) as [m|] eqn:Hm; [|discriminate]. injection Hs as <-.
    unfold CInv, with_mex. cbn [cs_thr cs_mex]. rewrite (pcs_env _ _ _ (or_intror (or_introl eq_refl)) Hm). exact HI.
  - unfold lift_mex in Hs. destruct (mstep (cs_mex s) (MForward id)) as [m|] eqn:Hm; [|discriminate]. injection Hs as <-.
    unfold CInv, with_mex. cbn [cs_thr cs_mex]. rewrite (pcs_env _ _ _ (or_intror (or_intror (ex_intro _ id eq_refl))) Hm). exact HI.
Qed.

Lemma CInv_run ls : forall s s', CInv s -> crun s ls = Some s' -> CInv s'.
Proof.
  induction ls as [|l r IH]; intros s s' HI Hr; cbn [crun] in Hr.
  - injection Hr as <-. exact HI.
  - destruct (cstep s l) as [s1|] eqn:Hs; [|discriminate]. eapply IH; [|exact Hr]. eapply CInv_step; eauto.
Qed.

(* ---- link to the exchange-set model --------------------------------------------------- *)

Lemma mrun_app l1 : forall m l2, mrun m (l1 ++ l2) = match mrun m l1 with Some m1 => mrun m1 l2 | None => None end.
Proof.
  induction l1 as [|l r IH]; intros m l2; cbn [mrun app]; [reflexivity|].
  destruct (mstep m l); [apply IH|reflexivity].
Qed.

Lemma cstep_mrun s l s' : cstep s l = Some s' -> mrun (cs_mex s) (mlabels_of l) = Some (cs_mex s').
Proof.
  intros Hs. destruct l as [id|t o|t|t|t|t|h| |id]; cbn [cstep mlabels_of mrun] in *.
  - destruct (mstep (cs_mex s) (MNew id)) as [m|]; [|discriminate].
    destruct (ms_shutdown (cs_mex s) || has_key id (ms_exch (cs_mex s))); injection Hs as <-; reflexivity.
  - destruct (get_thr s t) as [x|]; [|discriminate].
    destruct ((ct_pc x =? 0) && op_enabled o); [|discriminate].
    destruct (x_shut (op_code (ct_werr x) o)); injection Hs as <-; reflexivity.
  - destruct (get_thr s t) as [x|]; [|discriminate].
    destruct ((ct_pc x =? 0) && negb (ct_werr x)); [|discriminate]. injection Hs as <-. reflexivity.
  - destruct (get_thr s t) as [x|]; [|discriminate]. destruct (get_obj (cs_mex s) t) as [o|]; [|discriminate].
    destruct (ct_pc x =? 1); [|discriminate].
    destruct (mstep (cs_mex s) (MShutCas t)) as [m|]; [|discriminate]. injection Hs as <-. reflexivity.
  - destruct (get_thr s t) as [x|]; [|discriminate]. destruct (ct_pc x =? 2); [|discriminate].
    destruct (mstep (cs_mex s) (MShutRemove t)) as [m|]; [|discriminate]. injection Hs as <-. reflexivity.
  - destruct (get_thr s t) as [x|]; [|discriminate].
    destruct ((ct_pc x =? 0) && ct_lasterr x); [|discriminate]. injection Hs as <-. reflexivity.
  - unfold lift_mex in Hs. destruct (mstep (cs_mex s) (MExpire h)) as [m|]; [|discriminate]. injection Hs as <-. reflexivity.
  - unfold lift_mex in Hs. destruct (mstep (cs_mex s) MStop) as [m|]; [|discriminate]. injection Hs as <-. reflexivity.
  - unfold lift_mex in Hs. destruct (mstep (cs_mex s) (MForward id)) as [m|]; [|discriminate]. injection Hs as <-. reflexivity.
Qed.

Lemma crun_mrun ls : forall s s', crun s ls = Some s' -> mrun (cs_mex s) (flat_map mlabels_of ls) = Some (cs_mex s').
Proof.
  induction ls as [|l r IH]; intros s s' Hr; cbn [crun flat_map] in *.
  - injection Hr as <-. reflexivity.
  - destruct (cstep s l) as [s1|] eqn:Hs; [|discriminate].
    rewrite mrun_app, (cstep_mrun _ _ _ Hs). apply IH. exact Hr.
Qed.

Lemma all_over_finished thr ps :
  Forall2 TI thr ps -> forallb (fun x => ct_pc x =? 3) thr = true -> forallb (fun p => p =? 2) ps = true.
Proof.
  intros H. induction H as [|x p r1 r2 Hxp _ IH]; cbn [forallb]; [reflexivity|].
  intros Ha. apply andb_true_iff in Ha as [H3 Hr]. rewrite (IH Hr), andb_true_r.
  destruct Hxp as [(H1 & _)|[(H1 & _)|[(H1 & _)|(_ & Hp)]]]; lia.
Qed.

(* Main theorem: for every history of calls (any number, ids reused at will, any interleaving of
   their writer operations, of the two halves of shutdown(), of expiry, stopExchanges and frame
   lookups): once every call is over for its owner -- it reached its normal end, or its owner
   dropped it after an operation returned an error -- every exchange object has finished
   shutting down, and the exchange maps are empty. *)
Theorem calls_drained : forall ls s,
  crun cs_init ls = Some s -> calls_over s = true ->
  mex_finished (cs_mex s) = true /\ ms_exch (cs_mex s) = [] /\ ms_expired (cs_mex s) = [].
Proof.
  intros ls s Hr Hover.
  pose proof (CInv_run ls _ _ CInv_init Hr) as HI.
  assert (Hfin : mex_finished (cs_mex s) = true).
  { unfold mex_finished. pose proof (all_over_finished _ _ HI Hover) as H.
    unfold pcs in H. rewrite forallb_forall in *. intros o Ho.
    apply (H (mo_pc o)). apply in_map. exact Ho. }
  split; [exact Hfin|].
  apply (mex_drained (flat_map mlabels_of ls)); [|exact Hfin].
  exact (crun_mrun ls _ _ Hr).
Qed.

(* The owner is never stuck: an error returned by a writer operation lets it drop the call. *)
Lemma error_lets_owner_go s t o s' x' :
  cstep s (COp t o) = Some s' -> get_thr s' t = Some x' -> ct_lasterr x' = true ->
  ct_pc x' = 1 \/ (exists s'', cstep s' (CGiveUp t) = Some s'').
Proof.
  intros Hs Hg Hl. destruct (ct_pc x' =? 1) eqn:E1; [left; lia|right].
  cbn [cstep] in Hs. destruct (get_thr s t) as [x|] eqn:Hgx; [|discriminate].
  destruct ((ct_pc x =? 0) && op_enabled o); [|discriminate].
  assert (Hlen : (Z.to_nat t < length (cs_thr s))%nat).
  { apply nth_error_Some. rewrite (get_thr_nth _ _ _ Hgx). discriminate. }
  assert (Htn : t <? 0 = false) by (unfold get_thr in Hgx; destruct (t <? 0); [discriminate|reflexivity]).
  destruct (x_shut (op_code (ct_werr x) o)); injection Hs as <-;
    unfold get_thr, set_thr in Hg; cbn [cs_thr] in Hg; rewrite Htn, (nth_upd_nth_same _ _ _ Hlen) in Hg;
    injection Hg as <-; cbn [ct_pc] in E1; try discriminate.
  cbn [ct_lasterr] in Hl. cbn [cstep]. unfold get_thr, set_thr. cbn [cs_thr].
  rewrite Htn, (nth_upd_nth_same _ _ _ Hlen). cbn [ct_pc ct_lasterr]. rewrite Hl. cbn. eexists. reflexivity.
Qed.
