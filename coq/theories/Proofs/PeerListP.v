(* Proofs about Model/PeerList.v: well-formedness of every PeerList after every history
   (map and heap agree, back-pointers, heap order on the score), minimality of the
   selection, no-peers, stamp bound and fairness. *)
From Coq Require Import ZArith List Bool Arith Lia ZifyNat ZifyBool Permutation.
From Verif Require Import Base.Wrap Gen.GenPeers Spec.PeerSelect Model.Retry Model.PeerHeap Model.PeerList Proofs.PeerHeapP.
Import ListNotations.
Ltac Zify.zify_post_hook ::= Z.to_euclidean_division_equations.
Local Open Scope Z_scope.

(* ---------------------------------------------------------------- the two edge relations *)
Definition ek_score (a b : Z * Z) : Prop := fst a <= fst b.
Lemma ek_score_le a b : kless b a = false -> ek_score a b.
Proof.
  unfold kless, ek_score. destruct a as [a1 a2], b as [b1 b2]; cbn [fst snd].
  destruct (Z.eqb_spec b1 a1); lia.
Qed.
Lemma ek_score_trans a b c : ek_score a b -> ek_score b c -> ek_score a c.
Proof. unfold ek_score; lia. Qed.

(* elements above the threshold K are in heap order *)
Definition ek_big (K a b : Z * Z) : Prop := kless K a = true -> kless b a = false.
Lemma ek_big_le K a b : kless b a = false -> ek_big K a b.
Proof. intros H _. exact H. Qed.
Lemma klt_le_trans K a b : kless K a = true -> kless b a = false -> kless K b = true.
Proof.
  unfold kless. destruct K as [k1 k2], a as [a1 a2], b as [b1 b2]; cbn [fst snd].
  destruct (Z.eqb_spec k1 a1), (Z.eqb_spec b1 a1), (Z.eqb_spec k1 b1); lia.
Qed.
Lemma ek_big_trans K a b c : ek_big K a b -> ek_big K b c -> ek_big K a c.
Proof.
  unfold ek_big. intros H1 H2 Ha. specialize (H1 Ha).
  eapply kle_trans; [exact H1|]. apply H2. eapply klt_le_trans; eassumption.
Qed.

Definition svalid := valid ek_score.

Lemma root_min h n : svalid h n -> forall k, (k < n)%nat -> ps_score (hget h 0) <= ps_score (hget h k).
Proof.
  intros Hv k. induction k as [k IH] using lt_wf_ind. intros Hk.
  destruct k as [|k]; [lia|].
  specialize (Hv (S k) ltac:(lia)). unfold edge, ek_score, key in Hv. cbn [fst] in Hv.
  specialize (IH (par (S k)) ltac:(unfold par; lia) ltac:(unfold par; lia)). lia.
Qed.

Lemma root_big K h n : valid (ek_big K) h n -> kless K (key (hget h 0)) = true ->
  forall k, (k < n)%nat -> kless K (key (hget h k)) = true.
Proof.
  intros Hv H0 k. induction k as [k IH] using lt_wf_ind. intros Hk.
  destruct k as [|k]; [exact H0|].
  specialize (Hv (S k) ltac:(lia)). unfold edge, ek_big in Hv.
  specialize (IH (par (S k)) ltac:(unfold par; lia) ltac:(unfold par; lia)).
  eapply klt_le_trans; [exact IH|]. now apply Hv.
Qed.

(* ---------------------------------------------------------------- small list facts *)
Definition hps (h : list pscore) : list hostport := map ps_hp h.
Definition hs (x : pscore) : hostport * Z := (ps_hp x, ps_score x).

Lemma ident_hp_perm a b : Permutation (map ident a) (map ident b) -> Permutation (hps a) (hps b).
Proof.
  intros H. apply (Permutation_map (fun t : list Z * Z * Z => fst (fst t))) in H.
  rewrite !map_map in H. exact H.
Qed.
Lemma ident_hs_perm a b : Permutation (map ident a) (map ident b) -> Permutation (map hs a) (map hs b).
Proof.
  intros H. apply (Permutation_map (fun t : list Z * Z * Z => (fst (fst t), snd (fst t)))) in H.
  rewrite !map_map in H. exact H.
Qed.
Lemma ident_order_perm a b : Permutation (map ident a) (map ident b) -> Permutation (map ps_order a) (map ps_order b).
Proof.
  intros H. apply (Permutation_map (fun t : list Z * Z * Z => snd t)) in H.
  rewrite !map_map in H. exact H.
Qed.

Lemma mem_In hp s : mem hp s = true <-> In hp s.
Proof.
  unfold mem. rewrite existsb_exists. split.
  - intros (x & Hx & E). apply bytes_eqb_eq in E. now subst.
  - intros H. exists hp. split; [exact H|now apply bytes_eqb_eq].
Qed.
Lemma mem_false hp s : mem hp s = false <-> ~ In hp s.
Proof. rewrite <- mem_In. destruct (mem hp s); split; congruence. Qed.

Lemma del_In hp s x : In x (del hp s) <-> In x s /\ x <> hp.
Proof.
  induction s as [|k s IH]; cbn; [tauto|].
  destruct (bytes_eqb hp k) eqn:E.
  - apply bytes_eqb_eq in E. subst k. rewrite IH. split; [tauto|]. intros [[->|H] Hne]; tauto.
  - assert (hp <> k) by (intros ->; rewrite (proj2 (bytes_eqb_eq k k) eq_refl) in E; discriminate).
    cbn. rewrite IH. split; [intros [->|[H1 H2]]; split; auto; congruence|tauto].
Qed.
Lemma del_NoDup hp s : NoDup s -> NoDup (del hp s).
Proof.
  induction 1 as [|k s Hk Hs IH]; cbn; [constructor|].
  destruct (bytes_eqb hp k); [exact IH|]. constructor; [|exact IH].
  rewrite del_In. tauto.
Qed.
Lemma del_perm hp s : NoDup s -> In hp s -> Permutation s (hp :: del hp s).
Proof.
  induction 1 as [|k s Hk Hs IH]; intros Hin; [destruct Hin|]. cbn.
  destruct (bytes_eqb hp k) eqn:E.
  - apply bytes_eqb_eq in E. subst k.
    assert (Ed : del hp s = s).
    { clear -Hk. induction s as [|y s IH]; [reflexivity|]. cbn.
      destruct (bytes_eqb hp y) eqn:E; [apply bytes_eqb_eq in E; subst; cbn in Hk; tauto|].
      f_equal. apply IH. cbn in Hk. tauto. }
    now rewrite Ed.
  - destruct Hin as [->|Hin]; [rewrite (proj2 (bytes_eqb_eq hp hp) eq_refl) in E; discriminate|].
    eapply perm_trans; [apply perm_skip, IH, Hin|apply perm_swap].
Qed.

(* ---------------------------------------------------------------- pointers *)
Lemma find_pos_some h hp p : find_pos h hp = Some p -> (p < length h)%nat /\ ps_hp (hget h p) = hp.
Proof.
  revert p; induction h as [|x h IH]; intros p H; [discriminate|]. cbn in H.
  destruct (bytes_eqb (ps_hp x) hp) eqn:E.
  - injection H as <-. apply bytes_eqb_eq in E. cbn. split; [lia|exact E].
  - destruct (find_pos h hp) as [k|]; [|discriminate]. injection H as <-.
    destruct (IH k eq_refl) as [H1 H2]. cbn [length]. split; [lia|exact H2].
Qed.
Lemma find_pos_in h hp : In hp (hps h) -> exists p, find_pos h hp = Some p.
Proof.
  induction h as [|x h IH]; intros H; [destruct H|]. cbn.
  destruct (bytes_eqb (ps_hp x) hp) eqn:E; [eauto|].
  destruct H as [H|H]; [apply bytes_eqb_eq in H; congruence|].
  destruct (IH H) as [p ->]. eauto.
Qed.

Lemma hget_In h k : (k < length h)%nat -> In (hget h k) h.
Proof. intros. unfold hget. now apply nth_In. Qed.
Lemma In_hget h x : In x h -> exists k, (k < length h)%nat /\ hget h k = x.
Proof. intros H. destruct (In_nth h x ps_dflt H) as (k & Hk & E). eauto. Qed.

(* ---------------------------------------------------------------- peerHeap operations *)
Definition hinv (h : list pscore) : Prop := idx_ok h /\ svalid h (length h).

Lemma svalid_scores h h' n : (forall k, ps_score (hget h' k) = ps_score (hget h k)) -> svalid h n -> svalid h' n.
Proof.
  intros E Hv k Hk. specialize (Hv k Hk). unfold edge, ek_score, key in *. cbn [fst] in *. now rewrite !E.
Qed.

Definition stamp (ctr d : Z) (len : nat) : Z :=
  wrapU 64 (wrapU 64 (ctr + 1) + intn d (Z.of_nat len / 2 + 1)).

Lemma push_peer_spec h ctr x d :
  let r := push_peer h ctr x d in
  length (fst r) = S (length h) /\ snd r = wrapU 64 (ctr + 1) /\
  (hinv h -> hinv (fst r)) /\
  Permutation (map ident (fst r)) (ident (set_order x (stamp ctr d (length h))) :: map ident h).
Proof.
  cbv zeta. unfold push_peer. cbn [fst snd].
  set (x' := set_order x _).
  destruct (heap_push_spec ek_score ek_score_le ek_score_trans h x') as (L & I & P & V).
  split; [exact L|]. split; [reflexivity|]. split; [|exact P].
  intros [Hi Hv]. split; [now apply I|]. unfold svalid. rewrite L. now apply V.
Qed.

Lemma find_ps_spec h hp : idx_ok h -> In hp (hps h) ->
  exists y, find_ps h hp = Some y /\ ps_hp y = hp /\ 0 <= ps_index y < Z.of_nat (length h).
Proof.
  intros Hi Hin. unfold find_ps.
  destruct (find (fun x => bytes_eqb (ps_hp x) hp) h) as [y|] eqn:E.
  - apply find_some in E as [Hy E]. apply bytes_eqb_eq in E.
    exists y. split; [reflexivity|]. split; [exact E|].
    destruct (In_hget h y Hy) as (k & Hk & <-). rewrite Hi by exact Hk. lia.
  - exfalso. unfold hps in Hin. apply in_map_iff in Hin as (x & Ex & Hx).
    pose proof (find_none _ _ E x Hx) as Hf. cbn in Hf. rewrite Ex in Hf.
    rewrite (proj2 (bytes_eqb_eq hp hp) eq_refl) in Hf. discriminate.
Qed.

Lemma idx_ok_set h i x : idx_ok h -> ps_index x = ps_index (hget h i) -> idx_ok (set_nth h i x).
Proof.
  intros Hi E k Hk. rewrite length_set_nth in Hk.
  destruct (Nat.eq_dec i k) as [->|Hne].
  - rewrite hget_set_eq by exact Hk. rewrite E. now apply Hi.
  - rewrite hget_set_neq by exact Hne. now apply Hi.
Qed.

Lemma swap_order_spec h i j : hinv h -> 0 <= i < Z.of_nat (length h) -> 0 <= j < Z.of_nat (length h) ->
  exists h', swap_order h i j = Some h' /\ length h' = length h /\ hinv h' /\
    Permutation (map hs h') (map hs h) /\ Permutation (map ps_order h') (map ps_order h).
Proof.
  intros [Hi Hv] Hri Hrj. unfold swap_order.
  destruct (Z.eqb_spec i j) as [Eij|Nij].
  { exists h. repeat split; auto. }
  destruct ((0 <=? i) && (i <? Z.of_nat (length h)) && (0 <=? j) && (j <? Z.of_nat (length h))) eqn:E; [|lia].
  set (i' := Z.to_nat i). set (j' := Z.to_nat j).
  assert (Hi' : (i' < length h)%nat) by (unfold i'; lia).
  assert (Hj' : (j' < length h)%nat) by (unfold j'; lia).
  assert (Nij' : i' <> j') by (unfold i', j'; lia).
  set (a := hget h i'). set (b := hget h j').
  set (h1 := set_nth h i' (set_order a (ps_order b))).
  set (h2 := set_nth h1 j' (set_order b (ps_order a))).
  assert (Eb : hget h1 j' = b) by (unfold h1; now rewrite hget_set_neq by exact Nij').
  assert (L1 : length h1 = length h) by (unfold h1; apply length_set_nth).
  assert (L2 : length h2 = length h) by (unfold h2; rewrite length_set_nth; exact L1).
  assert (I2 : idx_ok h2).
  { unfold h2. apply idx_ok_set; [unfold h1; apply idx_ok_set; [exact Hi|reflexivity]|now rewrite Eb]. }
  assert (Hs2 : map hs h2 = map hs h).
  { unfold h2. rewrite map_set_nth_same by (now rewrite Eb). unfold h1. now rewrite map_set_nth_same. }
  assert (Ho2 : Permutation (map ps_order h2) (map ps_order h)).
  { unfold h2, h1. rewrite !map_set_nth. cbn [set_order ps_order].
    replace (ps_order b) with (nth j' (map ps_order h) 0) by (unfold b, hget; change 0 with (ps_order ps_dflt); now rewrite map_nth).
    replace (ps_order a) with (nth i' (map ps_order h) 0) by (unfold a, hget; change 0 with (ps_order ps_dflt); now rewrite map_nth).
    apply lswap_perm; rewrite map_length; assumption. }
  assert (V2 : svalid h2 (length h2)).
  { rewrite L2. apply (svalid_scores h); [|exact Hv]. intros k.
    assert (Es : map ps_score h2 = map ps_score h).
    { unfold h2. rewrite map_set_nth_same by (now rewrite Eb). unfold h1. now rewrite map_set_nth_same. }
    unfold hget. rewrite <- !(map_nth ps_score). now rewrite Es. }
  destruct (heap_fix_spec ek_score ek_score_le ek_score_trans h2 i ltac:(lia)) as (h3 & E3 & S3 & V3).
  rewrite E3.
  assert (L3 : length h3 = length h) by (rewrite (same_len _ _ S3); exact L2).
  assert (Hv3 : svalid h3 (length h3)).
  { rewrite (same_len _ _ S3). apply V3. apply (valid_fix_pre _ ek_score_trans); [lia|exact V2]. }
  destruct (heap_fix_spec ek_score ek_score_le ek_score_trans h3 j ltac:(lia)) as (h4 & E4 & S4 & V4).
  exists h4. split; [exact E4|]. split; [rewrite (same_len _ _ S4); exact L3|].
  split.
  { split; [apply S4, S3, I2|]. rewrite (same_len _ _ S4). apply V4.
    apply (valid_fix_pre _ ek_score_trans); [lia|exact Hv3]. }
  assert (P : Permutation (map ident h4) (map ident h2)).
  { eapply perm_trans; [apply (same_perm _ _ S4)|apply (same_perm _ _ S3)]. }
  split.
  - rewrite <- Hs2. now apply ident_hs_perm.
  - eapply perm_trans; [apply ident_order_perm, P|exact Ho2].
Qed.

Lemma add_peer_spec h ctr x d1 d2 : hinv h ->
  exists h' , add_peer h ctr x d1 d2 = Some (h', wrapU 64 (ctr + 1)) /\
    length h' = S (length h) /\ hinv h' /\
    Permutation (map hs h') (hs x :: map hs h) /\
    Permutation (map ps_order h') (stamp ctr d1 (length h) :: map ps_order h).
Proof.
  intros Hinv. unfold add_peer.
  pose proof (push_peer_spec h ctr x d1) as Hp. cbv zeta in Hp.
  rewrite (surjective_pairing (push_peer h ctr x d1)).
  destruct Hp as (L1 & C1 & I1 & P1). specialize (I1 Hinv).
  set (h1 := fst (push_peer h ctr x d1)) in *. rewrite C1.
  assert (P1' : Permutation (map ident h1) (map ident (set_order x (stamp ctr d1 (length h)) :: h))) by exact P1.
  assert (Hin : In (ps_hp x) (hps h1)).
  { eapply Permutation_in; [apply Permutation_sym, ident_hp_perm; exact P1'|].
    cbn. left. reflexivity. }
  destruct (find_ps_spec h1 (ps_hp x) (proj1 I1) Hin) as (y & Ey & _ & Hy).
  rewrite Ey.
  assert (Hr : 0 <= intn d2 (Z.of_nat (length h1)) < Z.of_nat (length h1)).
  { unfold intn. apply Z.mod_pos_bound. lia. }
  destruct (swap_order_spec h1 (ps_index y) _ I1 Hy Hr) as (h2 & E2 & L2 & I2 & Ps & Po).
  rewrite E2. exists h2. split; [reflexivity|]. split; [lia|]. split; [exact I2|].
  split.
  - eapply perm_trans; [exact Ps|]. apply (ident_hs_perm _ _ P1').
  - eapply perm_trans; [exact Po|]. apply (ident_order_perm _ _ P1').
Qed.

Lemma update_score_spec h hp s : hinv h -> In hp (hps h) ->
  exists h', update_score h hp s = Some h' /\ length h' = length h /\ hinv h' /\
    Permutation (hps h') (hps h) /\ Permutation (map ps_order h') (map ps_order h).
Proof.
  intros [Hi Hv] Hin. unfold update_score.
  destruct (find_pos_in h hp Hin) as [p Ep]. rewrite Ep.
  destruct (find_pos_some h hp p Ep) as [Hp Ehp].
  set (y := hget h p). set (h1 := set_nth h p (set_score y s)).
  assert (L1 : length h1 = length h) by apply length_set_nth.
  assert (I1 : idx_ok h1) by (apply idx_ok_set; [exact Hi|reflexivity]).
  assert (Ey : ps_index y = Z.of_nat p) by (apply Hi; exact Hp).
  destruct (heap_fix_spec ek_score ek_score_le ek_score_trans h1 (ps_index y) ltac:(lia)) as (h2 & E2 & S2 & V2).
  rewrite E2. exists h2. split; [reflexivity|]. split; [rewrite (same_len _ _ S2); exact L1|].
  split.
  { split; [apply S2, I1|]. rewrite (same_len _ _ S2). apply V2. rewrite Ey, Nat2Z.id, L1.
    apply (fix_pre_of_valid _ ek_score_trans); [lia|exact Hp|exact Hv]. }
  pose proof (same_perm _ _ S2) as P.
  split.
  - eapply perm_trans; [apply ident_hp_perm, P|]. unfold hps, h1. now rewrite map_set_nth_same.
  - eapply perm_trans; [apply ident_order_perm, P|]. unfold h1. now rewrite map_set_nth_same.
Qed.

Lemma remove_peer_spec h hp : hinv h -> In hp (hps h) ->
  exists h' x, remove_peer h hp = Some h' /\ length h' = (length h - 1)%nat /\ hinv h' /\
    ps_hp x = hp /\ Permutation (map ident h) (ident x :: map ident h').
Proof.
  intros [Hi Hv] Hin. unfold remove_peer.
  destruct (find_pos_in h hp Hin) as [p Ep]. rewrite Ep.
  destruct (find_pos_some h hp p Ep) as [Hp Ehp].
  assert (Ey : ps_index (hget h p) = Z.of_nat p) by (apply Hi; exact Hp).
  destruct (heap_remove_spec ek_score ek_score_le ek_score_trans h (ps_index (hget h p)) ltac:(lia))
    as (h' & x & E & L & I & P & Ex & V).
  rewrite E. exists h', x. split; [reflexivity|]. split; [exact L|].
  split; [split; [now apply I|unfold svalid; rewrite L; now apply V]|].
  split; [|exact P].
  rewrite Ey, Nat2Z.id in Ex. unfold ident in Ex. congruence.
Qed.

(* ---------------------------------------------------------------- PeerList well-formedness *)
Definition wf (l : plist) : Prop :=
  NoDup (pl_keys l) /\ Permutation (pl_keys l) (hps (pl_arr l)) /\ hinv (pl_arr l).
Definition peers_of (l : plist) : list (hostport * Z) := map hs (pl_arr l).
Definition orders_of (l : plist) : list Z := map ps_order (pl_arr l).

Lemma wf_empty : wf pl_empty.
Proof.
  split; [constructor|]. split; [constructor|]. split; [intros k Hk; cbn in Hk; lia|intros k Hk; cbn in Hk; lia].
Qed.

Lemma hs_hp_perm a b : Permutation (map hs a) (map hs b) -> Permutation (hps a) (hps b).
Proof.
  intros H. apply (Permutation_map fst) in H. rewrite !map_map in H. exact H.
Qed.

Lemma wf_len l : wf l -> length (pl_keys l) = length (pl_arr l).
Proof. intros (_ & P & _). apply Permutation_length in P. unfold hps in P. now rewrite map_length in P. Qed.

Lemma pl_add_spec l hp s d1 d2 : wf l ->
  exists l' n, pl_add l hp s d1 d2 = Some (l', n) /\ wf l' /\
    (In hp (pl_keys l) -> l' = l /\ n = 0) /\
    (~ In hp (pl_keys l) ->
       pl_keys l' = pl_keys l ++ [hp] /\ n = 2 /\ pl_ctr l' = wrapU 64 (pl_ctr l + 1) /\
       length (pl_arr l') = S (length (pl_arr l)) /\
       Permutation (peers_of l') ((hp, s) :: peers_of l) /\
       Permutation (orders_of l') (stamp (pl_ctr l) d1 (length (pl_arr l)) :: orders_of l)).
Proof.
  intros (Hnd & Hperm & Hinv). unfold pl_add.
  destruct (mem hp (pl_keys l)) eqn:Em.
  - apply mem_In in Em. exists l, 0. split; [reflexivity|]. split; [exact (conj Hnd (conj Hperm Hinv))|].
    split; [auto|tauto].
  - apply mem_false in Em.
    destruct (add_peer_spec (pl_arr l) (pl_ctr l) (mkPS hp s 0 (-1)) d1 d2 Hinv) as (h' & E & L & I & Ps & Po).
    rewrite E. eexists; eexists. split; [reflexivity|].
    assert (Hk : Permutation (pl_keys l ++ [hp]) (hps h')).
    { eapply perm_trans; [apply Permutation_sym, Permutation_cons_append|].
      eapply perm_trans; [apply perm_skip, Hperm|]. apply Permutation_sym. apply (hs_hp_perm _ (_ :: _)) in Ps. exact Ps. }
    split.
    { split; [|split; [exact Hk|exact I]]. cbn [pl_keys].
      eapply Permutation_NoDup; [apply Permutation_cons_append|]. now constructor. }
    split; [tauto|]. intros _. cbn. repeat split; auto.
Qed.

Lemma pl_remove_spec l hp : wf l ->
  exists l' ok, pl_remove l hp = Some (l', ok) /\ wf l' /\
    (ok = false -> l' = l /\ ~ In hp (pl_keys l)) /\
    (ok = true -> In hp (pl_keys l) /\ pl_keys l' = del hp (pl_keys l) /\ pl_ctr l' = pl_ctr l /\
       length (pl_arr l') = (length (pl_arr l) - 1)%nat /\
       exists x, ps_hp x = hp /\ Permutation (map ident (pl_arr l)) (ident x :: map ident (pl_arr l'))).
Proof.
  intros (Hnd & Hperm & Hinv). unfold pl_remove.
  destruct (mem hp (pl_keys l)) eqn:Em.
  - apply mem_In in Em.
    assert (Hin : In hp (hps (pl_arr l))) by (eapply Permutation_in; eassumption).
    destruct (remove_peer_spec (pl_arr l) hp Hinv Hin) as (h' & x & E & L & I & Ex & P).
    rewrite E. eexists; eexists. split; [reflexivity|]. split.
    + split; [apply del_NoDup, Hnd|]. split; [|exact I]. cbn [pl_keys pl_arr].
      apply (Permutation_cons_inv (a := hp)).
      eapply perm_trans; [apply Permutation_sym, del_perm; assumption|].
      eapply perm_trans; [exact Hperm|].
      apply (ident_hp_perm _ (x :: h')) in P. rewrite <- Ex. exact P.
    + split; [discriminate|]. intros _. cbn. repeat split; auto. exists x. auto.
  - apply mem_false in Em. exists l, false. split; [reflexivity|]. split; [exact (conj Hnd (conj Hperm Hinv))|].
    split; [auto|discriminate].
Qed.

(* ---------------------------------------------------------------- choosePeer *)
Definition opt_list (c : option pscore) : list pscore := match c with Some x => [x] | None => [] end.

Lemma ident_In_score h y : In (ident y) (map ident h) -> exists y0, In y0 h /\ ps_score y0 = ps_score y /\ ps_hp y0 = ps_hp y.
Proof.
  intros H. apply in_map_iff in H as (y0 & E & Hy). exists y0. unfold ident in E. split; [exact Hy|]. split; congruence.
Qed.

Lemma choose_loop_spec can : forall fuel h popped, (fuel <= length h)%nat -> hinv h ->
  exists h' newp chosen, choose_loop fuel h popped can = Some (h', popped ++ newp, chosen) /\ hinv h' /\
    Forall (fun x => can (ps_hp x) = false) newp /\
    Permutation (map ident h) (map ident newp ++ map ident (opt_list chosen) ++ map ident h') /\
    match chosen with
    | Some x => can (ps_hp x) = true /\ forall y, In y h' -> ps_score x <= ps_score y
    | None => length newp = fuel
    end.
Proof.
  induction fuel as [|f IH]; intros h popped Hf Hinv.
  { exists h, [], None. cbn [choose_loop opt_list map app length]. rewrite app_nil_r.
    split; [reflexivity|]. split; [exact Hinv|]. split; [constructor|]. split; [apply Permutation_refl|reflexivity]. }
  assert (Hne : h <> []) by (intros ->; cbn in Hf; lia).
  destruct Hinv as [Hi Hv].
  destruct (heap_pop_spec ek_score ek_score_le h Hne) as (h1 & x & E & L & I & P & Ex & _ & V).
  cbn [choose_loop]. rewrite E.
  assert (Hinv1 : hinv h1) by (split; [now apply I|unfold svalid; rewrite L; now apply V]).
  destruct (can (ps_hp x)) eqn:Ec.
  - exists h1, [], (Some x). rewrite app_nil_r. split; [reflexivity|]. split; [exact Hinv1|].
    split; [constructor|]. split; [exact P|]. split; [exact Ec|].
    intros y Hy.
    assert (Hy' : In (ident y) (map ident h)).
    { eapply Permutation_in; [apply Permutation_sym, P|]. right. now apply in_map. }
    destruct (ident_In_score h y Hy') as (y0 & Hy0 & Es & _).
    destruct (In_hget h y0 Hy0) as (k & Hk & <-).
    replace (ps_score x) with (ps_score (hget h 0)) by (unfold ident in Ex; congruence).
    rewrite <- Es. apply (root_min h (length h)); assumption.
  - destruct (IH h1 (popped ++ [x]) ltac:(lia) Hinv1) as (h' & newp & chosen & E' & I' & F' & P' & M').
    exists h', (x :: newp), chosen. rewrite E'. rewrite <- app_assoc. split; [reflexivity|].
    split; [exact I'|]. split; [constructor; assumption|].
    split.
    { cbn [map app]. eapply perm_trans; [exact P|]. apply perm_skip. exact P'. }
    destruct chosen; [exact M'|]. cbn [length]. lia.
Qed.

Lemma fold_push_spec : forall popped h, hinv h ->
  hinv (fold_left heap_push popped h) /\
  Permutation (map ident (fold_left heap_push popped h)) (map ident popped ++ map ident h) /\
  length (fold_left heap_push popped h) = (length popped + length h)%nat.
Proof.
  induction popped as [|x r IH]; intros h Hinv; [cbn; auto|].
  cbn [fold_left].
  destruct (heap_push_spec ek_score ek_score_le ek_score_trans h x) as (L & I & P & V).
  assert (Hinv1 : hinv (heap_push h x)).
  { destruct Hinv as [Hi Hv]. split; [now apply I|]. unfold svalid. rewrite L. now apply V. }
  destruct (IH _ Hinv1) as (I2 & P2 & L2). split; [exact I2|]. split.
  - eapply perm_trans; [exact P2|]. cbn [map app].
    eapply perm_trans; [apply Permutation_app_head, P|]. apply Permutation_sym, Permutation_middle.
  - rewrite L2, L. cbn [length]. lia.
Qed.

Definition chosen_spec (can : hostport -> bool) (l l' : plist) (d : Z) (hp : hostport) : Prop :=
  can hp = true /\ pl_ctr l' = wrapU 64 (pl_ctr l + 1) /\
  exists x R, ps_hp x = hp /\
    Permutation (map ident (pl_arr l)) (ident x :: R) /\
    Permutation (map ident (pl_arr l'))
      (ident (set_order x (stamp (pl_ctr l) d (length (pl_arr l) - 1))) :: R) /\
    (forall t, In t R -> can (fst (fst t)) = true -> ps_score x <= snd (fst t)).

Lemma choose_peer_spec l prev avoid d : wf l ->
  exists l' chosen n, choose_peer l prev avoid d = Some (l', chosen, n) /\ wf l' /\
    pl_keys l' = pl_keys l /\ length (pl_arr l') = length (pl_arr l) /\
    match chosen with
    | None => n = 0 /\ pl_ctr l' = pl_ctr l /\
              Permutation (map ident (pl_arr l')) (map ident (pl_arr l)) /\
              (forall q, In q (pl_keys l) -> can_choose prev avoid q = false)
    | Some hp => n = 1 /\ chosen_spec (can_choose prev avoid) l l' d hp
    end.
Proof.
  intros (Hnd & Hperm & Hinv). unfold choose_peer.
  set (can := can_choose prev avoid).
  destruct (choose_loop_spec can (length (pl_arr l)) (pl_arr l) [] (le_n _) Hinv)
    as (h' & newp & chosen & E & I' & F & P & M).
  rewrite E. cbn [app].
  destruct (fold_push_spec newp h' I') as (I1 & P1 & L1).
  set (h1 := fold_left heap_push newp h') in *.
  assert (Plen : length (pl_arr l) = (length newp + length (opt_list chosen) + length h')%nat).
  { apply Permutation_length in P. rewrite !app_length, !map_length in P. lia. }
  destruct chosen as [x|].
  - destruct M as [Mc Mmin].
    pose proof (push_peer_spec h1 (pl_ctr l) x d) as Hp. cbv zeta in Hp.
    rewrite (surjective_pairing (push_peer h1 (pl_ctr l) x d)).
    destruct Hp as (L2 & C2 & I2 & P2). specialize (I2 I1).
    set (h2 := fst (push_peer h1 (pl_ctr l) x d)) in *.
    cbn [opt_list length] in Plen.
    assert (Eh1 : length h1 = (length (pl_arr l) - 1)%nat) by lia.
    exists (mkPL (pl_keys l) h2 (snd (push_peer h1 (pl_ctr l) x d))), (Some (ps_hp x)), 1.
    split; [reflexivity|].
    assert (PR : Permutation (map ident (pl_arr l)) (ident x :: map ident h1)).
    { eapply perm_trans; [exact P|]. cbn [opt_list map app].
      eapply perm_trans; [apply Permutation_sym, Permutation_middle|]. apply perm_skip.
      apply Permutation_sym. exact P1. }
    split.
    { split; [exact Hnd|]. split; [|exact I2]. cbn [pl_keys pl_arr].
      eapply perm_trans; [exact Hperm|].
      eapply perm_trans; [apply (ident_hp_perm _ (x :: h1)); exact PR|].
      apply Permutation_sym. apply (ident_hp_perm h2 (set_order x (stamp (pl_ctr l) d (length h1)) :: h1)). exact P2. }
    split; [reflexivity|]. split; [cbn [pl_arr]; lia|]. split; [reflexivity|].
    split; [exact Mc|]. split; [exact C2|].
    exists x, (map ident h1). split; [reflexivity|]. split; [exact PR|].
    split; [cbn [pl_arr]; rewrite <- Eh1; exact P2|].
    intros t Ht Hcan.
    eapply Permutation_in in Ht; [|exact P1].
    apply in_app_or in Ht as [Ht|Ht]; apply in_map_iff in Ht as (y & <- & Hy).
    + rewrite Forall_forall in F. specialize (F y Hy). cbn in Hcan. fold can in F. congruence.
    + cbn. now apply Mmin.
  - cbn [opt_list length] in Plen.
    exists (mkPL (pl_keys l) h1 (pl_ctr l)), None, 0. split; [reflexivity|].
    assert (Eh' : h' = []) by (destruct h'; [reflexivity|cbn [length] in Plen; lia]).
    assert (PR : Permutation (map ident h1) (map ident (pl_arr l))).
    { eapply perm_trans; [exact P1|]. apply Permutation_sym. exact P. }
    split.
    { split; [exact Hnd|]. split; [|exact I1]. cbn [pl_keys pl_arr].
      eapply perm_trans; [exact Hperm|]. apply Permutation_sym. now apply ident_hp_perm. }
    split; [reflexivity|]. split; [cbn [pl_arr]; lia|]. split; [reflexivity|]. split; [reflexivity|].
    split; [exact PR|].
    intros q Hq.
    assert (Hq' : In q (hps newp)).
    { eapply Permutation_in in Hq; [|exact Hperm].
      subst h'. cbn [opt_list map app] in P. rewrite app_nil_r in P.
      eapply Permutation_in in Hq; [|apply ident_hp_perm; exact P]. exact Hq. }
    unfold hps in Hq'. apply in_map_iff in Hq' as (y & <- & Hy).
    rewrite Forall_forall in F. now apply F.
Qed.

(* ---------------------------------------------------------------- Get / GetNew *)
Lemma host_of_get_host hp : host_of hp = get_host hp.
Proof. reflexivity. (* the two host functions are the same fixpoint *) Qed.

Lemma can_tier1 prev hp : can_choose prev true hp = tier1 prev hp.
Proof.
  unfold can_choose, tier1, tried, mem. pose proof (host_of_get_host hp) as E. destruct E.
  destruct (existsb (bytes_eqb hp) prev); [reflexivity|]. destruct (existsb (bytes_eqb (host_of hp)) prev); reflexivity.
Qed.
Lemma can_tier2 prev hp : can_choose prev false hp = tier2 prev hp.
Proof. unfold can_choose, tier2, tried, mem. destruct (existsb (bytes_eqb hp) prev); reflexivity. Qed.
Lemma can_tier3 hp : can_choose [] false hp = true.
Proof. reflexivity. Qed.

Definition nochg (l l1 : plist) : Prop :=
  pl_keys l1 = pl_keys l /\ length (pl_arr l1) = length (pl_arr l) /\ pl_ctr l1 = pl_ctr l /\
  Permutation (map ident (pl_arr l1)) (map ident (pl_arr l)).

Lemma nochg_refl l : nochg l l.
Proof. repeat split; auto. Qed.
Lemma nochg_trans a b c : nochg a b -> nochg b c -> nochg a c.
Proof.
  intros (K1 & L1 & C1 & P1) (K2 & L2 & C2 & P2). split; [congruence|]. split; [congruence|].
  split; [congruence|]. eapply perm_trans; eassumption.
Qed.

Lemma chosen_transport can l l1 l2 d hp : nochg l l1 -> chosen_spec can l1 l2 d hp -> chosen_spec can l l2 d hp.
Proof.
  intros (K1 & L1 & C1 & P1) (Hc & Hctr & x & R & Ex & Pa & Pb & Hmin).
  split; [exact Hc|]. split; [now rewrite <- C1|].
  exists x, R. split; [exact Ex|]. split; [eapply perm_trans; [apply Permutation_sym, P1|exact Pa]|].
  split; [now rewrite <- C1, <- L1|exact Hmin].
Qed.

Definition proj_hs (t : list Z * Z * Z) : hostport * Z := (fst (fst t), snd (fst t)).
Lemma map_hs_ident h : map hs h = map proj_hs (map ident h).
Proof. rewrite map_map. reflexivity. Qed.

Lemma least_loaded_ext e e' peers p : (forall q, e q = e' q) -> least_loaded e peers p -> least_loaded e' peers p.
Proof.
  intros He (s & Hin & Hp & Hmin). exists s. split; [exact Hin|]. split; [now rewrite <- He|].
  intros q sq Hq Hel. apply (Hmin q sq Hq). now rewrite He.
Qed.

Lemma chosen_least can l l' d hp : chosen_spec can l l' d hp ->
  least_loaded can (peers_of l) hp /\ Permutation (peers_of l') (peers_of l) /\ In hp (hps (pl_arr l)).
Proof.
  intros (Hc & Hctr & x & R & Ex & Pa & Pb & Hmin).
  assert (Pa' : Permutation (peers_of l) (hs x :: map proj_hs R)).
  { unfold peers_of. rewrite map_hs_ident. apply (Permutation_map proj_hs) in Pa. exact Pa. }
  assert (Pb' : Permutation (peers_of l') (hs x :: map proj_hs R)).
  { unfold peers_of. rewrite map_hs_ident. apply (Permutation_map proj_hs) in Pb. exact Pb. }
  split; [|split].
  - exists (ps_score x). split.
    { eapply Permutation_in; [apply Permutation_sym, Pa'|]. left. unfold hs. now rewrite Ex. }
    split; [exact Hc|]. intros q sq Hq Hel.
    eapply Permutation_in in Hq; [|exact Pa']. destruct Hq as [Hq|Hq].
    + unfold hs in Hq. injection Hq as _ <-. lia.
    + apply in_map_iff in Hq as (t & Et & Ht). unfold proj_hs in Et. injection Et as <- <-. now apply Hmin.
  - eapply perm_trans; [exact Pb'|apply Permutation_sym, Pa'].
  - apply (Permutation_map (fun t : list Z * Z * Z => fst (fst t))) in Pa. rewrite map_map in Pa.
    eapply Permutation_in; [apply Permutation_sym; exact Pa|]. left. exact Ex.
Qed.

Lemma wf_keys_nil l : wf l -> (pl_len l =? 0) = true <-> pl_keys l = [].
Proof.
  intros Hwf. pose proof (wf_len l Hwf) as E. unfold pl_len.
  destruct (pl_keys l); cbn [length] in E; split; intros H; try lia; try discriminate; reflexivity.
Qed.

Definition getnew_spec (l : plist) (prev : list hostport) (d : Z) (l' : plist) (r : sel) (n : Z) : Prop :=
  wf l' /\ pl_keys l' = pl_keys l /\
  match r with
  | SelNoPeers => pl_keys l = [] /\ l' = l /\ n = 0
  | SelNoNewPeers => pl_keys l <> [] /\ nochg l l' /\ n = 0 /\
                     (forall q, In q (pl_keys l) -> can_choose prev false q = false)
  | SelOk p => n = 1 /\
      (chosen_spec (can_choose prev true) l l' d p \/
       ((forall q, In q (pl_keys l) -> can_choose prev true q = false) /\
        chosen_spec (can_choose prev false) l l' d p))
  end.

Lemma pl_getnew_spec l prev d : wf l ->
  exists l' r n, pl_getnew l prev d = Some (l', r, n) /\ getnew_spec l prev d l' r n.
Proof.
  intros Hwf. unfold pl_getnew.
  destruct (pl_len l =? 0) eqn:E0.
  { exists l, SelNoPeers, 0. split; [reflexivity|]. split; [exact Hwf|]. split; [reflexivity|].
    split; [now apply (wf_keys_nil l Hwf)|auto]. }
  assert (Hne : pl_keys l <> []) by (intros H; apply (wf_keys_nil l Hwf) in H; congruence).
  destruct (choose_peer_spec l prev true d Hwf) as (l1 & c1 & n1 & E1 & W1 & K1 & L1 & M1).
  rewrite E1. destruct c1 as [hp|].
  { destruct M1 as [-> Hs]. exists l1, (SelOk hp), 1. split; [reflexivity|].
    split; [exact W1|]. split; [exact K1|]. split; [reflexivity|]. left. exact Hs. }
  destruct M1 as (-> & C1 & P1 & F1).
  assert (N1 : nochg l l1) by (repeat split; assumption).
  destruct (choose_peer_spec l1 prev false d W1) as (l2 & c2 & n2 & E2 & W2 & K2 & L2 & M2).
  rewrite E2. destruct c2 as [hp|].
  { destruct M2 as [-> Hs]. exists l2, (SelOk hp), 1. split; [reflexivity|].
    split; [exact W2|]. split; [congruence|]. split; [reflexivity|]. right.
    split; [exact F1|]. eapply chosen_transport; eassumption. }
  destruct M2 as (-> & C2 & P2 & F2).
  exists l2, SelNoNewPeers, 0. split; [reflexivity|]. split; [exact W2|]. split; [congruence|].
  split; [exact Hne|]. split.
  { eapply nochg_trans; [exact N1|]. repeat split; assumption. }
  split; [reflexivity|]. intros q Hq. apply F2. now rewrite K1.
Qed.

Definition get_spec (l : plist) (prev : list hostport) (d : Z) (l' : plist) (r : sel) (n : Z) : Prop :=
  wf l' /\ pl_keys l' = pl_keys l /\
  match r with
  | SelNoPeers => pl_keys l = [] /\ l' = l /\ n = 0
  | SelNoNewPeers => False
  | SelOk p => n = 1 /\
      (chosen_spec (can_choose prev true) l l' d p \/
       ((forall q, In q (pl_keys l) -> can_choose prev true q = false) /\
        chosen_spec (can_choose prev false) l l' d p) \/
       ((forall q, In q (pl_keys l) -> can_choose prev false q = false) /\
        chosen_spec (can_choose [] false) l l' d p))
  end.

Lemma pl_get_spec l prev d : wf l ->
  exists l' r n, pl_get l prev d = Some (l', r, n) /\ get_spec l prev d l' r n.
Proof.
  intros Hwf. unfold pl_get.
  destruct (pl_getnew_spec l prev d Hwf) as (l1 & r1 & n1 & E1 & W1 & K1 & M1).
  rewrite E1. destruct r1 as [hp| |].
  - exists l1, (SelOk hp), n1. split; [reflexivity|]. split; [exact W1|]. split; [exact K1|].
    destruct M1 as [-> [H|H]]; (split; [reflexivity|tauto]).
  - exists l1, SelNoPeers, n1. split; [reflexivity|]. split; [exact W1|]. split; [exact K1|exact M1].
  - destruct M1 as (Hne & N1 & -> & F1).
    destruct (choose_peer_spec l1 [] false d W1) as (l2 & c2 & n2 & E2 & W2 & K2 & L2 & M2).
    rewrite E2. destruct c2 as [hp|].
    + destruct M2 as [-> Hs]. exists l2, (SelOk hp), 1. split; [reflexivity|].
      split; [exact W2|]. split; [congruence|]. split; [reflexivity|]. right. right.
      split; [exact F1|]. eapply chosen_transport; eassumption.
    + exfalso. destruct M2 as (_ & _ & _ & F2).
      destruct (pl_keys l) as [|q ks] eqn:Ek; [congruence|].
      specialize (F2 q). rewrite K1 in F2. specialize (F2 (or_introl eq_refl)). discriminate.
Qed.

(* the statement-level consequences *)
Lemma existsb_false_forall {A} (f : A -> bool) l : existsb f l = false <-> forall x, In x l -> f x = false.
Proof.
  induction l as [|a l IH]; cbn; [split; [intros _ x []|reflexivity]|].
  rewrite orb_false_iff, IH. split.
  - intros [Ha Hl] x [<-|Hx]; auto.
  - intros H. split; [apply H; now left|intros x Hx; apply H; now right].
Qed.

Lemma keys_of_chosen can l l' d p : wf l -> chosen_spec can l l' d p -> In p (pl_keys l).
Proof.
  intros (_ & P & _) Hs. destruct (chosen_least _ _ _ _ _ Hs) as (_ & _ & Hin).
  eapply Permutation_in; [apply Permutation_sym, P|exact Hin].
Qed.

Lemma get_min_eligible l prev d : wf l ->
  match pl_get l prev d with
  | Some (l', SelOk p, _) =>
      least_loaded (eligible_get prev (pl_keys l)) (peers_of l) p /\
      wf l' /\ pl_keys l' = pl_keys l /\ Permutation (peers_of l') (peers_of l)
  | Some (l', SelNoPeers, _) => pl_keys l = [] /\ l' = l
  | _ => False
  end.
Proof.
  intros Hwf. destruct (pl_get_spec l prev d Hwf) as (l' & r & n & E & W' & K' & M). rewrite E.
  destruct r as [p| |]; [|tauto|exact M].
  destruct M as [_ M].
  assert (Hall : forall can, chosen_spec can l l' d p ->
            least_loaded can (peers_of l) p /\ Permutation (peers_of l') (peers_of l) /\ In p (pl_keys l)).
  { intros can Hs. destruct (chosen_least _ _ _ _ _ Hs) as (A & B & _). split; [exact A|]. split; [exact B|].
    eapply keys_of_chosen; eassumption. }
  unfold eligible_get.
  destruct M as [Hs|[[F1 Hs]|[F2 Hs]]]; destruct (Hall _ Hs) as (LL & PP & Hin); (split; [|auto]).
  - assert (Ex : existsb (tier1 prev) (pl_keys l) = true).
    { apply existsb_exists. exists p. split; [exact Hin|]. rewrite <- can_tier1. apply Hs. }
    rewrite Ex. eapply least_loaded_ext; [|exact LL]. apply can_tier1.
  - assert (Ex1 : existsb (tier1 prev) (pl_keys l) = false).
    { apply existsb_false_forall. intros q Hq. rewrite <- can_tier1. now apply F1. }
    assert (Ex2 : existsb (tier2 prev) (pl_keys l) = true).
    { apply existsb_exists. exists p. split; [exact Hin|]. rewrite <- can_tier2. apply Hs. }
    rewrite Ex1, Ex2. eapply least_loaded_ext; [|exact LL]. apply can_tier2.
  - assert (Ex2 : existsb (tier2 prev) (pl_keys l) = false).
    { apply existsb_false_forall. intros q Hq. rewrite <- can_tier2. now apply F2. }
    assert (Ex1 : existsb (tier1 prev) (pl_keys l) = false).
    { apply existsb_false_forall. intros q Hq. specialize (F2 q Hq).
      rewrite can_tier2 in F2. unfold tier1. unfold tier2 in F2. now rewrite F2. }
    rewrite Ex1, Ex2. eapply least_loaded_ext; [|exact LL]. intros q. reflexivity.
Qed.

Lemma getnew_min_eligible l prev d : wf l ->
  match pl_getnew l prev d with
  | Some (l', SelOk p, _) =>
      least_loaded (eligible_getnew prev (pl_keys l)) (peers_of l) p /\
      wf l' /\ pl_keys l' = pl_keys l /\ Permutation (peers_of l') (peers_of l)
  | Some (l', SelNoPeers, _) => pl_keys l = [] /\ l' = l
  | Some (l', SelNoNewPeers, _) =>
      pl_keys l <> [] /\ (forall q, In q (pl_keys l) -> tier2 prev q = false) /\
      wf l' /\ pl_keys l' = pl_keys l /\ Permutation (peers_of l') (peers_of l)
  | None => False
  end.
Proof.
  intros Hwf. destruct (pl_getnew_spec l prev d Hwf) as (l' & r & n & E & W' & K' & M). rewrite E.
  destruct r as [p| |]; [|tauto|].
  - destruct M as [_ M]. unfold eligible_getnew.
    destruct M as [Hs|[F1 Hs]]; destruct (chosen_least _ _ _ _ _ Hs) as (LL & PP & _);
      pose proof (keys_of_chosen _ _ _ _ _ Hwf Hs) as Hin; (split; [|auto]).
    + assert (Ex : existsb (tier1 prev) (pl_keys l) = true).
      { apply existsb_exists. exists p. split; [exact Hin|]. rewrite <- can_tier1. apply Hs. }
      rewrite Ex. eapply least_loaded_ext; [|exact LL]. apply can_tier1.
    + assert (Ex1 : existsb (tier1 prev) (pl_keys l) = false).
      { apply existsb_false_forall. intros q Hq. rewrite <- can_tier1. now apply F1. }
      rewrite Ex1. eapply least_loaded_ext; [|exact LL]. apply can_tier2.
  - destruct M as (Hne & (_ & _ & _ & P) & _ & F). split; [exact Hne|].
    split; [intros q Hq; rewrite <- can_tier2; now apply F|]. split; [exact W'|]. split; [exact K'|].
    now apply ident_hs_perm.
Qed.

(* ---------------------------------------------------------------- score updates *)
Definition upd_spec (l l' : plist) : Prop :=
  wf l' /\ pl_keys l' = pl_keys l /\ pl_ctr l' = pl_ctr l /\ length (pl_arr l') = length (pl_arr l) /\
  Permutation (orders_of l') (orders_of l).

Lemma upd_spec_refl l : wf l -> upd_spec l l.
Proof. intros H. repeat split; auto; apply H. Qed.
Lemma upd_spec_trans a b c : upd_spec a b -> upd_spec b c -> upd_spec a c.
Proof.
  intros (W1 & K1 & C1 & L1 & P1) (W2 & K2 & C2 & L2 & P2).
  split; [exact W2|]. split; [congruence|]. split; [congruence|]. split; [congruence|].
  eapply perm_trans; eassumption.
Qed.

Lemma pl_update_spec l hp s : wf l -> exists l', pl_update l hp s = Some l' /\ upd_spec l l'.
Proof.
  intros Hwf. pose proof Hwf as (Hnd & Hperm & Hinv). unfold pl_update.
  destruct (mem hp (pl_keys l)) eqn:Em; [|exists l; split; [reflexivity|now apply upd_spec_refl]].
  apply mem_In in Em.
  assert (Hin : In hp (hps (pl_arr l))) by (eapply Permutation_in; eassumption).
  destruct (find_pos_in _ _ Hin) as [p Ep]. rewrite Ep.
  destruct (ps_score (hget (pl_arr l) p) =? s); [exists l; split; [reflexivity|now apply upd_spec_refl]|].
  destruct (update_score_spec (pl_arr l) hp s Hinv Hin) as (h' & E & L & I & Ph & Po).
  rewrite E. eexists. split; [reflexivity|].
  split; [|cbn; auto].
  split; [exact Hnd|]. split; [|exact I]. cbn [pl_keys pl_arr].
  eapply perm_trans; [exact Hperm|apply Permutation_sym, Ph].
Qed.

Lemma pl_update_all_spec score_of : forall order l, wf l ->
  exists l', pl_update_all l score_of order = Some l' /\ upd_spec l l'.
Proof.
  induction order as [|hp r IH]; intros l Hwf; cbn [pl_update_all].
  { exists l. split; [reflexivity|now apply upd_spec_refl]. }
  destruct (pl_update_spec l hp (score_of hp) Hwf) as (l1 & E1 & S1). rewrite E1.
  destruct (IH l1 (proj1 S1)) as (l2 & E2 & S2). exists l2. split; [exact E2|].
  eapply upd_spec_trans; eassumption.
Qed.

Lemma pl_set_strategy_spec l score_of order : wf l ->
  exists l', pl_set_strategy l score_of order = Some l' /\ upd_spec l l'.
Proof. intros Hwf. unfold pl_set_strategy. now apply pl_update_all_spec. Qed.

(* ---------------------------------------------------------------- histories on one list *)
Inductive lop :=
| LAdd (hp : hostport) (score d1 d2 : Z)
| LRemove (hp : hostport)
| LGet (prev : list hostport) (d : Z)
| LGetNew (prev : list hostport) (d : Z)
| LUpdate (hp : hostport) (score : Z)
| LSetStrategy (score_of : hostport -> Z) (order : list hostport).

Definition lstep (l : plist) (op : lop) : option plist :=
  match op with
  | LAdd hp s d1 d2 => match pl_add l hp s d1 d2 with Some (l', _) => Some l' | None => None end
  | LRemove hp => match pl_remove l hp with Some (l', _) => Some l' | None => None end
  | LGet prev d => match pl_get l prev d with Some (l', _, _) => Some l' | None => None end
  | LGetNew prev d => match pl_getnew l prev d with Some (l', _, _) => Some l' | None => None end
  | LUpdate hp s => pl_update l hp s
  | LSetStrategy f order => pl_set_strategy l f order
  end.

Fixpoint lrun (l : plist) (ops : list lop) : option plist :=
  match ops with
  | [] => Some l
  | op :: r => match lstep l op with Some l' => lrun l' r | None => None end
  end.

Lemma lstep_wf l op : wf l -> exists l', lstep l op = Some l' /\ wf l'.
Proof.
  intros Hwf. destruct op as [hp s d1 d2|hp|prev d|prev d|hp s|f order]; cbn [lstep].
  - destruct (pl_add_spec l hp s d1 d2 Hwf) as (l' & n & E & W & _). rewrite E. eauto.
  - destruct (pl_remove_spec l hp Hwf) as (l' & ok & E & W & _). rewrite E. eauto.
  - destruct (pl_get_spec l prev d Hwf) as (l' & r & n & E & W & _). rewrite E. eauto.
  - destruct (pl_getnew_spec l prev d Hwf) as (l' & r & n & E & W & _). rewrite E. eauto.
  - destruct (pl_update_spec l hp s Hwf) as (l' & E & W & _). eauto.
  - destruct (pl_set_strategy_spec l f order Hwf) as (l' & E & W & _). eauto.
Qed.

Lemma lrun_wf ops : forall l, wf l -> exists l', lrun l ops = Some l' /\ wf l'.
Proof.
  induction ops as [|op r IH]; intros l Hwf; cbn [lrun]; [eauto|].
  destruct (lstep_wf l op Hwf) as (l1 & E & W). rewrite E. now apply IH.
Qed.

(* ---------------------------------------------------------------- stamp bound *)
Definition stamp_ok (l : plist) : Prop :=
  forall o, In o (orders_of l) -> o <= pl_ctr l + Z.of_nat (length (pl_arr l)) / 2 + 1.

Definition is_remove (op : lop) : bool := match op with LRemove _ => true | _ => false end.

Lemma stamp_val ctr d len : 0 <= ctr -> ctr + Z.of_nat len / 2 + 2 < 2 ^ 64 ->
  ctr + 1 <= stamp ctr d len <= ctr + 1 + Z.of_nat len / 2 /\ wrapU 64 (ctr + 1) = ctr + 1.
Proof.
  intros H0 Hb. unfold stamp, intn.
  assert (Hm : 0 <= d mod (Z.of_nat len / 2 + 1) < Z.of_nat len / 2 + 1) by (apply Z.mod_pos_bound; lia).
  assert (E1 : wrapU 64 (ctr + 1) = ctr + 1) by (apply wrapU_id; lia).
  rewrite E1. rewrite wrapU_id by lia. lia.
Qed.

Lemma stamp_step_chosen can l l' d p :
  chosen_spec can l l' d p -> length (pl_arr l') = length (pl_arr l) -> stamp_ok l ->
  0 <= pl_ctr l -> pl_ctr l + Z.of_nat (length (pl_arr l)) / 2 + 2 < 2 ^ 64 ->
  stamp_ok l' /\ pl_ctr l' = pl_ctr l + 1.
Proof.
  intros (Hc & Hctr & x & R & Ex & Pa & Pb & Hmin) L Hs H0 Hb.
  set (n := length (pl_arr l)) in *.
  assert (Hn : (0 < n)%nat).
  { apply Permutation_length in Pa. rewrite map_length in Pa. cbn [length] in Pa. unfold n. lia. }
  destruct (stamp_val (pl_ctr l) d (n - 1) H0 ltac:(lia)) as [Hst Ew].
  split; [|congruence].
  intros o Ho. rewrite Hctr, Ew, L. fold n.
  apply (Permutation_map (fun t : list Z * Z * Z => snd t)) in Pb. rewrite map_map in Pb.
  apply (Permutation_map (fun t : list Z * Z * Z => snd t)) in Pa. rewrite map_map in Pa.
  eapply Permutation_in in Ho; [|exact Pb]. cbn [map] in Ho. destruct Ho as [<-|Ho].
  - cbn [ident set_order ps_order snd]. lia.
  - assert (Ho' : In o (orders_of l)).
    { eapply Permutation_in; [apply Permutation_sym, Pa|]. right. exact Ho. }
    specialize (Hs o Ho'). fold n in Hs. lia.
Qed.

Lemma stamp_nochg l l' : nochg l l' -> stamp_ok l -> stamp_ok l'.
Proof.
  intros (_ & L & C & P) Hs o Ho. rewrite L, C. apply Hs.
  eapply Permutation_in; [apply ident_order_perm; exact P|exact Ho].
Qed.

Definition sinv (k : Z) (l : plist) : Prop :=
  wf l /\ 0 <= pl_ctr l <= k /\ Z.of_nat (length (pl_arr l)) <= k /\ stamp_ok l.

Lemma lstep_stamp k l op : is_remove op = false -> 2 * k + 4 < 2 ^ 64 -> sinv k l ->
  exists l', lstep l op = Some l' /\ sinv (k + 1) l'.
Proof.
  intros Hnr Hk (Hwf & Hc & Hl & Hs).
  assert (Hb : pl_ctr l + Z.of_nat (length (pl_arr l)) / 2 + 2 < 2 ^ 64) by lia.
  destruct op as [hp s d1 d2|hp|prev d|prev d|hp s|f order]; cbn [lstep]; [|discriminate| | | |].
  - destruct (pl_add_spec l hp s d1 d2 Hwf) as (l' & n & E & W & Hold & Hnew). rewrite E.
    exists l'. split; [reflexivity|].
    destruct (in_dec (list_eq_dec Z.eq_dec) hp (pl_keys l)) as [Hin|Hnin].
    + destruct (Hold Hin) as [-> _]. split; [exact Hwf|]. split; [lia|]. split; [lia|exact Hs].
    + destruct (Hnew Hnin) as (_ & _ & Ectr & L & _ & Po).
      destruct (stamp_val (pl_ctr l) d1 (length (pl_arr l)) ltac:(lia) Hb) as [Hst Ew].
      split; [exact W|]. split; [lia|]. split; [lia|].
      intros o Ho. eapply Permutation_in in Ho; [|exact Po]. rewrite Ectr, Ew, L.
      destruct Ho as [<-|Ho]; [lia|]. specialize (Hs o Ho). lia.
  - destruct (pl_get_spec l prev d Hwf) as (l' & r & n & E & W & K & M). rewrite E.
    exists l'. split; [reflexivity|]. split; [exact W|].
    assert (Hlen : length (pl_arr l') = length (pl_arr l)) by (rewrite <- !wf_len by assumption; now rewrite K).
    destruct r as [p| |]; [|destruct M as (_ & -> & _); repeat split; try lia; exact Hs|destruct M].
    destruct M as [_ M].
    assert (Hex : exists can, chosen_spec can l l' d p) by (destruct M as [H|[[_ H]|[_ H]]]; eauto).
    destruct Hex as [can Hcs].
    destruct (stamp_step_chosen can l l' d p Hcs Hlen Hs ltac:(lia) Hb) as [Hs' Ec].
    split; [lia|]. split; [lia|exact Hs'].
  - destruct (pl_getnew_spec l prev d Hwf) as (l' & r & n & E & W & K & M). rewrite E.
    exists l'. split; [reflexivity|]. split; [exact W|].
    assert (Hlen : length (pl_arr l') = length (pl_arr l)) by (rewrite <- !wf_len by assumption; now rewrite K).
    destruct r as [p| |].
    + destruct M as [_ M].
      assert (Hex : exists can, chosen_spec can l l' d p) by (destruct M as [H|[_ H]]; eauto).
      destruct Hex as [can Hcs].
      destruct (stamp_step_chosen can l l' d p Hcs Hlen Hs ltac:(lia) Hb) as [Hs' Ec].
      split; [lia|]. split; [lia|exact Hs'].
    + destruct M as (_ & -> & _). repeat split; try lia; exact Hs.
    + destruct M as (_ & N & _). pose proof N as (_ & _ & C & _).
      split; [lia|]. split; [lia|]. eapply stamp_nochg; eassumption.
  - destruct (pl_update_spec l hp s Hwf) as (l' & E & W & K & C & L & P). exists l'.
    split; [exact E|]. split; [exact W|]. split; [lia|]. split; [lia|].
    intros o Ho. rewrite C, L. apply Hs. eapply Permutation_in; eassumption.
  - destruct (pl_set_strategy_spec l f order Hwf) as (l' & E & W & K & C & L & P). exists l'.
    split; [exact E|]. split; [exact W|]. split; [lia|]. split; [lia|].
    intros o Ho. rewrite C, L. apply Hs. eapply Permutation_in; eassumption.
Qed.

Lemma lrun_stamp ops : forall k l, forallb (fun op => negb (is_remove op)) ops = true ->
  2 * (k + Z.of_nat (length ops)) + 4 < 2 ^ 64 -> sinv k l ->
  exists l', lrun l ops = Some l' /\ sinv (k + Z.of_nat (length ops)) l'.
Proof.
  induction ops as [|op r IH]; intros k l Hnr Hk Hi; cbn [lrun].
  { exists l. split; [reflexivity|]. cbn [length]. now rewrite Z.add_0_r. }
  cbn [forallb] in Hnr. apply andb_true_iff in Hnr as [Hop Hr]. apply negb_true_iff in Hop.
  cbn [length] in Hk |- *.
  destruct (lstep_stamp k l op Hop ltac:(lia) Hi) as (l1 & E & I1). rewrite E.
  destruct (IH (k + 1) l1 Hr ltac:(lia) I1) as (l2 & E2 & I2). exists l2. split; [exact E2|].
  replace (k + Z.of_nat (S (length r))) with (k + 1 + Z.of_nat (length r)) by lia. exact I2.
Qed.

(* ---------------------------------------------------------------- fairness *)
Lemma pl_get_nil_eq l d h' x : heap_pop (pl_arr l) = Some (h', x) ->
  pl_get l [] d =
    Some (mkPL (pl_keys l) (fst (push_peer h' (pl_ctr l) x d)) (snd (push_peer h' (pl_ctr l) x d)),
          SelOk (ps_hp x), 1).
Proof.
  intros E. unfold pl_get, pl_getnew, pl_len.
  destruct (pl_arr l) as [|y r] eqn:Ea; [discriminate|].
  cbn [length]. replace (Z.of_nat (S (length r)) =? 0) with false by lia.
  unfold choose_peer. rewrite Ea. cbn [length choose_loop]. rewrite E.
  cbn [can_choose mem existsb app fold_left].
  rewrite (surjective_pairing (push_peer h' (pl_ctr l) x d)). reflexivity.
Qed.

Section Fair.
Variables (s B : Z) (n : nat).
Let K : Z * Z := (s, B).

Record win (l : plist) : Prop := {
  W_idx : idx_ok (pl_arr l);
  W_len : length (pl_arr l) = n;
  W_sc : forall x, In x (pl_arr l) -> ps_score x = s;
  W_val : valid (ek_big K) (pl_arr l) n;
  W_ctr : 0 <= pl_ctr l }.

Fixpoint cnt (os : list Z) : nat :=
  match os with [] => O | o :: r => ((if (o <=? B)%Z then 1 else 0) + cnt r)%nat end.

Lemma cnt_perm a b : Permutation a b -> cnt a = cnt b.
Proof. induction 1; cbn [cnt]; lia. Qed.
Lemma cnt_le os : (cnt os <= length os)%nat.
Proof. induction os as [|o r IH]; cbn [cnt length]; [lia|]. destruct (o <=? B); lia. Qed.
Lemma cnt_pos os o : In o os -> o <= B -> (0 < cnt os)%nat.
Proof.
  induction os as [|a r IH]; intros Hin Ho; [destruct Hin|]. cbn [cnt].
  destruct Hin as [->|Hin]; [destruct (Z.leb_spec o B); lia|]. specialize (IH Hin Ho). lia.
Qed.

Lemma fair_step l d : win l -> (0 < n)%nat -> pl_ctr l + Z.of_nat n / 2 + 2 < 2 ^ 64 ->
  exists x h' l', heap_pop (pl_arr l) = Some (h', x) /\
    pl_get l [] d = Some (l', SelOk (ps_hp x), 1) /\ win l' /\ pl_ctr l' = pl_ctr l + 1 /\
    pl_keys l' = pl_keys l /\
    Permutation (map ident (pl_arr l)) (ident x :: map ident h') /\
    Permutation (map ident (pl_arr l')) (ident (set_order x (stamp (pl_ctr l) d (n - 1))) :: map ident h') /\
    ident x = ident (hget (pl_arr l) 0).
Proof.
  intros [Wi Wl Ws Wv Wc] Hn Hb.
  assert (Hne : pl_arr l <> []) by (intros E; rewrite E in Wl; cbn in Wl; lia).
  destruct (heap_pop_spec (ek_big K) (ek_big_le K) (pl_arr l) Hne) as (h' & x & E & L & I & P & Ex & _ & V).
  pose proof (push_peer_spec h' (pl_ctr l) x d) as Hp. cbv zeta in Hp.
  destruct Hp as (L2 & C2 & _ & P2).
  destruct (heap_push_spec (ek_big K) (ek_big_le K) (ek_big_trans K) h'
              (set_order x (stamp (pl_ctr l) d (length h')))) as (_ & I3 & _ & V3).
  exists x, h'. eexists. split; [exact E|]. split; [apply pl_get_nil_eq; exact E|].
  assert (Lh : length h' = (n - 1)%nat) by lia.
  destruct (stamp_val (pl_ctr l) d (n - 1) Wc ltac:(lia)) as [Hst Ew].
  split; [|split; [cbn [pl_ctr]; rewrite C2; exact Ew|split; [reflexivity|split; [exact P|split; [cbn [pl_arr]; rewrite <- Lh; exact P2|exact Ex]]]]].
  assert (Epush : fst (push_peer h' (pl_ctr l) x d) = heap_push h' (set_order x (stamp (pl_ctr l) d (length h')))) by reflexivity.
  constructor; cbn [pl_arr pl_ctr].
  - rewrite Epush. apply I3, I, Wi.
  - lia.
  - intros y Hy. apply (in_map ident) in Hy. eapply Permutation_in in Hy; [|exact P2].
    assert (Hx : ps_score x = s).
    { replace (ps_score x) with (ps_score (hget (pl_arr l) 0)) by (unfold ident in Ex; congruence).
      apply Ws, hget_In. lia. }
    destruct Hy as [Hy|Hy].
    + unfold ident in Hy. cbn in Hy. congruence.
    + assert (Hy' : In (ident y) (map ident (pl_arr l))).
      { eapply Permutation_in; [apply Permutation_sym, P|]. now right. }
      destruct (ident_In_score _ _ Hy') as (y0 & Hy0 & Es & _). rewrite <- Es. now apply Ws.
  - rewrite Epush. replace n with (S (length h')) by lia. apply V3.
    rewrite Lh. rewrite Wl in V. now apply V.
  - rewrite C2, Ew. lia.
Qed.

Lemma get_nils_total ds : forall l, win l -> (0 < n)%nat ->
  pl_ctr l + Z.of_nat (length ds) + Z.of_nat n / 2 + 2 < 2 ^ 64 ->
  exists l' sel, get_nils l ds = Some (l', sel) /\ length sel = length ds /\ win l' /\ pl_keys l' = pl_keys l.
Proof.
  induction ds as [|d r IH]; intros l Hw Hn Hb; cbn [get_nils].
  { exists l, []. auto. }
  cbn [length] in Hb.
  destruct (fair_step l d Hw Hn ltac:(lia)) as (x & h' & l1 & _ & E & W1 & C1 & K1 & _).
  rewrite E. destruct (IH l1 W1 Hn ltac:(lia)) as (l2 & sel & E2 & L2 & W2 & K2). rewrite E2.
  exists l2, (ps_hp x :: sel). split; [reflexivity|]. cbn [length]. split; [lia|]. split; [exact W2|congruence].
Qed.

(* the root is small whenever a small element exists *)
Lemma root_small l y : win l -> In y (pl_arr l) -> ps_order y <= B -> ps_order (hget (pl_arr l) 0) <= B.
Proof.
  intros [Wi Wl Ws Wv Wc] Hy Ho.
  destruct (Z.leb_spec (ps_order (hget (pl_arr l) 0)) B) as [H|H]; [exact H|exfalso].
  destruct (In_hget _ _ Hy) as (k & Hk & Ek).
  assert (H0 : (0 < length (pl_arr l))%nat) by lia.
  assert (Hr : kless K (key (hget (pl_arr l) 0)) = true).
  { unfold kless, K, key. cbn [fst snd]. rewrite (Ws _ (hget_In _ _ H0)). rewrite Z.eqb_refl. lia. }
  pose proof (root_big K _ _ Wv Hr k ltac:(lia)) as Hb.
  rewrite Ek in Hb. unfold kless, K, key in Hb. cbn [fst snd] in Hb. rewrite (Ws _ Hy), Z.eqb_refl in Hb. lia.
Qed.

Lemma fair_core : forall m l ds, win l -> (0 < n)%nat ->
  Z.max 0 (B - pl_ctr l) + Z.of_nat (cnt (orders_of l)) <= Z.of_nat m ->
  (m <= length ds)%nat ->
  pl_ctr l + Z.of_nat (length ds) + Z.of_nat n / 2 + 2 < 2 ^ 64 ->
  forall y, In y (pl_arr l) -> ps_order y <= B ->
  exists l' sel, get_nils l ds = Some (l', sel) /\ In (ps_hp y) (firstn m sel).
Proof.
  induction m as [|m IH]; intros l ds Hw Hn HM Hm Hb y Hy Ho.
  { exfalso. assert (0 < cnt (orders_of l))%nat by (eapply cnt_pos; [apply in_map; exact Hy|exact Ho]). lia. }
  destruct ds as [|d r]; [cbn in Hm; lia|]. cbn [length] in Hm, Hb. cbn [get_nils].
  destruct (fair_step l d Hw Hn ltac:(lia)) as (x & h' & l1 & _ & E & W1 & C1 & K1 & P & P1 & Ex).
  rewrite E.
  assert (Hy' : In (ident y) (ident x :: map ident h')).
  { eapply Permutation_in; [exact P|]. now apply in_map. }
  destruct Hy' as [Hy'|Hy'].
  - (* the root is y's peer: selected now *)
    destruct (get_nils_total r l1 W1 Hn ltac:(lia)) as (l2 & sel & E2 & _). rewrite E2.
    exists l2, (ps_hp x :: sel). split; [reflexivity|]. cbn [firstn]. left. unfold ident in Hy'. congruence.
  - assert (Hy1 : In (ident y) (map ident (pl_arr l1))).
    { eapply Permutation_in; [apply Permutation_sym, P1|]. now right. }
    apply in_map_iff in Hy1 as (y1 & Ey1 & Hy1).
    assert (Ho1 : ps_order y1 <= B) by (unfold ident in Ey1; congruence).
    (* measure decreases *)
    assert (Hxs : ps_order x <= B).
    { replace (ps_order x) with (ps_order (hget (pl_arr l) 0)) by (unfold ident in Ex; congruence).
      eapply root_small; eassumption. }
    assert (Hc0 : cnt (orders_of l) = S (cnt (map ps_order h'))).
    { unfold orders_of. rewrite (cnt_perm _ _ (ident_order_perm _ (x :: h') P)). cbn [map cnt].
      destruct (Z.leb_spec (ps_order x) B); lia. }
    assert (Hc1 : cnt (orders_of l1) =
                  ((if (stamp (pl_ctr l) d (n - 1) <=? B)%Z then 1 else 0) + cnt (map ps_order h'))%nat).
    { unfold orders_of.
      rewrite (cnt_perm _ _ (ident_order_perm _ (set_order x (stamp (pl_ctr l) d (n - 1)) :: h') P1)).
      reflexivity. }
    destruct (stamp_val (pl_ctr l) d (n - 1) (W_ctr _ Hw) ltac:(lia)) as [Hst _].
    assert (HM1 : Z.max 0 (B - pl_ctr l1) + Z.of_nat (cnt (orders_of l1)) <= Z.of_nat m).
    { rewrite C1, Hc1. rewrite Hc0 in HM. destruct (Z.leb_spec (stamp (pl_ctr l) d (n - 1)) B); lia. }
    destruct (IH l1 r W1 Hn HM1 ltac:(lia) ltac:(lia) y1 Hy1 Ho1) as (l2 & sel & E2 & Hin). rewrite E2.
    exists l2, (ps_hp x :: sel). split; [reflexivity|]. cbn [firstn]. right.
    replace (ps_hp y) with (ps_hp y1) by (unfold ident in Ey1; congruence). exact Hin.
Qed.
End Fair.

Lemma firstn_In_le {A} (x : A) l m k : (m <= k)%nat -> In x (firstn m l) -> In x (firstn k l).
Proof.
  revert m k; induction l as [|a l IH]; intros m k Hmk H; [destruct m, k; cbn in *; tauto|].
  destruct m as [|m]; [destruct H|]. destruct k as [|k]; [lia|]. cbn [firstn] in *.
  destruct H as [H|H]; [now left|right]. apply (IH m k); [lia|exact H].
Qed.

Theorem fair_window l ds (s : Z) : wf l ->
  (forall x, In x (pl_arr l) -> ps_score x = s) -> stamp_ok l -> 0 <= pl_ctr l ->
  let n := length (pl_arr l) in
  (0 < n)%nat -> length ds = (3 * n)%nat ->
  pl_ctr l + 3 * Z.of_nat n + Z.of_nat n / 2 + 2 < 2 ^ 64 ->
  exists l' sel, get_nils l ds = Some (l', sel) /\ length sel = (3 * n)%nat /\ pl_keys l' = pl_keys l /\
    forall p, In p (pl_keys l) -> In p (firstn (n + n / 2 + 1) sel).
Proof.
  intros Hwf Hsc Hst Hc n Hn Hds Hb.
  set (B := pl_ctr l + Z.of_nat n / 2 + 1).
  assert (Hw : win s B n l).
  { destruct Hwf as (_ & _ & Hi & _). constructor; auto.
    intros k Hk. unfold edge, ek_big. intros Hbig. exfalso.
    assert (Hp : In (hget (pl_arr l) (par k)) (pl_arr l)) by (apply hget_In; unfold par, n in *; lia).
    unfold kless, key in Hbig. cbn [fst snd] in Hbig. rewrite (Hsc _ Hp), Z.eqb_refl in Hbig.
    specialize (Hst (ps_order (hget (pl_arr l) (par k))) (in_map ps_order _ _ Hp)). fold n in Hst. unfold B in Hbig. lia. }
  destruct (get_nils_total s B n ds l Hw Hn ltac:(rewrite Hds; lia)) as (l' & sel & E & Ls & _ & Kk).
  exists l', sel. split; [exact E|]. split; [lia|]. split; [exact Kk|].
  intros p Hp.
  assert (Hp' : In p (hps (pl_arr l))) by (eapply Permutation_in; [apply Hwf|exact Hp]).
  unfold hps in Hp'. apply in_map_iff in Hp' as (y & <- & Hy).
  assert (Ho : ps_order y <= B) by (specialize (Hst _ (in_map ps_order _ _ Hy)); fold n in Hst; unfold B; lia).
  assert (HM : Z.max 0 (B - pl_ctr l) + Z.of_nat (cnt B (orders_of l)) <= Z.of_nat (n + n / 2 + 1)).
  { pose proof (cnt_le B (orders_of l)) as Hc'. unfold orders_of in Hc' at 2. rewrite map_length in Hc'. fold n in Hc'.
    assert (H1 : Z.of_nat (n + n / 2 + 1) = Z.of_nat n + Z.of_nat n / 2 + 1) by (clearbody n; lia).
    rewrite H1. replace (B - pl_ctr l) with (Z.of_nat n / 2 + 1) by (unfold B; ring).
    clear - Hc'. clearbody n.
    assert (0 <= Z.of_nat n / 2) by (apply Z.div_pos; lia). rewrite Z.max_r by lia. lia. }
  destruct (fair_core s B n (n + n / 2 + 1) l ds Hw Hn HM ltac:(rewrite Hds; lia) ltac:(rewrite Hds; lia) y Hy Ho)
    as (l2 & sel2 & E2 & Hin).
  rewrite E in E2. injection E2 as _ <-. exact Hin.
Qed.

(* ---------------------------------------------------------------- score calculators (generated) *)
Lemma prefer_incoming_closed inb outb pend :
  0 <= inb -> 0 <= outb -> inb + outb < 2 ^ 63 -> 0 <= pend < 2 ^ 31 ->
  preferIncomingScore inb outb pend =
    if inb + outb =? 0 then 2 ^ 64 - 1 else if inb =? 0 then 2 ^ 31 - 1 + pend else pend.
Proof.
  intros Hi Ho Hs Hp. unfold preferIncomingScore.
  rewrite wrapS_id by lia. destruct (inb + outb =? 0); [reflexivity|].
  rewrite (wrapU_id 64 pend) by lia. destruct (inb =? 0); [|reflexivity].
  rewrite wrapU_id by lia. reflexivity.
Qed.

Lemma least_pending_closed inb outb pend :
  0 <= inb -> 0 <= outb -> inb + outb < 2 ^ 63 -> 0 <= pend < 2 ^ 63 ->
  leastPendingScore inb outb pend = if inb + outb =? 0 then 2 ^ 64 - 1 else pend.
Proof.
  intros Hi Ho Hs Hp. unfold leastPendingScore.
  rewrite wrapS_id by lia. destruct (inb + outb =? 0); [reflexivity|].
  rewrite wrapU_id by lia. reflexivity.
Qed.

Lemma prefer_incoming_rank i1 o1 p1 i2 o2 p2 :
  0 <= i1 -> 0 <= o1 -> i1 + o1 < 2 ^ 63 -> 0 <= p1 < 2 ^ 31 - 1 ->
  0 <= i2 -> 0 <= o2 -> i2 + o2 < 2 ^ 63 -> 0 <= p2 < 2 ^ 31 - 1 ->
  (preferIncomingScore i1 o1 p1 < preferIncomingScore i2 o2 p2 <->
   rank_lt (default_rank i1 o1 p1) (default_rank i2 o2 p2)).
Proof.
  intros. rewrite !prefer_incoming_closed by (try assumption; lia). unfold rank_lt, default_rank.
  destruct (Z.eqb_spec (i1 + o1) 0), (Z.eqb_spec (i2 + o2) 0), (Z.eqb_spec i1 0), (Z.eqb_spec i2 0);
    cbn [fst snd]; lia.
Qed.

(* ---------------------------------------------------------------- the channel: every list of every history *)
Definition chan_wf (c : chan) : Prop := Forall (fun cl => wf (cl_pl cl)) (ch_lists c).

Lemma set_list_Forall (P : clist -> Prop) ls j c : Forall P ls -> P c -> Forall P (set_list ls j c).
Proof.
  intros H Hc. revert j; induction H as [|x r Hx Hr IH]; intros [|j]; cbn; constructor; auto.
Qed.

Lemma nth_error_Forall (P : clist -> Prop) ls j cl : Forall P ls -> nth_error ls j = Some cl -> P cl.
Proof. intros H E. rewrite Forall_forall in H. apply H. eapply nth_error_In; eassumption. Qed.

Lemma update_lists_wf w hp : forall ls, Forall (fun cl => wf (cl_pl cl)) ls ->
  exists ls', update_lists ls w hp = Some ls' /\ Forall (fun cl => wf (cl_pl cl)) ls'.
Proof.
  induction ls as [|c r IH]; intros H; cbn [update_lists]; [eauto|].
  inversion H as [|? ? Hc Hr]; subst.
  destruct (pl_update_spec (cl_pl c) hp (calc (cl_strat c) (w_get w hp)) Hc) as (l' & E & W & _).
  destruct (IH Hr) as (r' & E' & W'). rewrite E, E'. eexists. split; [reflexivity|]. constructor; assumption.
Qed.

Lemma chan_step_wf c op : chan_wf c -> exists c' r, chan_step c op = Some (c', r) /\ chan_wf c'.
Proof.
  intros Hwf. unfold chan_wf in *.
  destruct op as [j hp d1 d2|j hp|j prev d|j prev d|hp a b p cu|j strat order]; cbn [chan_step].
  - destruct (nth_error (ch_lists c) j) as [cl|] eqn:En; [|eauto].
    pose proof (nth_error_Forall _ _ _ _ Hwf En) as Hcl. cbn beta in Hcl.
    destruct (pl_add_spec (cl_pl cl) hp (calc (cl_strat cl) (w_get (ch_world c) hp)) d1 d2 Hcl) as (l' & n & E & W & _).
    rewrite E. eexists; eexists. split; [reflexivity|]. cbn [ch_lists]. now apply set_list_Forall.
  - destruct (nth_error (ch_lists c) j) as [cl|] eqn:En; [|eauto].
    pose proof (nth_error_Forall _ _ _ _ Hwf En) as Hcl. cbn beta in Hcl.
    destruct (pl_remove_spec (cl_pl cl) hp Hcl) as (l' & ok & E & W & _).
    rewrite E. eexists; eexists. split; [reflexivity|]. cbn [ch_lists]. now apply set_list_Forall.
  - destruct (nth_error (ch_lists c) j) as [cl|] eqn:En; [|eauto].
    pose proof (nth_error_Forall _ _ _ _ Hwf En) as Hcl. cbn beta in Hcl.
    destruct (pl_get_spec (cl_pl cl) prev d Hcl) as (l' & r & n & E & W & _).
    rewrite E. eexists; eexists. split; [reflexivity|]. cbn [ch_lists]. now apply set_list_Forall.
  - destruct (nth_error (ch_lists c) j) as [cl|] eqn:En; [|eauto].
    pose proof (nth_error_Forall _ _ _ _ Hwf En) as Hcl. cbn beta in Hcl.
    destruct (pl_getnew_spec (cl_pl cl) prev d Hcl) as (l' & r & n & E & W & _).
    rewrite E. eexists; eexists. split; [reflexivity|]. cbn [ch_lists]. now apply set_list_Forall.
  - destruct (update_lists_wf (w_set (ch_world c) hp (mkAttrs a b p cu (a_chosen (w_get (ch_world c) hp)))) hp _ Hwf)
      as (ls' & E & W). rewrite E. eexists; eexists. split; [reflexivity|]. exact W.
  - destruct (nth_error (ch_lists c) j) as [cl|] eqn:En; [|eauto].
    pose proof (nth_error_Forall _ _ _ _ Hwf En) as Hcl. cbn beta in Hcl.
    destruct (pl_set_strategy_spec (cl_pl cl) (fun hp => calc strat (w_get (ch_world c) hp)) order Hcl) as (l' & E & W & _).
    rewrite E. eexists; eexists. split; [reflexivity|]. cbn [ch_lists]. now apply set_list_Forall.
Qed.

Lemma chan_run_wf ops : forall c, chan_wf c -> exists c', chan_run c ops = Some c' /\ chan_wf c'.
Proof.
  induction ops as [|op r IH]; intros c Hwf; cbn [chan_run]; [eauto|].
  destruct (chan_step_wf c op Hwf) as (c1 & res & E & W). rewrite E. now apply IH.
Qed.

Lemma chan_init_wf n : chan_wf (chan_init n).
Proof.
  unfold chan_wf, chan_init. cbn [ch_lists]. constructor; [apply wf_empty|].
  apply Forall_forall. intros x Hx. apply repeat_spec in Hx. subst x. apply wf_empty.
Qed.

(* ---------------------------------------------------------------- what the pinned code does NOT guarantee *)
(* heap order on the full key (score, order) *)
Definition lex_valid (h : list pscore) : Prop := valid (fun a b => kless b a = false) h (length h).

Definition adds (n : nat) : list lop := map (fun i => LAdd [Z.of_nat i] 0 0 0) (seq 1 n).

(* four Adds, the 4th swapping its stamp with the root's: addPeer's swapOrder fixes position 0
   after the first Fix has moved the root element away *)
Definition lex_witness : list lop :=
  [LAdd [1] 0 0 0; LAdd [2] 0 0 1; LAdd [3] 0 0 2; LAdd [9] 0 0 0].

Lemma lex_order_refuted : exists l, lrun pl_empty lex_witness = Some l /\ ~ lex_valid (pl_arr l).
Proof.
  eexists. split; [vm_compute; reflexivity|].
  intros H. specialize (H 3%nat ltac:(cbn; lia)). vm_compute in H. discriminate.
Qed.

(* fairness after the list shrank: 16 peers, one selection with the largest jitter, 14 removed;
   the survivor [16] is not chosen in the next 3n = 6 selections *)
Definition shrink_witness : list lop :=
  adds 16 ++ [LGet [] 7] ++
  map (fun i => LRemove [Z.of_nat i]) (seq 2 14).

Lemma fair_refuted : exists l ds p,
  lrun pl_empty shrink_witness = Some l /\ wf l /\
  (forall x, In x (pl_arr l) -> ps_score x = 0) /\
  length ds = (3 * length (pl_arr l))%nat /\ In p (pl_keys l) /\
  exists l' sel, get_nils l ds = Some (l', sel) /\ ~ In p sel.
Proof.
  destruct (lrun_wf shrink_witness pl_empty wf_empty) as (l & E & W).
  exists l, [0; 0; 0; 0; 0; 0], [16].
  assert (E' := E). vm_compute in E'. injection E' as <-.
  split; [exact E|]. split; [exact W|].
  split; [intros x [<-|[<-|[]]]; reflexivity|].
  split; [reflexivity|]. split; [cbn; tauto|].
  eexists; eexists. split; [vm_compute; reflexivity|].
  apply mem_false. vm_compute. reflexivity.
Qed.

(* ---------------------------------------------------------------- statements in the form used by Props/C15.v *)
Definition wf_explicit (l : plist) : Prop :=
  NoDup (pl_keys l) /\ Permutation (pl_keys l) (map ps_hp (pl_arr l)) /\
  (forall i, (i < length (pl_arr l))%nat -> ps_index (nth i (pl_arr l) ps_dflt) = Z.of_nat i) /\
  (forall i, (0 < i < length (pl_arr l))%nat ->
     ps_score (nth ((i - 1) / 2) (pl_arr l) ps_dflt) <= ps_score (nth i (pl_arr l) ps_dflt)).

Lemma wf_explicit_iff l : wf l <-> wf_explicit l.
Proof. unfold wf, wf_explicit, hinv, idx_ok, svalid, valid, edge, ek_score, key, par, hget, hps. cbn [fst]. tauto. Qed.

Lemma chan_heap_inv n ops : exists c, chan_run (chan_init n) ops = Some c /\
  forall cl, In cl (ch_lists c) -> wf_explicit (cl_pl cl).
Proof.
  destruct (chan_run_wf ops (chan_init n) (chan_init_wf n)) as (c & E & W). exists c. split; [exact E|].
  intros cl Hcl. apply wf_explicit_iff. unfold chan_wf in W. rewrite Forall_forall in W. now apply W.
Qed.

Lemma list_heap_inv ops : exists l, lrun pl_empty ops = Some l /\ wf_explicit l.
Proof. destruct (lrun_wf ops pl_empty wf_empty) as (l & E & W). exists l. split; [exact E|now apply wf_explicit_iff]. Qed.

Lemma lrun_reach_wf ops l : lrun pl_empty ops = Some l -> wf l.
Proof. intros E. destruct (lrun_wf ops pl_empty wf_empty) as (l' & E' & W). congruence. Qed.

Lemma lex_order_refuted_explicit : exists ops l, lrun pl_empty ops = Some l /\
  ~ (forall i, (0 < i < length (pl_arr l))%nat ->
       pless (nth i (pl_arr l) ps_dflt) (nth ((i - 1) / 2) (pl_arr l) ps_dflt) = false).
Proof.
  destruct lex_order_refuted as (l & E & H). exists lex_witness, l. split; [exact E|].
  intros Hv. apply H. intros k Hk. specialize (Hv k Hk). exact Hv.
Qed.

Lemma get_nopeers_iff l prev d : wf l ->
  ((exists l' n, pl_get l prev d = Some (l', SelNoPeers, n)) <-> pl_keys l = []) /\
  pl_get l prev d <> None /\
  (forall l' n, pl_get l prev d <> Some (l', SelNoNewPeers, n)).
Proof.
  intros Hwf. destruct (pl_get_spec l prev d Hwf) as (l' & r & n & E & W' & K' & M).
  split; [|split; [congruence|]].
  - split.
    + intros (l2 & n2 & E2). rewrite E in E2. injection E2 as _ -> _. apply M.
    + intros Hk. destruct r as [p| |]; [|eauto|destruct M].
      exfalso. destruct M as [_ M].
      assert (Hin : In p (pl_keys l)).
      { destruct M as [H|[[_ H]|[_ H]]]; eapply keys_of_chosen; eassumption. }
      rewrite Hk in Hin. destruct Hin.
  - intros l2 n2 E2. rewrite E in E2. injection E2 as _ -> _. exact M.
Qed.

(* the order counter never goes negative *)
Lemma lstep_ctr l op l' : wf l -> 0 <= pl_ctr l -> lstep l op = Some l' -> 0 <= pl_ctr l'.
Proof.
  intros Hwf Hc E.
  assert (Hw : forall x, 0 <= wrapU 64 x) by (intros x; apply wrapU_range; lia).
  destruct op as [hp s d1 d2|hp|prev d|prev d|hp s|f order]; cbn [lstep] in E.
  - destruct (pl_add_spec l hp s d1 d2 Hwf) as (l1 & n & E1 & _ & Hold & Hnew). rewrite E1 in E. injection E as <-.
    destruct (in_dec (list_eq_dec Z.eq_dec) hp (pl_keys l)) as [Hin|Hnin].
    + now destruct (Hold Hin) as [-> _].
    + destruct (Hnew Hnin) as (_ & _ & -> & _). apply Hw.
  - destruct (pl_remove_spec l hp Hwf) as (l1 & ok & E1 & _ & Hf & Ht). rewrite E1 in E. injection E as <-.
    destruct ok; [destruct (Ht eq_refl) as (_ & _ & -> & _); exact Hc|now destruct (Hf eq_refl) as [-> _]].
  - destruct (pl_get_spec l prev d Hwf) as (l1 & r & n & E1 & _ & _ & M). rewrite E1 in E. injection E as <-.
    destruct r as [p| |]; [|now destruct M as (_ & -> & _)|destruct M].
    destruct M as [_ [H|[[_ H]|[_ H]]]]; destruct H as (_ & -> & _); apply Hw.
  - destruct (pl_getnew_spec l prev d Hwf) as (l1 & r & n & E1 & _ & _ & M). rewrite E1 in E. injection E as <-.
    destruct r as [p| |]; [|now destruct M as (_ & -> & _)|].
    + destruct M as [_ [H|[_ H]]]; destruct H as (_ & -> & _); apply Hw.
    + destruct M as (_ & (_ & _ & -> & _) & _). exact Hc.
  - destruct (pl_update_spec l hp s Hwf) as (l1 & E1 & _ & _ & C & _). rewrite E1 in E. injection E as <-. lia.
  - destruct (pl_set_strategy_spec l f order Hwf) as (l1 & E1 & _ & _ & C & _). rewrite E1 in E. injection E as <-. lia.
Qed.

Lemma lrun_ctr ops : forall l l', wf l -> 0 <= pl_ctr l -> lrun l ops = Some l' -> 0 <= pl_ctr l'.
Proof.
  induction ops as [|op r IH]; intros l l' Hwf Hc E; cbn [lrun] in E; [injection E as <-; exact Hc|].
  destruct (lstep l op) as [l1|] eqn:E1; [|discriminate].
  destruct (lstep_wf l op Hwf) as (l1' & E1' & W1). rewrite E1 in E1'. injection E1' as <-.
  eapply IH; [exact W1| |exact E]. exact (lstep_ctr l op l1 Hwf Hc E1).
Qed.

Lemma fair_reachable ops l s ds : lrun pl_empty ops = Some l ->
  (forall x, In x (pl_arr l) -> ps_score x = s) ->
  (forall o, In o (map ps_order (pl_arr l)) -> o <= pl_ctr l + Z.of_nat (length (pl_arr l)) / 2 + 1) ->
  let n := length (pl_arr l) in
  (0 < n)%nat -> length ds = (3 * n)%nat ->
  pl_ctr l + 3 * Z.of_nat n + Z.of_nat n / 2 + 2 < 2 ^ 64 ->
  exists l' sel, get_nils l ds = Some (l', sel) /\ length sel = (3 * n)%nat /\ pl_keys l' = pl_keys l /\
    forall p, In p (pl_keys l) -> In p (firstn (n + n / 2 + 1) sel).
Proof.
  intros E Hsc Hst n Hn Hds Hb.
  apply fair_window with (s := s); try assumption.
  - eapply lrun_reach_wf; eassumption.
  - eapply (lrun_ctr ops pl_empty l wf_empty); [cbn; lia|exact E].
Qed.

Lemma stamp_reachable ops l : forallb (fun op => negb (is_remove op)) ops = true ->
  2 * Z.of_nat (length ops) + 4 < 2 ^ 64 -> lrun pl_empty ops = Some l ->
  forall o, In o (map ps_order (pl_arr l)) -> o <= pl_ctr l + Z.of_nat (length (pl_arr l)) / 2 + 1.
Proof.
  intros Hnr Hk E.
  assert (H0 : sinv 0 pl_empty).
  { split; [apply wf_empty|]. cbn. split; [lia|]. split; [lia|]. intros o []. }
  destruct (lrun_stamp ops 0 pl_empty Hnr ltac:(lia) H0) as (l' & E' & _ & _ & _ & Hs).
  rewrite E in E'. injection E' as <-. exact Hs.
Qed.

Lemma min_eligible_reachable ops l prev d : lrun pl_empty ops = Some l ->
  match pl_get l prev d with
  | Some (l', SelOk p, _) =>
      least_loaded (eligible_get prev (pl_keys l)) (map (fun x => (ps_hp x, ps_score x)) (pl_arr l)) p /\
      pl_keys l' = pl_keys l /\
      Permutation (map (fun x => (ps_hp x, ps_score x)) (pl_arr l'))
                  (map (fun x => (ps_hp x, ps_score x)) (pl_arr l))
  | Some (l', SelNoPeers, _) => pl_keys l = [] /\ l' = l
  | _ => False
  end.
Proof.
  intros E. pose proof (get_min_eligible l prev d (lrun_reach_wf ops l E)) as H.
  destruct (pl_get l prev d) as [[[l' [p| |]] n]|]; tauto.
Qed.

Lemma getnew_reachable ops l prev d : lrun pl_empty ops = Some l ->
  match pl_getnew l prev d with
  | Some (l', SelOk p, _) =>
      least_loaded (eligible_getnew prev (pl_keys l)) (map (fun x => (ps_hp x, ps_score x)) (pl_arr l)) p /\
      pl_keys l' = pl_keys l /\
      Permutation (map (fun x => (ps_hp x, ps_score x)) (pl_arr l'))
                  (map (fun x => (ps_hp x, ps_score x)) (pl_arr l))
  | Some (l', SelNoPeers, _) => pl_keys l = [] /\ l' = l
  | Some (l', SelNoNewPeers, _) =>
      pl_keys l <> [] /\ (forall q, In q (pl_keys l) -> tier2 prev q = false) /\
      pl_keys l' = pl_keys l /\
      Permutation (map (fun x => (ps_hp x, ps_score x)) (pl_arr l'))
                  (map (fun x => (ps_hp x, ps_score x)) (pl_arr l))
  | None => False
  end.
Proof.
  intros E. pose proof (getnew_min_eligible l prev d (lrun_reach_wf ops l E)) as H.
  destruct (pl_getnew l prev d) as [[[l' [p| |]] n]|]; tauto.
Qed.

Lemma nopeers_reachable ops l prev d : lrun pl_empty ops = Some l ->
  ((exists l' n, pl_get l prev d = Some (l', SelNoPeers, n)) <-> pl_keys l = []) /\
  pl_get l prev d <> None /\
  (forall l' n, pl_get l prev d <> Some (l', SelNoNewPeers, n)).
Proof. intros E. exact (get_nopeers_iff l prev d (lrun_reach_wf ops l E)). Qed.

Lemma tier_scores inb outb pend :
  0 <= inb -> 0 <= outb -> inb + outb < 2 ^ 63 -> 0 <= pend < 2 ^ 31 ->
  preferIncomingScore inb outb pend =
    (if inb + outb =? 0 then 2 ^ 64 - 1 else if inb =? 0 then 2 ^ 31 - 1 + pend else pend) /\
  leastPendingScore inb outb pend = (if inb + outb =? 0 then 2 ^ 64 - 1 else pend).
Proof.
  intros Hi Ho Hs Hp. split;
    [exact (prefer_incoming_closed inb outb pend Hi Ho Hs Hp)
    |exact (least_pending_closed inb outb pend Hi Ho Hs ltac:(lia))].
Qed.

Lemma fair_refuted_explicit : exists ops l ds p,
  lrun pl_empty ops = Some l /\
  (forall x, In x (pl_arr l) -> ps_score x = 0) /\
  length ds = (3 * length (pl_arr l))%nat /\ In p (pl_keys l) /\
  exists l' sel, get_nils l ds = Some (l', sel) /\ ~ In p sel.
Proof.
  destruct fair_refuted as (l & ds & p & E & _ & H). exists shrink_witness, l, ds, p. exact (conj E H).
Qed.
