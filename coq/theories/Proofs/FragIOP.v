(* The io.Writer / io.Reader contract of the argument streams (Model/FragIO.v):
   - Write returns n = len(p) with a nil error, for every write size and every capacity that
     lets a continuation fragment take at least one byte; the state it leaves is the one of
     Model/Frag.v (so everything proved there carries over);
   - for every script of three arguments the counts returned for an argument add up to the length
     of the argument the emitted fragments denote;
   - a caller that re-offers whatever a short count leaves transmits its bytes exactly once;
   - Read returns n = the number of bytes it delivered, at most len(buf), and fewer than len(buf)
     only together with io.EOF or an error. *)
From Coq Require Import ZArith List Bool Lia.
From Verif Require Import Base.Wrap Base.Bytes Base.Wire Gen.GenConsts Gen.GenFrame Model.Crc Model.Frag
  Model.FragWire Model.FragIO Spec.FragSpec Spec.FragOk Proofs.FragWP Proofs.FragRP.
Import ListNotations.
Local Open Scope Z_scope.

(* ---------------- lists ---------------- *)
Lemma zlen_firstn {A} (l : list A) k : 0 <= k <= zlen l -> zlen (firstn (Z.to_nat k) l) = k.
Proof. intros H. unfold zlen in *. rewrite firstn_length. lia. Qed.

Lemma zlen_skipn {A} (l : list A) k : 0 <= k <= zlen l -> zlen (skipn (Z.to_nat k) l) = zlen l - k.
Proof. intros H. unfold zlen in *. rewrite skipn_length. lia. Qed.

Lemma skipn_zlen {A} (l : list A) : skipn (Z.to_nat (zlen l)) l = [].
Proof. unfold zlen. rewrite Nat2Z.id. apply skipn_all. Qed.

Definition int_max : Z := 2 ^ 63.

Lemma wrap_int x : 0 <= x < int_max -> wrapS 64 x = x.
Proof. intros H. apply wrapS_id; [lia|]. unfold int_max in H. change (64 - 1) with 63. lia. Qed.

(* ================= writer ================= *)
Section WriterIO.
  Variable capf : bool -> Z.

  Lemma w_fits_range st b : 0 <= w_fits st b <= zlen b.
  Proof. unfold w_fits. pose proof (zlen_nonneg b). lia. Qed.

  (* the counted loop moves the writer exactly as the loop of Model/Frag.v *)
  Lemma loop_n_state fuel : forall b st t,
    snd (w_write_loop_n capf fuel b st t) = w_write_loop capf fuel b st.
  Proof.
    induction fuel as [|f IH]; intros b st t; cbn [w_write_loop_n w_write_loop]; unfold wr_iter, w_put;
      change (Z.min (zlen b) (Z.max (ws_room st) 0)) with (w_fits st b);
      destruct (w_fits st b =? zlen b); try reflexivity.
    apply IH.
  Qed.

  (* ... and its running total ends as the length of the slice, once a fresh fragment takes a byte *)
  Lemma loop_n_count fuel : forall b st t,
    3 <= capf false -> 1 <= ws_room st -> (length b <= fuel)%nat -> 0 <= t -> t + zlen b < int_max ->
    fst (w_write_loop_n capf fuel b st t) = t + zlen b.
  Proof.
    induction fuel as [|f IH]; intros b st t Hc Hr Hf Ht Hb; cbn [w_write_loop_n]; unfold wr_iter;
      pose proof (w_fits_range st b) as Hn; pose proof (zlen_nonneg b) as Hl;
      rewrite (wrap_int (t + w_fits st b)) by lia;
      destruct (w_fits st b =? zlen b) eqn:E; cbn [fst]; try lia.
    - exfalso. unfold zlen in *. lia.
    - assert (Hk : w_fits st b = ws_room st) by (unfold w_fits in *; lia).
      rewrite IH.
      + rewrite zlen_skipn by lia. lia.
      + exact Hc.
      + unfold w_flush_raw. cbn [ws_room]. change c_chunkHeaderSize with 2. lia.
      + rewrite skipn_length. unfold zlen in *. lia.
      + lia.
      + rewrite zlen_skipn by lia. lia.
  Qed.

  Lemma write_loop_count b st :
    3 <= capf false -> zlen b < int_max ->
    fst (w_write_loop_n capf (S (length b)) b st 0) = zlen b.
  Proof.
    intros Hc Hb. cbn [w_write_loop_n]. unfold wr_iter.
    pose proof (w_fits_range st b) as Hn. pose proof (zlen_nonneg b) as Hl.
    rewrite (wrap_int (0 + w_fits st b)) by lia.
    destruct (w_fits st b =? zlen b) eqn:E; cbn [fst]; [lia|].
    rewrite loop_n_count.
    - rewrite zlen_skipn by lia. lia.
    - exact Hc.
    - unfold w_flush_raw. cbn [ws_room]. change c_chunkHeaderSize with 2. lia.
    - rewrite skipn_length. lia.
    - lia.
    - rewrite zlen_skipn by lia. lia.
  Qed.

  (* Write with its count against Write of Model/Frag.v *)
  Lemma write_n_write b st :
    w_write_n capf b st =
    match w_write capf b st with
    | None => None
    | Some (c, st') => Some (if (ws_err st =? 0) && is_writing (ws_state st)
                             then fst (w_write_loop_n capf (S (length b)) b st 0) else 0, c, st')
    end.
  Proof.
    unfold w_write_n, w_write.
    destruct (ws_err st =? 0); cbn [negb andb]; [|reflexivity].
    destruct (is_writing (ws_state st)); cbn [negb]; [|reflexivity].
    rewrite <- (loop_n_state (S (length b)) b st 0).
    destruct (w_write_loop_n capf (S (length b)) b st 0) as [n st']. reflexivity.
  Qed.

  Lemma step_n_step st o :
    match w_step_n capf st o, w_step capf st o with
    | Some (_, c, st1), Some (c', st1') => c = c' /\ st1 = st1'
    | None, None => True
    | _, _ => False
    end.
  Proof.
    destruct o as [l|b| |]; cbn [w_step_n w_step].
    - destruct (w_begin capf l st) as [[c s]|]; auto.
    - rewrite write_n_write. destruct (w_write capf b st) as [[c s]|]; auto.
    - destruct (w_flush capf st) as [[c s]|]; auto.
    - destruct (w_close capf st) as [[c s]|]; auto.
  Qed.

  (* the script runner with counts against the one of Model/Frag.v: same panics, same codes, same state *)
  Lemma run_n_run ops : forall st acc,
    w_run capf ops st acc =
    match w_run_n capf ops st with None => None | Some (rets, stf) => Some (acc ++ map snd rets, stf) end.
  Proof.
    induction ops as [|o r IH]; intros st acc; cbn [w_run w_run_n].
    - cbn [map]. rewrite app_nil_r. reflexivity.
    - pose proof (step_n_step st o) as H.
      destruct (w_step_n capf st o) as [[[n c] s]|], (w_step capf st o) as [[c' s']|]; try contradiction.
      + destruct H as [-> ->]. rewrite IH.
        destruct (w_run_n capf r s') as [[rets stf]|]; [|reflexivity].
        cbn [map snd]. rewrite <- app_assoc. reflexivity.
      + reflexivity.
  Qed.

  Lemma run_n_app a : forall b st,
    w_run_n capf (a ++ b) st =
    match w_run_n capf a st with
    | None => None
    | Some (ra, sta) => match w_run_n capf b sta with None => None | Some (rb, stb) => Some (ra ++ rb, stb) end
    end.
  Proof.
    induction a as [|o a IH]; intros b st; cbn [app w_run_n].
    - destruct (w_run_n capf b st) as [[rb stb]|]; reflexivity.
    - destruct (w_step_n capf st o) as [[[n c] s]|]; [|reflexivity].
      rewrite IH. destruct (w_run_n capf a s) as [[ra sta]|]; [|reflexivity].
      destruct (w_run_n capf b sta) as [[rb stb]|]; reflexivity.
  Qed.

  (* what an operation must return: Write(p) = (len(p), nil), everything else nil *)
  Definition ret_ok (o : wop) (r : Z * Z) : Prop :=
    match o with WWrite b => r = (zlen b, 0) | _ => r = (0, 0) end.

  Definition small_op (o : wop) : Prop := match o with WWrite b => zlen b < int_max | _ => True end.

  Lemma step_n_ret st o n st' :
    3 <= capf false -> small_op o -> w_step_n capf st o = Some (n, 0, st') -> ret_ok o (n, 0).
  Proof.
    intros Hc Hs H. destruct o as [l|b| |]; cbn [w_step_n w_step ret_ok small_op] in *.
    - destruct (w_begin capf l st) as [[c s]|]; inversion H; reflexivity.
    - unfold w_write_n in H.
      destruct (ws_err st =? 0) eqn:E; cbn [negb] in H.
      + destruct (is_writing (ws_state st)); cbn [negb] in H; [|discriminate].
        pose proof (write_loop_count b st Hc Hs) as Hn.
        destruct (w_write_loop_n capf (S (length b)) b st 0) as [k s]. cbn [fst] in Hn.
        inversion H; subst. reflexivity.
      + inversion H. apply Z.eqb_neq in E. congruence.
    - destruct (w_flush capf st) as [[c s]|]; inversion H; reflexivity.
    - destruct (w_close capf st) as [[c s]|]; inversion H; reflexivity.
  Qed.

  Lemma run_n_rets ops : forall st rets stf,
    3 <= capf false -> Forall small_op ops ->
    w_run_n capf ops st = Some (rets, stf) -> Forall (fun c => c = 0) (map snd rets) ->
    Forall2 ret_ok ops rets.
  Proof.
    induction ops as [|o r IH]; intros st rets stf Hc Hs H H0; cbn [w_run_n] in H.
    - inversion H. constructor.
    - destruct (w_step_n capf st o) as [[[n c] s]|] eqn:E; [|discriminate].
      destruct (w_run_n capf r s) as [[rets' stf']|] eqn:E2; [|discriminate].
      inversion H; subst. cbn [map snd] in H0. inversion H0; subst. inversion Hs; subst.
      constructor.
      + eapply step_n_ret; eauto.
      + eapply IH; eauto.
  Qed.
End WriterIO.

(* the counts returned for the operations of one argument *)
Definition returned (rets : list (Z * Z)) : Z := zsum (map fst rets).

Definition small_writes (items : list witem) : Prop :=
  Forall (fun i => match i with IWrite b => zlen b < int_max | IFlush => True end) items.

Lemma small_arg_ops last items : small_writes items -> Forall small_op (arg_ops last items).
Proof.
  intros H. unfold arg_ops. constructor; [exact I|]. apply Forall_app. split.
  - induction H as [|i r Hi Hr IH]; cbn [map]; constructor; [|exact IH]. destruct i; exact Hi.
  - constructor; [exact I|constructor].
Qed.

Lemma zsum_app a b : zsum (a ++ b) = zsum a + zsum b.
Proof. induction a as [|x a IH]; cbn [app zsum fold_right]; [reflexivity|]. fold (zsum (a ++ b)) (zsum a). lia. Qed.

Lemma returned_items items : forall rets,
  Forall2 ret_ok (map item_op items) rets -> returned rets = zlen (arg_bytes items).
Proof.
  induction items as [|i r IH]; intros rets H; inversion H; subst.
  - reflexivity.
  - unfold returned, arg_bytes in *. cbn [map zsum fold_right flat_map].
    fold (zsum (map fst l')). rewrite zlen_app, (IH l') by assumption.
    destruct i; cbn [item_op ret_ok] in *; subst; cbn [fst]; [reflexivity|]. change (zlen (@nil Z)) with 0. lia.
Qed.

Lemma returned_arg last items rets :
  Forall2 (ret_ok) (arg_ops last items) rets -> returned rets = zlen (arg_bytes items).
Proof.
  unfold arg_ops. intros H. inversion H as [|o r l l' Hb Hr]; subst. cbn [ret_ok] in Hb. subst.
  apply Forall2_app_inv_l in Hr as (l1 & l2 & H1 & H2 & ->).
  inversion H2 as [|o2 r2 l3 l4 Hc Hn]; subst. inversion Hn; subst. cbn [ret_ok] in Hc. subst.
  unfold returned. cbn [map fst zsum fold_right]. fold (zsum (map fst (l1 ++ [(0, 0)]))).
  rewrite map_app, zsum_app. cbn [map fst zsum fold_right].
  pose proof (returned_items items l1 H1) as E. unfold returned in E. lia.
Qed.

(* WRITER, all scripts, with the returned values: for every capacity function, checksum and three
   arguments written with ANY sequence of write sizes (each < 2^63, as every Go slice) and flushes:
   no panic; every Write(p) returns (len(p), nil), every other operation nil; the counts returned
   for the Writes of an argument add up to the length of that argument; the fragments denote the
   arguments; and codes and final state are those of the run of Model/Frag.v (C01_writer). *)
Theorem io_writer : forall (capf : bool -> Z) ck a1 a2 a3,
  3 <= capf true -> 5 <= capf false ->
  small_writes a1 -> small_writes a2 -> small_writes a3 ->
  exists r1 st1 r2 st2 r3 st3,
    w_run_n capf (arg_ops false a1) (w_init ck) = Some (r1, st1) /\
    w_run_n capf (arg_ops false a2) st1 = Some (r2, st2) /\
    w_run_n capf (arg_ops true a3) st2 = Some (r3, st3) /\
    Forall2 ret_ok (arg_ops false a1) r1 /\ Forall2 ret_ok (arg_ops false a2) r2 /\ Forall2 ret_ok (arg_ops true a3) r3 /\
    returned r1 = zlen (arg_bytes a1) /\ returned r2 = zlen (arg_bytes a2) /\ returned r3 = zlen (arg_bytes a3) /\
    denote (chunks_of (ws_out st3)) = [arg_bytes a1; arg_bytes a2; arg_bytes a3] /\
    map zlen (denote (chunks_of (ws_out st3))) = [returned r1; returned r2; returned r3] /\
    w_run capf (script3 a1 a2 a3) (w_init ck) [] = Some (map snd (r1 ++ r2 ++ r3), st3).
Proof.
  intros capf ck a1 a2 a3 H1 H2 S1 S2 S3.
  destruct (writer_correct capf ck a1 a2 a3 H1 H2) as (codes & st & R & C0 & _ & _ & D & _ & _).
  assert (Hc : 3 <= capf false) by lia.
  rewrite run_n_run in R. unfold script3 in R. rewrite run_n_app in R.
  destruct (w_run_n capf (arg_ops false a1) (w_init ck)) as [[r1 st1]|] eqn:E1; [|discriminate].
  rewrite run_n_app in R.
  destruct (w_run_n capf (arg_ops false a2) st1) as [[r2 st2]|] eqn:E2; [|discriminate].
  destruct (w_run_n capf (arg_ops true a3) st2) as [[r3 st3]|] eqn:E3; [|discriminate].
  cbn [app] in R. inversion R; subst codes st. clear R.
  rewrite !map_app in C0. apply Forall_app in C0 as [C1 C0]. apply Forall_app in C0 as [C2 C3].
  pose proof (run_n_rets capf _ _ _ _ Hc (small_arg_ops false a1 S1) E1 C1) as F1.
  pose proof (run_n_rets capf _ _ _ _ Hc (small_arg_ops false a2 S2) E2 C2) as F2.
  pose proof (run_n_rets capf _ _ _ _ Hc (small_arg_ops true a3 S3) E3 C3) as F3.
  pose proof (returned_arg _ _ _ F1) as N1. pose proof (returned_arg _ _ _ F2) as N2. pose proof (returned_arg _ _ _ F3) as N3.
  exists r1, st1, r2, st2, r3, st3.
  split; [reflexivity|]. split; [exact E2|]. split; [exact E3|].
  split; [exact F1|]. split; [exact F2|]. split; [exact F3|].
  split; [exact N1|]. split; [exact N2|]. split; [exact N3|].
  split; [exact D|]. split; [rewrite D, N1, N2, N3; reflexivity|].
  rewrite run_n_run. unfold script3. rewrite run_n_app, E1, run_n_app, E2, E3. reflexivity.
Qed.

(* ONE Write, any state in which an argument is open: n = len(p), nil, and the state of Model/Frag.v *)
Theorem io_write_once : forall (capf : bool -> Z) st p,
  3 <= capf false -> zlen p < int_max -> ws_err st = 0 -> is_writing (ws_state st) = true ->
  exists st', w_write capf p st = Some (0, st') /\ w_write_n capf p st = Some (zlen p, 0, st').
Proof.
  intros capf st p Hc Hp He Hw. rewrite write_n_write. unfold w_write. rewrite He, Hw. cbn [Z.eqb negb andb].
  eexists. split; [reflexivity|]. rewrite write_loop_count by assumption. reflexivity.
Qed.

(* a caller that re-offers what a short count leaves makes ONE call and leaves the writer as one Write does *)
Theorem io_send_all_once : forall (capf : bool -> Z) st p fuel,
  3 <= capf false -> zlen p < int_max -> ws_err st = 0 -> is_writing (ws_state st) = true -> p <> [] ->
  exists st', w_write capf p st = Some (0, st') /\ w_send_all capf (S fuel) p st 0 = Some (1, 0, st').
Proof.
  intros capf st p fuel Hc Hp He Hw Hne.
  destruct (io_write_once capf st p Hc Hp He Hw) as (st' & W & N).
  exists st'. split; [exact W|].
  destruct p as [|x p]; [congruence|]. cbn [w_send_all]. rewrite N. cbn [Z.eqb negb].
  rewrite skipn_zlen. destruct fuel; reflexivity.
Qed.

(* ================= reader ================= *)

(* the loop of Read: never more than asked; exactly as much as asked iff the code is nil *)
Lemma read_loop_len fuel : forall n acc st bs c st1,
  0 <= n -> r_read_loop fuel n acc st = Some (bs, c, st1) ->
  zlen bs <= zlen acc + n /\ (c = 0 -> zlen bs = zlen acc + n) /\ (c <> 0 -> zlen bs < zlen acc + n).
Proof.
  induction fuel as [|f IH]; intros n acc st bs c st1 Hn H; cbn [r_read_loop] in H;
    pose proof (zlen_nonneg (rs_cur st)) as Hl;
    set (k := Z.min n (zlen (rs_cur st))) in *;
    assert (Hk : 0 <= k <= zlen (rs_cur st) /\ k <= n) by (subst k; lia);
    assert (Hg : zlen (acc ++ firstn (Z.to_nat k) (rs_cur st)) = zlen acc + k) by (rewrite zlen_app, zlen_firstn by lia; reflexivity);
    destruct (n - k =? 0) eqn:E.
  - inversion H; subst. rewrite Hg. lia.
  - cbn [rs_rem rs_more] in H. destruct (rs_rem st); [|inversion H; subst; rewrite Hg; lia].
    destruct (negb (rs_more st)); inversion H; subst; rewrite Hg; lia.
  - inversion H; subst. rewrite Hg. lia.
  - cbn [rs_rem rs_more] in H. destruct (rs_rem st); [|inversion H; subst; rewrite Hg; lia].
    destruct (negb (rs_more st)); [inversion H; subst; rewrite Hg; lia|].
    match type of H with match ?r with _ => _ end = _ => destruct r as [[c2 st2]|] eqn:R end; [|discriminate].
    destruct (c2 =? 0) eqn:E2.
    + apply IH in H; [|lia]. rewrite Hg in H. lia.
    + inversion H; subst. rewrite Hg. apply Z.eqb_neq in E2. lia.
Qed.

(* the counted loop against the loop of Model/Frag.v: the total it returns is the number of bytes delivered *)
Lemma read_loop_n_loop fuel : forall n acc t st,
  0 <= n -> t = zlen acc -> t + n < int_max ->
  r_read_loop_n fuel n acc t st =
  match r_read_loop fuel n acc st with None => None | Some (bs, c, st1) => Some (zlen bs, bs, c, st1) end.
Proof.
  induction fuel as [|f IH]; intros n acc t st Hn Ht Hb; cbn [r_read_loop_n r_read_loop]; unfold rd_iter;
    pose proof (zlen_nonneg (rs_cur st)) as Hl; pose proof (zlen_nonneg acc) as Ha;
    set (k := Z.min n (zlen (rs_cur st))) in *;
    assert (Hk : 0 <= k <= zlen (rs_cur st) /\ k <= n) by (subst k; lia);
    assert (Hg : zlen (acc ++ firstn (Z.to_nat k) (rs_cur st)) = zlen acc + k) by (rewrite zlen_app, zlen_firstn by lia; reflexivity);
    rewrite (wrap_int (t + k)) by lia; subst t; rewrite <- Hg;
    destruct (n - k =? 0) eqn:E; try reflexivity.
  - cbn [rs_rem rs_more]. destruct (rs_rem st); [|reflexivity]. destruct (negb (rs_more st)); reflexivity.
  - cbn [rs_rem rs_more]. destruct (rs_rem st); [|reflexivity]. destruct (negb (rs_more st)); [reflexivity|].
    match goal with |- match ?r with _ => _ end = _ => destruct r as [[c2 st2]|] end; [|reflexivity].
    destruct (c2 =? 0); [|reflexivity].
    apply IH; [lia|reflexivity|rewrite Hg; lia].
Qed.

(* READ with its count: the same bytes, code and state as Read of Model/Frag.v; the count is the
   number of bytes delivered; never more than len(buf); len(buf) exactly iff the error is nil *)
Theorem io_read : forall n st, 0 <= n < int_max ->
  r_read_n n st = match r_read n st with None => None | Some (bs, c, st1) => Some (zlen bs, bs, c, st1) end /\
  forall bs c st1, r_read n st = Some (bs, c, st1) ->
    zlen bs <= n /\ (c = 0 -> zlen bs = n) /\ (c <> 0 -> zlen bs < n \/ n = 0).
Proof.
  intros n st Hn. split.
  - unfold r_read_n, r_read. destruct (rs_err st =? 0); cbn [negb]; [|reflexivity].
    destruct (is_reading (rs_state st)); cbn [negb]; [|reflexivity].
    apply read_loop_n_loop; [lia|reflexivity|change (zlen (@nil Z)) with 0; lia].
  - intros bs c st1 H. unfold r_read in H.
    destruct (rs_err st =? 0) eqn:E; cbn [negb] in H.
    + destruct (is_reading (rs_state st)); cbn [negb] in H.
      * apply read_loop_len in H; [|lia]. change (zlen (@nil Z)) with 0 in H. lia.
      * inversion H; subst. change (zlen (@nil Z)) with 0. lia.
    + inversion H; subst. apply Z.eqb_neq in E. change (zlen (@nil Z)) with 0. lia.
Qed.

(* non-vacuity: a single Write across 2, 3 and 5 fragments (capacity 10: 8 data bytes per
   continuation fragment) returns its full length; and the counts as the harness sees them *)
Example io_write_spans :
  let capf := fun _ : bool => 10 in
  let st0 := match w_begin capf false (w_init (mkCk 0 0)) with Some (_, s) => s | None => w_init (mkCk 0 0) end in
  map (fun k => match w_write_n capf (repeat 7 k) st0 with
                | Some (n, c, st) => (n, c, Z.of_nat (length (ws_out st)))
                | None => (-1, -1, -1) end) [8%nat; 9%nat; 17%nat; 33%nat; 40%nat]
  = [(8, 0, 0); (9, 0, 1); (17, 0, 2); (33, 0, 4); (40, 0, 4)].
Proof. vm_compute. reflexivity. Qed.

Print Assumptions io_writer.
Print Assumptions io_send_all_once.
Print Assumptions io_read.
