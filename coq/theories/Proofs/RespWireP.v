(* Proofs about Model/RespWire.v (property C10, server side): for every run, for every id
   that is requested at most once and whose handler does not misuse SendSystemError, the
   frames enqueued for the id form a prefix of an accepted word of Spec/WireOk.v. *)
From Coq Require Import ZArith List Bool Lia.
From Verif Require Import Base.Wire Spec.WireOk Proofs.WireOkP Model.ArgHelper Model.RespWire.
Import ListNotations.
Local Open Scope Z_scope.

(* ---- association list, projection, counting ------------------------------------------- *)

Lemma get_put_same id c l : get id (put id c l) = Some c.
Proof.
  induction l as [|[k c0] r IH]; cbn [put get].
  - rewrite Z.eqb_refl. reflexivity.
  - destruct (k =? id) eqn:E; cbn [get]; rewrite E; [reflexivity | exact IH].
Qed.

Lemma get_put_other id id' c l : id <> id' -> get id (put id' c l) = get id l.
Proof.
  intros N. induction l as [|[k c0] r IH]; cbn [put get].
  - destruct (id' =? id) eqn:E; [apply Z.eqb_eq in E; congruence | reflexivity].
  - destruct (k =? id') eqn:E; cbn [get].
    + apply Z.eqb_eq in E. subst k. destruct (id' =? id) eqn:E2; [apply Z.eqb_eq in E2; congruence | reflexivity].
    + destruct (k =? id); [reflexivity | exact IH].
Qed.

Lemma get_map_notify id l :
  get id (map notify_in_ex l) = option_map notify (get id l).
Proof.
  induction l as [|[k c0] r IH]; cbn [map get notify_in_ex fst snd option_map].
  - reflexivity.
  - destruct (k =? id); [reflexivity | exact IH].
Qed.

Lemma proj_app id l1 l2 : proj id (l1 ++ l2) = proj id l1 ++ proj id l2.
Proof.
  induction l1 as [|[i k] r IH]; cbn [proj app]; [reflexivity|].
  destruct (i =? id); cbn [app]; rewrite IH; reflexivity.
Qed.

Lemma proj_snoc_same id l k : proj id (l ++ [(id, k)]) = proj id l ++ [k].
Proof. rewrite proj_app. cbn [proj]. rewrite Z.eqb_refl. reflexivity. Qed.

Lemma proj_snoc_other id id' l k : id <> id' -> proj id (l ++ [(id', k)]) = proj id l.
Proof.
  intros N. rewrite proj_app. cbn [proj].
  destruct (id' =? id) eqn:E; [apply Z.eqb_eq in E; congruence | apply app_nil_r].
Qed.

Lemma count_req_app id l1 l2 : count_req id (l1 ++ l2) = (count_req id l1 + count_req id l2)%nat.
Proof.
  induction l1 as [|x r IH]; cbn [count_req app]; [reflexivity|].
  destruct (x =? id); rewrite IH; reflexivity.
Qed.

Lemma count_req_snoc_same id l : count_req id (l ++ [id]) = S (count_req id l).
Proof. rewrite count_req_app. cbn [count_req]. rewrite Z.eqb_refl. lia. Qed.

Lemma count_req_snoc_other id id' l : id <> id' -> count_req id (l ++ [id']) = count_req id l.
Proof.
  intros N. rewrite count_req_app. cbn [count_req].
  destruct (id' =? id) eqn:E; [apply Z.eqb_eq in E; congruence | lia].
Qed.

(* ---- the invariant ------------------------------------------------------------------------ *)

Definition notlive (c : call) : Prop := m_ctx c <> CtxLive.

(* what the writer of a call looks like when the automaton of Spec/WireOk.v is in state q *)
Definition R (q : wstate) (c : call) : Prop :=
  (f_cur c = true -> f_state c <> FStart) /\
  (f_cur c = false -> f_state c = FStart \/ f_err c = true) /\
  (g_dones c = true -> notlive c) /\
  match h_pc c with
  | PFlushSel _ => g_dones c = false /\ f_cur c = true
  | PNewFrag => f_cur c = true
  | _ => True
  end /\
  match q with
  | W0 => h_pc c <> PNewFrag /\ (f_cur c = true -> f_first c = true)
  | WMid => f_state c <> FStart /\ (h_pc c = PNewFrag \/ (f_cur c = true -> f_first c = false))
  | WEnd => g_dones c = true \/ h_pc c = PDone \/ h_pc c = PDead
  end.

Definition good (st : state) (id : Z) : Prop :=
  match get id (calls st) with
  | None =>
      (rd_pc st = RChecked id -> proj id (sent st) = []) /\
      (proj id (sent st) = [] \/ proj id (sent st) = [Err]) /\
      rd_pc st <> RAdded id /\
      (count_req id (requested st) = O -> proj id (sent st) = [] /\ rd_pc st <> RChecked id)
  | Some c =>
      rd_pc st <> RChecked id /\
      (rd_pc st = RAdded id -> h_pc c = PAdmit /\ proj id (sent st) = []) /\
      (1 <= count_req id (requested st))%nat /\
      exists q, wire_run W0 (proj id (sent st)) = Some q /\ R q c
  end.

Definition Inv (st : state) : Prop :=
  forall id, (count_req id (requested st) <= 1)%nat -> ~ In id (misused st) -> good st id.

(* [good] only looks at four components *)
Lemma good_ext st st' id :
  get id (calls st') = get id (calls st) -> proj id (sent st') = proj id (sent st) ->
  rd_pc st' = rd_pc st -> requested st' = requested st ->
  good st id -> good st' id.
Proof. unfold good. intros -> -> -> ->. exact (fun H => H). Qed.

(* ---- frame: a step of call [lid] leaves every other id alone ------------------------------ *)

Definition frame_eq (lid : Z) (st st' : state) : Prop :=
  rd_pc st' = rd_pc st /\ requested st' = requested st /\
  (forall x, In x (misused st) -> In x (misused st')) /\
  (forall id, id <> lid ->
     get id (calls st') = get id (calls st) /\ proj id (sent st') = proj id (sent st)).

Lemma frame_refl lid st : frame_eq lid st st.
Proof. repeat split; auto. Qed.

Lemma frame_trans lid a b c : frame_eq lid a b -> frame_eq lid b c -> frame_eq lid a c.
Proof.
  intros (A1 & A2 & A3 & A4) (B1 & B2 & B3 & B4). repeat split; try congruence; auto.
  - destruct (B4 id H) as [E _]. destruct (A4 id H) as [F _]. congruence.
  - destruct (B4 id H) as [_ E]. destruct (A4 id H) as [_ F]. congruence.
Qed.

Lemma frame_check lid st : frame_eq lid st (check_exchanges st).
Proof. repeat split; auto. Qed.

Lemma frame_commit lid st c chk : frame_eq lid st (commit st lid c chk).
Proof.
  unfold commit. destruct chk; cbn; repeat split; auto; cbn; apply get_put_other; assumption.
Qed.

Lemma frame_enqueue lid st k : frame_eq lid st (enqueue st lid k).
Proof.
  repeat split; auto. cbn. apply proj_snoc_other. assumption.
Qed.

Lemma frame_misused lid st : frame_eq lid st (add_misused st lid).
Proof. repeat split; auto. cbn. intros x H. apply in_or_app. left; exact H. Qed.

Lemma frame_send_syserr lid st full st2 ok :
  conn_send_syserr st lid full = (st2, ok) -> frame_eq lid st st2.
Proof.
  unfold conn_send_syserr. destruct (cst st); [destruct full|destruct full|destruct full|];
    intros H; inversion H; subst; try apply frame_refl; apply frame_enqueue.
Qed.

Lemma frame_send_syserr_fst lid st full : frame_eq lid st (fst (conn_send_syserr st lid full)).
Proof. destruct (conn_send_syserr st lid full) as [st2 ok] eqn:E. eapply frame_send_syserr; exact E. Qed.

Lemma frame_flush1 lid st c final : frame_eq lid st (flush1 st lid c final).
Proof.
  unfold flush1. destruct (w_err c); [apply frame_commit|].
  destruct (check_error c); [|apply frame_commit].
  destruct (failed_call c); apply frame_commit.
Qed.

Lemma frame_arg_writer lid st c k : frame_eq lid st (arg_writer st lid c k).
Proof.
  unfold arg_writer.
  repeat match goal with
         | |- frame_eq _ _ (commit _ _ _ _) => apply frame_commit
         | |- frame_eq _ _ (let '(_, _) := ?x in _) => destruct x
         | |- frame_eq _ _ (if ?b then _ else _) => destruct b
         | |- frame_eq _ _ (match ?x with _ => _ end) => destruct x
         end.
Qed.

Ltac frame_tac :=
  repeat match goal with
         | |- frame_eq _ ?s ?s => apply frame_refl
         | |- frame_eq _ _ (commit _ _ _ _) => apply frame_commit
         | |- frame_eq _ _ (flush1 _ _ _ _) => apply frame_flush1
         | |- frame_eq _ _ (arg_writer _ _ _ _) => apply frame_arg_writer
         | |- frame_eq _ _ (enqueue (commit _ _ _ _) _ _) =>
             eapply frame_trans; [apply frame_commit | apply frame_enqueue]
         end.

Lemma Some_inj {A} (a b : A) : Some a = Some b -> a = b.
Proof. intros H; inversion H; reflexivity. Qed.

Lemma frame_hstep lid st c l st' : hstep st lid c l = Some st' -> frame_eq lid st st'.
Proof.
  unfold hstep, hclose. intros H.
  destruct l; destruct (h_pc c); try discriminate;
    repeat match type of H with
           | Some _ = Some _ => apply Some_inj in H; subst st'
           | None = Some _ => discriminate
           | (let '(_, _) := ?x in _) = Some _ => destruct x eqn:?
           | (if ?b then _ else _) = Some _ => destruct b eqn:?
           | (match ?x with _ => _ end) = Some _ => destruct x eqn:?
           end; try discriminate; frame_tac.
  (* HSysErr: (misused) ; send ; commit *)
  eapply frame_trans; [|apply frame_commit].
  eapply frame_trans; [|eapply frame_send_syserr; eassumption].
  destruct (g_dones c); [apply frame_misused | apply frame_refl].
Qed.

(* ---- transport of R along changes that do not touch the writer's fields -------------------- *)

Definition wsame (c c' : call) : Prop :=
  f_cur c' = f_cur c /\ f_state c' = f_state c /\ f_err c' = f_err c /\ f_first c' = f_first c /\
  h_pc c' = h_pc c /\ g_dones c' = g_dones c /\ (notlive c -> notlive c').

Lemma wsame_refl c : wsame c c.
Proof. unfold wsame; tauto. Qed.

Lemma R_wsame q c c' : wsame c c' -> R q c -> R q c'.
Proof.
  unfold wsame, R. intros (E1 & E2 & E3 & E4 & E5 & E6 & E7). rewrite E1, E2, E3, E4, E5, E6.
  intros (A & B & C & D & E). repeat split; auto.
Qed.

Lemma wsame_shut c c1 chk : shut_call c = (c1, chk) -> wsame c c1.
Proof.
  unfold shut_call. destruct (m_shut c); intros H; inversion H; subst; unfold wsame, notlive; cbn; tauto.
Qed.

Lemma wsame_failed c c1 chk : failed_call c = (c1, chk) -> wsame c c1.
Proof.
  unfold failed_call. destruct (w_err c).
  - intros H; inversion H; subst. apply wsame_refl.
  - destruct (shut_call c) as [c2 chk2] eqn:E. intros H; inversion H; subst.
    apply wsame_shut in E. unfold wsame, notlive in *. cbn. tauto.
Qed.

Lemma wsame_cancel c : wsame c (cancel_call c).
Proof.
  unfold wsame, notlive, cancel_call. cbn. repeat split; auto.
  destruct (m_ctx c); congruence.
Qed.

Lemma notlive_cancel c : notlive (cancel_call c).
Proof. unfold notlive, cancel_call. cbn. destruct (m_ctx c); discriminate. Qed.

Lemma wsame_expire c : wsame c (expire_call c).
Proof. unfold wsame, notlive, expire_call. cbn. tauto. Qed.

Lemma wsame_notify c : wsame c (notify c).
Proof. unfold notify. destruct (in_ex c); [unfold wsame, notlive; cbn; tauto | apply wsame_refl]. Qed.

Lemma wsame_trans a b c : wsame a b -> wsame b c -> wsame a c.
Proof. unfold wsame. intuition congruence. Qed.

(* doneSending: same writer fields, g_dones set, context no longer live *)
Lemma done_sending_spec c c2 chk : done_sending c = (c2, chk) ->
  f_cur c2 = f_cur c /\ f_state c2 = f_state c /\ f_err c2 = f_err c /\ f_first c2 = f_first c /\
  h_pc c2 = h_pc c /\ g_dones c2 = true /\ notlive c2.
Proof.
  unfold done_sending. pose proof (wsame_cancel c) as W. pose proof (notlive_cancel c) as N.
  destruct (w_err (cancel_call c)).
  - intros H; inversion H; subst. unfold wsame, notlive in *. cbn. tauto.
  - destruct (shut_call (cancel_call c)) as [c3 chk3] eqn:E. intros H; inversion H; subst.
    apply wsame_shut in E. unfold wsame, notlive in *. cbn. intuition congruence.
Qed.

Lemma check_error_false c : check_error c = false -> m_ctx c = CtxLive.
Proof. unfold check_error. destruct (m_ctx c); [reflexivity | discriminate | discriminate]. Qed.

Lemma get_commit_same st id c chk : get id (calls (commit st id c chk)) = Some c.
Proof. unfold commit. destruct chk; cbn; apply get_put_same. Qed.

Lemma sent_commit st id c chk : sent (commit st id c chk) = sent st.
Proof. unfold commit. destruct chk; reflexivity. Qed.

Lemma rd_commit st id c chk : rd_pc (commit st id c chk) = rd_pc st.
Proof. unfold commit. destruct chk; reflexivity. Qed.

Lemma req_commit st id c chk : requested (commit st id c chk) = requested st.
Proof. unfold commit. destruct chk; reflexivity. Qed.

Lemma mis_commit st id c chk : misused (commit st id c chk) = misused st.
Proof. unfold commit. destruct chk; reflexivity. Qed.

(* ---- a handler step of call [id] keeps the relation between log and writer ----------------- *)

Definition hpost (id : Z) (st' : state) : Prop :=
  exists c' q', get id (calls st') = Some c' /\ wire_run W0 (proj id (sent st')) = Some q' /\ R q' c'.

Lemma hpost_commit st id c' chk q :
  wire_run W0 (proj id (sent st)) = Some q -> R q c' -> hpost id (commit st id c' chk).
Proof.
  intros Hq HR. exists c', q. split; [apply get_commit_same|]. rewrite sent_commit. auto.
Qed.

Lemma hpost_enq st id c' chk q k q' :
  wire_run W0 (proj id (sent st)) = Some q -> wire_step q k = Some q' -> R q' c' ->
  hpost id (enqueue (commit st id c' chk) id k).
Proof.
  intros Hq Hs HR. exists c', q'. split; [|split; [|exact HR]].
  - cbn [calls enqueue]. apply get_commit_same.
  - cbn [sent enqueue]. rewrite sent_commit, proj_snoc_same, wire_run_snoc, Hq. exact Hs.
Qed.

Ltac fields :=
  cbn [f_cur f_state f_err f_first g_dones h_pc m_ctx m_loc m_errch m_shut w_err w_state rd_err e_pc g_rets
       ret upd_f upd_pc upd_w upd_mex upd_epc upd_dones set_ferr] in *.

Ltac use_wsame :=
  repeat match goal with
         | H : shut_call _ = (_, _) |- _ => apply wsame_shut in H
         | H : failed_call _ = (_, _) |- _ => apply wsame_failed in H
         | H : done_sending _ = (_, _) |- _ => apply done_sending_spec in H
         | H : check_error _ = false |- _ => apply check_error_false in H
         end.

Ltac Rsolve :=
  use_wsame; unfold R, wsame, notlive in *; fields;
  repeat match goal with H : _ /\ _ |- _ => destruct H end;
  repeat match goal with
         | H : ?f ?c1 = ?f ?c |- _ => rewrite H in *; clear H
         end;
  repeat match goal with
         | H : h_pc ?c = _ |- _ => rewrite H in *
         end;
  fields;
  repeat match goal with H : _ /\ _ |- _ => destruct H end;
  try solve [intuition (try congruence; try discriminate)];
  try solve [repeat match goal with
                    | |- context [g_dones ?c] => destruct (g_dones c) eqn:?
                    | |- context [f_cur ?c] => destruct (f_cur c) eqn:?
                    end; intuition (try congruence; try discriminate)].

Lemma flush1_post st id c final q :
  wire_run W0 (proj id (sent st)) = Some q -> R q c -> h_pc c = PIdle -> f_cur c = true ->
  hpost id (flush1 st id c final).
Proof.
  intros Hq HR Hpc Hcur. unfold flush1.
  destruct (w_err c) eqn:We.
  - eapply hpost_commit; [exact Hq|]. destruct final, q; Rsolve.
  - destruct (check_error c) eqn:Ce.
    + destruct (failed_call c) as [c1 chk] eqn:Fc.
      eapply hpost_commit; [exact Hq|]. destruct final, q; Rsolve.
    + eapply hpost_commit; [exact Hq|]. destruct q; Rsolve.
Qed.

Lemma arg_writer_post st id c k q :
  wire_run W0 (proj id (sent st)) = Some q -> R q c -> h_pc c = PIdle ->
  hpost id (arg_writer st id c k).
Proof.
  intros Hq HR Hpc. unfold arg_writer.
  repeat match goal with
         | |- hpost _ (commit _ _ _ _) => eapply hpost_commit; [exact Hq|]
         | |- hpost _ (let '(_, _) := ?x in _) => destruct x eqn:?
         | |- hpost _ (if ?b then _ else _) => destruct b eqn:?
         | |- hpost _ (match ?x with _ => _ end) => destruct x eqn:?
         end; destruct q, (k =? 3); Rsolve.
Qed.

Ltac leaf Hq q := eapply hpost_commit; [exact Hq | destruct q; Rsolve].

(* fragmenting_writer.go Close, shared by HClose and the successful path of HHelperWrite *)
Lemma hclose_post st id c fullfrag st' q :
  wire_run W0 (proj id (sent st)) = Some q -> R q c -> h_pc c = PIdle ->
  hclose st id c fullfrag = Some st' -> hpost id st'.
Proof.
  intros Hq HR Hpc H. unfold hclose in H.
    destruct (f_err c) eqn:Fe.
    { apply Some_inj in H; subst st'. leaf Hq q. }
    destruct (f_state c) eqn:Fs.
    + apply Some_inj in H; subst st'. leaf Hq q.
    + destruct fullfrag; cbn [negb] in H.
      * destruct (f_cur c) eqn:Hcur; cbn [negb f_cur upd_f] in H; [|discriminate].
        apply Some_inj in H; subst st'. eapply flush1_post; [exact Hq | destruct q; Rsolve | exact Hpc | reflexivity].
      * apply Some_inj in H; subst st'. leaf Hq q.
    + destruct (f_cur c) eqn:Hcur; cbn [negb] in H; [|discriminate].
      apply Some_inj in H; subst st'. eapply flush1_post; [exact Hq | destruct q; Rsolve | exact Hpc | reflexivity].
    + apply Some_inj in H; subst st'. leaf Hq q.
    + apply Some_inj in H; subst st'. leaf Hq q.
Qed.

(* ArgWriteHelper.write closes its writer exactly when f() succeeded (computed from Model/ArgHelper.v) *)
Lemma helper_closes_eq ok : helper_closes ok = ok.
Proof. destruct ok; reflexivity. Qed.

Lemma hstep_same st id c l st' q :
  get id (calls st) = Some c ->
  wire_run W0 (proj id (sent st)) = Some q -> R q c ->
  hstep st id c l = Some st' -> ~ In id (misused st') ->
  h_pc c <> PAdmit /\ hpost id st'.
Proof.
  intros Hget Hq HR H Hmis. unfold hstep in H.
  destruct l; destruct (h_pc c) eqn:Hpc; try discriminate; (split; [discriminate|]).
  - (* HStart *)
    destruct ok.
    + apply Some_inj in H; subst st'. leaf Hq q.
    + destruct (shut_call c) as [c1 chk] eqn:E. apply Some_inj in H; subst st'. leaf Hq q.
  - (* HResp *)
    apply Some_inj in H; subst st'. destruct (rd_err c); leaf Hq q.
  - (* HReadFail *)
    destruct (rd_err c).
    + apply Some_inj in H; subst st'. exists c, q. auto.
    + destruct shut.
      * destruct (shut_call c) as [c1 chk] eqn:E. apply Some_inj in H; subst st'. leaf Hq q.
      * apply Some_inj in H; subst st'. leaf Hq q.
  - (* HArgWriter *)
    apply Some_inj in H; subst st'. eapply arg_writer_post; eassumption.
  - (* HFlush *)
    destruct (viaWrite && f_err c).
    { apply Some_inj in H; subst st'. leaf Hq q. }
    destruct (viaWrite && negb (writing (f_state c))).
    { apply Some_inj in H; subst st'. leaf Hq q. }
    destruct (f_cur c) eqn:Hcur; cbn [negb] in H; [|discriminate].
    apply Some_inj in H; subst st'. eapply flush1_post; eassumption.
  - (* HFlushSel *)
    destruct enq.
    + apply Some_inj in H; subst st'.
      destruct q, (f_first c) eqn:Hf, final; cbn [negb];
        first [ solve [exfalso; Rsolve]
              | eapply hpost_enq; [exact Hq | reflexivity | Rsolve] ].
    + destruct (check_error c) eqn:Ce; [|discriminate].
      destruct (failed_call c) as [c1 chk] eqn:Fc. apply Some_inj in H; subst st'.
      destruct final; leaf Hq q.
  - (* HNewFrag *)
    destruct (check_error c) eqn:Ce.
    + destruct (failed_call c) as [c1 chk] eqn:Fc. apply Some_inj in H; subst st'. leaf Hq q.
    + apply Some_inj in H; subst st'. leaf Hq q.
  - (* HClose *)
    eapply hclose_post; eassumption.
  - (* HDone *)
    destruct (done_sending c) as [c1 chk] eqn:Ds. apply Some_inj in H; subst st'.
    destruct (f_err c1); leaf Hq q.
  - (* HSysErr *)
    destruct (w_err c) eqn:We.
    { apply Some_inj in H; subst st'. leaf Hq q. }
    destruct (conn_send_syserr (if g_dones c then add_misused st id else st) id full) as [st1 ok] eqn:Cs.
    destruct (done_sending (upd_w c false WComplete (rd_err c))) as [c1 chk] eqn:Ds.
    apply Some_inj in H; subst st'. rewrite mis_commit in Hmis.
    assert (Hd : g_dones c = false).
    { destruct (g_dones c) eqn:Hd; [|reflexivity]. exfalso. apply Hmis.
      unfold conn_send_syserr in Cs.
      destruct (cst _); [destruct full|destruct full|destruct full|]; inversion Cs; subst;
        cbn [misused enqueue add_misused]; apply in_or_app; right; left; reflexivity. }
    rewrite Hd in Cs. unfold conn_send_syserr in Cs.
    assert (Cs' : (st1 = st /\ ok = false) \/ (st1 = enqueue st id Err /\ ok = true)).
    { destruct (cst _); [destruct full|destruct full|destruct full|]; inversion Cs; subst; auto. }
    clear Cs. destruct Cs' as [[-> ->] | [-> ->]].
    + eapply hpost_commit; [exact Hq | destruct q; Rsolve].
    + destruct q.
      * eapply hpost_commit;
          [cbn [sent enqueue]; rewrite proj_snoc_same, wire_run_snoc, Hq; reflexivity | Rsolve].
      * eapply hpost_commit;
          [cbn [sent enqueue]; rewrite proj_snoc_same, wire_run_snoc, Hq; reflexivity | Rsolve].
      * exfalso. Rsolve.
  - (* HSetAppErr *)
    destruct (w_state c).
    + apply Some_inj in H; subst st'. leaf Hq q.
    + apply Some_inj in H; subst st'. leaf Hq q.
    + destruct (failed_call c) as [c1 chk] eqn:Fc. apply Some_inj in H; subst st'. leaf Hq q.
    + destruct (failed_call c) as [c1 chk] eqn:Fc. apply Some_inj in H; subst st'. leaf Hq q.
  - (* HBlackhole *)
    apply Some_inj in H; subst st'.
    eapply hpost_commit; [exact Hq | eapply R_wsame; [apply wsame_cancel | exact HR]].
  - (* HHelperWrite *)
    rewrite helper_closes_eq in H. destruct ok.
    + eapply hclose_post; eassumption.
    + apply Some_inj in H; subst st'. leaf Hq q.
Qed.

(* ---- steps that change only exchange/connection state --------------------------------------- *)

Definition csame (o o' : option call) : Prop :=
  match o, o' with
  | None, None => True
  | Some c, Some c' => wsame c c'
  | _, _ => False
  end.

Lemma csame_refl o : csame o o.
Proof. destruct o; cbn; [apply wsame_refl | exact I]. Qed.

Definition neutral (r : rpc) : Prop :=
  match r with RChecked _ | RAdded _ => False | _ => True end.

Lemma good_transport st st' id :
  csame (get id (calls st)) (get id (calls st')) ->
  proj id (sent st') = proj id (sent st) -> requested st' = requested st ->
  (rd_pc st' = rd_pc st \/ neutral (rd_pc st')) ->
  good st id -> good st' id.
Proof.
  unfold good, csame. intros Hc Hp Hr Hrd. rewrite Hp, Hr.
  destruct (get id (calls st)) as [c|], (get id (calls st')) as [c'|]; try contradiction.
  - intros (A & B & C & q & Hq & HR).
    assert (Hpc : h_pc c' = h_pc c) by (destruct Hc as (_ & _ & _ & _ & E & _); exact E).
    destruct Hrd as [-> | N].
    + split; [exact A|]. split; [rewrite Hpc; exact B|]. split; [exact C|].
      exists q. split; [exact Hq | eapply R_wsame; eassumption].
    + split; [intros E; rewrite E in N; exact N|]. split; [intros E; rewrite E in N; contradiction|].
      split; [exact C|]. exists q. split; [exact Hq | eapply R_wsame; eassumption].
  - intros (A & B & C & D). destruct Hrd as [-> | N]; [tauto|].
    split; [intros E; rewrite E in N; contradiction|]. split; [exact B|].
    split; [intros E; rewrite E in N; contradiction|].
    intros Z0. destruct (D Z0) as [D1 _]. split; [exact D1 | intros E; rewrite E in N; contradiction].
Qed.

Lemma csame_commit st lid c c' chk id :
  get lid (calls st) = Some c -> wsame c c' ->
  csame (get id (calls st)) (get id (calls (commit st lid c' chk))).
Proof.
  intros Hg W. destruct (Z.eq_dec id lid) as [->|N].
  - rewrite get_commit_same, Hg. exact W.
  - replace (get id (calls (commit st lid c' chk))) with (get id (calls st)); [apply csame_refl|].
    unfold commit. destruct chk; cbn; symmetry; apply get_put_other; exact N.
Qed.

Lemma good_commit_wsame st lid c c' chk id :
  get lid (calls st) = Some c -> wsame c c' -> good st id -> good (commit st lid c' chk) id.
Proof.
  intros Hg W. apply good_transport.
  - eapply csame_commit; eassumption.
  - rewrite sent_commit; reflexivity.
  - apply req_commit.
  - left. apply rd_commit.
Qed.

Lemma csame_stop st id : csame (get id (calls st)) (get id (calls (conn_stop st))).
Proof.
  unfold conn_stop. destruct (stopped st); [apply csame_refl|].
  destruct (mexset_shut st); cbn [calls set_calls]; [apply csame_refl|].
  rewrite get_map_notify. destruct (get id (calls st)); cbn; [apply wsame_notify | exact I].
Qed.

Lemma stop_fields st :
  sent (conn_stop st) = sent st /\ requested (conn_stop st) = requested st /\
  rd_pc (conn_stop st) = rd_pc st /\ misused (conn_stop st) = misused st.
Proof. unfold conn_stop. destruct (stopped st), (mexset_shut st); cbn; auto. Qed.

Lemma close_fields st :
  calls (conn_close st) = calls st /\ sent (conn_close st) = sent st /\
  requested (conn_close st) = requested st /\ rd_pc (conn_close st) = rd_pc st /\
  misused (conn_close st) = misused st.
Proof. unfold conn_close. destruct (cst st); cbn; auto. Qed.

(* ---- monotonicity of the ghost lists --------------------------------------------------------- *)

Definition mono (st st' : state) : Prop :=
  (forall x, In x (misused st) -> In x (misused st')) /\
  (forall id, (count_req id (requested st) <= count_req id (requested st'))%nat).

Lemma mono_same st st' : misused st' = misused st -> requested st' = requested st -> mono st st'.
Proof. intros A B. unfold mono. rewrite A, B. split; auto. Qed.

Lemma send_syserr_fields st id full :
  calls (fst (conn_send_syserr st id full)) = calls st /\
  requested (fst (conn_send_syserr st id full)) = requested st /\
  misused (fst (conn_send_syserr st id full)) = misused st /\
  rd_pc (fst (conn_send_syserr st id full)) = rd_pc st /\
  (sent (fst (conn_send_syserr st id full)) = sent st \/
   sent (fst (conn_send_syserr st id full)) = sent st ++ [(id, Err)]).
Proof.
  unfold conn_send_syserr. destruct (cst st); [destruct full|destruct full|destruct full|]; cbn; auto 10.
Qed.

Lemma step_mono st l st' : step st l = Some st' -> mono st st'.
Proof.
  intros H. destruct l; cbn [step] in H;
    try (unfold with_call in H; destruct (get id (calls st)) as [c|] eqn:Hg; [|discriminate];
         apply frame_hstep in H; destruct H as (_ & Hr & Hm & _); split; [exact Hm | rewrite Hr; auto]).
  - (* RdCallReq1 *)
    destruct (rd_pc st); try discriminate.
    assert (M : mono st (add_requested st id)).
    { split; [auto|]. intros x. cbn. rewrite count_req_app. lia. }
    destruct (cst (add_requested st id)); apply Some_inj in H; subst st'; try exact M;
      destruct (send_syserr_fields (add_requested st id) id full) as (_ & B & C & _);
      destruct M as [M1 M2]; (split; [rewrite C; exact M1 | rewrite B; exact M2]).
  - (* RdCallReq2 *)
    destruct (rd_pc st); try discriminate.
    destruct (negb ok); [apply Some_inj in H; subst st'; apply mono_same; reflexivity|].
    destruct (mexset_shut st || _); apply Some_inj in H; subst st'.
    + destruct (send_syserr_fields st id full) as (_ & B & C & _). apply mono_same; cbn; assumption.
    + apply mono_same; reflexivity.
  - (* RdCallReq3 *)
    destruct (rd_pc st); try discriminate. unfold with_call in H.
    destruct (get id (calls st)) as [c|]; [|discriminate].
    destruct (send_syserr_fields st id full) as (_ & SB & SC & _).
    destruct (cst st); [|destruct (shut_call c)..]; apply Some_inj in H; subst st';
      (apply mono_same; cbn [misused requested set_rd]; rewrite ?mis_commit, ?req_commit, ?SB, ?SC; reflexivity).
  - destruct (rd_pc st); try discriminate. apply Some_inj in H; subst st'.
    destruct (close_fields st) as (_ & _ & B & _ & C). apply mono_same; cbn; assumption.
  - destruct (rd_pc st); try discriminate. apply Some_inj in H; subst st'.
    destruct (stop_fields st) as (_ & B & _ & C). apply mono_same; cbn; assumption.
  - (* RdCancel *)
    destruct (rd_pc st); try discriminate.
    destruct (propagate st); [|apply Some_inj in H; subst st'; apply mono_same; reflexivity].
    destruct (get id (calls st)) as [c|]; [|apply Some_inj in H; subst st'; apply mono_same; reflexivity].
    destruct (in_ex c); apply Some_inj in H; subst st'; apply mono_same; try reflexivity;
      first [apply mis_commit | apply req_commit].
  - (* Deadline *)
    unfold with_call in H. destruct (get id (calls st)) as [c|]; [|discriminate].
    destruct (m_ctx c); try discriminate. apply Some_inj in H; subst st'.
    apply mono_same; [apply mis_commit | apply req_commit].
  - unfold with_call in H. destruct (get id (calls st)) as [c|]; [|discriminate].
    destruct (e_pc c); try discriminate. destruct (m_ctx c); try discriminate;
      apply Some_inj in H; subst st'; (apply mono_same; [apply mis_commit | apply req_commit]).
  - unfold with_call in H. destruct (get id (calls st)) as [c|]; [|discriminate].
    destruct (e_pc c); try discriminate. destruct (m_errch c); try discriminate.
    apply Some_inj in H; subst st'. apply mono_same; [apply mis_commit | apply req_commit].
  - apply Some_inj in H; subst st'. destruct (close_fields st) as (_ & _ & B & _ & C). apply mono_same; assumption.
  - apply Some_inj in H; subst st'. destruct (stop_fields st) as (_ & B & _ & C). apply mono_same; assumption.
  - apply Some_inj in H; subst st'. apply mono_same; reflexivity.
  - apply Some_inj in H; subst st'. apply mono_same; reflexivity.
  - destruct (0 <? n_out st); [|discriminate]. apply Some_inj in H; subst st'. apply mono_same; reflexivity.
Qed.

(* ---- the invariant is preserved by every step --------------------------------------------- *)

Lemma R_new : R W0 new_call.
Proof. unfold R, notlive, new_call; cbn. intuition discriminate. Qed.

Lemma good_hstep st lid c l st' id :
  get lid (calls st) = Some c -> hstep st lid c l = Some st' ->
  ~ In id (misused st') -> good st id -> good st' id.
Proof.
  intros Hg H Hm G. pose proof (frame_hstep _ _ _ _ _ H) as (Frd & Freq & _ & Fo).
  destruct (Z.eq_dec id lid) as [->|N].
  - unfold good in G. rewrite Hg in G. destruct G as (A & B & C & q & Hq & HR).
    destruct (hstep_same _ _ _ _ _ _ Hg Hq HR H Hm) as (Hpc & c' & q' & Hg' & Hq' & HR').
    unfold good. rewrite Hg', Frd, Freq. split; [exact A|]. split; [intros E; elim Hpc; apply (B E)|].
    split; [exact C|]. exists q'. auto.
  - destruct (Fo id N) as [E1 E2]. eapply good_ext; eassumption.
Qed.

Lemma step_inv st l st' : Inv st -> step st l = Some st' -> Inv st'.
Proof.
  intros HI H id Hc Hm.
  destruct (step_mono _ _ _ H) as [M1 M2].
  assert (G : good st id).
  { apply HI; [specialize (M2 id); lia | intros X; apply Hm, M1, X]. }
  destruct l; cbn [step] in H;
    try (unfold with_call in H; destruct (get id0 (calls st)) as [c|] eqn:Hg; [|discriminate];
         eapply good_hstep; eassumption).
  - (* RdCallReq1 *)
    destruct (rd_pc st) eqn:Hrd; try discriminate.
    destruct (send_syserr_fields (add_requested st id0) id0 full) as (S1 & S2 & _ & S4 & S5).
    assert (G' : match cst (add_requested st id0) with CActive => True | _ =>
                   good (fst (conn_send_syserr (add_requested st id0) id0 full)) id end).
    { destruct (cst (add_requested st id0)); try exact I;
        (unfold good in *; rewrite S1, S2, S4; cbn [calls requested rd_pc add_requested];
         rewrite Hrd in *;
         destruct (Z.eq_dec id id0) as [->|N];
         [ (* the id of this request *)
           assert (Z0 : count_req id0 (requested st) = O)
             by (destruct (cst (add_requested st id0)); apply Some_inj in H; subst st';
                 cbn [requested add_requested set_rd] in Hc; try rewrite S2 in Hc;
                 cbn [requested add_requested] in Hc; rewrite count_req_snoc_same in Hc; lia);
           destruct (get id0 (calls st)) as [c|];
           [ destruct G as (_ & _ & G3 & _); lia
           | destruct G as (_ & _ & _ & G4); destruct (G4 Z0) as [P0 _];
             split; [discriminate|]; split;
             [ destruct S5 as [-> | ->]; cbn [sent add_requested];
               [left; exact P0 | right; rewrite proj_snoc_same, P0; reflexivity]
             | split; [discriminate|]; rewrite count_req_snoc_same; discriminate ] ]
         | rewrite (count_req_snoc_other _ _ _ N);
           replace (proj id (sent (fst (conn_send_syserr (add_requested st id0) id0 full))))
             with (proj id (sent st))
             by (destruct S5 as [-> | ->]; cbn [sent add_requested];
                 [reflexivity | symmetry; apply proj_snoc_other; exact N]);
           exact G ]). }
    destruct (cst (add_requested st id0)); apply Some_inj in H; subst st'; try exact G'.
    (* Active: the reader remembers the id *)
    unfold good in *. cbn [calls requested rd_pc sent add_requested set_rd]. rewrite Hrd in *.
    destruct (Z.eq_dec id id0) as [->|N].
    + cbn [requested add_requested set_rd] in Hc. rewrite count_req_snoc_same in Hc.
      assert (Z0 : count_req id0 (requested st) = O) by lia.
      destruct (get id0 (calls st)) as [c|].
      * destruct G as (_ & _ & G3 & _). lia.
      * destruct G as (_ & _ & _ & G4). destruct (G4 Z0) as [P0 _].
        split; [intros _; exact P0|]. split; [left; exact P0|]. split; [discriminate|].
        rewrite count_req_snoc_same. discriminate.
    + rewrite (count_req_snoc_other _ _ _ N).
      destruct (get id (calls st)) as [c|].
      * destruct G as (_ & _ & G3 & G4). split; [intros E; inversion E; congruence|].
        split; [discriminate|]. auto.
      * destruct G as (_ & G2 & _ & G4). split; [intros E; inversion E; congruence|].
        split; [exact G2|]. split; [discriminate|]. intros Z0. destruct (G4 Z0) as [P0 _].
        split; [exact P0 | intros E; inversion E; congruence].
  - (* RdCallReq2 *)
    destruct (rd_pc st) as [|rid| | |] eqn:Hrd; try discriminate.
    destruct (negb ok).
    { apply Some_inj in H; subst st'. revert G. apply good_transport;
        [apply csame_refl | reflexivity | reflexivity | right; exact I]. }
    destruct (mexset_shut st || _) eqn:Dup; apply Some_inj in H; subst st'.
    + (* protocol error frame *)
      destruct (send_syserr_fields st rid full) as (S1 & S2 & _ & S4 & S5).
      unfold good in *. cbn [calls requested rd_pc sent set_rd]. rewrite S1, S2. rewrite Hrd in G.
      destruct (Z.eq_dec id rid) as [->|N].
      * destruct (get rid (calls st)) as [c|]; [destruct G as (G1 & _); congruence|].
        destruct G as (G1 & _ & _ & G4). specialize (G1 eq_refl).
        split; [discriminate|]. split.
        { destruct S5 as [-> | ->]; [left; exact G1 | right; rewrite proj_snoc_same, G1; reflexivity]. }
        split; [discriminate|]. intros Z0. destruct (G4 Z0) as [_ X]. congruence.
      * replace (proj id (sent (fst (conn_send_syserr st rid full)))) with (proj id (sent st))
          by (destruct S5 as [-> | ->]; [reflexivity | symmetry; apply proj_snoc_other; exact N]).
        destruct (get id (calls st)) as [c|].
        { destruct G as (_ & _ & G3 & G4). split; [discriminate|]. split; [discriminate|]. auto. }
        { destruct G as (_ & G2 & _ & G4). split; [discriminate|]. split; [exact G2|].
          split; [discriminate|]. intros Z0. destruct (G4 Z0) as [P0 _]. split; [exact P0 | discriminate]. }
    + (* admitted *)
      unfold good in *. cbn [calls requested rd_pc sent set_rd set_calls]. rewrite Hrd in G.
      destruct (Z.eq_dec id rid) as [->|N].
      * rewrite get_put_same.
        destruct (get rid (calls st)) as [c|]; [destruct G as (G1 & _); congruence|].
        destruct G as (G1 & _ & _ & G4). specialize (G1 eq_refl).
        split; [discriminate|]. split; [intros _; split; [reflexivity|exact G1]|]. split.
        { destruct (count_req rid (requested st)) eqn:Z0; [|lia].
          destruct (G4 eq_refl) as [_ X]. congruence. }
        exists W0. rewrite G1. split; [reflexivity | apply R_new].
      * rewrite (get_put_other _ _ _ _ N).
        destruct (get id (calls st)) as [c|].
        { destruct G as (_ & _ & G3 & G4). split; [discriminate|].
          split; [intros E; inversion E; congruence|]. auto. }
        { destruct G as (_ & G2 & _ & G4). split; [discriminate|]. split; [exact G2|].
          split; [intros E; inversion E; congruence|].
          intros Z0. destruct (G4 Z0) as [P0 _]. split; [exact P0 | discriminate]. }
  - (* RdCallReq3 *)
    destruct (rd_pc st) as [| |rid| |] eqn:Hrd; try discriminate.
    unfold with_call in H. destruct (get rid (calls st)) as [c|] eqn:Hg; [|discriminate].
    (* the re-check fails: the call is declined (error frame unless the buffer is full), then shut down *)
    assert (Hna : forall c1 chk, shut_call c = (c1, chk) ->
              good (set_rd (commit (fst (conn_send_syserr st rid full)) rid (upd_pc c1 PDead) chk) RIdle) id).
    { intros c1 chk E. destruct (send_syserr_fields st rid full) as (S1 & S2 & _ & S4 & S5).
      unfold good in *. cbn [calls requested rd_pc sent set_rd]. rewrite sent_commit, req_commit, S2. rewrite Hrd in G.
      destruct (Z.eq_dec id rid) as [->|N].
      - rewrite get_commit_same. rewrite Hg in G. destruct G as (_ & G2 & G3 & q & Hq & HR).
        destruct (G2 eq_refl) as [Hpc Hnil]. rewrite Hnil in Hq. cbn in Hq. inversion Hq. subst q.
        split; [discriminate|]. split; [discriminate|]. split; [exact G3|].
        destruct S5 as [-> | ->].
        + exists W0. rewrite Hnil. split; [reflexivity|]. Rsolve.
        + exists WEnd. rewrite proj_snoc_same, Hnil. split; [reflexivity|]. Rsolve.
      - replace (get id (calls (commit (fst (conn_send_syserr st rid full)) rid (upd_pc c1 PDead) chk))) with (get id (calls st))
          by (unfold commit; destruct chk; cbn; rewrite S1; symmetry; apply get_put_other; exact N).
        replace (proj id (sent (fst (conn_send_syserr st rid full)))) with (proj id (sent st))
          by (destruct S5 as [-> | ->]; [reflexivity | symmetry; apply proj_snoc_other; exact N]).
        destruct (get id (calls st)) as [c0|].
        + destruct G as (_ & _ & G3 & G4). split; [discriminate|]. split; [discriminate|]. auto.
        + destruct G as (_ & G2 & _ & G4). split; [discriminate|]. split; [exact G2|].
          split; [discriminate|]. intros Z0. destruct (G4 Z0) as [P0 _]. split; [exact P0 | discriminate]. }
    destruct (cst st); [|destruct (shut_call c) as [c1 chk] eqn:E; apply Some_inj in H; subst st'; apply Hna; reflexivity ..].
    apply Some_inj in H. subst st'. clear Hna.
    unfold good in *. cbn [calls requested rd_pc sent set_rd]. rewrite sent_commit, req_commit.
    rewrite Hrd in G.
    destruct (Z.eq_dec id rid) as [->|N].
    + rewrite get_commit_same. rewrite Hg in G. destruct G as (_ & G2 & G3 & q & Hq & HR).
      destruct (G2 eq_refl) as [Hpc _].
      split; [discriminate|]. split; [discriminate|]. split; [exact G3|]. exists q. split; [exact Hq|]. destruct q; Rsolve.
    + replace (get id (calls (commit st rid (upd_pc c PNotStarted) false))) with (get id (calls st))
        by (unfold commit; cbn; symmetry; apply get_put_other; exact N).
      destruct (get id (calls st)) as [c0|].
      * destruct G as (_ & _ & G3 & G4). split; [discriminate|]. split; [discriminate|]. auto.
      * destruct G as (_ & G2 & _ & G4). split; [discriminate|]. split; [exact G2|].
        split; [discriminate|]. intros Z0. destruct (G4 Z0) as [P0 _]. split; [exact P0 | discriminate].
  - (* RdProtoClose *)
    destruct (rd_pc st); try discriminate. apply Some_inj in H; subst st'.
    destruct (close_fields st) as (A & B & C & _ & _). revert G. apply good_transport; cbn;
      [rewrite A; apply csame_refl | rewrite B; reflexivity | exact C | right; exact I].
  - (* RdProtoStop *)
    destruct (rd_pc st); try discriminate. apply Some_inj in H; subst st'.
    destruct (stop_fields st) as (B & C & _ & _). revert G. apply good_transport; cbn;
      [apply csame_stop | rewrite B; reflexivity | exact C | right; exact I].
  - (* RdCancel *)
    destruct (rd_pc st); try discriminate.
    destruct (propagate st); [|apply Some_inj in H; subst st'; exact G].
    destruct (get id0 (calls st)) as [c|] eqn:Hg; [|apply Some_inj in H; subst st'; exact G].
    destruct (in_ex c); apply Some_inj in H; subst st'; [|exact G].
    eapply good_commit_wsame; [exact Hg | apply wsame_cancel | exact G].
  - (* Deadline *)
    unfold with_call in H. destruct (get id0 (calls st)) as [c|] eqn:Hg; [|discriminate].
    destruct (m_ctx c) eqn:Hx; try discriminate. apply Some_inj in H; subst st'.
    eapply good_commit_wsame; [exact Hg | | exact G].
    unfold wsame, notlive; cbn. repeat split; auto; try discriminate.
  - (* ExpireCtx *)
    unfold with_call in H. destruct (get id0 (calls st)) as [c|] eqn:Hg; [|discriminate].
    destruct (e_pc c); try discriminate. destruct (m_ctx c) eqn:Hx; try discriminate;
      apply Some_inj in H; subst st';
      (eapply good_commit_wsame; [exact Hg | | exact G]);
      (eapply wsame_trans; [apply wsame_expire | unfold wsame, notlive; cbn; tauto]).
  - (* ExpireErr *)
    unfold with_call in H. destruct (get id0 (calls st)) as [c|] eqn:Hg; [|discriminate].
    destruct (e_pc c); try discriminate. destruct (m_errch c); try discriminate.
    apply Some_inj in H; subst st'.
    eapply good_commit_wsame; [exact Hg | | exact G].
    eapply wsame_trans; [apply wsame_cancel|].
    eapply wsame_trans; [apply wsame_expire | unfold wsame, notlive; cbn; tauto].
  - (* CClose *)
    apply Some_inj in H; subst st'. destruct (close_fields st) as (A & B & C & D & _).
    revert G. apply good_transport; [rewrite A; apply csame_refl | rewrite B; reflexivity | exact C | left; exact D].
  - (* CStop *)
    apply Some_inj in H; subst st'. destruct (stop_fields st) as (B & C & D & _).
    revert G. apply good_transport; [apply csame_stop | rewrite B; reflexivity | exact C | left; exact D].
  - apply Some_inj in H; subst st'. exact G.
  - apply Some_inj in H; subst st'. exact G.
  - destruct (0 <? n_out st); [|discriminate]. apply Some_inj in H; subst st'. exact G.
Qed.

(* ---- all runs --------------------------------------------------------------------------------- *)

Lemma inv_init prop : Inv (init_state prop).
Proof.
  intros id _ _. unfold good. cbn. split; [discriminate|]. split; [left; reflexivity|].
  split; [discriminate|]. intros _. split; [reflexivity | discriminate].
Qed.

Lemma run_from_inv ls : forall st st', Inv st -> run_from st ls = Some st' -> Inv st'.
Proof.
  induction ls as [|l r IH]; intros st st' HI H; cbn [run_from] in H.
  - apply Some_inj in H; subst; exact HI.
  - destruct (step st l) as [st1|] eqn:E; [|discriminate].
    eapply IH; [eapply step_inv; eassumption | exact H].
Qed.

Theorem respwire_inv prop ls st : run prop ls = Some st -> Inv st.
Proof. unfold run. apply run_from_inv, inv_init. Qed.

(* The server-side grammar theorem.  For every run of the model (any number of ids, any
   interleaving of reader, handlers, expiry goroutines, deadline timers, cancel frames,
   connection close / failure, full send buffer), for every id whose call req was read at
   most once and whose handler did not call SendSystemError after doneSending had run:
   the frames enqueued for the id are a prefix of an accepted word; nothing follows a
   terminal frame; there is at most one terminal frame; nothing at all is sent for an id
   that was never requested; an id that was requested but not admitted (connection not
   active, undecodable frame, exchange set already shut down) gets nothing or one error frame. *)
Theorem respwire_grammar prop ls st :
  run prop ls = Some st ->
  forall id, (count_req id (requested st) <= 1)%nat -> ~ In id (misused st) ->
    wire_prefix_ok (proj id (sent st)) = true /\
    (forall l1 k l2, proj id (sent st) = l1 ++ k :: l2 -> terminal k = true -> l2 = []) /\
    (length (filter terminal (proj id (sent st))) <= 1)%nat /\
    (count_req id (requested st) = O -> proj id (sent st) = []) /\
    (get id (calls st) = None -> proj id (sent st) = [] \/ proj id (sent st) = [Err]).
Proof.
  intros Hrun id Hc Hm. pose proof (respwire_inv _ _ _ Hrun id Hc Hm) as G.
  assert (P : wire_prefix_ok (proj id (sent st)) = true).
  { unfold good in G. destruct (get id (calls st)) as [c|].
    - destruct G as (_ & _ & _ & q & Hq & _). apply wire_prefix_ok_run. eauto.
    - destruct G as (_ & [E | E] & _); rewrite E; reflexivity. }
  split; [exact P|]. split.
  { intros l1 k l2 E T. rewrite E in P. eapply prefix_ok_terminal_last; eassumption. }
  split; [apply prefix_ok_one_terminal; exact P|]. split.
  - intros Z0. unfold good in G. destruct (get id (calls st)) as [c|].
    + destruct G as (_ & _ & G3 & _). lia.
    + destruct G as (_ & _ & _ & G4). apply G4. exact Z0.
  - intros N. unfold good in G. rewrite N in G. tauto.
Qed.

(* ---- what the hypotheses exclude (caller / handler misuse), with witnesses -------------------- *)

(* a handler that completes a one-fragment response and THEN calls SendSystemError: the
   error frame follows the final call res frame (response.err is nil after a successful
   response, so SendSystemError's guard does not stop it) *)
Definition misuse_labels : list label :=
  [RdCallReq1 7 false; RdCallReq2 true false; RdCallReq3 false; HStart 7 true; HResp 7;
   HArgWriter 7 1; HClose 7 false; HArgWriter 7 2; HClose 7 false; HArgWriter 7 3;
   HClose 7 false; HFlushSel 7 true; HDone 7; HSysErr 7 false].

Lemma respwire_syserr_after_response_refuted :
  exists st, run false misuse_labels = Some st /\ (count_req 7 (requested st) <= 1)%nat /\
             In 7 (misused st) /\ proj 7 (sent st) = [Res false; Err] /\
             wire_prefix_ok (proj 7 (sent st)) = false.
Proof. eexists. split; [vm_compute; reflexivity|]. vm_compute. intuition. Qed.

(* two SendSystemError calls: two error frames *)
Definition misuse2_labels : list label :=
  [RdCallReq1 7 false; RdCallReq2 true false; RdCallReq3 false; HStart 7 true; HResp 7;
   HSysErr 7 false; HSysErr 7 false].

Lemma respwire_two_syserr_refuted :
  exists st, run false misuse2_labels = Some st /\ In 7 (misused st) /\
             proj 7 (sent st) = [Err; Err] /\ wire_prefix_ok (proj 7 (sent st)) = false.
Proof. eexists. split; [vm_compute; reflexivity|]. vm_compute. intuition. Qed.

(* a caller that re-uses an id which is still in flight: the reader answers with a protocol
   error frame for that id and tears the connection down; the handler of the first call,
   already past checkError, may still enqueue its fragment behind the error frame *)
Definition dup_labels : list label :=
  [RdCallReq1 7 false; RdCallReq2 true false; RdCallReq3 false; HStart 7 true; HResp 7;
   HArgWriter 7 1; HClose 7 false; HArgWriter 7 2; HClose 7 false; HArgWriter 7 3;
   HClose 7 false;                                   (* flushFragment: checkError passed *)
   RdCallReq1 7 false; RdCallReq2 true false; RdProtoClose; RdProtoStop;
   HFlushSel 7 true].

Lemma respwire_duplicate_id_refuted :
  exists st, run false dup_labels = Some st /\ count_req 7 (requested st) = 2%nat /\
             ~ In 7 (misused st) /\ proj 7 (sent st) = [Err; Res false] /\
             wire_prefix_ok (proj 7 (sent st)) = false /\
             cst st = CStartClose /\ stopped st = true.
Proof. eexists. split; [vm_compute; reflexivity|]. vm_compute. intuition. Qed.

Lemma conn_close_not_active s : cst (conn_close s) <> CActive.
Proof.
  unfold conn_close. destruct (cst s) eqn:E; try congruence.
  unfold check_exchanges. cbn [cst set_cst stopped calls n_out].
  destruct (stopped s); [discriminate|].
  destruct (inbound_count (calls s) =? 0); [destruct (n_out s =? 0)|]; discriminate.
Qed.

Lemma conn_stop_cst s : cst (conn_stop s) = cst s /\ stopped (conn_stop s) = true.
Proof. unfold conn_stop. destruct (stopped s) eqn:E; [auto|]. destruct (mexset_shut s); cbn; auto. Qed.

(* What the code does for a duplicate in-flight id (or after the exchange set was shut
   down), precisely: one attempt to enqueue a protocol-error frame for that id (refused on
   a closed connection or a full buffer), then close(), then stopExchanges. *)
Lemma respwire_duplicate_step st id c full st1 :
  rd_pc st = RChecked id -> get id (calls st) = Some c -> in_ex c = true ->
  step st (RdCallReq2 true full) = Some st1 ->
  rd_pc st1 = RProto1 /\ calls st1 = calls st /\
  (sent st1 = sent st \/ (sent st1 = sent st ++ [(id, Err)] /\ cst st <> CClosed /\ full = false)) /\
  forall st2 st3, step st1 RdProtoClose = Some st2 -> step st2 RdProtoStop = Some st3 ->
    cst st3 <> CActive /\ stopped st3 = true /\ rd_pc st3 = RIdle.
Proof.
  intros Hrd Hg Hin H. cbn [step] in H. rewrite Hrd, Hg, Hin in H. cbn [negb] in H.
  rewrite orb_true_r in H. apply Some_inj in H; subst st1.
  destruct (send_syserr_fields st id full) as (S1 & _ & _ & _ & _).
  split; [reflexivity|]. split; [exact S1|]. split.
  { unfold conn_send_syserr. destruct (cst st) eqn:Ec, full; cbn; auto;
      right; (split; [reflexivity|]); (split; [congruence | reflexivity]). }
  intros st2 st3 H2 H3. cbn [step rd_pc set_rd] in H2. apply Some_inj in H2; subst st2.
  cbn [step rd_pc set_rd] in H3. apply Some_inj in H3; subst st3.
  cbn [rd_pc set_rd cst stopped].
  match goal with |- cst (conn_stop ?s) <> _ /\ _ => destruct (conn_stop_cst s) as [A B]; rewrite A, B end.
  cbn [cst set_rd]. split; [apply conn_close_not_active | auto].
Qed.

(* ---- the handler discipline on labels implies "not misused" -------------------------------- *)

Lemma dones_shut c c1 chk : shut_call c = (c1, chk) -> g_dones c1 = g_dones c.
Proof. intros H. apply wsame_shut in H. unfold wsame in H. tauto. Qed.

Lemma dones_failed c c1 chk : failed_call c = (c1, chk) -> g_dones c1 = g_dones c.
Proof. intros H. apply wsame_failed in H. unfold wsame in H. tauto. Qed.

Definition hget (id : Z) (st' : state) (d : bool) : Prop :=
  exists c', get id (calls st') = Some c' /\ g_dones c' = d.

Lemma hget_commit st id c chk d : g_dones c = d -> hget id (commit st id c chk) d.
Proof. intros E. exists c. split; [apply get_commit_same | exact E]. Qed.

Ltac hg := apply hget_commit; cbn [g_dones set_ferr upd_f upd_pc upd_w upd_epc upd_mex ret]; congruence.

Lemma hget_flush1 st id c final : hget id (flush1 st id c final) (g_dones c).
Proof.
  unfold flush1. destruct (w_err c).
  - destruct final; hg.
  - destruct (check_error c).
    + destruct (failed_call c) as [c1 chk] eqn:E. apply dones_failed in E.
      destruct final; hg.
    + hg.
Qed.

Lemma hget_arg_writer st id c k : hget id (arg_writer st id c k) (g_dones c).
Proof.
  unfold arg_writer.
  repeat match goal with
         | |- hget _ (commit _ _ _ _) _ => hg
         | |- hget _ (let '(_, _) := failed_call ?x in _) _ =>
             let E := fresh "E" in destruct (failed_call x) eqn:E; apply dones_failed in E;
             cbn [g_dones set_ferr upd_f] in E
         | |- hget _ (if ?b then _ else _) _ => destruct b
         | |- hget _ (match ?x with _ => _ end) _ => destruct x
         end.
Qed.

Lemma hclose_dones st lid c fullfrag st' :
  hclose st lid c fullfrag = Some st' -> hget lid st' (g_dones c).
Proof.
  unfold hclose. intros H.
  repeat match type of H with
         | Some _ = Some _ => apply Some_inj in H; subst st'
         | None = Some _ => discriminate
         | (if ?b then _ else _) = Some _ => destruct b eqn:?
         | (match ?x with _ => _ end) = Some _ => destruct x eqn:?
         end; try discriminate;
    try (cbn [g_dones set_ferr upd_f upd_pc upd_w upd_epc upd_mex ret cancel_call] in * );
    try solve [hg].
  - apply (hget_flush1 st lid (upd_f c FWaiting false (f_cur c) (f_first c)) false).
  - apply (hget_flush1 st lid (upd_f c FComplete false (f_cur c) (f_first c)) true).
Qed.

Lemma hstep_dones st lid c l st' :
  get lid (calls st) = Some c ->
  hstep st lid c l = Some st' ->
  match l with
  | HDone _ | HSysErr _ _ => True
  | _ => hget lid st' (g_dones c)
  end.
Proof.
  unfold hstep. intros Hg H.
  destruct l; try exact I; destruct (h_pc c); try discriminate;
    repeat match type of H with
           | Some _ = Some _ => apply Some_inj in H; subst st'
           | None = Some _ => discriminate
           | (let '(_, _) := shut_call ?x in _) = Some _ =>
               let E := fresh "E" in destruct (shut_call x) eqn:E; apply dones_shut in E
           | (let '(_, _) := failed_call ?x in _) = Some _ =>
               let E := fresh "E" in destruct (failed_call x) eqn:E; apply dones_failed in E
           | (if ?b then _ else _) = Some _ => destruct b eqn:?
           | (match ?x with _ => _ end) = Some _ => destruct x eqn:?
           end; try discriminate;
    try (eapply hclose_dones; eassumption);
    try (cbn [g_dones set_ferr upd_f upd_pc upd_w upd_epc upd_mex ret cancel_call] in *);
    try solve [hg]; try apply hget_flush1; try apply hget_arg_writer.
  - destruct (rd_err c); hg.
  - exists c. auto.
  - destruct final; hg.
  - apply hget_commit. reflexivity.
Qed.

Lemma mis_flush1 st id c final : misused (flush1 st id c final) = misused st.
Proof.
  unfold flush1. destruct (w_err c); [apply mis_commit|].
  destruct (check_error c); [|apply mis_commit]. destruct (failed_call c); apply mis_commit.
Qed.

Lemma mis_arg_writer st id c k : misused (arg_writer st id c k) = misused st.
Proof.
  unfold arg_writer.
  repeat match goal with
         | |- misused (commit _ _ _ _) = _ => apply mis_commit
         | |- misused (let '(_, _) := ?x in _) = _ => destruct x
         | |- misused (if ?b then _ else _) = _ => destruct b
         | |- misused (match ?x with _ => _ end) = _ => destruct x
         end.
Qed.

Lemma hclose_mis st lid c fullfrag st' :
  hclose st lid c fullfrag = Some st' -> misused st' = misused st.
Proof.
  unfold hclose. intros H.
  repeat match type of H with
         | Some _ = Some _ => apply Some_inj in H; subst st'
         | None = Some _ => discriminate
         | (if ?b then _ else _) = Some _ => destruct b eqn:?
         | (match ?x with _ => _ end) = Some _ => destruct x eqn:?
         end; try discriminate;
    try reflexivity; try apply mis_commit; try apply mis_flush1.
Qed.

Lemma hstep_mis st lid c l st' :
  hstep st lid c l = Some st' ->
  match l with
  | HSysErr _ _ => misused st' = misused st \/ (g_dones c = true /\ misused st' = misused st ++ [lid])
  | _ => misused st' = misused st
  end.
Proof.
  unfold hstep. intros H.
  destruct l; destruct (h_pc c); try discriminate;
    repeat match type of H with
           | Some _ = Some _ => apply Some_inj in H; subst st'
           | None = Some _ => discriminate
           | (let '(_, _) := ?x in _) = Some _ => destruct x eqn:?
           | (if ?b then _ else _) = Some _ => destruct b eqn:?
           | (match ?x with _ => _ end) = Some _ => destruct x eqn:?
           end; try discriminate;
    try (eapply hclose_mis; eassumption);
    try reflexivity; try apply mis_commit; try apply mis_flush1; try apply mis_arg_writer;
    try (cbn [misused enqueue]; apply mis_commit).
  - left. apply mis_commit.
  - (* past the error check *)
    rewrite mis_commit.
    assert (M : misused s = misused (if g_dones c then add_misused st lid else st)).
    { unfold conn_send_syserr in Heqp.
      destruct (cst _); [destruct full|destruct full|destruct full|]; inversion Heqp; subst;
        cbn [misused enqueue]; reflexivity. }
    rewrite M. destruct (g_dones c); [right; split; reflexivity | left; reflexivity].
Qed.

(* labels that are not handler API calls *)
Definition handler_label (l : label) : bool :=
  match l with
  | HStart _ _ | HResp _ | HReadFail _ _ | HArgWriter _ _ | HFlush _ _ | HFlushSel _ _
  | HNewFrag _ | HClose _ _ | HDone _ | HSysErr _ _ | HSetAppErr _ | HBlackhole _
  | HHelperWrite _ _ _ => true
  | _ => false
  end.

Lemma dones_commit st lid c c' chk id x :
  get lid (calls st) = Some c -> g_dones c' = g_dones c ->
  get id (calls (commit st lid c' chk)) = Some x -> g_dones x = true ->
  exists c0, get id (calls st) = Some c0 /\ g_dones c0 = true.
Proof.
  intros Hg E Hx D. destruct (Z.eq_dec id lid) as [->|N].
  - rewrite get_commit_same in Hx. inversion Hx; subst. exists c. split; [exact Hg | congruence].
  - exists x. split; [|exact D]. rewrite <- Hx. unfold commit. destruct chk; cbn; symmetry; apply get_put_other; exact N.
Qed.

Lemma step_other st l st' id x :
  handler_label l = false -> step st l = Some st' ->
  misused st' = misused st /\
  (get id (calls st') = Some x -> g_dones x = true ->
   exists c0, get id (calls st) = Some c0 /\ g_dones c0 = true).
Proof.
  intros NL H. destruct l; try discriminate NL; cbn [step] in H.
  - (* RdCallReq1 *)
    destruct (rd_pc st); try discriminate.
    destruct (send_syserr_fields (add_requested st id0) id0 full) as (S1 & _ & S3 & _).
    destruct (cst (add_requested st id0)); apply Some_inj in H; subst st';
      try (rewrite S1, S3; cbn; split; [reflexivity | eauto]); cbn; split; [reflexivity | eauto].
  - (* RdCallReq2 *)
    destruct (rd_pc st) as [|rid| | |]; try discriminate.
    destruct (negb ok); [apply Some_inj in H; subst st'; cbn; split; [reflexivity | eauto]|].
    destruct (mexset_shut st || _); apply Some_inj in H; subst st'.
    + destruct (send_syserr_fields st rid full) as (S1 & _ & S3 & _). cbn. rewrite S1, S3.
      split; [reflexivity | eauto].
    + cbn. split; [reflexivity|]. intros Hx D. destruct (Z.eq_dec id rid) as [->|N].
      * rewrite get_put_same in Hx. inversion Hx; subst. discriminate D.
      * rewrite (get_put_other _ _ _ _ N) in Hx. eauto.
  - (* RdCallReq3 *)
    destruct (rd_pc st) as [| |rid| |]; try discriminate. unfold with_call in H.
    destruct (get rid (calls st)) as [c|] eqn:Hg; [|discriminate].
    destruct (send_syserr_fields st rid full) as (S1 & _ & S3 & _).
    assert (Hg1 : get rid (calls (fst (conn_send_syserr st rid full))) = Some c) by (rewrite S1; exact Hg).
    destruct (cst st); [|destruct (shut_call c) as [c1 chk] eqn:E; apply dones_shut in E ..];
      apply Some_inj in H; subst st'; cbn [misused calls set_rd]; rewrite mis_commit, ?S3;
      (split; [reflexivity|]); intros Hx D;
      first [ refine (dones_commit _ _ _ _ _ _ _ Hg _ Hx D); cbn; congruence
            | destruct (dones_commit _ _ _ _ _ _ _ Hg1 (eq_trans (eq_refl : g_dones (upd_pc c1 PDead) = g_dones c1) E) Hx D) as (c0 & Hc0 & Hd0);
              exists c0; split; [rewrite <- S1; exact Hc0 | exact Hd0] ].
  - destruct (rd_pc st); try discriminate. apply Some_inj in H; subst st'.
    destruct (close_fields st) as (A & _ & _ & _ & C). cbn. rewrite A, C. split; [reflexivity | eauto].
  - destruct (rd_pc st); try discriminate. apply Some_inj in H; subst st'.
    destruct (stop_fields st) as (_ & _ & _ & C). cbn [misused calls set_rd]. rewrite C.
    split; [reflexivity|]. intros Hx D. pose proof (csame_stop st id) as CS. rewrite Hx in CS.
    unfold csame in CS. destruct (get id (calls st)) as [c0|]; [|contradiction].
    exists c0. split; [reflexivity|]. unfold wsame in CS. destruct CS as (_ & _ & _ & _ & _ & E & _). congruence.
  - (* RdCancel *)
    destruct (rd_pc st); try discriminate.
    destruct (propagate st); [|apply Some_inj in H; subst st'; split; [reflexivity | eauto]].
    destruct (get id0 (calls st)) as [c|] eqn:Hg; [|apply Some_inj in H; subst st'; split; [reflexivity | eauto]].
    destruct (in_ex c); apply Some_inj in H; subst st'; [|split; [reflexivity | eauto]].
    rewrite mis_commit. split; [reflexivity|]. intros Hx D. refine (dones_commit _ _ _ _ _ _ _ Hg _ Hx D). reflexivity.
  - (* Deadline *)
    unfold with_call in H. destruct (get id0 (calls st)) as [c|] eqn:Hg; [|discriminate].
    destruct (m_ctx c); try discriminate. apply Some_inj in H; subst st'.
    rewrite mis_commit. split; [reflexivity|]. intros Hx D. refine (dones_commit _ _ _ _ _ _ _ Hg _ Hx D). reflexivity.
  - unfold with_call in H. destruct (get id0 (calls st)) as [c|] eqn:Hg; [|discriminate].
    destruct (e_pc c); try discriminate. destruct (m_ctx c); try discriminate;
      apply Some_inj in H; subst st'; rewrite mis_commit; (split; [reflexivity|]);
      intros Hx D; refine (dones_commit _ _ _ _ _ _ _ Hg _ Hx D); reflexivity.
  - unfold with_call in H. destruct (get id0 (calls st)) as [c|] eqn:Hg; [|discriminate].
    destruct (e_pc c); try discriminate. destruct (m_errch c); try discriminate.
    apply Some_inj in H; subst st'. rewrite mis_commit. split; [reflexivity|].
    intros Hx D. refine (dones_commit _ _ _ _ _ _ _ Hg _ Hx D). reflexivity.
  - apply Some_inj in H; subst st'. destruct (close_fields st) as (A & _ & _ & _ & C). rewrite A, C.
    split; [reflexivity | eauto].
  - apply Some_inj in H; subst st'. destruct (stop_fields st) as (_ & _ & _ & C). rewrite C.
    split; [reflexivity|]. intros Hx D. pose proof (csame_stop st id) as CS. rewrite Hx in CS.
    unfold csame in CS. destruct (get id (calls st)) as [c0|]; [|contradiction].
    exists c0. split; [reflexivity|]. unfold wsame in CS. destruct CS as (_ & _ & _ & _ & _ & E & _). congruence.
  - apply Some_inj in H; subst st'. split; [reflexivity | eauto].
  - apply Some_inj in H; subst st'. split; [reflexivity | eauto].
  - destruct (0 <? n_out st); [|discriminate]. apply Some_inj in H; subst st'. split; [reflexivity | eauto].
Qed.

Definition term_after (id : Z) (term : bool) (l : label) : bool :=
  match l with
  | HSysErr i _ | HDone i => if i =? id then true else term
  | _ => term
  end.

Lemma handler_ok_cons id term l r :
  handler_ok id term (l :: r) = true ->
  handler_ok id (term_after id term l) r = true /\
  (forall i f, l = HSysErr i f -> i = id -> term = false).
Proof.
  destruct l; cbn [handler_ok term_after]; intros H; try (split; [exact H | intros; discriminate]).
  - destruct (id0 =? id); (split; [exact H | intros; discriminate]).
  - destruct (id0 =? id) eqn:E.
    + apply andb_true_iff in H as [H1 H2]. split; [exact H2|]. intros i f _ _.
      destruct term; [discriminate | reflexivity].
    + split; [exact H|]. intros i f X Y. inversion X; subst. rewrite Z.eqb_refl in E. discriminate.
Qed.

Lemma hstep_ok st lid c l st' id term :
  get lid (calls st) = Some c -> hstep st lid c l = Some st' ->
  (forall i f, l = HSysErr i f -> i = lid) -> (l = HDone lid \/ forall i, l <> HDone i) ->
  (forall c0, get id (calls st) = Some c0 -> g_dones c0 = true -> term = true) ->
  (forall i f, l = HSysErr i f -> i = id -> term = false) ->
  ~ In id (misused st) ->
  ~ In id (misused st') /\
  (forall c', get id (calls st') = Some c' -> g_dones c' = true -> term_after id term l = true).
Proof.
  intros Hg H Lsys Ldone Hd Hs Hm.
  pose proof (frame_hstep _ _ _ _ _ H) as (_ & _ & _ & Fo).
  pose proof (hstep_mis _ _ _ _ _ H) as M.
  pose proof (hstep_dones _ _ _ _ _ Hg H) as D.
  destruct (Z.eq_dec id lid) as [->|N].
  - (* the call itself *)
    destruct l; cbn [term_after];
      try (rewrite M; split; [exact Hm|]; destruct D as (c'' & G1 & G2); intros c' G D';
           rewrite G1 in G; inversion G; subst; apply (Hd c Hg); congruence).
    + (* HDone *)
      rewrite M. split; [exact Hm|]. intros c' _ _.
      destruct Ldone as [E | E]; [inversion E; subst; rewrite Z.eqb_refl; reflexivity | elim (E id); reflexivity].
    + (* HSysErr *)
      pose proof (Lsys _ _ eq_refl) as ->. rewrite Z.eqb_refl.
      assert (T : term = false) by (eapply Hs; reflexivity).
      split; [|reflexivity]. destruct M as [-> | [Dc _]]; [exact Hm|].
      pose proof (Hd c Hg Dc). congruence.
  - (* another call *)
    destruct (Fo id N) as [E _]. split.
    + assert (M' : misused st' = misused st \/ misused st' = misused st ++ [lid])
        by (destruct l; try (left; exact M); destruct M as [M | [_ M]]; auto).
      destruct M' as [-> | ->]; [exact Hm|]. intros X. apply in_app_or in X as [X | [X | []]]; [auto | congruence].
    + intros c' G D'. rewrite E in G. pose proof (Hd c' G D') as T.
      destruct l; cbn [term_after]; try exact T.
      * rewrite T. destruct (id0 =? id); reflexivity.
      * rewrite T. destruct (id0 =? id); reflexivity.
Qed.

Lemma step_ok st l st' id term :
  step st l = Some st' ->
  (forall c, get id (calls st) = Some c -> g_dones c = true -> term = true) ->
  (forall i f, l = HSysErr i f -> i = id -> term = false) ->
  ~ In id (misused st) ->
  ~ In id (misused st') /\
  (forall c', get id (calls st') = Some c' -> g_dones c' = true -> term_after id term l = true).
Proof.
  intros H Hd Hs Hm.
  destruct (handler_label l) eqn:HL.
  - destruct l; try discriminate HL; cbn [step] in H; unfold with_call in H;
      (destruct (get id0 (calls st)) as [c|] eqn:Hg; [|discriminate]);
      (eapply hstep_ok; try eassumption;
       [ intros i f X; inversion X; reflexivity
       | first [ left; reflexivity | right; intros i X; discriminate X ] ]).
  - split.
    + destruct (step_other st l st' id new_call HL H) as [-> _]. exact Hm.
    + intros c' G D. destruct (step_other st l st' id c' HL H) as [_ X].
      destruct (X G D) as (c0 & G0 & D0). pose proof (Hd c0 G0 D0) as T.
      destruct l; try discriminate HL; exact T.
Qed.

Lemma handler_ok_run ls : forall st st' id term,
  run_from st ls = Some st' -> handler_ok id term ls = true ->
  (forall c, get id (calls st) = Some c -> g_dones c = true -> term = true) ->
  ~ In id (misused st) -> ~ In id (misused st').
Proof.
  induction ls as [|l r IH]; intros st st' id term H Hok Hd Hm; cbn [run_from] in H.
  - apply Some_inj in H; subst; exact Hm.
  - destruct (step st l) as [st1|] eqn:E; [|discriminate].
    destruct (handler_ok_cons _ _ _ _ Hok) as [Hok' Hs].
    destruct (step_ok _ _ _ _ _ E Hd Hs Hm) as [Hm1 Hd1].
    eapply IH; eassumption.
Qed.

(* A handler that calls SendSystemError at most once and never after doneSending is not a
   misuser: C10's quantifier over handlers, stated on the labels of the run. *)
Theorem handler_ok_not_misused prop ls st id :
  run prop ls = Some st -> handler_ok id false ls = true -> ~ In id (misused st).
Proof.
  unfold run. intros H Hok. eapply handler_ok_run; [exact H | exact Hok | | intros []].
  intros c G. discriminate G.
Qed.

(* The grammar theorem with both hypotheses stated on the label list only. *)
Fixpoint req_count (id : Z) (ls : list label) : nat :=
  match ls with
  | [] => O
  | RdCallReq1 i _ :: r => if i =? id then S (req_count id r) else req_count id r
  | _ :: r => req_count id r
  end.

Lemma requested_count ls : forall st st' id,
  run_from st ls = Some st' ->
  count_req id (requested st') = (count_req id (requested st) + req_count id ls)%nat.
Proof.
  induction ls as [|l r IH]; intros st st' id H; cbn [run_from] in H.
  - apply Some_inj in H; subst. cbn. lia.
  - destruct (step st l) as [st1|] eqn:E; [|discriminate]. rewrite (IH _ _ id H).
    assert (X : count_req id (requested st1) =
                (count_req id (requested st) + match l with RdCallReq1 i _ => if Z.eqb i id then 1 else 0 | _ => 0 end)%nat).
    { destruct l; cbn [step] in E;
        try (unfold with_call in E; destruct (get id0 (calls st)) as [c|] eqn:Hg; [|discriminate];
             apply frame_hstep in E; destruct E as (_ & -> & _); lia).
      - destruct (rd_pc st); try discriminate.
        destruct (send_syserr_fields (add_requested st id0) id0 full) as (_ & S2 & _).
        assert (Y : count_req id (requested st ++ [id0]) = (count_req id (requested st) + (if Z.eqb id0 id then 1 else 0))%nat)
          by (rewrite count_req_app; cbn [count_req]; destruct (id0 =? id); lia).
        destruct (cst (add_requested st id0)); apply Some_inj in E; subst st1;
          try rewrite S2; cbn [requested add_requested set_rd]; exact Y.
      - destruct (rd_pc st); try discriminate.
        destruct (negb ok); [apply Some_inj in E; subst st1; cbn; lia|].
        destruct (mexset_shut st || _); apply Some_inj in E; subst st1; cbn [requested set_rd set_calls].
        + destruct (send_syserr_fields st id0 full) as (_ & S2 & _). rewrite S2. lia.
        + lia.
      - destruct (rd_pc st); try discriminate. unfold with_call in E.
        destruct (get id0 (calls st)) as [c|]; [|discriminate].
        destruct (send_syserr_fields st id0 full) as (_ & S2 & _).
        destruct (cst st); [|destruct (shut_call c)..]; apply Some_inj in E; subst st1;
          cbn [requested set_rd]; rewrite req_commit, ?S2; lia.
      - destruct (rd_pc st); try discriminate. apply Some_inj in E; subst st1.
        destruct (close_fields st) as (_ & _ & C & _). cbn [requested set_rd]. rewrite C. lia.
      - destruct (rd_pc st); try discriminate. apply Some_inj in E; subst st1.
        destruct (stop_fields st) as (_ & C & _). cbn [requested set_rd]. rewrite C. lia.
      - destruct (rd_pc st); try discriminate.
        destruct (propagate st); [|apply Some_inj in E; subst st1; lia].
        destruct (get id0 (calls st)) as [c|]; [|apply Some_inj in E; subst st1; lia].
        destruct (in_ex c); apply Some_inj in E; subst st1; [rewrite req_commit|]; lia.
      - unfold with_call in E. destruct (get id0 (calls st)) as [c|]; [|discriminate].
        destruct (m_ctx c); try discriminate. apply Some_inj in E; subst st1. rewrite req_commit. lia.
      - unfold with_call in E. destruct (get id0 (calls st)) as [c|]; [|discriminate].
        destruct (e_pc c); try discriminate. destruct (m_ctx c); try discriminate;
          apply Some_inj in E; subst st1; rewrite req_commit; lia.
      - unfold with_call in E. destruct (get id0 (calls st)) as [c|]; [|discriminate].
        destruct (e_pc c); try discriminate. destruct (m_errch c); try discriminate.
        apply Some_inj in E; subst st1. rewrite req_commit. lia.
      - apply Some_inj in E; subst st1. destruct (close_fields st) as (_ & _ & C & _). rewrite C. lia.
      - apply Some_inj in E; subst st1. destruct (stop_fields st) as (_ & C & _). rewrite C. lia.
      - apply Some_inj in E; subst st1. cbn. lia.
      - apply Some_inj in E; subst st1. cbn. lia.
      - destruct (0 <? n_out st); [|discriminate]. apply Some_inj in E; subst st1. cbn. lia. }
    rewrite X. cbn [req_count]. destruct l; try lia. destruct (id0 =? id); lia.
Qed.

Theorem respwire_grammar_labels prop ls st :
  run prop ls = Some st ->
  forall id, (req_count id ls <= 1)%nat -> handler_ok id false ls = true ->
    wire_prefix_ok (proj id (sent st)) = true /\
    (forall l1 k l2, proj id (sent st) = l1 ++ k :: l2 -> terminal k = true -> l2 = []) /\
    (length (filter terminal (proj id (sent st))) <= 1)%nat /\
    (req_count id ls = O -> proj id (sent st) = []) /\
    (get id (calls st) = None -> proj id (sent st) = [] \/ proj id (sent st) = [Err]).
Proof.
  intros Hrun id Hc Hok.
  assert (E : count_req id (requested st) = req_count id ls).
  { unfold run in Hrun. rewrite (requested_count _ _ _ id Hrun). cbn. lia. }
  pose proof (respwire_grammar prop ls st Hrun id) as G. rewrite E in G.
  apply G; [exact Hc | eapply handler_ok_not_misused; eassumption].
Qed.
