From Coq Require Import ZArith List Bool Lia ZifyBool.
From Verif Require Import Base.Wrap Base.Bytes Gen.GenConsts Gen.GenFrame Model.TypedBuf Model.Messages
  Spec.Protocol Proofs.CodecP.
Import ListNotations.
Local Open Scope Z_scope.

Lemma firstn_skipn_exact {A} (hd x : list A) n : length hd = n ->
  firstn n (hd ++ x) = hd /\ skipn n (hd ++ x) = x.
Proof.
  intros <-. split.
  - rewrite firstn_app, Nat.sub_diag, firstn_all. cbn. apply app_nil_r.
  - rewrite skipn_app, Nat.sub_diag, skipn_all. reflexivity.
Qed.

Lemma u_ok_1 v : 0 <= v < 256 -> u_ok 1 v. Proof. unfold u_ok. change (256 ^ Z.of_nat 1) with 256. auto. Qed.
Lemma u_ok_2 v : 0 <= v < 65536 -> u_ok 2 v. Proof. unfold u_ok. change (256 ^ Z.of_nat 2) with 65536. auto. Qed.

Lemma app_eq_prefix {A} (hd p pre q : list A) :
  hd ++ p = pre ++ q -> (length hd <= length pre)%nat -> exists p1, pre = hd ++ p1 /\ p = p1 ++ q.
Proof.
  revert pre. induction hd as [|x hd IH]; intros pre E Hl.
  - exists pre. auto.
  - destruct pre as [|y pre]; [cbn in Hl; lia|]. cbn in E. inversion E; subst y.
    destruct (IH pre H1 ltac:(cbn in Hl; lia)) as [p1 [-> ->]]. exists p1. auto.
Qed.

Lemma SetPayloadSize_ok n : 0 <= n <= 65519 -> SetPayloadSize (wrapU 16 n) = 16 + n.
Proof.
  intros H. unfold SetPayloadSize, c_FrameHeaderSize. rewrite (wrapU_id 16 n) by (cbn; lia).
  rewrite wrapU_id by (cbn; lia). lia.
Qed.

(* all 65536 values of the 16-bit size field: the payload size test of ReadBody rejects
   exactly the sizes below the header size *)
Lemma payload_size_classify size : 0 <= size < 65536 ->
  (PayloadSize size >? c_MaxFramePayloadSize) = (size <? 16) /\
  (16 <= size -> PayloadSize size = size - 16).
Proof.
  intros H. unfold PayloadSize, c_MaxFramePayloadSize, c_FrameHeaderSize, wrapU.
  change (2 ^ 16) with 65536.
  destruct (Z_lt_le_dec size 16) as [L|L].
  - replace ((size - 16) mod 65536) with (size - 16 + 65536).
    2:{ apply Z.mod_unique with (q := -1); lia. }
    split; [|lia]. destruct (size <? 16) eqn:E; [|lia]. apply Z.gtb_lt. lia.
  - rewrite Z.mod_small by lia. split; [|lia].
    destruct (size <? 16) eqn:E; [lia|]. destruct (size - 16 >? 65519) eqn:F; [|reflexivity].
    apply Z.gtb_lt in F. lia.
Qed.

Lemma frame_write_ok cap body bs t id :
  writes body bs -> zlen bs <= cap -> cap <= c_MaxFramePayloadSize ->
  frame_write cap body t id = Some (mkFH (16 + zlen bs) t 0 id, bs).
Proof.
  intros [W _] H1 H2. unfold frame_write. rewrite (W (wb cap)) by (cbn; lia). cbn [werr wout wb app].
  cbn [Z.eqb]. rewrite SetPayloadSize_ok; [reflexivity|]. pose proof (zlen_nonneg bs). unfold c_MaxFramePayloadSize in H2. lia.
Qed.

(* a body that does not fit is refused (ErrBufferFull): nothing is truncated *)
Lemma frame_write_full cap body bs t id :
  writes body bs -> 0 <= cap < zlen bs -> frame_write cap body t id = None.
Proof.
  intros [_ [W _]] H. unfold frame_write. rewrite (W (wb cap)) by (cbn; lia). reflexivity.
Qed.

Lemma w_fheader_writes h : u_ok 1 (fh_type h) -> u_ok 1 (fh_res1 h) ->
  writes (w_fheader h) (be 2 (fh_size h) ++ [fh_type h] ++ [fh_res1 h] ++ be 4 (fh_id h) ++ repeat 0 8).
Proof.
  intros A B. unfold w_fheader.
  apply seq_writes; [apply w_uint_writes|]. apply seq_writes; [apply w_u8_writes, A|].
  apply seq_writes; [apply w_u8_writes, B|]. apply seq_writes; [apply w_uint_writes|]. apply w_bytes_writes.
Qed.

Lemma frame_out_spec t id p :
  u_ok 1 t -> zlen p <= 65519 ->
  frame_out (mkFH (16 + zlen p) t 0 id) p = s_frame t id p.
Proof.
  intros A H. unfold frame_out.
  destruct (w_fheader_writes (mkFH (16 + zlen p) t 0 id)) as [W _]; cbn [fh_type fh_res1]; auto.
  { apply u_ok_1; lia. }
  rewrite W.
  2:{ reflexivity. }
  2:{ cbn [wroom wb]. rewrite !zlen_app, !zlen_be. unfold zlen. cbn. lia. }
  cbn [wout wb app fh_size fh_type fh_res1 fh_id]. unfold s_frame, c_FrameHeaderSize.
  replace (16 + zlen p - 16) with (zlen p) by lia. unfold zlen at 2. rewrite Nat2Z.id, firstn_all.
  cbn [repeat]. rewrite <- !app_assoc. reflexivity.
Qed.

Lemma r_fheader_consumes h : u_ok 2 (fh_size h) -> u_ok 1 (fh_type h) -> u_ok 1 (fh_res1 h) -> u_ok 4 (fh_id h) ->
  forall res8, length res8 = 8%nat ->
  consumes r_fheader (be 2 (fh_size h) ++ [fh_type h] ++ [fh_res1 h] ++ be 4 (fh_id h) ++ res8) h.
Proof.
  intros A B C D res8 L. unfold r_fheader. destruct h as [s t r1 i]; cbn [fh_size fh_type fh_res1 fh_id] in *.
  eapply consumes_bind; [apply r_uint_consumes, A| |sticky_tac].
  eapply consumes_bind; [apply r_u8_consumes, B| |sticky_tac].
  eapply consumes_bind; [apply r_u8_consumes, C| |sticky_tac].
  eapply consumes_bind; [apply r_uint_consumes, D| |sticky_tac].
  apply (consumes_bind_ret (r_bytes 8) (fun _ => mkFH s t r1 i) res8 res8). rewrite <- L. apply r_bytes_consumes.
Qed.

Lemma s_frame_split t id p :
  s_frame t id p = (be 2 (16 + zlen p) ++ [t] ++ [0] ++ be 4 id ++ repeat 0 8) ++ p.
Proof. unfold s_frame. cbn [repeat]. rewrite <- !app_assoc. reflexivity. Qed.

Lemma hdr_length t id n : length (be 2 n ++ [t] ++ [0] ++ be 4 id ++ repeat 0 8) = 16%nat.
Proof. rewrite !app_length, !be_length. reflexivity. Qed.

(* ReadIn on a well-formed frame followed by anything: returns exactly the frame's
   fields and payload and leaves the rest of the stream untouched *)
Lemma frame_read_in_spec t id p rest :
  u_ok 1 t -> u_ok 4 id -> zlen p <= 65519 ->
  frame_read_in (s_frame t id p ++ rest) = (0, mkFH (16 + zlen p) t 0 id, p, rest).
Proof.
  intros A B H. pose proof (zlen_nonneg p) as Hp. unfold frame_read_in.
  rewrite s_frame_split. set (hd := be 2 (16 + zlen p) ++ [t] ++ [0] ++ be 4 id ++ repeat 0 8).
  assert (L : length hd = 16%nat) by apply hdr_length.
  rewrite <- app_assoc.
  assert (Z1 : (zlen (hd ++ p ++ rest) <? c_FrameHeaderSize) = false).
  { apply Z.ltb_ge. rewrite zlen_app. unfold zlen at 1. rewrite L. pose proof (zlen_nonneg (p ++ rest)). unfold c_FrameHeaderSize. lia. }
  rewrite Z1. destruct (firstn_skipn_exact hd (p ++ rest) 16 L) as [F1 F2]. rewrite F1, F2.
  unfold frame_read_body.
  destruct (r_fheader_consumes (mkFH (16 + zlen p) t 0 id)) with (res8 := repeat 0 8) as [C _]; cbn [fh_size fh_type fh_res1 fh_id]; auto.
  { apply u_ok_2; lia. } { apply u_ok_1; lia. }
  specialize (C []). rewrite app_nil_r in C. cbn [fh_size fh_type fh_res1 fh_id] in C. fold hd in C. rewrite C. cbn [rerr rb fh_size].
  destruct (payload_size_classify (16 + zlen p) ltac:(lia)) as [P1 P2]. rewrite P1, P2 by lia.
  replace (16 + zlen p <? 16) with false by (symmetry; apply Z.ltb_ge; lia).
  replace (16 + zlen p - 16) with (zlen p) by lia.
  destruct (zlen p >? 0) eqn:G.
  - rewrite zlen_app. replace (zlen p + zlen rest <? zlen p) with false.
    2:{ symmetry. apply Z.ltb_ge. pose proof (zlen_nonneg rest). lia. }
    unfold zlen. rewrite Nat2Z.id. rewrite firstn_app, Nat.sub_diag, firstn_all, skipn_app, Nat.sub_diag, skipn_all.
    cbn. rewrite app_nil_r. reflexivity.
  - assert (p = []). { destruct p; [reflexivity|]. unfold zlen in G. cbn [length] in G. lia. }
    subst p. reflexivity.
Qed.

(* every strict prefix of a frame is a short read (never a frame) *)
Lemma frame_read_in_prefix t id p pre :
  u_ok 1 t -> u_ok 4 id -> zlen p <= 65519 -> strict_prefix pre (s_frame t id p) ->
  fst (fst (fst (frame_read_in pre))) = 2.
Proof.
  intros A B H [q [Hq E]]. pose proof (zlen_nonneg p) as Hp. unfold frame_read_in.
  destruct (zlen pre <? c_FrameHeaderSize) eqn:Z1; [reflexivity|].
  apply Z.ltb_ge in Z1. unfold c_FrameHeaderSize in Z1.
  rewrite s_frame_split in E. set (hd := be 2 (16 + zlen p) ++ [t] ++ [0] ++ be 4 id ++ repeat 0 8) in *.
  assert (L : length hd = 16%nat) by apply hdr_length.
  (* pre = hd ++ p1 with p1 a strict prefix of p *)
  assert (P : exists p1, pre = hd ++ p1 /\ p = p1 ++ q).
  { apply app_eq_prefix; [exact E|]. rewrite L. unfold zlen in Z1. lia. }
  destruct P as [p1 [-> Ep]].
  destruct (firstn_skipn_exact hd p1 16 L) as [F1 F2]. rewrite F1, F2.
  unfold frame_read_body.
  destruct (r_fheader_consumes (mkFH (16 + zlen p) t 0 id)) with (res8 := repeat 0 8) as [C _]; cbn [fh_size fh_type fh_res1 fh_id]; auto.
  { apply u_ok_2; lia. } { apply u_ok_1; lia. }
  specialize (C []). rewrite app_nil_r in C. cbn [fh_size fh_type fh_res1 fh_id] in C. fold hd in C. rewrite C. cbn [rerr rb fh_size].
  destruct (payload_size_classify (16 + zlen p) ltac:(lia)) as [P1 P2]. rewrite P1, P2 by lia.
  replace (16 + zlen p <? 16) with false by (symmetry; apply Z.ltb_ge; lia).
  replace (16 + zlen p - 16) with (zlen p) by lia.
  assert (Lq : 0 < zlen q). { destruct q; [congruence|]. unfold zlen. cbn [length]. lia. }
  assert (Lp : zlen p = zlen p1 + zlen q) by (rewrite Ep; apply zlen_app).
  pose proof (zlen_nonneg p1) as Hp1.
  destruct (zlen p >? 0) eqn:G; [|lia].
  replace (zlen p1 <? zlen p) with true by (symmetry; apply Z.ltb_lt; lia). reflexivity.
Qed.
