(* The interleaving system whose connection reader and receiver are the channel programs
   regenerated from mex.go (Gen/GenMexProg.v) is Model/Mex.v's [step_obs true]: the order of
   the tests in messageExchange.forwardPeerFrame (context error, frameDropped, room in recvCh,
   error latch with a last non-blocking send, then the drop that sets frameDropped) and in
   messageExchange.recvPeerFrame (context error, a queued frame, context done, error latch
   with a last non-blocking receive) are proof obligations against the source. *)
From Coq Require Import ZArith List Bool Lia.
From Verif Require Import Base.Wrap Base.Wire Gen.GenConsts Gen.GenMex Gen.GenMexProg Spec.ChanProg
  Model.Mex Model.MexProg.
Import ListNotations.
Local Open Scope Z_scope.

Lemma upd_at {A} (g : A -> A) : forall r l e e', nth_error l r = Some e -> g e = e' ->
  upd r (fun _ => e') l = upd r g l.
Proof.
  induction r as [|r IH]; intros [|x l] e e' Hn Hg; cbn in *; try discriminate.
  - injection Hn as ->. now rewrite Hg.
  - now rewrite (IH l e e' Hn Hg).
Qed.

Lemma upd_mex_at g r s e e' : nth_error (s_mexes s) r = Some e -> g e = e' ->
  upd_mex r (fun _ => e') s = upd_mex r g s.
Proof. intros Hn Hg. unfold upd_mex. now rewrite (upd_at g r _ e e' Hn Hg). Qed.

Lemma ready1 g body ps :
  ready [(g, body)] ps = match pfire g ps with Some ps' => [(ps', body)] | None => [] end.
Proof. unfold ready. cbn [flat_map fst snd]. destruct (pfire g ps); reflexivity. Qed.

(* the one select without default of each function, computed on the closed generated terms *)
Lemma parked_fwd : parked_at mexForwardPeerFrame =
  Some [(GSend, PRet RNil); (GCtxDone, PRet RCtxErr);
        (GErrCh, PSel [(GSend, PRet RNil)] (Some (PSetDropped (PRet RLatched))))].
Proof. vm_compute. reflexivity. Qed.

Lemma parked_recv : parked_at mexRecvPeerFrame =
  Some [(GRecv, PIf TBadFrame (PRet RUnexpected) (PRet RFrame)); (GCtxDone, PCtxHook (PRet RCtxErr));
        (GErrCh, PSel [(GRecv, PIf TBadFrame (PRet RUnexpected) (PRet RFrame))] (Some (PRet RLatched)))].
Proof. vm_compute. reflexivity. Qed.

Theorem prog_step_generated : forall s l,
  prog_step_obs mexForwardPeerFrame mexRecvPeerFrame s l = step_obs true s l.
Proof.
  intros s l. destruct l; try reflexivity.
  - (* LFwdCheck *)
    cbn [prog_step_obs step_obs]. destruct (s_reader s) as [|f [r|]|f r]; try reflexivity.
    destruct (nth_error (s_mexes s) r) as [e|] eqn:He; [|reflexivity].
    unfold mexForwardPeerFrame, pfuel. generalize 10%nat; intros n10. timeout 20 (cbn [prun ptest ps_e ps_cur]).
    destruct (m_ctx e =? 0) eqn:Ec; cbn [negb]; [|reflexivity].
    destruct (m_dropped e) eqn:Ed; reflexivity.
  - (* LFwdSend *)
    cbn [prog_step_obs step_obs]. unfold fwd_sel. destruct (s_reader s) as [|f m|f r]; try reflexivity.
    destruct (nth_error (s_mexes s) r) as [e|] eqn:He; [|reflexivity].
    unfold psel_step. rewrite parked_fwd. unfold pfuel. generalize 10%nat; intros n10.
    timeout 20 (cbn [arm_of cguard_eqb fst pfire ps_e ps_cur]).
    destruct (zlen (m_queue e) <? m_cap e) eqn:Eq; [|reflexivity].
    timeout 20 (cbn [prun put_mex ps_changed res_obs ps_e]). now rewrite (upd_mex_at (enqueue f) r s e _ He eq_refl).
  - (* LFwdCtxDone *)
    cbn [prog_step_obs step_obs]. unfold fwd_sel. destruct (s_reader s) as [|f m|f r]; try reflexivity.
    destruct (nth_error (s_mexes s) r) as [e|] eqn:He; [|reflexivity].
    unfold psel_step. rewrite parked_fwd. unfold pfuel. generalize 10%nat; intros n10.
    timeout 20 (cbn [arm_of cguard_eqb fst pfire ps_e ps_cur]).
    destruct (m_ctx e =? 0) eqn:Ec; cbn [negb]; reflexivity.
  - (* LFwdErr *)
    cbn [prog_step_obs step_obs]. unfold fwd_sel. destruct (s_reader s) as [|f m|f r]; try reflexivity.
    destruct (nth_error (s_mexes s) r) as [e|] eqn:He; [|reflexivity].
    unfold psel_step. rewrite parked_fwd. unfold pfuel. generalize 10%nat; intros n10.
    timeout 20 (cbn [arm_of cguard_eqb fst pfire ps_e ps_cur]).
    destruct (m_err e =? 0) eqn:Ee; cbn [negb]; [reflexivity|].
    timeout 20 (cbn [prun]). rewrite ready1. cbn [pfire ps_e ps_cur].
    destruct (zlen (m_queue e) <? m_cap e) eqn:Eq.
    + timeout 20 (cbn [prun put_mex ps_changed res_obs ps_e]). now rewrite (upd_mex_at (enqueue f) r s e _ He eq_refl).
    + timeout 20 (cbn [prun put_mex ps_changed res_obs ps_e ps_cur]). now rewrite (upd_mex_at (set_dropped true) r s e _ He eq_refl).
  - (* LRecvCheck *)
    cbn [prog_step_obs step_obs]. destruct (nth_error (s_mexes s) r) as [e|] eqn:He; [|reflexivity].
    destruct (m_cpc e) eqn:Ep; [reflexivity|].
    unfold mexRecvPeerFrame, pfuel. generalize 10%nat; intros n10. timeout 20 (cbn [prun ptest ps_e ps_cur]).
    destruct (m_ctx e =? 0) eqn:Ec; cbn [negb]; reflexivity.
  - (* LRecvFrame *)
    cbn [prog_step_obs step_obs]. unfold recv_sel. destruct (nth_error (s_mexes s) r) as [e|] eqn:He; [|reflexivity].
    destruct (m_cpc e) eqn:Ep; [|reflexivity].
    unfold psel_step. rewrite parked_recv. unfold pfuel. generalize 10%nat; intros n10.
    timeout 20 (cbn [arm_of cguard_eqb fst pfire ps_e ps_cur]).
    destruct (m_queue e) as [|f q] eqn:Eq; [reflexivity|].
    timeout 20 (cbn [prun ptest ps_cur ps_e set_queue m_id]).
    destruct (mexCheckFrame (f_id f) (m_id e) =? 0) eqn:Ek; cbn [negb put_mex recv_done ps_changed ps_cur ps_e res_obs].
    + now rewrite (upd_mex_at (fun e => g_receive f (set_cpc false (set_queue q e))) r s e _ He eq_refl).
    + now rewrite (upd_mex_at (fun e => set_cpc false (set_queue q e)) r s e _ He eq_refl).
  - (* LRecvCtxDone *)
    cbn [prog_step_obs step_obs]. unfold recv_sel. destruct (nth_error (s_mexes s) r) as [e|] eqn:He; [|reflexivity].
    destruct (m_cpc e) eqn:Ep; [|reflexivity]. cbn [andb].
    unfold psel_step. rewrite parked_recv. unfold pfuel. generalize 10%nat; intros n10.
    timeout 20 (cbn [arm_of cguard_eqb fst pfire ps_e ps_cur]).
    destruct (m_ctx e =? 0) eqn:Ec; cbn [negb]; [reflexivity|].
    timeout 20 (cbn [prun put_mex recv_done ps_changed ps_cur ps_e res_obs]).
    now rewrite (upd_mex_at (set_cpc false) r s e _ He eq_refl).
  - (* LRecvErr *)
    cbn [prog_step_obs step_obs]. unfold recv_sel. destruct (nth_error (s_mexes s) r) as [e|] eqn:He; [|reflexivity].
    destruct (m_cpc e) eqn:Ep; [|reflexivity]. cbn [andb].
    unfold psel_step. rewrite parked_recv. unfold pfuel. generalize 10%nat; intros n10.
    timeout 20 (cbn [arm_of cguard_eqb fst pfire ps_e ps_cur]).
    destruct (m_err e =? 0) eqn:Ee; cbn [negb]; [reflexivity|].
    timeout 20 (cbn [prun]). rewrite ready1. cbn [pfire ps_e ps_cur].
    destruct (m_queue e) as [|f q] eqn:Eq.
    + timeout 20 (cbn [prun put_mex recv_done ps_changed ps_cur ps_e res_obs]).
      now rewrite (upd_mex_at (set_cpc false) r s e _ He eq_refl).
    + timeout 20 (cbn [prun ptest ps_cur ps_e set_queue m_id]).
      destruct (mexCheckFrame (f_id f) (m_id e) =? 0) eqn:Ek; cbn [negb put_mex recv_done ps_changed ps_cur ps_e res_obs].
      * now rewrite (upd_mex_at (fun e => g_receive f (set_cpc false (set_queue q e))) r s e _ He eq_refl).
      * now rewrite (upd_mex_at (fun e => set_cpc false (set_queue q e)) r s e _ He eq_refl).
Qed.
