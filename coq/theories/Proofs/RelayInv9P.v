(* Relay model: the bookkeeping invariant (every reachable state of fresh-id runs).
   - the End token of every started call is in exactly one place: the ghost log, a thread's
     pending code, or the live originating item (=> End at most once);
   - Relayer.pending = live items of the connection + units held by threads;
   - keys are never reused, tomb GC timers only ever meet tombstones. *)
From Coq Require Import ZArith List Bool Lia.
From Verif Require Import Base.Wrap Gen.GenConsts Gen.GenFrame Model.RelayItems Proofs.RelayAssocP Proofs.RelayCoreP.
Import ListNotations.
Local Open Scope Z_scope.

Notation klookup := (lookup key_eqb).
Notation kinsert := (insert key_eqb).
Notation kremove := (remove key_eqb).

(* ---------------------------------------------------------------- definitions *)

Definition adm_kf (i : instr) : option (Z * frame) :=
  match i with
  | IStart k f _ | ICanHandle k f _ _ | IGetDest k f _ _ | IRemoteCan k f _ _ _
  | IAddDest k f _ _ _ | IAddOrig k f _ _ _ _ => Some (k, f)
  | _ => None
  end.
Definition is_adm (i : instr) : bool := match adm_kf i with Some _ => true | None => false end.

Definition key_free (its : list (key * item)) (g : list key) (sn : list (Z * Z)) (k : Z) (f : frame) : Prop :=
  In (k, f_id f) sn /\ klookup (k, 0, f_id f) its = None /\ ~ In (k, 0, f_id f) g.

Definition iok (its : list (key * item)) (g : list key) (sn : list (Z * Z)) (th : tid) (i : instr) : Prop :=
  match adm_kf i with
  | Some (k, f) => th = TR k /\ key_free its g sn k f
  | None => match i with IEntomb t (FromTimeout o) => o = (key_dir t =? 0) | _ => True end
  end.

Definition code_ok its g sn (th : tid) (code : list instr) : Prop :=
  Forall (iok its g sn th) code /\ (forall i, In i code -> is_adm i = true -> code = [i]).

Definition keys_ok (cs : list (Z * conn)) (its : list (key * item)) (g : list key) (sn : list (Z * Z)) : Prop :=
  forall t, In t (map fst its) \/ In t g ->
    (key_dir t = 0 /\ In (key_conn t, key_id t) sn) \/
    (key_dir t = 1 /\ key_id t < c_nextid (getc cs (key_conn t))).

Definition orig_ok (its : list (key * item)) : Prop :=
  forall t it, In (t, it) its -> it_orig it = (key_dir t =? 0).

Definition gcs_ok (its : list (key * item)) (g : list key) : Prop :=
  forall t it, In t g -> klookup t its = Some it -> it_tomb it = true.

Definition timers_ok (tms : list (Z * timer)) : Prop :=
  forall tm x, lookup Z.eqb tm tms = Some x -> tm_orig x = (key_dir (tm_key x) =? 0).

Definition b2z (b : bool) : Z := if b then 1 else 0.

Definition tok_i (c : Z) (i : instr) : Z :=
  match i with
  | ICb c' CbEnd => b2z (c' =? c)
  | ICanHandle _ _ _ c' | IGetDest _ _ _ c' | IRemoteCan _ _ _ c' _ | IAddDest _ _ _ c' _ | IAddOrig _ _ _ c' _ _ => b2z (c' =? c)
  | _ => 0
  end.
Definition item_tok (c : Z) (t : key) (it : item) : Z := b2z ((it_call it =? c) && it_orig it && negb (it_tomb it)).
Definition started (c : Z) (nc : Z) : Z := b2z ((1 <=? c) && (c <? nc)).

Definition hold_i (k : Z) (i : instr) : Z :=
  match i with
  | IDec k' | IGetDest k' _ _ _ | IRemoteCan k' _ _ _ _ | IAddOrig k' _ _ _ _ _ => b2z (k' =? k)
  | IAddDest k' _ _ _ d => b2z (k' =? k) + b2z (d =? k)
  | _ => 0
  end.
Definition live_i (k : Z) (t : key) (it : item) : Z := b2z ((key_conn t =? k) && negb (it_tomb it)).

Definition total (c : Z) (st : state) : Z :=
  ends c (cblog st) + tsum (tok_i c) (threads st) + asum (item_tok c) (items st).

Record Inv (st : state) : Prop := {
  inv_items_nd : NoDup (map fst (items st));
  inv_threads_nd : NoDup (map fst (threads st));
  inv_keys : keys_ok (conns st) (items st) (gcs st) (seen st);
  inv_orig : orig_ok (items st);
  inv_gcs : gcs_ok (items st) (gcs st);
  inv_timers : timers_ok (timers st);
  inv_code : forall th code, In (th, code) (threads st) -> code_ok (items st) (gcs st) (seen st) th code;
  inv_total : forall c, total c st = started c (next_call st);
  inv_pending : forall k, c_pending (getc (conns st) k) =
                  wrapU 32 (asum (live_i k) (items st) + tsum (hold_i k) (threads st));
  inv_next : 1 <= next_call st
}.

(* the scheduled tombstone collection (label LGc, relayItems.deleteTomb) of a state satisfying
   [gcs_ok] meets a tombstone or nothing: there it is relayItems.Delete *)
Lemma gc_is_delete : forall st t, Inv st -> mem_key t (gcs st) = true ->
  items_delete_tomb (set_gcs st (remove_one t (gcs st))) t = fst (items_delete (set_gcs st (remove_one t (gcs st))) t).
Proof.
  intros st t HI Em. apply items_delete_tomb_eq. cbn [set_gcs items]. intros it Hl.
  eapply (inv_gcs _ HI); [|exact Hl].
  unfold mem_key in Em. apply existsb_exists in Em. destruct Em as [x [Hx Heq]]. apply key_eqb_ok in Heq. subst. exact Hx.
Qed.

Ltac gc_delete HI :=
  match goal with E : mem_key ?t (gcs ?st) = true |- _ => rewrite (gc_is_delete st t HI E) in * end.

(* ---------------------------------------------------------------- small facts *)

Lemma b2z_nonneg : forall b, 0 <= b2z b. Proof. destruct b; cbn; lia. Qed.
Lemma tok_i_nonneg : forall c i, 0 <= tok_i c i.
Proof. intros c i. destruct i; cbn; try lia; try apply b2z_nonneg. destruct x; try lia. apply b2z_nonneg. Qed.
Lemma item_tok_nonneg : forall c t it, 0 <= item_tok c t it. Proof. intros. apply b2z_nonneg. Qed.

Lemma wrapU_add_l : forall a b, wrapU 32 (wrapU 32 a + b) = wrapU 32 (a + b).
Proof. intros a b. unfold wrapU. apply Zplus_mod_idemp_l. Qed.

Lemma wrapU_eq_add : forall p a b, p = wrapU 32 a -> wrapU 32 (p + b) = wrapU 32 (a + b).
Proof. intros p a b H. subst. apply wrapU_add_l. Qed.

Lemma timers_ok_insert : forall tms tm x, timers_ok tms -> tm_orig x = (key_dir (tm_key x) =? 0) ->
  timers_ok (insert Z.eqb tm x tms).
Proof.
  intros tms tm x H Hx tm' y Hl.
  destruct (Z.eq_dec tm' tm) as [->|Hn].
  - rewrite (lookup_insert_eq Z.eqb zeqb_ok) in Hl. inversion Hl. subst. exact Hx.
  - rewrite (lookup_insert_neq Z.eqb zeqb_ok) in Hl by exact Hn. eapply H. exact Hl.
Qed.

Lemma timer_stop_timers : forall st tm st' b, timers_ok (timers st) -> timer_stop st tm = (st', b) -> timers_ok (timers st').
Proof.
  intros st tm st' b H Hs. unfold timer_stop in Hs.
  destruct (lookup Z.eqb tm (timers st)) as [t|] eqn:El.
  - destruct (tm_released t); [inversion Hs; exact H|].
    destruct (tm_stopped t); [inversion Hs; subst; exact H|].
    destruct (tm_armed t); inversion Hs; subst; [|exact H].
    cbn. apply timers_ok_insert; [exact H|]. cbn. eapply H. exact El.
  - inversion Hs. exact H.
Qed.

Lemma timer_release_timers : forall st tm, timers_ok (timers st) -> timers_ok (timers (timer_release st tm)).
Proof.
  intros st tm H. unfold timer_release.
  destruct (lookup Z.eqb tm (timers st)) as [t|] eqn:El; [|exact H].
  destruct (tm_released t); [exact H|]. destruct (tm_active t); [exact H|].
  cbn. apply timers_ok_insert; [exact H|]. cbn. eapply H. exact El.
Qed.

Lemma timer_new_timers : forall st t o st' tm, timers_ok (timers st) -> o = (key_dir t =? 0) ->
  timer_new st t o = (st', tm) -> timers_ok (timers st').
Proof.
  intros st t o st' tm H Ho Hn. unfold timer_new in Hn. inversion Hn. subst. cbn.
  apply timers_ok_insert; [exact H|]. reflexivity.
Qed.

Lemma items_get_timers : forall st t stop st' g, timers_ok (timers st) -> items_get st t stop = (st', g) -> timers_ok (timers st').
Proof.
  intros st t stop st' g H Hg. unfold items_get in Hg.
  destruct (klookup t (items st)) as [it|]; [|inversion Hg; subst; exact H].
  destruct stop; [|inversion Hg; subst; exact H].
  destruct (timer_stop st (it_tm it)) as [st2 b] eqn:E. inversion Hg. subst.
  eapply timer_stop_timers; eassumption.
Qed.

Lemma items_delete_timers : forall st t st' g, timers_ok (timers st) -> items_delete st t = (st', g) -> timers_ok (timers st').
Proof.
  intros st t st' g H Hd. unfold items_delete in Hd.
  destruct (klookup t (items st)) as [it|]; inversion Hd; subst; [|exact H].
  apply timer_release_timers. exact H.
Qed.

Lemma items_entomb_timers : forall cf st t st' g, timers_ok (timers st) -> items_entomb cf st t = (st', g) -> timers_ok (timers st').
Proof.
  intros cf st t st' g H He. unfold items_entomb in He.
  destruct (cf_maxtombs cf <? tomb_count st (key_conn t) (key_dir t)); [eapply items_delete_timers; eassumption|].
  destruct (klookup t (items st)) as [it|]; [|inversion He; subst; exact H].
  destruct (it_tomb it); inversion He; subst; exact H.
Qed.

(* key_free is about one key only *)
Lemma key_free_ext : forall its g sn its' g' sn' k f,
  key_free its g sn k f ->
  incl sn sn' ->
  klookup (k, 0, f_id f) its' = klookup (k, 0, f_id f) its ->
  (In (k, 0, f_id f) g' -> In (k, 0, f_id f) g) ->
  key_free its' g' sn' k f.
Proof.
  intros its g sn its' g' sn' k f (H1&H2&H3) Hs Hl Hg. repeat split.
  - apply Hs. exact H1.
  - rewrite Hl. exact H2.
  - intro Hin. apply H3. apply Hg. exact Hin.
Qed.

(* ---------------------------------------------------------------- effects on the item table *)

Section ItemEffects.
  Variables (cs : list (Z * conn)) (its : list (key * item)) (g : list key) (sn : list (Z * Z)).
  Hypothesis Hnd : NoDup (map fst its).
  Hypothesis Hkeys : keys_ok cs its g sn.
  Hypothesis Horig : orig_ok its.
  Hypothesis Hgcs : gcs_ok its g.

  (* remove a key *)
  Lemma keys_ok_remove : forall t, keys_ok cs (kremove t its) g sn.
  Proof.
    intros t t' [Hin|Hin]; apply Hkeys; [left|right; exact Hin].
    apply (in_keys_remove key_eqb key_eqb_ok) in Hin. destruct Hin as [Hin _]. exact Hin.
  Qed.
  Lemma orig_ok_remove : forall t, orig_ok (kremove t its).
  Proof.
    intros t t' it Hin. apply (in_remove key_eqb key_eqb_ok) in Hin. destruct Hin as [Hin _]. eapply Horig. exact Hin.
  Qed.
  Lemma gcs_ok_remove : forall t, gcs_ok (kremove t its) g.
  Proof.
    intros t t' it Hin Hl. destruct (eqb_dec key_eqb key_eqb_ok t' t) as [->|Hn].
    - rewrite (lookup_remove_eq key_eqb key_eqb_ok) in Hl. discriminate.
    - rewrite (lookup_remove_neq key_eqb key_eqb_ok) in Hl by exact Hn. eapply Hgcs; eassumption.
  Qed.

  (* entomb an existing live item *)
  Lemma keys_ok_entomb : forall t it, klookup t its = Some it -> keys_ok cs (kinsert t (entomb_item it) its) (t :: g) sn.
  Proof.
    intros t it Hl t' Hin. apply Hkeys.
    assert (Ht : In t (map fst its)).
    { apply (lookup_in key_eqb key_eqb_ok) in Hl. apply (in_map fst) in Hl. exact Hl. }
    destruct Hin as [Hin|[Hin|Hin]].
    - apply (in_keys_insert key_eqb key_eqb_ok) in Hin. destruct Hin as [->|Hin]; left; assumption.
    - subst. left. exact Ht.
    - right. exact Hin.
  Qed.
  Lemma orig_ok_entomb : forall t it, klookup t its = Some it -> orig_ok (kinsert t (entomb_item it) its).
  Proof.
    intros t it Hl t' it' Hin. apply (in_insert key_eqb key_eqb_ok) in Hin.
    destruct Hin as [[-> ->]|[Hin _]].
    - cbn. eapply Horig. eapply (lookup_in key_eqb key_eqb_ok). exact Hl.
    - eapply Horig. exact Hin.
  Qed.
  Lemma gcs_ok_entomb : forall t it, gcs_ok (kinsert t (entomb_item it) its) (t :: g).
  Proof.
    intros t it t' it' Hin Hl. destruct (eqb_dec key_eqb key_eqb_ok t' t) as [->|Hn].
    - rewrite (lookup_insert_eq key_eqb key_eqb_ok) in Hl. inversion Hl. reflexivity.
    - rewrite (lookup_insert_neq key_eqb key_eqb_ok) in Hl by exact Hn.
      destruct Hin as [Hin|Hin]; [congruence|]. eapply Hgcs; eassumption.
  Qed.

  (* add a new key *)
  Lemma orig_ok_add : forall t it, it_orig it = (key_dir t =? 0) -> orig_ok (kinsert t it its).
  Proof.
    intros t it Ho t' it' Hin. apply (in_insert key_eqb key_eqb_ok) in Hin.
    destruct Hin as [[-> ->]|[Hin _]]; [exact Ho|eapply Horig; exact Hin].
  Qed.
  Lemma gcs_ok_add : forall t it, ~ In t g -> gcs_ok (kinsert t it its) g.
  Proof.
    intros t it Hng t' it' Hin Hl. destruct (eqb_dec key_eqb key_eqb_ok t' t) as [->|Hn]; [contradiction|].
    rewrite (lookup_insert_neq key_eqb key_eqb_ok) in Hl by exact Hn. eapply Hgcs; eassumption.
  Qed.
End ItemEffects.

Lemma asum_tok_entomb : forall c its t it, NoDup (map fst its) -> klookup t its = Some it -> it_tomb it = false ->
  asum (item_tok c) (kinsert t (entomb_item it) its) = asum (item_tok c) its - b2z ((it_call it =? c) && it_orig it).
Proof.
  intros c its t it Hnd Hl Ht. rewrite (asum_insert_some key_eqb key_eqb_ok _ t _ it) by assumption.
  unfold item_tok. cbn. rewrite Ht. rewrite !andb_false_r, andb_true_r. cbn. lia.
Qed.

Lemma asum_live_entomb : forall k its t it, NoDup (map fst its) -> klookup t its = Some it -> it_tomb it = false ->
  asum (live_i k) (kinsert t (entomb_item it) its) = asum (live_i k) its - b2z (key_conn t =? k).
Proof.
  intros k its t it Hnd Hl Ht. rewrite (asum_insert_some key_eqb key_eqb_ok _ t _ it) by assumption.
  unfold live_i. cbn. rewrite Ht. rewrite andb_false_r, andb_true_r. cbn. lia.
Qed.

Lemma asum_tok_remove : forall c its t it, NoDup (map fst its) -> klookup t its = Some it ->
  asum (item_tok c) (kremove t its) = asum (item_tok c) its - b2z ((it_call it =? c) && it_orig it && negb (it_tomb it)).
Proof. intros. rewrite (asum_remove_some key_eqb key_eqb_ok _ t it) by assumption. reflexivity. Qed.

Lemma asum_live_remove : forall k its t it, NoDup (map fst its) -> klookup t its = Some it ->
  asum (live_i k) (kremove t its) = asum (live_i k) its - b2z ((key_conn t =? k) && negb (it_tomb it)).
Proof. intros. rewrite (asum_remove_some key_eqb key_eqb_ok _ t it) by assumption. reflexivity. Qed.

(* ---------------------------------------------------------------- effect of one instruction *)

Definition plain (j : instr) : Prop :=
  is_adm j = false /\ match j with IEntomb t (FromTimeout o) => o = (key_dir t =? 0) | _ => True end.

Lemma plain_iok : forall its g sn th j, plain j -> iok its g sn th j.
Proof.
  intros its g sn th j [Ha Hj]. unfold iok. unfold is_adm in Ha.
  destruct (adm_kf j); [discriminate|exact Hj].
Qed.

Lemma plain_simple : forall j, is_adm j = false -> (forall t o, j <> IEntomb t (FromTimeout o)) -> plain j.
Proof.
  intros j Ha Hn. split; [exact Ha|]. destruct j; try exact I. destruct s; [exact I|]. exfalso. eapply Hn. reflexivity.
Qed.

Definition Eff (st : state) (th : tid) (i : instr) (st1 : state) (pushed : list instr) : Prop :=
  threads st1 = threads st /\ seen st1 = seen st /\
  NoDup (map fst (items st1)) /\
  keys_ok (conns st1) (items st1) (gcs st1) (seen st1) /\
  orig_ok (items st1) /\ gcs_ok (items st1) (gcs st1) /\ timers_ok (timers st1) /\
  (forall k f, th <> TR k -> key_free (items st) (gcs st) (seen st) k f -> key_free (items st1) (gcs st1) (seen st1) k f) /\
  Forall (iok (items st1) (gcs st1) (seen st1) th) pushed /\
  ((is_adm i = true /\ exists j, pushed = [j]) \/ Forall (fun j => is_adm j = false) pushed) /\
  (forall c, ends c (cblog st1) + asum (item_tok c) (items st1) + csum (tok_i c) pushed - started c (next_call st1)
           = ends c (cblog st) + asum (item_tok c) (items st) + tok_i c i - started c (next_call st)) /\
  (forall k X, c_pending (getc (conns st) k) = wrapU 32 (asum (live_i k) (items st) + X + hold_i k i) ->
               c_pending (getc (conns st1) k) = wrapU 32 (asum (live_i k) (items st1) + X + csum (hold_i k) pushed)) /\
  next_call st <= next_call st1.

Lemma keys_ok_conns : forall cs cs' its g sn,
  (forall k, c_nextid (getc cs k) <= c_nextid (getc cs' k)) -> keys_ok cs its g sn -> keys_ok cs' its g sn.
Proof.
  intros cs cs' its g sn Hm H t Hin. destruct (H t Hin) as [H0|[H1 H2]]; [left; exact H0|right].
  split; [exact H1|]. specialize (Hm (key_conn t)). lia.
Qed.

(* instructions that leave items, gcs, seen, next_call and the counters of every connection alone *)
Lemma Eff_pure : forall st th i st1 pushed,
  Inv st ->
  threads st1 = threads st -> seen st1 = seen st -> items st1 = items st -> gcs st1 = gcs st ->
  next_call st1 = next_call st -> timers_ok (timers st1) ->
  (forall k, c_pending (getc (conns st1) k) = c_pending (getc (conns st) k) /\
             c_nextid (getc (conns st1) k) = c_nextid (getc (conns st) k)) ->
  Forall plain pushed ->
  (forall c, ends c (cblog st1) + csum (tok_i c) pushed = ends c (cblog st) + tok_i c i) ->
  (forall k, csum (hold_i k) pushed = hold_i k i) ->
  Eff st th i st1 pushed.
Proof.
  intros st th i st1 pushed HI Hth Hsn Hit Hg Hnc Htm Hcs Hpl Htok Hhold.
  unfold Eff. rewrite Hth, Hsn, Hit, Hg, Hnc.
  split; [reflexivity|]. split; [reflexivity|].
  split; [apply (inv_items_nd _ HI)|].
  split. { eapply keys_ok_conns; [|apply (inv_keys _ HI)]. intro k. destruct (Hcs k) as [_ H]. lia. }
  split; [apply (inv_orig _ HI)|]. split; [apply (inv_gcs _ HI)|]. split; [exact Htm|].
  split; [intros k f _ H; exact H|].
  split. { eapply Forall_impl; [|exact Hpl]. intros j Hj. apply plain_iok. exact Hj. }
  split. { right. eapply Forall_impl; [|exact Hpl]. intros j [Hj _]. exact Hj. }
  split. { intro c. specialize (Htok c). lia. }
  split; [|lia].
  intros k X H. destruct (Hcs k) as [Hp _]. rewrite Hp, H. rewrite Hhold. reflexivity.
Qed.

Lemma core_fields : forall a b, core_eq a b ->
  conns a = conns b /\ items a = items b /\ gcs a = gcs b /\ threads a = threads b /\
  cblog a = cblog b /\ sent a = sent b /\ seen a = seen b /\ next_call a = next_call b.
Proof. intros a b H. exact H. Qed.

Ltac plain_tac :=
  repeat match goal with
         | |- Forall plain [] => constructor
         | |- Forall plain (_ :: _) => constructor
         | |- Forall plain (_ ++ _) => apply Forall_app; split
         | |- Forall plain (if ?b then _ else _) => destruct b
         | |- plain _ => apply plain_simple; [reflexivity|intros ? ?; discriminate]
         end.

Lemma is_end_tok : forall c c' x, is_end c (c', x) = tok_i c (ICb c' x).
Proof. intros c c' x. unfold is_end. cbn. destruct x; try reflexivity. Qed.

(* code pushed after Receive returns *)
Lemma after_sent_plain : forall r, Forall plain (after_sent r).
Proof. intro r. unfold after_sent. plain_tac. Qed.
Lemma after_sent_tok : forall c r, csum (tok_i c) (after_sent r) = 0.
Proof. intros c r. unfold after_sent. destruct (fin_of (r_f r)), (0 <? r_more r); reflexivity. Qed.
Lemma after_sent_hold : forall k r, csum (hold_i k) (after_sent r) = 0.
Proof. intros k r. unfold after_sent. destruct (fin_of (r_f r)), (0 <? r_more r); reflexivity. Qed.

Lemma conns_same : forall st st1 k, conns st1 = conns st ->
  c_pending (getc (conns st1) k) = c_pending (getc (conns st) k) /\
  c_nextid (getc (conns st1) k) = c_nextid (getc (conns st) k).
Proof. intros st st1 k H. rewrite H. split; reflexivity. Qed.

Lemma Eff_ICb : forall st th c x, Inv st -> Eff st th (ICb c x) (log_cb st c x) [].
Proof.
  intros st th c x HI. apply Eff_pure; try reflexivity; try exact HI.
  - apply (inv_timers _ HI).
  - intro k. apply conns_same. reflexivity.
  - constructor.
  - intro c0. cbn [log_cb set_cblog cblog ends csum]. rewrite is_end_tok. lia.
Qed.

Lemma Eff_ISendErr : forall cf st th k id code room st1 pushed, Inv st ->
  exec cf st (ISendErr k id code) room = (st1, pushed) -> Eff st th (ISendErr k id code) st1 pushed.
Proof.
  intros cf st th k id code room st1 pushed HI H. cbn [exec] in H.
  destruct ((c_state (get_conn st k) =? c_connectionClosed) || negb room); inversion H; subst;
    (apply Eff_pure; try reflexivity; try exact HI;
     [apply (inv_timers _ HI)|intro; apply conns_same; reflexivity|constructor]).
Qed.

Lemma Eff_IConnClose : forall cf st th k room st1 pushed, Inv st ->
  exec cf st (IConnClose k) room = (st1, pushed) -> Eff st th (IConnClose k) st1 pushed.
Proof.
  intros cf st th k room st1 pushed HI H. cbn [exec] in H.
  destruct (c_state (get_conn st k) =? c_connectionActive); inversion H; subst.
  - apply Eff_pure; try reflexivity; try exact HI; [apply (inv_timers _ HI)| |constructor].
    intro k'. cbn [put_conn set_conns conns]. rewrite getc_insert.
    destruct (k' =? k) eqn:E; [|split; reflexivity].
    apply Z.eqb_eq in E. subst. cbn. rewrite get_conn_getc. split; reflexivity.
  - apply Eff_pure; try reflexivity; try exact HI; [apply (inv_timers _ HI)|intro; apply conns_same; reflexivity|constructor].
Qed.

Lemma Eff_of_get : forall st th i st' pushed t stop g, Inv st ->
  items_get st t stop = (st', g) ->
  Forall plain pushed ->
  (forall c, csum (tok_i c) pushed = tok_i c i) ->
  (forall k, csum (hold_i k) pushed = hold_i k i) ->
  Eff st th i st' pushed.
Proof.
  intros st th i st' pushed t stop g HI Hg Hpl Htok Hhold.
  pose proof (items_get_timers _ _ _ _ _ (inv_timers _ HI) Hg) as Htm.
  apply items_get_spec in Hg. destruct Hg as [Hc _].
  destruct Hc as (H1&H2&H3&H4&H5&H6&H7&H8).
  apply Eff_pure; try assumption.
  - intro k. rewrite H1. split; reflexivity.
  - intro c. rewrite H5, Htok. reflexivity.
Qed.

Lemma Eff_INcGet : forall cf st th k f room st1 pushed, Inv st ->
  exec cf st (INcGet k f) room = (st1, pushed) -> Eff st th (INcGet k f) st1 pushed.
Proof.
  intros cf st th k f room st1 pushed HI H. cbn [exec] in H.
  destruct (frameTypeFor (f_mt f)) as [ft|].
  - destruct (items_get st (k, (if ft =? c_responseFrame then 1 else 0), f_id f) (fin_of f)) as [st' g] eqn:E.
    inversion H. subst. eapply Eff_of_get; [exact HI|exact E| | |]; try reflexivity. plain_tac.
  - inversion H. subst. apply Eff_pure; try reflexivity; try exact HI;
      [apply (inv_timers _ HI)|intro; apply conns_same; reflexivity|constructor].
Qed.

Lemma Eff_INcChk : forall cf st th k f ft own g room st1 pushed, Inv st ->
  exec cf st (INcChk k f ft own g) room = (st1, pushed) -> Eff st th (INcChk k f ft own g) st1 pushed.
Proof.
  intros cf st th k f ft own g room st1 pushed HI H. cbn [exec] in H.
  assert (Hbase : forall p, Forall plain p -> (forall c, csum (tok_i c) p = 0) -> (forall k0, csum (hold_i k0) p = 0) ->
                            Eff st th (INcChk k f ft own g) st p).
  { intros p Hp Ht Hh. apply Eff_pure; try reflexivity; try exact HI;
      [apply (inv_timers _ HI)|intro; apply conns_same; reflexivity|exact Hp|intro c; rewrite Ht; reflexivity|intro k0; rewrite Hh; reflexivity]. }
  destruct g as [[it stopped]|]; [|inversion H; subst; apply Hbase; [constructor|reflexivity|reflexivity]].
  destruct (it_tomb it || (fin_of f && negb stopped)); inversion H; subst.
  - apply Hbase; [constructor|reflexivity|reflexivity].
  - apply Hbase.
    + plain_tac.
    + intro c. destruct ((f_mt f =? c_messageTypeCallRes) && f_wf f), (ft =? c_requestFrame); reflexivity.
    + intro k0. destruct ((f_mt f =? c_messageTypeCallRes) && f_wf f), (ft =? c_requestFrame); reflexivity.
Qed.

Lemma Eff_IRcvGet : forall cf st th r room st1 pushed, Inv st ->
  exec cf st (IRcvGet r) room = (st1, pushed) -> Eff st th (IRcvGet r) st1 pushed.
Proof.
  intros cf st th r room st1 pushed HI H. cbn [exec] in H.
  match type of H with context [items_get ?a ?b ?c] => destruct (items_get a b c) as [st' g] eqn:E end.
  inversion H. subst. eapply Eff_of_get; [exact HI|exact E| | |]; try reflexivity. plain_tac.
Qed.

Lemma Eff_IRcvChk : forall cf st th r rk g room st1 pushed, Inv st ->
  exec cf st (IRcvChk r rk g) room = (st1, pushed) -> Eff st th (IRcvChk r rk g) st1 pushed.
Proof.
  intros cf st th r rk g room st1 pushed HI H. cbn [exec] in H.
  assert (Hbase : forall p, Forall plain p -> (forall c, csum (tok_i c) p = 0) -> (forall k0, csum (hold_i k0) p = 0) ->
                            Eff st th (IRcvChk r rk g) st p).
  { intros p Hp Ht Hh. apply Eff_pure; try reflexivity; try exact HI;
      [apply (inv_timers _ HI)|intro; apply conns_same; reflexivity|exact Hp|intro c; rewrite Ht; reflexivity|intro k0; rewrite Hh; reflexivity]. }
  destruct g as [[it stopped]|].
  - destruct (it_tomb it || (fin_of (r_f r) && negb stopped)); inversion H; subst.
    + apply Hbase; [apply after_sent_plain|intro; apply after_sent_tok|intro; apply after_sent_hold].
    + apply Hbase.
      * plain_tac.
      * intro c. rewrite csum_app.
        destruct ((r_ft r =? c_responseFrame) || (f_mt (r_f r) =? c_messageTypeCancel));
          [destruct (dcsSucceeded _ _ _); [reflexivity|destruct (0 <? zlen _); reflexivity]|reflexivity].
      * intro k0. rewrite csum_app.
        destruct ((r_ft r =? c_responseFrame) || (f_mt (r_f r) =? c_messageTypeCancel));
          [destruct (dcsSucceeded _ _ _); [reflexivity|destruct (0 <? zlen _); reflexivity]|reflexivity].
  - inversion H; subst. apply Hbase; [unfold after_unsent; plain_tac|reflexivity|reflexivity].
Qed.

Lemma Eff_IRcvEnq : forall cf st th r rk lk room st1 pushed, Inv st ->
  exec cf st (IRcvEnq r rk lk) room = (st1, pushed) -> Eff st th (IRcvEnq r rk lk) st1 pushed.
Proof.
  intros cf st th r rk lk room st1 pushed HI H. cbn [exec] in H.
  destruct room; inversion H; subst.
  - apply Eff_pure; try reflexivity; try exact HI; [apply (inv_timers _ HI)|intro; apply conns_same; reflexivity| | |].
    + apply Forall_app. split; [plain_tac|apply after_sent_plain].
    + intro c. rewrite csum_app, after_sent_tok. destruct (fin_of (r_f r)); reflexivity.
    + intro k0. rewrite csum_app, after_sent_hold. destruct (fin_of (r_f r)); reflexivity.
  - apply Eff_pure; try reflexivity; try exact HI; [apply (inv_timers _ HI)|intro; apply conns_same; reflexivity|].
    unfold after_unsent. plain_tac.
Qed.

Lemma Eff_IFailGet : forall cf st th t reason room st1 pushed, Inv st ->
  exec cf st (IFailGet t reason) room = (st1, pushed) -> Eff st th (IFailGet t reason) st1 pushed.
Proof.
  intros cf st th t reason room st1 pushed HI H. cbn [exec] in H.
  destruct (items_get st t true) as [st' g] eqn:E.
  assert (Hb : forall p, (st', p) = (st1, pushed) -> Forall plain p -> (forall c, csum (tok_i c) p = 0) ->
                         (forall k0, csum (hold_i k0) p = 0) -> Eff st th (IFailGet t reason) st1 pushed).
  { intros p Hp Hpl Ht Hh. inversion Hp. subst. eapply Eff_of_get; [exact HI|exact E|exact Hpl| |].
    - intro c. rewrite Ht. reflexivity.
    - intro k0. rewrite Hh. reflexivity. }
  destruct g as [[it [|]]|]; eapply Hb; try exact H; try reflexivity; plain_tac.
Qed.

Lemma Eff_ITimerRun : forall cf st th tm room st1 pushed, Inv st ->
  exec cf st (ITimerRun tm) room = (st1, pushed) -> Eff st th (ITimerRun tm) st1 pushed.
Proof.
  intros cf st th tm room st1 pushed HI H. cbn [exec] in H.
  destruct (lookup Z.eqb tm (timers st)) as [t|] eqn:El.
  - destruct (tm_released t); inversion H; subst.
    + apply Eff_pure; try reflexivity; try exact HI; [apply (inv_timers _ HI)|intro; apply conns_same; reflexivity|constructor].
    + apply Eff_pure; try reflexivity; try exact HI.
      * cbn. apply timers_ok_insert; [apply (inv_timers _ HI)|]. cbn. eapply (inv_timers _ HI). exact El.
      * intro; apply conns_same; reflexivity.
      * constructor; [|constructor]. split; [reflexivity|]. eapply (inv_timers _ HI). exact El.
  - inversion H; subst. apply Eff_pure; try reflexivity; try exact HI;
      [apply (inv_timers _ HI)|intro; apply conns_same; reflexivity|constructor].
Qed.

(* instructions that leave items, gcs, seen and threads alone (connections / next_call may change) *)
Lemma Eff_noitems : forall st th i st1 pushed,
  Inv st ->
  threads st1 = threads st -> seen st1 = seen st -> items st1 = items st -> gcs st1 = gcs st ->
  timers_ok (timers st1) ->
  (forall k, c_nextid (getc (conns st) k) <= c_nextid (getc (conns st1) k)) ->
  Forall (iok (items st) (gcs st) (seen st) th) pushed ->
  ((is_adm i = true /\ exists j, pushed = [j]) \/ Forall (fun j => is_adm j = false) pushed) ->
  (forall c, ends c (cblog st1) + csum (tok_i c) pushed - started c (next_call st1)
           = ends c (cblog st) + tok_i c i - started c (next_call st)) ->
  (forall k X, c_pending (getc (conns st) k) = wrapU 32 (asum (live_i k) (items st) + X + hold_i k i) ->
               c_pending (getc (conns st1) k) = wrapU 32 (asum (live_i k) (items st) + X + csum (hold_i k) pushed)) ->
  next_call st <= next_call st1 ->
  Eff st th i st1 pushed.
Proof.
  intros st th i st1 pushed HI Hth Hsn Hit Hg Htm Hcs Hiok Hadm Htok Hpend Hnc.
  unfold Eff. rewrite Hth, Hsn, Hit, Hg.
  split; [reflexivity|]. split; [reflexivity|].
  split; [apply (inv_items_nd _ HI)|].
  split. { eapply keys_ok_conns; [|apply (inv_keys _ HI)]. exact Hcs. }
  split; [apply (inv_orig _ HI)|]. split; [apply (inv_gcs _ HI)|]. split; [exact Htm|].
  split; [intros k f _ H; exact H|].
  split; [exact Hiok|]. split; [exact Hadm|].
  split. { intro c. specialize (Htok c). lia. }
  split; [exact Hpend|exact Hnc].
Qed.

Lemma started_succ : forall c nc, 1 <= nc -> started c (nc + 1) = started c nc + b2z (nc =? c).
Proof.
  intros c nc H. unfold started, b2z.
  destruct (1 <=? c) eqn:E1, (c <? nc + 1) eqn:E2, (c <? nc) eqn:E3, (nc =? c) eqn:E4; cbn; try lia;
    try (apply Z.leb_le in E1); try (apply Z.leb_gt in E1);
    try (apply Z.ltb_lt in E2); try (apply Z.ltb_ge in E2);
    try (apply Z.ltb_lt in E3); try (apply Z.ltb_ge in E3);
    try (apply Z.eqb_eq in E4); try (apply Z.eqb_neq in E4); lia.
Qed.

Lemma iok_adm : forall its g sn th i k f, adm_kf i = Some (k, f) -> iok its g sn th i -> th = TR k /\ key_free its g sn k f.
Proof. intros its g sn th i k f Ha H. unfold iok in H. rewrite Ha in H. exact H. Qed.

Lemma iok_of_adm : forall its g sn th i k f, adm_kf i = Some (k, f) -> th = TR k -> key_free its g sn k f -> iok its g sn th i.
Proof. intros its g sn th i k f Ha H1 H2. unfold iok. rewrite Ha. split; assumption. Qed.

Ltac forall_plain_iok :=
  eapply Forall_impl; [intros ? Hpl_; apply plain_iok; exact Hpl_|]; plain_tac.

Lemma Eff_IStart : forall cf st th k f e room st1 pushed, Inv st ->
  iok (items st) (gcs st) (seen st) th (IStart k f e) ->
  exec cf st (IStart k f e) room = (st1, pushed) -> Eff st th (IStart k f e) st1 pushed.
Proof.
  intros cf st th k f e room st1 pushed HI Hi H. cbn [exec] in H.
  apply (iok_adm _ _ _ _ (IStart k f e) k f eq_refl) in Hi. destruct Hi as [Hth Hkf].
  pose proof (inv_next _ HI) as Hn1.
  destruct (e_start e =? 0).
  - inversion H. subst st1 pushed.
    apply Eff_noitems; [exact HI|reflexivity|reflexivity|reflexivity|reflexivity| | | | | | | ].
    + apply (inv_timers _ HI).
    + intro; apply Z.le_refl.
    + constructor; [|constructor]. eapply iok_of_adm; [reflexivity|exact Hth|exact Hkf].
    + left. split; [reflexivity|eexists; reflexivity].
    + intro c. cbn [set_next_call next_call cblog csum tok_i]. rewrite started_succ by exact Hn1. lia.
    + intros k0 X Hp. cbn [set_next_call conns items csum hold_i]. rewrite Hp; f_equal; cbn; lia.
    + cbn. lia.
  - destruct ((e_start e =? 1) || (e_start e =? 3)) eqn:Ecall.
    + inversion H. subst st1 pushed.
      apply Eff_noitems; [exact HI|reflexivity|reflexivity|reflexivity|reflexivity| | | | | | | ].
      * apply (inv_timers _ HI).
      * intro; apply Z.le_refl.
      * forall_plain_iok.
      * right. destruct ((e_start e =? 1) || (e_start e =? 2)); [|destruct (e_code e =? c_ErrCodeProtocol)]; repeat constructor.
      * intro c. cbn [set_next_call next_call cblog]. rewrite started_succ by exact Hn1. cbn [csum tok_i].
        assert (Hz : csum (tok_i c) (if (e_start e =? 1) || (e_start e =? 2) then []
                       else ISendErr k (f_id f) (e_code e) :: (if e_code e =? c_ErrCodeProtocol then [IConnClose k] else [])) = 0).
        { destruct ((e_start e =? 1) || (e_start e =? 2)); [reflexivity|]. destruct (e_code e =? c_ErrCodeProtocol); reflexivity. }
        rewrite Hz. lia.
      * intros k0 X Hp. cbn [set_next_call conns items]. rewrite Hp. f_equal.
        destruct ((e_start e =? 1) || (e_start e =? 2)); [|destruct (e_code e =? c_ErrCodeProtocol)]; cbn; lia.
      * cbn. lia.
    + inversion H. subst st1 pushed.
      apply Eff_noitems; [exact HI|reflexivity|reflexivity|reflexivity|reflexivity| | | | | | | ].
      * apply (inv_timers _ HI).
      * intro; apply Z.le_refl.
      * forall_plain_iok.
      * right. destruct ((e_start e =? 1) || (e_start e =? 2)); [|destruct (e_code e =? c_ErrCodeProtocol)]; repeat constructor.
      * intro c. destruct ((e_start e =? 1) || (e_start e =? 2)); [|destruct (e_code e =? c_ErrCodeProtocol)]; cbn; lia.
      * intros k0 X Hp. rewrite Hp. f_equal.
        destruct ((e_start e =? 1) || (e_start e =? 2)); [|destruct (e_code e =? c_ErrCodeProtocol)]; cbn; lia.
      * lia.
Qed.

Lemma pending_put_same : forall st k cn k0,
  c_nextid cn = c_nextid (getc (conns st) k) ->
  c_nextid (getc (conns st) k0) <= c_nextid (getc (conns (put_conn st k cn)) k0).
Proof.
  intros st k cn k0 H. cbn [put_conn set_conns conns]. rewrite getc_insert.
  destruct (k0 =? k) eqn:E; [|lia]. apply Z.eqb_eq in E. subst. lia.
Qed.

Lemma Eff_ICanHandle : forall cf st th k f e c room st1 pushed, Inv st ->
  iok (items st) (gcs st) (seen st) th (ICanHandle k f e c) ->
  exec cf st (ICanHandle k f e c) room = (st1, pushed) -> Eff st th (ICanHandle k f e c) st1 pushed.
Proof.
  intros cf st th k f e c room st1 pushed HI Hi H. cbn [exec] in H.
  apply (iok_adm _ _ _ _ (ICanHandle k f e c) k f eq_refl) in Hi. destruct Hi as [Hth Hkf].
  destruct (c_state (get_conn st k) =? c_connectionActive).
  - inversion H. subst st1 pushed.
    apply Eff_noitems; [exact HI|reflexivity|reflexivity|reflexivity|reflexivity| | | | | | | ].
    + apply (inv_timers _ HI).
    + intro k0. apply pending_put_same. reflexivity.
    + constructor; [|constructor]. eapply iok_of_adm; [reflexivity|exact Hth|exact Hkf].
    + left. split; [reflexivity|eexists; reflexivity].
    + intro c0. cbn. lia.
    + intros k0 X Hp. cbn [put_conn set_conns conns items]. rewrite getc_insert.
      cbn [csum hold_i]. destruct (k0 =? k) eqn:E.
      * apply Z.eqb_eq in E. subst k0. cbn [c_pending]. rewrite get_conn_getc.
        rewrite Z.eqb_refl. cbn [b2z]. rewrite (wrapU_eq_add _ _ 1 Hp). f_equal. cbn. lia.
      * rewrite Hp. rewrite Z.eqb_sym, E. cbn. f_equal.
    + cbn. lia.
  - inversion H. subst st1 pushed.
    apply Eff_noitems; [exact HI|reflexivity|reflexivity|reflexivity|reflexivity| | | | | | | ].
    + apply (inv_timers _ HI).
    + intro; apply Z.le_refl.
    + forall_plain_iok.
    + right. repeat constructor.
    + intro c0. cbn. lia.
    + intros k0 X Hp. rewrite Hp. f_equal.
    + lia.
Qed.

Lemma Eff_IGetDest : forall cf st th k f e c room st1 pushed, Inv st ->
  iok (items st) (gcs st) (seen st) th (IGetDest k f e c) ->
  exec cf st (IGetDest k f e c) room = (st1, pushed) -> Eff st th (IGetDest k f e c) st1 pushed.
Proof.
  intros cf st th k f e c room st1 pushed HI Hi H. cbn [exec] in H.
  apply (iok_adm _ _ _ _ (IGetDest k f e c) k f eq_refl) in Hi. destruct Hi as [Hth Hkf].
  assert (Hrej : forall p, Forall plain p -> Forall (fun j => is_adm j = false) p ->
            (forall c0, csum (tok_i c0) p = b2z (c =? c0)) -> (forall k0, csum (hold_i k0) p = b2z (k =? k0)) ->
            Eff st th (IGetDest k f e c) st p).
  { intros p Hpl Hna Ht Hh. apply Eff_noitems; [exact HI|reflexivity|reflexivity|reflexivity|reflexivity| | | | | | | ].
    - apply (inv_timers _ HI).
    - intro; apply Z.le_refl.
    - eapply Forall_impl; [|exact Hpl]. intros j Hj. apply plain_iok. exact Hj.
    - right. exact Hna.
    - intro c0. rewrite Ht. cbn. lia.
    - intros k0 X Hp. rewrite Hp, Hh. reflexivity.
    - lia. }
  destruct (klookup (k, 0, f_id f) (items st)).
  - inversion H. subst st1 pushed. apply Hrej; [plain_tac|repeat constructor| |].
    + intro c0. cbn. lia.
    + intro k0. cbn. lia.
  - destruct (e_dest e =? -1).
    + inversion H. subst st1 pushed. apply Hrej; [plain_tac|repeat constructor| |]; intros; cbn; lia.
    + destruct (e_dest e <? 0).
      * inversion H. subst st1 pushed. apply Hrej; [plain_tac|repeat constructor| |]; intros; cbn; lia.
      * inversion H. subst st1 pushed. apply Eff_noitems; [exact HI|reflexivity|reflexivity|reflexivity|reflexivity| | | | | | | ].
        -- apply (inv_timers _ HI).
        -- intro; apply Z.le_refl.
        -- constructor; [|constructor]. eapply iok_of_adm; [reflexivity|exact Hth|exact Hkf].
        -- left. split; [reflexivity|eexists; reflexivity].
        -- intro c0. cbn. lia.
        -- intros k0 X Hp. rewrite Hp; f_equal; cbn; lia.
        -- lia.
Qed.

Lemma Eff_IRemoteCan : forall cf st th k f e c d room st1 pushed, Inv st ->
  iok (items st) (gcs st) (seen st) th (IRemoteCan k f e c d) ->
  exec cf st (IRemoteCan k f e c d) room = (st1, pushed) -> Eff st th (IRemoteCan k f e c d) st1 pushed.
Proof.
  intros cf st th k f e c d room st1 pushed HI Hi H. cbn [exec] in H.
  apply (iok_adm _ _ _ _ (IRemoteCan k f e c d) k f eq_refl) in Hi. destruct Hi as [Hth Hkf].
  destruct (c_state (get_conn st d) =? c_connectionActive).
  - inversion H. subst st1 pushed.
    apply Eff_noitems; [exact HI|reflexivity|reflexivity|reflexivity|reflexivity| | | | | | | ].
    + apply (inv_timers _ HI).
    + intro k0. apply pending_put_same. reflexivity.
    + constructor; [|constructor]. eapply iok_of_adm; [reflexivity|exact Hth|exact Hkf].
    + left. split; [reflexivity|eexists; reflexivity].
    + intro c0. cbn. lia.
    + intros k0 X Hp. cbn [put_conn set_conns conns items]. rewrite getc_insert.
      cbn [csum hold_i]. destruct (k0 =? d) eqn:E.
      * apply Z.eqb_eq in E. subst k0. cbn [c_pending]. rewrite get_conn_getc.
        rewrite (Z.eqb_refl d). cbn [b2z]. rewrite (wrapU_eq_add _ _ 1 Hp). f_equal. cbn [hold_i]. lia.
      * rewrite Hp. rewrite (Z.eqb_sym d k0), E. cbn [b2z hold_i]. f_equal. lia.
    + cbn. lia.
  - inversion H. subst st1 pushed.
    apply Eff_noitems; [exact HI|reflexivity|reflexivity|reflexivity|reflexivity| | | | | | | ].
    + apply (inv_timers _ HI).
    + intro; apply Z.le_refl.
    + forall_plain_iok.
    + right. repeat constructor.
    + intro c0. cbn. lia.
    + intros k0 X Hp. rewrite Hp; f_equal; cbn; lia.
    + lia.
Qed.

Lemma Eff_IDec : forall cf st th k room st1 pushed, Inv st ->
  exec cf st (IDec k) room = (st1, pushed) -> Eff st th (IDec k) st1 pushed.
Proof.
  intros cf st th k room st1 pushed HI H. cbn [exec] in H. inversion H. subst st1 pushed.
  apply Eff_noitems; [exact HI|reflexivity|reflexivity|reflexivity|reflexivity| | | | | | | ].
  - apply (inv_timers _ HI).
  - intro k0. apply pending_put_same. reflexivity.
  - constructor; [apply plain_iok; apply plain_simple; [reflexivity|intros ? ?; discriminate]|constructor].
  - right. constructor; [reflexivity|constructor].
  - intro c0. cbn. lia.
  - intros k0 X Hp. cbn [put_conn set_conns conns items]. rewrite getc_insert.
    cbn [csum hold_i]. destruct (k0 =? k) eqn:E.
    + apply Z.eqb_eq in E. subst k0. cbn [c_pending]. rewrite get_conn_getc.
      cbn [hold_i] in Hp. rewrite Z.eqb_refl in Hp. cbn [b2z] in Hp.
      replace (c_pending (getc (conns st) k) - 1) with (c_pending (getc (conns st) k) + (-1)) by lia.
      rewrite (wrapU_eq_add _ _ (-1) Hp). f_equal. lia.
    + cbn [hold_i] in Hp. rewrite Z.eqb_sym, E in Hp. exact Hp.
  - cbn. lia.
Qed.

(* checkExchanges by the goroutine that decremented: only the connection state changes *)
Lemma Eff_ICheck : forall cf st th k room st1 pushed, Inv st ->
  exec cf st (ICheck k) room = (st1, pushed) -> Eff st th (ICheck k) st1 pushed.
Proof.
  intros cf st th k room st1 pushed HI H. cbn [exec] in H.
  destruct (((c_state (get_conn st k) =? c_connectionStartClose) || (c_state (get_conn st k) =? c_connectionInboundClosed))
            && (c_pending (get_conn st k) =? 0)); inversion H; subst.
  - apply Eff_pure; try reflexivity; try exact HI; [apply (inv_timers _ HI)| |constructor].
    intro k'. cbn [put_conn set_conns conns]. rewrite getc_insert.
    destruct (k' =? k) eqn:E; [|split; reflexivity].
    apply Z.eqb_eq in E. subst. cbn. rewrite get_conn_getc. split; reflexivity.
  - apply Eff_pure; try reflexivity; try exact HI; [apply (inv_timers _ HI)|intro; apply conns_same; reflexivity|constructor].
Qed.

(* ---- instructions that change the item tables ---- *)

Lemma Eff_removed : forall st th i st' pushed t it, Inv st ->
  threads st' = threads st -> seen st' = seen st -> conns st' = conns st -> cblog st' = cblog st ->
  next_call st' = next_call st -> gcs st' = gcs st -> items st' = kremove t (items st) ->
  klookup t (items st) = Some it -> timers_ok (timers st') ->
  Forall plain pushed ->
  (forall c, csum (tok_i c) pushed = tok_i c i + b2z ((it_call it =? c) && it_orig it && negb (it_tomb it))) ->
  (forall k, csum (hold_i k) pushed = hold_i k i + b2z ((key_conn t =? k) && negb (it_tomb it))) ->
  Eff st th i st' pushed.
Proof.
  intros st th i st' pushed t it HI Hth Hsn Hcs Hlog Hnc Hg Hit Hl Htm Hpl Htok Hhold.
  pose proof (inv_items_nd _ HI) as Hnd.
  unfold Eff. rewrite Hth, Hsn, Hcs, Hlog, Hnc, Hg, Hit.
  split; [reflexivity|]. split; [reflexivity|].
  split; [apply (nodup_remove key_eqb key_eqb_ok); exact Hnd|].
  split; [apply keys_ok_remove; apply (inv_keys _ HI)|].
  split; [apply orig_ok_remove; apply (inv_orig _ HI)|].
  split; [apply gcs_ok_remove; apply (inv_gcs _ HI)|].
  split; [exact Htm|].
  split.
  { intros k f _ Hkf. eapply key_free_ext; [exact Hkf|apply incl_refl| |intro H; exact H].
    destruct Hkf as (_&Hn&_). rewrite Hn.
    apply (notin_lookup_none key_eqb key_eqb_ok). intro Hin.
    apply (in_keys_remove key_eqb key_eqb_ok) in Hin. destruct Hin as [Hin _].
    apply (lookup_none_notin key_eqb key_eqb_ok) in Hn. contradiction. }
  split. { eapply Forall_impl; [|exact Hpl]. intros j Hj. apply plain_iok. exact Hj. }
  split. { right. eapply Forall_impl; [|exact Hpl]. intros j [Hj _]. exact Hj. }
  split. { intro c. rewrite (asum_tok_remove c _ t it Hnd Hl), Htok. lia. }
  split; [|lia].
  intros k X Hp. rewrite Hp. f_equal. rewrite (asum_live_remove k _ t it Hnd Hl), Hhold. lia.
Qed.

Lemma Eff_entombed : forall st th i st' pushed t it, Inv st ->
  threads st' = threads st -> seen st' = seen st -> conns st' = conns st -> cblog st' = cblog st ->
  next_call st' = next_call st -> gcs st' = t :: gcs st -> items st' = kinsert t (entomb_item it) (items st) ->
  klookup t (items st) = Some it -> it_tomb it = false -> timers_ok (timers st') ->
  Forall plain pushed ->
  (forall c, csum (tok_i c) pushed = tok_i c i + b2z ((it_call it =? c) && it_orig it)) ->
  (forall k, csum (hold_i k) pushed = hold_i k i + b2z (key_conn t =? k)) ->
  Eff st th i st' pushed.
Proof.
  intros st th i st' pushed t it HI Hth Hsn Hcs Hlog Hnc Hg Hit Hl Htomb Htm Hpl Htok Hhold.
  pose proof (inv_items_nd _ HI) as Hnd.
  unfold Eff. rewrite Hth, Hsn, Hcs, Hlog, Hnc, Hg, Hit.
  split; [reflexivity|]. split; [reflexivity|].
  split; [apply (nodup_insert key_eqb key_eqb_ok); exact Hnd|].
  split; [apply keys_ok_entomb; [apply (inv_keys _ HI)|exact Hl]|].
  split; [apply orig_ok_entomb; [apply (inv_orig _ HI)|exact Hl]|].
  split; [apply gcs_ok_entomb; apply (inv_gcs _ HI)|].
  split; [exact Htm|].
  split.
  { intros k f _ Hkf. destruct Hkf as (Hs&Hn&Hng).
    assert (Hne : (k, 0, f_id f) <> t) by (intro Heq; subst t; congruence).
    repeat split; [exact Hs| |].
    - rewrite (lookup_insert_neq key_eqb key_eqb_ok) by exact Hne. exact Hn.
    - intros [Heq|Hin]; [apply Hne; symmetry; exact Heq|contradiction]. }
  split. { eapply Forall_impl; [|exact Hpl]. intros j Hj. apply plain_iok. exact Hj. }
  split. { right. eapply Forall_impl; [|exact Hpl]. intros j [Hj _]. exact Hj. }
  split. { intro c. rewrite (asum_tok_entomb c _ t it Hnd Hl Htomb), Htok. lia. }
  split; [|lia].
  intros k X Hp. rewrite Hp. f_equal. rewrite (asum_live_entomb k _ t it Hnd Hl Htomb), Hhold. lia.
Qed.

Lemma orig_tail_plain : forall k id c s, Forall plain (orig_tail k id c s).
Proof. intros k id c s. unfold orig_tail. destruct s; plain_tac. Qed.
Lemma orig_tail_tok : forall c0 k id c s, csum (tok_i c0) (orig_tail k id c s) = b2z (c =? c0).
Proof.
  intros c0 k id c s. unfold orig_tail. destruct s; [destruct (reason =? reason_source_slow)|]; cbn; lia.
Qed.
Lemma orig_tail_hold : forall k0 k id c s, csum (hold_i k0) (orig_tail k id c s) = 0.
Proof.
  intros k0 k id c s. unfold orig_tail. destruct s; [destruct (reason =? reason_source_slow)|]; reflexivity.
Qed.

Lemma Eff_IDelete : forall cf st th t lk room st1 pushed, Inv st ->
  exec cf st (IDelete t lk) room = (st1, pushed) -> Eff st th (IDelete t lk) st1 pushed.
Proof.
  intros cf st th t lk room st1 pushed HI H. cbn [exec] in H.
  destruct (items_delete_call_cases st t lk) as [Ec|[Ec _]]; rewrite Ec in H.
  2: { inversion H; subst st1 pushed. apply Eff_pure; try reflexivity; try exact HI;
       [apply (inv_timers _ HI)|intro; apply conns_same; reflexivity|constructor]. }
  destruct (items_delete st t) as [st' g] eqn:E.
  pose proof (items_delete_timers _ _ _ _ (inv_timers _ HI) E) as Htm.
  apply items_delete_spec in E. destruct E as (H1&H2&H3&H4&H5&H6&H7&H8).
  destruct (klookup t (items st)) as [it|] eqn:El.
  - destruct H8 as [Hg Hi]. subst g. destruct (it_tomb it) eqn:Et; cbn [negb] in H; inversion H; subst st1 pushed.
    + eapply (Eff_removed st th _ st' [] t it); try assumption; try constructor.
      * intro c. rewrite Et. rewrite andb_false_r. reflexivity.
      * intro k. rewrite Et. rewrite andb_false_r. reflexivity.
    + eapply (Eff_removed st th _ st' _ t it); try assumption.
      * plain_tac.
      * intro c. rewrite Et, andb_true_r, csum_app. destruct (it_orig it); cbn; rewrite ?andb_true_r, ?andb_false_r; cbn; lia.
      * intro k. rewrite Et, andb_true_r, csum_app. destruct (it_orig it); cbn; lia.
  - destruct H8 as [Hg Hi]. subst g. inversion H; subst st1 pushed.
    apply Eff_pure; try assumption.
    + intro k. apply conns_same. exact H1.
    + constructor.
    + intro c. rewrite H4. reflexivity.
    + reflexivity.
Qed.

Lemma Eff_IEntomb : forall cf st th t s room st1 pushed, Inv st ->
  iok (items st) (gcs st) (seen st) th (IEntomb t s) ->
  exec cf st (IEntomb t s) room = (st1, pushed) -> Eff st th (IEntomb t s) st1 pushed.
Proof.
  intros cf st th t s room st1 pushed HI Hi H. cbn [exec] in H.
  destruct (items_entomb cf st t) as [st' g] eqn:E.
  pose proof (items_entomb_timers _ _ _ _ _ (inv_timers _ HI) E) as Htm.
  apply items_entomb_spec in E. destruct E as (H1&H3&H4&H5&H6&H7&H8).
  assert (Hsame : gcs st' = gcs st -> items st' = items st -> Eff st th (IEntomb t s) st' []).
  { intros Hg Hit. apply Eff_pure; try assumption.
    - intro k. apply conns_same. exact H1.
    - constructor.
    - intro c. rewrite H4. reflexivity.
    - reflexivity. }
  destruct (klookup t (items st)) as [it|] eqn:El.
  - assert (Horig : match s with FromFail _ => it_orig it | FromTimeout o => o end = it_orig it).
    { destruct s as [r|o]; [reflexivity|]. unfold iok in Hi. cbn in Hi. subst o. symmetry.
      eapply (inv_orig _ HI). eapply (lookup_in key_eqb key_eqb_ok). exact El. }
    destruct H8 as [(Hg&Hit&Hgc)|[(Ht&Hg&Hit&Hgc)|(Ht&Hg&Hit&Hgc)]]; subst g.
    + (* too many tombstones: deleted *)
      destruct (it_tomb it) eqn:Et; cbn [negb] in H; inversion H; subst st1 pushed.
      * eapply (Eff_removed st th _ st' [] t it); try assumption; try constructor.
        -- intro c. rewrite Et, andb_false_r. reflexivity.
        -- intro k. rewrite Et, andb_false_r. reflexivity.
      * rewrite Horig. eapply (Eff_removed st th _ st' _ t it); try assumption.
        -- apply Forall_app. split; [destruct (it_orig it); [apply orig_tail_plain|constructor]|plain_tac].
        -- intro c. rewrite Et, andb_true_r, csum_app. destruct (it_orig it);
             [rewrite orig_tail_tok|]; cbn; rewrite ?andb_true_r, ?andb_false_r; cbn; lia.
        -- intro k. rewrite Et, andb_true_r, csum_app. destruct (it_orig it); [rewrite orig_tail_hold|]; cbn; lia.
    + inversion H; subst st1 pushed. apply Hsame; assumption.
    + inversion H; subst st1 pushed. cbn [entomb_item it_orig it_call]. rewrite Horig.
      eapply (Eff_entombed st th _ st' _ t it); try assumption.
      * apply Forall_app. split; [destruct (it_orig it); [apply orig_tail_plain|constructor]|plain_tac].
      * intro c. rewrite csum_app. destruct (it_orig it);
          [rewrite orig_tail_tok|]; cbn; rewrite ?andb_true_r, ?andb_false_r; cbn; lia.
      * intro k. rewrite csum_app. destruct (it_orig it); [rewrite orig_tail_hold|]; cbn; lia.
  - destruct H8 as (Hg&Hit&Hgc). subst g. inversion H; subst st1 pushed. apply Hsame; assumption.
Qed.

Lemma Eff_added : forall st th i st' pushed t it, Inv st ->
  threads st' = threads st -> seen st' = seen st -> cblog st' = cblog st ->
  next_call st' = next_call st -> gcs st' = gcs st -> items st' = kinsert t it (items st) ->
  (forall k, c_pending (getc (conns st') k) = c_pending (getc (conns st) k) /\
             c_nextid (getc (conns st) k) <= c_nextid (getc (conns st') k)) ->
  klookup t (items st) = None -> ~ In t (gcs st) -> it_tomb it = false -> it_orig it = (key_dir t =? 0) ->
  ((key_dir t = 0 /\ In (key_conn t, key_id t) (seen st)) \/
   (key_dir t = 1 /\ key_id t < c_nextid (getc (conns st') (key_conn t)))) ->
  (forall k f, th <> TR k -> (k, 0, f_id f) <> t) ->
  timers_ok (timers st') ->
  Forall (iok (items st') (gcs st') (seen st') th) pushed ->
  ((is_adm i = true /\ exists j, pushed = [j]) \/ Forall (fun j => is_adm j = false) pushed) ->
  (forall c, csum (tok_i c) pushed + b2z ((it_call it =? c) && it_orig it) = tok_i c i) ->
  (forall k, csum (hold_i k) pushed + b2z (key_conn t =? k) = hold_i k i) ->
  Eff st th i st' pushed.
Proof.
  intros st th i st' pushed t it HI Hth Hsn Hlog Hnc Hg Hit Hcs Hl Hng Htomb Horig Hkey Hother Htm Hiok Hadm Htok Hhold.
  pose proof (inv_items_nd _ HI) as Hnd.
  unfold Eff. split; [exact Hth|]. split; [exact Hsn|].
  rewrite Hsn, Hlog, Hnc, Hg, Hit.
  split; [apply (nodup_insert key_eqb key_eqb_ok); exact Hnd|].
  split.
  { intros t' Hin.
    assert (Hold : In t' (map fst (items st)) \/ In t' (gcs st) ->
                   key_dir t' = 0 /\ In (key_conn t', key_id t') (seen st) \/
                   key_dir t' = 1 /\ key_id t' < c_nextid (getc (conns st') (key_conn t'))).
    { intro Ho. destruct (inv_keys _ HI t' Ho) as [H0|[H1 H2]]; [left; exact H0|right].
      split; [exact H1|]. destruct (Hcs (key_conn t')) as [_ Hm]. lia. }
    destruct Hin as [Hin|Hin]; [|apply Hold; right; exact Hin].
    apply (in_keys_insert key_eqb key_eqb_ok) in Hin. destruct Hin as [->|Hin]; [exact Hkey|apply Hold; left; exact Hin]. }
  split; [apply orig_ok_add; [apply (inv_orig _ HI)|exact Horig]|].
  split; [apply gcs_ok_add; [apply (inv_gcs _ HI)|exact Hng]|].
  split; [exact Htm|].
  split.
  { intros k f Hne Hkf. eapply key_free_ext; [exact Hkf|apply incl_refl| |intro H; exact H].
    apply (lookup_insert_neq key_eqb key_eqb_ok). apply Hother. exact Hne. }
  split. { rewrite Hsn, Hg, Hit in Hiok. exact Hiok. }
  split; [exact Hadm|].
  split.
  { intro c. rewrite (asum_insert_none key_eqb) by exact Hl. specialize (Htok c).
    change (item_tok c t it) with (b2z ((it_call it =? c) && it_orig it && negb (it_tomb it))).
    rewrite Htomb. cbn [negb]. rewrite andb_true_r. lia. }
  split; [|lia].
  intros k X Hp. destruct (Hcs k) as [Hpe _]. rewrite Hpe, Hp. f_equal.
  rewrite (asum_insert_none key_eqb) by exact Hl. specialize (Hhold k).
  change (live_i k t it) with (b2z ((key_conn t =? k) && negb (it_tomb it))).
  rewrite Htomb. cbn [negb]. rewrite andb_true_r. lia.
Qed.

Lemma Eff_IAddDest : forall cf st th k f e c d room st1 pushed, Inv st ->
  iok (items st) (gcs st) (seen st) th (IAddDest k f e c d) ->
  exec cf st (IAddDest k f e c d) room = (st1, pushed) -> Eff st th (IAddDest k f e c d) st1 pushed.
Proof.
  intros cf st th k f e c d room st1 pushed HI Hi H. cbn [exec] in H.
  apply (iok_adm _ _ _ _ (IAddDest k f e c d) k f eq_refl) in Hi. destruct Hi as [Hth Hkf].
  unfold timer_new in H. cbn [fst snd] in H. inversion H. subst st1 pushed. clear H.
  set (did := c_nextid (get_conn st d)).
  set (t := (d, 1, did)).
  assert (Hfresh : ~ (In t (map fst (items st)) \/ In t (gcs st))).
  { intro Hin. destruct (inv_keys _ HI t Hin) as [[H0 _]|[_ H1]]; [cbn in H0; discriminate|].
    cbn in H1. unfold did in H1. rewrite get_conn_getc in H1. lia. }
  eapply (Eff_added st th _ _ _ t); try reflexivity; try exact HI.
  - intro k0. cbn [put_conn set_conns set_timers set_next_tm set_items conns]. rewrite getc_insert.
    destruct (k0 =? d) eqn:E; [|split; [reflexivity|lia]].
    apply Z.eqb_eq in E. subst k0. cbn. rewrite get_conn_getc. split; [reflexivity|]. fold did. unfold did. rewrite get_conn_getc. lia.
  - apply (notin_lookup_none key_eqb key_eqb_ok). intro Hin. apply Hfresh. left. exact Hin.
  - intro Hin. apply Hfresh. right. exact Hin.
  - right. split; [reflexivity|]. cbn [put_conn set_conns set_timers set_next_tm set_items conns key_conn key_id fst snd t].
    rewrite getc_insert, Z.eqb_refl. cbn. lia.
  - intros k0 f0 _ Heq. unfold t in Heq. inversion Heq.
  - cbn. apply timers_ok_insert; [apply (inv_timers _ HI)|reflexivity].
  - constructor; [|constructor]. eapply iok_of_adm; [reflexivity|exact Hth|].
    cbn [put_conn set_conns set_timers set_next_tm set_items conns items gcs seen].
    eapply key_free_ext; [exact Hkf|apply incl_refl| |intro Hx; exact Hx].
    apply (lookup_insert_neq key_eqb key_eqb_ok). intro Heq. inversion Heq.
  - left. split; [reflexivity|eexists; reflexivity].
  - intro c0. cbn. rewrite andb_false_r. cbn. lia.
  - intro k0. cbn [csum hold_i key_conn fst t]. lia.
Qed.

Lemma Eff_IAddOrig : forall cf st th k f e c d did room st1 pushed, Inv st ->
  iok (items st) (gcs st) (seen st) th (IAddOrig k f e c d did) ->
  exec cf st (IAddOrig k f e c d did) room = (st1, pushed) -> Eff st th (IAddOrig k f e c d did) st1 pushed.
Proof.
  intros cf st th k f e c d did room st1 pushed HI Hi H. cbn [exec] in H.
  apply (iok_adm _ _ _ _ (IAddOrig k f e c d did) k f eq_refl) in Hi. destruct Hi as [Hth Hkf].
  unfold timer_new in H. cbn [fst snd] in H. inversion H. subst st1 pushed. clear H.
  destruct Hkf as (Hs&Hn&Hng).
  eapply (Eff_added st th _ _ _ (k, 0, f_id f)); try reflexivity; try exact HI; try assumption.
  - intro k0. cbn. split; [reflexivity|lia].
  - left. split; [reflexivity|exact Hs].
  - intros k0 f0 Hne Heq. inversion Heq. subst. apply Hne. reflexivity.
  - cbn. apply timers_ok_insert; [apply (inv_timers _ HI)|reflexivity].
  - eapply Forall_impl; [intros ? Hpl_; apply plain_iok; exact Hpl_|].
    destruct (e_mode e <? 0); plain_tac.
  - right. destruct (e_mode e <? 0); repeat constructor.
  - intro c0. destruct (e_mode e <? 0); cbn; rewrite andb_true_r; lia.
  - intro k0. destruct (e_mode e <? 0); cbn; lia.
Qed.

(* ---------------------------------------------------------------- every instruction *)

Lemma exec_eff : forall cf st th i room st1 pushed, Inv st ->
  iok (items st) (gcs st) (seen st) th i ->
  exec cf st i room = (st1, pushed) -> Eff st th i st1 pushed.
Proof.
  intros cf st th i room st1 pushed HI Hi H. destruct i.
  - eapply Eff_IStart; eassumption.
  - eapply Eff_ICanHandle; eassumption.
  - eapply Eff_IGetDest; eassumption.
  - eapply Eff_IRemoteCan; eassumption.
  - eapply Eff_IAddDest; eassumption.
  - eapply Eff_IAddOrig; eassumption.
  - cbn [exec] in H. inversion H. subst. apply Eff_ICb. exact HI.
  - eapply Eff_IDec; eassumption.
  - eapply Eff_ICheck; eassumption.
  - eapply Eff_ISendErr; eassumption.
  - eapply Eff_IConnClose; eassumption.
  - eapply Eff_INcGet; eassumption.
  - eapply Eff_INcChk; eassumption.
  - eapply Eff_IRcvGet; eassumption.
  - eapply Eff_IRcvChk; eassumption.
  - eapply Eff_IRcvEnq; eassumption.
  - eapply Eff_IFailGet; eassumption.
  - eapply Eff_IEntomb; eassumption.
  - eapply Eff_IDelete; eassumption.
  - eapply Eff_ITimerRun; eassumption.
Qed.

(* ---------------------------------------------------------------- threads *)

Notation tlookup := (lookup tid_eqb).

Lemma set_thread_threads : forall st th code,
  threads (set_thread st th code) =
  match code with [] => remove tid_eqb th (threads st) | _ => insert tid_eqb th code (threads st) end.
Proof. intros st th code. destruct code; reflexivity. Qed.

Lemma set_thread_nodup : forall st th code, NoDup (map fst (threads st)) -> NoDup (map fst (threads (set_thread st th code))).
Proof.
  intros st th code H. rewrite set_thread_threads. destruct code.
  - apply (nodup_remove tid_eqb tid_eqb_ok). exact H.
  - apply (nodup_insert tid_eqb tid_eqb_ok). exact H.
Qed.

Lemma set_thread_in : forall st th code th' code', In (th', code') (threads (set_thread st th code)) ->
  (th' = th /\ code' = code) \/ (th' <> th /\ In (th', code') (threads st)).
Proof.
  intros st th code th' code' H. rewrite set_thread_threads in H. destruct code.
  - apply (in_remove tid_eqb tid_eqb_ok) in H. right. destruct H as [H Hn]. split; assumption.
  - apply (in_insert tid_eqb tid_eqb_ok) in H. destruct H as [[H1 H2]|[H Hn]]; [left; split; assumption|right; split; assumption].
Qed.

Lemma tsum_set_thread : forall f st th code, NoDup (map fst (threads st)) ->
  tsum f (threads (set_thread st th code)) =
  tsum f (threads st) - match tlookup th (threads st) with Some c => csum f c | None => 0 end + csum f code.
Proof.
  intros f st th code Hnd. rewrite set_thread_threads. unfold tsum.
  destruct (tlookup th (threads st)) as [c|] eqn:El.
  - destruct code.
    + rewrite (asum_remove_some tid_eqb tid_eqb_ok _ th c) by assumption. cbn. lia.
    + rewrite (asum_insert_some tid_eqb tid_eqb_ok _ th _ c) by assumption. lia.
  - destruct code.
    + rewrite (asum_remove_none tid_eqb) by assumption. cbn. lia.
    + rewrite (asum_insert_none tid_eqb) by assumption. lia.
Qed.

Lemma iok_nonadm_indep : forall its g sn its' g' sn' th j, is_adm j = false -> iok its g sn th j -> iok its' g' sn' th j.
Proof.
  intros its g sn its' g' sn' th j Ha H. unfold iok in *. unfold is_adm in Ha.
  destruct (adm_kf j); [discriminate|exact H].
Qed.

(* code of another thread stays well-formed when only "its own" key facts are preserved *)
Lemma code_ok_stable : forall its g sn its' g' sn' th code,
  code_ok its g sn th code ->
  (forall k f, th = TR k -> key_free its g sn k f -> key_free its' g' sn' k f) ->
  code_ok its' g' sn' th code.
Proof.
  intros its g sn its' g' sn' th code [Hf Ha] Hst. split; [|exact Ha].
  eapply Forall_impl; [|exact Hf]. intros j Hj. unfold iok in *.
  destruct (adm_kf j) as [[k f]|]; [|exact Hj].
  destruct Hj as [Hth Hkf]. split; [exact Hth|]. apply Hst; assumption.
Qed.

Lemma set_thread_fields : forall st th code,
  conns (set_thread st th code) = conns st /\ items (set_thread st th code) = items st /\
  gcs (set_thread st th code) = gcs st /\ cblog (set_thread st th code) = cblog st /\
  seen (set_thread st th code) = seen st /\ next_call (set_thread st th code) = next_call st /\
  timers (set_thread st th code) = timers st.
Proof. intros. repeat split; reflexivity. Qed.

(* ---------------------------------------------------------------- one step *)

Lemma step_LStep_inv : forall cf st th room st', Inv st -> step cf st (LStep th room) = Some st' -> Inv st'.
Proof.
  intros cf st th room st' HI H. unfold step in H.
  destruct (negb (panicked st =? 0)); [discriminate|].
  destruct (tlookup th (threads st)) as [[|i rest]|] eqn:El; try discriminate.
  destruct (exec cf st i room) as [st1 pushed] eqn:E. inversion H. subst st'. clear H.
  pose proof (lookup_in tid_eqb tid_eqb_ok _ _ _ El) as Hin.
  destruct (inv_code _ HI _ _ Hin) as [Hf Halone].
  assert (Hi : iok (items st) (gcs st) (seen st) th i) by (inversion Hf; assumption).
  assert (Hrest : Forall (iok (items st) (gcs st) (seen st) th) rest) by (inversion Hf; assumption).
  pose proof (exec_eff _ _ _ _ _ _ _ HI Hi E) as HE.
  destruct HE as (Hth&Hsn&Hnd&Hkeys&Horig&Hgcs&Htm&Hstab&Hpiok&Hadm&Htok&Hpend&Hnc).
  assert (Hnd1 : NoDup (map fst (threads st1))) by (rewrite Hth; apply (inv_threads_nd _ HI)).
  assert (El1 : tlookup th (threads st1) = Some (i :: rest)) by (rewrite Hth; exact El).
  constructor.
  - exact Hnd.
  - apply set_thread_nodup. exact Hnd1.
  - exact Hkeys.
  - exact Horig.
  - exact Hgcs.
  - exact Htm.
  - intros th' code' Hin'. apply set_thread_in in Hin'. cbn [set_thread set_threads items gcs seen].
    destruct Hin' as [[-> ->]|[Hne Hin']].
    + (* the stepping thread *)
      destruct (is_adm i) eqn:Eadm.
      * assert (Hr : rest = []).
        { specialize (Halone i (or_introl eq_refl) Eadm). inversion Halone. reflexivity. }
        subst rest. rewrite app_nil_r. split; [exact Hpiok|].
        destruct Hadm as [[_ [j ->]]|Hna].
        -- intros j' [<-|[]] _. reflexivity.
        -- intros j' Hj' Ha'. rewrite Forall_forall in Hna. rewrite (Hna j' Hj') in Ha'. discriminate.
      * assert (Hrna : Forall (fun j => is_adm j = false) rest).
        { apply Forall_forall. intros j Hj. destruct (is_adm j) eqn:Ej; [|reflexivity].
          specialize (Halone j (or_intror Hj) Ej). inversion Halone. subst. rewrite Eadm in Ej. discriminate. }
        destruct Hadm as [[Hc _]|Hna]; [discriminate|].
        split.
        -- apply Forall_app. split; [exact Hpiok|].
           rewrite Forall_forall in *. intros j Hj. eapply iok_nonadm_indep; [apply Hrna; exact Hj|apply Hrest; exact Hj].
        -- intros j Hj Ha. apply in_app_or in Hj. rewrite Forall_forall in Hna, Hrna.
           destruct Hj as [Hj|Hj]; [rewrite (Hna j Hj) in Ha|rewrite (Hrna j Hj) in Ha]; discriminate.
    + rewrite Hth in Hin'. eapply code_ok_stable; [apply (inv_code _ HI); exact Hin'|].
      intros k f Heq Hkf. apply Hstab; [|exact Hkf]. subst th'. intro Hc. apply Hne. symmetry. exact Hc.
  - intro c. unfold total. cbn [set_thread set_threads cblog items next_call].
    fold (threads (set_thread st1 th (pushed ++ rest))).
    rewrite (tsum_set_thread (tok_i c) st1 th (pushed ++ rest) Hnd1), El1, csum_app. cbn [csum].
    rewrite Hth. pose proof (inv_total _ HI c) as Ht. unfold total in Ht. specialize (Htok c). lia.
  - intro k. cbn [set_thread set_threads conns items].
    fold (threads (set_thread st1 th (pushed ++ rest))).
    rewrite (tsum_set_thread (hold_i k) st1 th (pushed ++ rest) Hnd1), El1, csum_app. cbn [csum]. rewrite Hth.
    pose proof (inv_pending _ HI k) as Hp.
    rewrite (Hpend k (tsum (hold_i k) (threads st) - hold_i k i)).
    + f_equal. lia.
    + rewrite Hp. f_equal. lia.
  - cbn [set_thread set_threads next_call]. pose proof (inv_next _ HI). lia.
Qed.

(* a new thread with plain code, or a state change that only concerns connection states *)
Lemma Inv_conns : forall st cs', Inv st ->
  (forall k, c_pending (getc cs' k) = c_pending (getc (conns st) k) /\ c_nextid (getc cs' k) = c_nextid (getc (conns st) k)) ->
  Inv (set_conns st cs').
Proof.
  intros st cs' HI Hcs. constructor; cbn [set_conns conns items gcs threads seen cblog timers next_call].
  - apply (inv_items_nd _ HI).
  - apply (inv_threads_nd _ HI).
  - eapply keys_ok_conns; [|apply (inv_keys _ HI)]. intro k. destruct (Hcs k) as [_ H]. lia.
  - apply (inv_orig _ HI).
  - apply (inv_gcs _ HI).
  - apply (inv_timers _ HI).
  - apply (inv_code _ HI).
  - intro c. apply (inv_total _ HI c).
  - intro k. destruct (Hcs k) as [H _]. rewrite H. apply (inv_pending _ HI k).
  - apply (inv_next _ HI).
Qed.

Lemma Inv_put_conn_state : forall st k s, Inv st ->
  Inv (put_conn st k {| c_state := s; c_pending := c_pending (get_conn st k); c_nextid := c_nextid (get_conn st k) |}).
Proof.
  intros st k s HI. unfold put_conn. apply Inv_conns; [exact HI|].
  intro k0. rewrite getc_insert. destruct (k0 =? k) eqn:E; [|split; reflexivity].
  apply Z.eqb_eq in E. subst. cbn. rewrite get_conn_getc. split; reflexivity.
Qed.

Lemma Inv_new_thread : forall st th code, Inv st ->
  tlookup th (threads st) = None -> code <> [] ->
  code_ok (items st) (gcs st) (seen st) th code ->
  (forall c, csum (tok_i c) code = 0) -> (forall k, csum (hold_i k) code = 0) ->
  Inv (set_thread st th code).
Proof.
  intros st th code HI Hl Hne Hok Htok Hhold.
  pose proof (inv_threads_nd _ HI) as Hnd.
  constructor; cbn [set_thread set_threads conns items gcs seen cblog timers next_call].
  - apply (inv_items_nd _ HI).
  - apply set_thread_nodup. exact Hnd.
  - apply (inv_keys _ HI).
  - apply (inv_orig _ HI).
  - apply (inv_gcs _ HI).
  - apply (inv_timers _ HI).
  - intros th' code' Hin. apply set_thread_in in Hin.
    destruct Hin as [[-> ->]|[_ Hin]]; [exact Hok|apply (inv_code _ HI); exact Hin].
  - intro c. unfold total. cbn [set_thread set_threads cblog items].
    fold (threads (set_thread st th code)). rewrite (tsum_set_thread _ _ _ _ Hnd), Hl, Htok.
    pose proof (inv_total _ HI c) as Ht. unfold total in Ht. lia.
  - intro k. fold (threads (set_thread st th code)). rewrite (tsum_set_thread _ _ _ _ Hnd), Hl, Hhold.
    rewrite (inv_pending _ HI k). f_equal. lia.
  - apply (inv_next _ HI).
Qed.

Lemma Inv_set_timers : forall st x, Inv st -> timers_ok x -> Inv (set_timers st x).
Proof.
  intros st x HI Hx. constructor; cbn [set_timers conns items gcs threads seen cblog timers next_call];
    try apply HI. exact Hx.
Qed.

Lemma Inv_set_seen : forall st p, Inv st -> Inv (set_seen st (p :: seen st)).
Proof.
  intros st p HI. constructor; cbn [set_seen conns items gcs threads seen cblog timers next_call]; try apply HI.
  - intros t Hin. destruct (inv_keys _ HI t Hin) as [[H0 H1]|H]; [left; split; [exact H0|right; exact H1]|right; exact H].
  - intros th code Hin. eapply code_ok_stable; [apply (inv_code _ HI); exact Hin|].
    intros k f _ Hkf. eapply key_free_ext; [exact Hkf|apply incl_tl; apply incl_refl|reflexivity|intro H; exact H].
Qed.

Lemma step_inv : forall cf st l st', Inv st -> fresh_label st l = true -> step cf st l = Some st' -> Inv st'.
Proof.
  intros cf st l st' HI Hfresh H. destruct l as [k f e|th room|tm|t|k|k|k].
  - (* LArrive *)
    unfold step in H. destruct (negb (panicked st =? 0)); [discriminate|].
    destruct (tlookup (TR k) (threads st)) eqn:El; [discriminate|].
    destruct (relayRoute (f_mt f) (cf_cancel cf) =? 1); [|inversion H; subst; exact HI].
    destruct (f_mt f =? c_messageTypeCallReq) eqn:Emt.
    + inversion H. subst st'. clear H.
      cbn [fresh_label] in Hfresh. rewrite Emt in Hfresh. cbn [andb] in Hfresh.
      apply negb_true_iff in Hfresh.
      assert (Hnotseen : ~ In (k, f_id f) (seen st)).
      { intro Hin. assert (Hex : existsb (fun p => (fst p =? k) && (snd p =? f_id f)) (seen st) = true).
        { apply existsb_exists. exists (k, f_id f). split; [exact Hin|]. cbn. rewrite !Z.eqb_refl. reflexivity. }
        congruence. }
      pose proof (Inv_set_seen st (k, f_id f) HI) as HI2.
      apply Inv_new_thread; [exact HI2|exact El|discriminate| |reflexivity|reflexivity].
      cbn [set_seen items gcs seen]. split.
      * constructor; [|constructor]. eapply iok_of_adm; [reflexivity|reflexivity|].
        assert (Hno : ~ (In (k, 0, f_id f) (map fst (items st)) \/ In (k, 0, f_id f) (gcs st))).
        { intro Hin. destruct (inv_keys _ HI _ Hin) as [[_ H1]|[H1 _]]; [cbn in H1; contradiction|cbn in H1; discriminate]. }
        repeat split.
        -- left. reflexivity.
        -- apply (notin_lookup_none key_eqb key_eqb_ok). intro Hin. apply Hno. left. exact Hin.
        -- intro Hin. apply Hno. right. exact Hin.
      * intros i [<-|[]] _. reflexivity.
    + inversion H. subst st'. clear H.
      apply Inv_new_thread; [exact HI|exact El|discriminate| |reflexivity|reflexivity].
      split; [|intros i [<-|[]] Ha; discriminate].
      constructor; [|constructor]. apply plain_iok. apply plain_simple; [reflexivity|intros ? ?; discriminate].
  - eapply step_LStep_inv; eassumption.
  - (* LFire *)
    unfold step in H. destruct (negb (panicked st =? 0)); [discriminate|].
    destruct (lookup Z.eqb tm (timers st)) as [x|] eqn:El; [|discriminate].
    destruct (tlookup (TT tm) (threads st)) eqn:Et; [rewrite andb_false_r in H; discriminate|].
    destruct (tm_armed x); [|discriminate]. cbn [andb] in H. inversion H. subst st'. clear H.
    apply Inv_new_thread.
    + apply Inv_set_timers; [exact HI|]. apply timers_ok_insert; [apply (inv_timers _ HI)|]. cbn.
      eapply (inv_timers _ HI). exact El.
    + exact Et.
    + discriminate.
    + split; [|intros i [<-|[]] Ha; discriminate].
      constructor; [|constructor]. apply plain_iok. apply plain_simple; [reflexivity|intros ? ?; discriminate].
    + reflexivity.
    + reflexivity.
  - (* LGc *)
    unfold step in H. destruct (negb (panicked st =? 0)); [discriminate|].
    destruct (mem_key t (gcs st)) eqn:Em; [|discriminate]. inversion H. subst st'. clear H.
    assert (Hint : In t (gcs st)).
    { unfold mem_key in Em. apply existsb_exists in Em. destruct Em as [x [Hx Heq]]. apply key_eqb_ok in Heq. subst. exact Hx. }
    assert (Hsub : forall x, In x (remove_one t (gcs st)) -> In x (gcs st)).
    { intro x. generalize (gcs st). intro l. induction l as [|y r IH]; cbn; [tauto|].
      destruct (key_eqb t y); [intro Hx; right; exact Hx|]. intros [Hx|Hx]; [left; exact Hx|right; apply IH; exact Hx]. }
    rewrite items_delete_tomb_eq by (cbn [set_gcs items]; intros it0 Hl0; eapply (inv_gcs _ HI); eassumption).
    destruct (items_delete (set_gcs st (remove_one t (gcs st))) t) as [st' g] eqn:E. cbn [fst].
    pose proof (items_delete_timers (set_gcs st (remove_one t (gcs st))) _ _ _ (inv_timers _ HI) E) as Htm.
    apply items_delete_spec in E. cbn [set_gcs conns gcs threads cblog sent seen next_call items] in E.
    destruct E as (H1&H2&H3&H4&H5&H6&H7&H8).
    pose proof (inv_items_nd _ HI) as Hnd.
    assert (Hkf : forall its', (forall x, klookup x (items st) = None -> klookup x its' = None) ->
              forall th code, In (th, code) (threads st) -> code_ok its' (remove_one t (gcs st)) (seen st) th code).
    { intros its' Hl th code Hin. eapply code_ok_stable; [apply (inv_code _ HI); exact Hin|].
      intros k f _ (Ha&Hb&Hc). repeat split; [exact Ha|apply Hl; exact Hb|]. intro Hx. apply Hc. apply Hsub. exact Hx. }
    destruct (klookup t (items st)) as [it|] eqn:El.
    + destruct H8 as [_ Hit].
      assert (Htomb : it_tomb it = true) by (eapply (inv_gcs _ HI); eassumption).
      constructor; rewrite ?H1, ?H2, ?H3, ?H4, ?H6, ?H7, ?Hit.
      * apply (nodup_remove key_eqb key_eqb_ok). exact Hnd.
      * apply (inv_threads_nd _ HI).
      * intros x Hin. apply (inv_keys _ HI). destruct Hin as [Hin|Hin].
        -- left. apply (in_keys_remove key_eqb key_eqb_ok) in Hin. destruct Hin as [Hin _]. exact Hin.
        -- right. apply Hsub. exact Hin.
      * apply orig_ok_remove. apply (inv_orig _ HI).
      * intros x it' Hin Hl. eapply (gcs_ok_remove _ _ (inv_gcs _ HI)); [apply Hsub; exact Hin|exact Hl].
      * exact Htm.
      * apply Hkf. intros x Hx. destruct (eqb_dec key_eqb key_eqb_ok x t) as [->|Hn].
        -- apply (lookup_remove_eq key_eqb key_eqb_ok).
        -- rewrite (lookup_remove_neq key_eqb key_eqb_ok) by exact Hn. exact Hx.
      * intro c. unfold total. rewrite ?H4, ?H3, ?Hit. rewrite (asum_tok_remove c _ t it Hnd El), Htomb, andb_false_r.
        pose proof (inv_total _ HI c) as Ht. unfold total in Ht. cbn [b2z]. lia.
      * intro k. rewrite ?H3, ?Hit. rewrite (asum_live_remove k _ t it Hnd El), Htomb, andb_false_r.
        rewrite (inv_pending _ HI k). cbn [b2z]. f_equal. lia.
      * apply (inv_next _ HI).
    + destruct H8 as [_ Hit].
      constructor; rewrite ?H1, ?H2, ?H3, ?H4, ?H6, ?H7, ?Hit.
      * exact Hnd.
      * apply (inv_threads_nd _ HI).
      * intros x Hin. apply (inv_keys _ HI). destruct Hin as [Hin|Hin]; [left; exact Hin|right; apply Hsub; exact Hin].
      * apply (inv_orig _ HI).
      * intros x it' Hin Hl. eapply (inv_gcs _ HI); [apply Hsub; exact Hin|exact Hl].
      * exact Htm.
      * apply Hkf. intros x Hx. exact Hx.
      * intro c. unfold total. rewrite ?H4, ?H3, ?Hit. apply (inv_total _ HI c).
      * intro k. rewrite ?H3, ?Hit. apply (inv_pending _ HI k).
      * apply (inv_next _ HI).
  - (* LClose *)
    unfold step in H. destruct (negb (panicked st =? 0)); [discriminate|].
    destruct (c_state (get_conn st k) =? c_connectionActive); [|discriminate]. inversion H. subst.
    apply Inv_put_conn_state. exact HI.
  - unfold step in H. destruct (negb (panicked st =? 0)); [discriminate|]. inversion H. subst.
    apply Inv_put_conn_state. exact HI.
  - unfold step in H. destruct (negb (panicked st =? 0)); [discriminate|].
    match type of H with (if ?b then _ else _) = _ => destruct b end; [|discriminate]. inversion H. subst.
    apply Inv_put_conn_state. exact HI.
Qed.

Lemma Inv_init : Inv init.
Proof.
  constructor; cbn.
  - constructor.
  - constructor.
  - intros t [[]|[]].
  - intros t it [].
  - intros t it [].
  - intros tm x H. discriminate.
  - intros th code [].
  - intro c. unfold total, started. cbn. destruct (1 <=? c) eqn:E1, (c <? 1) eqn:E2; cbn; try reflexivity.
    apply Z.leb_le in E1. apply Z.ltb_lt in E2. lia.
  - intro k. reflexivity.
  - lia.
Qed.

Theorem run_fresh_inv : forall cf ls st st', Inv st -> run_fresh cf st ls = Some st' -> Inv st'.
Proof.
  intros cf ls. induction ls as [|l r IH]; intros st st' HI H; cbn in H.
  - inversion H. subst. exact HI.
  - destruct (fresh_label st l) eqn:Ef; [|discriminate].
    destruct (step cf st l) as [st1|] eqn:Es; [|discriminate].
    eapply IH; [eapply step_inv; eassumption|exact H].
Qed.

Corollary reach_inv : forall cf ls st, run_fresh cf init ls = Some st -> Inv st.
Proof. intros cf ls st H. eapply run_fresh_inv; [apply Inv_init|exact H]. Qed.

(* ---------------------------------------------------------------- items after one instruction
   (moved here from RelayCalmP: also used by the looked-up identity invariant of RelayTimerP) *)

Lemma exec_items_fields : forall cf st i room st1 pushed t it, exec cf st i room = (st1, pushed) ->
  In (t, it) (items st1) ->
  (exists it0, In (t, it0) (items st) /\ it_call it = it_call it0 /\ it_dest it = it_dest it0 /\ it_remap it = it_remap it0 /\
               it_orig it = it_orig it0 /\ it_tm it = it_tm it0 /\ (it_tomb it0 = true -> it_tomb it = true)) \/
  (exists k f e c d, i = IAddDest k f e c d /\ t = (d, 1, c_nextid (get_conn st d)) /\
      it_call it = c /\ it_dest it = k /\ it_remap it = f_id f /\ it_orig it = false /\ it_tomb it = false /\ it_tm it = next_tm st) \/
  (exists k f e c d did, i = IAddOrig k f e c d did /\ t = (k, 0, f_id f) /\
      it_call it = c /\ it_dest it = d /\ it_remap it = did /\ it_orig it = true /\ it_tomb it = false /\ it_tm it = next_tm st).
Proof.
  intros cf st i room st1 pushed t it H Hin.
  assert (Hself : In (t, it) (items st) -> exists it0, In (t, it0) (items st) /\ it_call it = it_call it0 /\ it_dest it = it_dest it0 /\
             it_remap it = it_remap it0 /\ it_orig it = it_orig it0 /\ it_tm it = it_tm it0 /\ (it_tomb it0 = true -> it_tomb it = true)).
  { intro Hi. exists it. repeat split; try assumption. tauto. }
  assert (Hsame : items st1 = items st -> exists it0, In (t, it0) (items st) /\ it_call it = it_call it0 /\ it_dest it = it_dest it0 /\
             it_remap it = it_remap it0 /\ it_orig it = it_orig it0 /\ it_tm it = it_tm it0 /\ (it_tomb it0 = true -> it_tomb it = true)).
  { intro He. rewrite He in Hin. apply Hself. exact Hin. }
  destruct i; cbn [exec] in H.
  - left. apply Hsame. destruct (e_start e =? 0); [inversion H; reflexivity|].
    destruct ((e_start e =? 1) || (e_start e =? 3)); inversion H; reflexivity.
  - left. apply Hsame. destruct (c_state (get_conn st k) =? c_connectionActive); inversion H; reflexivity.
  - left. apply Hsame. destruct (klookup (k, 0, f_id f) (items st)); [inversion H; reflexivity|].
    destruct (e_dest e =? -1); [inversion H; reflexivity|]. destruct (e_dest e <? 0); inversion H; reflexivity.
  - left. apply Hsame. destruct (c_state (get_conn st d) =? c_connectionActive); inversion H; reflexivity.
  - unfold timer_new in H. cbn [fst snd] in H. inversion H. subst st1 pushed. cbn [set_items items set_next_tm set_timers put_conn set_conns] in Hin.
    apply (in_insert key_eqb key_eqb_ok) in Hin. destruct Hin as [[-> ->]|[Hin _]].
    + right. left. exists k, f, e, c, d. repeat split.
    + left. apply Hself. exact Hin.
  - unfold timer_new in H. cbn [fst snd] in H. inversion H. subst st1 pushed. cbn [set_items items set_next_tm set_timers] in Hin.
    apply (in_insert key_eqb key_eqb_ok) in Hin. destruct Hin as [[-> ->]|[Hin _]].
    + right. right. exists k, f, e, c, d, did. repeat split.
    + left. apply Hself. exact Hin.
  - left. apply Hsame. inversion H. reflexivity.
  - left. apply Hsame. inversion H. reflexivity.
  - left. apply Hsame. match type of H with (if ?b then _ else _) = _ => destruct b end; inversion H; reflexivity.
  - left. apply Hsame. destruct ((c_state (get_conn st k) =? c_connectionClosed) || negb room); inversion H; reflexivity.
  - left. apply Hsame. destruct (c_state (get_conn st k) =? c_connectionActive); inversion H; reflexivity.
  - left. apply Hsame. destruct (frameTypeFor (f_mt f)); [|inversion H; reflexivity].
    match type of H with context [items_get ?a ?b ?cc] => destruct (items_get a b cc) as [st' g] eqn:E end.
    inversion H; subst. apply items_get_spec in E. destruct E as [(_&A&_) _]. exact A.
  - left. apply Hsame. destruct g as [[it0 stopped]|]; [|inversion H; reflexivity].
    destruct (it_tomb it0 || (fin_of f && negb stopped)); inversion H; reflexivity.
  - left. apply Hsame. match type of H with context [items_get ?a ?b ?cc] => destruct (items_get a b cc) as [st' g] eqn:E end.
    inversion H; subst. apply items_get_spec in E. destruct E as [(_&A&_) _]. exact A.
  - left. apply Hsame. destruct g as [[it0 stopped]|]; [|inversion H; reflexivity].
    destruct (it_tomb it0 || (fin_of (r_f r) && negb stopped)); inversion H; reflexivity.
  - left. apply Hsame. destruct room; inversion H; reflexivity.
  - left. apply Hsame. destruct (items_get st t0 true) as [st' g] eqn:E. apply items_get_spec in E. destruct E as [(_&A&_) _].
    destruct g as [[it0 [|]]|]; inversion H; subst; exact A.
  - left. destruct (items_entomb cf st t0) as [st' g] eqn:E. apply items_entomb_spec in E. destruct E as (_&_&_&_&_&_&E).
    assert (Hst : items st1 = items st').
    { destruct g as [[it0 [|]]|]; inversion H; reflexivity. }
    rewrite Hst in Hin. destruct (klookup t0 (items st)) as [it0|] eqn:El.
    + destruct E as [(_&Hi&_)|[(_&_&Hi&_)|(_&_&Hi&_)]]; rewrite Hi in Hin.
      * apply (in_remove key_eqb key_eqb_ok) in Hin. destruct Hin as [Hin _]. apply Hself. exact Hin.
      * apply Hself. exact Hin.
      * apply (in_insert key_eqb key_eqb_ok) in Hin. destruct Hin as [[-> ->]|[Hin _]].
        -- exists it0. split; [eapply (lookup_in key_eqb key_eqb_ok); exact El|]. repeat split.
        -- apply Hself. exact Hin.
    + destruct E as (_&Hi&_). rewrite Hi in Hin. apply Hself. exact Hin.
  - left. destruct (items_delete_call_cases st t0 lk) as [Ec|[Ec _]]; rewrite Ec in H; [|inversion H; subst; apply Hself; exact Hin].
    destruct (items_delete st t0) as [st' g] eqn:E. apply items_delete_spec in E. destruct E as (_&_&_&_&_&_&_&E).
    assert (Hst : items st1 = items st').
    { destruct g as [[it0 [|]]|]; inversion H; reflexivity. }
    rewrite Hst in Hin. destruct (klookup t0 (items st)) as [it0|].
    + destruct E as [_ Hi]. rewrite Hi in Hin. apply (in_remove key_eqb key_eqb_ok) in Hin. destruct Hin as [Hin _].
      apply Hself. exact Hin.
    + destruct E as [_ Hi]. rewrite Hi in Hin. apply Hself. exact Hin.
  - left. apply Hsame. destruct (lookup Z.eqb tm (timers st)) as [x|]; [|inversion H; reflexivity].
    destruct (tm_released x); inversion H; reflexivity.
Qed.
