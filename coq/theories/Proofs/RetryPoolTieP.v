(* The life cycle of the pooled RequestState in retry.go is the one Model/RetryRuns.v assumes:
   the tables go2v regenerates on every run (Gen/GenReqStatePool.v: every mention of
   requestStatePool, every occurrence of a variable holding an element of the pool, the fields of
   struct RequestState and what getRequestState leaves in each of them) are the model's copies,
   every field of the struct is written between Get and the getter's return, and the discipline
   the tables describe is [private_cfg]: the only Put is the deferred one of RunWithRetry,
   Attempt and SelectedPeers are reset to zero.  An edit that drops the `defer`, moves or adds a
   Put, lets the pool or an element escape, resets field by field and forgets one, or adds a
   field that the getter does not reset breaks this proof. *)
From Coq Require Import ZArith List Bool.
From Verif Require Import Base.Wrap Gen.GenReqStatePool Model.RetryRuns.
Import ListNotations.
Local Open Scope Z_scope.

Theorem tables_tie :
  rsp_sites = rsp_sites_model /\ rsp_uses = rsp_uses_model /\
  map fst rsp_reset = rsp_fields /\ reset_complete rsp_fields rsp_reset = true /\
  cfg_of_tables rsp_sites rsp_uses rsp_reset = private_cfg.
Proof. vm_compute. repeat split. Qed.

