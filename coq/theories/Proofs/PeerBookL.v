(* Library lemmas for the proofs about Model/PeerBook.v: pointwise updates, swap_remove,
   child-list entries, bounded thread search. *)
From Coq Require Import ZArith List Bool Lia Permutation.
From Verif Require Import Base.Wrap Gen.GenConsts Model.PeerBook Spec.PeerBookSpec.
Import ListNotations.
Local Open Scope Z_scope.

Lemma upd_same {A} (f : Z -> A) x v : upd f x v x = v.
Proof. unfold upd. now rewrite Z.eqb_refl. Qed.

Lemma upd_other {A} (f : Z -> A) x v y : y <> x -> upd f x v y = f y.
Proof. intros H. unfold upd. destruct (Z.eqb_spec y x); [contradiction|reflexivity]. Qed.

Lemma upd_cases {A} (f : Z -> A) x v y :
  (y = x /\ upd f x v y = v) \/ (y <> x /\ upd f x v y = f y).
Proof.
  destruct (Z.eq_dec y x) as [->|H]; [left|right]; split; auto using upd_same, upd_other.
Qed.

(* ---- swap_remove ---- *)
Lemma last_removelast_perm (r : list Z) d : r <> [] -> Permutation r (last r d :: removelast r).
Proof.
  intros H. rewrite (app_removelast_last d H) at 1.
  apply Permutation_sym, Permutation_cons_append.
Qed.

Lemma swap_remove_some c l l' : swap_remove c l = Some l' -> Permutation l (c :: l').
Proof.
  revert l'. induction l as [|x r IH]; intros l' H; cbn [swap_remove] in H; [discriminate|].
  destruct (Z.eqb_spec x c) as [->|Hne].
  - inversion H; subst l'; clear H. apply perm_skip.
    destruct r as [|y r']; [constructor|]. apply last_removelast_perm. discriminate.
  - destruct (swap_remove c r) as [l0|] eqn:E; cbn [option_map] in H; [|discriminate].
    inversion H; subst l'; clear H.
    eapply perm_trans; [apply perm_skip, IH; reflexivity|]. apply perm_swap.
Qed.

Lemma swap_remove_none c l : swap_remove c l = None -> ~ In c l.
Proof.
  induction l as [|x r IH]; intros H; cbn [swap_remove] in H; [intros []|].
  destruct (Z.eqb_spec x c) as [->|Hne]; [discriminate|].
  destruct (swap_remove c r) eqn:E; cbn [option_map] in H; [discriminate|].
  intros [Hx|Hin]; [congruence|]. now apply IH.
Qed.

Lemma swap_remove_in c l l' x : swap_remove c l = Some l' -> In x l' -> In x l.
Proof.
  intros H Hin. apply swap_remove_some in H.
  eapply Permutation_in; [apply Permutation_sym; exact H|]. now right.
Qed.

Lemma swap_remove_in_inv c l l' x : swap_remove c l = Some l' -> In x l -> x = c \/ In x l'.
Proof.
  intros H Hin. apply swap_remove_some in H.
  eapply Permutation_in in Hin; [|exact H]. destruct Hin as [E|E]; auto.
Qed.

Lemma swap_remove_is_in c l l' : swap_remove c l = Some l' -> In c l.
Proof.
  intros H. apply swap_remove_some in H.
  eapply Permutation_in; [apply Permutation_sym; exact H|]. now left.
Qed.

(* counting occurrences with a boolean filter *)
Definition cnt (c : Z) (l : list Z) : nat := length (filter (Z.eqb c) l).

Lemma cnt_app c a b : cnt c (a ++ b) = (cnt c a + cnt c b)%nat.
Proof. unfold cnt. now rewrite filter_app, app_length. Qed.

Lemma cnt_perm c a b : Permutation a b -> cnt c a = cnt c b.
Proof.
  intros H. unfold cnt. induction H; cbn [filter]; auto.
  - destruct (c =? x); cbn [length]; congruence.
  - destruct (c =? y), (c =? x); cbn [length]; congruence.
  - congruence.
Qed.

Lemma cnt_cons c x l : cnt c (x :: l) = ((if Z.eqb c x then 1 else 0) + cnt c l)%nat.
Proof. unfold cnt. cbn [filter]. destruct (c =? x); reflexivity. Qed.

Lemma swap_remove_cnt c l l' d :
  swap_remove c l = Some l' -> cnt d l = ((if Z.eqb d c then 1 else 0) + cnt d l')%nat.
Proof.
  intros H. apply swap_remove_some in H. rewrite (cnt_perm d _ _ H). apply cnt_cons.
Qed.

Lemma cnt_zero_notin c l : ~ In c l -> cnt c l = O.
Proof.
  induction l as [|x r IH]; intros H; [reflexivity|].
  rewrite cnt_cons. destruct (Z.eqb_spec c x) as [->|Hne].
  - exfalso. apply H. now left.
  - rewrite IH; [reflexivity|]. intros Hin. apply H. now right.
Qed.

Lemma cnt_in_pos c l : In c l -> (1 <= cnt c l)%nat.
Proof.
  induction l as [|x r IH]; intros H; [destruct H|].
  rewrite cnt_cons. destruct H as [->|H].
  - rewrite Z.eqb_refl. lia.
  - specialize (IH H). lia.
Qed.

Lemma nodup_cnt l : NoDup l <-> (forall c, (cnt c l <= 1)%nat).
Proof.
  induction l as [|x r IH]; split.
  - intros _ c. cbn. lia.
  - constructor.
  - intros H c. inversion H as [|? ? Hx Hr]; subst. rewrite cnt_cons.
    destruct (Z.eqb_spec c x) as [->|Hne].
    + rewrite (cnt_zero_notin _ _ Hx). lia.
    + pose proof (proj1 IH Hr c). lia.
  - intros H. constructor.
    + intros Hin. apply cnt_in_pos in Hin. specialize (H x). rewrite cnt_cons, Z.eqb_refl in H. lia.
    + apply IH. intros c. specialize (H c). rewrite cnt_cons in H. lia.
Qed.

(* ---- child-list entries ---- *)
Definition ent_pid (pid : Z) (e : Z * Z * Z) : bool := snd e =? pid.

Lemma list_find_in l lid hp pid : list_find l lid hp = Some pid -> In (lid, hp, pid) l.
Proof.
  induction l as [|[[a b] q] r IH]; cbn [list_find]; intros H; [discriminate|].
  destruct ((a =? lid) && (b =? hp)) eqn:E.
  - apply andb_true_iff in E as [E1 E2]. apply Z.eqb_eq in E1, E2. inversion H; subst. now left.
  - right. now apply IH.
Qed.

Lemma list_del_in l lid hp e : In e (list_del l lid hp) -> In e l.
Proof.
  induction l as [|[[a b] q] r IH]; cbn [list_del]; intros H; [destruct H|].
  destruct ((a =? lid) && (b =? hp)); [now right|].
  destruct H as [H|H]; [now left|right; now apply IH].
Qed.

Lemma list_del_count l lid hp pid q :
  list_find l lid hp = Some pid ->
  length (filter (ent_pid q) l) =
  ((if Z.eqb q pid then 1 else 0) + length (filter (ent_pid q) (list_del l lid hp)))%nat.
Proof.
  induction l as [|[[a b] p0] r IH]; cbn [list_find list_del]; intros H; [discriminate|].
  destruct ((a =? lid) && (b =? hp)) eqn:E.
  - inversion H; subst p0. cbn [filter]. unfold ent_pid at 1. cbn [snd].
    rewrite (Z.eqb_sym pid q). destruct (q =? pid); reflexivity.
  - cbn [filter]. specialize (IH H).
    replace (ent_pid q (a, b, p0)) with (p0 =? q) by reflexivity.
    destruct (p0 =? q); cbn [length]; lia.
Qed.

(* ---- bounded thread search ---- *)
Lemma any_thread_false f thr n :
  any_thread f thr n = false -> forall t, 0 <= t < Z.of_nat n -> f (thr t) = false.
Proof.
  induction n as [|n IH]; intros H t Ht; [lia|].
  cbn [any_thread] in H. apply orb_false_iff in H as [H1 H2].
  destruct (Z.eq_dec t (Z.of_nat n)) as [->|Hne]; [exact H1|].
  apply IH; [exact H2|lia].
Qed.

(* act_todo has no duplicates; cb_todo covers it for well-formed connections *)
Lemma act_todo_nodup k : NoDup (act_todo k).
Proof.
  unfold act_todo. destruct ((k_dir k =? c_outbound) && negb (k_ohp k =? k_rhp k)) eqn:E.
  - apply andb_true_iff in E as [_ E]. apply negb_true_iff, Z.eqb_neq in E.
    constructor; [intros [H|[]]; congruence|constructor; [intros []|constructor]].
  - constructor; [intros []|constructor].
Qed.

Lemma nodup_app_r {A} (a b : list A) : NoDup (a ++ b) -> NoDup b.
Proof. induction a as [|x a IH]; cbn [app]; intros H; [assumption|]. inversion H; subst. auto. Qed.
