(* C18: the relay's lazy frame parsers REGENERATED from relay_messages.go on every run
   (Gen/GenC18Lazy.v: newLazyCallReq, newLazyCallRes, Arg2Iterator, arg2, arg3, the frame
   helpers; go2v/c18lazy.go) agree with the hand models (Model/RelayLazy.v lazy_callreq,
   Model/C18LazyFrame.v lazy_callres), and therefore have the safety properties proved for
   the models in Proofs/C18LazyP.v: a frame is accepted only when every read succeeded, and
   what an accepted frame offers lies inside its sized payload.
   Built on the typed-buffer agreement (Proofs/GenTypedBufP.v, Proofs/GenMessagesP.v). *)
From Coq Require Import ZArith List Bool Lia.
From Verif Require Import Base.Wrap Base.Bytes Base.GoSem Gen.GenConsts Gen.GenFrame Gen.GenRelayFwd
  Gen.GenTypedBuf Gen.GenMessages Gen.GenCodecs Model.C18GoLib Gen.GenC18Lazy
  Model.TypedBuf Model.Messages Model.Codecs Model.RelayLazy Model.C18LazyFrame
  Proofs.GenTypedBufP Proofs.GenMessagesP Proofs.GenCodecsP Proofs.C18LazyP.
Import ListNotations.
Local Open Scope Z_scope.

(* ================= buffer primitives used by the lazy parsers ================= *)
Lemma c18_rd_bytes g n : bokR g -> 0 <= n ->
  exists b g', ReadBuffer_ReadBytes g n = Some (b, g') /\
               (bs_list b, absR g') = r_bytes (Z.to_nat n) (absR g) /\ bokR g'.
Proof.
  intros B Hn. pose proof (ReadBytes_agrees g n Hn) as H. apply viewR_some in H as (b & g' & E & V & S).
  exists b, g'. split; [exact E|]. split; [apply pair_eq; assumption|].
  unfold bokR. change (bs_list (ReadBuffer_remaining g')) with (rrem (absR g')). rewrite S. apply bok_r_bytes, B.
Qed.

Lemma c18_rd_skip g n : bokR g -> 0 <= n ->
  exists g', ReadBuffer_SkipBytes g n = Some g' /\ absR g' = snd (r_bytes (Z.to_nat n) (absR g)) /\ bokR g'.
Proof.
  intros B Hn. pose proof (SkipBytes_agrees g n Hn) as H.
  destruct (ReadBuffer_SkipBytes g n) as [g'|]; cbn in H; [|discriminate]. injection H as S.
  exists g'. split; [reflexivity|]. split; [exact S|].
  unfold bokR. change (bs_list (ReadBuffer_remaining g')) with (rrem (absR g')). rewrite S. apply bok_r_bytes, B.
Qed.

Lemma c18_err_abs g : ReadBuffer_Err g = Some (ReadBuffer_err g) /\ negb (ReadBuffer_err g =? 0) = rerr (absR g).
Proof. split; reflexivity. Qed.

Lemma c18_remaining g : ReadBuffer_BytesRemaining g = Some (zlen (rrem (absR g))).
Proof. apply BytesRemaining_agrees. Qed.

Lemma c18_cs_size t : ChecksumType_ChecksumSize t = Some (ChecksumSize t) /\ 0 <= ChecksumSize t.
Proof.
  unfold ChecksumType_ChecksumSize, ChecksumSize.
  destruct (t =? c_ChecksumTypeNone); [split; [reflexivity|lia]|].
  destruct ((t =? c_ChecksumTypeCrc32) || (t =? c_ChecksumTypeCrc32C)); [split; [reflexivity|lia]|].
  destruct (t =? c_ChecksumTypeFarmhash); split; try reflexivity; lia.
Qed.

(* ================= the hinted helpers ================= *)
(* the pure forms used in the `&&` operands are the translated functions whenever the frame's
   payload array is not empty (it never is: the array has the pool's frame size) *)
Lemma c18_has_more_tie f : 1 <= bs_len (Frame_Payload f) ->
  Gen.GenC18Lazy.hasMoreFragments f = Some (c18_has_more (Frame_Payload f)) /\
  forall cr, lazyCallReq_Frame cr = f -> lazyCallReq_HasMoreFragments cr = Some (c18_has_more (Frame_Payload f)).
Proof.
  intros H. assert (E : bs_index (Frame_Payload f) c_u_flagsIndex = Some (nth (Z.to_nat c_u_flagsIndex) (bs_list (Frame_Payload f)) 0)).
  { unfold bs_index. change c_u_flagsIndex with 0.
    destruct ((0 <? 0) || (bs_len (Frame_Payload f) <=? 0)) eqn:C; [lia|reflexivity]. }
  split.
  - unfold Gen.GenC18Lazy.hasMoreFragments. rewrite E. reflexivity.
  - intros cr Hc. unfold lazyCallReq_HasMoreFragments. rewrite Hc, E. reflexivity.
Qed.

(* f.SizedPayload() is a prefix of the payload array *)
Lemma c18_sized_prefix f sp : Frame_SizedPayload f = Some sp ->
  exists n, 0 <= n <= bs_len (Frame_Payload f) /\ n <= 65535 /\
            bs_list sp = firstn (Z.to_nat n) (bs_list (Frame_Payload f)).
Proof.
  unfold Frame_SizedPayload, FrameHeader_PayloadSize.
  set (n := wrapU 16 (FrameHeader_size (Frame_Header f) - c_FrameHeaderSize)).
  assert (Hn : 0 <= n < 65536) by (apply (wrapU_range 16); lia).
  unfold bs_slice. destruct ((0 <? 0) || (n <? 0) || (bs_len (Frame_Payload f) <? n)) eqn:C; [discriminate|].
  intros H. exists n. split; [lia|]. split; [lia|].
  destruct (Frame_Payload f) as [l|]; inversion H; subst sp; cbn [bs_list].
  - rewrite Z.sub_0_r. reflexivity.
  - rewrite firstn_nil. reflexivity.
Qed.

(* ================= the header loop of newLazyCallReq ================= *)
Definition c18_hs_of (cr : lazyCallReq) : hsel :=
  mkHsel (bs_list (lazyCallReq_as cr)) (bs_list (lazyCallReq_caller cr))
         (bs_list (lazyCallReq_delegate cr)) (bs_list (lazyCallReq_key cr)).
(* the fields the loop does not touch *)
Definition c18_rest_of (cr : lazyCallReq) :=
  (lazyCallReq_Frame cr, lazyCallReq_checksumTypeOffset cr, lazyCallReq_arg2StartOffset cr,
   lazyCallReq_arg2EndOffset cr, lazyCallReq_arg3StartOffset cr, lazyCallReq_method cr,
   lazyCallReq_checksumType cr, lazyCallReq_isArg2Fragmented cr).

Lemma c18_req_hdr_loop (body : Z -> ReadBuffer * lazyCallReq -> option (ReadBuffer * lazyCallReq)) :
  (forall i rbuf cr, body i (rbuf, cr) =
     match ReadBuffer_ReadSingleByte rbuf with None => None | Some (kl, g1) =>
     match ReadBuffer_ReadBytes g1 (wrapS 64 kl) with None => None | Some (key, g2) =>
     match ReadBuffer_ReadSingleByte g2 with None => None | Some (vl, g3) =>
     match ReadBuffer_ReadBytes g3 (wrapS 64 vl) with None => None | Some (val, g4) =>
       if c18_bytes_equal key (Some c_ArgScheme) then Some (g4, set_lazyCallReq_as val cr)
       else if c18_bytes_equal key (Some c_CallerName) then Some (g4, set_lazyCallReq_caller val cr)
       else if c18_bytes_equal key (Some c_RoutingDelegate) then Some (g4, set_lazyCallReq_delegate val cr)
       else if c18_bytes_equal key (Some c_RoutingKey) then Some (g4, set_lazyCallReq_key val cr)
       else Some (g4, cr)
     end end end end) ->
  forall n i g cr, bokR g ->
    exists g' cr', go_for_nat n i body (g, cr) = Some (g', cr') /\
      (c18_hs_of cr', absR g') = lazy_hdrs n (c18_hs_of cr) (absR g) /\ bokR g' /\
      c18_rest_of cr' = c18_rest_of cr.
Proof.
  intros Hb. induction n as [|n IH]; intros i g cr B.
  - exists g, cr. cbn. auto.
  - cbn [go_for_nat lazy_hdrs]. rewrite Hb. unfold r_len8, r_string. unfold bindR.
    destruct (rd_u8 g B) as (kl & g1 & E1 & M1 & B1 & R1). rewrite E1, <- M1.
    rewrite (wrapS_id 64 kl) by (cbn; lia).
    destruct (c18_rd_bytes g1 kl B1 ltac:(lia)) as (key & g2 & E2 & M2 & B2). rewrite E2, <- M2.
    destruct (rd_u8 g2 B2) as (vl & g3 & E3 & M3 & B3 & R3). rewrite E3, <- M3.
    rewrite (wrapS_id 64 vl) by (cbn; lia).
    destruct (c18_rd_bytes g3 vl B3 ltac:(lia)) as (val & g4 & E4 & M4 & B4). rewrite E4, <- M4.
    assert (U : forall cr1, c18_hs_of cr1 = hsel_upd (c18_hs_of cr) (bs_list key) (bs_list val) ->
                c18_rest_of cr1 = c18_rest_of cr ->
                exists g' cr', go_for_nat n (i + 1) body (g4, cr1) = Some (g', cr') /\
                  (c18_hs_of cr', absR g') = lazy_hdrs n (hsel_upd (c18_hs_of cr) (bs_list key) (bs_list val)) (absR g4) /\
                  bokR g' /\ c18_rest_of cr' = c18_rest_of cr).
    { intros cr1 H1 H2. destruct (IH (i + 1) g4 cr1 B4) as (g' & cr' & E & M & B' & R').
      exists g', cr'. rewrite <- H1, <- H2. auto. }
    unfold c18_bytes_equal. cbn [bs_list].
    destruct (bytes_eqb (bs_list key) c_ArgScheme) eqn:K1.
    { apply U; [unfold hsel_upd; rewrite K1; reflexivity|reflexivity]. }
    destruct (bytes_eqb (bs_list key) c_CallerName) eqn:K2.
    { apply U; [unfold hsel_upd; rewrite K1, K2; reflexivity|reflexivity]. }
    destruct (bytes_eqb (bs_list key) c_RoutingDelegate) eqn:K3.
    { apply U; [unfold hsel_upd; rewrite K1, K2, K3; reflexivity|reflexivity]. }
    destruct (bytes_eqb (bs_list key) c_RoutingKey) eqn:K4.
    { apply U; [unfold hsel_upd; rewrite K1, K2, K3, K4; reflexivity|reflexivity]. }
    apply U; [unfold hsel_upd; rewrite K1, K2, K3, K4; destruct (c18_hs_of cr); reflexivity|reflexivity].
Qed.

(* ================= newLazyCallReq ================= *)
Definition c18_abs_lazy (cr : lazyCallReq) : lazyreq :=
  mkLazy (lazyCallReq_checksumTypeOffset cr) (lazyCallReq_checksumType cr) (bs_list (lazyCallReq_method cr))
         (lazyCallReq_arg2StartOffset cr) (lazyCallReq_arg2EndOffset cr) (lazyCallReq_isArg2Fragmented cr)
         (lazyCallReq_arg3StartOffset cr) (bs_list (lazyCallReq_as cr)) (bs_list (lazyCallReq_caller cr))
         (bs_list (lazyCallReq_delegate cr)) (bs_list (lazyCallReq_key cr)).

Ltac c18_proj :=
  cbn [lazyCallReq_Frame lazyCallReq_checksumTypeOffset lazyCallReq_arg2StartOffset lazyCallReq_arg2EndOffset
       lazyCallReq_arg3StartOffset lazyCallReq_caller lazyCallReq_method lazyCallReq_delegate lazyCallReq_key
       lazyCallReq_as lazyCallReq_checksumType lazyCallReq_isArg2Fragmented
       set_lazyCallReq_Frame set_lazyCallReq_checksumTypeOffset set_lazyCallReq_arg2StartOffset
       set_lazyCallReq_arg2EndOffset set_lazyCallReq_arg3StartOffset set_lazyCallReq_caller
       set_lazyCallReq_method set_lazyCallReq_delegate set_lazyCallReq_key set_lazyCallReq_as
       set_lazyCallReq_checksumType set_lazyCallReq_isArg2Fragmented].

Lemma c18_nth0_firstn (l : list Z) k : (1 <= k)%nat -> nth 0 (firstn k l) 0 = nth 0 l 0.
Proof. intros H. destruct k; [lia|]. destruct l; reflexivity. Qed.

Lemma c18_snd_eq {A B} (a : A) (b : B) x : (a, b) = x -> b = snd x.
Proof. intros <-. reflexivity. Qed.

Lemma c18_sticky n r : rerr r = true -> rerr (snd (r_bytes n r)) = true.
Proof. intros H. unfold r_bytes. rewrite H. exact H. Qed.

Lemma c18_skip_pair n r : r_bytes n r = (fst (r_bytes n r), snd (r_bytes n r)).
Proof. destruct (r_bytes n r); reflexivity. Qed.

Theorem c18_newLazyCallReq_agrees f sp :
  bytes_ok (bs_list (Frame_Payload f)) = true -> 1 <= bs_len (Frame_Payload f) ->
  Frame_SizedPayload f = Some sp ->
  exists cr e, newLazyCallReq f = Some (cr, e) /\
    (e =? 0) = (fst (lazy_callreq (bs_list sp)) =? 0) /\
    (e = 0 -> c18_abs_lazy cr = snd (lazy_callreq (bs_list sp)) /\ lazyCallReq_Frame cr = f).
Proof.
  intros Hb Hne Hsp. destruct (c18_sized_prefix f sp Hsp) as (n & Hn & Hn16 & Hp).
  assert (Bp : bytes_ok (bs_list sp) = true) by (rewrite Hp; apply c18_bok_firstn, Hb).
  destruct (lazy_callreq (bs_list sp)) as [code lz] eqn:EL. cbn [fst snd].
  unfold newLazyCallReq. rewrite Hsp. cbn [NewReadBuffer].
  set (g0 := mk_ReadBuffer sp 0).
  assert (B0 : bokR g0) by exact Bp.
  assert (A0 : absR g0 = rb (bs_list sp)) by reflexivity.
  unfold lazy_callreq in EL. rewrite <- A0 in EL.
  destruct (c18_rd_skip g0 c_u_serviceLenIndex B0 ltac:(unfold c_u_serviceLenIndex; lia)) as (g1 & E1 & M1 & B1). rewrite E1.
  rewrite (c18_skip_pair (Z.to_nat c_u_serviceLenIndex) (absR g0)), <- M1 in EL.
  destruct (rd_u8 g1 B1) as (sl & g2 & E2 & M2 & B2 & R2). rewrite E2. rewrite <- M2 in EL.
  rewrite (wrapS_id 64 sl) by (cbn; lia).
  destruct (c18_rd_skip g2 sl B2 ltac:(lia)) as (g3 & E3 & M3 & B3). rewrite E3.
  rewrite (c18_skip_pair (Z.to_nat sl) (absR g2)), <- M3 in EL.
  destruct (rd_u8 g3 B3) as (nh & g4 & E4 & M4 & B4 & R4). rewrite E4. rewrite <- M4 in EL.
  rewrite (wrapS_id 64 nh) by (cbn; lia). unfold go_for.
  set (cr0 := mk_lazyCallReq f 0 0 0 0 None None None None None 0 false).
  match goal with |- context [go_for_nat _ 0 ?body (g4, cr0)] =>
    destruct (c18_req_hdr_loop body (fun _ _ _ => eq_refl) (Z.to_nat nh) 0 g4 cr0 B4) as (g5 & cr5 & E5 & M5 & B5 & R5)
  end.
  rewrite E5. change (c18_hs_of cr0) with (mkHsel [] [] [] []) in M5. rewrite <- M5 in EL.
  unfold c18_BytesRead.
  destruct cr5 as [fr5 o1 o2 o3 o4 cn5 m5 d5 k5 as5 ct5 fg5]. cbn in R5. inversion R5; subst; clear R5.
  c18_proj.
  destruct (rd_u8 g5 B5) as (ct & g6 & E6 & M6 & B6 & R6). rewrite E6. rewrite <- M6 in EL. c18_proj.
  rewrite (wrapU8_id ct R6).
  destruct (ct >=? c_checksumCount) eqn:Ect.
  { inversion EL; subst. eexists _, _. split; [reflexivity|]. split; [reflexivity|]. intros X; discriminate X. }
  destruct (c18_cs_size ct) as [Ecs Hcs]. rewrite Ecs.
  destruct (c18_rd_skip g6 (ChecksumSize ct) B6 Hcs) as (g7 & E7 & M7 & B7). rewrite E7.
  rewrite (c18_skip_pair (Z.to_nat (ChecksumSize ct)) (absR g6)), <- M7 in EL.
  destruct (rd_u16 g7 B7) as (a1len & g8 & E8 & M8 & B8 & R8). rewrite E8. rewrite <- M8 in EL.
  rewrite (wrapS_id 64 a1len) by (cbn; lia).
  destruct (c18_rd_bytes g8 a1len B8 ltac:(lia)) as (method & g9 & E9 & M9 & B9). rewrite E9. rewrite <- M9 in EL.
  destruct (rd_u16 g9 B9) as (a2len & g10 & E10 & M10 & B10 & R10). rewrite E10. rewrite <- M10 in EL.
  rewrite (wrapS_id 64 a2len) by (cbn; lia). c18_proj.
  destruct (c18_rd_skip g10 a2len B10 ltac:(lia)) as (g11 & E11 & M11 & B11). rewrite E11.
  rewrite (c18_skip_pair (Z.to_nat a2len) (absR g10)), <- M11 in EL.
  rewrite (c18_remaining g11). c18_proj.
  (* the more-fragments bit: read from the array by the code, from the sized payload by the model;
     the same byte whenever the first read succeeded *)
  assert (HM : rerr (absR g11) = false ->
               c18_has_more (Frame_Payload f) = GenFrame.hasMoreFragments (nth 0 (bs_list sp) 0)).
  { intros Er.
    assert (RL : c18_rle (absR g11) (absR g1)).
    { rewrite M11. eapply c18_rle_trans; [apply c18_r_bytes_rle|].
      rewrite (c18_snd_eq _ _ _ M10). eapply c18_rle_trans; [apply c18_r_uint_rle|].
      rewrite (c18_snd_eq _ _ _ M9). eapply c18_rle_trans; [apply c18_r_bytes_rle|].
      rewrite (c18_snd_eq _ _ _ M8). eapply c18_rle_trans; [apply c18_r_uint_rle|].
      rewrite M7. eapply c18_rle_trans; [apply c18_r_bytes_rle|].
      rewrite (c18_snd_eq _ _ _ M6). eapply c18_rle_trans; [apply c18_r_uint_rle|].
      rewrite (c18_snd_eq _ _ _ M5). eapply c18_rle_trans; [apply c18_lazy_hdrs_rle|].
      rewrite (c18_snd_eq _ _ _ M4). eapply c18_rle_trans; [apply c18_r_uint_rle|].
      rewrite M3. eapply c18_rle_trans; [apply c18_r_bytes_rle|].
      rewrite (c18_snd_eq _ _ _ M2). apply c18_r_uint_rle. }
    destruct (RL Er) as [Er1 _]. rewrite M1, A0 in Er1.
    destruct (c18_r_bytes_ok _ _ Er1) as (_ & L30 & _). cbn [rb rrem] in L30.
    change (Z.to_nat c_u_serviceLenIndex) with 30%nat in L30.
    unfold c18_has_more, GenFrame.hasMoreFragments. change (Z.to_nat c_u_flagsIndex) with 0%nat.
    rewrite Hp. rewrite c18_nth0_firstn; [reflexivity|].
    rewrite Hp, firstn_length in L30. lia. }
  set (b1 := zlen (rrem (absR g11)) =? 0) in *.
  destruct (rerr (absR g11)) eqn:Er11.
  - (* a read failed: rejected on both paths *)
    assert (Ec : code = 11).
    { destruct (b1 && GenFrame.hasMoreFragments (nth 0 (bs_list sp) 0)).
      - rewrite Er11 in EL. inversion EL. reflexivity.
      - rewrite (c18_skip_pair 2 (absR g11)) in EL.
        assert (S : rerr (snd (r_bytes 2 (absR g11))) = true) by (apply c18_sticky, Er11).
        rewrite S in EL. inversion EL. reflexivity. }
    subst code.
    assert (Ne : (ReadBuffer_err g11 =? 0) = false).
    { unfold absR in Er11. cbn [rerr] in Er11. destruct (ReadBuffer_err g11 =? 0); [discriminate|reflexivity]. }
    destruct (negb (b1 && c18_has_more (Frame_Payload f))).
    + destruct (c18_rd_skip g11 2 B11 ltac:(lia)) as (g12 & E12 & M12 & B12). rewrite E12.
      change (Z.to_nat 2) with 2%nat in M12.
      assert (S : rerr (absR g12) = true) by (rewrite M12; apply c18_sticky, Er11).
      unfold ReadBuffer_Err. unfold absR in S. cbn [rerr] in S. rewrite S.
      eexists _, _. split; [reflexivity|]. split.
      * destruct (ReadBuffer_err g12 =? 0); [discriminate S|reflexivity].
      * intros X. rewrite X in S. discriminate S.
    + unfold ReadBuffer_Err. rewrite Ne. cbn [negb].
      eexists _, _. split; [reflexivity|]. split; [rewrite Ne; reflexivity|].
      intros X. rewrite X in Ne. discriminate Ne.
  - (* every read so far succeeded *)
    rewrite (HM eq_refl).
    assert (Z11 : (ReadBuffer_err g11 =? 0) = true).
    { unfold absR in Er11. cbn [rerr] in Er11. destruct (ReadBuffer_err g11 =? 0); [reflexivity|discriminate]. }
    destruct (b1 && GenFrame.hasMoreFragments (nth 0 (bs_list sp) 0)) eqn:Fr; cbn [negb].
    + unfold ReadBuffer_Err. rewrite Z11. cbn [negb]. rewrite Er11 in EL. inversion EL; subst code lz.
      eexists _, _. split; [reflexivity|]. split; [reflexivity|]. intros _. split; reflexivity.
    + destruct (c18_rd_skip g11 2 B11 ltac:(lia)) as (g12 & E12 & M12 & B12). rewrite E12.
      change (Z.to_nat 2) with 2%nat in M12.
      rewrite (c18_skip_pair 2 (absR g11)), <- M12 in EL.
      unfold ReadBuffer_Err.
      destruct (rerr (absR g12)) eqn:Er12.
      * inversion EL; subst code lz.
        unfold absR in Er12. cbn [rerr] in Er12. rewrite Er12.
        eexists _, _. split; [reflexivity|]. split.
        -- destruct (ReadBuffer_err g12 =? 0); [discriminate Er12|reflexivity].
        -- intros X. rewrite X in Er12. discriminate Er12.
      * inversion EL; subst code lz.
        unfold absR in Er12. cbn [rerr] in Er12. rewrite Er12.
        eexists _, _. split; [reflexivity|]. split; [reflexivity|]. intros _. split; reflexivity.
Qed.

(* ================= newLazyCallRes ================= *)
Lemma c18_res_hdr_loop (body : Z -> ReadBuffer * bslice -> option (ReadBuffer * bslice)) :
  (forall i rbuf a, body i (rbuf, a) =
     match ReadBuffer_ReadSingleByte rbuf with None => None | Some (kl, g1) =>
     match ReadBuffer_ReadBytes g1 (wrapS 64 kl) with None => None | Some (key, g2) =>
     match ReadBuffer_ReadSingleByte g2 with None => None | Some (vl, g3) =>
     match ReadBuffer_ReadBytes g3 (wrapS 64 vl) with None => None | Some (val, g4) =>
       if c18_bytes_equal key (Some c_ArgScheme) then Some (g4, val) else Some (g4, a)
     end end end end) ->
  forall n i g a, bokR g ->
    exists g' a', go_for_nat n i body (g, a) = Some (g', a') /\
      (bs_list a', absR g') = lazyres_hdrs n (bs_list a) (absR g) /\ bokR g'.
Proof.
  intros Hb. induction n as [|n IH]; intros i g a B.
  - exists g, a. cbn. auto.
  - cbn [go_for_nat lazyres_hdrs]. rewrite Hb. unfold r_len8, r_string. unfold bindR.
    destruct (rd_u8 g B) as (kl & g1 & E1 & M1 & B1 & R1). rewrite E1, <- M1.
    rewrite (wrapS_id 64 kl) by (cbn; lia).
    destruct (c18_rd_bytes g1 kl B1 ltac:(lia)) as (key & g2 & E2 & M2 & B2). rewrite E2, <- M2.
    destruct (rd_u8 g2 B2) as (vl & g3 & E3 & M3 & B3 & R3). rewrite E3, <- M3.
    rewrite (wrapS_id 64 vl) by (cbn; lia).
    destruct (c18_rd_bytes g3 vl B3 ltac:(lia)) as (val & g4 & E4 & M4 & B4). rewrite E4, <- M4.
    unfold c18_bytes_equal. cbn [bs_list].
    destruct (bytes_eqb (bs_list key) c_ArgScheme); apply IH, B4.
Qed.

Definition c18_abs_lazyres (cr : lazyCallRes) : lazyres :=
  mkLazyRes (bs_list (lazyCallRes_as cr)) (lazyCallRes_arg2IsFragmented cr) (bs_list (lazyCallRes_arg2Payload cr)).

Theorem c18_newLazyCallRes_agrees f sp :
  bytes_ok (bs_list (Frame_Payload f)) = true -> Frame_SizedPayload f = Some sp ->
  let fl := nth 0 (bs_list (Frame_Payload f)) 0 in
  exists cr e, newLazyCallRes f = Some (cr, e) /\
    (e =? 0) = (fst (lazy_callres fl (bs_list sp)) =? 0) /\
    (e = 0 -> c18_abs_lazyres cr = snd (lazy_callres fl (bs_list sp)) /\ lazyCallRes_Frame cr = f).
Proof.
  intros Hb Hsp fl. destruct (c18_sized_prefix f sp Hsp) as (n & Hn & Hn16 & Hp).
  assert (Bp : bytes_ok (bs_list sp) = true) by (rewrite Hp; apply c18_bok_firstn, Hb).
  destruct (lazy_callres fl (bs_list sp)) as [code lr] eqn:EL. cbn [fst snd].
  unfold newLazyCallRes. rewrite Hsp. cbn [NewReadBuffer].
  set (g0 := mk_ReadBuffer sp 0).
  assert (B0 : bokR g0) by exact Bp.
  assert (A0 : absR g0 = rb (bs_list sp)) by reflexivity.
  unfold lazy_callres in EL. rewrite <- A0 in EL.
  destruct (c18_rd_skip g0 1 B0 ltac:(lia)) as (g1 & E1 & M1 & B1). rewrite E1.
  change (Z.to_nat 1) with 1%nat in M1. rewrite (c18_skip_pair 1 (absR g0)), <- M1 in EL.
  destruct (c18_rd_skip g1 1 B1 ltac:(lia)) as (g2 & E2 & M2 & B2). rewrite E2.
  change (Z.to_nat 1) with 1%nat in M2. rewrite (c18_skip_pair 1 (absR g1)), <- M2 in EL.
  destruct (c18_rd_skip g2 c_u_spanLength B2 ltac:(unfold c_u_spanLength; lia)) as (g3 & E3 & M3 & B3). rewrite E3.
  rewrite (c18_skip_pair (Z.to_nat c_u_spanLength) (absR g2)), <- M3 in EL.
  destruct (rd_u8 g3 B3) as (nh & g4 & E4 & M4 & B4 & R4). rewrite E4. rewrite <- M4 in EL.
  rewrite (wrapS_id 64 nh) by (cbn; lia). unfold go_for.
  match goal with |- context [go_for_nat _ 0 ?body (g4, None)] =>
    destruct (c18_res_hdr_loop body (fun _ _ _ => eq_refl) (Z.to_nat nh) 0 g4 None B4) as (g5 & as5 & E5 & M5 & B5)
  end.
  unfold bslice in *. rewrite E5. cbn [bs_list] in M5. rewrite <- M5 in EL.
  destruct (rd_u8 g5 B5) as (ct & g6 & E6 & M6 & B6 & R6). rewrite E6. rewrite <- M6 in EL.
  rewrite (wrapU8_id ct R6).
  destruct (c18_cs_size ct) as [Ecs Hcs]. rewrite Ecs.
  destruct (c18_rd_skip g6 (ChecksumSize ct) B6 Hcs) as (g7 & E7 & M7 & B7). rewrite E7.
  rewrite (c18_skip_pair (Z.to_nat (ChecksumSize ct)) (absR g6)), <- M7 in EL.
  destruct (rd_u16 g7 B7) as (n1 & g8 & E8 & M8 & B8 & R8). rewrite E8. rewrite <- M8 in EL.
  rewrite (wrapS_id 64 n1) by (cbn; lia).
  destruct (c18_rd_skip g8 n1 B8 ltac:(lia)) as (g9 & E9 & M9 & B9). rewrite E9.
  rewrite (c18_skip_pair (Z.to_nat n1) (absR g8)), <- M9 in EL.
  destruct (rd_u16 g9 B9) as (n2 & g10 & E10 & M10 & B10 & R10). rewrite E10. rewrite <- M10 in EL.
  rewrite (wrapS_id 64 n2) by (cbn; lia).
  destruct (c18_rd_bytes g10 n2 B10 ltac:(lia)) as (a2 & g11 & E11 & M11 & B11). rewrite E11. rewrite <- M11 in EL.
  rewrite (c18_remaining g11). unfold ReadBuffer_Err.
  change (c18_has_more (Frame_Payload f)) with (GenFrame.hasMoreFragments fl).
  destruct (rerr (absR g11)) eqn:Er11; inversion EL; subst code lr;
    unfold absR in Er11; cbn [rerr] in Er11; rewrite Er11.
  - eexists _, _. split; [reflexivity|]. split; [reflexivity|]. intros X; discriminate X.
  - eexists _, _. split; [reflexivity|]. split; [reflexivity|]. intros _. split; reflexivity.
Qed.

(* ================= what the generated accessors do on an ACCEPTED frame ================= *)
Lemma c18_bs_go (l : list Z) lo hi : bs_slice (Some l) lo hi = option_map (fun b => Some b) (go_slice l lo hi).
Proof.
  unfold bs_slice, go_slice, slice. change (bs_len (Some l)) with (zlen l).
  destruct ((lo <? 0) || (hi <? lo) || (zlen l <? hi)); reflexivity.
Qed.

Lemma c18_NewKV_total buf : bytes_ok (bs_list buf) = true -> NewKeyValIterator buf <> None.
Proof.
  intros B. rewrite (NewKeyValIterator_agrees buf B). destruct (bs_len buf <? 2) eqn:L; [discriminate|].
  apply Z.ltb_ge in L.
  set (i := mk_KeyValIterator (rd_drop buf 2) (unbe (firstn 2 (bs_list buf))) None None).
  destruct (KeyValIterator_Next_agrees i) as (res & E & _).
  - unfold i. cbn [KeyValIterator_remaining]. destruct buf as [l|]; cbn [rd_drop bs_list] in *; [|reflexivity].
    apply c18_bok_skipn, B.
  - unfold i. cbn [KeyValIterator_leftPairCount].
    pose proof (unbe_range (firstn 2 (bs_list buf)) (c18_bok_firstn 2 _ B)) as U.
    assert (Hl : (length (firstn 2 (bs_list buf)) <= 2)%nat) by apply firstn_le_length.
    assert (256 ^ Z.of_nat (length (firstn 2 (bs_list buf))) <= 256 ^ 2) by (apply Z.pow_le_mono_r; lia).
    change (256 ^ 2) with 65536 in *. change (2 ^ 63) with 9223372036854775808. lia.
  - rewrite E. discriminate.
Qed.

Theorem c18_gen_lazyreq_safe f sp cr :
  bytes_ok (bs_list (Frame_Payload f)) = true -> 1 <= bs_len (Frame_Payload f) ->
  Frame_SizedPayload f = Some sp -> newLazyCallReq f = Some (cr, 0) ->
  exists lz, lazy_callreq (bs_list sp) = (0, lz) /\ c18_abs_lazy cr = lz /\
    lazyCallReq_Arg2Iterator cr <> None /\
    option_map bs_list (lazyCallReq_arg2 cr) = Some (lz_arg2 (bs_list sp) lz) /\
    option_map bs_list (lazyCallReq_arg3 cr) = Some (lz_arg3 (bs_list sp) lz).
Proof.
  intros Hb Hne Hsp Hacc.
  destruct (c18_newLazyCallReq_agrees f sp Hb Hne Hsp) as (cr' & e' & E & C & A).
  rewrite Hacc in E. inversion E; subst cr' e'; clear E.
  destruct (lazy_callreq (bs_list sp)) as [code lz] eqn:EL. cbn [fst snd] in C, A.
  change (0 =? 0) with true in C. symmetry in C. apply Z.eqb_eq in C. subst code.
  destruct (A eq_refl) as [Ab Fr]. exists lz. split; [reflexivity|]. split; [exact Ab|].
  destruct (c18_sized_prefix f sp Hsp) as (n & Hn & Hn16 & Hp).
  destruct (Frame_Payload f) as [l|] eqn:Pl; [|unfold bs_len in Hne; cbn in Hne; unfold zlen in Hne; cbn in Hne; lia].
  cbn [bs_list] in *. change (bs_len (Some l)) with (zlen l) in *.
  destruct (c18_lazy_arg2_sized l n lz Hb Hn Hn16) as (A2 & A3 & _); [rewrite <- Hp; exact EL|].
  rewrite <- Hp in A2, A3.
  assert (S2 : lazyCallReq_arg2StartOffset cr = lz_a2start lz) by (rewrite <- Ab; reflexivity).
  assert (E2 : lazyCallReq_arg2EndOffset cr = lz_a2end lz) by (rewrite <- Ab; reflexivity).
  assert (S3 : lazyCallReq_arg3StartOffset cr = lz_a3start lz) by (rewrite <- Ab; reflexivity).
  assert (G2 : bs_slice (Some l) (lz_a2start lz) (lz_a2end lz) = Some (Some (lz_arg2 (bs_list sp) lz))).
  { rewrite c18_bs_go. unfold lazy_arg2_arr in A2. rewrite A2. reflexivity. }
  split; [|split].
  - unfold lazyCallReq_Arg2Iterator. destruct (negb _); [discriminate|].
    rewrite Fr, Pl, S2, E2, G2.
    pose proof (c18_NewKV_total (Some (lz_arg2 (bs_list sp) lz))) as T.
    destruct (NewKeyValIterator (Some (lz_arg2 (bs_list sp) lz))) as [[it e]|]; [discriminate|].
    exfalso. apply T; [|reflexivity]. cbn [bs_list]. unfold lz_arg2, slice.
    apply c18_bok_firstn, c18_bok_skipn. rewrite Hp. apply c18_bok_firstn, Hb.
  - unfold lazyCallReq_arg2. rewrite Fr, Pl, S2, E2, G2. reflexivity.
  - unfold lazyCallReq_arg3. rewrite Fr, Hsp, S3.
    unfold lazy_arg3_sized in A3.
    destruct sp as [s|]; cbn [bs_list] in *.
    + rewrite c18_bs_go. change (bs_len (Some s)) with (zlen s). rewrite A3. reflexivity.
    + unfold go_slice in A3. unfold bs_slice. change (bs_len None) with (zlen (@nil Z)).
      destruct ((lz_a3start lz <? 0) || (zlen [] <? lz_a3start lz) || (zlen [] <? zlen [])); [discriminate A3|].
      cbn. unfold lz_arg3. rewrite skipn_nil. reflexivity.
Qed.

Theorem c18_gen_lazyres_safe f sp cr :
  bytes_ok (bs_list (Frame_Payload f)) = true -> Frame_SizedPayload f = Some sp ->
  newLazyCallRes f = Some (cr, 0) ->
  exists off, 0 <= off /\ off + bs_len (lazyCallRes_arg2Payload cr) <= bs_len sp /\
    bs_list (lazyCallRes_arg2Payload cr) = slice (bs_list sp) off (off + bs_len (lazyCallRes_arg2Payload cr)) /\
    (lazyCallRes_arg2IsFragmented cr = true -> off + bs_len (lazyCallRes_arg2Payload cr) = bs_len sp).
Proof.
  intros Hb Hsp Hacc.
  destruct (c18_newLazyCallRes_agrees f sp Hb Hsp) as (cr' & e' & E & C & A).
  rewrite Hacc in E. inversion E; subst cr' e'; clear E.
  destruct (lazy_callres _ (bs_list sp)) as [code lr] eqn:EL. cbn [fst snd] in C, A.
  change (0 =? 0) with true in C. symmetry in C. apply Z.eqb_eq in C. subst code.
  destruct (A eq_refl) as [Ab _]. destruct (c18_lazyres_arg2 _ _ _ EL) as (off & O1 & O2 & O3 & O4).
  rewrite <- Ab in O2, O3, O4. cbn [c18_abs_lazyres lr_arg2 lr_a2frag] in O2, O3, O4.
  exists off. auto.
Qed.

(* ================= the conjunction stated in Props/C18.v ================= *)
